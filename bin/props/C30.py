"""C30 Delayed controls and sensors read the right past sample.

(a) theorems of Props/C30.v about Model/History.v (index bijection, sortedness invariant, find_index,
    refinement to a time-ordered sample list, ZOH / linear-interpolation meaning, delay exactness, make_data's buffer = MuJoCo's initial buffer);
(b) correspondence: random operation sequences run on the REAL @wp.func / kernels of history.py and on
    the model inside Coq (vm_compute), buffer state compared exactly, interpolated reads with tolerance;
    the same sequences are also checked against an independent ordered-list reference (search stage);
(c) oracle: MJCF models with delayed actuators / delayed and interval sensors stepped in lock-step with
    mujoco.mj_step from put_data, from make_data and after reset_data (all three must agree; the two F5 inputs are kept as
    directed regression cases)."""

from __future__ import annotations

import importlib
import json
import os
import sys
import types

import numpy as np

import propkit
import vlib

MANIFEST = {
  "text": "proof (over R, about the hand-written model Model/History.v whose physical-index function is the one regenerated from history.py and whose find_index is proved equal to the regenerated _history_find_index): physical index is a bijection of [0,n); insert keeps well-formedness and (strict) time order from MuJoCo's initial buffer; find_index brackets t; insert/read refine an ordered-sample-list specification (read depends only on the abstract list); ZOH returns the latest sample not after t; linear reads lie between the neighbours; a delay of k steps returns the control inserted k steps earlier; the buffer installed by make_data / reset_data (model make_data_buf, compared with the real Data.history each run) is MuJoCo's initial buffer, and the explicit all-zero buffer (make_data before the repair of F5) is not (different delayed read). Tested only: model = code (correspondence on the real Warp functions/kernels each run), float32 rounding, the callers in forward.py/sensor.py and io.py (lock-step oracle against MuJoCo)",
  "note": "trusted: Coq kernel; translator (for _history_physical_index and _history_find_index); the hand transcription of insert/read (checked each run against the compiled Warp functions on random operation sequences incl. wrap-around, exact/near time matches, out-of-order inserts); mujoco binary as oracle",
  "technique": "Rocq proof over an executable model + per-run correspondence on the real kernels + differential oracle against MuJoCo",
  "engine": "coq",
}

PROPS = "Props/C30.v"
G = 2.0**-7  # time grid of the generated sequences (exact in float32)
O1 = 2.0**-21  # offset well inside the 1e-6 match tolerance
O2 = 2.0**-18  # offset well outside it
TOL = 1e-4

LAUNCHER = '''
import warp as wp
import mujoco_warp._src.history as H

wp.set_module_options({"enable_backward": False})

@wp.kernel
def k_insert_scalar(off: int, n: int, t: float, v: float, buf: wp.array2d(dtype=float)):
  w = wp.tid()
  H._history_insert_scalar(w, off, n, t, v, buf)

@wp.kernel
def k_insert_vector(off: int, n: int, dim: int, t: float, src: wp.array2d(dtype=float), src_adr: int, buf: wp.array2d(dtype=float)):
  w = wp.tid()
  H._history_insert_vector(w, off, n, dim, t, src, src_adr, buf)

@wp.kernel
def k_read_scalar(buf: wp.array2d(dtype=float), off: int, n: int, t: float, interp: int, out: wp.array2d(dtype=float)):
  w = wp.tid()
  out[w, 0] = H._history_read_scalar(buf, w, off, n, t, interp)

@wp.kernel
def k_read_vector(adr: int, buf: wp.array2d(dtype=float), off: int, n: int, dim: int, t: float, interp: int, out: wp.array2d(dtype=float)):
  w = wp.tid()
  H._history_read_vector(adr, buf, w, off, n, dim, t, interp, out)

@wp.kernel
def k_find_index(buf: wp.array2d(dtype=float), off: int, n: int, t: float, out: wp.array(dtype=int)):
  w = wp.tid()
  cursor = int(buf[w, off + 1])
  out[w] = H._history_find_index(buf, w, off, n, cursor, t)
'''


def launcher():
  import tvalid

  os.makedirs(tvalid.WRAP_DIR, exist_ok=True)
  vlib.write_if_changed(os.path.join(tvalid.WRAP_DIR, "vw_C30.py"), LAUNCHER)
  if tvalid.WRAP_DIR not in sys.path:
    sys.path.insert(0, tvalid.WRAP_DIR)
  return importlib.import_module("vw_C30")


def f32(x):
  return float(np.float32(x))


# ---------------------------------------------------------------------------------------------------
# random operation sequences
# ---------------------------------------------------------------------------------------------------
def _rand_time(rng, known, lo=-1.0, hi=1.0):
  """A time on the grid, or an existing time, possibly displaced by a sub-/super-tolerance offset."""
  r = rng.random()
  if known and r < 0.45:
    base = float(rng.choice(known))
    base = round(base / G) * G  # strip earlier offsets: differences stay in {0, +-O1, +-O2, +-(O2-O1)} + grid
  else:
    base = G * int(rng.integers(int(lo / G), int(hi / G) + 1))
  off = [0.0, O1, O2][int(rng.choice(3, p=[0.6, 0.2, 0.2]))]
  return f32(base + off)


def _rand_val(rng):
  return float(rng.integers(-40, 41)) / 8.0


def gen_case(rng, k):
  n = int(rng.integers(1, 6))
  dim = int(rng.integers(1, 4))
  off = int(rng.choice([0, 3, 7]))
  tail = int(rng.integers(0, 5))
  blen = 2 + n + n * dim
  arr = np.array([_rand_val(rng) for _ in range(off + blen + tail)], dtype=np.float32)
  kind = ["mj", "zero", "rand"][int(rng.choice(3, p=[0.35, 0.15, 0.5]))]
  h = float(rng.choice([2.0**-7, 2.0**-6, 2.0**-5]))
  if kind == "mj":
    cur = n - 1
    times = [-(n - i) * h for i in range(n)]
    vals = [0.0] * (n * dim)
    user = -h
  elif kind == "zero":
    cur, times, vals, user = 0, [0.0] * n, [0.0] * (n * dim), 0.0
  else:
    cur = int(rng.integers(0, n))
    ts = []
    for _ in range(n):
      ts.append(_rand_time(rng, ts, -0.5, 0.0))
    ts = sorted(ts)  # logical order; duplicates and near-duplicates allowed
    times = [0.0] * n
    for l in range(n):
      times[(cur + 1 + l) % n] = ts[l]
    vals = [_rand_val(rng) for _ in range(n * dim)]
    user = G * int(rng.integers(-8, 1))
  arr[off] = user
  arr[off + 1] = cur
  arr[off + 2 : off + 2 + n] = times
  arr[off + 2 + n : off + blen] = vals
  use_scalar = dim == 1 and rng.random() < 0.6
  nops = int(rng.integers(8, 15))
  ops = []
  known = [float(x) for x in times]
  tnow = max(known) if known else 0.0
  mode = rng.random()
  for _ in range(nops):
    r = rng.random()
    if mode < 0.25:  # mostly stepping forward: wrap-around
      r = r * 0.55
    if r < 0.25:  # newer than newest
      tnow = round(tnow / G) * G + G * int(rng.integers(1, 4)) + float(rng.choice([0.0, O1, O2]))
      t = f32(tnow)
      ops.append(["ins", t, [_rand_val(rng) for _ in range(dim)]])
      known.append(t)
    elif r < 0.45:  # anywhere: out-of-order, exact / near matches, before oldest
      t = _rand_time(rng, known, -0.75, max(0.25, tnow + 0.05))
      ops.append(["ins", t, [_rand_val(rng) for _ in range(dim)]])
      known.append(t)
    elif r < 0.8:
      t = _rand_time(rng, known, -0.75, max(0.25, tnow + 0.05))
      if rng.random() < 0.3 and len(known) >= 2:  # strictly between two grid points: real interpolation
        a = float(rng.choice(known))
        t = f32(round(a / G) * G + G * float(rng.choice([0.25, 0.5, 0.375, -0.25, -0.625])))
      ops.append(["read", t, int(rng.integers(0, 3))])
    elif r < 0.9:
      ops.append(["find", _rand_time(rng, known, -0.75, max(0.25, tnow + 0.05))])
    elif r < 0.95 and dim == 1:
      delay = float(rng.choice([0.0, G, 1.5 * G, 2 * G, 2.25 * G]))
      tq = f32(round(tnow / G) * G + G * int(rng.integers(0, 2)))
      ops.append(["ctrl", f32(delay), tq, _rand_val(rng), int(rng.integers(0, 3))])
    else:
      delay = float(rng.choice([0.0, 0.0, G, 1.5 * G, 2 * G]))
      period = float(rng.choice([0.0, 2 * G, 3 * G])) if delay == 0.0 else float(rng.choice([0.0, 0.0, 2 * G]))
      tnow = round(tnow / G) * G + G
      t = f32(tnow)
      ops.append(["sens", int(rng.integers(0, 3)), f32(delay), f32(period), t, [_rand_val(rng) for _ in range(dim)]])
      known.append(t)
  return {"k": k, "n": n, "dim": dim, "off": off, "arr": [float(x) for x in arr], "kind": kind, "scalar": bool(use_scalar), "ops": ops}


# ---------------------------------------------------------------------------------------------------
# the real code
# ---------------------------------------------------------------------------------------------------
def run_real(W, case):
  """Run one operation sequence on the real Warp functions / kernels. Returns (final, states, reads, finds)."""
  import warp as wp

  import mujoco_warp._src.history as H

  n, dim, off = case["n"], case["dim"], case["off"]
  buf = wp.array(np.array([case["arr"]], dtype=np.float32), dtype=float)
  L = buf.shape[1]
  states, reads = [], []
  for op in case["ops"]:
    if op[0] == "ins":
      _, t, v = op
      if case["scalar"]:
        wp.launch(W.k_insert_scalar, dim=1, inputs=[off, n, t, v[0]], outputs=[buf])
      else:
        src = wp.array(np.array([[9.0, 9.0] + list(v)], dtype=np.float32), dtype=float)
        wp.launch(W.k_insert_vector, dim=1, inputs=[off, n, dim, t, src, 2], outputs=[buf])
      states.extend(buf.numpy()[0].tolist())
    elif op[0] == "read":
      _, t, interp = op
      if case["scalar"]:
        out = wp.zeros((1, 1), dtype=float)
        wp.launch(W.k_read_scalar, dim=1, inputs=[buf, off, n, t, interp], outputs=[out])
        reads.extend(out.numpy()[0].tolist())
      else:
        out = wp.array(np.full((1, dim + 3), 77.0, dtype=np.float32), dtype=float)
        wp.launch(W.k_read_vector, dim=1, inputs=[2, buf, off, n, dim, t, interp], outputs=[out])
        o = out.numpy()[0]
        assert o[0] == 77.0 and o[1] == 77.0 and o[-1] == 77.0, "read_vector wrote outside [adr, adr+dim)"
        reads.extend(o[2 : 2 + dim].tolist())
    elif op[0] == "find":
      out = wp.zeros(1, dtype=int)
      wp.launch(W.k_find_index, dim=1, inputs=[buf, off, n, op[1]], outputs=[out])
      reads.append(float(out.numpy()[0]))
    elif op[0] == "ctrl":
      _, delay, tq, ctrl, interp = op
      m = types.SimpleNamespace(
        nhistory=L, nu=1,
        actuator_history=wp.array(np.array([[n, interp]], dtype=np.int32), dtype=wp.vec2i),
        actuator_historyadr=wp.array(np.array([off], dtype=np.int32), dtype=int),
        actuator_delay=wp.array(np.array([delay], dtype=np.float32), dtype=float),
      )  # fmt: skip
      d = types.SimpleNamespace(
        nworld=1, time=wp.array(np.array([tq], dtype=np.float32), dtype=float), history=buf,
        ctrl=wp.array(np.array([[ctrl]], dtype=np.float32), dtype=float),
      )  # fmt: skip
      out = wp.zeros((1, 1), dtype=float)
      H.read_ctrl_delayed(m, d, out)
      reads.extend(out.numpy()[0].tolist())
    elif op[0] == "sens":
      _, interp, delay, period, t, fresh = op
      m = types.SimpleNamespace(
        nhistory=L,
        sensor_dim=wp.array(np.array([dim], dtype=np.int32), dtype=int),
        sensor_adr=wp.array(np.array([1], dtype=np.int32), dtype=int),
        sensor_history=wp.array(np.array([[n, interp]], dtype=np.int32), dtype=wp.vec2i),
        sensor_historyadr=wp.array(np.array([off], dtype=np.int32), dtype=int),
        sensor_delay=wp.array(np.array([delay], dtype=np.float32), dtype=float),
        sensor_interval=wp.array(np.array([[period, 0.0]], dtype=np.float32), dtype=wp.vec2),
      )  # fmt: skip
      d = types.SimpleNamespace(
        nworld=1, time=wp.array(np.array([t], dtype=np.float32), dtype=float), history=buf,
        sensordata=wp.array(np.array([[55.0] + list(fresh) + [66.0]], dtype=np.float32), dtype=float),
      )  # fmt: skip
      H.apply_sensor_delay(m, d, wp.array(np.array([0], dtype=np.int32), dtype=int))
      o = d.sensordata.numpy()[0]
      assert o[0] == 55.0 and o[-1] == 66.0
      reads.extend(o[1 : 1 + dim].tolist())
      states.extend(buf.numpy()[0].tolist())
    else:
      raise ValueError(op[0])
  return buf.numpy()[0].tolist(), states, reads


# ---------------------------------------------------------------------------------------------------
# independent ordered-list reference (search stage: the abstract specification in plain Python, float64)
# ---------------------------------------------------------------------------------------------------
EPS = 1e-6


class RefBuf:
  """Time-ordered list of exactly n samples; insert overwrites a matching time, replaces the oldest by
  an even older sample, otherwise inserts in order and drops the oldest."""

  def __init__(self, arr, off, n, dim):
    cur = int(arr[off + 1])
    self.user = arr[off]
    self.n, self.dim = n, dim
    self.cov = set()  # branches of insert / read taken (coverage of the generated sequences)
    self.s = []
    for l in range(n):
      p = (cur + 1 + l) % n
      self.s.append([arr[off + 2 + p], list(arr[off + 2 + n + p * dim : off + 2 + n + (p + 1) * dim])])

  def find(self, t):
    i = 0
    while i < self.n and self.s[i][0] < t:
      i += 1
    return i

  def insert(self, t, v):
    i = self.find(t)
    if i < self.n and abs(t - self.s[i][0]) < EPS:
      self.cov.add("ins:match" if t == self.s[i][0] else "ins:near-match")
      self.s[i][1] = list(v)
    elif i == 0:
      self.cov.add("ins:older-than-oldest")
      self.s[0] = [t, list(v)]
    else:
      self.cov.add("ins:newest" if i == self.n else ("ins:shift%d" % min(i - 1, 2)))
      self.s.insert(i, [t, list(v)])
      self.s.pop(0)

  def read(self, t, interp):
    s, n = self.s, self.n
    if t <= s[0][0] + EPS:
      self.cov.add("read:before-oldest" if t < s[0][0] else "read:at-oldest")
      return list(s[0][1])
    if t >= s[n - 1][0] - EPS:
      self.cov.add("read:after-newest" if t > s[n - 1][0] else "read:at-newest")
      return list(s[n - 1][1])
    i = self.find(t)
    if abs(t - s[i][0]) < EPS:
      self.cov.add("read:match" if t == s[i][0] else "read:near-match")
      return list(s[i][1])
    self.cov.add("read:interp%d%s" % (interp, "" if interp < 2 else (":lo" if i > 1 else ":nolo") + (":hi" if i < n - 1 else ":nohi")))
    if interp == 0:
      return list(s[i - 1][1])
    dt = s[i][0] - s[i - 1][0]
    a = (t - s[i - 1][0]) / dt
    out = []
    for d in range(self.dim):
      vlo, vhi = s[i - 1][1][d], s[i][1][d]
      if interp == 1:
        out.append(vlo + a * (vhi - vlo))
        continue
      a2, a3 = a * a, a * a * a
      mlo = (vhi - s[i - 2][1][d]) / (s[i][0] - s[i - 2][0]) if i > 1 else 0.0
      mhi = (s[i + 1][1][d] - vlo) / (s[i + 1][0] - s[i - 1][0]) if i < n - 1 else 0.0
      out.append((2 * a3 - 3 * a2 + 1) * vlo + (a3 - 2 * a2 + a) * dt * mlo + (-2 * a3 + 3 * a2) * vhi + (a3 - a2) * dt * mhi)
    return out

  def sorted(self):
    return all(self.s[i][0] <= self.s[i + 1][0] for i in range(self.n - 1))


def ref_run(case):
  """Reads predicted by the ordered-list reference + final ordered list."""
  rb = RefBuf(case["arr"], case["off"], case["n"], case["dim"])
  reads = []
  for op in case["ops"]:
    if op[0] == "ins":
      rb.insert(op[1], op[2])
    elif op[0] == "read":
      reads.extend(rb.read(op[1], op[2]))
    elif op[0] == "find":
      i = rb.find(op[1])
      reads.append(float(i))
    elif op[0] == "ctrl":
      _, delay, tq, ctrl, interp = op
      rb.cov.add("ctrl:no-delay" if delay == 0.0 else "ctrl:delayed")
      reads.append(ctrl if delay == 0.0 else rb.read(f32(tq - delay), interp)[0])
    elif op[0] == "sens":
      _, interp, delay, period, t, fresh = op
      if delay > 0:
        rb.cov.add("sensor:delayed-read")
        reads.extend(rb.read(f32(t - delay), interp))
      elif period > 0 and rb.user + period > t:
        rb.cov.add("sensor:interval-hold")
        reads.extend(rb.read(t, interp))
      else:
        rb.cov.add("sensor:fresh")
        reads.extend(fresh)
      if period > 0:
        if rb.user + period <= t:
          rb.cov.add("sensor:interval-fire")
          rb.user = rb.user + period
          rb.insert(t, fresh)
        else:
          rb.cov.add("sensor:interval-skip")
      else:
        rb.insert(t, fresh)
  return reads, rb


def close(a, b, tol=TOL):
  return len(a) == len(b) and all(abs(x - y) <= tol * (1 + abs(x) + abs(y)) for x, y in zip(a, b))


# ---------------------------------------------------------------------------------------------------
# Coq case lines
# ---------------------------------------------------------------------------------------------------
EXTRA_DEFS = """
Definition feq_list (a b : list float) : bool :=
  Nat.eqb (length a) (length b) && forallb (fun p => PrimFloat.eqb (fst p) (snd p)) (combine a b).
Definition tvf (a b : list float) : nat := if feq_list a b then 0%nat else 2%nat.
Definition hv (tol : float) (r : list float * list float * list float) (efinal estates ereads : list float) : nat :=
  let '(a, st, rd) := r in
  if negb (feq_list a efinal && feq_list st estates) then 2%nat
  else if fl_close tol rd ereads then 0%nat else 3%nat.
"""


def coq_op(op):
  F = vlib.fhex
  if op[0] == "ins":
    return f"OpInsert {F(op[1])} {vlib.flist(op[2])}"
  if op[0] == "read":
    return f"OpRead {F(op[1])} ({op[2]})%Z"
  if op[0] == "find":
    return f"OpFind {F(op[1])}"
  if op[0] == "ctrl":
    return f"OpCtrlRead {F(op[1])} {F(op[2])} {F(op[3])} ({op[4]})%Z"
  if op[0] == "sens":
    return f"OpSensor ({op[1]})%Z {F(op[2])} {F(op[3])} {F(op[4])} {vlib.flist(op[5])}"
  raise ValueError(op[0])


def coq_line(case, final, states, reads):
  ops = "[" + "; ".join(coq_op(o) for o in case["ops"]) + "]"
  return (
    f"hv {vlib.fhex(TOL)} (@run_ops float ScalarF0 {vlib.flist(case['arr'])} ({case['off']})%Z ({case['n']})%Z ({case['dim']})%Z {ops}) "
    f"{vlib.flist(final)} {vlib.flist(states)} {vlib.flist(reads)}"
  )


def logical_times(arr, off, n):
  cur = int(arr[off + 1])
  return [arr[off + 2 + (cur + 1 + l) % n] for l in range(n)]


def correspondence(res, ncases):
  """Returns (n_model_disagreements, spec_failures)."""
  import tvalid

  W = launcher()
  rng = np.random.default_rng(vlib.seed() + 3000)
  lines, metas, spec_fail, cov = [], [], [], {}
  for k in range(ncases):
    case = gen_case(rng, k)
    final, states, reads = run_real(W, case)
    lines.append(coq_line(case, final, states, reads))
    metas.append((case, final, reads))
    # search stage on the real code: the ordered-list specification, checked directly
    rreads, rb = ref_run(case)
    n, dim, off = case["n"], case["dim"], case["off"]
    lt = logical_times(final, off, n)
    cur = int(final[off + 1])
    rows = [final[off + 2 + n + ((cur + 1 + l) % n) * dim : off + 2 + n + ((cur + 1 + l) % n + 1) * dim] for l in range(n)]
    same_abs = all(f32(rb.s[l][0]) == lt[l] and [f32(x) for x in rb.s[l][1]] == list(rows[l]) for l in range(n)) and f32(rb.user) == final[off]
    for c in rb.cov:
      cov[c] = cov.get(c, 0) + 1
      res.nontrivial(("branch", c, n, dim, case["scalar"]))
    untouched = final[:off] == case["arr"][:off] and final[off + 2 + n + n * dim :] == case["arr"][off + 2 + n + n * dim :]
    if not (close(reads, rreads) and same_abs and untouched and 0 <= cur < n and rb.sorted()):
      spec_fail.append({"case": case, "real_final": final, "real_reads": reads, "spec_reads": rreads, "spec_samples": rb.s})
  verdicts = tvalid.run_cases("C30", ["Model.History"], lines, chunk=max(10, (len(lines) + 11) // 12), extra_defs=EXTRA_DEFS)
  bad = []
  for (case, final, reads), v in zip(metas, verdicts):
    res.count()
    if v == 0:
      res.nontrivial(("corr", case["k"]))
      for op in case["ops"]:
        res.nontrivial(("opkind", case["n"], case["dim"], case["scalar"], op[0], op[2] if op[0] == "read" else 0))
    else:
      bad.append({"verdict": v, "case": case, "real_final": final, "real_reads": reads})
  if metas:
    c, f, r = metas[0]
    res.sample({"kind": "correspondence", "case": c, "real_final": f, "real_reads": r})
  res.extra["correspondence"] = {"cases": len(metas), "ops": sum(len(m[0]["ops"]) for m in metas), "model_disagree": len(bad), "spec_disagree": len(spec_fail), "branch_coverage": dict(sorted(cov.items()))}
  return bad, spec_fail


# ---------------------------------------------------------------------------------------------------
# oracle: lock-step against MuJoCo
# ---------------------------------------------------------------------------------------------------
def delayed_xml(rng):
  """Slide/hinge chain with delayed actuators and delayed / interval sensors; dyadic timestep and delays so that
  float32 time accumulation is exact and no comparison is a near-tie."""
  h = float(rng.choice([2.0**-7, 2.0**-6]))
  nj = int(rng.integers(1, 4))
  interp_names = ["zoh", "linear", "cubic"]
  body, close_ = "", ""
  for j in range(nj):
    jt = str(rng.choice(["slide", "hinge"]))
    body += f'<body pos="0 0 {0.2 * (j + 1):.3g}"><joint name="j{j}" type="{jt}" axis="{"1 0 0" if jt == "slide" else "0 1 0"}" damping="0.1"/><geom size="0.05" mass="1"/>'
    close_ += "</body>"
  acts, sens = "", ""
  for j in range(nj):
    ns = int(rng.integers(1, 6))
    frac = float(rng.choice([1.0, 1.5, 2.0, 2.25, 0.5]))
    ksteps = min(frac, ns)  # delay <= nsample * timestep
    delay = ksteps * h
    it = interp_names[int(rng.integers(0, 3))]
    kind = str(rng.choice(["motor", "position"]))
    extra = ' kp="3"' if kind == "position" else ""
    acts += f'<{kind} joint="j{j}"{extra} delay="{delay!r}" nsample="{ns}" interp="{it}"/>'
  for j in range(nj):
    r = rng.random()
    ns = int(rng.integers(1, 5))
    it = interp_names[int(rng.integers(0, 3))]
    st = str(rng.choice(["jointpos", "jointvel"]))
    if r < 0.5:
      delay = min(float(rng.choice([1.0, 1.5, 2.0])), ns) * h
      sens += f'<{st} joint="j{j}" delay="{delay!r}" nsample="{ns}" interp="{it}"/>'
    elif r < 0.8:
      sens += f'<{st} joint="j{j}" interval="{(float(rng.choice([2.0, 3.0])) * h)!r}" nsample="{ns}"/>'
    else:
      sens += f'<{st} joint="j{j}" nsample="{ns}"/>'
  xml = (
    f'<mujoco><option timestep="{h!r}" gravity="0 0 -1"/><worldbody>{body}{close_}</worldbody>'
    f"<actuator>{acts}</actuator><sensor>{sens}</sensor></mujoco>"
  )
  return xml, h


LOCKSTEP_TOL = 1e-4  # on ndiff; a wrong / missing / shifted sample shows up as O(ctrl or sensor change) = 1e-1 .. 1


def ndiff(a, b):
  """max |a-b| / (1 + max(|a|,|b|)) componentwise: absolute for small values, relative for large ones."""
  a, b = np.asarray(a, dtype=np.float64), np.asarray(b, dtype=np.float64)
  if a.size == 0:
    return 0.0
  return float((np.abs(a - b) / (1.0 + np.maximum(np.abs(a), np.abs(b)))).max())


def lockstep(xml, ctrls, start, pre=None):
  """Step mujoco and mujoco_warp with the same controls. start: 'put' | 'make' | 'reset'.
  Returns worst abs differences and the step at which the first disagreement occurs."""
  import mujoco
  import warp as wp

  import mujoco_warp as mjw

  mjm = mujoco.MjModel.from_xml_string(xml)
  mjd = mujoco.MjData(mjm)
  m = mjw.put_model(mjm)
  info = {}
  if start == "put":
    d = mjw.put_data(mjm, mjd)
  elif start == "make":
    d = mjw.make_data(mjm)
  else:  # dirty both sides with the same pre-steps, then reset both
    d = mjw.put_data(mjm, mjd)
    for c in pre:
      mjd.ctrl[:] = c
      wp.copy(d.ctrl, wp.array(np.array([c], dtype=np.float32), dtype=float))
      mujoco.mj_step(mjm, mjd)
      mjw.step(m, d)
    mujoco.mj_resetData(mjm, mjd)
    mjw.reset_data(m, d)
  bufs = []  # (adr, n, dim, spacing h, user slot u) of every history buffer, as MuJoCo documents its initial state
  ts = float(mjm.opt.timestep)
  for i in range(mjm.nu):
    if mjm.actuator_history[i, 0] > 0:
      bufs.append([int(mjm.actuator_historyadr[i]), int(mjm.actuator_history[i, 0]), 1, ts, 0.0])
  for i in range(mjm.nsensor):
    if mjm.sensor_history[i, 0] > 0:
      per = float(mjm.sensor_interval[i, 0])
      hh = per if per > 0 else ts
      bufs.append([int(mjm.sensor_historyadr[i]), int(mjm.sensor_history[i, 0]), int(mjm.sensor_dim[i]), hh, -hh])
  info["buffers"] = bufs
  info["history0_mujoco"] = mjd.history.tolist()
  info["history0_mjwarp"] = d.history.numpy()[0].tolist()
  info["history0_diff"] = float(np.abs(np.array(info["history0_mujoco"]) - np.array(info["history0_mjwarp"])).max()) if mjm.nhistory else 0.0
  worst = {"qpos": 0.0, "actuator_force": 0.0, "sensordata": 0.0, "history": 0.0, "read_ctrl": 0.0}
  first = None
  for s, c in enumerate(ctrls):
    mjd.ctrl[:] = c
    wp.copy(d.ctrl, wp.array(np.array([c], dtype=np.float32), dtype=float))
    mujoco.mj_step(mjm, mjd)
    mjw.step(m, d)
    cur = {
      "qpos": ndiff(mjd.qpos, d.qpos.numpy()[0]),
      "actuator_force": ndiff(mjd.actuator_force, d.actuator_force.numpy()[0]) if mjm.nu else 0.0,
      "sensordata": ndiff(mjd.sensordata, d.sensordata.numpy()[0]) if mjm.nsensordata else 0.0,
      "history": ndiff(mjd.history, d.history.numpy()[0]) if mjm.nhistory else 0.0,
    }
    if mjm.nu:
      out = wp.zeros(1, dtype=float)
      mjw.read_ctrl(m, d, 0, d.time, -1, out)
      cur["read_ctrl"] = ndiff([float(out.numpy()[0])], [float(mujoco.mj_readCtrl(mjm, mjd, 0, mjd.time, -1))])
    # re-synchronise the mechanical state (NOT the history buffers) from the float64 reference after comparing, so that
    # float32 trajectory drift (joint velocities of 50 rad/s differ by 1e-3 after 30 steps) does not accumulate: what
    # is compared at the next step is one step of dynamics + the delay/interval logic on MJWarp's own recorded history
    wp.copy(d.qpos, wp.array(np.array([mjd.qpos], dtype=np.float32), dtype=float))
    wp.copy(d.qvel, wp.array(np.array([mjd.qvel], dtype=np.float32), dtype=float))
    if mjm.na:
      wp.copy(d.act, wp.array(np.array([mjd.act], dtype=np.float32), dtype=float))
    for k2, v in cur.items():
      worst[k2] = max(worst[k2], v)
    obs = max(cur["qpos"], cur["actuator_force"], cur["sensordata"], cur["read_ctrl"])
    if first is None and obs > LOCKSTEP_TOL:
      first = {"step": s, "time": float(mjd.time), **cur}
  info["worst"] = worst
  info["worst_observable"] = max(worst["qpos"], worst["actuator_force"], worst["sensordata"], worst["read_ctrl"])
  info["first_disagreement"] = first
  return info


MIN_XML = (
  '<mujoco><option timestep="0.0078125" gravity="0 0 0"/><worldbody><body><joint name="j0" type="slide"/>'
  '<geom size="0.1" mass="1"/></body></worldbody><actuator><motor joint="j0" delay="0.01171875" nsample="2" interp="linear"/>'
  "</actuator></mujoco>"
)


def oracle(res, nmodels, nsteps):
  rng = np.random.default_rng(vlib.seed() + 3030)
  viol, init_cases = {}, []
  # directed regression of F5 (fixed in /repo) first: n = 2, delay = 1.5 h, linear, ctrl = 1 at the first step -- the
  # input of C30_zero_buffer_not_initial; from make_data and after reset_data it must agree with MuJoCo
  todo = [(MIN_XML, [[1.0], [0.0], [0.0], [0.0]], "minimal")]
  for k in range(nmodels):
    xml, h = delayed_xml(rng)
    import mujoco

    nu = mujoco.MjModel.from_xml_string(xml).nu
    ctrls = [[float(rng.integers(-8, 9)) / 4.0 for _ in range(nu)] for _ in range(nsteps)]
    todo.append((xml, ctrls, f"random{k}"))
  for xml, ctrls, tag in todo:
    pre = ctrls[: max(2, len(ctrls) // 2)]
    for start in ("put", "make", "reset"):
      info = lockstep(xml, ctrls, start, pre)
      res.count()
      w = info["worst"]
      bad = info["worst_observable"] > LOCKSTEP_TOL  # raw history layout may legitimately differ; what is applied / reported may not
      if not bad:
        res.nontrivial(("oracle", tag, start))
      if tag == "minimal" or (tag == "random0" and start == "put"):
        res.sample({"kind": "oracle", "start": start, "xml": xml[:300], "worst": w, "history0_diff": info["history0_diff"]}, cap=8)
      if start == "put":
        key = "C30:put_data:lockstep-mismatch" if bad else None
      elif start == "make":
        key = "C30:make_data:history-init" if bad else None
      else:
        key = "C30:reset_data:history-not-reset" if bad else None
      if key and key not in viol:
        viol[key] = {"xml": xml, "ctrls": ctrls, "start": start, "pre_steps": len(pre), **info}
      if start in ("make", "reset"):
        for adr, n, dim, hh, u in info["buffers"]:
          real = info["history0_mjwarp"][adr : adr + 2 + n + n * dim]
          init_cases.append({"tag": tag, "start": start, "n": n, "dim": dim, "h": hh, "u": u, "real": real})
  return viol, init_cases


def init_correspondence(res, init_cases):
  """Model.make_data_buf (evaluated in Coq) vs the buffers mjw.make_data / mjw.reset_data really install."""
  import tvalid

  F = vlib.fhex
  lines = [
    f"tvf (@encode float ScalarF0 (@make_data_buf float ScalarF0 ({c['n']})%Z ({c['dim']})%Z {F(c['h'])} {F(c['u'])})) {vlib.flist(c['real'])}"
    for c in init_cases
  ]
  if not lines:
    return []
  verdicts = tvalid.run_cases("C30init", ["Model.History"], lines, chunk=max(10, (len(lines) + 3) // 4), extra_defs=EXTRA_DEFS)
  bad = []
  for c, v in zip(init_cases, verdicts):
    res.count()
    if v == 0:
      res.nontrivial(("init", c["tag"], c["start"], c["n"], c["dim"], c["h"]))
    else:
      bad.append(c)
  res.extra["init_correspondence"] = {"buffers": len(init_cases), "disagree": len(bad)}
  return bad


WHAT = {
  "C30:make_data:history-init": "regression of F5: stepped from mjw.make_data, delayed controls / sensors differ from mujoco.mj_step in lock-step (Data.history must start as MuJoCo's initial buffer: cursor n-1, times -n*h..-h, sensor user slot -h, not all zero)",
  "C30:reset_data:history-not-reset": "regression of F5: after mjw.reset_data delayed controls / sensors differ from mujoco.mj_resetData + mj_step in lock-step (Data.history must be restored to the initial buffer; stale samples with times in the future of time=0 were read back)",
  "C30:put_data:lockstep-mismatch": "delayed actuator / sensor stepped from put_data disagrees with mujoco.mj_step",
  "C30:history-funcs:spec-mismatch": "the real history.py functions disagree with the ordered-sample-list specification",
}


def run(res):
  quick = res.tier == "quick"
  res.rule = (
    "correspondence cases: random operation sequences (8-14 ops: in-order / out-of-order / matching / near-matching inserts, reads with "
    "ZOH/linear/cubic at, between, before and after the samples, find_index, the ctrl-delay and sensor delay/interval kernels) on buffers with "
    "n=1..5, dim=1..3, MuJoCo-initial / all-zero / random sorted contents at a non-zero offset; distinct = agreeing sequences + distinct "
    "(n,dim,function,op,interp) combinations; oracle: distinct (model,start) lock-step runs that agree with MuJoCo"
  )
  import time

  t0 = time.time()
  ok, trs, failing = propkit.prove(res, PROPS, gen_names=["history"], required_funcs=["_history_physical_index", "_history_find_index"])
  t1 = time.time()
  bad, spec_fail = [], []
  corr_err = None
  for attempt in range(2):
    try:
      corr_err = None
      bad, spec_fail = correspondence(res, 240 if quick else 2400)
      break
    except RuntimeError as e:  # model no longer compiles (Gen changed under it)
      corr_err = str(e)[-1500:]
      if "inconsistent assumptions" not in corr_err or attempt:
        break
      # a concurrent check rebuilt a Base library between our build and the case files: rebuild once and retry
      res.evaluations, res.distinct = 0, set()
      with vlib.Lock():
        vlib.coq_make([PROPS[:-2] + ".vo"])
  res.obligation("correspondence Model/History.v (run_ops) vs real history.py functions and kernels", not bad and corr_err is None, corr_err or f"{len(bad)} disagreements")
  res.obligation("real history.py functions vs ordered-sample-list reference (search stage)", not spec_fail, f"{len(spec_fail)} disagreements")
  for f in spec_fail[:2]:
    res.violation("C30:history-funcs:spec-mismatch", WHAT["C30:history-funcs:spec-mismatch"], f)
  t2 = time.time()
  viol, init_cases = oracle(res, 6 if quick else 60, 14 if quick else 40)
  init_bad, init_err = [], None
  try:
    init_bad = init_correspondence(res, init_cases)
  except RuntimeError as e:
    init_err = str(e)[-1500:]
  res.obligation("correspondence Model make_data_buf vs Data.history installed by the real make_data / reset_data", not init_bad and init_err is None, init_err or f"{len(init_bad)} of {len(init_cases)} buffers differ")
  res.extra["phase_seconds"] = {"prove(incl. waiting for the shared coq lock)": round(t1 - t0, 1), "correspondence": round(t2 - t1, 1), "oracle": round(time.time() - t2, 1)}
  for key, data in viol.items():
    fd = data.get("first_disagreement")
    res.violation(key, WHAT[key] + (f" (first at step {fd['step']}: {fd})" if fd else ""), data)
  found = bool(spec_fail) or any(k == "C30:put_data:lockstep-mismatch" for k in viol)
  found = found or any(k in viol for k in ("C30:make_data:history-init", "C30:reset_data:history-not-reset"))
  if (init_bad or init_err) and not found:
    res.violation("C30:model-mismatch:make_data_buf", "the buffer installed by make_data / reset_data is not Model.make_data_buf (MuJoCo's initial buffer), but the lock-step oracle found no observable difference", {"cases": init_bad[:3], "error": init_err}, found_input=False)
  if (bad or corr_err) and not found:
    res.violation("C30:model-mismatch", "Model/History.v disagrees with the compiled history.py functions (model no longer tied to the code); the ordered-list reference and the MuJoCo lock-step found no failing input", {"cases": bad[:3], "error": corr_err}, found_input=False)
  if not ok and not found:
    propkit.broken_proof_violation(res, "C30 theorems over Model/History.v + regenerated _history_physical_index", failing)
  res.assumptions += [
    "float32 rounding is not modelled: theorems are over R; generated times are dyadic so that no comparison of the real code is a near-tie",
    "interval sensors whose period is a decimal multiple of a decimal timestep (e.g. 0.03 / 0.01) can fire one step later than in MuJoCo because float32 time accumulation differs from float64; treated as a near-tie, not as a violation",
    "well-formed buffers only (0 <= cursor < n, n >= 1): Warp's negative-index wrap for corrupted cursors is not modelled",
  ]


def replay(res, path):
  r = json.load(open(path))["replay"]
  if not isinstance(r, dict):
    print("replay: no concrete input in this file; re-run the check")
    return 1
  if "xml" in r:
    info = lockstep(r["xml"], r["ctrls"], r["start"], r["ctrls"][: r.get("pre_steps", 2)])
    print("start:", r["start"])
    print("initial history mujoco :", info["history0_mujoco"])
    print("initial history mjwarp :", info["history0_mjwarp"])
    print("worst differences      :", info["worst"])
    print("first disagreement     :", info["first_disagreement"])
    return 0 if info["worst_observable"] <= LOCKSTEP_TOL else 1
  if "case" in r:
    W = launcher()
    final, states, reads = run_real(W, r["case"])
    rreads, rb = ref_run(r["case"])
    print("real reads:", reads)
    print("spec reads:", rreads)
    print("real final:", final)
    print("spec samples:", rb.s)
    return 0 if close(reads, rreads) else 1
  print("replay: unrecognised replay record")
  return 1
