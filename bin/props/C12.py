"""C12 Next step depends only on the integration state.

Proof (S-tied, partial): Props/C12.v -- soundness of the def-before-use analysis over the
stage language and the vm_compute fact that, on the host program regenerated from /repo,
every Data field step() reads before fully writing it is integration state or is in the
committed baseline (Model/PipelineFacts.v).  The decisive experiment is dynamic: two Data
of one model with the same integration state, one fresh and one after a random history
with every non-state array overwritten by garbage (finite stream / NaN stream), must give
bit-identical step() and forward() results."""

from __future__ import annotations

import dataclasses
import json

import numpy as np

import propkit
import vlib

MANIFEST = {
  "text": "proof (partial): def-before-use analysis live_in is sound for the abstract footprint semantics, and on the regenerated host program the Data fields step() reads before fully writing them are the State.INTEGRATION fields plus a committed baseline list (Euler, implicit, RK4; sleep disabled; no callbacks) - a new read-before-write dependency on stale Data breaks the obligation; NOT proved: that the baseline arrays (counter-delimited contact/efc regions, per-element stage outputs) carry nothing across steps - that is tested by poisoning every non-state array of a Data that went through a random history (finite garbage and NaN streams) and comparing step()/forward() bit-for-bit with a fresh Data holding the same integration state",
  "note": "trusted: Coq kernel; extractor bin/extract_launch.py; abstract semantics Model/Pipeline.v at field granularity (a kernel output counts as a read); the baseline list is hand-classified; region-level freshness is an oracle result only",
  "technique": "Rocq proof over a stage program machine-extracted from the source (S) + metamorphic poisoning experiment on the implementation",
  "engine": "coq",
}

PROPS = "Props/C12.v"
STATE = ["time", "qpos", "qvel", "act", "history", "qacc_warmstart", "ctrl", "qfrc_applied", "xfrc_applied", "eq_active", "mocap_pos", "mocap_quat", "userdata"]
# outputs compared after forward(), in pipeline order (the first differing one names the violation)
PIPE = ["xpos", "xquat", "xipos", "geom_xpos", "site_xpos", "subtree_com", "cinert", "cdof", "M", "nacon", "ne", "nf", "nl", "nefc",
        "efc.type", "efc.id", "efc.pos", "efc.vel", "efc.aref", "efc.D", "actuator_length", "sensordata", "cvel", "cdof_dot",
        "qfrc_bias", "qfrc_passive", "actuator_force", "qfrc_actuator", "qfrc_smooth", "qacc_smooth", "efc.force", "qfrc_constraint", "qacc"]  # fmt: skip

# Arrays (or rows) that LEGITIMATELY persist and are therefore restored after poisoning:
#  * d.overflow: sticky diagnostic bitmask, OR-accumulated by design until reset_data, never read to decide anything;
#    it is set equal in both Data and excluded from the comparison.
#  * rows of body frames for bodies welded to the world (world body included) and of geom frames for geoms on such
#    bodies: smooth._kinematics_branch / _geom_local_to_global skip them (MuJoCo also updates static geoms only in
#    mj_setConst); make_data / put_data initialise them and nothing rewrites them.
# Everything else - counters (nacon, nefc, ne, ...), contact/efc arrays, sleep bookkeeping (sleep is disabled in these
# models), solver scratch, factorisations - is poisoned.
BODY_ROWS = ["xpos", "xquat", "xmat", "xipos", "ximat"]
GEOM_ROWS = ["geom_xpos", "geom_xmat"]

CVEL_XML = """<mujoco><option gravity="0 0 -9.81"/><worldbody>
<body name="a" pos="0 0 1"><joint type="hinge" axis="0 1 0"/><geom size="0.05" pos="0.3 0 0"/>
 <body name="b" pos="0.3 0 0"><joint type="hinge" axis="0 1 0"/><geom size="0.05" pos="0.3 0 0"/></body></body>
</worldbody><equality><connect body1="b" body2="world" anchor="0.3 0 0"/></equality></mujoco>"""

NAN_XML = """<mujoco><option jacobian="dense" solver="Newton"/><worldbody>
<body name="a" pos="0 0 1"><joint type="hinge" axis="0 1 0" limited="true" range="-1 1"/><geom size="0.05" pos="0.3 0 0"/>
 <body name="b" pos="0.3 0 0"><joint type="hinge" axis="0 1 0"/><geom size="0.05" pos="0.3 0 0"/></body></body>
</worldbody><equality><connect name="c" body1="b" body2="world" anchor="0.3 0 0"/></equality></mujoco>"""


def walk(dd, pre=""):
  import warp as wp

  for f in dataclasses.fields(dd):
    x = getattr(dd, f.name)
    if isinstance(x, wp.array):
      yield pre + f.name, x
    elif dataclasses.is_dataclass(x):
      yield from walk(x, pre + f.name + ".")


def _get(dd, name):
  o = dd
  for p in name.split("."):
    o = getattr(o, p)
  return o


def poison(dd, mode, keep=()):
  """Overwrite every non-state wp.array of Data (recursively through d.efc / d.contact).
  mode: "finite" (12345.0 / 7), "nan" (NaN / 7), "ones" (0.75 / 1: plausible values - efc.state 1 is QUADRATIC,
  so rows beyond nefc look like live quadratic rows with a non-zero D and J)."""
  nan = mode == "nan"
  import warp as wp

  n = 0
  for name, x in walk(dd):
    if name in STATE or name == "overflow" or name in keep or x.size == 0:
      continue
    a = x.numpy()
    if a.dtype.kind == "f":
      a[...] = np.nan if nan else (0.75 if mode == "ones" else 12345.0)
    elif a.dtype.kind in "iu":
      a[...] = 1 if mode == "ones" else 7
    elif a.dtype.kind == "b":
      a[...] = True
    else:
      continue
    wp.copy(x, wp.array(a, dtype=x.dtype, shape=x.shape))
    n += 1
  return n


def restore_static_rows(m, dst, src):
  """Copy the legitimately persistent rows (see above) from a pristine Data."""
  static_body = np.nonzero(m.body_weldid == 0)[0]
  static_geom = np.nonzero(m.body_weldid[m.geom_bodyid] == 0)[0]
  for names, rows in ((BODY_ROWS, static_body), (GEOM_ROWS, static_geom)):
    for n in names:
      a, b = getattr(dst, n).numpy(), getattr(src, n).numpy()
      a[:, rows] = b[:, rows]
      getattr(dst, n).assign(a)


def copy_state(dst, src):
  import warp as wp

  for n in STATE:
    if getattr(src, n).size:
      wp.copy(getattr(dst, n), getattr(src, n))


def make_case(k):
  import mujoco

  import models

  rng = np.random.default_rng(vlib.seed() + 1200 + k)
  integ = ["Euler", "implicitfast"][k % 2]
  jac = ["dense", "sparse"][(k // 2) % 2]
  solver = ["Newton", "CG"][(k // 4) % 2]
  o = models.Opts(
    nbody=(2, 6), plane=True, contacts=True, actuators=int(rng.integers(1, 4)), equality=int(k % 3 == 2), limits=0.3,
    act_kinds=("motor", "position", "general", "general"), option=f'integrator="{integ}" jacobian="{jac}" solver="{solver}"',
  )  # fmt: skip
  xml, _ = models.random_model(rng, o)
  m = mujoco.MjModel.from_xml_string(xml)
  return rng, xml, m, (integ, jac, solver)


def fresh_with_state(m, st, caps=None):
  import mujoco_warp as mjw

  A = mjw.make_data(m, nworld=1, **(caps or {}))
  for n, v in st.items():
    if getattr(A, n).size:
      getattr(A, n).assign(np.asarray(v, dtype=np.float32).reshape(getattr(A, n).shape))
  return A


def random_state_dict(rng, m):
  import mujoco

  import models

  d = mujoco.MjData(m)
  models.random_state(rng, m, d, vel_scale=1.0, unnormalized=False)
  return {"qpos": d.qpos.copy(), "qvel": d.qvel.copy(), "act": d.act.copy(), "ctrl": d.ctrl.copy(), "qfrc_applied": rng.normal(0, 0.2, m.nv)}


def history_data(rng, mm, m, nsteps, caps=None, need=None):
  """A Data that lived: random start, random ctrl, contacts made and broken, a reset in the middle."""
  import mujoco

  import models
  import mujoco_warp as mjw

  d2 = mujoco.MjData(m)
  models.random_state(rng, m, d2, vel_scale=2.0, unnormalized=False)
  B = mjw.put_data(m, d2, nworld=1, **(caps or {}))
  for s in range(nsteps):
    if m.nu:
      B.ctrl.assign(rng.normal(0, 1, (1, m.nu)).astype(np.float32))
    mjw.step(mm, B)
    if need is not None:
      need[0] = max(need[0], int(B.nefc.numpy().max()))
      need[1] = max(need[1], int(B.nacon.numpy()[0]))
    if s == nsteps // 2 and rng.random() < 0.5:
      mjw.reset_data(mm, B)
      B.qvel.assign(rng.normal(0, 1, (1, m.nv)).astype(np.float32))
  return B


def compare(mm, m, A, B, forward_only=False):
  """step both, compare the integration state bit-for-bit; then forward both and compare outputs.
  forward_only: diagnosis run - forward() at the common state only, to name the first differing stage output."""
  import mujoco_warp as mjw

  bad = []
  if not forward_only:
    mjw.step(mm, A)
    mjw.step(mm, B)
    bad = [n for n in STATE if not np.array_equal(getattr(A, n).numpy(), getattr(B, n).numpy(), equal_nan=True)]
  mjw.forward(mm, A)
  mjw.forward(mm, B)
  nefc, nacon = int(A.nefc.numpy()[0]), int(A.nacon.numpy()[0])
  first = None
  for n in PIPE:
    a, b = _get(A, n).numpy(), _get(B, n).numpy()
    if n.startswith("efc.") and a.ndim >= 2 and a.shape[1] >= nefc:
      a, b = a[:, :nefc], b[:, :nefc]
    if not np.array_equal(a, b, equal_nan=True):
      first = n
      break
  if first is None and nacon:
    ca = np.sort(A.contact.dist.numpy()[:nacon])
    cb = np.sort(B.contact.dist.numpy()[: int(B.nacon.numpy()[0])])
    if not np.array_equal(ca, cb):
      first = "contact.dist"
  return bad, first


def measure_need(rng, mm, m, st, hist_steps):
  """(max nefc, max nacon) over the history and the compared step/forward, at default capacities."""
  import mujoco_warp as mjw

  need = [0, 0]
  history_data(rng, mm, m, hist_steps, need=need)
  A = fresh_with_state(m, st)
  for fn in (mjw.step, mjw.forward):
    fn(mm, A)
    need[0] = max(need[0], int(A.nefc.numpy().max()))
    need[1] = max(need[1], int(A.nacon.numpy()[0]))
  return need


def experiment(rng, mm, m, st, nan, hist_steps, fix=(), forward_only=False, caps=None):
  """Returns (bad state fields after step, first differing forward output). `fix` = names of known-cause groups that
  are neutralised (set to the fresh Data's values instead of history/garbage) to attribute a failure."""
  import warp as wp

  import mujoco_warp as mjw

  A = fresh_with_state(m, st, caps)
  P = mjw.make_data(m, nworld=1, **(caps or {}))  # pristine, for the legitimately persistent rows
  B = history_data(rng, mm, m, hist_steps, caps)
  copy_state(B, A)
  poison(B, nan)
  restore_static_rows(m, B, P)
  for g in fix:
    for n in {"cvel": ["cvel", "cdof_dot"], "efcJ": ["efc.J"]}[g]:
      wp.copy(_get(B, n), _get(P, n))
  return compare(mm, m, A, B, forward_only)


def has_connect_weld(m):
  import mujoco

  return bool(np.any((m.eq_type == mujoco.mjtEq.mjEQ_CONNECT) | (m.eq_type == mujoco.mjtEq.mjEQ_WELD)))


WELD_XML = CVEL_XML.replace('<connect body1="b" body2="world" anchor="0.3 0 0"/>', '<weld body1="b" body2="world"/>')


def directed_cvel(xml=CVEL_XML):
  """Minimal: same integration state, fresh Data vs Data that already ran forward() once (nothing poisoned).
  Run for a connect-only and for a weld-only model."""
  import mujoco

  import mujoco_warp as mjw

  CVEL_XML = xml
  m = mujoco.MjModel.from_xml_string(CVEL_XML)
  mm = mjw.put_model(m)
  st = {"qpos": [0.3, -0.2], "qvel": [2.0, -1.0]}
  A = fresh_with_state(m, st)
  B = fresh_with_state(m, st)
  mjw.forward(mm, B)  # history: one forward() at the very same state
  mjw.step(mm, A)
  mjw.step(mm, B)
  d = mujoco.MjData(m)
  d.qpos[:], d.qvel[:] = st["qpos"], st["qvel"]
  mujoco.mj_step(m, d)
  return {"xml": CVEL_XML, "state": st, "qvel_fresh": A.qvel.numpy()[0].tolist(), "qvel_after_one_forward": B.qvel.numpy()[0].tolist(),
          "qvel_mujoco": d.qvel.tolist(), "differs": not np.array_equal(A.qvel.numpy(), B.qvel.numpy())}  # fmt: skip


def directed_nan():
  """Minimal, public API only: a NaN excursion leaves NaN rows >= nefc in dense efc.J; copying a complete valid
  integration state afterwards still gives NaN."""
  import mujoco

  import mujoco_warp as mjw

  m = mujoco.MjModel.from_xml_string(NAN_XML)
  mm = mjw.put_model(m)
  good = np.array([[1.2, -0.2]], dtype=np.float32)
  off = np.array([[False]])
  A = mjw.make_data(m)
  A.qpos.assign(good)
  A.eq_active.assign(off)
  B = mjw.make_data(m)
  B.qpos.assign(np.array([[np.nan, 0.1]], dtype=np.float32))
  mjw.step(mm, B)  # history: NaN position while the connect is active -> NaN rows 0..2 of efc.J
  copy_state(B, A)
  mjw.step(mm, A)
  mjw.step(mm, B)
  return {"xml": NAN_XML, "qpos": good.tolist(), "eq_active": [False], "history": "one step with qpos=[nan,0.1], eq_active=[True]",
          "qvel_fresh": A.qvel.numpy()[0].tolist(), "qvel_after_history": [str(x) for x in B.qvel.numpy()[0]],
          "differs": not np.array_equal(A.qvel.numpy(), B.qvel.numpy(), equal_nan=True)}  # fmt: skip


def eq_case(i, kind):
  """Equality scene `kind` as a poisoning case (velocity-stage scratch d.cvel / d.cdof_dot / ... of a model with
  equalities is overwritten before forward like everything else)."""
  import mujoco

  jac, solver, integ = [("dense", "Newton", "Euler"), ("sparse", "CG", "implicitfast"), ("dense", "CG", "implicitfast"), ("sparse", "Newton", "Euler")][i % 4]
  xml = SCENES["eq:" + kind].format(jac=jac, solver=solver, cone="pyramidal", integ=integ)
  return np.random.default_rng(vlib.seed() + 1290 + i), xml, mujoco.MjModel.from_xml_string(xml), (integ, jac, solver, "eq:" + kind)


def run_case(res, k, hist_steps, pre=None):
  """One model, three poison streams; odd k at TIGHT capacities (njmax / nconmax = exactly what the history and the
  compared step need).  Returns list of (key, what, data)."""
  import itertools

  import mujoco_warp as mjw

  rng, xml, m, cfg = pre or make_case(k)
  mm = mjw.put_model(m)
  st = random_state_dict(rng, m)
  out = []
  for mode in ("finite", "nan", "ones"):
    seed2 = int(rng.integers(1 << 30))
    caps = None
    if k % 2 == 1:
      need = measure_need(np.random.default_rng(seed2), mm, m, st, hist_steps)
      caps = {"njmax": max(need[0], 1), "nconmax": max(need[1], 1)}
    nan = mode
    bad, first = experiment(np.random.default_rng(seed2), mm, m, st, mode, hist_steps, caps=caps)
    res.count()
    res.nontrivial(("poison", xml, mode))
    if not bad and first is None:
      continue
    if bad:  # name the first stage output that differs at the common state
      first = experiment(np.random.default_rng(seed2), mm, m, st, mode, hist_steps, forward_only=True, caps=caps)[1] or first
    data = {"case": k, "stream": mode, "config": cfg, "caps": caps, "xml": xml, "state": {a: np.asarray(b).tolist() for a, b in st.items()},
            "hist_seed": seed2, "hist_steps": hist_steps, "state_fields_differ": bad, "first_differing_forward_output": first}  # fmt: skip
    fixes = []
    if has_connect_weld(m):
      fixes.append("cvel")
    if mode == "nan":
      fixes.append("efcJ")
    # smallest set of known causes whose neutralisation clears the difference
    cleared = None
    for r in range(1, len(fixes) + 1):
      for sub in itertools.combinations(fixes, r):
        bad2, first2 = experiment(np.random.default_rng(seed2), mm, m, st, mode, hist_steps, fix=sub, caps=caps)
        if not bad2 and first2 is None:
          cleared = sub
          break
      if cleared:
        break
    data["cleared_by_neutralising"] = list(cleared) if cleared else None
    if cleared and "cvel" in cleared:
      out.append(("C12:constraint:stale-cvel:connect-weld", f"step() differs between a fresh and a used Data with the same integration state (first differing output {first}); cleared when d.cvel/d.cdof_dot are made equal", data))
    if cleared and "efcJ" in cleared:
      out.append(("C12:solver:nan-stale-efc-J-rows:dense", f"NaN left in efc.J rows >= nefc makes step() return NaN (first differing output {first}); cleared when efc.J is clean", data))
    if not cleared:
      out.append((f"C12:unexplained:{mode}:{first or bad[0]}", f"step()/forward() differ between a fresh and a poisoned ({mode}) Data with the same integration state (caps {caps}): state fields {bad}, first differing forward output {first}", data))
  return out


# ---- revisiting earlier states of a trajectory whose constraint count DROPS --------------------------------------
# A Data simulates a whole trajectory (recording the integration state before every step); then earlier states -
# those that build FEWER rows than the Data built last, so that stale rows beyond nefc exist and touch the same dofs
# as the live rows - are copied back into the used Data and into a fresh Data of the same capacities; forward() and
# step() must agree byte for byte.  Run over capacity variants: exactly the need, <= 16 (one dense Hessian tile),
# 17..64, default; tight nconmax.
SCENES = {
  # tilted box: corner (1 contact) -> edge (2) -> flat (4 contacts)
  "box": """<mujoco><option timestep="0.004" jacobian="{jac}" solver="{solver}" cone="{cone}"/><worldbody>
<geom name="floor" type="plane" size="5 5 .1"/>
<body name="box" pos="0 0 0.25" euler="25 15 0"><freejoint/><geom type="box" size=".1 .1 .1"/></body>
</worldbody></mujoco>""",
  # arm released from beyond its joint limits (limit rows appear, then are released) dropping onto a resting sphere
  "arm": """<mujoco><option timestep="0.004" jacobian="{jac}" solver="{solver}" cone="{cone}"/><worldbody>
<geom name="floor" type="plane" size="5 5 .1"/>
<body pos="0 0 .45"><joint name="h1" type="hinge" axis="0 1 0" limited="true" range="-0.4 0.4" damping="0.05"/>
 <geom type="capsule" fromto="0 0 0 .25 0 0" size=".03"/>
 <body pos=".25 0 0"><joint name="h2" type="hinge" axis="0 1 0" limited="true" range="-0.6 0.6" damping="0.05"/>
  <geom type="capsule" fromto="0 0 0 .25 0 0" size=".03"/></body></body>
<body pos=".3 0 0.13"><freejoint/><geom type="sphere" size=".08"/></body>
</worldbody></mujoco>""",
}
SCENE_INIT = {"box": None, "arm": {"qpos_head": [-0.7, 0.9], "qvel_head": [3.0, -2.0]}}

# equality variety: two pendulum chains coupled by ONE kind of equality at a time (body- and site-specified weld and
# connect, joint, tendon) and two mixtures, released with non-zero velocities.  The row count does not change here;
# what matters is that the used Data's last forward pass was at a DIFFERENT state than the one copied in, so every
# velocity-stage quantity it still holds (d.cvel, d.cdof_dot, ...) is stale.
EQ_BASE = """<mujoco><option timestep="0.004" jacobian="{jac}" solver="{solver}" cone="{cone}" integrator="{integ}"/>
<default><geom contype="0" conaffinity="0"/></default><worldbody>
<body name="a1" pos="0 0 1"><joint name="ja1" type="hinge" axis="0 1 0"/><geom type="capsule" fromto="0 0 0 .3 0 0" size=".03"/>
 <body name="a2" pos=".3 0 0"><joint name="ja2" type="hinge" axis="0 1 0"/><geom type="capsule" fromto="0 0 0 .3 0 0" size=".03"/><site name="sa2" pos=".3 0 0"/></body></body>
<body name="b1" pos="0 .4 1"><joint name="jb1" type="ball"/><geom type="capsule" fromto="0 0 0 .3 0 0" size=".03"/>
 <body name="b2" pos=".3 0 0"><joint name="jb2" type="hinge" axis="0 0 1"/><geom type="capsule" fromto="0 0 0 .3 0 0" size=".03"/><site name="sb2" pos=".3 0 0"/></body></body>
</worldbody>
<tendon><fixed name="t1"><joint joint="ja1" coef="1"/><joint joint="ja2" coef="-0.5"/></fixed>
<fixed name="t2"><joint joint="jb2" coef="1"/><joint joint="ja2" coef=".3"/></fixed></tendon>
<equality>EQ</equality></mujoco>"""
EQ_KINDS = {
  "weld": '<weld body1="a2" body2="b2"/>',
  "weld_site": '<weld site1="sa2" site2="sb2"/>',
  "connect": '<connect body1="a2" body2="b2" anchor=".3 0 0"/>',
  "connect_site": '<connect site1="sa2" site2="sb2"/>',
  "joint": '<joint joint1="ja1" joint2="ja2" polycoef="0 1 0 0 0"/>',
  "tendon": '<tendon tendon1="t1" tendon2="t2" polycoef="0 1 0 0 0"/>',
  "mixed_weld": '<weld body1="a2" body2="b2"/><joint joint1="ja1" joint2="jb2" polycoef="0 1 0 0 0"/><tendon tendon1="t1" tendon2="t2" polycoef="0 1 0 0 0"/>',
  "mixed_all": '<connect site1="sa2" site2="sb2"/><weld body1="a1" body2="b1"/><joint joint1="ja1" joint2="ja2" polycoef="0 1 0 0 0"/>',
}
for _k, _v in EQ_KINDS.items():
  SCENES["eq:" + _k] = EQ_BASE.replace("EQ", _v)
  SCENE_INIT["eq:" + _k] = {"qpos_head": [0.2, -0.3], "qvel_head": [1.5, -2.0, 0.5, -1.0, 0.7, 1.2]}
OUTS = ["qacc", "qfrc_constraint", "nefc", "solver_niter", "nacon", "sensordata"]


def _state_of(d):
  return {n: getattr(d, n).numpy().copy() for n in STATE}


def _set_state(d, st):
  for n, v in st.items():
    if v.size:
      getattr(d, n).assign(v)


def _outputs(d):
  nefc = int(d.nefc.numpy()[0])
  o = {n: getattr(d, n).numpy().copy() for n in OUTS}
  o.update({"state." + n: getattr(d, n).numpy().copy() for n in STATE})
  o["efc.force[:nefc]"] = d.efc.force.numpy()[0, :nefc].copy()
  return o


def revisit(scene, jac, solver, cone, cap, nstep, integ="Euler"):
  """Returns (list of failures, info).  cap in {"exact", "le16", "mid", "default"}."""
  import mujoco

  import mujoco_warp as mjw

  xml = SCENES[scene].format(jac=jac, solver=solver, cone=cone, integ=integ)
  m = mujoco.MjModel.from_xml_string(xml)
  mm = mjw.put_model(m)

  def new(caps):
    d = mjw.make_data(m, **caps)
    init = SCENE_INIT[scene]
    if init:
      q, v = d.qpos.numpy(), d.qvel.numpy()
      q[0, : len(init["qpos_head"])] = init["qpos_head"]
      v[0, : len(init["qvel_head"])] = init["qvel_head"]
      d.qpos.assign(q)
      d.qvel.assign(v)
    return d

  # need at default capacities
  d0 = new({})
  need_efc = need_con = 0
  for _ in range(nstep):
    mjw.step(mm, d0)
    need_efc, need_con = max(need_efc, int(d0.nefc.numpy()[0])), max(need_con, int(d0.nacon.numpy()[0]))
  if cap == "exact":
    caps = {"njmax": max(need_efc, 1), "nconmax": max(need_con, 1)}
  elif cap == "le16":
    if need_efc > 16:
      return [], {"skipped": f"needs {need_efc} rows"}
    caps = {"njmax": 16, "nconmax": max(need_con, 1)}
  elif cap == "mid":
    caps = {"njmax": min(64, max(need_efc + 3, 17)), "nconmax": need_con + 1}
  else:
    caps = {}
  used = new(caps)
  states, nefcs = [], []
  for _ in range(nstep):
    states.append(_state_of(used))
    mjw.step(mm, used)
    nefcs.append(int(used.nefc.numpy()[0]))
    if nefcs[-1] > used.njmax or int(used.nacon.numpy()[0]) > used.naconmax:
      return [], {"skipped": "capacity overflow in the history run"}
  peak = int(np.argmax(nefcs))
  few = [k for k in range(nstep) if 0 < nefcs[k] < max(nefcs)]
  picks = sorted(set(few[:3] + few[len(few) // 2 : len(few) // 2 + 2] + few[-2:] + [0, nstep // 3, (2 * nstep) // 3, nstep - 1]))
  fails = []
  for k in picks:
    fresh = new(caps)
    for fname, fn in (("forward", mjw.forward), ("step", mjw.step)):
      _set_state(fresh, states[k])
      _set_state(used, states[k])
      fn(mm, fresh)
      fn(mm, used)
      a, b = _outputs(fresh), _outputs(used)
      diff = [n for n in a if a[n].shape != b[n].shape or a[n].tobytes() != b[n].tobytes()]
      if diff:
        with np.errstate(invalid="ignore"):
          mx = {n: float(np.nanmax(np.abs(a[n].astype(np.float64) - b[n].astype(np.float64)))) for n in diff if a[n].shape == b[n].shape and a[n].size}
        fails.append({"scene": scene, "xml": xml, "config": [jac, solver, cone, cap], "integ": integ, "caps": caps, "nstep": nstep, "revisit_step": k, "nefc_at_state": nefcs[k],
                      "nefc_peak": max(nefcs), "call": fname, "differing": diff, "max_abs_diff": mx})  # fmt: skip
    # give the used Data its large history back: the state with the most rows
    _set_state(used, states[peak])
    mjw.step(mm, used)
  return fails, {"caps": caps, "need": [need_efc, need_con], "picks": len(picks), "nefc_peak": max(nefcs), "nefc_final": nefcs[-1]}


def revisit_plan(quick):
  plan = []
  for scene in SCENES:
    if scene.startswith("eq:"):
      combos = [("dense", "Newton", "Euler"), ("sparse", "CG", "implicitfast"), ("dense", "CG", "implicitfast"), ("sparse", "Newton", "Euler")]
      if not quick:
        combos = [(j, so, i) for j in ("dense", "sparse") for so in ("Newton", "CG") for i in ("Euler", "implicitfast", "implicit")]
      for jac, solver, integ in combos:
        plan.append((scene, jac, solver, "pyramidal", "default", integ))
      continue
    for jac in ("dense", "sparse"):
      for solver in ("Newton", "CG"):
        for cone in ("pyramidal", "elliptic"):
          caps = ["exact"]
          if jac == "dense" and solver == "Newton":
            caps += ["le16", "mid", "default"]
          elif not quick:
            caps += ["le16", "mid", "default"]
          elif cone == "pyramidal":
            caps += ["le16"]
          for cap in caps:
            plan.append((scene, jac, solver, cone, cap, "Euler"))
  return plan


# ---- sleeping enabled: several constrained solves on ONE Data with a shrinking active-DOF set -------------------------
SLEEP_XML = """<mujoco><option jacobian="dense" solver="Newton" iterations="100" tolerance="1e-10" cone="pyramidal">
<flag sleep="enable" island="enable"/></option><worldbody><geom type="plane" size="5 5 .1"/>
<body name="A" pos="-1 0 .099"><freejoint/><geom type="box" size=".1 .1 .1"/></body>
<body name="B" pos="0 0 .099"><freejoint/><geom type="box" size=".2 .2 .1" mass="2"/></body>
<body name="C" pos=".05 .02 .297"><freejoint/><geom type="box" size=".1 .1 .1" mass="3"/></body>
</worldbody></mujoco>"""


def sleep_subsets():
  """C12 with sleeping enabled, where the sleep bookkeeping is part of what both Data hold: the same Data solves
  the all-awake problem and then every subset of awake trees; each subset solve must equal, byte for byte, the
  solve of a fresh Data (same integration state, same awake set) whose first constrained solve is that subset."""
  import itertools

  import mujoco
  import warp as wp

  import mujoco_warp as mjw

  m = mujoco.MjModel.from_xml_string(SLEEP_XML)
  mm = mjw.put_model(m)

  def build():
    d = mujoco.MjData(m)
    d.qvel[0:3] = [0.05, -0.02, 0.0]
    d.qvel[6:9] = [0.03, 0.01, 0.0]
    mujoco.mj_forward(m, d)
    dd = mjw.put_data(m, d, nvmax=m.nv)
    mjw.fwd_position(mm, dd)
    mjw.fwd_velocity(mm, dd)
    mjw.fwd_actuation(mm, dd)
    mjw.fwd_acceleration(mm, dd)
    return dd

  def solve(dd, subset):
    awake = np.zeros((1, m.ntree), dtype=np.int32)
    awake[:, list(subset)] = 1
    wp.copy(dd.tree_awake, wp.array(awake, dtype=int))
    mjw.solve(mm, dd)
    return dd.qacc.numpy().copy(), dd.qfrc_constraint.numpy().copy()

  used = build()
  solve(used, tuple(range(m.ntree)))
  fails = []
  subsets = [sub for r in range(m.ntree, 0, -1) for sub in itertools.combinations(range(m.ntree), r)]
  for sub in subsets:
    qa, fa = solve(used, sub)
    qb, fb = solve(build(), sub)
    if qa.tobytes() != qb.tobytes() or fa.tobytes() != fb.tobytes():
      fails.append({"xml": SLEEP_XML, "awake_trees": list(sub), "qacc_used": qa[0].tolist(), "qacc_fresh": qb[0].tolist(),
                    "max_abs_diff": float(np.max(np.abs(qa - qb)))})  # fmt: skip
  return fails, len(subsets)


def run(res):
  quick = res.tier == "quick"
  res.rule = "cases: distinct random MJCF models (plane contacts, actuators with activation, equality in every third model, limits) x integrator {Euler, implicitfast} x jacobian {dense, sparse} x solver {Newton, CG} x stream {finite garbage, NaN, plausible ones (efc.state=QUADRATIC)}, every second model at tight capacities (njmax/nconmax = exactly the need); each case = fresh Data vs Data after a random history (random ctrl, contacts made/broken, optional reset) with the same integration state copied in and every other array poisoned; compared bit-for-bit after step() and forward(); plus revisited states of constraint-dropping trajectories (tilted box, limited arm) over jacobian x solver x cone x capacity {exact, <=16, 17..64, default}, a sleeping-enabled subset-solve scene, and two directed minimal models"
  ok, trs, failing = propkit.prove(res, PROPS, gen_names=["Skel_pipeline"])
  nmodels = 8 if quick else 90
  hist = 6 if quick else 20
  found = False
  fails = []
  for k in range(nmodels):
    fails += run_case(res, k, hist)
  for i, kind in enumerate(EQ_KINDS):
    fails += run_case(res, 2 * i, hist, pre=eq_case(i, kind))
  seen = set()
  for key, what, data in fails:
    found = True
    if key in seen and not key.startswith("C12:unexplained"):
      continue
    seen.add(key)
    res.violation(key, what, data)
  nun = sum(1 for key, _, _ in fails if key.startswith("C12:unexplained"))
  res.obligation("oracle: poisoned-history Data vs fresh Data, no unexplained difference", nun == 0, f"{len(fails)} failing (model, stream) cases of {3 * (nmodels + len(EQ_KINDS))}, {nun} not attributable to a recorded cause")
  # revisiting earlier states of a constraint-dropping trajectory, over capacity variants
  rv_fails, rv_runs, rv_skipped = [], 0, 0
  for scene, jac, solver, cone, cap, integ in revisit_plan(quick):
    f, info = revisit(scene, jac, solver, cone, cap, {"box": 200, "arm": 120}.get(scene, 45), integ)
    if "skipped" in info:
      rv_skipped += 1
      continue
    rv_runs += 1
    res.count(info["picks"] * 2)
    res.nontrivial(("revisit", scene, jac, solver, cone, cap, integ))
    if rv_runs == 1:
      res.sample({"kind": "revisit", "scene": scene, "config": [jac, solver, cone, cap], **info})
    rv_fails += f
  seen_cfg = set()
  for f in rv_fails:
    found = True
    key = f"C12:revisit:{f['scene']}:{f['config'][0]}-{f['config'][1]}-{f['config'][2]}:{f['differing'][0]}"
    if (f["scene"], tuple(f["config"]), f["integ"]) in seen_cfg:
      continue
    seen_cfg.add((f["scene"], tuple(f["config"]), f["integ"]))
    res.violation(key, f"used Data vs fresh Data with the same integration state (capacities {f['caps']}, state of step {f['revisit_step']} needing {f['nefc_at_state']} rows after a peak of {f['nefc_peak']}): {f['call']}() differs in {f['differing']}", f)
  res.obligation("oracle: revisited states of a constraint-dropping trajectory, used vs fresh Data byte for byte", not rv_fails, f"{rv_runs} (scene, jacobian, solver, cone, capacity) runs, {rv_skipped} skipped (capacity not applicable), {len(rv_fails)} mismatching calls")
  # sleeping enabled: subset solves on one Data vs fresh Data
  sl_fails, nsub = sleep_subsets()
  res.count(nsub)
  res.nontrivial(("sleep-subsets",))
  for f in sl_fails[:1]:
    found = True
    res.violation("C12:sleep:compact-solve-depends-on-earlier-solves:dense", f"dense compact solve with awake trees {f['awake_trees']} differs between a Data that solved other active sets before and a fresh Data (max abs {f['max_abs_diff']:.3g})", f)
  res.obligation("oracle: sleeping enabled, subset solves on one Data equal fresh-Data solves", not sl_fails, f"{len(sl_fails)} of {nsub} awake-tree subsets differ")
  # directed minimal reproductions (deterministic keys)
  for c in (directed_cvel(CVEL_XML), directed_cvel(WELD_XML)):
    res.count()
    res.sample({"kind": "directed-cvel", **{k2: c[k2] for k2 in ("qvel_fresh", "qvel_after_one_forward", "qvel_mujoco", "differs")}})
    if c["differs"]:
      break
  if c["differs"]:
    found = True
    res.violation("C12:constraint:stale-cvel:connect-weld", "connect/weld rows subtract Jdot*qvel computed from d.cvel/d.cdof_dot, which make_constraint reads BEFORE fwd_velocity recomputes them: a fresh Data (cvel=0) and a Data that ran forward() once give different step() results for the same integration state; MuJoCo agrees with the second", c)
  n = directed_nan()
  res.count()
  res.sample({"kind": "directed-nan", **{k2: n[k2] for k2 in ("qvel_fresh", "qvel_after_history", "differs")}})
  if n["differs"]:
    found = True
    res.violation("C12:solver:nan-stale-efc-J-rows:dense", "after a NaN excursion, stale NaN rows >= nefc of the dense efc.J contaminate the solver (0*NaN): copying a complete valid integration state into the Data still gives NaN, a fresh Data gives finite results", n)
  known = {f["key"] for f in vlib.load_known().get("findings", []) if f.get("property") == "C12"}
  new_input = any(v["found_input"] and v["key"] not in known for v in res.violations)
  if not ok and not new_input:
    propkit.broken_proof_violation(res, "C12 def-before-use facts over the regenerated host program", failing)
  res.assumptions += [
    "field-granular analysis: the baseline list assumed_region_defined (118 Data fields) is hand-classified; that those arrays carry nothing across steps is tested, not proved",
    "legitimately persistent and therefore not poisoned: d.overflow (sticky diagnostic), frames of bodies welded to the world and of their geoms (never rewritten by kinematics); allocation sizes are Python ints",
    "sleep disabled, no user callbacks; capacity overflow not exercised (njmax/naconmax defaults)",
  ]


def replay(res, path):
  import mujoco

  import mujoco_warp as mjw

  r = json.load(open(path))["replay"]
  if not isinstance(r, dict) or "xml" not in r:
    print("replay: no concrete input in this file (proof breakage); re-run the check")
    return 1
  if r["xml"] in (CVEL_XML, WELD_XML):
    print(json.dumps(directed_cvel(r["xml"]), indent=1))
    return 0
  if r["xml"] == NAN_XML:
    print(json.dumps(directed_nan(), indent=1))
    return 0
  if "revisit_step" in r:
    f, info = revisit(r["scene"], *r["config"], r["nstep"], r.get("integ", "Euler"))
    print(json.dumps({"info": info, "failures": [{k2: x[k2] for k2 in ("revisit_step", "call", "differing", "max_abs_diff")} for x in f][:6]}, indent=1, default=str))
    return 0
  if "awake_trees" in r:
    print(json.dumps(sleep_subsets()[0][:3], indent=1))
    return 0
  m = mujoco.MjModel.from_xml_string(r["xml"])
  mm = mjw.put_model(m)
  st = {a: np.asarray(b) for a, b in r["state"].items()}
  bad, first = experiment(np.random.default_rng(r["hist_seed"]), mm, m, st, r["stream"], r["hist_steps"], caps=r.get("caps"))
  print("state fields differing after step:", bad, "first differing forward output:", first)
  return 0
