"""C18 Broadphase choice does not change contacts.

proof  : Props/C18.v -- sap_binary_search / sap_range / work-package decoding of the SAP sweep (Model/Sap.v),
         Cauchy-Schwarz superset argument and soundness of the plane / sphere filters over R on the
         functions REGENERATED from collision_driver.py (Gen/broadphase.v).
tie    : T-validation of _plane_filter/_sphere_filter/_aabb_filter; AST pin of the hand-modelled kernels;
         correspondence on captured runs of the REAL nxn_broadphase / sap_broadphase (wp.launch is
         spied on, nothing in /repo is touched): projection, sort post-condition, range, scan,
         decoded candidates (exact, in emission order, incl. the naconmax cut), filter decisions.
oracle : contact multisets under 3 broadphases x 16 filter masks on random scenes."""

from __future__ import annotations

import ast
import hashlib
import inspect
import json
import textwrap

import numpy as np

import propkit
import vlib

MANIFEST = {
  "text": "proof: for the hand-written Gallina model of the SAP pipeline's integer logic (binary search, sap_range with its min(n-1,.) clamp, inclusive scan, work-package decoding with stride nsweep) the decoded (world,i,j) enumerate exactly {i<j<=i+range} once each and never cross a world; over R, geoms whose inflated bounding spheres intersect have overlapping projection intervals on any unit axis and therefore lie within range of each other in the sorted order; the plane and sphere broadphase filters regenerated from source never reject a pair closer than margin+gap (given bounding-sphere containment and a unit plane normal). Only tested: that the model equals the real kernels (correspondence on captured runs each run), Warp's sort/scan primitives, the AABB/OBB filters, float32 rounding, equality of contact multisets across 3 broadphases x 16 masks (oracle)",
  "note": "trusted: Coq kernel; translator (validated each run); Model/Sap.v hand-written, tied by correspondence + AST pin; the spy on wp.launch used to read sap_broadphase's private buffers; real-number axioms of Coq's Reals for the geometric lemmas",
  "technique": "Rocq proof over a hand-written executable model and machine-translated filter functions; differential correspondence in Coq (vm_compute) against the real kernels; differential oracle across broadphase configurations",
  "engine": "coq",
}

PROPS = "Props/C18.v"
FUNCS = ["_plane_filter", "_sphere_filter", "_aabb_filter"]

# sha1 of the docstring-free AST of every function Model/Sap.v copies by hand
PINS = {
  "collision_core.sap_binary_search": "6bffd5adeaa48a5b",
  "collision_core.sap_range": "af02c3c206065c4e",
  "collision_driver._sap_broadphase": "91440eca233439f8",
  "collision_driver._nxn_broadphase": "b91977615f217879",
  "collision_driver._add_geom_pair": "5e92bf118c13fc68",
  "collision_driver._broadphase_filter": "40b62d083641c874",
  "collision_driver._sap_project": "9bfc52bcc5329056",
  "collision_driver.sap_broadphase": "6485c13bdf2b69bc",
  "collision_driver.nxn_broadphase": "34b3139741f387fb",
}


def retry_build_race(fn):
  """Call fn(); when another process recompiled a shared Base/Gen library in between ("makes inconsistent
  assumptions": a build race, not a verdict) rebuild the .vo closure and try again."""
  import time

  for attempt in range(3):
    try:
      return fn()
    except RuntimeError as e:
      if "inconsistent assumptions" not in str(e) or attempt == 2:
        raise
      time.sleep(5 * (attempt + 1))
      with vlib.Lock():
        vlib.coq_make([PROPS[:-2] + ".vo"])


def run_cases_retry(tag, imports, lines, **kw):
  import tvalid

  return retry_build_race(lambda: tvalid.run_cases(tag, imports, lines, **kw))


def _f(x):
  return " ".join(f"{float(v):.6g}" for v in np.atleast_1d(x))


# ------------------------------------------------------------------------------------ source pin
def ast_pin(f):
  f = inspect.unwrap(f)
  if hasattr(f, "func"):
    f = f.func
  tree = ast.parse(textwrap.dedent(inspect.getsource(f)))
  for n in ast.walk(tree):
    if isinstance(n, ast.FunctionDef) and n.body and isinstance(n.body[0], ast.Expr) and isinstance(n.body[0].value, ast.Constant) and isinstance(n.body[0].value.value, str):
      n.body = n.body[1:] or [ast.Pass()]
  return hashlib.sha1(ast.dump(tree).encode()).hexdigest()[:16]


def check_pins(res):
  from mujoco_warp._src import collision_core, collision_driver

  mods = {"collision_core": collision_core, "collision_driver": collision_driver}
  changed = []
  for k, h in PINS.items():
    mod, name = k.split(".")
    try:
      got = ast_pin(getattr(mods[mod], name))
    except Exception as e:  # function removed / renamed
      got = f"error:{type(e).__name__}"
    if got != h:
      changed.append(f"{k} ({got})")
  res.obligation("source-pin: hand-modelled broadphase functions unchanged since Model/Sap.v was written", not changed, "; ".join(changed))
  return changed


# ------------------------------------------------------------------------------------ scenes
GEOM_TYPES = ("sphere", "capsule", "box", "ellipsoid", "cylinder")


def scene_xml(rng, ngeom, spread, plane=False, coincident=0.0, margins=False, filtered=0.2, pairs=0, pair_margin=0.0, types=GEOM_TYPES):
  """ngeom geoms, most on their own free body, some sharing a body / static; optional coincident clusters."""
  body = ""
  names = []
  poss = []
  k = 0
  if margins or pair_margin:  # put_model rejects box-box pairs with a non-zero margin (MULTICCD / NATIVECCD)
    types = tuple(t for t in types if t != "box")
  if plane:
    body += f'<geom name="g{k}" type="plane" size="5 5 .1" pos="0 0 {_f([-spread])}"' + (' margin="0.03"' if margins and rng.random() < 0.5 else "") + "/>"
    names.append(f"g{k}")
    k += 1
  while k < ngeom:
    same = bool(poss) and rng.random() < coincident
    if same:
      pos = poss[int(rng.integers(len(poss)))]  # exactly the same centre and radius: equal sort keys
    else:
      pos = rng.uniform(-spread, spread, 3).astype(np.float32)
    poss.append(pos)
    static = rng.random() < 0.1
    s = f'<body pos="{_f(pos)}" quat="{_f(rng.normal(0, 1, 4))}">' + ("" if static else "<freejoint/>")
    for _ in range(int(rng.choice([1, 1, 1, 2]))):
      if k >= ngeom:
        break
      gt = "sphere" if coincident else str(rng.choice(list(types)))
      if coincident:
        size = "0.1"
      elif gt == "sphere":
        size = _f([rng.choice([0.1, rng.uniform(0.05, 0.2)])])
      elif gt in ("capsule", "cylinder"):
        size = _f([rng.uniform(0.04, 0.12), rng.uniform(0.05, 0.2)])
      else:
        size = _f(rng.uniform(0.04, 0.2, 3))
      extra = ""
      if margins and rng.random() < 0.5:
        extra += f' margin="{_f([rng.choice([0.02, 0.1])])}"'
        if rng.random() < 0.5:
          extra += f' gap="{_f([rng.choice([0.01, 0.05])])}"'
      if rng.random() < filtered:
        extra += ' contype="2" conaffinity="4"'
      s += f'<geom name="g{k}" type="{gt}" size="{size}" pos="{"0 0 0" if coincident else _f(rng.normal(0, 0.03, 3))}" quat="{_f(rng.normal(0, 1, 4))}"{extra}/>'
      names.append(f"g{k}")
      k += 1
    body += s + "</body>"
  contact = ""
  seen = set()
  for _ in range(pairs):
    a, b = (int(x) for x in rng.choice(len(names), 2, replace=False))
    if (min(a, b), max(a, b)) in seen:
      continue
    seen.add((min(a, b), max(a, b)))
    mg = f' margin="{_f([rng.uniform(0, pair_margin)])}"' if pair_margin else ""
    contact += f'<pair geom1="{names[a]}" geom2="{names[b]}"{mg}/>'
  return f'<mujoco><option gravity="0 0 0"/><worldbody>{body}</worldbody><contact>{contact}</contact></mujoco>'


def random_scene(rng, mode=None, **kw):
  mode = mode or str(rng.choice(["sparse", "sparse", "medium", "dense", "coincident", "plane", "margins", "tiny"]))
  if mode == "dense":  # every pair overlaps: work packages exceed nsweep = 5 * nworld * ngeom -> stride loop
    n = int(rng.integers(12, 17))
    xml = scene_xml(rng, n, 0.05, types=("sphere", "capsule"), filtered=0.05, **kw)
  elif mode == "coincident":
    xml = scene_xml(rng, int(rng.integers(4, 12)), 0.4, coincident=0.6, plane=bool(rng.random() < 0.3), **kw)
  elif mode == "plane":
    xml = scene_xml(rng, int(rng.integers(3, 12)), 0.5, plane=True, margins=bool(rng.random() < 0.5), **kw)
  elif mode == "margins":
    xml = scene_xml(rng, int(rng.integers(3, 12)), 0.4, margins=True, plane=bool(rng.random() < 0.3), **kw)
  elif mode == "tiny":
    xml = scene_xml(rng, int(rng.integers(2, 4)), 0.2, **kw)
  elif mode == "medium":
    xml = scene_xml(rng, int(rng.integers(5, 14)), 0.35, **kw)
  else:
    xml = scene_xml(rng, int(rng.integers(4, 14)), 0.8, **kw)
  return mode, xml


def build(xml, rng, nworld, naconmax=None):
  """-> (mjm, mm, dd) with a different random pose per world."""
  import warnings

  import mujoco
  import warp as wp

  import mujoco_warp as mjw

  warnings.filterwarnings("ignore", message="MULTICCD is enabled")
  m = mujoco.MjModel.from_xml_string(xml)
  d = mujoco.MjData(m)
  mujoco.mj_kinematics(m, d)
  mm = mjw.put_model(m)
  kw = {"naconmax": naconmax} if naconmax is not None else {"nconmax": max(64, 6 * m.ngeom * m.ngeom)}
  dd = mjw.put_data(m, d, nworld=nworld, **kw)
  if m.nq:
    q = np.tile(d.qpos.astype(np.float32), (nworld, 1))
    for w in range(1, nworld):  # world 0 keeps the XML pose (coincident centres stay coincident)
      for j in range(m.njnt):
        a = m.jnt_qposadr[j]
        q[w, a : a + 3] += rng.normal(0, 0.15, 3).astype(np.float32)
        qq = rng.normal(0, 1, 4)
        q[w, a + 3 : a + 7] = (qq / np.linalg.norm(qq)).astype(np.float32)
    wp.copy(dd.qpos, wp.array(q, dtype=float))
  mjw.kinematics(mm, dd)
  return m, mm, dd


# ------------------------------------------------------------------------ capturing the real pipeline
class Spy:
  """Record (kernel name, inputs, outputs) of every wp.launch issued while active."""

  def __enter__(self):
    import warp as wp

    self.wp = wp
    self.orig = wp.launch
    self.rec = []

    def spy(*a, **kw):
      r = self.orig(*a, **kw)
      kernel = kw.get("kernel", a[0] if a else None)
      ins = kw.get("inputs", [])
      outs = kw.get("outputs", [])
      name = getattr(getattr(kernel, "func", None), "__name__", str(kernel))
      snap = lambda x: x.numpy().copy() if isinstance(x, wp.array) else x  # noqa: E731
      try:
        labels = [a.label for a in kernel.adj.args]
      except Exception:
        labels = []
      vals = [snap(x) for x in list(ins) + list(outs)]
      self.rec.append((name, dict(zip(labels, vals))))
      return r

    wp.launch = spy
    return self

  def __exit__(self, *a):
    self.wp.launch = self.orig


def run_broadphase(mm, dd, bp, mask, capture=False):
  """Real nxn_broadphase / sap_broadphase. -> (ncollision, [(world, g1, g2)] stored, spy records)."""
  from mujoco_warp._src import collision_driver as cdrv

  mm.opt.broadphase = bp
  mm.opt.broadphase_filter = mask
  ctx = cdrv.create_collision_context(dd.naconmax)
  dd.ncollision.zero_()
  rec = []
  if capture:
    with Spy() as s:
      (cdrv.nxn_broadphase if bp == 0 else cdrv.sap_broadphase)(mm, dd, ctx)
    rec = s.rec
  else:
    (cdrv.nxn_broadphase if bp == 0 else cdrv.sap_broadphase)(mm, dd, ctx)
  nc = int(dd.ncollision.numpy()[0])
  ns = min(nc, dd.naconmax)
  pair = ctx.collision_pair.numpy()[:ns]
  wid = ctx.collision_worldid.numpy()[:ns]
  return nc, [(int(w), int(p[0]), int(p[1])) for w, p in zip(wid, pair)], rec


def ranks(*arrays):
  """Order-isomorphic integer ranks of float32 keys (exact comparisons, no NaN by construction of sap_project)."""
  allv = np.unique(np.concatenate([np.asarray(a, dtype=np.float32).reshape(-1) for a in arrays]))
  return [np.searchsorted(allv, np.asarray(a, dtype=np.float32)) for a in arrays]


def zl(xs):
  return vlib.zlist(xs)


def zll(rows):
  return "[" + "; ".join(zl(r) for r in rows) + "]"


def zpairs(ps):
  return "[" + "; ".join(f"({int(a)}, {int(b)})" for a, b in ps) + "]%Z"


def ztriples(ts):
  return "[" + "; ".join(f"({int(w)}, ({int(a)}, {int(b)}))" for w, a, b in ts) + "]%Z"


EXTRA_DEFS = """
Local Open Scope Z_scope.
(* filter decisions given as the table of (world, geom pair) accepted by the REAL _nxn_broadphase *)
Definition tblflt (t : list (Z * (Z * Z))) (w g1 g2 : Z) : bool :=
  existsb (fun e => (fst e =? w) && (((fst (snd e) =? g1) && (snd (snd e) =? g2)) || ((fst (snd e) =? g2) && (snd (snd e) =? g1)))) t.
Definition sap_out (n nworld nsweep naconmax : Z) (worlds : list (list Z * list Z * list Z))
           (pid0 pid1 gtype : list Z) (flt : Z -> Z -> Z -> bool) : list Z :=
  let rg := flat_map (fun w => sap_range_world Z Z.gtb 0 n (fst (fst w)) (snd (fst w)) (snd w)) worlds in
  let cs := cumsum rg in
  let c := sap_candidates n nworld nsweep (map snd worlds) cs pid0 pid1 gtype flt in
  rg ++ cs ++ [Z.of_nat (length c)] ++ flat_cands (stored naconmax c).
Definition nxn_out (nworld naconmax : Z) (gpf : list (Z * Z)) (pidf0 pidf1 gtype : list Z) (flt : Z -> Z -> Z -> bool) : list Z :=
  let c := nxn_candidates nworld gpf pidf0 pidf1 gtype flt in
  [Z.of_nat (length c)] ++ flat_cands (stored naconmax c).
Local Open Scope float_scope.
"""


def sap_case(mm, dd, m, bp, mask, flt_term):
  """Run the real SAP broadphase with a spy; -> (case line, sort post-condition ok, info)."""
  n, W = m.ngeom, dd.nworld
  nc, stored, rec = run_broadphase(mm, dd, bp, mask, capture=True)
  by = {}
  for name, args in rec:
    by.setdefault(name, args)
  proj, rg, sw = by["sap_project"], by["sap_range"], by["kernel"]
  lower_unsorted = proj["projection_lower_out"][:W]
  upper = proj["projection_upper_out"]
  lower_sorted = rg["lower_in"][:W]
  sort_index = rg["sort_index_in"][:W]
  range_ = rg["range_out"]
  cumsum = sw["cumulative_sum_in"]
  nsweep = int(sw["nsweep_in"])
  # post-condition of the (unmodelled) Warp sort: permutation, keys carried along, ascending
  sort_ok = True
  for w in range(W):
    si = sort_index[w]
    sort_ok &= sorted(si.tolist()) == list(range(n))
    sort_ok &= bool(np.array_equal(lower_unsorted[w][si], lower_sorted[w]))
    sort_ok &= bool(np.all(np.diff(lower_sorted[w]) >= 0))
    sort_ok &= bool(np.array_equal(rg["upper_in"][w], upper[w]))
    sort_ok &= bool(np.array_equal(sw["sort_index_in"][w], si))
  worlds = []
  for w in range(W):
    rl, ru = ranks(lower_sorted[w], upper[w])
    worlds.append(f"({zl(rl)}, {zl(ru)}, {zl(sort_index[w])})")
  pid = mm.nxn_pairid.numpy().reshape(-1, 2)
  exp = [int(x) for x in range_.reshape(-1)] + [int(x) for x in np.asarray(cumsum).reshape(-1)[: W * n]] + [nc]
  for w, a, b in stored:
    exp += [w, a, b]
  line = (
    f"tvz (sap_out {n} {W} {nsweep} {dd.naconmax} [{'; '.join(worlds)}] {zl(pid[:, 0])} {zl(pid[:, 1])} "
    f"{zl(m.geom_type)} {flt_term}) {zl(exp)}"
  )
  info = {"ncollision": nc, "nsweep": nsweep, "total": int(np.asarray(cumsum).reshape(-1)[W * n - 1]), "ties": int(sum((np.diff(lower_sorted[w]) == 0).sum() for w in range(W)))}
  return line, sort_ok, info, proj


def nxn_case(mm, dd, m, mask, flt_term, real=None):
  nc, stored, _ = real if real is not None else run_broadphase(mm, dd, 0, mask)
  gpf = mm.nxn_geom_pair_filtered.numpy().reshape(-1, 2)
  pidf = mm.nxn_pairid_filtered.numpy().reshape(-1, 2)
  exp = [nc]
  for w, a, b in stored:
    exp += [w, a, b]
  return f"tvz (nxn_out {dd.nworld} {dd.naconmax} {zpairs(gpf)} {zl(pidf[:, 0])} {zl(pidf[:, 1])} {zl(m.geom_type)} {flt_term}) {zl(exp)}"


def filter_cases(mm, dd, m, mask, accepted, rng, limit):
  """One tv3 case per (world, filtered pair): model bp_filter (binary64, near ties discarded) vs the real decision."""
  gpf = mm.nxn_geom_pair_filtered.numpy().reshape(-1, 2)
  aabb = mm.geom_aabb.numpy()
  rb = mm.geom_rbound.numpy()
  mg = mm.geom_margin.numpy()
  gp = mm.geom_gap.numpy()
  xpos = dd.geom_xpos.numpy()
  xmat = dd.geom_xmat.numpy()
  acc = {(w, min(a, b), max(a, b)) for w, a, b in accepted}
  pidf = mm.nxn_pairid_filtered.numpy().reshape(-1, 2)
  # explicit pairs (id >= 0) bypass the filter: their presence says nothing about the filter's decision
  items = [(w, int(a), int(b)) for w in range(dd.nworld) for (a, b), pp in zip(gpf, pidf) if pp[0] < 0 and pp[1] < 0]
  if len(items) > limit:
    items = [items[i] for i in rng.choice(len(items), limit, replace=False)]
  lines, meta = [], []
  fl, fh = vlib.flist, vlib.fhex
  for w, a, b in items:
    args = " ".join([
      fl(aabb[w % aabb.shape[0], a, 0]), fl(aabb[w % aabb.shape[0], b, 0]), fl(aabb[w % aabb.shape[0], a, 1]), fl(aabb[w % aabb.shape[0], b, 1]),
      fh(rb[w % rb.shape[0], a]), fh(rb[w % rb.shape[0], b]), fh(mg[w % mg.shape[0], a]), fh(mg[w % mg.shape[0], b]),
      fh(gp[w % gp.shape[0], a]), fh(gp[w % gp.shape[0], b]),
      fl(xpos[w, a]), fl(xpos[w, b]), fl(xmat[w, a].reshape(-1)), fl(xmat[w, b].reshape(-1)),
    ])  # fmt: skip
    exp = 1.0 if (w, a, b) in acc else 0.0
    lines.append(f"tv3 0x1p-20 (fun Sc => [fb (@bp_filter float Sc ({mask})%Z true {args})]) {fl([exp])}")
    meta.append({"world": w, "geoms": (a, b), "mask": mask, "impl_accepts": bool(exp)})
  return lines, meta


def projection_cases(proj, m, limit, rng):
  """sap_project kernel vs Model.Sap.sap_project1 (float)."""
  ngeom, rbound, margin, gap = proj["ngeom"], proj["geom_rbound"], proj["geom_margin"], proj["geom_gap"]
  xpos, nworld, direction = proj["geom_xpos_in"], proj["nworld_in"], proj["direction_in"]
  lower, upper = proj["projection_lower_out"], proj["projection_upper_out"]
  items = [(w, g) for w in range(int(nworld)) for g in range(int(ngeom))]
  if len(items) > limit:
    items = [items[i] for i in rng.choice(len(items), limit, replace=False)]
  fl, fh = vlib.flist, vlib.fhex
  lines = []
  for w, g in items:
    dirv = [float(x) for x in direction]
    lines.append(
      f"tv3 0x1p-17 (fun Sc => let '(a, b) := @sap_project1 float Sc {fl(dirv)} {fl(xpos[w, g])} {fh(rbound[w % rbound.shape[0], g])} "
      f"{fh(margin[w % margin.shape[0], g])} {fh(gap[w % gap.shape[0], g])} in [a; b]) {fl([lower[w, g], upper[w, g]])}"
    )
  return lines


def correspondence(res, nscenes):
  import tvalid

  rng = np.random.default_rng(vlib.seed() + 1800)
  int_lines, int_meta = [], []
  flt_lines, flt_meta = [], []
  prj_lines = []
  sort_bad = []
  stats = {"stride_loop": 0, "key_ties": 0, "capped": 0, "worlds>1": 0, "planes": 0}
  for s in range(nscenes):
    mode, xml = random_scene(rng, pairs=int(rng.choice([0, 0, 1, 2])))
    nworld = int(rng.choice([1, 2, 3]))
    cap = None
    if rng.random() < 0.2:
      cap = int(rng.integers(1, 12))  # exercise the naconmax cut of _add_geom_pair
    m, mm, dd = build(xml, rng, nworld, naconmax=cap)
    if m.ngeom < 2:
      continue
    stats["worlds>1"] += nworld > 1
    stats["planes"] += int((m.geom_type == 0).any())
    stats["capped"] += cap is not None
    # (1) integer pipeline, filters off: exact candidates in emission order
    true_flt = "(fun _ _ _ => true)"
    int_lines.append(nxn_case(mm, dd, m, 0, true_flt))
    int_meta.append({"kind": "nxn mask=0", "xml": xml, "nworld": nworld, "naconmax": cap})
    for bp in (1, 2):
      line, ok, info, proj = sap_case(mm, dd, m, bp, 0, true_flt)
      int_lines.append(line)
      int_meta.append({"kind": f"sap bp={bp} mask=0", "xml": xml, "nworld": nworld, "naconmax": cap, **info})
      if not ok:
        sort_bad.append({"xml": xml, "broadphase": bp})
      stats["stride_loop"] += info["total"] > info["nsweep"]
      stats["key_ties"] += info["ties"] > 0
      res.nontrivial(("sap", mode, m.ngeom, nworld, bp, info["total"], info["ncollision"]))
    prj_lines += projection_cases(proj, m, 6, rng)
    # (2) filters on: SAP applies the same decisions as NXN (decision table taken from the real NXN run)
    if cap is None:
      for mask in (int(rng.choice([1, 2, 3, 5, 6, 7])), int(rng.choice([8, 9, 11, 15]))):
        real = run_broadphase(mm, dd, 0, mask)
        tbl = f"(tblflt {ztriples(real[1])})"
        bp = int(rng.choice([1, 2]))
        line, ok, info, _ = sap_case(mm, dd, m, bp, mask, tbl)
        int_lines.append(line)
        int_meta.append({"kind": f"sap bp={bp} mask={mask} (decisions from real nxn)", "xml": xml, "nworld": nworld, **info})
        res.nontrivial(("sapf", mode, m.ngeom, nworld, bp, mask, info["ncollision"]))
        # (3) the decisions themselves: model bp_filter vs real kernel (masks without OBB)
        if mask < 8:
          ls, mt = filter_cases(mm, dd, m, mask, real[1], rng, 12)
          flt_lines += ls
          flt_meta += [{**x, "xml": xml} for x in mt]
  out = {}
  v1 = run_cases_retry("C18i", ["Gen.math", "Gen.broadphase", "Model.PairTable", "Model.Sap"], int_lines, chunk=40, extra_defs=EXTRA_DEFS)
  bad_int = [int_meta[i] for i, v in enumerate(v1) if v != 0]
  v2 = run_cases_retry("C18f", ["Gen.math", "Gen.broadphase", "Model.PairTable", "Model.Sap"], flt_lines, chunk=60)
  bad_flt = [flt_meta[i] for i, v in enumerate(v2) if v == 2]
  for i, v in enumerate(v2):
    if v == 0:
      res.nontrivial(("flt", i, flt_meta[i]["mask"], flt_meta[i]["impl_accepts"]))
  v3 = run_cases_retry("C18p", ["Gen.math", "Gen.broadphase", "Model.PairTable", "Model.Sap"], prj_lines, chunk=200)
  bad_prj = sum(1 for v in v3 if v == 2)
  res.count(len(int_lines) + len(flt_lines) + len(prj_lines))
  acc = sum(1 for x, v in zip(flt_meta, v2) if v == 0 and x["impl_accepts"])
  rej = sum(1 for x, v in zip(flt_meta, v2) if v == 0 and not x["impl_accepts"])
  res.extra["correspondence_stats"] = {
    **{k: int(v) for k, v in stats.items()},
    "integer_cases": len(int_lines), "filter_cases": len(flt_lines), "filter_accept": acc, "filter_reject": rej,
    "filter_discarded_near_tie": sum(1 for v in v2 if v == 1), "projection_cases": len(prj_lines), "projection_discarded": sum(1 for v in v3 if v == 1),
  }  # fmt: skip
  if int_meta:
    res.sample({"kind": "correspondence", **{k: (v[:400] if isinstance(v, str) else v) for k, v in int_meta[1].items()}})
  res.obligation("correspondence Model.Sap (range, scan, decode, emission order, naconmax cut) and nxn_candidates vs real sap_broadphase/nxn_broadphase", not bad_int and len(int_lines) > 0, f"{len(int_lines)} captured runs, {len(bad_int)} disagreements; {stats}")
  res.obligation("correspondence Model.Sap.bp_filter (masks 1..7) vs decisions of the real _nxn_broadphase", not bad_flt and len(flt_lines) > 0, f"{len(flt_lines)} pair decisions ({acc} accept / {rej} reject compared), {len(bad_flt)} disagreements")
  res.obligation("correspondence Model.Sap.sap_project1 vs kernel sap_project", bad_prj == 0 and len(prj_lines) > 0, f"{len(prj_lines)} geoms, {bad_prj} disagreements")
  res.obligation("Warp sort post-condition on every captured run (permutation, keys carried, ascending)", not sort_bad, f"{len(sort_bad)} failures")
  out["bad_int"], out["bad_flt"], out["bad_prj"], out["sort_bad"] = bad_int, bad_flt, bad_prj, sort_bad
  return out


# ---------------------------------------------------------------------------------- T-validation
def tvalidate(res, tr, n):
  import tvalid

  def rot(rng, k):
    q = rng.normal(0, 1, (k, 4))
    q /= np.linalg.norm(q, axis=1, keepdims=True)
    w, x, y, z = q.T
    return np.stack([1 - 2 * (y * y + z * z), 2 * (x * y - w * z), 2 * (x * z + w * y), 2 * (x * y + w * z), 1 - 2 * (x * x + z * z), 2 * (y * z - w * x), 2 * (x * z - w * y), 2 * (y * z + w * x), 1 - 2 * (x * x + y * y)], axis=1).reshape(k, 3, 3).astype(np.float32)  # fmt: skip

  def sizes(rng, k, pzero):
    s = rng.uniform(0.05, 0.5, k)
    return np.where(rng.random(k) < pzero, 0.0, s).astype(np.float32)

  def marg(rng, k):
    return rng.choice([0.0, 0.0, 0.02, 0.1], k).astype(np.float32)

  def pos(rng, k):
    return rng.uniform(-0.6, 0.6, (k, 3)).astype(np.float32)

  def g_plane(rng, k):
    return [sizes(rng, k, 0.4), sizes(rng, k, 0.3), marg(rng, k), marg(rng, k), pos(rng, k), pos(rng, k), rot(rng, k), rot(rng, k)]

  def g_sphere(rng, k):
    return [sizes(rng, k, 0.0), sizes(rng, k, 0.0), marg(rng, k), marg(rng, k), pos(rng, k), pos(rng, k)]

  def g_aabb(rng, k):
    c = lambda: rng.normal(0, 0.05, (k, 3)).astype(np.float32)  # noqa: E731
    s = lambda: rng.uniform(0.03, 0.3, (k, 3)).astype(np.float32)  # noqa: E731
    return [c(), c(), s(), s(), marg(rng, k), marg(rng, k), pos(rng, k), pos(rng, k), rot(rng, k), rot(rng, k)]

  tv = tvalid.TValid("C18", tr, "Gen.broadphase")
  tv.add("_plane_filter", gen=g_plane, tol=1e-6)
  tv.add("_sphere_filter", gen=g_sphere, tol=1e-6)
  tv.add("_aabb_filter", gen=g_aabb, tol=1e-6)
  bad, per = retry_build_race(lambda: tv.run(res, n_per_fn=n))
  return bad


# ---------------------------------------------------------------------------------------- oracle
def contacts(mm, dd):
  """-> {(world, gmin, gmax): [(ordered geom pair, dist, pos)]}"""
  import mujoco_warp as mjw

  mjw.collision(mm, dd)
  n = int(dd.nacon.numpy()[0])
  if n > dd.naconmax:
    raise RuntimeError("oracle: contact capacity too small")
  geom = dd.contact.geom.numpy()[:n]
  wid = dd.contact.worldid.numpy()[:n]
  dist = dd.contact.dist.numpy()[:n]
  pos = dd.contact.pos.numpy()[:n]
  out = {}
  for c in range(n):
    g = (int(geom[c][0]), int(geom[c][1]))
    out.setdefault((int(wid[c]), min(g), max(g)), []).append((g, float(dist[c]), [float(x) for x in pos[c]]))
  return out


def diff_contacts(ref, got, tol=2e-4):
  """-> (list of differences, list of pure geom-order swaps)."""
  diffs, swaps = [], []
  for k in sorted(set(ref) | set(got)):
    a, b = ref.get(k, []), got.get(k, [])
    if len(a) != len(b):
      diffs.append({"pair": k, "ref_n": len(a), "got_n": len(b), "ref_dist": [x[1] for x in a], "got_dist": [x[1] for x in b]})
      continue
    if a and b and a[0][0] != b[0][0]:
      swaps.append({"pair": k, "ref_geom": a[0][0], "got_geom": b[0][0]})
    rest = list(b)
    for g, dist, pos in a:  # greedy nearest match on position
      j = min(range(len(rest)), key=lambda t: np.abs(np.array(rest[t][2]) - pos).max())
      if abs(rest[j][1] - dist) > tol * (1 + abs(dist)) or np.abs(np.array(rest[j][2]) - pos).max() > tol * (1 + np.abs(pos).max()):
        diffs.append({"pair": k, "ref": (dist, pos), "got": (rest[j][1], rest[j][2])})
        break
      rest.pop(j)
  return diffs, swaps


def pair_margin_exceeds(m, k):
  """Is geom pair k=(world,g1,g2) an explicit pair whose margin+gap exceeds the geoms' margin+gap sum?"""
  for i in range(m.npair):
    if {int(m.pair_geom1[i]), int(m.pair_geom2[i])} == {k[1], k[2]}:
      gm = m.geom_margin[k[1]] + m.geom_margin[k[2]] + m.geom_gap[k[1]] + m.geom_gap[k[2]]
      return bool(m.pair_margin[i] + m.pair_gap[i] > gm + 1e-9)
  return False


def oracle(res, nscenes, masks, pair_margin):
  rng = np.random.default_rng(vlib.seed() + 1818)
  found = {}  # key -> (what, data)
  for s in range(nscenes):
    mode, xml = random_scene(rng, pairs=int(rng.choice([0, 1, 3])), pair_margin=pair_margin if rng.random() < 0.5 else 0.0)
    nworld = int(rng.choice([1, 2, 3]))
    m, mm, dd = build(xml, rng, nworld)
    if m.ngeom < 2:
      continue
    mm.opt.broadphase, mm.opt.broadphase_filter = 0, 0
    ref = contacts(mm, dd)
    res.count()
    res.nontrivial(("oracle", mode, m.ngeom, nworld, sum(len(v) for v in ref.values())))
    if s == 0:
      res.sample({"kind": "oracle", "mode": mode, "xml": xml[:400], "nworld": nworld, "reference_contacts(nxn,mask0)": sum(len(v) for v in ref.values())})
    for bp in (0, 1, 2):
      for mask in masks:
        if bp == 0 and mask == 0:
          continue
        mm.opt.broadphase, mm.opt.broadphase_filter = bp, mask
        got = contacts(mm, dd)
        res.count()
        diffs, swaps = diff_contacts(ref, got)
        if swaps and "swap" not in found:
          found["swap"] = (
            "C18:sap:same-type-pair-emitted-in-sort-order",
            f"SAP broadphase (type {bp}) stores a same-type geom pair as {swaps[0]['got_geom']} (sort order) where NXN / MuJoCo store {swaps[0]['ref_geom']}: contact.geom and the contact normal are flipped, so the contact multiset differs between broadphases",
            {"xml": xml, "nworld": nworld, "seed_pose": "world 0 = XML pose", "broadphase": bp, "mask": mask, "swaps": swaps[:5]},
          )
        for d in diffs:
          if pair_margin_exceeds(m, d["pair"]) and bp > 0:
            key = "C18:sap:explicit-pair-margin-outside-projection-range"
            what = f"explicit pair {d['pair'][1:]} with pair margin+gap larger than the geoms': contact present with broadphase=NXN but lost with SAP broadphase={bp} filter={mask} (sap_project builds the sweep radius from geom_margin+geom_gap, so the pair falls outside the sweep range and is never examined)"
            tag = "sapmargin"
          elif pair_margin_exceeds(m, d["pair"]):
            key = "C18:filter:explicit-pair-margin-ignored"
            what = f"explicit pair {d['pair'][1:]} with pair margin+gap larger than the geoms': contact present with broadphase=NXN filter=0 but lost with broadphase={bp} filter={mask}"
            tag = "margin"
          else:
            key = "C18:oracle:contact-multiset-differs:" + ("nxn-filter" if bp == 0 else "sap")
            what = f"contacts of pair {d['pair']} differ between (NXN, filter 0) and (broadphase {bp}, filter {mask}): {json.dumps(d, default=str)[:200]}"
            tag = key
          if tag not in found:
            found[tag] = (key, what, {"xml": xml, "nworld": nworld, "broadphase": bp, "mask": mask, "diff": d, "also_failing": []})
          elif tag == key and found[tag][2]["xml"] == xml and (bp, mask) not in found[tag][2]["also_failing"]:
            found[tag][2]["also_failing"].append((bp, mask))
  return found


SWAP_XML = """<mujoco><option gravity="0 0 0"/><worldbody>
 <body pos="0.3 0.4 0.1"><freejoint/><geom name="g0" type="sphere" size=".1"/></body>
 <body pos="0.2 0.3 0.05"><freejoint/><geom name="g1" type="sphere" size=".1"/></body>
</worldbody></mujoco>"""

MARGIN_XML = """<mujoco><option gravity="0 0 0"/><worldbody>
 <body name="a" pos="0 0 1"><freejoint/><geom name="ga" type="sphere" size=".1"/></body>
 <body name="b" pos="0 0 1.4"><freejoint/><geom name="gb" type="sphere" size=".1"/></body>
</worldbody><contact><pair geom1="ga" geom2="gb" margin="0.5"/></contact></mujoco>"""


# explicit pair (g0, g2), margin 0.5, centres 0.45 apart along the sweep axis; g1 projects between them
# (3 m to the side): g2 is beyond g0's sweep range although it is within the pair's margin
SAP_MARGIN_XML = """<mujoco><option gravity="0 0 0"/><worldbody>
 <body pos="0 0 0"><freejoint/><geom name="ga" type="sphere" size=".1"/></body>
 <body pos="2.53665 -1.62079 0.031279"><freejoint/><geom name="gc" type="sphere" size=".1"/></body>
 <body pos="0.27057 0.355137 0.0563022"><freejoint/><geom name="gb" type="sphere" size=".1"/></body>
</worldbody><contact><pair geom1="ga" geom2="gb" margin="0.5"/></contact></mujoco>"""


def directed(res):
  """Minimal replays of the recorded defects (open ones and repaired ones = regression cases) on the real code."""
  rng = np.random.default_rng(0)
  out = {}
  m, mm, dd = build(SWAP_XML, rng, 1)
  mm.opt.broadphase, mm.opt.broadphase_filter = 0, 3
  a = contacts(mm, dd)
  mm.opt.broadphase = 1
  b = contacts(mm, dd)
  res.count(2)
  _, swaps = diff_contacts(a, b)
  if swaps:
    out["swap"] = (
      "C18:sap:same-type-pair-emitted-in-sort-order",
      f"two spheres, geom 1 sorts before geom 0 along the sweep axis: NXN stores contact.geom={swaps[0]['ref_geom']}, SAP stores {swaps[0]['got_geom']} with the opposite normal",
      {"xml": SWAP_XML, "nworld": 1, "broadphase": 1, "mask": 3, "swaps": swaps},
    )
  m, mm, dd = build(MARGIN_XML, rng, 1)
  mm.opt.broadphase, mm.opt.broadphase_filter = 0, 0
  a = contacts(mm, dd)
  mm.opt.broadphase_filter = 2
  b = contacts(mm, dd)
  res.count(2)
  diffs, _ = diff_contacts(a, b)
  if diffs:
    out["margin"] = (
      "C18:filter:explicit-pair-margin-ignored",
      "explicit pair with margin 0.5, spheres 0.2 apart: 1 contact with filter mask 0, none with the sphere filter (mask 2): the filter adds geom_margin+geom_gap, the narrowphase uses pair_margin+pair_gap",
      {"xml": MARGIN_XML, "nworld": 1, "broadphase": 0, "mask": 2, "diff": diffs[0]},
    )
  m, mm, dd = build(SAP_MARGIN_XML, rng, 1)
  mm.opt.broadphase, mm.opt.broadphase_filter = 0, 3
  a = contacts(mm, dd)
  for bp in (1, 2):
    mm.opt.broadphase = bp
    b = contacts(mm, dd)
    res.count(2)
    diffs, _ = diff_contacts(a, b)
    if diffs and "sapmargin" not in out:
      out["sapmargin"] = (
        "C18:sap:explicit-pair-margin-outside-projection-range",
        f"explicit pair with margin 0.5, spheres 0.25 apart, a third sphere projecting between them on the sweep axis: NXN (and MuJoCo) report 1 contact, SAP broadphase {bp} none for every filter mask: sap_project uses rbound+geom_margin+geom_gap as sweep radius, so the pair is outside `range` and never decoded (Coq witness Proof.Sap.sap_explicit_pair_outside_range_refuted)",
        {"xml": SAP_MARGIN_XML, "nworld": 1, "broadphase": bp, "mask": 3, "diff": diffs[0]},
      )
  return out


# ------------------------------------------------------------------------------------------ run
def run(res):
  quick = res.tier == "quick"
  res.rule = "correspondence: captured runs of the real broadphases on random scenes (modes sparse/medium/dense/coincident/plane/margins/tiny, 1-3 worlds with different poses, optional naconmax cut); distinct = distinct (mode, ngeom, nworld, broadphase, #work packages, ncollision); filter decisions: distinct compared (pair, mask) cases; oracle: distinct (mode, ngeom, nworld, #contacts) scenes, each run under 3 broadphases x the filter masks"
  ok, trs, failing = propkit.prove(res, PROPS, gen_names=["math", "broadphase"], required_funcs=["upper_tri_index"] + FUNCS)
  changed = check_pins(res)
  tbad = []
  tr = trs.get("broadphase")
  if tr is not None and not any(k.endswith(tuple("." + f for f in FUNCS)) for k in getattr(tr, "errors", {})):
    tbad = tvalidate(res, tr, 150 if quick else 1500)
    res.obligation("T-validation: translated _plane_filter/_sphere_filter/_aabb_filter agree with compiled Warp", not tbad, f"{len(tbad)} disagreements")
  corr = correspondence(res, (22 if quick else 250) * (2 if changed else 1))
  masks = list(range(16))
  found = directed(res)  # minimal replays of the recorded defects first (stable replay files)
  for k, v in oracle(res, (14 if quick else 200) * (2 if (changed or not ok) else 1), masks, pair_margin=0.3).items():
    if k in found:
      res.notes.append(f"oracle also hit {found[k][0]} on a random scene")
    found.setdefault(k, v)
  for key, what, data in found.values():
    res.violation(key, what, data)
  unknown = [v for v in found.values() if v[0].startswith("C18:oracle:")]
  corr_broken = bool(corr["bad_int"] or corr["bad_flt"] or corr["bad_prj"] or corr["sort_bad"])
  if corr_broken and not unknown:
    res.violation(
      "C18:correspondence:model-mismatch",
      "Model/Sap.v no longer reproduces the real broadphase kernels (model not tied to code); the cross-configuration oracle found no new failing input",
      {"integer": corr["bad_int"][:2], "filter": corr["bad_flt"][:3], "projection_bad": corr["bad_prj"], "sort": corr["sort_bad"][:2]},
      found_input=False,
    )
  if tbad and not unknown:
    res.violation("C18:translator-mismatch", "translated filter function disagrees with compiled Warp", tbad[:3], found_input=False)
  if (not ok or changed) and not unknown and not corr_broken:
    propkit.broken_proof_violation(res, "C18 theorem / source pin over the broadphase functions", failing or ("source-pin: " + "; ".join(changed)))
  res.assumptions += [
    "Warp's tile_sort / segmented_sort_pairs / array_scan are not modelled; their post-conditions are checked on every captured run",
    "float32 rounding: the superset and filter-soundness theorems are over R with an exactly unit sweep direction and unit plane normal; the code normalises (0.5935, 0.7790, 0.1235) in float32",
    "AABB and OBB filters: no soundness theorem (AABB is translated and run in the correspondence, OBB is not translatable); both are covered by the oracle only",
    "sleeping (enable_sleep / incremental pass) and collision sensors (second column of nxn_pairid) are outside the model; generated scenes have neither",
    "NaN geom positions (sap_project maps them to MJ_MAXVAL) are outside the real-number theorems",
    "bounding-sphere containment of a geom in (geom_xpos, geom_rbound) is a hypothesis of filters_sound",
    "explicit pairs: never rejected by the filter in either kernel (proved); the SAP sweep range still uses geom margins (recorded finding C18:sap:explicit-pair-margin-outside-projection-range)",
  ]


def replay(res, path):
  r = json.load(open(path))["replay"]
  if isinstance(r, list):
    r = r[0] if r else {}
  if not isinstance(r, dict) or "xml" not in r:
    print("replay: no concrete input in this file (proof/correspondence breakage); re-run the check")
    return 1
  rng = np.random.default_rng(0)
  m, mm, dd = build(r["xml"], rng, 1)
  mm.opt.broadphase, mm.opt.broadphase_filter = 0, 0
  ref = contacts(mm, dd)
  mm.opt.broadphase, mm.opt.broadphase_filter = int(r.get("broadphase", 1)), int(r.get("mask", 3))
  got = contacts(mm, dd)
  diffs, swaps = diff_contacts(ref, got)
  print("reference (NXN, filter 0):", {k: [(g, round(d, 5)) for g, d, _ in v] for k, v in ref.items()})
  print(f"broadphase={mm.opt.broadphase} filter={mm.opt.broadphase_filter}:", {k: [(g, round(d, 5)) for g, d, _ in v] for k, v in got.items()})
  print("differences:", diffs, "geom-order swaps:", swaps)
  return 1 if (diffs or swaps) else 0
