"""C20 Contacts are geometrically valid.

proof   : Props/C20.v (Proof/Contact.v) over the definitions regenerated from math.py (generator "math")
          and collision_primitive_core.py (generator "primitive_core", bin/gens_prim.py)
tie     : T (bin/translate.py) + T-validation of every translated primitive on random and degenerate inputs
oracle  : every contact mjw.collision reports on random scenes of plane/sphere/capsule/ellipsoid/cylinder/box
          pairs: frame orthonormal and right-handed, normal direction, closed-form distance/position for the
          pairs with a theorem, surface points (pos -/+ n dist/2 lie on geom1/geom2), separation along the
          reported normal, MuJoCo's own contacts for the GJK/EPA pairs; plus directed degenerate scenes."""

from __future__ import annotations

import json
from collections import defaultdict

import numpy as np

import propkit
import vlib

MANIFEST = {
  "text": "proof: over R, about the Gallina definitions regenerated from math.py / collision_primitive_core.py on every run: make_frame of a non-zero vector is a right-handed orthonormal frame whose first row is a/|a| (zero vector: zero matrix); sphere_sphere, plane_sphere, sphere_capsule, plane_capsule return a unit normal from geom 1 to geom 2, dist = signed separation of the two surface points along it, pos = their midpoint (coincident centres: fixed normal (1,0,0)); closest_segment_point equals the exact closest point only up to its +1e-6 regulariser: exact parameter relation and the bound |pt-pt*| <= 1e-6/(|ab|^2+1e-6) |pt*-a| (and a _refuted witness that it is not the closest point); plane_capsule's frame is a right-handed orthonormal frame with first row the plane normal for every capsule axis (unconditional since the repair of C20:plane_capsule:frame-fallback-not-orthogonal; the tilted-plane upright-capsule scene is kept as a regression case). tested only: float32 rounding, the wrappers/kernels, capsule-capsule, cylinder, box, ellipsoid pairs and GJK/EPA (oracle against closed forms, surface points and MuJoCo)",
  "note": "trusted: Coq kernel; translator bin/translate.py (validated each run against the compiled Warp functions on random and degenerate inputs); Base/Vec.v copy of wp.normalize / wp.clamp; real-number axioms of Coq's Reals; the oracle's float64 numpy formulas and MuJoCo's narrowphase",
  "technique": "Rocq proof over functions machine-translated from the source (T), translation validation, implementation-level geometric oracle and differential oracle against MuJoCo",
  "engine": "coq",
}

PROPS = "Props/C20.v"
REQ = ["make_frame", "orthogonals", "closest_segment_point", "normalize_with_norm", "plane_sphere", "sphere_sphere", "sphere_capsule", "plane_capsule"]
PRIM_TV = ["plane_sphere", "sphere_sphere", "sphere_capsule", "plane_capsule", "plane_ellipsoid", "sphere_cylinder", "_compute_rotmore", "_tri_area_sign", "_tri_point_segment", "sphere_triangle"]  # fmt: skip
MATH_TV = ["make_frame", "orthogonals", "closest_segment_point", "closest_segment_point_and_dist", "normalize_with_norm__V3", "orthonormal"]

PLANE, SPHERE, CAPSULE, ELLIPSOID, CYLINDER, BOX = 0, 2, 3, 4, 5, 6
TN = {0: "plane", 2: "sphere", 3: "capsule", 4: "ellipsoid", 5: "cylinder", 6: "box"}
ANALYTIC = {
  ("sphere", "sphere"), ("sphere", "capsule"), ("sphere", "cylinder"), ("sphere", "box"), ("capsule", "capsule"),
  ("capsule", "box"), ("box", "box"),
}  # fmt: skip


# ---------------------------------------------------------------- T-validation input generators
def _unit(rng, n, axis_frac=0.25):
  v = rng.standard_normal((n, 3))
  v /= np.linalg.norm(v, axis=1, keepdims=True)
  sel = rng.random(n) < axis_frac
  ax = np.zeros((n, 3))
  ax[np.arange(n), rng.integers(0, 3, n)] = rng.choice([-1.0, 1.0], n)
  v[sel] = ax[sel]
  return v.astype(np.float32)


def _pos(rng, n, s=1.0):
  return (rng.uniform(-s, s, (n, 3))).astype(np.float32)


def _rad(rng, n, zero_frac=0.05):
  r = rng.uniform(0.01, 0.5, n)
  r[rng.random(n) < zero_frac] = 0.0
  return r.astype(np.float32)


def _half(rng, n):
  """capsule/cylinder half-lengths incl. 0, 1 mm (regulariser regime) and ordinary sizes"""
  h = rng.uniform(0.02, 0.6, n)
  s = rng.random(n)
  h[s < 0.08] = 0.0
  h[(s >= 0.08) & (s < 0.2)] = 0.001
  return h.astype(np.float32)


def _rot(rng, n):
  q = rng.standard_normal((n, 4))
  q /= np.linalg.norm(q, axis=1, keepdims=True)
  w, x, y, z = q.T
  R = np.stack([1 - 2 * (y * y + z * z), 2 * (x * y - w * z), 2 * (x * z + w * y), 2 * (x * y + w * z), 1 - 2 * (x * x + z * z), 2 * (y * z - w * x),
                2 * (x * z - w * y), 2 * (y * z + w * x), 1 - 2 * (x * x + y * y)], axis=1).reshape(n, 3, 3)  # fmt: skip
  R[rng.random(n) < 0.15] = np.eye(3)
  return R.astype(np.float32)


def g_plane_sphere(rng, n):
  return [_unit(rng, n), _pos(rng, n), _pos(rng, n), _rad(rng, n)]


def g_sphere_sphere(rng, n):
  p1, p2 = _pos(rng, n), _pos(rng, n)
  s = rng.random(n)
  p2[s < 0.12] = p1[s < 0.12]  # coincident centres: the (1,0,0) branch
  m = (s >= 0.12) & (s < 0.2)
  p2[m] = p1[m] + (rng.standard_normal((int(m.sum()), 3)) * 1e-3).astype(np.float32)
  return [p1, _rad(rng, n), p2, _rad(rng, n)]


def g_sphere_capsule(rng, n):
  cp, ax, hl = _pos(rng, n), _unit(rng, n), _half(rng, n)
  sp = _pos(rng, n)
  s = rng.random(n)
  m = s < 0.15  # sphere centre on the capsule axis (inside the segment or beyond an end)
  sp[m] = (cp + ax * rng.uniform(-1.5, 1.5, (n, 1)).astype(np.float32) * np.maximum(hl, 0.1)[:, None])[m]
  return [sp, _rad(rng, n), cp, ax, _rad(rng, n), hl]


def g_plane_capsule(rng, n):
  nrm, ax = _unit(rng, n), _unit(rng, n)
  s = rng.random(n)
  ax[s < 0.1] = nrm[s < 0.1]  # capsule along the plane normal: the fallback branch
  m = (s >= 0.1) & (s < 0.2)
  ax[m] = -nrm[m]
  m2 = (s >= 0.2) & (s < 0.35)  # within 30 degrees of the normal
  t = nrm + 0.3 * _unit(rng, n, 0.0)
  t /= np.linalg.norm(t, axis=1, keepdims=True)
  ax[m2] = t[m2].astype(np.float32)
  return [nrm, _pos(rng, n), _pos(rng, n), ax, _rad(rng, n), _half(rng, n)]


def g_plane_ellipsoid(rng, n):
  return [_unit(rng, n), _pos(rng, n), _pos(rng, n), _rot(rng, n), rng.uniform(0.02, 0.5, (n, 3)).astype(np.float32)]


def g_sphere_cylinder(rng, n):
  cp, ax, hh, rc = _pos(rng, n), _unit(rng, n), _half(rng, n), _rad(rng, n)
  sp = _pos(rng, n)
  s = rng.random(n)
  m = s < 0.15  # on the axis (p_proj = 0: safe_div branch), inside or above the caps
  sp[m] = (cp + ax * rng.uniform(-1.5, 1.5, (n, 1)).astype(np.float32) * np.maximum(hh, 0.1)[:, None])[m]
  m2 = (s >= 0.15) & (s < 0.4)  # near the cylinder: inside/side/cap/corner regions
  sp[m2] = (cp + _pos(rng, n, 0.4))[m2]
  return [sp, _rad(rng, n), cp, ax, rc, hh]


def g_rotmore(rng, n):
  return [rng.integers(-1, 8, n).astype(np.int32)]


def g_vec3_frame(rng, n):
  a = (rng.standard_normal((n, 3)) * 10.0 ** rng.uniform(-2, 1, (n, 1))).astype(np.float32)
  s = rng.random(n)
  a[s < 0.08] = 0.0
  m = (s >= 0.08) & (s < 0.3)
  a[m] = _unit(rng, n, 1.0)[m] * rng.uniform(0.1, 3, (n, 1)).astype(np.float32)[m]
  return [a]


def g_unitish(rng, n):
  a = _unit(rng, n)
  s = rng.random(n)
  a[s < 0.08] = 0.0
  m = (s >= 0.08) & (s < 0.3)
  a[m] = (a * rng.uniform(0.2, 3, (n, 1)).astype(np.float32))[m]
  return [a]


def g_segment(rng, n):
  a = _pos(rng, n)
  b = _pos(rng, n)
  s = rng.random(n)
  b[s < 0.1] = a[s < 0.1]
  m = (s >= 0.1) & (s < 0.3)
  b[m] = (a + _unit(rng, n) * np.float32(0.002))[m]
  pt = _pos(rng, n)
  m3 = rng.random(n) < 0.2
  pt[m3] = (a + (b - a) * rng.uniform(-0.5, 1.5, (n, 1)).astype(np.float32))[m3]
  return [a, b, pt]


GEN = {
  "plane_sphere": g_plane_sphere, "sphere_sphere": g_sphere_sphere, "sphere_capsule": g_sphere_capsule,
  "plane_capsule": g_plane_capsule, "plane_ellipsoid": g_plane_ellipsoid, "sphere_cylinder": g_sphere_cylinder,
  "_compute_rotmore": g_rotmore, "make_frame": g_vec3_frame, "orthogonals": g_unitish,
  "closest_segment_point": g_segment, "closest_segment_point_and_dist": g_segment, "orthonormal": g_unitish,
}  # fmt: skip


def tvalidate(res, trs, n):
  import tvalid

  bad = []
  for tag, gname, imp, names in (("C20p", "primitive_core", "Gen.primitive_core", PRIM_TV), ("C20m", "math", "Gen.math", MATH_TV)):
    tr = trs.get(gname)
    if tr is None:
      continue
    tv = tvalid.TValid(tag, tr, imp)
    missing = []
    if gname == "primitive_core":  # every primitive the translator accepts today, not only the listed ones
      names = list(names) + [f for f in getattr(tr, "translated", []) if f not in names]
    for f in names:
      try:
        tv.add(f, gen=GEN.get(f), tol=2e-4)
      except KeyError:
        missing.append(f)
      except NotImplementedError as e:
        res.notes.append(f"T-validation skipped for {f}: {e}")
    for f in missing:
      if f.split("__")[0] in REQ:
        res.obligation(f"T-validation:{f}", False, "function is no longer translated")
    b, per = tv.run(res, n_per_fn=n, label=f"T-validation {gname}")
    bad += b
  return bad


# ---------------------------------------------------------------- oracle helpers (float64 numpy)
def scene_xml(rng, margin, tilt=True):
  """plane + two each of sphere, capsule, ellipsoid, cylinder, box in free bodies (fixed type set: one kernel set)."""

  def sz(t):
    a, b, c = rng.uniform(0.08, 0.3, 3)
    if t == "sphere":
      return f"{a:.4f}"
    if t in ("capsule", "cylinder"):
      return f"{a:.4f} {b:.4f}"
    return f"{a:.4f} {b:.4f} {c:.4f}"

  e = rng.uniform(-40, 40, 2) if tilt else (0.0, 0.0)
  s = [
    f'<mujoco><option><flag multiccd="disable"/></option><default><geom margin="{margin}"/></default><worldbody>',
    f'<geom name="plane" type="plane" size="5 5 .1" euler="{e[0]:.3f} {e[1]:.3f} 0"/>',
  ]
  k = 0
  for t in ("sphere", "capsule", "ellipsoid", "cylinder", "box"):
    for _ in range(2):
      # box-box with margin is rejected by put_model (NATIVECCD); margins combine by max, so boxes get 0
      mg = ' margin="0"' if t == "box" else ""
      s.append(f'<body name="b{k}"><freejoint/><geom name="g{k}" type="{t}" size="{sz(t)}"{mg}/></body>')
      k += 1
  s.append("</worldbody></mujoco>")
  return "\n".join(s)


def collide(xml, qpos, naconmax=None):
  """Run mjw.kinematics + mjw.collision on the given worlds (rows of qpos); return model and contact arrays."""
  import mujoco
  import warp as wp

  import mujoco_warp as mjw

  m = mujoco.MjModel.from_xml_string(xml)
  d = mujoco.MjData(m)
  qpos = np.atleast_2d(np.asarray(qpos, dtype=np.float32))
  nworld = qpos.shape[0]
  mm = mjw.put_model(m)
  dd = mjw.put_data(m, d, nworld=nworld, naconmax=naconmax or nworld * 200)
  if m.nq:
    wp.copy(dd.qpos, wp.array(qpos, dtype=float))
  mjw.kinematics(mm, dd)
  mjw.collision(mm, dd)
  n = min(int(dd.nacon.numpy()[0]), dd.naconmax)
  c = dd.contact
  return {
    "m": m, "d": d, "qpos": qpos, "n": n, "xml": xml,
    "dist": c.dist.numpy()[:n].astype(np.float64), "pos": c.pos.numpy()[:n].astype(np.float64),
    "frame": c.frame.numpy()[:n].astype(np.float64).reshape(n, 3, 3), "geom": c.geom.numpy()[:n],
    "world": c.worldid.numpy()[:n], "xpos": dd.geom_xpos.numpy().astype(np.float64),
    "xmat": dd.geom_xmat.numpy().astype(np.float64),
  }  # fmt: skip


def sdf(t, size, x):
  """signed distance of the geom-local point x to the geom's surface (ellipsoid: first-order estimate)."""
  if t == SPHERE:
    return float(np.linalg.norm(x) - size[0])
  if t == CAPSULE:
    z = np.clip(x[2], -size[1], size[1])
    return float(np.linalg.norm(x - np.array([0, 0, z])) - size[0])
  if t == BOX:
    q = np.abs(x) - size
    return float(np.linalg.norm(np.maximum(q, 0)) + min(q.max(), 0.0))
  if t == CYLINDER:
    q = np.array([np.hypot(x[0], x[1]) - size[0], abs(x[2]) - size[1]])
    return float(min(q.max(), 0.0) + np.linalg.norm(np.maximum(q, 0)))
  if t == ELLIPSOID:
    k = np.linalg.norm(x / size)
    g = np.linalg.norm(x / size**2)
    return float(k * (k - 1.0) / g) if g > 0 else float(-size.min())
  if t == PLANE:
    return float(x[2])
  raise ValueError(t)


def hsup(t, size, R, p, n):
  """support value max_{x in geom} x.n in the world frame."""
  l = R.T @ n
  if t == SPHERE:
    v = size[0]
  elif t == CAPSULE:
    v = size[0] + size[1] * abs(l[2])
  elif t == BOX:
    v = float(np.sum(np.abs(l) * size))
  elif t == CYLINDER:
    v = size[0] * np.hypot(l[0], l[1]) + size[1] * abs(l[2])
  elif t == ELLIPSOID:
    v = float(np.linalg.norm(l * size))
  else:
    raise ValueError(t)
  return float(p @ n + v)


def closed_form(t1, t2, s1, R1, p1, s2, R2, p2):
  """float64 closed forms for the pairs with a theorem: list of (dist, pos, normal), one per contact slot."""
  if (t1, t2) == (SPHERE, SPHERE):
    dv = p2 - p1
    dn = np.linalg.norm(dv)
    n = dv / dn if dn > 0 else np.array([1.0, 0, 0])
    dist = dn - s1[0] - s2[0]
    return [(dist, p1 + n * (s1[0] + dist / 2), n)]
  if (t1, t2) == (PLANE, SPHERE):
    n = R1[:, 2]
    dist = (p2 - p1) @ n - s2[0]
    return [(dist, p2 - n * (s2[0] + dist / 2), n)]
  if (t1, t2) == (PLANE, CAPSULE):
    n = R1[:, 2]
    out = []
    for sg in (1.0, -1.0):
      c = p2 + sg * R2[:, 2] * s2[1]
      dist = (c - p1) @ n - s2[0]
      out.append((dist, c - n * (s2[0] + dist / 2), n))
    return out
  if (t1, t2) == (SPHERE, CAPSULE):
    a, b = p2 - R2[:, 2] * s2[1], p2 + R2[:, 2] * s2[1]
    ab = b - a
    t = np.clip(((p1 - a) @ ab) / (ab @ ab), 0.0, 1.0)  # EXACT closest point (no regulariser)
    pt = a + t * ab
    dv = pt - p1
    dn = np.linalg.norm(dv)
    n = dv / dn if dn > 0 else np.array([1.0, 0, 0])
    dist = dn - s1[0] - s2[0]
    return [(dist, p1 + n * (s1[0] + dist / 2), n)]
  return None


def check_contacts(r, margin, stats):
  """All geometric checks on the contacts of one collide() result.  Returns list of failure dicts."""
  import mujoco

  m, d = r["m"], r["d"]
  fails = []
  pairs = defaultdict(list)
  for k in range(r["n"]):
    pairs[(int(r["world"][k]), int(r["geom"][k][0]), int(r["geom"][k][1]))].append(k)
  curw = -1
  for (w, g1, g2), ks in sorted(pairs.items()):
    t1, t2 = int(m.geom_type[g1]), int(m.geom_type[g2])
    if t1 not in TN or t2 not in TN:
      continue
    pair = (TN[t1], TN[t2])
    pname = f"{pair[0]}-{pair[1]}"
    s1, s2 = m.geom_size[g1].astype(np.float64), m.geom_size[g2].astype(np.float64)
    R1, p1 = r["xmat"][w, g1], r["xpos"][w, g1]
    R2, p2 = r["xmat"][w, g2], r["xpos"][w, g2]
    scale = 1.0 + float(max(s1.max() if t1 != PLANE else 0.0, s2.max()))
    kmin = min(ks, key=lambda k: r["dist"][k])
    st = stats.setdefault(pname, {"contacts": 0, "frame": 0.0, "surface": 0.0, "sep": 0.0, "closed": 0.0, "mj_exact": 0.0, "mj_pen": 0.0})
    st["contacts"] += len(ks)

    def fail(check, key, detail, k):
      fails.append({
        "check": check, "key": key, "pair": pname, "detail": detail, "xml": r["xml"], "qpos": r["qpos"][w].tolist(), "world": 0,
        "geoms": [g1, g2], "margin": margin, "reported": {"dist": float(r["dist"][k]), "pos": r["pos"][k].tolist(), "frame": r["frame"][k].reshape(-1).tolist()},
      })  # fmt: skip

    cf = closed_form(t1, t2, s1, R1, p1, s2, R2, p2)
    for k in ks:
      F, dist, pos = r["frame"][k], float(r["dist"][k]), r["pos"][k]
      n = F[0]
      # (a) frame orthonormal and right-handed
      eo = float(max(np.abs(F @ F.T - np.eye(3)).max(), np.abs(np.cross(F[0], F[1]) - F[2]).max()))
      st["frame"] = max(st["frame"], eo)
      if eo > 1e-5:
        key = "C20:plane_capsule:frame-fallback-not-orthogonal" if pair == ("plane", "capsule") else f"C20:frame:not-orthonormal:{pname}"
        fail("frame", key, f"|F F^T - I| or |row1 x row2 - row3| = {eo:.3e}", k)
        continue
      # (b) normal direction
      if t1 == PLANE:
        if np.abs(n - R1[:, 2]).max() > 1e-5:
          fail("normal", f"C20:normal:{pname}", "normal is not the plane normal", k)
      elif dist > 1e-4 and (p2 - p1) @ n <= 0:
        fail("normal", f"C20:normal:{pname}", f"separated contact whose normal points from geom2 to geom1: (c2-c1).n = {(p2 - p1) @ n:.3e}", k)
      # (c) surface points: pos -/+ n dist/2 lie on geom1 / geom2
      if t1 == PLANE or pair in ANALYTIC:
        q1, q2 = pos - n * dist / 2, pos + n * dist / 2
        e1 = sdf(t1, s1, R1.T @ (q1 - p1))
        e2 = sdf(t2, s2, R2.T @ (q2 - p2))
        tol = 3e-5 * scale
        strict = k == kmin or (t1 == PLANE and t2 != CAPSULE)
        # capsule contacts are sphere contacts at a point of the capsule axis (MuJoCo's convention): for the
        # second contact of a pair, and in penetration, the sphere's surface point may lie inside the capsule
        in1 = (t1 == CAPSULE and (not strict or dist <= 0)) or (t1 == BOX and not strict)
        in2 = (t2 == CAPSULE and (not strict or dist <= 0)) or (t2 == BOX and not strict)
        b1 = e1 > tol if in1 else abs(e1) > tol
        b2 = e2 > tol if in2 else abs(e2) > tol
        if strict and not (in1 or in2):
          st["surface"] = max(st["surface"], abs(e1), abs(e2))
        if b1 or b2:
          fail("surface", f"C20:surface-point:{pname}", f"pos -/+ n dist/2 is off the surfaces by {e1:.3e} (geom1), {e2:.3e} (geom2)", k)
    # (d) closed forms (theorem pairs)
    if cf is not None:
      used = set()
      for k in ks:
        best = None
        for j, (cd, cpos, cn) in enumerate(cf):
          if j in used:
            continue
          e = max(abs(cd - r["dist"][k]), float(np.abs(cpos - r["pos"][k]).max()))
          if best is None or e < best[0]:
            best = (e, j)
        used.add(best[1])
        cd, cpos, cn = cf[best[1]]
        en = float(np.abs(cn - r["frame"][k][0]).max()) if abs(cd + s1[0] * (t1 != PLANE) + s2[0]) > 1e-3 else 0.0
        e = max(best[0], en)
        st["closed"] = max(st["closed"], e)
        if e > 1e-4 * scale:
          fail("closed-form", f"C20:closed-form:{pname}", f"dist/pos/normal differ from the float64 closed form by {e:.3e} (expected dist {cd:.7f})", k)
    # (e) separation along the reported normal (closest contact of the pair)
    if t1 != PLANE:
      n = r["frame"][kmin][0]
      sep = -(hsup(t1, s1, R1, p1, n) + hsup(t2, s2, R2, p2, -n))
      e = abs(sep - r["dist"][kmin])
      if pair in ANALYTIC and (pair[0] == "sphere" or r["dist"][kmin] > 0):
        st["sep"] = max(st["sep"], e)
        if e > 5e-5 * scale:
          fail("separation", f"C20:support-separation:{pname}", f"dist differs from the separation of the two geoms along the reported normal by {e:.3e}", kmin)
    # (f) GJK/EPA pairs against MuJoCo's own contact for the same pair (same algorithm, same margin, float64)
    if t1 != PLANE and pair not in ANALYTIC:
      if w != curw:
        d.qpos[:] = r["qpos"][w]
        mujoco.mj_kinematics(m, d)
        mujoco.mj_collision(m, d)
        mjc = {}
        for c in d.contact[: d.ncon]:
          kk = (int(c.geom1), int(c.geom2))
          mjc[kk] = min(mjc.get(kk, np.inf), float(c.dist))
        curw = w
      if (g1, g2) in mjc:
        dm = mjc[(g1, g2)]
        dw = float(r["dist"][kmin])
        core = (s1[0] if t1 in (SPHERE, CAPSULE) else 0.0) + (s2[0] if t2 in (SPHERE, CAPSULE) else 0.0)
        e = abs(dm - dw)
        if dm + core > 1e-3:  # MuJoCo's core shapes (sphere -> point, capsule -> segment) are separated: GJK distance regime
          st["mj_exact"] = max(st["mj_exact"], e)
          if e > 2e-4 * scale:
            fail("mujoco-distance", "C20:ccd:distance-vs-mujoco", f"dist {dw:.7f} vs MuJoCo's contact {dm:.7f} for the same pair and margin {margin} (MuJoCo in its GJK distance regime)", kmin)
        else:  # both engines approximate the penetration depth of curved shapes by EPA: sanity bound only
          st["mj_pen"] = max(st["mj_pen"], e)
          if e > 0.03 + 0.2 * abs(dm):
            fail("mujoco-depth", f"C20:ccd:depth:{pname}", f"penetration {dw:.6f} vs MuJoCo's contact {dm:.6f}", kmin)
  return fails


def oracle_random(res, nscenes, nworld):
  rng = np.random.default_rng(vlib.seed() + 20)
  fails, stats = [], {}
  for sc in range(nscenes):
    margin = (0.1, 0.0, 0.05)[sc % 3]
    xml = scene_xml(rng, margin)
    nb = 10
    qpos = np.zeros((nworld, 7 * nb))
    for b in range(nb):
      qpos[:, 7 * b : 7 * b + 3] = rng.uniform(-0.45, 0.45, (nworld, 3))
      q = rng.standard_normal((nworld, 4))
      qpos[:, 7 * b + 3 : 7 * b + 7] = q / np.linalg.norm(q, axis=1, keepdims=True)
    r = collide(xml, qpos)
    f = check_contacts(r, margin, stats)
    fails += f
    res.count(r["n"])
    for k in range(r["n"]):
      g = r["geom"][k]
      res.nontrivial(("contact", sc, int(r["world"][k]), int(g[0]), int(g[1])))
    if sc == 0 and r["n"]:
      res.sample({"kind": "oracle contact", "xml": xml[:300], "geoms": r["geom"][0].tolist(), "dist": float(r["dist"][0]), "pos": r["pos"][0].tolist(), "frame": r["frame"][0].reshape(-1).tolist()})
  res.extra["oracle_max_errors_by_pair"] = {k: {a: (b if a == "contacts" else float(f"{b:.3e}")) for a, b in v.items()} for k, v in sorted(stats.items())}
  return fails


# ---------------------------------------------------------------- directed scenes
F8_XML = """<mujoco><worldbody>
<geom name="s" type="sphere" size="0.02" pos="0.001 0 0.0405" margin="0.01"/>
<body><freejoint/><geom name="c" type="capsule" size="0.02 0.001" euler="0 90 0" margin="0.01"/></body>
</worldbody></mujoco>"""

TILT_CAPSULE_XML = """<mujoco><worldbody>
<geom name="p" type="plane" size="5 5 .1" euler="20 0 0"/>
<body euler="20 0 0"><freejoint/><geom name="c" type="capsule" size=".1 .3"/></body>
</worldbody></mujoco>"""

TILT_CYLINDER_XML = """<mujoco><worldbody>
<geom name="p" type="plane" size="5 5 .1" euler="0 30 0"/>
<body euler="0 30 0"><freejoint/><geom name="c" type="cylinder" size=".1 .3"/></body>
</worldbody></mujoco>"""

MARGIN_XML = """<mujoco><option><flag multiccd="disable"/></option><worldbody>
<body pos="0.10234524309635162 0.29642051458358765 -0.0017495505744591355" quat="-0.5136118485367245 -0.30311467972951 -0.07374245607574174 -0.7993037033237633"><freejoint/><geom type="sphere" size="0.2591" margin="MARGIN"/></body>
<body pos="0.27092796564102173 0.41370850801467896 0.36497825384140015" quat="-0.49108036691941565 -0.4697500106084595 -0.4403601229556517 0.5867350022541076"><freejoint/><geom type="ellipsoid" size="0.173 0.2193 0.2928" margin="MARGIN"/></body>
</worldbody></mujoco>"""


def mj_contacts(xml):
  import mujoco

  m = mujoco.MjModel.from_xml_string(xml)
  d = mujoco.MjData(m)
  mujoco.mj_forward(m, d)
  return m, d, [(float(c.dist), np.array(c.pos), np.array(c.frame).reshape(3, 3)) for c in d.contact[: d.ncon]]


def directed(res):
  """Degenerate configurations the theorems single out, replayed on the real code against MuJoCo C."""
  out = []
  # F8: the +1e-6 regulariser, capsule half-length 1 mm, sphere above its end
  m, d, mc = mj_contacts(F8_XML)
  r = collide(F8_XML, d.qpos)
  res.count()
  if r["n"] == 1 and len(mc) == 1:
    nw, nm = r["frame"][0][0], mc[0][2][0]
    ang = float(np.arccos(np.clip(nw @ nm, -1, 1)))
    dd_ = abs(r["dist"][0] - mc[0][0])
    res.extra["F8_short_capsule"] = {"normal_angle_rad": ang, "dist_mjw": float(r["dist"][0]), "dist_mj": mc[0][0], "normal_mjw": nw.tolist(), "normal_mj": nm.tolist()}
    # bound from the theorem: |pt - pt*| <= 1e-6/(4e-6+1e-6) * 2 mm = 0.4 mm at centre distance ~40.5 mm
    if ang > 1e-3:
      out.append(("C20:closest_segment_point:regulariser",
                  f"sphere r=0.02 above the end of a capsule r=0.02, half-length 1 mm: contact normal tilted by {ang:.4f} rad against MuJoCo (dist {r['dist'][0]:.7f} vs {mc[0][0]:.7f}); closest_segment_point divides by |ab|^2 + 1e-6, so its parameter is 0.8 instead of 1",
                  {"xml": F8_XML, "qpos": d.qpos.tolist(), "expect": "normal (0,0,-1), dist 0.0005", "normal_angle_rad": ang, "dist_error": dd_}))  # fmt: skip
  else:
    out.append(("C20:directed:F8-scene", f"expected one contact, got mjw {r['n']} / mj {len(mc)}", {"xml": F8_XML, "qpos": d.qpos.tolist()}))
  # plane-capsule on a tilted plane, capsule along the normal: frame fallback (repaired in /repo; regression case)
  m, d, mc = mj_contacts(TILT_CAPSULE_XML)
  r = collide(TILT_CAPSULE_XML, d.qpos)
  res.count()
  for k in range(r["n"]):
    F = r["frame"][k]
    eo = float(np.abs(F @ F.T - np.eye(3)).max())
    if eo > 1e-5:
      out.append(("C20:plane_capsule:frame-fallback-not-orthogonal",
                  f"plane tilted 20 deg about x, capsule along the plane normal: contact frame rows {F.round(4).tolist()} are not orthonormal (|F F^T - I| = {eo:.3f}); plane_capsule takes the raw axis (0,1,0) as second row without projecting it off the normal (MuJoCo: {mc[0][2].round(4).tolist() if mc else None})",
                  {"xml": TILT_CAPSULE_XML, "qpos": d.qpos.tolist(), "frame": F.reshape(-1).tolist(), "err": eo}))  # fmt: skip
      break
  # plane-cylinder, cylinder standing flat on a plane tilted about y
  m, d, mc = mj_contacts(TILT_CYLINDER_XML)
  r = collide(TILT_CYLINDER_XML, d.qpos)
  res.count()
  dw, dm = sorted(r["dist"].tolist()), sorted(c[0] for c in mc)
  res.extra["tilted_cylinder"] = {"dist_mjw": dw, "dist_mj": dm}
  # repaired in /repo (local x axis passed by the wrapper); kept as a regression case: distances AND positions
  pw = sorted(map(tuple, np.round(r["pos"], 4).tolist()))
  pm = sorted(tuple(np.round(c[1], 4).tolist()) for c in mc)
  perr = max((max(abs(a - b) for a, b in zip(x, y)) for x, y in zip(pw, pm)), default=0.0) if len(pw) == len(pm) else float("inf")
  res.extra["tilted_cylinder"]["pos_err"] = perr
  if len(dw) != len(dm) or max(abs(a - b) for a, b in zip(dw, dm)) > 1e-4 or perr > 3e-4:
    out.append(("C20:plane_cylinder:degenerate-axis-world-x",
                f"cylinder r=0.1 standing flat on a plane tilted 30 deg about y: contact distances {[round(x, 5) for x in dw]} vs MuJoCo {[round(x, 5) for x in dm]}; in the degenerate branch (axis parallel to the normal) plane_cylinder uses the WORLD x axis as radial direction instead of a vector perpendicular to the cylinder axis",
                {"xml": TILT_CYLINDER_XML, "qpos": d.qpos.tolist(), "dist_mjw": dw, "dist_mj": dm, "pos_err": perr}))  # fmt: skip
  # same sphere-ellipsoid configuration with margin 0 and 0.1: the reported distance must not depend on margin
  ds = {}
  for mg in ("0", "0.1"):
    xml = MARGIN_XML.replace("MARGIN", mg)
    m, d, mc = mj_contacts(xml)
    r = collide(xml, d.qpos)
    res.count()
    ds[mg] = (r["dist"].tolist(), [c[0] for c in mc])
  res.extra["margin_dependence"] = ds
  if ds["0"][0] and ds["0.1"][0] and abs(ds["0"][0][0] - ds["0.1"][0][0]) > 2e-4:
    out.append(("C20:ccd:distance-vs-mujoco",
                f"sphere-ellipsoid, same poses: dist {ds['0'][0][0]:.7f} with margin 0 but {ds['0.1'][0][0]:.7f} with margin 0.1 (MuJoCo's contact: {ds['0.1'][1][0]:.7f} with either margin = the exact value); the GJK/EPA narrowphase result for curved shapes deviates from MuJoCo's by far more than float32 rounding and depends on the margin",
                {"xml": MARGIN_XML.replace("MARGIN", "0.1"), "qpos": d.qpos.tolist(), "dist_margin0": ds["0"][0][0], "dist_margin01": ds["0.1"][0][0], "dist_mujoco": ds["0.1"][1][0]}))  # fmt: skip
  return out


# ---------------------------------------------------------------- run / replay
def run(res):
  quick = res.tier == "quick"
  res.rule = "T-validation cases: inputs per translated function drawn from unit normals/axes (25% axis-aligned), radii incl. 0, half-lengths incl. 0 and 1 mm, coincident and near-coincident centres, capsule along the plane normal, points on axes; distinct = agreeing non-discarded cases. oracle: every contact reported on random 11-geom scenes (distinct = (scene, world, geom pair)) + 5 directed degenerate scenes"
  ok, trs, failing = propkit.prove(res, PROPS, gen_names=["math", "primitive_core"], required_funcs=REQ)
  tp = trs.get("primitive_core")
  if tp is not None:
    res.extra["primitive_core_translated"] = getattr(tp, "translated", [])
    res.extra["primitive_core_untranslated"] = {k.rsplit(".", 1)[1]: v for k, v in tp.errors.items()}
  vlib.log(f"[C20] proofs built ({'ok' if ok else 'BROKEN'}), T-validation ...")
  tbad = tvalidate(res, trs, 60 if quick else 600)
  vlib.log(f"[C20] T-validation done ({len(tbad)} disagreements), oracle ...")
  res.obligation("T-validation: translated primitives and math.py helpers agree with compiled Warp", not tbad, f"{len(tbad)} disagreements")

  fails = oracle_random(res, 3 if quick else 30, 40 if quick else 80)
  vlib.log(f"[C20] random scenes done ({len(fails)} failing contacts), directed scenes ...")
  bykey = defaultdict(list)
  for f in fails:
    bykey[f["key"]].append(f)
  for key, fl in sorted(bykey.items()):
    f = fl[0]
    res.violation(key, f"{f['pair']} contact fails the {f['check']} check: {f['detail']} ({len(fl)} contacts)", f)
  dfind = directed(res)
  for key, what, data in dfind:
    res.violation(key, what, data)
  vlib.log("[C20] oracle done")

  # a failing input explains a broken proof / correspondence only if it is not an already recorded finding
  known = {(k.get("property"), k.get("key")) for k in vlib.load_known().get("findings", [])}
  found = any(("C20", v["key"]) not in known for v in res.violations)
  nk = sum(1 for v in res.violations if ("C20", v["key"]) in known)
  res.obligation("oracle: reported contacts are geometrically valid (outside the recorded known findings)", not found,
                 f"{len(fails)} failing contacts, {len(dfind)} directed findings, {nk} violation keys are recorded known findings")
  if tbad and not found:
    res.violation("C20:translator-mismatch", "translated Gallina disagrees with compiled Warp function (model no longer tied to code)", tbad[:3], found_input=False)
  if not ok and not found:
    propkit.broken_proof_violation(res, "C20 theorem over regenerated math.py / collision_primitive_core.py", failing)
  res.assumptions += [
    "float32 rounding is not modelled: theorems are over R; the oracle compares with float64 closed forms at 1e-4 (1 + size)",
    "the wrappers pass the geom's pose/size unchanged to the core functions and write dist/pos/make_frame(normal) (oracle only)",
    "GJK/EPA pairs: MuJoCo's own contact (same margin) is the reference where MuJoCo is in its distance (GJK) regime; EPA depths of curved shapes are only sanity-bounded",
    "MuJoCo convention kept for capsule multi-contacts: each contact is a sphere contact at a point of the capsule axis",
  ]


def replay(res, path):
  import mujoco

  obj = json.load(open(path))
  items = obj if isinstance(obj, list) else [obj]
  code = 1
  for it in items:
    r = it.get("replay", it)
    if not isinstance(r, dict) or "xml" not in r:
      print("replay: no concrete input in this entry (proof/correspondence breakage); re-run the check")
      continue
    code = 0
    print(f"== {it.get('key', '')}")
    c = collide(r["xml"], np.asarray(r["qpos"], dtype=np.float32))
    m = mujoco.MjModel.from_xml_string(r["xml"])
    d = mujoco.MjData(m)
    d.qpos[:] = r["qpos"]
    mujoco.mj_forward(m, d)
    print("MJWarp contacts:")
    for k in range(c["n"]):
      F = c["frame"][k]
      if "geoms" in r and list(c["geom"][k]) != list(r["geoms"]):
        continue
      print(f"  geoms {c['geom'][k].tolist()} dist {c['dist'][k]:.7f} pos {c['pos'][k].round(6).tolist()} frame {F.round(6).tolist()} |FF^T-I| {np.abs(F @ F.T - np.eye(3)).max():.2e}")
    print("MuJoCo contacts:")
    for cc in d.contact[: d.ncon]:
      if "geoms" in r and [int(cc.geom1), int(cc.geom2)] != list(r["geoms"]):
        continue
      print(f"  geoms {[int(cc.geom1), int(cc.geom2)]} dist {cc.dist:.7f} pos {np.round(cc.pos, 6).tolist()} frame {np.round(cc.frame, 6).tolist()}")
  return code
