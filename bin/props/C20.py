"""C20 Contacts are geometrically valid.

proof   : Props/C20.v (Proof/Contact.v) over the definitions regenerated from math.py (generator "math")
          and collision_primitive_core.py (generator "primitive_core", bin/gens_prim.py)
tie     : T (bin/translate.py) + T-validation of every translated primitive on random and degenerate inputs
oracle  : every contact mjw.collision reports on random scenes of plane/sphere/capsule/ellipsoid/cylinder/box
          pairs: frame orthonormal and right-handed, normal direction, closed-form distance/position for the
          pairs with a theorem, surface points (pos -/+ n dist/2 lie on geom1/geom2), separation along the
          reported normal, MuJoCo's own contacts for the GJK/EPA pairs; plus directed degenerate scenes."""

from __future__ import annotations

import json
import time
from collections import defaultdict

import numpy as np

import propkit
import vlib

MANIFEST = {
  "text": "proof: over R, about the Gallina definitions regenerated from math.py / collision_primitive_core.py on every run: make_frame of a non-zero vector is a right-handed orthonormal frame whose first row is a/|a| (zero vector: zero matrix); sphere_sphere, plane_sphere, sphere_capsule, plane_capsule return a unit normal from geom 1 to geom 2, dist = signed separation of the two surface points along it, pos = their midpoint (coincident centres: fixed normal (1,0,0)); closest_segment_point equals the exact closest point only up to its +1e-6 regulariser: exact parameter relation and the bound |pt-pt*| <= 1e-6/(|ab|^2+1e-6) |pt*-a| (and a _refuted witness that it is not the closest point); plane_capsule's frame is a right-handed orthonormal frame with first row the plane normal for every capsule axis (unconditional since the repair of C20:plane_capsule:frame-fallback-not-orthogonal; the tilted-plane upright-capsule scene is kept as a regression case). tested only: float32 rounding, the wrappers/kernels, capsule-capsule, cylinder, box, ellipsoid pairs and GJK/EPA (oracle: random scenes and structured pose families - exactly parallel/perpendicular/collinear, edge/face/corner placements, unequal sizes, both geom orders - with every contact checked for frame, witness points on both geoms, witness separation and midpoint, float64 closed forms, and the per-pair contact multiset against mujoco.mj_collision)",
  "note": "trusted: Coq kernel; translator bin/translate.py (validated each run against the compiled Warp functions on random and degenerate inputs); Base/Vec.v copy of wp.normalize / wp.clamp; real-number axioms of Coq's Reals; the oracle's float64 numpy formulas and MuJoCo's narrowphase",
  "technique": "Rocq proof over functions machine-translated from the source (T), translation validation, implementation-level geometric oracle and differential oracle against MuJoCo",
  "engine": "coq",
}

PROPS = "Props/C20.v"
REQ = ["make_frame", "orthogonals", "closest_segment_point", "normalize_with_norm", "plane_sphere", "sphere_sphere", "sphere_capsule", "plane_capsule"]
PRIM_TV = ["plane_sphere", "sphere_sphere", "sphere_capsule", "plane_capsule", "plane_ellipsoid", "sphere_cylinder", "_compute_rotmore", "_tri_area_sign", "_tri_point_segment", "sphere_triangle"]  # fmt: skip
MATH_TV = ["make_frame", "orthogonals", "closest_segment_point", "closest_segment_point_and_dist", "normalize_with_norm__V3", "orthonormal"]

PLANE, SPHERE, CAPSULE, ELLIPSOID, CYLINDER, BOX = 0, 2, 3, 4, 5, 6
TN = {0: "plane", 2: "sphere", 3: "capsule", 4: "ellipsoid", 5: "cylinder", 6: "box"}
ANALYTIC = {
  ("sphere", "sphere"), ("sphere", "capsule"), ("sphere", "cylinder"), ("sphere", "box"), ("capsule", "capsule"),
  ("capsule", "box"), ("box", "box"),
}  # fmt: skip


# ---------------------------------------------------------------- T-validation input generators
def _unit(rng, n, axis_frac=0.25):
  v = rng.standard_normal((n, 3))
  v /= np.linalg.norm(v, axis=1, keepdims=True)
  sel = rng.random(n) < axis_frac
  ax = np.zeros((n, 3))
  ax[np.arange(n), rng.integers(0, 3, n)] = rng.choice([-1.0, 1.0], n)
  v[sel] = ax[sel]
  return v.astype(np.float32)


def _pos(rng, n, s=1.0):
  return (rng.uniform(-s, s, (n, 3))).astype(np.float32)


def _rad(rng, n, zero_frac=0.05):
  r = rng.uniform(0.01, 0.5, n)
  r[rng.random(n) < zero_frac] = 0.0
  return r.astype(np.float32)


def _half(rng, n):
  """capsule/cylinder half-lengths incl. 0, 1 mm (regulariser regime) and ordinary sizes"""
  h = rng.uniform(0.02, 0.6, n)
  s = rng.random(n)
  h[s < 0.08] = 0.0
  h[(s >= 0.08) & (s < 0.2)] = 0.001
  return h.astype(np.float32)


def _exact_rot(rng, n):
  """rotation matrices with entries 0, +-1 (axis permutations): exactly aligned poses"""
  out = np.zeros((n, 3, 3))
  for i in range(n):
    P = np.eye(3)[rng.permutation(3)] * rng.choice([-1.0, 1.0], 3)[:, None]
    if np.linalg.det(P) < 0:
      P[0] = -P[0]
    out[i] = P
  return out


def _rot(rng, n):
  q = rng.standard_normal((n, 4))
  q /= np.linalg.norm(q, axis=1, keepdims=True)
  w, x, y, z = q.T
  R = np.stack([1 - 2 * (y * y + z * z), 2 * (x * y - w * z), 2 * (x * z + w * y), 2 * (x * y + w * z), 1 - 2 * (x * x + z * z), 2 * (y * z - w * x),
                2 * (x * z - w * y), 2 * (y * z + w * x), 1 - 2 * (x * x + y * y)], axis=1).reshape(n, 3, 3)  # fmt: skip
  sel = rng.random(n) < 0.3
  R[sel] = _exact_rot(rng, n)[sel]
  return R.astype(np.float32)


def g_plane_sphere(rng, n):
  return [_unit(rng, n), _pos(rng, n), _pos(rng, n), _rad(rng, n)]


def g_sphere_sphere(rng, n):
  p1, p2 = _pos(rng, n), _pos(rng, n)
  s = rng.random(n)
  p2[s < 0.12] = p1[s < 0.12]  # coincident centres: the (1,0,0) branch
  m = (s >= 0.12) & (s < 0.2)
  p2[m] = p1[m] + (rng.standard_normal((int(m.sum()), 3)) * 1e-3).astype(np.float32)
  return [p1, _rad(rng, n), p2, _rad(rng, n)]


def g_sphere_capsule(rng, n):
  cp, ax, hl = _pos(rng, n), _unit(rng, n), _half(rng, n)
  sp = _pos(rng, n)
  s = rng.random(n)
  m = s < 0.15  # sphere centre on the capsule axis (inside the segment or beyond an end)
  sp[m] = (cp + ax * rng.uniform(-1.5, 1.5, (n, 1)).astype(np.float32) * np.maximum(hl, 0.1)[:, None])[m]
  m2 = (s >= 0.15) & (s < 0.35)  # beside the shaft / obliquely off an end, at distances around the radii
  side = np.cross(ax, _unit(rng, n, 0.0))
  side /= np.maximum(np.linalg.norm(side, axis=1, keepdims=True), 1e-6)
  sp[m2] = (cp + ax * (rng.choice([0.0, 0.5, 1.0, -1.0, 1.2], n).astype(np.float32) * hl)[:, None] + side * rng.uniform(0.05, 0.8, (n, 1)).astype(np.float32))[m2]
  return [sp, _rad(rng, n), cp, ax, _rad(rng, n), hl]


def g_plane_capsule(rng, n):
  nrm, ax = _unit(rng, n), _unit(rng, n)
  s = rng.random(n)
  ax[s < 0.1] = nrm[s < 0.1]  # capsule along the plane normal: the fallback branch
  m = (s >= 0.1) & (s < 0.2)
  ax[m] = -nrm[m]
  m2 = (s >= 0.2) & (s < 0.35)  # within 30 degrees of the normal
  t = nrm + 0.3 * _unit(rng, n, 0.0)
  t /= np.linalg.norm(t, axis=1, keepdims=True)
  ax[m2] = t[m2].astype(np.float32)
  m3 = (s >= 0.35) & (s < 0.5)  # capsule exactly parallel to the plane (axis perpendicular to an axis-aligned normal)
  nn = _unit(rng, n, 1.0)
  nrm[m3] = nn[m3]
  ax[m3] = np.roll(nn, 1, axis=1)[m3]
  return [nrm, _pos(rng, n), _pos(rng, n), ax, _rad(rng, n), _half(rng, n)]


def g_plane_ellipsoid(rng, n):
  return [_unit(rng, n), _pos(rng, n), _pos(rng, n), _rot(rng, n), rng.uniform(0.02, 0.5, (n, 3)).astype(np.float32)]


def g_sphere_cylinder(rng, n):
  cp, ax, hh, rc = _pos(rng, n), _unit(rng, n), _half(rng, n), _rad(rng, n)
  sp = _pos(rng, n)
  s = rng.random(n)
  m = s < 0.15  # on the axis (p_proj = 0: safe_div branch), inside or above the caps
  sp[m] = (cp + ax * rng.uniform(-1.5, 1.5, (n, 1)).astype(np.float32) * np.maximum(hh, 0.1)[:, None])[m]
  m2 = (s >= 0.15) & (s < 0.4)  # near the cylinder: inside/side/cap/corner regions
  sp[m2] = (cp + _pos(rng, n, 0.4))[m2]
  m3 = (s >= 0.4) & (s < 0.6)  # at the rim, above a cap off the axis, beside the wall
  side = np.cross(ax, _unit(rng, n, 0.0))
  side /= np.maximum(np.linalg.norm(side, axis=1, keepdims=True), 1e-6)
  ka = rng.choice([0.0, 0.5, 1.0, -1.0, 1.3, -1.3], n).astype(np.float32)
  kr = rng.choice([0.5, 1.0, 1.3], n).astype(np.float32)
  sp[m3] = (cp + ax * (ka * hh)[:, None] + side * (kr * rc)[:, None])[m3]
  return [sp, _rad(rng, n), cp, ax, rc, hh]


def _tri(rng, n):
  """non-degenerate triangles near the origin (a few axis-aligned ones)"""
  c = _pos(rng, n, 0.3)
  t = [c + _pos(rng, n, 0.5) for _ in range(3)]
  sel = rng.random(n) < 0.2
  for k, v in enumerate(((0.5, 0, 0), (0, 0.5, 0), (-0.25, -0.25, 0))):
    t[k][sel] = (c + np.float32(v))[sel]
  return t


def g_axis_triangle(rng, n):
  """capsule_triangle / cylinder_triangle: unit axis, positive radius and half-length, triangle at contact range"""
  t = _tri(rng, n)
  return [_pos(rng, n, 0.4), _unit(rng, n), rng.uniform(0.02, 0.3, n).astype(np.float32), rng.uniform(0.02, 0.5, n).astype(np.float32), t[0], t[1], t[2], rng.uniform(0.0, 0.05, n).astype(np.float32)]


def g_sphere_triangle(rng, n):
  t = _tri(rng, n)
  return [_pos(rng, n, 0.5), rng.uniform(0.02, 0.3, n).astype(np.float32), t[0], t[1], t[2], rng.uniform(0.0, 0.05, n).astype(np.float32)]


def g_rotmore(rng, n):
  return [rng.integers(-1, 8, n).astype(np.int32)]


def g_vec3_frame(rng, n):
  a = (rng.standard_normal((n, 3)) * 10.0 ** rng.uniform(-2, 1, (n, 1))).astype(np.float32)
  s = rng.random(n)
  a[s < 0.08] = 0.0
  m = (s >= 0.08) & (s < 0.3)
  a[m] = _unit(rng, n, 1.0)[m] * rng.uniform(0.1, 3, (n, 1)).astype(np.float32)[m]
  return [a]


def g_unitish(rng, n):
  a = _unit(rng, n)
  s = rng.random(n)
  a[s < 0.08] = 0.0
  m = (s >= 0.08) & (s < 0.3)
  a[m] = (a * rng.uniform(0.2, 3, (n, 1)).astype(np.float32))[m]
  return [a]


def g_segment(rng, n):
  a = _pos(rng, n)
  b = _pos(rng, n)
  s = rng.random(n)
  b[s < 0.1] = a[s < 0.1]
  m = (s >= 0.1) & (s < 0.3)
  b[m] = (a + _unit(rng, n) * np.float32(0.002))[m]
  pt = _pos(rng, n)
  m3 = rng.random(n) < 0.2
  pt[m3] = (a + (b - a) * rng.uniform(-0.5, 1.5, (n, 1)).astype(np.float32))[m3]
  return [a, b, pt]


GEN = {
  "plane_sphere": g_plane_sphere, "sphere_sphere": g_sphere_sphere, "sphere_capsule": g_sphere_capsule,
  "plane_capsule": g_plane_capsule, "plane_ellipsoid": g_plane_ellipsoid, "sphere_cylinder": g_sphere_cylinder,
  "_compute_rotmore": g_rotmore, "capsule_triangle": g_axis_triangle, "cylinder_triangle": g_axis_triangle, "sphere_triangle": g_sphere_triangle, "make_frame": g_vec3_frame, "orthogonals": g_unitish,
  "closest_segment_point": g_segment, "closest_segment_point_and_dist": g_segment, "orthonormal": g_unitish,
}  # fmt: skip


def tvalidate(res, trs, n):
  import tvalid

  bad = []
  for tag, gname, imp, names in (("C20p", "primitive_core", "Gen.primitive_core", PRIM_TV), ("C20m", "math", "Gen.math", MATH_TV)):
    tr = trs.get(gname)
    if tr is None:
      continue
    tv = tvalid.TValid(tag, tr, imp)
    missing = []
    if gname == "primitive_core":  # every primitive the translator accepts today, not only the listed ones
      names = list(names) + [f for f in getattr(tr, "translated", []) if f not in names]
    for f in names:
      try:
        tv.add(f, gen=GEN.get(f), tol=2e-4)
      except KeyError:
        missing.append(f)
      except NotImplementedError as e:
        res.notes.append(f"T-validation skipped for {f}: {e}")
    for f in missing:
      if f.split("__")[0] in REQ:
        res.obligation(f"T-validation:{f}", False, "function is no longer translated")
    b, per = tv.run(res, n_per_fn=n, label=f"T-validation {gname}")
    bad += b
  return bad


# ---------------------------------------------------------------- oracle helpers (float64 numpy)
def scene_xml(rng, margin, tilt=True):
  """plane + two each of sphere, capsule, ellipsoid, cylinder, box in free bodies (fixed type set: one kernel set)."""

  def sz(t):
    a, b, c = rng.uniform(0.08, 0.3, 3)
    if t == "sphere":
      return f"{a:.4f}"
    if t in ("capsule", "cylinder"):
      return f"{a:.4f} {b:.4f}"
    return f"{a:.4f} {b:.4f} {c:.4f}"

  e = rng.uniform(-40, 40, 2) if tilt else (0.0, 0.0)
  s = [
    f'<mujoco><option><flag multiccd="disable"/></option><default><geom margin="{margin}"/></default><worldbody>',
    f'<geom name="plane" type="plane" size="5 5 .1" euler="{e[0]:.3f} {e[1]:.3f} 0"/>',
  ]
  k = 0
  for t in ("sphere", "capsule", "ellipsoid", "cylinder", "box"):
    for _ in range(2):
      # box-box with margin is rejected by put_model (NATIVECCD); margins combine by max, so boxes get 0
      mg = ' margin="0"' if t == "box" else ""
      s.append(f'<body name="b{k}"><freejoint/><geom name="g{k}" type="{t}" size="{sz(t)}"{mg}/></body>')
      k += 1
  s.append("</worldbody></mujoco>")
  return "\n".join(s)


def collide(xml, qpos, naconmax=None):
  """Run mjw.kinematics + mjw.collision on the given worlds (rows of qpos); return model and contact arrays."""
  import mujoco
  import warp as wp

  import mujoco_warp as mjw

  m = mujoco.MjModel.from_xml_string(xml)
  d = mujoco.MjData(m)
  qpos = np.atleast_2d(np.asarray(qpos, dtype=np.float32))
  nworld = qpos.shape[0]
  mm = mjw.put_model(m)
  dd = mjw.put_data(m, d, nworld=nworld, naconmax=naconmax or nworld * 200)
  if m.nq:
    wp.copy(dd.qpos, wp.array(qpos, dtype=float))
  mjw.kinematics(mm, dd)
  mjw.collision(mm, dd)
  n = min(int(dd.nacon.numpy()[0]), dd.naconmax)
  c = dd.contact
  return {
    "m": m, "d": d, "qpos": qpos, "n": n, "xml": xml,
    "dist": c.dist.numpy()[:n].astype(np.float64), "pos": c.pos.numpy()[:n].astype(np.float64),
    "frame": c.frame.numpy()[:n].astype(np.float64).reshape(n, 3, 3), "geom": c.geom.numpy()[:n],
    "world": c.worldid.numpy()[:n], "xpos": dd.geom_xpos.numpy().astype(np.float64),
    "xmat": dd.geom_xmat.numpy().astype(np.float64),
  }  # fmt: skip


def sdf(t, size, x):
  """signed distance of the geom-local point x to the geom's surface (ellipsoid: first-order estimate)."""
  if t == SPHERE:
    return float(np.linalg.norm(x) - size[0])
  if t == CAPSULE:
    z = np.clip(x[2], -size[1], size[1])
    return float(np.linalg.norm(x - np.array([0, 0, z])) - size[0])
  if t == BOX:
    q = np.abs(x) - size
    return float(np.linalg.norm(np.maximum(q, 0)) + min(q.max(), 0.0))
  if t == CYLINDER:
    q = np.array([np.hypot(x[0], x[1]) - size[0], abs(x[2]) - size[1]])
    return float(min(q.max(), 0.0) + np.linalg.norm(np.maximum(q, 0)))
  if t == ELLIPSOID:
    k = np.linalg.norm(x / size)
    g = np.linalg.norm(x / size**2)
    return float(k * (k - 1.0) / g) if g > 0 else float(-size.min())
  if t == PLANE:
    return float(x[2])
  raise ValueError(t)


def seg_closest(R, p, hl, x):
  """closest point of the capsule axis segment (world frame) to the world point x."""
  a = R[:, 2]
  return p + a * float(np.clip((x - p) @ a, -hl, hl))


def witness_err(t, size, R, p, q, nout):
  """distance of the claimed witness q (outward normal nout) from the geom's surface; capsule: distance of the
  centre q - nout r of the contact sphere from the axis segment."""
  if t == CAPSULE:
    c = q - nout * size[0]
    return float(np.linalg.norm(c - seg_closest(R, p, size[1], c)))
  return abs(sdf(t, size, R.T @ (q - p)))


def hsup(t, size, R, p, n):
  """support value max_{x in geom} x.n in the world frame."""
  l = R.T @ n
  if t == SPHERE:
    v = size[0]
  elif t == CAPSULE:
    v = size[0] + size[1] * abs(l[2])
  elif t == BOX:
    v = float(np.sum(np.abs(l) * size))
  elif t == CYLINDER:
    v = size[0] * np.hypot(l[0], l[1]) + size[1] * abs(l[2])
  elif t == ELLIPSOID:
    v = float(np.linalg.norm(l * size))
  else:
    raise ValueError(t)
  return float(p @ n + v)


def closed_form(t1, t2, s1, R1, p1, s2, R2, p2):
  """float64 closed forms for the pairs with a theorem: list of (dist, pos, normal), one per contact slot."""
  if (t1, t2) == (SPHERE, SPHERE):
    dv = p2 - p1
    dn = np.linalg.norm(dv)
    n = dv / dn if dn > 0 else np.array([1.0, 0, 0])
    dist = dn - s1[0] - s2[0]
    return [(dist, p1 + n * (s1[0] + dist / 2), n)]
  if (t1, t2) == (PLANE, SPHERE):
    n = R1[:, 2]
    dist = (p2 - p1) @ n - s2[0]
    return [(dist, p2 - n * (s2[0] + dist / 2), n)]
  if (t1, t2) == (PLANE, CAPSULE):
    n = R1[:, 2]
    out = []
    for sg in (1.0, -1.0):
      c = p2 + sg * R2[:, 2] * s2[1]
      dist = (c - p1) @ n - s2[0]
      out.append((dist, c - n * (s2[0] + dist / 2), n))
    return out
  if (t1, t2) == (SPHERE, CAPSULE):
    a, b = p2 - R2[:, 2] * s2[1], p2 + R2[:, 2] * s2[1]
    ab = b - a
    t = np.clip(((p1 - a) @ ab) / (ab @ ab), 0.0, 1.0)  # EXACT closest point (no regulariser)
    pt = a + t * ab
    dv = pt - p1
    dn = np.linalg.norm(dv)
    n = dv / dn if dn > 0 else np.array([1.0, 0, 0])
    dist = dn - s1[0] - s2[0]
    # recorded finding C20:closest_segment_point:regulariser: the code's point is off the exact one by at most
    # e = 1e-6/(|ab|^2+1e-6) |pt*-a| (theorem C20_closest_segment_point_error); dist moves by <= e, the normal by
    # <= 2e/|pt*-sp| and pos by <= e + (r_s + |dist|/2) 2e/|pt*-sp| (deeply penetrating pairs amplify it)
    e = 1e-6 / (ab @ ab + 1e-6) * np.linalg.norm(pt - a)
    slack = e * (1.0 + 2.0 * (1.0 + s1[0] + abs(dist) / 2) / max(dn, 1e-9))
    return [(dist, p1 + n * (s1[0] + dist / 2), n, slack)]
  return None


def check_contacts(r, margin, stats):
  """All geometric checks on the contacts of one collide() result.  Returns list of failure dicts."""
  import mujoco

  m, d = r["m"], r["d"]
  fails = []
  pairs = defaultdict(list)
  for k in range(r["n"]):
    pairs[(int(r["world"][k]), int(r["geom"][k][0]), int(r["geom"][k][1]))].append(k)
  curw = -1
  for (w, g1, g2), ks in sorted(pairs.items()):
    t1, t2 = int(m.geom_type[g1]), int(m.geom_type[g2])
    if t1 not in TN or t2 not in TN:
      continue
    pair = (TN[t1], TN[t2])
    pname = f"{pair[0]}-{pair[1]}"
    s1, s2 = m.geom_size[g1].astype(np.float64), m.geom_size[g2].astype(np.float64)
    R1, p1 = r["xmat"][w, g1], r["xpos"][w, g1]
    R2, p2 = r["xmat"][w, g2], r["xpos"][w, g2]
    scale = 1.0 + float(max(s1.max() if t1 != PLANE else 0.0, s2.max()))
    kmin = min(ks, key=lambda k: r["dist"][k])
    st = stats.setdefault(pname, {"contacts": 0, "frame": 0.0, "surface": 0.0, "sep": 0.0, "closed": 0.0, "mj_exact": 0.0, "mj_pen": 0.0})
    st["contacts"] += len(ks)

    def fail(check, key, detail, k):
      fails.append({
        "check": check, "key": key, "pair": pname, "detail": detail, "xml": r["xml"], "qpos": r["qpos"][w].tolist(), "world": 0, "w": w,
        "geoms": [g1, g2], "margin": margin, "reported": {"dist": float(r["dist"][k]), "pos": r["pos"][k].tolist(), "frame": r["frame"][k].reshape(-1).tolist()},
      })  # fmt: skip

    cf = closed_form(t1, t2, s1, R1, p1, s2, R2, p2)
    for k in ks:
      F, dist, pos = r["frame"][k], float(r["dist"][k]), r["pos"][k]
      n = F[0]
      # (a) frame orthonormal and right-handed
      eo = float(max(np.abs(F @ F.T - np.eye(3)).max(), np.abs(np.cross(F[0], F[1]) - F[2]).max()))
      st["frame"] = max(st["frame"], eo)
      if eo > 1e-5:
        key = "C20:plane_capsule:frame-fallback-not-orthogonal" if pair == ("plane", "capsule") else f"C20:frame:not-orthonormal:{pname}"
        fail("frame", key, f"|F F^T - I| or |row1 x row2 - row3| = {eo:.3e}", k)
        continue
      # (b) normal direction
      if t1 == PLANE:
        if np.abs(n - R1[:, 2]).max() > 1e-5:
          fail("normal", f"C20:normal:{pname}", "normal is not the plane normal", k)
      elif k == kmin and dist > 1e-4 and (p2 - p1) @ n <= 0:  # (further contacts of a pair need not separate the whole geoms)
        fail("normal", f"C20:normal:{pname}", f"separated contact whose normal points from geom2 to geom1: (c2-c1).n = {(p2 - p1) @ n:.3e}", k)
      # (c) witness points of EVERY contact: q1 = pos - n dist/2 on geom1, q2 = pos + n dist/2 on geom2 (so pos is
      # midway and dist is their separation along n).  Capsule contacts are sphere contacts at a point of the
      # capsule axis (MuJoCo's convention): there the centre q -/+ n r of that sphere must lie on the axis segment.
      if t1 == PLANE or pair in ANALYTIC:
        q1, q2 = pos - n * dist / 2, pos + n * dist / 2
        e1 = witness_err(t1, s1, R1, p1, q1, n)
        e2 = witness_err(t2, s2, R2, p2, q2, -n)
        tol = 3e-5 * scale
        if pair == ("box", "box"):  # every contact of the pair: they share one dist, so "the closest one" is not identifiable
          # multicontact (multiccd / face-aligned path): clipped-polygon points of one face, the other witness is
          # offset by the EPA penetration vector shared by all points of the pair; the faces count as parallel within collision_gjk.FACE_TOL
          # (1.6 mrad), so the witness may be off the other face by that angle times the polygon extent
          e1, e2 = max(sdf(t1, s1, R1.T @ (q1 - p1)), 0.0), max(sdf(t2, s2, R2.T @ (q2 - p2)), 0.0)
          tol += 0.0016 * 2.0 * float(max(np.linalg.norm(s1), np.linalg.norm(s2)))
        st["surface"] = max(st["surface"], e1, e2)
        if e1 > tol or e2 > tol:
          fail("surface", f"C20:surface-point:{pname}", f"witness points pos -/+ n dist/2 are off the two geoms by {e1:.3e} (geom1), {e2:.3e} (geom2): pos is not midway between the surfaces along n", k)
          continue
        # dist is a real separation: one witness is the closest point of its geom to the other witness
        if pair == ("capsule", "capsule"):
          c1, c2 = q1 - n * s1[0], q2 + n * s2[0]
          sepw = float(np.linalg.norm(c2 - c1))
          d12 = float(np.linalg.norm(c1 - seg_closest(R2, p2, s2[1], c1)))
          d21 = float(np.linalg.norm(c2 - seg_closest(R1, p1, s1[1], c2)))
          e = min(abs(sepw - d12), abs(sepw - d21))
          st["sep"] = max(st["sep"], e)
          if e > tol:
            fail("witness-separation", f"C20:witness-separation:{pname}", f"the witnesses on the two axes are {sepw:.6f} apart but the closest points of the other axis are {d12:.6f} / {d21:.6f} away: dist is not a separation of the geoms", k)
        elif pair in (("capsule", "box"), ("sphere", "box")):
          c1 = q1 - n * s1[0] if pair[0] == "capsule" else p1
          lc = R2.T @ (c1 - p2)
          if np.any(np.abs(lc) > s2 + 1e-5):  # centre outside the box: the box witness is the closest box point
            cb = p2 + R2 @ np.clip(lc, -s2, s2)
            e = float(np.linalg.norm(cb - q2))
            st["sep"] = max(st["sep"], e)
            if e > tol:
              fail("witness-separation", f"C20:witness-separation:{pname}", f"the box witness is {e:.3e} away from the box point closest to the contact sphere's centre", k)
    # (d) closed forms (theorem pairs)
    if cf is not None:
      used = set()
      for k in ks:
        best = None
        for j, (cd, cpos, cn, *_) in enumerate(cf):
          if j in used:
            continue
          e = max(abs(cd - r["dist"][k]), float(np.abs(cpos - r["pos"][k]).max()))
          if best is None or e < best[0]:
            best = (e, j)
        used.add(best[1])
        cd, cpos, cn = cf[best[1]][:3]
        slack = cf[best[1]][3] if len(cf[best[1]]) > 3 else 0.0
        if (t1, t2) in ((SPHERE, SPHERE), (SPHERE, CAPSULE)):  # float32 rounding of the centres, amplified by 1/|c2-c1| in the normal
          slack += 4e-7 * (1.0 + float(np.abs(p1).max())) * (1.0 + s1[0] + abs(cd)) / max(abs(cd + s1[0] + s2[0]), 1e-9)
        en = float(np.abs(cn - r["frame"][k][0]).max()) if abs(cd + s1[0] * (t1 != PLANE) + s2[0]) > 1e-3 else 0.0
        e = max(best[0], en)
        st["closed"] = max(st["closed"], e)
        if e > 1e-4 * scale + slack:
          fail("closed-form", f"C20:closed-form:{pname}", f"dist/pos/normal differ from the float64 closed form by {e:.3e} (expected dist {cd:.7f})", k)
    # (e) separation along the reported normal (closest contact of the pair)
    if t1 != PLANE:
      n = r["frame"][kmin][0]
      sep = -(hsup(t1, s1, R1, p1, n) + hsup(t2, s2, R2, p2, -n))
      e = abs(sep - r["dist"][kmin])
      if pair in ANALYTIC and (pair[0] == "sphere" or r["dist"][kmin] > 0):
        st["sep"] = max(st["sep"], e)
        if e > 5e-5 * scale:
          fail("separation", f"C20:support-separation:{pname}", f"dist differs from the separation of the two geoms along the reported normal by {e:.3e}", kmin)
    # (f) GJK/EPA pairs against MuJoCo's own contact for the same pair (same algorithm, same margin, float64)
    if t1 != PLANE and pair not in ANALYTIC:
      if w != curw:
        d.qpos[:] = r["qpos"][w]
        mujoco.mj_kinematics(m, d)
        mujoco.mj_collision(m, d)
        mjc = {}
        for c in d.contact[: d.ncon]:
          kk = (int(c.geom1), int(c.geom2))
          mjc[kk] = min(mjc.get(kk, np.inf), float(c.dist))
        curw = w
      if (g1, g2) in mjc:
        dm = mjc[(g1, g2)]
        dw = float(r["dist"][kmin])
        core = (s1[0] if t1 in (SPHERE, CAPSULE) else 0.0) + (s2[0] if t2 in (SPHERE, CAPSULE) else 0.0)
        e = abs(dm - dw)
        if dm + core > 1e-3:  # MuJoCo's core shapes (sphere -> point, capsule -> segment) are separated: GJK distance regime
          st["mj_exact"] = max(st["mj_exact"], e)
          if e > 2e-4 * scale:
            fail("mujoco-distance", "C20:ccd:distance-vs-mujoco", f"dist {dw:.7f} vs MuJoCo's contact {dm:.7f} for the same pair and margin {margin} (MuJoCo in its GJK distance regime)", kmin)
        else:  # both engines approximate the penetration depth of curved shapes by EPA: sanity bound only
          st["mj_pen"] = max(st["mj_pen"], e)
          if e > 0.03 + 0.2 * abs(dm):
            fail("mujoco-depth", f"C20:ccd:depth:{pname}", f"penetration {dw:.6f} vs MuJoCo's contact {dm:.6f}", kmin)
  return fails


def oracle_random(res, nscenes, nworld):
  rng = np.random.default_rng(vlib.seed() + 20)
  fails, stats, mstats = [], {}, {}
  for sc in range(nscenes):
    margin = (0.1, 0.0, 0.05)[sc % 3]
    xml = scene_xml(rng, margin)
    nb = 10
    qpos = np.zeros((nworld, 7 * nb))
    for b in range(nb):
      qpos[:, 7 * b : 7 * b + 3] = rng.uniform(-0.45, 0.45, (nworld, 3))
      q = rng.standard_normal((nworld, 4))
      qpos[:, 7 * b + 3 : 7 * b + 7] = q / np.linalg.norm(q, axis=1, keepdims=True)
    r = collide(xml, qpos)
    f = check_contacts(r, margin, stats)
    fails += f
    fails += multiset_vs_mujoco(r, [f"random(margin {margin})"] * nworld, mstats)
    res.count(r["n"])
    for k in range(r["n"]):
      g = r["geom"][k]
      res.nontrivial(("contact", sc, int(r["world"][k]), int(g[0]), int(g[1])))
    if sc == 0 and r["n"]:
      res.sample({"kind": "oracle contact", "xml": xml[:300], "geoms": r["geom"][0].tolist(), "dist": float(r["dist"][0]), "pos": r["pos"][0].tolist(), "frame": r["frame"][0].reshape(-1).tolist()})
  res.extra["random_multiset_vs_mujoco"] = mstats
  res.extra["oracle_max_errors_by_pair"] = {k: {a: (b if a == "contacts" else float(f"{b:.3e}")) for a, b in v.items()} for k, v in sorted(stats.items())}
  return fails


# ---------------------------------------------------------------- structured pose families
# Exact rotations: the unit Hurwitz quaternions give rotation matrices with entries 0, +-1 (also in float32), so
# "exactly parallel / perpendicular / aligned" poses are exact for both engines and tie-breaks agree.
EXQ = [(1, 0, 0, 0), (0, 1, 0, 0), (0, 0, 1, 0), (0, 0, 0, 1)] + [
  (0.5, a, b, c) for a in (0.5, -0.5) for b in (0.5, -0.5) for c in (0.5, -0.5)
]
MJ_PRIMITIVE = {
  ("plane", "sphere"), ("plane", "capsule"), ("plane", "ellipsoid"), ("plane", "cylinder"), ("plane", "box"),
  ("sphere", "sphere"), ("sphere", "capsule"), ("sphere", "cylinder"), ("sphere", "box"), ("capsule", "capsule"), ("capsule", "box"),
}  # fmt: skip   pairs whose MJWarp code is a port of MuJoCo's closed-form function: contact multisets must agree
SMARGIN = 0.03125
# body -> (type, size); dyadic sizes, two of each type with different proportions; order 1 swaps the two
SGEOMS = [
  ("sphere", (0.25,)), ("sphere", (0.125,)), ("capsule", (0.125, 0.5)), ("capsule", (0.1875, 0.0625)),
  ("ellipsoid", (0.25, 0.125, 0.1875)), ("ellipsoid", (0.125, 0.25, 0.0625)), ("cylinder", (0.125, 0.25)), ("cylinder", (0.25, 0.0625)),
  ("box", (0.25, 0.125, 0.0625)), ("box", (0.125, 0.375, 0.1875)),
]  # fmt: skip


def struct_geoms(order):
  g = list(SGEOMS)
  if order:
    for i in range(0, 10, 2):
      g[i], g[i + 1] = g[i + 1], g[i]
  return g


def struct_xml(order):
  s = [f'<mujoco><option><flag multiccd="disable"/></option><default><geom margin="{SMARGIN}"/></default><worldbody>',
       '<geom name="plane" type="plane" size="5 5 .1"/>']  # fmt: skip
  for k, (t, sz) in enumerate(struct_geoms(order)):
    mg = ' margin="0"' if t == "box" else ""
    s.append(f'<body name="b{k}"><freejoint/><geom name="g{k}" type="{t}" size="{" ".join(map(str, sz))}"{mg}/></body>')
  s.append("</worldbody></mujoco>")
  return "\n".join(s)


def qmul(a, b):
  w1, x1, y1, z1 = a
  w2, x2, y2, z2 = b
  return np.array([w1 * w2 - x1 * x2 - y1 * y2 - z1 * z2, w1 * x2 + x1 * w2 + y1 * z2 - z1 * y2,
                   w1 * y2 - x1 * z2 + y1 * w2 + z1 * x2, w1 * z2 + x1 * y2 - y1 * x2 + z1 * w2])  # fmt: skip


def qrot(q, v):
  w, x, y, z = q
  R = np.array([[1 - 2 * (y * y + z * z), 2 * (x * y - w * z), 2 * (x * z + w * y)], [2 * (x * y + w * z), 1 - 2 * (x * x + z * z), 2 * (y * z - w * x)],
                [2 * (x * z - w * y), 2 * (y * z + w * x), 1 - 2 * (x * x + y * y)]])  # fmt: skip
  return R @ np.asarray(v, dtype=np.float64)


def qaxis(axis, ang):
  a = np.asarray(axis, dtype=np.float64)
  a = a / np.linalg.norm(a)
  return np.concatenate([[np.cos(ang / 2)], np.sin(ang / 2) * a])


Z2X, Z2Y = (0.5, 0.5, 0.5, 0.5), (0.5, -0.5, -0.5, -0.5)  # exact: local z axis -> world x  /  world y... (cyclic permutations)
ID = (1.0, 0.0, 0.0, 0.0)


def struct_cases(order, rng):
  """(family, bodyA, poseA, bodyB or None, poseB) in a canonical frame; poses are (pos, quat).  bodyB None: plane pair."""
  G = struct_geoms(order)
  out = []
  pen = [-0.0625, -0.015625, 0.015625]  # surface gap: penetrating, slightly penetrating, inside the margin band

  def add(fam, a, pa, b, pb):
    out.append((fam, a, (np.asarray(pa[0], float), np.asarray(pa[1], float)), b, None if pb is None else (np.asarray(pb[0], float), np.asarray(pb[1], float))))

  def tilt(q, k):
    return qmul(q, qaxis(rng.standard_normal(3), 0.03 * (k + 1)))

  # ---- sphere-sphere: axes, diagonal, coincident, unequal radii
  ra, rb = G[0][1][0], G[1][1][0]
  for g in pen:
    for dirv in ((1, 0, 0), (0, 1, 0), (0, 0, -1), (1, 1, 0), (1, -2, 2)):
      u = np.asarray(dirv, float) / np.linalg.norm(dirv)
      add("sphere-sphere", 0, ((0, 0, 0), ID), 1, (u * (ra + rb + g), ID))
  add("sphere-sphere:coincident", 0, ((0, 0, 0), ID), 1, ((0, 0, 0), ID))
  # ---- sphere-capsule: beside the shaft, collinear beyond an end, at an end obliquely, short and long capsule
  for sb in (0, 1):
    rs = G[sb][1][0]
    for cb in (2, 3):
      rc, hl = G[cb][1]
      for g in pen:
        for qc in (ID, Z2X, Z2Y):
          ax = qrot(qc, (0, 0, 1))
          side = qrot(qc, (1, 0, 0))
          add("sphere-capsule:side", sb, (side * (rs + rc + g) + ax * 0.25 * hl, ID), cb, ((0, 0, 0), qc))
          add("sphere-capsule:collinear", sb, (ax * (hl + rs + rc + g), ID), cb, ((0, 0, 0), qc))
          add("sphere-capsule:end-oblique", sb, (ax * hl + (ax + side) / np.sqrt(2) * (rs + rc + g), ID), cb, ((0, 0, 0), qc))
  # ---- sphere-cylinder: side, cap (on the axis and off it), rim corner, inside
  for sb in (0, 1):
    rs = G[sb][1][0]
    for cb in (6, 7):
      rc, hh = G[cb][1]
      for g in pen:
        for qc in (ID, Z2X):
          ax, side = qrot(qc, (0, 0, 1)), qrot(qc, (0, 1, 0))
          add("sphere-cylinder:side", sb, (side * (rs + rc + g) + ax * 0.5 * hh, ID), cb, ((0, 0, 0), qc))
          add("sphere-cylinder:cap-axis", sb, (ax * (hh + rs + g), ID), cb, ((0, 0, 0), qc))
          add("sphere-cylinder:cap-off-axis", sb, (-ax * (hh + rs + g) + side * 0.5 * rc, ID), cb, ((0, 0, 0), qc))
          add("sphere-cylinder:rim", sb, (ax * hh + side * rc + (ax + side) / np.sqrt(2) * (rs + g), ID), cb, ((0, 0, 0), qc))
      add("sphere-cylinder:inside", sb, ((0.03125, 0, 0.015625), ID), cb, ((0, 0, 0), ID))
  # ---- sphere-box: face, edge-nearest, corner-nearest, inside; boxes with three distinct half-sizes
  for sb in (0, 1):
    rs = G[sb][1][0]
    for bb in (8, 9):
      hx = np.array(G[bb][1])
      for g in pen:
        for qb in (ID, Z2X):
          for sg in ((1, 0, 0), (0, -1, 0), (0, 0, 1), (1, 1, 0), (0, 1, -1), (-1, 0, 1), (1, 1, 1), (-1, 1, -1)):
            sg = np.array(sg, float)
            u = sg / np.linalg.norm(sg)
            off = np.where(sg == 0, 0.25 * hx, 0.0)  # not centred on the face / edge
            add("sphere-box:" + ("face", "edge", "corner")[int(np.abs(sg).sum()) - 1], sb, (qrot(qb, sg * hx + off + u * (rs + g)), ID), bb, ((0, 0, 0), qb))
      add("sphere-box:inside", sb, (np.array([0.5, 0.25, 0.125]) * hx, ID), bb, ((0, 0, 0), ID))
  # ---- capsule-capsule: exactly parallel (different lengths, both orders come from `order`), collinear,
  #      perpendicular crossing / T, skew
  (r1, l1), (r2, l2) = G[2][1], G[3][1]
  for qc in (ID, Z2X, Z2Y, (0, 1, 0, 0)):
    ax, s1v, s2v = qrot(qc, (0, 0, 1)), qrot(qc, (1, 0, 0)), qrot(qc, (0, 1, 0))
    for lat in (0.5625, 0.75, 0.9375, 1.0625):  # x (r1+r2): overlapping side by side ... inside the margin band
      for axial in (0.0, 0.25, -0.5, 0.75, 1.0, -1.25):  # x |l1-l2|: inside the span, flush with an end, sticking out
        for phi in (0.0, 0.7):
          latv = (np.cos(phi) * s1v + np.sin(phi) * s2v) * lat * (r1 + r2)
          add("capsule-capsule:parallel", 2, ((0, 0, 0), qc), 3, (latv + ax * axial * abs(l1 - l2), qc))
    for g in pen:
      add("capsule-capsule:collinear", 2, ((0, 0, 0), qc), 3, (ax * (l1 + l2 + r1 + r2 + g), qc))
      qp = qmul(qc, Z2X)  # second capsule perpendicular (its axis along the first one's local x)
      add("capsule-capsule:cross", 2, ((0, 0, 0), qc), 3, (s2v * (r1 + r2 + g) + ax * 0.25 * l1, qp))
      add("capsule-capsule:T", 2, ((0, 0, 0), qc), 3, (s1v * (r1 + r2 + l2 + g) - ax * 0.5 * l1, qp))
      add("capsule-capsule:T-end", 2, ((0, 0, 0), qc), 3, (s1v * (r1 + r2 + l2 + g) + ax * l1, qp))
      for k in range(2):
        add("capsule-capsule:skew", 2, ((0, 0, 0), qc), 3, (s2v * (r1 + r2 + g) + ax * 0.125, tilt(qp, 5 * k + 3)))
  # ---- capsule-box: along each of the 12 edges (exact and tilted a few percent), overshooting near a corner,
  #      flat on a face, tip on a face, pointing at a corner
  ZTO = {0: Z2X, 1: Z2Y, 2: ID}  # capsule local z -> box axis e
  for cb in (2, 3):
    rc, hl = G[cb][1]
    for bb in (8, 9):
      hx = np.array(G[bb][1])
      for e in range(3):
        o1, o2 = (e + 1) % 3, (e + 2) % 3
        for s1s in (1, -1):
          for s2s in (1, -1):
            c = np.zeros(3)
            c[o1], c[o2] = s1s * hx[o1], s2s * hx[o2]  # the edge's midpoint
            out_dir = np.zeros(3)
            out_dir[o1], out_dir[o2] = s1s, s2s
            out_dir /= np.sqrt(2)
            for shift in (0.0, 0.75, 1.5, -2.5):  # along the edge, in units of the box half-size: 1.5 / -2.5 overshoot the corner
              for g in pen[:2] + [0.0078125]:
                base = c + out_dir * (rc + g)
                base[e] = shift * hx[e]
                add("capsule-box:edge-exact", cb, (base, ZTO[e]), bb, ((0, 0, 0), ID))
                add("capsule-box:edge-tilted", cb, (base, tilt(ZTO[e], int(abs(shift) * 2))), bb, ((0, 0, 0), ID))
        # flat on the face normal to o1, axis along e (exact, diagonal in the face, slightly tilted)
        for g in pen[:2]:
          base = np.zeros(3)
          base[o1] = hx[o1] + rc + g
          base[e], base[o2] = 0.25 * hx[e], 0.5 * hx[o2]
          add("capsule-box:face-flat", cb, (base, ZTO[e]), bb, ((0, 0, 0), ID))
          add("capsule-box:face-flat-tilted", cb, (base, tilt(ZTO[e], 1)), bb, ((0, 0, 0), ID))
          axd = np.zeros(3)
          axd[o1] = 1.0
          add("capsule-box:face-diagonal-tilted", cb, (base, qmul(qaxis(axd, 0.6), tilt(ZTO[e], 1))), bb, ((0, 0, 0), ID))
          tip = np.zeros(3)
          tip[e] = hx[e] + hl + rc + g
          tip[o1], tip[o2] = 0.25 * hx[o1], -0.5 * hx[o2]
          add("capsule-box:tip-on-face", cb, (tip, ZTO[e]), bb, ((0, 0, 0), ID))
      for sg in ((1, 1, 1), (-1, 1, -1), (1, -1, -1)):
        sg = np.array(sg, float)
        u = sg / np.sqrt(3)
        # capsule pointing at the corner: its local z along u
        zq = qaxis(np.cross((0, 0, 1), u), np.arccos(u[2]))
        for g in pen[:2]:
          add("capsule-box:corner-pointing", cb, (sg * hx + u * (hl + rc + g), zq), bb, ((0, 0, 0), ID))
          add("capsule-box:corner-across", cb, (sg * hx + u * (rc + g), qmul(zq, Z2X)), bb, ((0, 0, 0), ID))
  # ---- box-box (GJK/EPA + multicontact in MJWarp): face-face aligned, edge-edge crossed, corner-face
  ha, hb = np.array(G[8][1]), np.array(G[9][1])
  for g in pen[:2]:
    for e in range(3):
      v = np.zeros(3)
      v[e] = ha[e] + hb[e] + g
      v[(e + 1) % 3] = 0.25 * ha[(e + 1) % 3]
      add("box-box:face-face", 8, ((0, 0, 0), ID), 9, (v, ID))
      add("box-box:face-face-rot", 8, ((0, 0, 0), ID), 9, (v + np.eye(3)[e] * 0.05, qaxis(np.eye(3)[e], 0.5)))
    add("box-box:corner-face", 8, ((0, 0, 0), ID), 9, ((0, 0, ha[2] + 0.3 + g), qmul(qaxis((1, 0, 0), 0.6), qaxis((0, 1, 0), 0.5))))
  # ---- plane pairs (plane z = 0, normal +z): every type, exact and tilted placements
  for sb in (0, 1):
    for g in pen:
      add("plane-sphere", sb, ((0.125, -0.25, G[sb][1][0] + g), ID), None, None)
  for cb in (2, 3):
    rc, hl = G[cb][1]
    for g in pen:
      add("plane-capsule:parallel", cb, ((0, 0, rc + g), Z2X), None, None)
      add("plane-capsule:parallel-y", cb, ((0.25, 0, rc + g), Z2Y), None, None)
      add("plane-capsule:upright", cb, ((0, 0, rc + hl + g), ID), None, None)
      add("plane-capsule:upside-down", cb, ((0, 0, rc + hl + g), (0, 1, 0, 0)), None, None)
      for ang in (0.3, 0.7854, 1.2):
        add("plane-capsule:tilted", cb, ((0, 0, rc + hl * np.cos(ang) + g), qaxis((1, 0, 0), ang)), None, None)
  for cb in (6, 7):
    rc, hh = G[cb][1]
    for g in pen:
      add("plane-cylinder:flat", cb, ((0, 0.125, hh + g), ID), None, None)
      add("plane-cylinder:flat-flipped", cb, ((0, 0.125, hh + g), (0, 1, 0, 0)), None, None)
      add("plane-cylinder:rolling", cb, ((0, 0, rc + g), Z2X), None, None)
      add("plane-cylinder:rolling-y", cb, ((0, 0, rc + g), Z2Y), None, None)
      for ang in (0.05, 0.5, 0.7854, 1.3):
        add("plane-cylinder:rim", cb, ((0, 0, hh * np.cos(ang) + rc * np.sin(ang) + g), qaxis((1, 2, 0), ang)), None, None)
  for bb in (8, 9):
    hx = np.array(G[bb][1])
    for g in pen:
      for q, e in ((ID, 2), (Z2X, 0), (Z2Y, 1)):  # resting on each kind of face (local axis e vertical)
        pass
      add("plane-box:flat-z", bb, ((0, 0, hx[2] + g), ID), None, None)
      add("plane-box:flat-x", bb, ((0, 0, hx[0] + g), (0.5, -0.5, -0.5, -0.5)), None, None)
      add("plane-box:flat-y", bb, ((0, 0, hx[1] + g), (0.5, 0.5, 0.5, 0.5)), None, None)
      a = np.arctan2(hx[1], hx[2])
      add("plane-box:edge-down", bb, ((0, 0, np.hypot(hx[1], hx[2]) + g), qaxis((1, 0, 0), np.pi / 2 - a)), None, None)
      add("plane-box:edge-tilted", bb, ((0, 0, np.hypot(hx[1], hx[2]) + g), qmul(qaxis((0, 1, 0), 0.05), qaxis((1, 0, 0), np.pi / 2 - a))), None, None)
      u = hx / np.linalg.norm(hx)
      add("plane-box:corner-down", bb, ((0, 0, np.linalg.norm(hx) + g), qaxis(np.cross(u, (0, 0, -1)), np.arccos(-u[2]))), None, None)
  for eb in (4, 5):
    hx = np.array(G[eb][1])
    for g in pen:
      add("plane-ellipsoid:z", eb, ((0, 0, hx[2] + g), ID), None, None)
      add("plane-ellipsoid:x", eb, ((0, 0, hx[0] + g), (0.5, -0.5, -0.5, -0.5)), None, None)
      q = qaxis((1, 1, 0), 0.6)
      add("plane-ellipsoid:tilted", eb, ((0, 0, float(np.linalg.norm(qrot((q[0], -q[1], -q[2], -q[3]), (0, 0, 1)) * hx)) + g), q), None, None)
  return out


def struct_worlds(cases):
  """qpos rows: the pair at its poses (non-plane pairs lifted to z = 3 and moved by an exact rigid motion), the
  other bodies parked far away from everything."""
  rows = []
  for i, (fam, a, pa, b, pb) in enumerate(cases):
    q = np.zeros(70)
    for k in range(10):
      q[7 * k : 7 * k + 3] = (100.0 + 10.0 * k, 0.0, 50.0)
      q[7 * k + 3] = 1.0
    if b is None:
      T, Q = np.array([0.25 * (i % 3), -0.5 * (i % 2), 0.0]), (ID, (0, 0, 0, 1))[i % 2]  # rigid motions that keep the plane
    else:
      T, Q = np.array([0.5 * (i % 3) - 0.5, 0.25 * (i % 5), 3.0 + 0.125 * (i % 4)]), EXQ[i % len(EXQ)]
    for body, pose in ((a, pa), (b, pb)):
      if body is None:
        continue
      q[7 * body : 7 * body + 3] = T + qrot(Q, pose[0])
      q[7 * body + 3 : 7 * body + 7] = qmul(Q, pose[1])
    rows.append(q)
  return np.array(rows)


def multiset_vs_mujoco(r, labels, stats):
  """Per world and geom pair (pairs whose MJWarp code ports MuJoCo's closed-form function): the contacts as a
  multiset (dist, pos, normal) against mujoco.mj_collision.  labels[w] names the pose family of world w."""
  import mujoco

  m, d = r["m"], r["d"]
  fails = []
  byw = defaultdict(list)
  for k in range(r["n"]):
    byw[int(r["world"][k])].append(k)
  for w, fam in enumerate(labels):
    ks = byw.get(w, [])
    d.qpos[:] = r["qpos"][w]
    mujoco.mj_kinematics(m, d)
    mujoco.mj_collision(m, d)
    refall = [(int(c.geom1), int(c.geom2), float(c.dist), np.array(c.pos), np.array(c.frame[:3])) for c in d.contact[: d.ncon]]
    mineall = [(int(r["geom"][k][0]), int(r["geom"][k][1]), float(r["dist"][k]), r["pos"][k], r["frame"][k][0]) for k in ks]
    st = stats.setdefault(fam, {"worlds": 0, "contacts": 0, "pairs_compared": 0, "near_tie": 0})
    st["worlds"] += 1
    st["contacts"] += len(mineall)
    for g1, g2 in sorted({(x[0], x[1]) for x in refall + mineall}):
      pair = (TN.get(int(m.geom_type[g1])), TN.get(int(m.geom_type[g2])))
      if pair not in MJ_PRIMITIVE:
        continue
      ref = [x for x in refall if x[:2] == (g1, g2)]
      mine = [x for x in mineall if x[:2] == (g1, g2)]
      mg = float(m.geom_margin[g1] + m.geom_margin[g2])  # geom margins add up
      if any(abs(x[2] - mg) < 3e-4 for x in ref + mine):
        continue  # a contact sits on the margin boundary: float32 / float64 may legitimately disagree on its presence
      st["pairs_compared"] += 1
      left = list(ref)
      bad = None
      for x in mine:
        j = next((j for j, y in enumerate(left) if abs(x[2] - y[2]) < 3e-4 and np.abs(x[3] - y[3]).max() < 3e-4 and np.abs(x[4] - y[4]).max() < 3e-3), None)
        if j is None:
          bad = f"contact dist {x[2]:.6f} pos {np.round(x[3], 5).tolist()} n {np.round(x[4], 4).tolist()} has no counterpart among MuJoCo's {[(round(y[2], 6), np.round(y[3], 5).tolist(), np.round(y[4], 4).tolist()) for y in ref]}"
          break
        left.pop(j)
      if bad is None and left:
        y = left[0]
        bad = f"MuJoCo's contact dist {y[2]:.6f} pos {np.round(y[3], 5).tolist()} n {np.round(y[4], 4).tolist()} is missing ({len(mine)} contacts vs MuJoCo's {len(ref)})"
      if bad and not _mj_stable(m, d, r["qpos"][w], refall):
        st["near_tie"] += 1  # MuJoCo's own answer changes under a 1e-5 perturbation of the input: discarded
        bad = None
      if bad:
        pname = f"{pair[0]}-{pair[1]}"
        fails.append({"check": "mujoco-multiset", "key": f"C20:mujoco-multiset:{pname}", "pair": pname, "detail": f"[{fam}] {bad}", "xml": r["xml"],
                      "qpos": r["qpos"][w].tolist(), "world": 0, "geoms": [g1, g2], "margin": mg, "family": fam,
                      "reported": {"dist": [x[2] for x in mine], "pos": [np.asarray(x[3]).tolist() for x in mine]}})  # fmt: skip
  return fails


def _mj_stable(m, d, qpos, ref, trials=6, eps=1e-5):
  """Is MuJoCo's contact multiset for this world insensitive to input perturbations of float32-arithmetic size?"""
  import mujoco

  rng = np.random.default_rng(12345)
  for _ in range(trials):
    q = np.asarray(qpos, dtype=np.float64) + rng.uniform(-eps, eps, len(qpos)) * (np.abs(qpos) < 10)
    d.qpos[:] = q
    mujoco.mj_kinematics(m, d)
    mujoco.mj_collision(m, d)
    cur = [(int(c.geom1), int(c.geom2), float(c.dist), np.array(c.pos), np.array(c.frame[:3])) for c in d.contact[: d.ncon]]
    if len(cur) != len(ref):
      return False
    left = list(cur)
    for x in ref:
      j = next((j for j, y in enumerate(left) if x[:2] == y[:2] and abs(x[2] - y[2]) < 2e-4 and np.abs(x[3] - y[3]).max() < 2e-4 and np.abs(x[4] - y[4]).max() < 2e-3), None)
      if j is None:
        return False
      left.pop(j)
  return True


def oracle_structured(res, thorough=False):
  rng = np.random.default_rng(vlib.seed() + 2020)
  fails, stats, fstats = [], {}, {}
  for order in (0, 1):
    cases = struct_cases(order, rng)
    if thorough:  # the same families again with fresh tilt perturbations
      cases = cases + struct_cases(order, rng)
    xml = struct_xml(order)
    r = collide(xml, struct_worlds(cases), naconmax=len(cases) * 12)
    f = check_contacts(r, SMARGIN, stats)
    for x in f:
      x["family"] = cases[x["w"]][0]
      x["detail"] = f"[{x['family']}] " + x["detail"]
    fails += f
    fails += multiset_vs_mujoco(r, [c[0] for c in cases], fstats)
    res.count(len(cases))
    for w, c in enumerate(cases):
      res.nontrivial(("structured", order, c[0], w))
  res.extra["structured_families"] = fstats
  res.extra["structured_max_errors_by_pair"] = {k: {a: (b if a == "contacts" else float(f"{b:.3e}")) for a, b in v.items()} for k, v in sorted(stats.items())}
  return fails


# ---------------------------------------------------------------- directed scenes
F8_XML = """<mujoco><worldbody>
<geom name="s" type="sphere" size="0.02" pos="0.001 0 0.0405" margin="0.01"/>
<body><freejoint/><geom name="c" type="capsule" size="0.02 0.001" euler="0 90 0" margin="0.01"/></body>
</worldbody></mujoco>"""

TILT_CAPSULE_XML = """<mujoco><worldbody>
<geom name="p" type="plane" size="5 5 .1" euler="20 0 0"/>
<body euler="20 0 0"><freejoint/><geom name="c" type="capsule" size=".1 .3"/></body>
</worldbody></mujoco>"""

TILT_CYLINDER_XML = """<mujoco><worldbody>
<geom name="p" type="plane" size="5 5 .1" euler="0 30 0"/>
<body euler="0 30 0"><freejoint/><geom name="c" type="cylinder" size=".1 .3"/></body>
</worldbody></mujoco>"""

MARGIN_XML = """<mujoco><option><flag multiccd="disable"/></option><worldbody>
<body pos="0.10234524309635162 0.29642051458358765 -0.0017495505744591355" quat="-0.5136118485367245 -0.30311467972951 -0.07374245607574174 -0.7993037033237633"><freejoint/><geom type="sphere" size="0.2591" margin="MARGIN"/></body>
<body pos="0.27092796564102173 0.41370850801467896 0.36497825384140015" quat="-0.49108036691941565 -0.4697500106084595 -0.4403601229556517 0.5867350022541076"><freejoint/><geom type="ellipsoid" size="0.173 0.2193 0.2928" margin="MARGIN"/></body>
</worldbody></mujoco>"""


def mj_contacts(xml):
  import mujoco

  m = mujoco.MjModel.from_xml_string(xml)
  d = mujoco.MjData(m)
  mujoco.mj_forward(m, d)
  return m, d, [(float(c.dist), np.array(c.pos), np.array(c.frame).reshape(3, 3)) for c in d.contact[: d.ncon]]


def directed(res):
  """Degenerate configurations the theorems single out, replayed on the real code against MuJoCo C."""
  out = []
  # F8: the +1e-6 regulariser, capsule half-length 1 mm, sphere above its end
  m, d, mc = mj_contacts(F8_XML)
  r = collide(F8_XML, d.qpos)
  res.count()
  if r["n"] == 1 and len(mc) == 1:
    nw, nm = r["frame"][0][0], mc[0][2][0]
    ang = float(np.arccos(np.clip(nw @ nm, -1, 1)))
    dd_ = abs(r["dist"][0] - mc[0][0])
    res.extra["F8_short_capsule"] = {"normal_angle_rad": ang, "dist_mjw": float(r["dist"][0]), "dist_mj": mc[0][0], "normal_mjw": nw.tolist(), "normal_mj": nm.tolist()}
    # bound from the theorem: |pt - pt*| <= 1e-6/(4e-6+1e-6) * 2 mm = 0.4 mm at centre distance ~40.5 mm
    if ang > 1e-3:
      out.append(("C20:closest_segment_point:regulariser",
                  f"sphere r=0.02 above the end of a capsule r=0.02, half-length 1 mm: contact normal tilted by {ang:.4f} rad against MuJoCo (dist {r['dist'][0]:.7f} vs {mc[0][0]:.7f}); closest_segment_point divides by |ab|^2 + 1e-6, so its parameter is 0.8 instead of 1",
                  {"xml": F8_XML, "qpos": d.qpos.tolist(), "expect": "normal (0,0,-1), dist 0.0005", "normal_angle_rad": ang, "dist_error": dd_}))  # fmt: skip
  else:
    out.append(("C20:directed:F8-scene", f"expected one contact, got mjw {r['n']} / mj {len(mc)}", {"xml": F8_XML, "qpos": d.qpos.tolist()}))
  # plane-capsule on a tilted plane, capsule along the normal: frame fallback (repaired in /repo; regression case)
  m, d, mc = mj_contacts(TILT_CAPSULE_XML)
  r = collide(TILT_CAPSULE_XML, d.qpos)
  res.count()
  for k in range(r["n"]):
    F = r["frame"][k]
    eo = float(np.abs(F @ F.T - np.eye(3)).max())
    if eo > 1e-5:
      out.append(("C20:plane_capsule:frame-fallback-not-orthogonal",
                  f"plane tilted 20 deg about x, capsule along the plane normal: contact frame rows {F.round(4).tolist()} are not orthonormal (|F F^T - I| = {eo:.3f}); plane_capsule takes the raw axis (0,1,0) as second row without projecting it off the normal (MuJoCo: {mc[0][2].round(4).tolist() if mc else None})",
                  {"xml": TILT_CAPSULE_XML, "qpos": d.qpos.tolist(), "frame": F.reshape(-1).tolist(), "err": eo}))  # fmt: skip
      break
  # plane-cylinder, cylinder standing flat on a plane tilted about y
  m, d, mc = mj_contacts(TILT_CYLINDER_XML)
  r = collide(TILT_CYLINDER_XML, d.qpos)
  res.count()
  dw, dm = sorted(r["dist"].tolist()), sorted(c[0] for c in mc)
  res.extra["tilted_cylinder"] = {"dist_mjw": dw, "dist_mj": dm}
  # repaired in /repo (local x axis passed by the wrapper); kept as a regression case: distances AND positions
  pw = sorted(map(tuple, np.round(r["pos"], 4).tolist()))
  pm = sorted(tuple(np.round(c[1], 4).tolist()) for c in mc)
  perr = max((max(abs(a - b) for a, b in zip(x, y)) for x, y in zip(pw, pm)), default=0.0) if len(pw) == len(pm) else float("inf")
  res.extra["tilted_cylinder"]["pos_err"] = perr
  if len(dw) != len(dm) or max(abs(a - b) for a, b in zip(dw, dm)) > 1e-4 or perr > 3e-4:
    out.append(("C20:plane_cylinder:degenerate-axis-world-x",
                f"cylinder r=0.1 standing flat on a plane tilted 30 deg about y: contact distances {[round(x, 5) for x in dw]} vs MuJoCo {[round(x, 5) for x in dm]}; in the degenerate branch (axis parallel to the normal) plane_cylinder uses the WORLD x axis as radial direction instead of a vector perpendicular to the cylinder axis",
                {"xml": TILT_CYLINDER_XML, "qpos": d.qpos.tolist(), "dist_mjw": dw, "dist_mj": dm, "pos_err": perr}))  # fmt: skip
  # same sphere-ellipsoid configuration with margin 0 and 0.1: the reported distance must not depend on margin
  ds = {}
  for mg in ("0", "0.1"):
    xml = MARGIN_XML.replace("MARGIN", mg)
    m, d, mc = mj_contacts(xml)
    r = collide(xml, d.qpos)
    res.count()
    ds[mg] = (r["dist"].tolist(), [c[0] for c in mc])
  res.extra["margin_dependence"] = ds
  if ds["0"][0] and ds["0.1"][0] and abs(ds["0"][0][0] - ds["0.1"][0][0]) > 2e-4:
    out.append(("C20:ccd:distance-vs-mujoco",
                f"sphere-ellipsoid, same poses: dist {ds['0'][0][0]:.7f} with margin 0 but {ds['0.1'][0][0]:.7f} with margin 0.1 (MuJoCo's contact: {ds['0.1'][1][0]:.7f} with either margin = the exact value); the GJK/EPA narrowphase result for curved shapes deviates from MuJoCo's by far more than float32 rounding and depends on the margin",
                {"xml": MARGIN_XML.replace("MARGIN", "0.1"), "qpos": d.qpos.tolist(), "dist_margin0": ds["0"][0][0], "dist_margin01": ds["0.1"][0][0], "dist_mujoco": ds["0.1"][1][0]}))  # fmt: skip
  return out


# ---------------------------------------------------------------- run / replay
def run(res):
  quick = res.tier == "quick"
  res.rule = "T-validation cases: inputs per translated function drawn from unit normals/axes (25% axis-aligned), radii incl. 0, half-lengths incl. 0 and 1 mm, coincident and near-coincident centres, capsule along the plane normal, points on axes; distinct = agreeing non-discarded cases. oracle: every contact reported on random 11-geom scenes (distinct = (scene, world, geom pair)); structured pose families for every primitive pair (exactly parallel / perpendicular / collinear axes via exact Hurwitz-quaternion rotations and dyadic sizes, edge- and face-aligned, corner-nearest, tilted by a few percent, unequal sizes in both geom orders), every contact checked (frame, witness points on both geoms, witness separation, midpoint) and the per-pair contact multiset compared with mujoco.mj_collision (worlds where MuJoCo's own answer is unstable under 1e-5 input noise or a contact sits on the margin boundary are discarded); 5 directed degenerate scenes"
  ok, trs, failing = propkit.prove(res, PROPS, gen_names=["math", "primitive_core"], required_funcs=REQ)
  tp = trs.get("primitive_core")
  if tp is not None:
    res.extra["primitive_core_translated"] = getattr(tp, "translated", [])
    res.extra["primitive_core_untranslated"] = {k.rsplit(".", 1)[1]: v for k, v in tp.errors.items()}
  vlib.log(f"[C20 {time.time() - res.t0:.0f}s] proofs built ({'ok' if ok else 'BROKEN'}), T-validation ...")
  tbad = tvalidate(res, trs, 60 if quick else 600)
  vlib.log(f"[C20 {time.time() - res.t0:.0f}s] T-validation done ({len(tbad)} disagreements), oracle ...")
  res.obligation("T-validation: translated primitives and math.py helpers agree with compiled Warp", not tbad, f"{len(tbad)} disagreements")

  fails = oracle_random(res, 3 if quick else 30, 40 if quick else 80)
  vlib.log(f"[C20 {time.time() - res.t0:.0f}s] random scenes done ({len(fails)} failing contacts), structured pose families ...")
  sfails = oracle_structured(res, thorough=not quick)
  fails += sfails
  vlib.log(f"[C20 {time.time() - res.t0:.0f}s] structured families done ({len(sfails)} failures), directed scenes ...")
  bykey = defaultdict(list)
  for f in fails:
    bykey[f["key"]].append(f)
  for key, fl in sorted(bykey.items()):
    f = fl[0]
    res.violation(key, f"{f['pair']} contact fails the {f['check']} check: {f['detail']} ({len(fl)} contacts)", f)
  dfind = directed(res)
  for key, what, data in dfind:
    res.violation(key, what, data)
  vlib.log(f"[C20 {time.time() - res.t0:.0f}s] oracle done")

  # a failing input explains a broken proof / correspondence only if it is not an already recorded finding
  known = {(k.get("property"), k.get("key")) for k in vlib.load_known().get("findings", [])}
  found = any(("C20", v["key"]) not in known for v in res.violations)
  nk = sum(1 for v in res.violations if ("C20", v["key"]) in known)
  res.obligation("oracle: reported contacts are geometrically valid (outside the recorded known findings)", not found,
                 f"{len(fails)} failing contacts, {len(dfind)} directed findings, {nk} violation keys are recorded known findings")
  if tbad and not found:
    res.violation("C20:translator-mismatch", "translated Gallina disagrees with compiled Warp function (model no longer tied to code)", tbad[:3], found_input=False)
  if not ok and not found:
    propkit.broken_proof_violation(res, "C20 theorem over regenerated math.py / collision_primitive_core.py", failing)
  res.assumptions += [
    "float32 rounding is not modelled: theorems are over R; the oracle compares with float64 closed forms at 1e-4 (1 + size)",
    "the wrappers pass the geom's pose/size unchanged to the core functions and write dist/pos/make_frame(normal) (oracle only)",
    "GJK/EPA pairs: MuJoCo's own contact (same margin) is the reference where MuJoCo is in its distance (GJK) regime; EPA depths of curved shapes are only sanity-bounded",
    "MuJoCo convention kept for capsule multi-contacts: each contact is a sphere contact at a point of the capsule axis",
    "box-box (multiccd / face-aligned path, all contacts of the pair - they share one dist): witness allowed off the second face by FACE_TOL (1.6 mrad) x polygon extent, the alignment tolerance of collision_gjk.multicontact (MuJoCo itself places those points exactly midway with their own depth; observed difference 2.5e-4 in dist)",
    "sphere-capsule closed form: tolerance widened by the proved regulariser bound amplified by 1/|closest point - sphere centre| (recorded finding C20:closest_segment_point:regulariser)",
  ]


def replay(res, path):
  import mujoco

  obj = json.load(open(path))
  items = obj if isinstance(obj, list) else [obj]
  code = 1
  for it in items:
    r = it.get("replay", it)
    if not isinstance(r, dict) or "xml" not in r:
      print("replay: no concrete input in this entry (proof/correspondence breakage); re-run the check")
      continue
    code = 0
    print(f"== {it.get('key', '')}")
    c = collide(r["xml"], np.asarray(r["qpos"], dtype=np.float32))
    m = mujoco.MjModel.from_xml_string(r["xml"])
    d = mujoco.MjData(m)
    d.qpos[:] = r["qpos"]
    mujoco.mj_forward(m, d)
    print("MJWarp contacts:")
    for k in range(c["n"]):
      F = c["frame"][k]
      if "geoms" in r and list(c["geom"][k]) != list(r["geoms"]):
        continue
      print(f"  geoms {c['geom'][k].tolist()} dist {c['dist'][k]:.7f} pos {c['pos'][k].round(6).tolist()} frame {F.round(6).tolist()} |FF^T-I| {np.abs(F @ F.T - np.eye(3)).max():.2e}")
    print("MuJoCo contacts:")
    for cc in d.contact[: d.ncon]:
      if "geoms" in r and [int(cc.geom1), int(cc.geom2)] != list(r["geoms"]):
        continue
      print(f"  geoms {[int(cc.geom1), int(cc.geom2)]} dist {cc.dist:.7f} pos {np.round(cc.pos, 6).tolist()} frame {np.round(cc.frame, 6).tolist()}")
  return code
