"""C31 Host/device conversion is faithful (io.py put_model / put_data / get_data_into / make_data).

proof   : Props/C31.v over Model/IoCopy.v (transcribed get_data_into world filter + efc re-indexing with numpy's
          negative-index wrap, put_data tiling) and the regenerated Gen/Skel_io.v (feature-rejection tables, enum value
          lists, field lists of put_model / put_data / get_data_into).
tie     : S (bin/extract_io.py, fail closed) + C: the Coq model is evaluated by vm_compute against the REAL get_data_into /
          put_data on the same arrays (synthetic buffers incl. rows lost to overflow, interleaved worlds, garbage; real
          MuJoCo states; states produced by the real forward with a small njmax).
oracle  : the property itself on the real code (put_model field equality, put_data -> get_data_into round trip for every
          world against the MjData, unsupported features must raise, returned MjData is self-consistent)."""

from __future__ import annotations

import copy
import dataclasses
import json
import time
import warnings

import numpy as np

import propkit
import vlib

MANIFEST = {
  "text": "proof: (1) get_data_into's world filter returns exactly the contacts tagged with the world, order preserved; (2) its efc re-indexing (current code, repaired by commit 0698005; C31_current_variant_fixed) is a permutation of [0,nefc) in MuJoCo's order, row-less contacts get address -1 and the others their block start, whenever the non-negative addresses are exactly [efl,nefc); the explicit OLD definition is kept as documentation: it had the property only when every contact owned all its rows and is refuted (F10) otherwise; (3) put_data;get_data_into is the identity on contacts, contact.efc_address and efc rows for MuJoCo-layout data, every world, and on the regenerated list of plainly copied fields (abstract values); every device field get_data_into reads is filled by put_data (C31_get_reads_filled); (4) every value of each mujoco enum mirrored by types.py is defined by MJWarp, rejected by a put_model table row or explicitly exempt. Tested only: float32 conversion of values, put_model field equality, efc_J, qLD/M, the non-table raise sites",
  "note": "trusted: Coq kernel; extractor bin/extract_io.py (statement-shape matching, fail closed); the hand transcription Model/IoCopy.v (checked each run against the real functions on generated buffers); numpy/mujoco bindings; the exemption list EXEMPT of extract_io.py (printed into Gen/Skel_io.v)",
  "technique": "Rocq proof over a transcribed executable model + regenerated skeleton (S), correspondence by vm_compute against the real functions (C), differential round-trip oracle against MuJoCo",
  "engine": "coq",
}

PROPS = "Props/C31.v"
K_F10 = "C31:get_data_into:rowless-contact-efc-address"
K_EFCID = "C31:get_data_into:efc-id-global-contact-index"
K_STATE = "C31:put_data:efc-state-island-not-copied"
K_ISLAND = "C31:put_data:island-arrays-uninitialised"

# ---------------------------------------------------------------------------------------------------------- scenes
GAP_XML = """<mujoco><option cone="{cone}"/><worldbody><geom name="floor" type="plane" size="5 5 .1" margin="0.1" gap="0.1"/>
<body pos="0 0 {z0}"><freejoint/><geom size=".1" condim="{c0}"/></body>
<body pos="1 0 {z1}"><freejoint/><geom size=".1" condim="{c1}"/></body>
<body pos="2 0 {z2}"><freejoint/><geom size=".1" condim="{c2}"/></body>
<body pos="0 1 0.5"><joint name="h" type="hinge" axis="0 1 0" limited="true" range="-0.1 0.1" frictionloss="0.1"/><geom size=".05" pos="0.2 0 0" contype="0" conaffinity="0"/></body>
</worldbody><equality><joint joint1="h" polycoef="0.05 0 0 0 0"/></equality></mujoco>"""

CORR_XML = """<mujoco><worldbody><geom type="plane" size="5 5 .1"/>
<body pos="0 0 1"><freejoint/><geom size=".1" condim="1"/></body><body pos="1 0 1"><freejoint/><geom size=".1" condim="3"/></body>
<body pos="2 0 1"><freejoint/><geom size=".1" condim="4"/></body><body pos="3 0 1"><freejoint/><geom size=".1" condim="6"/></body>
</worldbody></mujoco>"""


def zl(xs):
  return "[" + "; ".join(f"({int(x)})" if int(x) < 0 else str(int(x)) for x in xs) + "]"


EXTRA = """Local Open Scope Z_scope.
Definition enc (v : efc_view) (dev_id dev_state : list Z) : list Z :=
  match get_J_rows (v_nefc v) (v_idx v) dev_id, get_rows (v_nefc v) (v_idx v) dev_id, get_rows (v_nefc v) (v_idx v) dev_state with
  | Some _, Some r1, Some r2 => [zlen (v_contacts v)] ++ map c_tag (v_contacts v) ++ map c_dim (v_contacts v) ++ v_adr v ++ [v_nefc v] ++ r1 ++ r2
  | _, _, _ => [-999]
  end.
Definition encc (cs : list contact) : list Z := flat_map (fun c => [c_world c; c_dim c; c_tag c] ++ c_adr c) cs.
"""


# ---------------------------------------------------------------------------------------------------------- helpers
def _mj():
  import mujoco

  import mujoco_warp as mjw

  return mujoco, mjw


def coq_buf(worldid, dim, adr, tag):
  return "[" + "; ".join(f"mkC {zl([w])[1:-1]} {zl([dm])[1:-1]} {zl(a)} {zl([t])[1:-1]}" for w, dm, a, t in zip(worldid, dim, adr, tag)) + "]"


def real_view(mujoco, mjw, m, d, w):
  """What the real get_data_into returns for world w, encoded like `enc` (or [-999] when it raises)."""
  r = mujoco.MjData(m)
  try:
    mjw.get_data_into(r, m, d, w)
  except (IndexError, ValueError) as e:
    return [-999], f"{type(e).__name__}: {e}"
  n = r.ncon
  # efc_pos carries integer row tags (see tag_rows); efc_id is not used: a repair may legitimately renumber contact ids
  out = [n] + r.contact.geom[:n, 1].tolist() + r.contact.dim[:n].tolist() + r.contact.efc_address[:n].tolist() + [r.nefc] + np.rint(r.efc_pos).tolist() + r.efc_state.tolist()
  return [int(x) for x in out], None


def tag_rows(wp, d):
  """Overwrite efc.pos (njmax columns) and efc.state (njmax_pad columns) of every world with distinct integer row tags."""
  W = d.nworld
  pos = 1000 * (1 + np.arange(W))[:, None] + np.arange(d.efc.pos.shape[1])[None, :]
  st = 5000 * (1 + np.arange(W))[:, None] + np.arange(d.efc.state.shape[1])[None, :]
  d.efc.pos = wp.array(pos.astype(np.float32), dtype=float)
  d.efc.state = wp.array(st.astype(np.int32), dtype=int)


def dev_arrays(d):
  return dict(
    worldid=d.contact.worldid.numpy(), dim=d.contact.dim.numpy(), adr=d.contact.efc_address.numpy(), tag=d.contact.geom.numpy()[:, 1],
    nacon=int(d.nacon.numpy()[0]), nefc=d.nefc.numpy(), ne=d.ne.numpy(), nf=d.nf.numpy(), nl=d.nl.numpy(), id=np.rint(d.efc.pos.numpy()).astype(np.int64), state=d.efc.state.numpy(), type=d.efc.type.numpy(),
  )  # fmt: skip


def view_term(variant, pyr, d, A, w):
  fn = "view_fixed" if variant == "fixed" else "view_old"
  buf = coq_buf(A["worldid"], A["dim"], A["adr"], A["tag"])
  z = lambda v: zl([v])[1:-1]
  return (
    f"enc ({fn} {'true' if pyr else 'false'} {z(d.naconmax)} {z(d.njmax)} {z(A['nacon'])} {z(A['nefc'][w])} {z(A['ne'][w])} {z(A['nf'][w])} {z(A['nl'][w])} {z(w)} {buf}) "
    f"{zl(A['id'][w])} {zl(A['state'][w])}"
  )


# ---------------------------------------------------------------------------------------------------------- correspondence: get_data_into
_MCACHE = {}


def m_inertia(m):
  import mujoco

  if id(m) not in _MCACHE:
    d0 = mujoco.MjData(m)
    mujoco.mj_forward(m, d0)
    _MCACHE[id(m)] = d0.M.copy()
  return _MCACHE[id(m)]


def synth_state(rng, wp, mjw, m, kind):
  """A Data whose contact / efc buffers are written directly (pipeline-like with overflow and interleaving, or garbage)."""
  W = int(rng.integers(1, 4))
  NA = int(rng.integers(4, 13))
  NJ = int(rng.integers(3, 15))
  d = mjw.make_data(m, nworld=W, naconmax=NA, njmax=NJ)
  d.M = wp.array(np.tile(m_inertia(m).astype(np.float32), (W, 1)), dtype=float)  # get_data_into factorises result.M
  width = d.contact.efc_address.shape[1]
  pyr = int(m.opt.cone) == 0
  worldid = rng.integers(0, W, NA)
  dims = rng.choice([1, 3, 4, 6], NA)
  adr = np.full((NA, width), -1, dtype=np.int64)
  ne, nf, nl = (rng.integers(0, 3, W) for _ in range(3))
  if kind == "garbage":
    dims = rng.integers(-1, 7, NA)
    adr = rng.integers(-NJ - 2, NJ + 3, (NA, width))
    nefc = rng.integers(0, NJ + 4, W)
    nacon = int(rng.integers(0, NA + 3))
  else:
    nacon = int(rng.integers(0, NA + 1)) if rng.random() < 0.8 else NA + int(rng.integers(1, 4))
    counter = (ne + nf + nl).astype(np.int64)
    order = rng.permutation(min(nacon, NA)) if rng.random() < 0.5 else np.arange(min(nacon, NA))  # GPU-like vs CPU order
    for c in order:
      if rng.random() < 0.3:
        continue  # in-gap / sensor-only contact: no rows
      nd = (max(1, 2 * (dims[c] - 1)) if pyr else dims[c])
      base = counter[worldid[c]]
      counter[worldid[c]] += nd
      for j in range(nd):
        adr[c, j] = base + j if base + j < NJ else -1
    nefc = counter
  tag = 100 + np.arange(NA)
  d.nacon = wp.array(np.array([nacon], dtype=np.int32), dtype=int)
  d.contact.worldid = wp.array(worldid.astype(np.int32), dtype=int)
  d.contact.dim = wp.array(dims.astype(np.int32), dtype=int)
  d.contact.efc_address = wp.array(adr.astype(np.int32), dtype=int)
  d.contact.geom = wp.array(np.stack([tag, tag], axis=1).astype(np.int32), dtype=wp.vec2i)
  d.nefc = wp.array(nefc.astype(np.int32), dtype=int)
  d.ne = wp.array(ne.astype(np.int32), dtype=int)
  d.nf = wp.array(nf.astype(np.int32), dtype=int)
  d.nl = wp.array(nl.astype(np.int32), dtype=int)
  tag_rows(wp, d)
  return d


def replay_witness(res, variant):
  """The witness of C31_efc_idx_refuted (f10_cs / f10_dev of Proof/IoCopy.v) on the real get_data_into."""
  import warp as wp

  mujoco, mjw = _mj()
  m = mujoco.MjModel.from_xml_string(CORR_XML)  # pyramidal
  d = mjw.make_data(m, nworld=1, naconmax=2, njmax=8)
  d.M = wp.array(np.tile(m_inertia(m).astype(np.float32), (1, 1)), dtype=float)
  width = d.contact.efc_address.shape[1]
  adr = np.full((2, width), -1, dtype=np.int32)
  adr[1, :4] = [0, 1, 2, 3]
  d.nacon = wp.array(np.array([2], dtype=np.int32), dtype=int)
  d.contact.worldid = wp.array(np.zeros(2, dtype=np.int32), dtype=int)
  d.contact.dim = wp.array(np.array([3, 3], dtype=np.int32), dtype=int)
  d.contact.efc_address = wp.array(adr, dtype=int)
  d.nefc = wp.array(np.array([4], dtype=np.int32), dtype=int)
  pos = np.zeros(d.efc.pos.shape, dtype=np.float32)
  pos[0, :4] = [10, 11, 12, 13]
  d.efc.pos = wp.array(pos, dtype=float)
  r = mujoco.MjData(m)
  mjw.get_data_into(r, m, d, 0)
  got = (np.rint(r.efc_pos).astype(int).tolist(), r.contact.efc_address[:2].tolist())
  want = ([10, 11, 12, 13], [-1, 0]) if variant == "fixed" else ([0, 0, 0, 0], [0, 4])
  res.count()
  res.obligation(f"witness of C31_efc_idx_refuted replayed on the real get_data_into ({variant} variant: rows {want[0]}, addresses {want[1]})", got == want, f"real returned rows {got[0]}, addresses {got[1]}")
  return got == want


def corr_get(res, variant, nsynth, rng):
  import warp as wp

  mujoco, mjw = _mj()
  lines, meta = [], []
  models = []
  for cone in (0, 1):
    m = mujoco.MjModel.from_xml_string(CORR_XML)
    m.opt.cone = cone
    models.append(m)
  ncls = set()
  for k in range(nsynth):
    m = models[k % 2]
    kind = "garbage" if k % 5 == 4 else "pipeline"
    d = synth_state(rng, wp, mjw, m, kind)
    A = dev_arrays(d)
    for w in range(d.nworld):
      exp, err = real_view(mujoco, mjw, m, d, w)
      lines.append(f"tvz ({view_term(variant, int(m.opt.cone) == 0, d, A, w)}) {zl(exp)}")
      rowless = bool((A["adr"][: min(A["nacon"], d.naconmax)][:, 0] < 0).any())
      overflow = bool(A["nefc"][w] > d.njmax)
      meta.append({"kind": kind, "case": k, "world": w, "cone": int(m.opt.cone), "real": exp[:12], "error": err})
      cls = (kind, int(m.opt.cone), rowless, overflow, d.nworld > 1, exp == [-999])
      ncls.add(cls)
      res.nontrivial(("corr-get", k, w))
  return lines, meta, ncls


def real_states(rng, n):
  """MuJoCo states with in-gap, penetrating and absent contacts, equality / friction / limit rows; both cones."""
  mujoco, mjw = _mj()
  out = []
  for k in range(n):
    zs = [float(rng.choice([0.09, 0.095, 0.25, 0.28, 0.6])) for _ in range(3)]
    if k == 0:
      zs = [0.25, 0.09, 0.6]  # F10: in-gap contact listed before a penetrating one
    cs = [int(rng.choice([1, 3, 4, 6])) for _ in range(3)]
    cone = "pyramidal" if k % 2 == 0 else "elliptic"
    xml = GAP_XML.format(cone=cone, z0=zs[0], z1=zs[1], z2=zs[2], c0=cs[0], c1=cs[1], c2=cs[2])
    m = mujoco.MjModel.from_xml_string(xml)
    d = mujoco.MjData(m)
    d.qpos[21] = float(rng.choice([0.0, 0.3, -0.3]))  # hinge: limit active or not
    mujoco.mj_forward(m, d)
    out.append((xml, m, d))
  return out


def corr_real(res, variant, states, rng):
  """Model vs real on Data objects produced by put_data (and by the real forward with a small njmax)."""
  import warp as wp

  mujoco, mjw = _mj()
  lines, meta = [], []
  for k, (xml, m, d) in enumerate(states):
    nworld = 1 + k % 3
    pyr = int(m.opt.cone) == 0
    extra = int(rng.integers(0, 4))
    dd = mjw.put_data(m, d, nworld=nworld, naconmax=nworld * d.ncon + extra, njmax=d.nefc + int(rng.integers(0, 3)))
    types_dev = dd.efc.type.numpy()
    tag_rows(wp, dd)
    A = dev_arrays(dd)
    width = dd.contact.efc_address.shape[1]
    # put_data model: contacts
    hs = "[" + "; ".join(f"mkH {int(d.contact.dim[i])} {zl([d.contact.efc_address[i]])[1:-1]} {int(d.contact.geom[i, 1])}" for i in range(d.ncon)) + "]"
    real = []
    for i in range(dd.naconmax):
      real += [A["worldid"][i], A["dim"][i], A["tag"][i]] + A["adr"][i].tolist()
    lines.append(f"tvz (encc (put_contacts {'true' if pyr else 'false'} {width}%nat {nworld}%nat {dd.naconmax}%nat {hs})) {zl(real)}")
    meta.append({"kind": "put_contacts", "xml": xml, "nworld": nworld})
    # put_data model: an efc row array (efc.id) of every world
    for w in range(nworld):
      lines.append(f"tvz (put_row 0 {dd.njmax}%nat {zl(d.efc_type)}) {zl(types_dev[w])}")
      meta.append({"kind": "put_row", "xml": xml, "world": w})
      exp, err = real_view(mujoco, mjw, m, dd, w)
      lines.append(f"tvz ({view_term(variant, pyr, dd, A, w)}) {zl(exp)}")
      meta.append({"kind": "get-after-put", "xml": xml, "world": w, "error": err})
      res.nontrivial(("corr-put", k, w))
  return lines, meta


def corr_pipeline(res, variant, rng, n):
  """Data produced by the real forward() (CPU Warp): in-gap contacts and rows lost to a small njmax."""
  import warp as wp

  mujoco, mjw = _mj()
  lines, meta = [], []
  for k in range(n):
    cone = "pyramidal" if k % 2 == 0 else "elliptic"
    zs = [[0.25, 0.09, 0.09], [0.09, 0.25, 0.095], [0.095, 0.09, 0.25], [0.28, 0.25, 0.09]][k % 4]
    xml = GAP_XML.format(cone=cone, z0=zs[0], z1=zs[1], z2=zs[2], c0=3, c1=3, c2=[1, 3, 4, 6][k % 4])
    m = mujoco.MjModel.from_xml_string(xml)
    mm = mjw.put_model(m)
    njmax = [40, 7, 5, 40][k % 4]
    dd = mjw.make_data(m, nworld=2, naconmax=8, njmax=njmax)
    with warnings.catch_warnings():
      warnings.simplefilter("ignore")
      mjw.forward(mm, dd)
    tag_rows(wp, dd)
    A = dev_arrays(dd)
    for w in range(2):
      exp, err = real_view(mujoco, mjw, m, dd, w)
      lines.append(f"tvz ({view_term(variant, cone == 'pyramidal', dd, A, w)}) {zl(exp)}")
      meta.append({"kind": "get-after-forward", "xml": xml, "world": w, "njmax": njmax, "nefc_dev": int(A["nefc"][w]), "error": err})
      res.nontrivial(("corr-fwd", k, w))
  return lines, meta


# ---------------------------------------------------------------------------------------------------------- oracle: round trip
def get_targets(skel):
  return [g for g in skel["get_reads"]]


def _get(obj, path):
  for p in path.split("."):
    obj = getattr(obj, p)
  return obj


SKIP_TARGETS = {
  # whole-array comparison is meaningless: get_data_into represents one element / a differently sized buffer
  "solver_niter": "only element [0] is represented (compared separately)",
  "efc_J": "result.efc_J is allocated with nJ = nefc*nv (TODO in io.py); compared in dense form",
  "qLD": "block factors are re-derived by mj_factorM from the returned M (compared through M)",
  "contact.flex": "device arrays are empty when nflex == 0",
  "contact.elem": "device arrays are empty when nflex == 0",
  "contact.vert": "device arrays are empty when nflex == 0",
}
ISLAND_TARGETS = {"island_idofadr", "island_dofadr", "island_nv", "island_nefc", "island_ne", "island_nf", "island_iefcadr", "map_dof2idof", "map_idof2dof", "map_efc2iefc", "map_iefc2efc"}
STATE_TARGETS = {"efc_state", "efc_island"}


def cmp_field(a, b, rtol=1e-6):
  a, b = np.asarray(a, dtype=np.float64), np.asarray(b, dtype=np.float64)
  if a.shape != b.shape:
    return False, f"shape {a.shape} vs {b.shape}"
  if a.size == 0:
    return True, ""
  err = float(np.max(np.abs(a - b)))
  mag = float(max(np.max(np.abs(a)), np.max(np.abs(b))))
  # float32 storage of a float64: relative 6e-8; rtol*(1+mag) with rtol 1e-6 leaves a factor 16
  return (err <= rtol * (1 + mag)), f"err {err:.3g} mag {mag:.3g}"


def dense_J(mujoco, m, d):
  J = np.zeros((d.nefc, m.nv))
  if d.nefc:
    if mujoco.mj_isSparse(m):
      mujoco.mju_sparse2dense(J, d.efc_J, d.efc_J_rownnz, d.efc_J_rowadr, d.efc_J_colind)
    else:
      J = d.efc_J.reshape(-1, m.nv)[: d.nefc].copy()
  return J


def roundtrip_one(mujoco, mjw, targets, m, d, nworld):
  """put_data -> get_data_into for every world, every represented field against the MjData. Returns {class: detail}."""
  ref = copy.copy(d)
  dd = mjw.put_data(m, d, nworld=nworld)
  bad = {}
  for w in range(nworld):
    r = mujoco.MjData(m)
    mjw.get_data_into(r, m, dd, w)
    if r.ncon != ref.ncon or r.nefc != ref.nefc:
      bad.setdefault("sizes", f"world {w}: ncon {r.ncon} vs {ref.ncon}, nefc {r.nefc} vs {ref.nefc}")
      continue
    for g in targets:
      t = g["target"]
      if t in SKIP_TARGETS:
        continue
      if t in ("history",) and m.nhistory == 0:
        continue
      try:
        a, b = _get(r, t), _get(ref, t)
      except AttributeError:
        continue
      if t.startswith("island_") or t in ("tree_island", "dof_island"):
        k = ref.nisland if t.startswith("island_") else None
        a, b = (np.asarray(a)[:k], np.asarray(b)[:k]) if k is not None else (a, b)
      if t in ("map_efc2iefc", "map_iefc2efc"):
        a, b = np.asarray(a)[: ref.nefc], np.asarray(b)[: ref.nefc]
      if t in ("map_dof2idof", "map_idof2dof"):
        a, b = np.asarray(a)[: m.nv], np.asarray(b)[: m.nv]
      if ref.nisland == 0 and (t in ISLAND_TARGETS or t in ("efc_island", "tree_island", "dof_island")):
        continue
      # qLDiagInv is overwritten by mj_factorM(result) from the float32-rounded M: the 6e-8 input rounding is amplified by the
      # conditioning of M (observed 1.5e-6 relative), hence the looser bound for this one field
      ok, det = cmp_field(a, b, rtol=1e-4 if t == "qLDiagInv" else 1e-6)
      if not ok:
        cls = "island" if t in ISLAND_TARGETS else ("state" if t in STATE_TARGETS else ("efc" if t.startswith("efc_") or t == "contact.efc_address" else t))
        # uninitialised memory: keep the replay record deterministic (no garbage values in it)
        bad.setdefault(cls, f"world {w} field {t}: " + ("differs (uninitialised buffer)" if cls == "island" else det))
    ok, det = cmp_field(dense_J(mujoco, m, r), dense_J(mujoco, m, ref))
    if not ok:
      bad.setdefault("efc", f"world {w} field efc_J (dense): {det}")
    if int(r.solver_niter[0]) != int(ref.solver_niter[0]):
      bad.setdefault("solver_niter", f"world {w}")
  return bad


def has_rowless(d):
  return bool(d.ncon and (np.asarray(d.contact.efc_address[: d.ncon]) < 0).any())


def oracle_roundtrip(res, skel, rng, nrandom, states):
  mujoco, mjw = _mj()
  import batchkit
  import models

  targets = get_targets(skel)
  found = {}
  cases = []
  for xml, m, d in states:
    cases.append(("gap-scene", xml, m, d))
  # a feature-rich fixed model (tendons, equality, actuators, sensors, mocap, fluid), both cones, dense/sparse
  for cone in (0, 1):
    for jac in (0, 1):
      m = mujoco.MjModel.from_xml_string(batchkit.RICH_XML)
      m.opt.cone, m.opt.jacobian = cone, jac
      d = mujoco.MjData(m)
      for _ in range(20):
        mujoco.mj_step(m, d)
      d.ctrl[:] = rng.normal(0, 0.3, m.nu)
      mujoco.mj_forward(m, d)
      cases.append((f"rich cone={cone} jacobian={jac}", batchkit.RICH_XML, m, d))
  for k in range(nrandom):
    o = models.Opts(nbody=(2, 6), plane=True, contacts=True, actuators=int(rng.integers(0, 3)), tendons=int(rng.integers(0, 2)), equality=int(rng.integers(0, 2)), limits=0.5,
                    frictionloss=0.3, sensors=0, cameras=0.3, lights=0.3, mocap=0.2, margin=float(rng.choice([0.0, 0.02])), condim=(1, 3, 4, 6),
                    option=f'cone="{rng.choice(["pyramidal", "elliptic"])}" jacobian="{rng.choice(["dense", "sparse"])}"')  # fmt: skip
    xml, _ = models.random_model(rng, o)
    try:
      m = mujoco.MjModel.from_xml_string(xml)
    except ValueError:
      continue
    d = mujoco.MjData(m)
    models.random_state(rng, m, d, vel_scale=0.5, unnormalized=False)
    for j in range(m.njnt):
      if m.jnt_type[j] == 0:
        d.qpos[m.jnt_qposadr[j] + 2] = rng.uniform(0.0, 0.3)  # free bodies near the floor
    mujoco.mj_forward(m, d)
    if not np.all(np.isfinite(d.qacc)):
      continue
    cases.append((f"random {k}", xml, m, d))
  for label, xml, m, d in cases:
    nworld = int(rng.integers(1, 4))
    try:
      with warnings.catch_warnings():
        warnings.simplefilter("ignore")
        mjw.put_model(m)
    except NotImplementedError:
      continue
    try:
      bad = roundtrip_one(mujoco, mjw, targets, m, d, nworld)
    except Exception as e:  # the real conversion crashed: that is a failing input too
      bad = {"crash": f"{type(e).__name__}: {e}"}
    res.count()
    res.nontrivial(("roundtrip", label, xml[:200], nworld))
    rep = {"label": label, "xml": xml, "qpos": d.qpos.tolist(), "qvel": d.qvel.tolist(), "ctrl": d.ctrl.tolist(), "cone": int(m.opt.cone), "jacobian": int(m.opt.jacobian),
           "nworld": nworld, "ncon": int(d.ncon), "nefc": int(d.nefc), "nisland": int(d.nisland), "efc_address": np.asarray(d.contact.efc_address[: d.ncon]).tolist()}  # fmt: skip
    for cls, det in bad.items():
      if cls == "efc" and has_rowless(d):
        key = K_F10
      elif cls == "state":
        key = K_STATE
      elif cls == "island":
        key = K_ISLAND
      else:
        key = f"C31:roundtrip:{cls}"
      found.setdefault(key, []).append(dict(rep, detail=det))
  return found, len(cases)


def oracle_selfconsistent(res, rng, n):
  """After the real forward (several worlds) the MjData returned for every world satisfies MuJoCo's own invariants:
  contact c with efc_address a >= 0 owns rows a..a+ndim-1, whose efc_type is a contact type and whose efc_id is c."""
  mujoco, mjw = _mj()
  found = {}
  for k in range(n):
    cone = "pyramidal" if k % 2 == 0 else "elliptic"
    zs = [[0.09, 0.095, 0.09], [0.25, 0.09, 0.6], [0.09, 0.25, 0.09]][k % 3]
    xml = GAP_XML.format(cone=cone, z0=zs[0], z1=zs[1], z2=zs[2], c0=3, c1=[1, 3, 4, 6][k % 4], c2=3)
    m = mujoco.MjModel.from_xml_string(xml)
    mm = mjw.put_model(m)
    d0 = mujoco.MjData(m)
    mujoco.mj_forward(m, d0)
    dd = mjw.make_data(m, nworld=2)
    mjw.forward(mm, dd)
    for w in range(2):
      r = mujoco.MjData(m)
      mjw.get_data_into(r, m, dd, w)
      res.count()
      res.nontrivial(("selfcons", k, w))
      rep = {"xml": xml, "world": w, "nworld": 2, "cone": cone, "efc_address": r.contact.efc_address[: r.ncon].tolist(), "efc_id": r.efc_id.tolist(), "efc_type": r.efc_type.tolist(),
             "mujoco_efc_address": d0.contact.efc_address[: d0.ncon].tolist(), "mujoco_efc_id": d0.efc_id.tolist()}  # fmt: skip
      # MuJoCo reference for the same state (forward from qpos0): sizes, addresses, ids and types must agree
      if r.ncon != d0.ncon or r.nefc != d0.nefc or r.contact.efc_address[: r.ncon].tolist() != d0.contact.efc_address[: d0.ncon].tolist() or r.efc_type.tolist() != d0.efc_type.tolist():
        found.setdefault(K_F10 if has_rowless(d0) else "C31:get_data_into:efc-layout-differs", []).append(rep)
        continue
      if r.efc_id.tolist() != d0.efc_id.tolist():
        found.setdefault(K_EFCID, []).append(rep)
  return found


def oracle_make_data(res, rng, n):
  """make_data -> get_data_into returns MuJoCo's initial state (mujoco.MjData(m)) in every world: the state vector
  (qpos, qvel, act, time, mocap, eq_active, ctrl, applied forces, history, userdata), no contacts, no constraints."""
  mujoco, mjw = _mj()
  import batchkit
  import models

  fails = []
  xmls = [batchkit.RICH_XML]
  for k in range(n):
    o = models.Opts(nbody=(2, 6), plane=True, contacts=True, actuators=int(rng.integers(0, 3)), equality=int(rng.integers(0, 3)), mocap=0.5, sites=0.5)
    xmls.append(models.random_model(rng, o)[0])
  for xml in xmls:
    try:
      m = mujoco.MjModel.from_xml_string(xml)
      with warnings.catch_warnings():
        warnings.simplefilter("ignore")
        mjw.put_model(m)
    except (ValueError, NotImplementedError):
      continue
    ref = mujoco.MjData(m)
    nworld = int(rng.integers(1, 4))
    dd = mjw.make_data(m, nworld=nworld)
    res.count()
    res.nontrivial(("make_data", xml[:300], nworld))
    for w in range(nworld):
      r = mujoco.MjData(m)
      r.qpos[:] = 7.0  # make sure the fields are really written
      r.time = 3.0
      mjw.get_data_into(r, m, dd, w)
      bad = [f for f in ("qpos", "qvel", "act", "time", "mocap_pos", "mocap_quat", "eq_active", "ctrl", "qfrc_applied", "xfrc_applied", "history", "userdata", "qacc_warmstart")
             if not cmp_field(getattr(r, f), getattr(ref, f))[0]]  # fmt: skip
      if r.ncon != 0 or r.nefc != 0:
        bad.append("ncon/nefc")
      if bad:
        fails.append({"xml": xml, "world": w, "nworld": nworld, "fields": bad})
        break
  return fails


# the four minimal inputs of the (fixed) findings, kept as regression cases under their original keys
W_F10 = """<mujoco><worldbody><geom name="floor" type="plane" size="5 5 .1" margin="0.1" gap="0.1"/>
<body pos="0 0 0.25"><freejoint/><geom size=".1"/></body>
<body pos="1 0 0.09"><freejoint/><geom size=".1"/></body></worldbody></mujoco>"""
W_ONE = """<mujoco><worldbody><geom name="floor" type="plane" size="5 5 .1"/>
<body pos="0 0 0.09"><freejoint/><geom size=".1"/></body></worldbody></mujoco>"""


def oracle_witnesses(res):
  mujoco, mjw = _mj()
  found = {}

  def close(a, b):
    return cmp_field(a, b, rtol=1e-5)[0]

  # F10: in-gap contact listed before a penetrating one; put_data -> get_data_into and forward -> get_data_into, both worlds
  m = mujoco.MjModel.from_xml_string(W_F10)
  d = mujoco.MjData(m)
  mujoco.mj_forward(m, d)
  mm = mjw.put_model(m)
  for via in ("put_data", "forward"):
    dd = mjw.put_data(m, d, nworld=2)
    if via == "forward":
      dd = mjw.make_data(m, nworld=2)
      mjw.forward(mm, dd)
    for w in range(2):
      r = mujoco.MjData(m)
      mjw.get_data_into(r, m, dd, w)
      res.count()
      res.nontrivial(("witness", "F10", via, w))
      if r.nefc != d.nefc or r.contact.efc_address[: r.ncon].tolist() != d.contact.efc_address[: d.ncon].tolist() or not close(r.efc_pos, d.efc_pos):
        found.setdefault(K_F10, []).append({"xml": W_F10, "nworld": 2, "label": f"minimal F10 via {via}", "detail": f"world {w}: efc_pos {np.round(r.efc_pos, 4).tolist()} (MuJoCo {np.round(d.efc_pos, 4).tolist()}), contact.efc_address {r.contact.efc_address[: r.ncon].tolist()} (MuJoCo {d.contact.efc_address[: d.ncon].tolist()})",
                                          "efc_address": d.contact.efc_address[: d.ncon].tolist()})  # fmt: skip
  # one penetrating sphere
  m = mujoco.MjModel.from_xml_string(W_ONE)
  d = mujoco.MjData(m)
  mujoco.mj_forward(m, d)
  mm = mjw.put_model(m)
  dd = mjw.make_data(m, nworld=2)
  mjw.forward(mm, dd)
  for w in range(2):
    r = mujoco.MjData(m)
    mjw.get_data_into(r, m, dd, w)
    res.count()
    res.nontrivial(("witness", "efc_id", w))
    if r.efc_id.tolist() != d.efc_id.tolist():
      found.setdefault(K_EFCID, []).append({"xml": W_ONE, "nworld": 2, "world": w, "mujoco_efc_id": d.efc_id.tolist(), "label": "minimal efc_id", "detail": f"world {w}: efc_id {r.efc_id.tolist()} (MuJoCo {d.efc_id.tolist()})"})
  dd = mjw.put_data(m, d, nworld=2)
  for w in range(2):
    r = mujoco.MjData(m)
    mjw.get_data_into(r, m, dd, w)
    res.count()
    res.nontrivial(("witness", "state-island", w))
    if r.efc_state.tolist() != d.efc_state.tolist() or r.efc_island.tolist() != d.efc_island.tolist():
      found.setdefault(K_STATE, []).append({"xml": W_ONE, "nworld": 2, "label": "minimal efc_state", "detail": f"world {w}: efc_state {r.efc_state.tolist()} (MuJoCo {d.efc_state.tolist()})"})
    k = d.nisland
    isl = ("island_nv", "island_dofadr", "island_idofadr", "island_nefc", "island_ne", "island_nf", "island_iefcadr")
    if r.nisland != k or any(getattr(r, f)[:k].tolist() != getattr(d, f)[:k].tolist() for f in isl) or r.map_dof2idof[: m.nv].tolist() != d.map_dof2idof[: m.nv].tolist() or r.map_efc2iefc[: d.nefc].tolist() != d.map_efc2iefc[: d.nefc].tolist():
      found.setdefault(K_ISLAND, []).append({"xml": W_ONE, "nworld": 2, "label": "minimal island arrays", "detail": f"world {w}: island / map arrays differ from MuJoCo's (nisland {r.nisland} vs {k})"})
  return found


# ---------------------------------------------------------------------------------------------------------- oracle: put_model
def oracle_put_model(res, rng, n):
  """Every types.Model field that mirrors an MjModel field equals it (shape / leading batch dimension aside)."""
  import warp as wp

  mujoco, mjw = _mj()
  import batchkit
  import models
  from mujoco_warp._src import types

  fails = []
  xmls = [batchkit.RICH_XML]
  for k in range(n):
    o = models.Opts(nbody=(2, 7), plane=bool(rng.random() < 0.5), contacts=True, actuators=int(rng.integers(0, 4)), tendons=int(rng.integers(0, 3)), equality=int(rng.integers(0, 3)),
                    limits=0.4, frictionloss=0.3, cameras=0.4, lights=0.4, mocap=0.2, sites=0.7, condim=(1, 3, 4, 6), margin=float(rng.choice([0.0, 0.01])))  # fmt: skip
    xmls.append(models.random_model(rng, o)[0])
  nfields = 0
  for xml in xmls:
    try:
      m = mujoco.MjModel.from_xml_string(xml)
    except ValueError:
      continue
    try:
      with warnings.catch_warnings():
        warnings.simplefilter("ignore")
        mm = mjw.put_model(m)
    except NotImplementedError:
      continue
    res.count()
    res.nontrivial(("put_model", xml[:300]))
    bad = []
    for f in dataclasses.fields(types.Model):
      if f.name in ("opt", "stat", "plugin", "plugin_attr") or not hasattr(m, f.name):
        continue  # opt/stat compared below; plugin lists are filtered to geom plugins by design
      a, b = getattr(mm, f.name), getattr(m, f.name)
      a = a.numpy() if isinstance(a, wp.array) else a
      try:
        a, b = np.asarray(a, dtype=np.float64), np.asarray(b, dtype=np.float64)
      except (TypeError, ValueError):
        continue
      nfields += 1
      if a.size != b.size:
        bad.append((f.name, f"size {a.shape} vs {b.shape}"))
        continue
      ok, det = cmp_field(a.reshape(-1), b.reshape(-1))
      if not ok:
        bad.append((f.name, det))
    for f in dataclasses.fields(types.Option):
      if not hasattr(m.opt, f.name):
        continue
      a = getattr(mm.opt, f.name)
      a = a.numpy() if isinstance(a, wp.array) else a
      b = np.asarray(getattr(m.opt, f.name), dtype=np.float64)
      if f.name == "tolerance":
        b = np.maximum(b, 1e-6)  # documented float32 clamp in put_model
      ok, det = cmp_field(np.asarray(a, dtype=np.float64).reshape(-1), b.reshape(-1))
      nfields += 1
      if not ok:
        bad.append(("opt." + f.name, det))
    ok, det = cmp_field(mm.stat.meaninertia.numpy().reshape(-1), np.array([m.stat.meaninertia]))
    if not ok:
      bad.append(("stat.meaninertia", det))
    if bad:
      fails.append({"xml": xml, "fields": bad[:8]})
  return fails, nfields


FEATURE_XML = """<mujoco><option><flag energy="enable"/></option><worldbody><geom name="floor" type="plane" size="5 5 .1"/>
<site name="w0" pos="0 0 1"/>
<body name="b1" pos="0 0 0.5"><joint name="j1" type="hinge" axis="0 1 0"/><geom name="g1" type="sphere" size=".1"/><site name="s1" pos="0.1 0 0"/>
 <body name="b2" pos="0.3 0 0"><joint name="j2" type="slide" axis="1 0 0"/><geom name="g2" type="capsule" size=".05 .1"/><site name="s2"/></body></body>
</worldbody>
<tendon><spatial name="t0"><site site="w0"/><site site="s1"/><site site="s2"/></spatial></tendon>
<equality><joint joint1="j1" joint2="j2"/></equality>
<actuator><general name="a0" joint="j1" dyntype="filter" dynprm="0.1 0 0" gaintype="fixed" biastype="affine"/></actuator>
<sensor><jointpos joint="j1"/></sensor></mujoco>"""


# where each feature enum lives in MjModel (independent of the extracted table, so that a deleted table row is still tested)
EXPECTED_ROWS = {
  "mjtTrn": ("actuator_trntype", "array"), "mjtDyn": ("actuator_dyntype", "array"), "mjtGain": ("actuator_gaintype", "array"), "mjtBias": ("actuator_biastype", "array"),
  "mjtEq": ("eq_type", "array"), "mjtGeom": ("geom_type", "array"), "mjtSensor": ("sensor_type", "array"), "mjtWrap": ("wrap_type", "array"),
  "mjtSleepPolicy": ("tree_sleep_policy", "array"), "mjtIntegrator": ("opt.integrator", "scalar"), "mjtCone": ("opt.cone", "scalar"), "mjtSolver": ("opt.solver", "scalar"),
  "mjtDisableBit": ("opt.disableflags", "flags"), "mjtEnableBit": ("opt.enableflags", "flags"),
}  # fmt: skip


def oracle_features(res, skel):
  """Every mujoco enum value / flag bit that MJWarp does not define, stored into the MjModel field the table row names,
  must make put_model raise NotImplementedError; the unmodified model must be accepted.  Plus the scalar raise sites."""
  mujoco, mjw = _mj()
  pairs = {p["mjw"]: p for p in skel["enum_pairs"]}
  fails, n = [], 0
  base = mujoco.MjModel.from_xml_string(FEATURE_XML)
  with warnings.catch_warnings():
    warnings.simplefilter("ignore")
    mjw.put_model(base)

  def expect_raise(m, what, exc=NotImplementedError):
    nonlocal n
    n += 1
    res.count()
    res.nontrivial(("feature", what))
    try:
      with warnings.catch_warnings():
        warnings.simplefilter("ignore")
        mjw.put_model(m)
    except exc:
      return
    except Exception as e:
      fails.append({"what": what, "got": f"{type(e).__name__}: {e}"})
      return
    fails.append({"what": what, "got": "accepted"})

  rows = list(skel["reject_rows"])
  have_rows = {(r["field"], r["mj"]) for r in rows}
  by_mj = {p["mj"]: p for p in skel["enum_pairs"] if p["mj"]}
  for mj, (field, kind) in EXPECTED_ROWS.items():  # a row that disappeared from put_model is still exercised
    if (field, mj) not in have_rows and mj in by_mj:
      rows.append({"kind": kind, "field": field, "mjw": by_mj[mj]["mjw"], "mj": mj})
  for r in rows:
    p = pairs[r["mjw"]]
    have = {v for _, v in p["mjw_vals"]}
    for name, v in p["mj_vals"]:
      if r["kind"] == "flags":
        if name.startswith("mjN") or v in have:
          continue
      elif v in have:
        continue
      m = copy.copy(base)
      if r["field"].startswith("opt."):
        f = r["field"][4:]
        setattr(m.opt, f, (getattr(m.opt, f) | v) if r["kind"] == "flags" else v)
      else:
        arr = getattr(m, r["field"])
        if arr.size == 0:
          fails.append({"what": f"{r['field']}: the feature model has no element to carry {name}", "got": "not tested"})
          continue
        arr[0] = v
      expect_raise(m, f"{r['field']} = {name} ({v})")
  # scalar raise sites
  m = copy.copy(base)
  m.opt.noslip_iterations = 3
  expect_raise(m, "opt.noslip_iterations = 3")
  m = copy.copy(base)
  m.opt.disableactuator = 1
  expect_raise(m, "opt.disableactuator = 1 (actuator group 0 disabled)")
  for fld in ("body_plugin", "actuator_plugin", "sensor_plugin"):
    m = copy.copy(base)
    getattr(m, fld)[-1] = 0
    expect_raise(m, f"{fld}[-1] = 0")
  m = copy.copy(base)
  m.opt.enableflags |= int(mujoco.mjtEnableBit.mjENBL_SLEEP)
  m.opt.solver = int(mujoco.mjtSolver.mjSOL_CG)
  expect_raise(m, "sleep enabled with the CG solver", ValueError)
  return fails, n


# ---------------------------------------------------------------------------------------------------------- run
def run(res):
  quick = res.tier == "quick"
  t0 = time.time()
  res.rule = (
    "correspondence cases: one per (generated Data buffer, world): synthetic pipeline-like buffers (random world interleaving, GPU-like block order, row-less contacts, rows cut by njmax, nacon overflow), "
    "garbage buffers (negative dims, out-of-range addresses -> IndexError/ValueError must match), Data from put_data on MuJoCo states and from the real forward with a small njmax; "
    "oracle cases: one per model/state round trip, put_model comparison, unsupported enum value"
  )
  ok, trs, failing = propkit.prove(res, PROPS, gen_names=["Skel_io"])
  skel = trs.get("Skel_io")
  rng = np.random.default_rng(vlib.seed() + 31)
  found = {}
  corr_bad = []
  if skel is not None:
    variant = skel["efc_idx_variant"]
    res.obligation("get_data_into's efc re-indexing block is the repaired one (statement-level match; C31_current_variant_fixed)", variant == "fixed", f"variant={variant} missing={skel['efc_idx_missing'][:3]}")
    res.extra["efc_idx_variant"] = variant
    import tvalid

    vlib.log(f"[C31] proofs built, {time.time() - t0:.0f}s")
    states = real_states(rng, 8 if quick else 40)
    witness_ok = replay_witness(res, variant)
    l1, m1, ncls = corr_get(res, variant, 60 if quick else 600, rng)
    l2, m2 = corr_real(res, variant, states, rng)
    l3, m3 = corr_pipeline(res, variant, rng, 4 if quick else 12)
    lines, meta = l1 + l2 + l3, m1 + m2 + m3
    vlib.log(f"[C31] real runs done, {time.time() - t0:.0f}s")
    with vlib.Lock("corr31"):
      verdicts = tvalid.run_cases("C31", ["Model.IoCopy"], lines, chunk=40, extra_defs=EXTRA)
    corr_bad = [mt for mt, v in zip(meta, verdicts) if v != 0]
    res.count(len(lines))
    res.obligation(
      f"correspondence: Model/IoCopy.v ({variant} re-indexing, world filter, put_data tiling) vs the real get_data_into / put_data", not corr_bad,
      f"{len(lines)} cases ({len(l1)} synthetic over {len(ncls)} classes, {len(l2)} put_data, {len(l3)} after forward), {len(corr_bad)} disagreements" + (": " + json.dumps(corr_bad[:2], default=str)[:600] if corr_bad else ""),
    )  # fmt: skip
    res.sample({"kind": "correspondence", "case": lines[0][:400], "meta": meta[0]})
    res.extra["correspondence"] = {"cases": len(lines), "synthetic": len(l1), "put_data": len(l2), "after_forward": len(l3), "classes": len(ncls), "disagreements": len(corr_bad), "errors_matched": sum(1 for x in m1 if x["real"] == [-999])}
    vlib.log(f"[C31] correspondence {len(lines)} cases, {time.time() - t0:.0f}s")

    # ---- oracle: the property on the real code
    f1, ncases = oracle_roundtrip(res, skel, rng, 10 if quick else 120, states)
    f2 = oracle_selfconsistent(res, rng, 4 if quick else 12)
    f3 = oracle_witnesses(res)
    res.obligation("regression: the four minimal inputs of the fixed C31 findings agree with MuJoCo", not f3, ", ".join(sorted(f3)) or "rowless-contact, efc-id, efc-state/island, island arrays: all agree")
    for k, v in list(f3.items()) + list(f1.items()) + list(f2.items()):
      found.setdefault(k, []).extend(v)
    res.extra["roundtrip"] = {"cases": ncases, "keys": {k: len(v) for k, v in found.items()}}
    vlib.log(f"[C31] round trips {ncases}, {time.time() - t0:.0f}s")
    pm_fails, nfields = oracle_put_model(res, rng, 8 if quick else 80)
    res.extra["put_model"] = {"fields_compared": nfields, "failing_models": len(pm_fails)}
    if pm_fails:
      found.setdefault("C31:put_model:field-differs:" + pm_fails[0]["fields"][0][0], []).extend(pm_fails)
    md_fails = oracle_make_data(res, rng, 4 if quick else 40)
    res.extra["make_data"] = {"failing_models": len(md_fails)}
    if md_fails:
      found.setdefault("C31:make_data:initial-state-differs:" + md_fails[0]["fields"][0], []).extend(md_fails)
    ft_fails, nft = oracle_features(res, skel)
    res.extra["features"] = {"cases": nft, "not_rejected": len(ft_fails)}
    if ft_fails:
      found.setdefault("C31:put_model:unsupported-feature-accepted", []).extend(ft_fails)
    # the structural list of unfilled fields agrees with what the oracle saw (S facts are about the real code)
    unfilled = [n for n, k, _ in skel["data_fields"] if k in ("zeros", "empty", "none") and any(n in g["reads"] for g in skel["get_reads"])]
    res.extra["unfilled_reads"] = unfilled
    res.sample({"kind": "oracle", "round_trips": ncases, "put_model_fields": nfields, "feature_cases": nft, "finding_keys": sorted(found)})
  # ---- report
  what = {
    K_F10: "REGRESSION of fixed finding (commit 0698005): get_data_into concatenates contact.efc_address[c,:ndim] of contacts without rows (-1): numpy wraps the index, the returned efc rows are copies of the last buffer row and contact.efc_address are running sums instead of -1/block starts",
    K_EFCID: "REGRESSION of fixed finding (commit c802862): get_data_into returns efc_id of contact rows as the index into the flat multi-world contact buffer, not into the returned contact list (world >= 1 after forward)",
    K_STATE: "REGRESSION of fixed finding (commit b3ed252): put_data does not copy efc_state / efc_island (left zero) although get_data_into returns them",
    K_ISLAND: "REGRESSION of fixed finding (commit b3ed252): put_data copies nisland/tree_island/dof_island but leaves island_* and map_* arrays wp.empty (uninitialised); get_data_into returns them when nisland > 0",
  }
  for k, v in found.items():
    res.violation(k, what.get(k, "put_data/get_data_into/put_model disagrees with MuJoCo") + f" ({len(v)} failing inputs; first: {str(v[0].get('detail', v[0].get('got', v[0].get('fields', ''))))[:160]})", v[0])
  if skel is not None and not witness_ok and not found:
    res.violation("C31:model-mismatch", "the refutation witness does not behave on the real get_data_into as the model says", {"variant": skel["efc_idx_variant"]}, found_input=False)
  if corr_bad and not found:
    res.violation("C31:model-mismatch", "Model/IoCopy.v disagrees with the real get_data_into / put_data (model no longer tied to code)", corr_bad[:3], found_input=False)
  if not ok and not found:
    propkit.broken_proof_violation(res, "C31 theorem over the regenerated io skeleton", failing)
  res.assumptions += [
    "fields are compared as values: float64 -> float32 storage is tested with rtol 1e-6*(1+|x|), not proved",
    "the abstract round trip covers the plainly copied fields (result.f[:] = d.f[world_id]); qLD/M (re-factorised), efc_J (sparse<->dense) and actuator_moment are tested only",
    "feature rejection: the theorem covers the three table-driven loops; the 14 other raise sites are extracted (Skel_io.reject_sites) and 6 of them exercised by directed models",
    "exemptions (Skel_io.exempt): count sentinels and enums put_model has no row for (mjtObj tags, mjSTAGE_NONE, mjDATATYPE_AXIS/QUATERNION, mjSTATE_PLUGIN)",
    "the renumbering of contact rows' efc_id (commit c802862) is tested (regression witness, self-consistency oracle), not modelled in Coq; the correspondence tags rows through efc_pos / efc_state",
    "contact.flex/elem/vert of the returned MjData are not written when nflex == 0 (MuJoCo holds -1 there): not a represented field, not compared",
  ]


def replay(res, path):
  mujoco, mjw = _mj()
  r = json.load(open(path))["replay"]
  if isinstance(r, list) or "xml" not in r:
    print("replay: no concrete model in this file (proof/correspondence breakage or a feature case); re-run the check")
    print(json.dumps(r, default=str)[:1500])
    return 1
  m = mujoco.MjModel.from_xml_string(r["xml"])
  if "cone" in r and isinstance(r["cone"], int):
    m.opt.cone = r["cone"]
  if "jacobian" in r:
    m.opt.jacobian = r["jacobian"]
  d = mujoco.MjData(m)
  if "qpos" in r:
    d.qpos[:] = r["qpos"]
    d.qvel[:] = r["qvel"]
    d.ctrl[:] = r["ctrl"]
  mujoco.mj_forward(m, d)
  nworld = r.get("nworld", 2)
  if "mujoco_efc_id" in r:
    mm = mjw.put_model(m)
    dd = mjw.make_data(m, nworld=nworld)
    mjw.forward(mm, dd)
  else:
    dd = mjw.put_data(m, d, nworld=nworld)
  for w in range(nworld):
    out = mujoco.MjData(m)
    mjw.get_data_into(out, m, dd, w)
    print(f"world {w}: ncon {out.ncon} (MuJoCo {d.ncon}) nefc {out.nefc} (MuJoCo {d.nefc})")
    print("  contact.efc_address", out.contact.efc_address[: out.ncon].tolist(), "MuJoCo", d.contact.efc_address[: d.ncon].tolist())
    print("  efc_pos", np.round(out.efc_pos, 4).tolist(), "MuJoCo", np.round(d.efc_pos, 4).tolist())
    print("  efc_id", out.efc_id.tolist(), "MuJoCo", d.efc_id.tolist())
    print("  efc_state", out.efc_state.tolist(), "MuJoCo", d.efc_state.tolist())
    if d.nisland:
      print("  island_nv", out.island_nv[: d.nisland].tolist(), "MuJoCo", d.island_nv[: d.nisland].tolist())
  return 0
