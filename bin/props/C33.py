"""C33 set_const recomputes derived model fields correctly.

Proof (Coq, Props/C33.v) over the 22 kernels of set_const.py REGENERATED into Gen/T_set_const.v
and the host stage sequence REGENERATED into Gen/Skel_pipeline.v:
  * subtreemass_levels: init + level-by-level accumulate launches (Base/Kernel.v launch_seq,
    several worlds, every task order inside a launch) leave the subtree mass sums
    (instance of C02's tree_accumulate_sched_correct);
  * closed forms of the copy / reduction / finalisation kernels, non-negativity (partial);
  * leading index of every write of each kernel (each output at its own batch size), in bounds;
  * restore-state frame lemma from the extracted host code (abstract interpreter, soundness
    proved, evaluated by vm_compute).
Ties: kernel validation (real launches of mjw.set_const traced by bin/ktrace.py vs the translated
kernels run inside Coq, bin/kvalid.py); S-check of the in-place table / launch dimensions against
the kernel sources (ast).
Oracle (the property itself, a TEST): random models, per-world random set_const-safe changes,
mjw.set_const / sub-functions vs mujoco.mj_setConst per world, Data state restored bit-exactly,
derived Data fields vs mj_forward at the restored state."""

from __future__ import annotations

import copy
import json
import re

import numpy as np

import propkit
import vlib

MANIFEST = {
  "text": "proof: Rocq theorems about the 22 kernels of set_const.py machine-translated on every run (subtree-mass accumulation for every in-launch task order via C02's schedule theorem, closed forms of meaninertia / invweight finalisation / acc0 / dampratio / camera-light references, leading index of every write, non-negativity given non-negative diagonals) and about the extracted host stage sequence (qpos and all integration-state fields are restored; the restore stages recompute every dirtied Data field); the position stages, solve_m and the Jacobian rows set_const relies on are only compared with mujoco.mj_setConst by a differential oracle; float32 rounding is not modelled",
  "note": "trusted: Coq kernel + vm_compute; translator bin/translate.py (kernel validation against traced real launches on every run); extractor bin/extract_launch.py; the frame hypothesis of the restore lemma (a launch writes only its outputs= arguments plus the listed in-place inputs; checked against the kernel sources by an ast scan each run); mujoco 3.13 binary as reference; real-number axioms of Coq's Reals",
  "technique": "Rocq proof over machine-translated kernels (T) and the extracted host pipeline (S), kernel translation validation on traced launches, differential oracle against MuJoCo",
  "engine": "coq",
}

PROPS = "Props/C33.v"
KERNELS = [
  "_init_subtreemass", "_accumulate_subtreemass", "_copy_qpos0_to_qpos", "_copy_tendon_length0", "_compute_eq_data0",
  "_resolve_tendon_lengthspring", "_compute_meaninertia", "_set_unit_vector", "_extract_dof_A_diag", "_finalize_dof_invweight0",
  "_compute_body_jac_row", "_compute_body_A_diag_entry", "_finalize_body_invweight0", "_copy_tendon_jacobian",
  "_compute_tendon_dot_product", "_compute_cam_pos0", "_compute_light_pos0", "_copy_actuator_moment", "_compute_actuator_acc0",
  "_compute_dof_M0", "_resolve_dampratio", "_set_length_range",
]  # fmt: skip
# kernels whose written row is tid0 itself (Props/C33.v C33_batched_rows_all); all others use tid0 % out.shape[0]
TID_ROW = {"_copy_qpos0_to_qpos", "_set_unit_vector", "_compute_body_jac_row", "_copy_tendon_jacobian", "_copy_actuator_moment",
           "_compute_actuator_acc0", "_compute_dof_M0", "_set_length_range"}  # fmt: skip
STATE_FIELDS = ["d.time", "d.qpos", "d.qvel", "d.act", "d.history", "d.qacc_warmstart", "d.ctrl", "d.qfrc_applied", "d.xfrc_applied",
                "d.eq_active", "d.mocap_pos", "d.mocap_quat", "d.userdata"]  # fmt: skip

F32 = np.float32
IN_FIELDS = ["body_mass", "body_inertia", "body_ipos", "body_iquat", "body_pos", "body_quat", "qpos0", "qpos_spring", "dof_armature",
             "eq_data", "tendon_lengthspring", "actuator_gainprm", "actuator_biasprm"]  # fmt: skip
OUT_FIELDS = ["body_subtreemass", "dof_invweight0", "body_invweight0", "tendon_invweight0", "tendon_length0", "tendon_lengthspring",
              "actuator_acc0", "cam_pos0", "cam_poscom0", "cam_mat0", "light_pos0", "light_poscom0", "light_dir0", "eq_data",
              "actuator_biasprm"]  # fmt: skip
CAMLIGHT_OUT = {"cam_pos0", "cam_poscom0", "cam_mat0", "light_pos0", "light_poscom0", "light_dir0", "cam_xpos", "cam_xmat", "light_xpos", "light_xdir"}
DATA_STATE = ["qpos", "qvel", "act", "ctrl", "mocap_pos", "mocap_quat", "qfrc_applied", "xfrc_applied", "time", "qacc_warmstart", "eq_active"]
DERIVED = ["xpos", "xmat", "xipos", "subtree_com", "cam_xpos", "cam_xmat", "light_xpos", "light_xdir", "site_xpos", "geom_xpos", "ten_length", "actuator_length"]

K_FALLBACK = "C33:_finalize_body_invweight0:zero-component-fallback"
K_SIMPLE2 = "C33:invweight0:body_simple-2-slider-bodies"
K_CAMLIGHT = "C33:set_const_0:camlight-evaluated-in-tracking-mode"
K_LENGTHRANGE = "C33:set_length_range:nworld>1-writes-out-of-bounds"
K_CAMROWS = "C33:_compute_cam_pos0:mixed-batch-rows"

# camera / light tracking and targeting modes (MuJoCo computes the *0 references in fixed mode)
CAM_XML = """<mujoco><worldbody>
 <body name="t" pos="1 0 0.5"><joint type="slide" axis="0 1 0"/><geom size="0.1"/></body>
 <light name="l0" pos="0 0 3" dir="0 0 -1" mode="targetbodycom" target="b2"/>
 <camera name="c0" pos="0 -2 1" mode="targetbody" target="b1"/>
 <body name="b1" pos="0.1 0 0.5"><joint name="h1" type="ball"/><geom size="0.1" pos="0.05 0 0"/>
   <camera name="c1" pos="0.1 0.2 0.3" mode="trackcom"/><light name="l1" pos="0.1 0 0" dir="1 0 -1" mode="track"/>
   <body name="b2" pos="0.3 0 0"><joint name="h2" type="hinge" axis="1 0 0"/><geom size="0.05" pos="0.1 0 0"/>
     <camera name="c2" pos="0 0.2 0" mode="track"/><camera name="c3" pos="0 0.2 0.1" mode="trackcom" target="t"/></body></body>
</worldbody></mujoco>"""
# site-based equalities, connect/weld between bodies and to the world, dampratio actuators, ball + free joints
EQ_XML = """<mujoco><option jacobian="%s"/><worldbody>
 <light name="l0" pos="0 0 3" dir="0 0 -1"/><camera name="c0" pos="0 -2 1"/>
 <body name="b1" pos="0.1 0 0.5"><joint name="h1" type="hinge" axis="0 1 0"/><geom size="0.1"/><site name="s1" pos="0.1 0 0"/>
   <camera name="c1" pos="0.1 0.2 0.3"/><light name="l1" pos="0.1 0 0"/>
   <body name="b2" pos="0.3 0 0"><joint name="h2" type="hinge" axis="1 0 0"/><joint name="sl" type="slide" axis="0 0 1"/><geom size="0.05" pos="0.1 0 0"/><site name="s2" pos="0.2 0 0"/></body></body>
 <body name="b3" pos="-0.4 0 0.5"><freejoint/><geom type="box" size="0.1 0.05 0.02"/><site name="s3" pos="0 0 0.1"/></body>
 <body name="b4" pos="-0.4 0.5 0.5"><joint type="ball"/><geom type="box" size="0.1 0.05 0.02" pos="0.1 0 0"/><site name="s4" pos="0 0 0.1"/></body>
</worldbody>
<equality><connect site1="s1" site2="s3"/><weld site1="s2" site2="s4"/><connect body1="b2" body2="b3" anchor="0.1 0 0"/><weld body1="b4" body2="b1"/><weld body1="b3"/></equality>
<actuator><position joint="h1" kp="10" dampratio="1"/><position joint="sl" kp="5" dampratio="0.5" gear="2"/><motor site="s3" gear="1 0 0 0 0.5 0"/></actuator>
</mujoco>"""
# bodies MuJoCo compiles as body_simple == 2 / == 1 (vanishing rotational / translational weight)
SLIDER_XML = """<mujoco><worldbody>
 <body name="s1" pos="0 0 1"><joint type="slide" axis="0 1 0" armature="0.5"/><geom size="0.1" mass="2"/></body>
 <body name="s2" pos="1 0 1"><joint type="slide" axis="1 0 0"/><joint type="slide" axis="0 0 1"/><geom type="box" size="0.1 0.2 0.3" mass="3"/></body>
 <body name="s3" pos="2 0 1"><joint type="slide" axis="1 1 0"/><geom size="0.1" mass="1.5"/></body>
 <body name="h" pos="3 0 1"><joint type="hinge" axis="0 0 1"/><geom size="0.1" mass="2"/></body>
</worldbody><equality><weld body1="s1" body2="h"/></equality></mujoco>"""
NV0_XML = """<mujoco><worldbody><light pos="0 0 1"/><camera pos="0 1 1"/><body pos="0 0 1"><geom size="0.1"/><camera name="c" pos="0.1 0 0"/></body></worldbody></mujoco>"""
LR_XML = """<mujoco><worldbody><body><joint name="j" type="hinge" limited="true" range="-1 2"/><geom size="0.1"/><site name="s1" pos="0.1 0 0"/>
 <camera name="c" pos="0.1 0 0"/>
 <body pos="0.5 0 0"><joint name="j2" type="hinge" axis="0 0 1"/><geom size="0.1"/><site name="s2" pos="0.4 0 0"/></body></body></worldbody>
<tendon><spatial name="t1" limited="true" range="0.1 0.5"><site site="s1"/><site site="s2"/></spatial></tendon>
<actuator><motor joint="j" gear="2"/><motor joint="j2" gear="-1.5"/><motor tendon="t1" gear="-0.5"/><motor joint="j2" gear="3"/></actuator></mujoco>"""


# ------------------------------------------------------------------------------------------------
# S: in-place table and launch dimensions against the sources
# ------------------------------------------------------------------------------------------------
def _launches(prog, f, seen=None, out=None):
  """All launches reachable from host function f (extract_launch IR)."""
  seen = set() if seen is None else seen
  out = [] if out is None else out
  if f in seen or f not in prog:
    return out
  seen.add(f)

  def walk(stmts):
    for s in stmts:
      k = s["k"]
      if k == "launch":
        out.append(s)
      elif k == "call":
        _launches(prog, s["f"], seen, out)
      elif k == "if":
        walk(s["then"])
        walk(s["else"])
      elif k == "loop":
        walk(s["body"])

  walk(prog[f]["body"])
  return out


def _written_params(fis, q, memo):
  """Array parameters of device function q that it (or a callee receiving them) may write."""
  if q in memo:
    return memo[q]
  memo[q] = set()
  fi = fis.get(q)
  if fi is None:
    memo[q] = None
    return None
  w = {a[0] for a in fi.accesses if a[2] != "read"}
  for callee, args, _ in fi.calls:
    arr_args = [(i, a[1]) for i, a in enumerate(args) if a[0] == "ARR"]
    if not arr_args:
      continue
    cands = [k for k in fis if k == callee or k.endswith("." + callee.split(".")[-1])]
    cw = _written_params(fis, cands[0], memo) if len(cands) == 1 else None
    for i, p in arr_args:
      if cw is None:
        w.add(p)  # unknown callee given an array: conservatively written
      else:
        g = fis[cands[0]]
        if i < len(g.params) and g.params[i] in cw:
          w.add(p)
  memo[q] = w
  return w


def s_check(res, skel):
  import extract_access as EA

  prog = skel.prog
  fis = EA.collect(vlib.REPO)
  with open(f"{vlib.COQ}/Model/SetConst.v") as fh:
    txt = fh.read()
  blk = txt[txt.index("Definition sc_inplace") :]
  blk = blk[: blk.index("].") + 2]
  table = {m.group(1): [int(x) for x in re.findall(r"(\d+)%nat", m.group(2))] for m in re.finditer(r'\("([^"]+)",\s*\[([^\]]*)\]\)', blk)}
  launches = []
  for f in ("set_const.set_const", "set_const.set_length_range"):
    launches += _launches(prog, f)
  memo, bad, unresolved, nres = {}, [], [], 0
  for L in launches:
    q = L["kernel"]
    args = list(L["ins"]) + list(L["outs"])
    w = _written_params(fis, q, memo)
    if w is None or len(fis[q].params) != len(args):
      unresolved.append(q)
      hit = [a for a in L["ins"] if a in STATE_FIELDS or a == "qpos_saved"]
      if hit:
        bad.append(f"{q}: unresolved kernel receives {hit} as input")
      continue
    nres += 1
    for p in w:
      i = fis[q].params.index(p)
      if i < len(L["ins"]) and i not in table.get(q, []):
        bad.append(f"{q}: parameter {p} (input #{i} = {args[i]}) is written but not listed in sc_inplace")
  res.count(len(launches))
  res.obligation(
    "S: every kernel launched by set_const writes only its outputs= arguments or inputs listed in Model/SetConst.v sc_inplace",
    not bad,
    f"{len(launches)} launch sites, {nres} resolved, unresolved (no state field among inputs): {sorted(set(unresolved))}; {bad[:4]}",
  )
  # launch dimension vs written row for set_const's own kernels whose output is a Model field
  dimbad = []
  for L in launches:
    q = L["kernel"]
    if not q.startswith("set_const."):
      continue
    name = q.split(".")[1]
    outs = list(L["outs"]) or [a for a in L["ins"] if a == "m.body_subtreemass"]
    dim0 = L["dim"].strip()
    dim0 = dim0[1:].split(",")[0].strip() if dim0.startswith("(") else dim0
    local = {s["name"]: s["expr"] for f in prog.values() for s in f["body"] if s["k"] == "assign"}
    dim0 = local.get(dim0, dim0)
    for o in outs:
      if not o.startswith("m."):
        continue
      if name in TID_ROW:
        if dim0 != f"{o}.shape[0]":
          dimbad.append(f"{name}: writes row tid0 of {o} but is launched with dim0 = {dim0}")
      elif f"{o}.shape[0]" not in dim0:
        dimbad.append(f"{name}: dim0 = {dim0} does not cover {o}.shape[0]")
  res.obligation("S: launch dimension of every set_const kernel writing a Model field matches the row it writes", not dimbad, "; ".join(dimbad))
  return bad + dimbad, dimbad


# ------------------------------------------------------------------------------------------------
# kernel validation on traced real launches
# ------------------------------------------------------------------------------------------------
def kvalidate(res, tr, quick):
  import mujoco
  import warp as wp

  import batchkit
  import ktrace
  import kvalid
  import mujoco_warp as mjw
  from mujoco_warp._src import set_const as SC

  wanted = {f"mujoco_warp._src.set_const.{n}": tr.kernels[n] for n in KERNELS if n in tr.kernels}
  cases = []
  small = """<mujoco><worldbody><light pos="0 0 2"/>
   <body name="a" pos="0 0 0.5"><joint name="j0" type="hinge" axis="0 1 0" limited="true" range="-1 1"/><geom size="0.08" pos="0.1 0 0"/><site name="s0" pos="0.2 0 0"/>
     <camera name="c" pos="0 0.1 0" mode="targetbody" target="b"/>
     <body name="b" pos="0.3 0 0"><joint name="j1" type="slide" axis="0 0 1"/><geom size="0.05"/><site name="s1" pos="0 0 0.1"/>
       <body name="w" pos="0.1 0 0"><geom size="0.03"/></body></body></body>
   <body name="f" pos="0.5 0.5 0.5"><joint type="ball"/><geom type="box" size="0.1 0.05 0.02" pos="0.05 0 0"/></body>
  </worldbody>
  <tendon><fixed name="tf" limited="true" range="-1 1"><joint joint="j0" coef="1"/><joint joint="j1" coef="-0.5"/></fixed><spatial name="ts"><site site="s0"/><site site="s1"/></spatial></tendon>
  <equality><connect body1="b" body2="f" anchor="0.1 0 0"/><weld body1="f" body2="a"/></equality>
  <actuator><position joint="j0" kp="9" dampratio="0.8"/><motor tendon="tf" gear="-2"/></actuator></mujoco>"""
  rng = np.random.default_rng(vlib.seed() + 3301)
  for xml, nworld in ((small, 2),) if quick else ((small, 2), (batchkit.RICH_XML, 2), (EQ_XML % "sparse", 1)):
    mjm = mujoco.MjModel.from_xml_string(xml)
    v = [copy.copy(mjm) for _ in range(nworld)]
    for x in v:
      perturb(rng, x)
    mm = batched_model(mjw, wp, mjm, v)
    dd = mjw.put_data(mjm, mujoco.MjData(mjm), nworld=nworld)
    with ktrace.Tracer(wanted, max_elems=3000, max_tasks=200, per_kernel=1 if quick else 2) as t:
      mjw.set_const(mm, dd)
      SC.set_length_range(mm, dd)
      wp.synchronize()
    cases += t.cases
    res.extra.setdefault("ktrace_skipped", {}).update(t.skipped)
  seen = sorted({c["qual"].split(".")[-1] for c in cases})
  for c in cases:
    # _copy_tendon_jacobian reads ten_J_in.shape[2] of a 2-d array (unused value; Warp pads shapes
    # with 0): give the numpy copies a third axis so that kvalid can take .shape[2]
    for r, k in c["fi"].shape_params:
      a = np.asarray(c["args"][r])
      if a.ndim <= k:
        c["args"][r] = a.reshape(a.shape + (1,) * (k + 1 - a.ndim))
        if r in c["after"]:
          c["after"][r] = np.asarray(c["after"][r]).reshape(c["args"][r].shape)
  for c in cases:
    res.nontrivial(("kv", c["qual"], str(c["dim"])))
  # local workaround (kvalid is shared): scalars of the padded axis arrive as 1-element arrays
  lit0, wval0 = kvalid._lit, kvalid._wval

  def sq(x, t):
    return np.asarray(x).reshape(-1)[0] if t[0] in ("S", "Z", "B") and np.asarray(x).size == 1 else x

  kvalid._lit = lambda x, t: lit0(sq(x, t), t)
  kvalid._wval = lambda x, t: wval0(sq(x, t), t)
  try:
    verdicts = kvalid.run_cases(res, "C33k", "Gen.T_set_const", cases, tol=5e-4)
  finally:
    kvalid._lit, kvalid._wval = lit0, wval0
  res.extra["kernel_validation"] = {"agree": verdicts.count(0), "discarded": verdicts.count(1), "disagree": verdicts.count(2), "kernels": seen}
  bad = [{"case": i, "kernel": cases[i]["qual"], "dim": str(cases[i]["dim"])} for i, x in enumerate(verdicts) if x == 2]
  missing = [k for k in KERNELS if k not in seen]
  return bad, missing, verdicts


# ------------------------------------------------------------------------------------------------
# oracle: mjw.set_const vs mujoco.mj_setConst, per world
# ------------------------------------------------------------------------------------------------
def nquat(q):
  q = np.asarray(q, dtype=np.float64)
  return q / np.linalg.norm(q, axis=-1, keepdims=True)


def perturb(rng, m):
  """In-place set_const-safe changes of an MjModel (set_const docstring table); float32-representable."""
  import mujoco

  nb = m.nbody
  s = rng.uniform(0.5, 2.0, nb)
  m.body_mass[:] = (m.body_mass * s).astype(F32)  # mass and inertia scaled together
  m.body_inertia[:] = (m.body_inertia * s[:, None]).astype(F32)
  for b in range(1, nb):
    if m.body_simple[b] == 0:  # mj_setConst rejects inertial-frame changes of bodies compiled as simple
      m.body_ipos[b] = (m.body_ipos[b] + rng.normal(0, 0.02, 3)).astype(F32)
      m.body_iquat[b] = nquat(m.body_iquat[b] + rng.normal(0, 0.1, 4)).astype(F32)
    if m.body_weldid[b] != 0 and m.body_mocapid[b] < 0:  # body_pos/quat: unsafe for static bodies
      m.body_pos[b] = (m.body_pos[b] + rng.normal(0, 0.05, 3)).astype(F32)
      m.body_quat[b] = nquat(m.body_quat[b] + rng.normal(0, 0.1, 4)).astype(F32)
  for name in ("qpos0", "qpos_spring"):
    q = getattr(m, name)
    q[:] = q + rng.normal(0, 0.2, m.nq)
    for j in range(m.njnt):
      a = m.jnt_qposadr[j]
      if m.jnt_type[j] == 0:
        q[a + 3 : a + 7] = nquat(q[a + 3 : a + 7])
      elif m.jnt_type[j] == 1:
        q[a : a + 4] = nquat(q[a : a + 4])
    q[:] = q.astype(F32)
  m.dof_armature[:] = (m.dof_armature + rng.uniform(0, 0.05, m.nv)).astype(F32)
  for e in range(m.neq):
    if m.eq_objtype[e] != mujoco.mjtObj.mjOBJ_BODY:
      continue
    if m.eq_type[e] == mujoco.mjtEq.mjEQ_CONNECT:
      m.eq_data[e, 0:3] = (m.eq_data[e, 0:3] + rng.normal(0, 0.05, 3)).astype(F32)
      m.eq_data[e, 3:6] = 0
    elif m.eq_type[e] == mujoco.mjtEq.mjEQ_WELD:
      m.eq_data[e, 0:3] = (m.eq_data[e, 0:3] + rng.normal(0, 0.05, 3)).astype(F32)
      if rng.random() < 0.5:
        m.eq_data[e, 3:10] = 0  # offsets recomputed
      else:
        m.eq_data[e, 6:10] = rng.normal(0, 2, 4).astype(F32)  # user quaternion, unnormalised
  for t in range(m.ntendon):
    if rng.random() < 0.5:
      m.tendon_lengthspring[t] = -1
  for a in range(m.nu):
    if m.actuator_biastype[a] == mujoco.mjtBias.mjBIAS_AFFINE and m.actuator_gaintype[a] == mujoco.mjtGain.mjGAIN_FIXED and rng.random() < 0.7:
      kp = F32(rng.uniform(1, 30))
      m.actuator_gainprm[a, 0] = kp
      m.actuator_biasprm[a, 1] = -kp
      m.actuator_biasprm[a, 2] = F32(rng.uniform(0.2, 2.0))  # positive: a damping ratio


def batched_model(mjw, wp, mjm, variants):
  """put_model(mjm) with every changed input AND every derived output expanded to one row per world."""
  nworld = len(variants)
  mm = mjw.put_model(mjm)
  for f in sorted(set(IN_FIELDS + OUT_FIELDS)):
    old = getattr(mm, f)
    if old.size == 0:
      continue
    arr = np.stack([np.asarray(getattr(v, f)) for v in variants]).astype(np.float32)
    setattr(mm, f, wp.array(arr.reshape((nworld,) + old.numpy().shape[1:]), dtype=old.dtype))
  mm.stat.meaninertia = wp.array(np.array([v.stat.meaninertia for v in variants], dtype=np.float32))
  return mm


def cmp(a, b, rtol):
  a = np.asarray(a, dtype=np.float64)
  b = np.asarray(b, dtype=np.float64).reshape(a.shape)
  if a.size == 0:
    return True, 0.0
  if not (np.all(np.isfinite(a)) and np.all(np.isfinite(b))):
    return bool(np.array_equal(np.isfinite(a), np.isfinite(b))), float("nan")
  err = float(np.max(np.abs(a - b)))
  return err <= rtol * (1.0 + max(np.max(np.abs(a)), np.max(np.abs(b)))), err


def one_case(xml, nworld, mode, case_seed, rtol=1e-3):
  """rtol 1e-3 of (1 + field magnitude): float32 factorisation and up to nv solves feed the invweight /
  acc0 fields; everything else agrees to ~1e-6.  Returns list of (kind, field, world, err)."""
  import mujoco
  import warp as wp

  import batchkit
  import mujoco_warp as mjw

  rng = np.random.default_rng(case_seed)
  mjm = mujoco.MjModel.from_xml_string(xml)
  variants = []
  for _ in range(nworld):
    v = copy.copy(mjm)
    perturb(rng, v)
    variants.append(v)
  mm = batched_model(mjw, wp, mjm, variants)
  dd = mjw.put_data(mjm, mujoco.MjData(mjm), nworld=nworld)
  ds = batchkit.random_states(rng, mjm, nworld)
  batchkit.load_states(mjw, mjm, dd, ds, list(range(nworld)))
  mjw.forward(mm, dd)
  before = {f: getattr(dd, f).numpy().copy() for f in DATA_STATE}
  if mode == "all":
    mjw.set_const(mm, dd)
  elif mode == "all_norestore":
    mjw.set_const(mm, dd, restore=False)
  else:
    mjw.set_const_fixed(mm, dd)
    mjw.set_const_0(mm, dd)
    mjw.set_const_spring(mm, dd)
  wp.synchronize()
  after = {f: getattr(dd, f).numpy().copy() for f in DATA_STATE}
  fails = []
  simple2 = np.where(mjm.body_simple == 2)[0]
  for f in DATA_STATE:
    if before[f].tobytes() != after[f].tobytes():
      fails.append(("state", f, -1, 0.0))
  for w, v in enumerate(variants):
    dv = mujoco.MjData(v)
    mujoco.mj_setConst(v, dv)
    for f in OUT_FIELDS + ["stat.meaninertia"]:
      if f == "stat.meaninertia":
        a, b = mm.stat.meaninertia.numpy()[w], np.array(v.stat.meaninertia)
      else:
        a = getattr(mm, f).numpy()
        a = a[w] if a.shape[0] > w else a[0]
        b = np.asarray(getattr(v, f))
      if f in ("body_invweight0", "dof_invweight0") and simple2.size:
        # known class: for bodies compiled as body_simple == 2 (axis-aligned sliders only) mj_setConst
        # stores 1/body_mass (no mean over the 3 axes, no armature) and 0 for rotation
        a = np.array(a, dtype=np.float64)
        b = np.array(b, dtype=np.float64).reshape(a.shape)
        idx = simple2 if f == "body_invweight0" else np.where(np.isin(mjm.dof_bodyid, simple2))[0]
        ok2, err2 = cmp(a[idx], b[idx], rtol)
        if not ok2:
          fails.append(("simple2", f, w, err2))
        a[idx] = b[idx]
      if f == "body_invweight0":
        # known class: the source replaces a vanishing component by the other one; MuJoCo keeps 0
        b2 = np.array(b, dtype=np.float64).reshape(-1, 2).copy()
        fb = False
        for i in range(b2.shape[0]):
          if i in simple2:
            continue
          if b2[i, 0] < 1e-15 < b2[i, 1]:
            b2[i, 0], fb = b2[i, 1], True
          elif b2[i, 1] < 1e-15 < b2[i, 0]:
            b2[i, 1], fb = b2[i, 0], True
        if fb and not cmp(a, b, rtol)[0]:
          fails.append(("fallback", f, w, cmp(a, b, rtol)[1]))
          b = b2
      ok, err = cmp(a, b, rtol)
      if not ok:
        fails.append(("field", f, w, err))
    if mode != "all_norestore":
      dv.qpos[:] = after["qpos"][w]
      dv.qvel[:] = after["qvel"][w]
      mujoco.mj_forward(v, dv)
      for f in DERIVED:
        ok, err = cmp(getattr(dd, f).numpy()[w], np.asarray(getattr(dv, f)), rtol)
        if not ok:
          fails.append(("derived", f, w, err))
  nonfixed = bool(np.any(mjm.cam_mode != 0) or np.any(mjm.light_mode != 0))
  return fails, nonfixed


def classify(fails, nonfixed):
  """fails -> {key: (what, [examples])}"""
  out = {}
  for kind, f, w, err in fails:
    if kind == "state":
      key, what = f"C33:restore:state-field-changed:{f}", f"Data.{f} is not bit-identical after set_const"
    elif kind == "fallback":
      key, what = K_FALLBACK, "body_invweight0: a body whose rotational (or translational) weight is 0 in mujoco.mj_setConst gets the other component copied by _finalize_body_invweight0"
    elif kind == "simple2":
      key, what = K_SIMPLE2, "body_invweight0 / dof_invweight0 of bodies MuJoCo compiles as body_simple == 2 (axis-aligned slide joints only): mujoco.mj_setConst stores 1/body_mass (translation) and 0 (rotation), ignoring armature; set_const stores the mean of diag(J inv(M) J') with armature"
    elif f in CAMLIGHT_OUT and nonfixed:
      key, what = K_CAMLIGHT, "camera/light reference fields (cam_pos0/poscom0/mat0, light_*0) disagree with mujoco.mj_setConst for cameras/lights in track/target modes: set_const_0 runs camlight in the current mode, MuJoCo in fixed mode"
    else:
      key, what = f"C33:oracle:{kind}:{f}", f"{kind} {f} disagrees with MuJoCo (world {w}, abs err {err:.3g})"
    out.setdefault(key, (what, []))[1].append({"kind": kind, "field": f, "world": w, "err": err})
  return out


def oracle(res, quick):
  import mujoco

  import batchkit
  import models

  rng = np.random.default_rng(vlib.seed() + 33)
  found = {}
  plan = [("rich", batchkit.RICH_XML, 3, "all"), ("rich", batchkit.RICH_XML, 2, "sub"), ("cam", CAM_XML, 2, "all"), ("eq-dense", EQ_XML % "dense", 2, "all"),
          ("eq-sparse", EQ_XML % "sparse", 2, "sub"), ("nv0", NV0_XML, 2, "all"), ("sliders", SLIDER_XML, 2, "all")]  # fmt: skip
  nrand = 40 if quick else 400
  for k in range(nrand):
    o = models.Opts(nbody=(2, 6), cameras=0.5, lights=0.4, actuators=int(rng.integers(0, 4)), tendons=int(rng.integers(0, 3)),
                    equality=int(rng.integers(0, 3)), limits=0.5, mocap=0.2, act_kinds=("motor", "position", "general"),
                    option='jacobian="sparse"' if rng.random() < 0.3 else "")  # fmt: skip
    xml, _ = models.random_model(rng, o)
    try:
      mujoco.MjModel.from_xml_string(xml)
    except Exception:
      continue
    plan.append((f"rand{k}", xml, 2, ("all", "sub", "all_norestore")[k % 3]))
  for i, (tag, xml, nworld, mode) in enumerate(plan):
    case_seed = vlib.seed() + 330000 + i
    try:
      fails, nonfixed = one_case(xml, nworld, mode, case_seed)
    except mujoco.FatalError as e:  # mj_setConst rejects the change: not a case
      res.extra.setdefault("oracle_skipped", []).append(f"{tag}: {e}")
      continue
    res.count()
    res.nontrivial(("oracle", xml, mode))
    if i == 0:
      res.sample({"kind": "oracle", "model": tag, "nworld": nworld, "mode": mode, "mismatches": len(fails)})
    for key, (what, ex) in classify(fails, nonfixed).items():
      if key not in found:
        found[key] = (what, {"xml": xml, "nworld": nworld, "mode": mode, "case_seed": case_seed, "examples": ex[:4]})
  return found


def probes(res):
  """Out-of-bounds writes, observed safely: the 1-row output is a VIEW of a larger sentinel-filled buffer."""
  import mujoco
  import warp as wp

  import mujoco_warp as mjw
  from mujoco_warp._src import set_const as SC

  found = {}
  nworld = 3
  m = mujoco.MjModel.from_xml_string(LR_XML)
  mm = mjw.put_model(m)
  dd = mjw.put_data(m, mujoco.MjData(m), nworld=nworld)
  big = wp.array(np.full((nworld + 1, m.nu, 2), 777.0, dtype=np.float32), dtype=wp.vec2)
  mm.actuator_lengthrange = big[0:1]  # shape (1, nu) as put_model allocates it
  SC.set_length_range(mm, dd)
  wp.synchronize()
  rows = big.numpy().reshape(nworld + 1, -1)
  res.count()
  res.nontrivial(("probe", "lengthrange"))
  # documented values for limited joint / tendon transmissions (row 0)
  exp = []
  for a in range(m.nu):
    g = m.actuator_gear[a, 0]
    rng_ = m.jnt_range[m.actuator_trnid[a, 0]] if m.actuator_trntype[a] == 0 else m.tendon_range[m.actuator_trnid[a, 0]]
    lim = m.jnt_limited[m.actuator_trnid[a, 0]] if m.actuator_trntype[a] == 0 else m.tendon_limited[m.actuator_trnid[a, 0]]
    lo, hi = (rng_[0] * g, rng_[1] * g) if g > 0 else (rng_[1] * g, rng_[0] * g)
    exp += [lo, hi] if lim else [0.0, 0.0]
  if not np.allclose(rows[0], exp, atol=1e-5):
    found["C33:set_length_range:limited-range-value"] = ("actuator_lengthrange differs from gear-scaled joint/tendon range", {"xml": LR_XML, "got": rows[0].tolist(), "expected": [float(x) for x in exp]})
  over = [r for r in range(1, nworld) if not np.all(rows[r] == 777.0)]
  if over:
    found[K_LENGTHRANGE] = (
      f"set_length_range launches dim=(d.nworld, nu) and writes actuator_lengthrange_out[worldid, actid] although m.actuator_lengthrange has 1 row: with nworld={nworld} rows {over} beyond the array are overwritten (heap corruption on a normally allocated model; free(): invalid next size observed)",
      {"xml": LR_XML, "nworld": nworld, "rows_overwritten": over, "probe": "lengthrange"},
    )
  # cameras: cam_pos0 / cam_poscom0 batched, cam_mat0 not
  m = mujoco.MjModel.from_xml_string(LR_XML)
  mm = mjw.put_model(m)
  dd = mjw.put_data(m, mujoco.MjData(m), nworld=nworld)
  bigm = wp.array(np.full((nworld + 1, m.ncam, 3, 3), 777.0, dtype=np.float32), dtype=wp.mat33)
  mm.cam_mat0 = bigm[0:1]
  mm.cam_pos0 = wp.array(np.tile(m.cam_pos0, (nworld, 1, 1)).astype(np.float32), dtype=wp.vec3)
  mm.cam_poscom0 = wp.array(np.tile(m.cam_poscom0, (nworld, 1, 1)).astype(np.float32), dtype=wp.vec3)
  mjw.set_const_0(mm, dd)
  wp.synchronize()
  rows = bigm.numpy().reshape(nworld + 1, -1)
  res.count()
  res.nontrivial(("probe", "cam-mixed"))
  over = [r for r in range(1, nworld) if not np.all(rows[r] == 777.0)]
  if over:
    found[K_CAMROWS] = (
      f"_compute_cam_pos0 indexes cam_poscom0_out and cam_mat0_out with cam_pos0_out.shape[0] while the launch covers max() of the three leading sizes: with cam_pos0 batched ({nworld} rows) and cam_mat0 not (1 row), rows {over} beyond cam_mat0 are overwritten (same code in _compute_light_pos0)",
      {"xml": LR_XML, "nworld": nworld, "rows_overwritten": over, "probe": "cam-mixed"},
    )
  # ... and the reverse: cam_mat0 batched, cam_pos0 / cam_poscom0 not: every row must be rewritten
  m = mujoco.MjModel.from_xml_string(LR_XML)
  mm = mjw.put_model(m)
  dd = mjw.put_data(m, mujoco.MjData(m), nworld=nworld)
  mm.cam_mat0 = wp.array(np.full((nworld, m.ncam, 3, 3), 777.0, dtype=np.float32), dtype=wp.mat33)
  mjw.set_const_0(mm, dd)
  wp.synchronize()
  rows = mm.cam_mat0.numpy().reshape(nworld, -1)
  res.count()
  res.nontrivial(("probe", "cam-mixed-stale"))
  stale = [r for r in range(nworld) if not np.allclose(rows[r], np.asarray(m.cam_mat0).reshape(-1), atol=1e-5)]
  if stale:
    found.setdefault(K_CAMROWS, (f"cam_mat0 batched ({nworld} rows), cam_pos0 not: rows {stale} of cam_mat0 are not rewritten by set_const_0", {"xml": LR_XML, "nworld": nworld, "rows_stale": stale, "probe": "cam-mixed"}))
  return found


REGRESSIONS = [
  # (key, fields, xml): set_const on the UNCHANGED model, twice, must reproduce the compiled values (= mj_setConst)
  (K_CAMLIGHT, ["cam_pos0", "cam_poscom0", "cam_mat0", "light_pos0", "light_poscom0", "light_dir0"],
   """<mujoco><worldbody><body name="t" pos="1 0 0.5"><geom size="0.1"/></body>
   <light name="l0" pos="0 0 3" mode="targetbodycom" target="b1"/>
   <body name="b1" pos="0 0 0.5"><joint type="hinge" axis="0 0 1"/><geom size="0.1" pos="0.2 0 0"/>
    <camera name="c1" pos="0 0.2 0.3" mode="targetbody" target="t"/><camera name="c2" pos="0 0.2 0.3" mode="trackcom" target="t"/>
    <camera name="c3" pos="0.1 0 0" mode="track"/><light name="l1" pos="0.1 0 0" dir="1 0 -1" mode="trackcom"/></body></worldbody></mujoco>"""),
  (K_SIMPLE2, ["body_invweight0", "dof_invweight0"],
   """<mujoco><worldbody><body><joint type="slide" axis="0 1 0" armature="0.5"/><geom size="0.1" mass="2"/></body>
   <body pos="1 0 0"><joint type="slide" axis="1 0 0"/><joint type="slide" axis="0 0 1"/><geom size="0.1" mass="3"/></body></worldbody></mujoco>"""),
  (K_FALLBACK, ["body_invweight0", "dof_invweight0"],
   """<mujoco><worldbody><body><joint type="hinge" axis="0 0 1"/><geom size="0.1" mass="2"/></body>
   <body pos="1 0 0"><joint type="slide" axis="0 1 1"/><geom size="0.1" mass="2"/></body></worldbody></mujoco>"""),
]  # fmt: skip


def regressions(res):
  """Minimal inputs of the repaired defects, reported under their original keys."""
  import mujoco
  import warp as wp

  import mujoco_warp as mjw

  found = {}
  for key, fields, xml in REGRESSIONS:
    m = mujoco.MjModel.from_xml_string(xml)
    ref = copy.copy(m)
    mujoco.mj_setConst(ref, mujoco.MjData(ref))
    mm = mjw.put_model(m)
    dd = mjw.put_data(m, mujoco.MjData(m), nworld=2)
    bad = []
    for rep in range(2):
      mjw.set_const(mm, dd)
      wp.synchronize()
      for f in fields:
        a = getattr(mm, f).numpy()[0]
        for name, b in (("compiled", getattr(m, f)), ("mj_setConst", getattr(ref, f))):
          ok, err = cmp(a, b, 1e-4)
          if not ok:
            bad.append({"field": f, "call": rep + 1, "vs": name, "err": err, "mjw": np.asarray(a, dtype=float).reshape(-1)[:9].tolist(), "mujoco": np.asarray(b, dtype=float).reshape(-1)[:9].tolist()})
    res.count()
    res.nontrivial(("regression", key))
    if bad:
      found[key] = (f"set_const on an unchanged model changes {sorted({x['field'] for x in bad})} away from the MuJoCo values", {"xml": xml, "regression": key, "examples": bad[:4]})
  return found


# ------------------------------------------------------------------------------------------------
def run(res):
  import time

  t0 = time.time()
  quick = res.tier == "quick"
  res.rule = "kernel validation: one traced real launch per (kernel, launch grid); oracle: distinct (model xml, mode) pairs with per-world random set_const-safe changes; 3 out-of-bounds probes and 3 unchanged-model regressions of the repaired defects"
  ok, trs, failing = propkit.prove(res, PROPS, gen_names=["T_set_const", "Skel_pipeline"])
  tr, skel = trs.get("T_set_const"), trs.get("Skel_pipeline")
  tie_bad = []
  res.extra["t_prove"] = round(time.time() - t0, 1)
  if tr is not None:
    missing = [k for k in KERNELS if k not in tr.kernels]
    res.obligation("T: all 22 kernels of set_const.py translate", not missing, f"missing {missing}; {dict(list(tr.errors.items())[:3])}")
    if missing:
      tie_bad.append({"untranslated": missing})
  if skel is not None:
    sbad, dim_expected = s_check(res, skel)
    if sbad:
      tie_bad.append({"S": sbad[:4]})
    res.extra["launch_dim_exceptions"] = dim_expected
  if tr is not None:
    kbad, kmissing, verdicts = kvalidate(res, tr, quick)
    res.obligation("kernel validation: translated set_const kernels agree with the traced real launches", not kbad, f"{len(kbad)} disagreements of {len(verdicts)}; {kbad[:3]}")
    res.obligation("kernel validation reaches the kernels of set_const", len(kmissing) <= 2, f"not traced: {kmissing}; skipped: {res.extra.get('ktrace_skipped')}")
    if kbad:
      tie_bad.append({"kvalid": kbad[:3]})
  res.extra["t_kvalid"] = round(time.time() - t0, 1)
  found = oracle(res, quick)
  for k, v in list(probes(res).items()) + list(regressions(res).items()):
    found.setdefault(k, v)
  res.extra["t_oracle"] = round(time.time() - t0, 1)
  for key, (what, data) in found.items():
    res.violation(key, what, data)
  if tie_bad and not found:
    res.violation("C33:model-mismatch", "translated kernels / extracted pipeline no longer tied to the code", tie_bad, found_input=False)
  if not ok and not found:
    propkit.broken_proof_violation(res, "C33 theorems over regenerated set_const.py kernels and host pipeline", failing)
  res.assumptions += [
    "theorems are over R: float32 rounding is not modelled",
    "restore lemma: a launch writes only its outputs= arguments and the listed in-place inputs (ast scan each run); wp.clone returns a fresh buffer",
    "kinematics/com_pos/camlight/tendon/crb/factor_m/transmission/solve_m are not modelled here (oracle against mujoco.mj_setConst only)",
  ]
  res.trusted += ["bin/translate.py (kernel validation each run)", "bin/extract_launch.py", "mujoco 3.13 mj_setConst / mj_forward as reference"]


def replay(res, path):
  r = propkit.load_replay(path)["replay"]
  if isinstance(r, list) or "xml" not in r:
    print("replay: no concrete input in this file (proof/correspondence breakage); re-run the check")
    return 1
  if r.get("probe") or r.get("regression"):
    found = probes(res) if r.get("probe") else regressions(res)
    for k, (what, data) in found.items():
      print(k, ":", what)
    return 0
  fails, nonfixed = one_case(r["xml"], r["nworld"], r["mode"], r["case_seed"])
  for key, (what, ex) in classify(fails, nonfixed).items():
    print(key, ":", what, json.dumps(ex[:4]))
  if not fails:
    print("no mismatch")
  return 0
