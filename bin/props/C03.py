"""C03 Actuation agrees with MuJoCo C.

Proof: Props/C03.v - theorems over R about (a) the hand model Model/Act.v of forward.py's
`_actuator_force` (non-DC-motor paths), `_next_activation`, `_tendon_actuator_force(+_clamp)`,
`_qfrc_actuator_gravcomp_limits` and (b) `next_act` machine-translated from support.py.
Tie to /repo on every run:
  * T-validation of the translated next_act / muscle_* / lugre_stribeck / dcmotor_voltage / _poly_*;
  * correspondence: Model/Act.v evaluated inside Coq (binary64, branch-margin rule) against the real
    mjw.fwd_actuation on generated actuator sets and against the private kernels launched directly;
  * oracle (the property itself, a TEST): mjw.fwd_position/fwd_velocity/fwd_actuation against
    mujoco.mj_fwdPosition/mj_fwdVelocity/mj_fwdActuation on random models and states, two worlds."""

from __future__ import annotations

import json
import re

import numpy as np

import propkit
import vlib

MANIFEST = {
  "text": "proof (over R): control clamp (control used lies in ctrlrange, equals ctrl inside, force/act_dot depend on ctrl only through it), force limit (forcelimited -> force in forcerange for every non-DC-motor dyn/gain/bias type), tendon force limit (sum of actuator forces on a limited tendon after the two clamp kernels = clamp(total) given total != 0 where the code divides by it), joint force limit, next_act (Euler / filterexact closed form / user / actlimited clamp), filterexact step = value of the unique solution of y'=(c-y)/tau, actearly uses exactly the activation _next_activation stores. Tested only: agreement with the MuJoCo C binary (lengths, velocities, moments, forces, act_dot, qfrc_actuator), DC-motor state machine, transmissions, float32",
  "note": "trusted: Coq kernel; translator (validated each run); hand model Model/Act.v (tied to the real kernels by the per-run correspondence on generated inputs at tolerance 1e-4); mujoco binary as oracle; real-number axioms of Coq's Reals",
  "technique": "Rocq proof over machine-translated functions (T) and a hand-written executable model, translation validation, model/implementation correspondence, differential oracle against MuJoCo",
  "engine": "coq",
}

PROPS = "Props/C03.v"
REQ_FUNCS = ["next_act", "muscle_gain_length", "muscle_gain", "muscle_bias", "_sigmoid", "muscle_dynamics_timescale",
             "muscle_dynamics", "lugre_stribeck", "dcmotor_voltage"]  # fmt: skip
MUSCLE_PRM = "0.75 1.05 -1 200 0.5 1.6 1.5 1.3 1.2"
TOL = 1e-4  # model (binary64) vs kernel (float32), relative to 1+|a|+|b|: parameter magnitudes are kept <= ~50


def _f(x):
  return " ".join(f"{float(v):.6g}" for v in np.atleast_1d(x))


def _f32(x):
  return np.asarray(x, dtype=np.float32)


# =============================================================================================
# T-validation
# =============================================================================================
def _muscle_prm(rng, n):
  p = np.zeros((n, 10), dtype=np.float32)
  p[:, 0] = rng.uniform(0.5, 0.9, n)
  p[:, 1] = p[:, 0] + rng.uniform(0.05, 0.6, n)
  p[:, 2] = np.where(rng.random(n) < 0.5, -1.0, rng.uniform(1, 50, n))
  p[:, 3] = rng.uniform(50, 300, n)
  p[:, 4] = rng.uniform(0.2, 0.9, n)
  p[:, 5] = rng.uniform(1.1, 1.9, n)
  p[:, 6] = rng.uniform(0.5, 3, n)
  p[:, 7] = rng.uniform(0.5, 2, n)
  p[:, 8] = rng.uniform(1.05, 1.6, n)
  return p


def _lengthrange(rng, n):
  lo = rng.uniform(0.1, 0.6, n)
  return np.stack([lo, lo + rng.uniform(0.3, 1.2, n)], axis=1).astype(np.float32)


def gen_next_act(rng, n):
  h = rng.choice([0.0005, 0.002, 0.01, 0.05], n).astype(np.float32)
  dyn = rng.choice([0, 1, 2, 3, 3, 4, 7], n).astype(np.int32)
  prm = np.zeros((n, 10), dtype=np.float32)
  prm[:, 0] = np.where(rng.random(n) < 0.1, 0.0, 10.0 ** rng.uniform(-3, 0, n))
  lo = rng.normal(0, 0.5, n)
  rngs = np.stack([lo, lo + rng.uniform(0.05, 1.5, n)], axis=1).astype(np.float32)
  act = rng.normal(0, 0.7, n).astype(np.float32)
  ad = (rng.normal(0, 1, n) * 10.0 ** rng.uniform(-1, 2, n)).astype(np.float32)
  sc = rng.choice([1.0, 0.5, 1.0 / 6.0, 1.0 / 3.0], n).astype(np.float32)
  cl = rng.random(n) < 0.5
  return [h, dyn, prm, rngs, act, ad, sc, cl]


def tvalidate(res, trs, n):
  import tvalid

  bad = []
  tr = trs.get("support_act")
  if tr is not None and "next_act" in tr.signatures():
    tv = tvalid.TValid("C03s", tr, "Gen.support_act")
    tv.add("next_act", gen=gen_next_act, tol=TOL)
    b, _ = tv.run(res, n_per_fn=2 * n, label="T-validation next_act")
    bad += b
  tr = trs.get("util_misc")
  if tr is not None:
    sigs = tr.signatures()
    tv = tvalid.TValid("C03u", tr, "Gen.util_misc")
    gens = {
      "muscle_gain_length": lambda r, k: [r.uniform(0, 2.2, k), r.uniform(0.2, 0.9, k), r.uniform(1.1, 1.9, k)],
      "muscle_gain": lambda r, k: [r.uniform(0.0, 2.0, k), r.normal(0, 1.5, k), _lengthrange(r, k), r.uniform(1, 100, k), _muscle_prm(r, k)],
      "muscle_bias": lambda r, k: [r.uniform(0.0, 2.5, k), _lengthrange(r, k), r.uniform(1, 100, k), _muscle_prm(r, k)],
      "_sigmoid": lambda r, k: [r.uniform(-0.5, 1.5, k)],
      "muscle_dynamics_timescale": lambda r, k: [r.normal(0, 0.5, k), r.uniform(0.005, 0.1, k), r.uniform(0.005, 0.1, k), np.where(r.random(k) < 0.4, 0.0, r.uniform(0.05, 1.0, k))],
      "muscle_dynamics": lambda r, k: [r.uniform(-0.5, 1.5, k), r.uniform(-0.5, 1.5, k),
                                       np.concatenate([r.uniform(0.005, 0.1, (k, 2)), np.where(r.random((k, 1)) < 0.4, 0.0, r.uniform(0.05, 1.0, (k, 1))), np.zeros((k, 7))], axis=1)],
      "lugre_stribeck": lambda r, k: [r.normal(0, 1, k) * 10.0 ** r.uniform(-3, 0.5, k), r.uniform(0.1, 2, k), r.uniform(0.1, 3, k), np.where(r.random(k) < 0.1, 0.0, r.uniform(0.001, 1, k))],
      "dcmotor_voltage": lambda r, k: [r.normal(0, 3, k), r.normal(0, 1, k), r.normal(0, 2, k), r.normal(0, 1, k),
                                       np.concatenate([r.uniform(0.1, 3, (k, 4)), r.normal(0, 3, (k, 3)), np.where(r.random((k, 1)) < 0.5, 0.0, r.uniform(0.5, 8, (k, 1))),
                                                       r.integers(0, 3, (k, 1)).astype(float), np.zeros((k, 1))], axis=1)],
      "_poly_force": None, "_poly_force_deriv": None, "poly_potential": None,
    }  # fmt: skip
    for fn, g in gens.items():
      if fn in sigs:
        tv.add(fn, gen=g, tol=TOL)
    b, _ = tv.run(res, n_per_fn=n, label="T-validation util_misc")
    bad += b
  return bad


# =============================================================================================
# correspondence 1: Model/Act.v act_kernel vs the real mjw.fwd_actuation
# =============================================================================================
def core_model(rng):
  """Two-joint chain with 3..6 <general>/<muscle> actuators on joints (no tendons: the clamp kernels are
  not launched, so Data.actuator_force is exactly what _actuator_force wrote)."""
  h = float(rng.choice([0.002, 0.01, 0.0005]))
  noclamp = rng.random() < 0.2
  stateless_only = rng.random() < 0.15
  acts = []
  n = int(rng.integers(3, 7))
  for a in range(n):
    j = f"j{int(rng.integers(2))}"
    common = f'name="a{a}" joint="{j}" gear="{_f([rng.normal(0, 2)])}"'
    if rng.random() < 0.6:
      lo = rng.normal(0, 0.5)
      common += f' ctrllimited="true" ctrlrange="{_f([lo])} {_f([lo + rng.uniform(0.1, 2)])}"'
    if rng.random() < 0.5:
      lo = rng.normal(0, 1.0)
      common += f' forcelimited="true" forcerange="{_f([lo])} {_f([lo + rng.uniform(0.1, 3)])}"'
    if rng.random() < 0.12:
      acts.append(f'<muscle {common} lengthrange="{_f([rng.uniform(0.1, 0.5)])} {_f([rng.uniform(0.8, 1.6)])}" timeconst="{_f(rng.uniform(0.005, 0.05, 2))}" tausmooth="{_f([rng.choice([0, 0.2])])}"/>')
      continue
    dyn = "none" if stateless_only else str(rng.choice(["none", "integrator", "filter", "filterexact", "filterexact", "muscle", "user"]))
    gain = str(rng.choice(["fixed", "fixed", "affine", "affine", "muscle"]))
    bias = str(rng.choice(["none", "affine", "affine", "muscle"]))
    s = f'<general {common} dyntype="{dyn}" gaintype="{gain}" biastype="{bias}"'
    if dyn in ("filter", "filterexact"):
      s += f' dynprm="{_f([0.0 if rng.random() < 0.05 else 10.0 ** rng.uniform(-3, 0)])}"'
    elif dyn == "muscle":
      s += f' dynprm="{_f(rng.uniform(0.005, 0.05, 2))} {_f([rng.choice([0, 0.3])])}"'
    elif dyn == "user":
      s += ' actdim="1"'
    if gain == "muscle":
      s += f' gainprm="{MUSCLE_PRM}"'
    else:
      s += f' gainprm="{_f(rng.normal(0, 3, 3))}"'
    if bias == "muscle":
      s += f' biasprm="{MUSCLE_PRM}"'
    elif bias == "affine":
      s += f' biasprm="{_f(rng.normal(0, 2, 3))}"'
    if gain == "muscle" or bias == "muscle":
      s += f' lengthrange="{_f([rng.uniform(0.1, 0.5)])} {_f([rng.uniform(0.8, 1.6)])}"'
    if dyn != "none":
      if rng.random() < 0.5:
        lo = rng.normal(0, 0.4)
        s += f' actlimited="true" actrange="{_f([lo])} {_f([lo + rng.uniform(0.05, 1)])}"'
      if rng.random() < 0.5:  # includes dyntype user (fixed in /repo 9478e66; regression probe below)
        s += ' actearly="true"'
    acts.append(s + "/>")
  flag = '<flag clampctrl="disable"/>' if noclamp else ""
  xml = (
    f'<mujoco><option timestep="{h}">{flag}</option><worldbody>'
    '<body><joint name="j0" type="hinge" axis="0 0 1"/><geom size="0.1" pos="0.1 0 0"/>'
    '<body pos="0.3 0 0"><joint name="j1" type="slide" axis="1 0 0"/><geom size="0.1"/></body></body></worldbody>'
    "<actuator>" + "".join(acts) + "</actuator></mujoco>"
  )
  return xml


def rand_ctrl(rng, n):
  c = rng.normal(0, 1, n)
  far = rng.random(n) < 0.3
  c = np.where(far, np.sign(rng.normal(0, 1, n)) * 10.0 ** rng.uniform(1, 6, n), c)
  c = np.where(rng.random(n) < 0.05, 0.0, c)
  return c.astype(np.float32)


def rand_act(rng, n):
  a = rng.normal(0, 0.5, n)
  far = rng.random(n) < 0.2
  a = np.where(far, np.sign(rng.normal(0, 1, n)) * 10.0 ** rng.uniform(0, 3, n), a)
  return a.astype(np.float32)


def _prm_term(p):
  b = lambda x: "true" if bool(x) else "false"  # noqa: E731
  return (
    f"(@mkActPrm float ({int(p['dyn'])})%Z ({int(p['gain'])})%Z ({int(p['bias'])})%Z ({int(p['actadr'])})%Z "
    f"{vlib.flist(p['dynprm'])} {vlib.flist(p['gainprm'])} {vlib.flist(p['biasprm'])} "
    f"{b(p['actlimited'])} {vlib.flist(p['actrange'])} {b(p['actearly'])} {b(p['forcelimited'])} {vlib.flist(p['forcerange'])} "
    f"{b(p['ctrllimited'])} {vlib.flist(p['ctrlrange'])} {vlib.fhex(p['acc0'])} {vlib.flist(p['lengthrange'])})"
  )


def actuator_params(mm, uid):
  g = lambda name: getattr(mm, name).numpy()  # noqa: E731
  return {
    "dyn": g("actuator_dyntype")[uid], "gain": g("actuator_gaintype")[uid], "bias": g("actuator_biastype")[uid],
    "actadr": g("actuator_actadr")[uid], "actnum": g("actuator_actnum")[uid],
    "dynprm": g("actuator_dynprm")[0, uid].astype(np.float64), "gainprm": g("actuator_gainprm")[0, uid].astype(np.float64),
    "biasprm": g("actuator_biasprm")[0, uid].astype(np.float64),
    "actlimited": g("actuator_actlimited")[uid], "actrange": g("actuator_actrange")[0, uid].astype(np.float64),
    "actearly": g("actuator_actearly")[uid], "forcelimited": g("actuator_forcelimited")[uid],
    "forcerange": g("actuator_forcerange")[0, uid].astype(np.float64), "ctrllimited": g("actuator_ctrllimited")[uid],
    "ctrlrange": g("actuator_ctrlrange")[0, uid].astype(np.float64), "acc0": float(g("actuator_acc0")[0, uid]),
    "lengthrange": g("actuator_lengthrange")[0, uid].astype(np.float64),
  }  # fmt: skip


def corr_core(res, nmodels):
  import mujoco
  import warp as wp

  import mujoco_warp as mjw
  import tvalid

  rng = np.random.default_rng(vlib.seed() + 303)
  lines, meta = [], []
  for k in range(nmodels):
    xml = core_model(rng)
    m = mujoco.MjModel.from_xml_string(xml)
    d = mujoco.MjData(m)
    d.qpos[:] = _f32(rng.normal(0, 0.6, m.nq))
    d.qvel[:] = _f32(rng.normal(0, 1.5, m.nv))
    mm = mjw.put_model(m)
    dd = mjw.put_data(m, d, nworld=2)
    ctrl = np.stack([rand_ctrl(rng, m.nu), rand_ctrl(rng, m.nu)])
    act = np.stack([rand_act(rng, m.na), rand_act(rng, m.na)]) if m.na else np.zeros((2, 0), np.float32)
    wp.copy(dd.ctrl, wp.array(ctrl, dtype=float))
    if m.na:
      wp.copy(dd.act, wp.array(act, dtype=float))
    mjw.fwd_position(mm, dd)
    mjw.fwd_velocity(mm, dd)
    if k % 2 == 1:  # fwd_actuation only reads length/velocity: sweep all muscle / affine regimes
      wp.copy(dd.actuator_length, wp.array(_f32(rng.uniform(-0.2, 2.0, (2, m.nu))), dtype=float))
      wp.copy(dd.actuator_velocity, wp.array(_f32(rng.normal(0, 2, (2, m.nu))), dtype=float))
    length = dd.actuator_length.numpy().copy()
    velocity = dd.actuator_velocity.numpy().copy()
    mjw.fwd_actuation(mm, dd)
    force = dd.actuator_force.numpy()
    act_dot = dd.act_dot.numpy()
    h = float(mm.opt.timestep.numpy()[0])
    dsbl = int(m.opt.disableflags & mujoco.mjtDisableBit.mjDSBL_CLAMPCTRL)
    for uid in range(m.nu):
      p = actuator_params(mm, uid)
      has = m.na > 0 and p["actadr"] >= 0
      last = p["actadr"] + p["actnum"] - 1
      for w in range(2):
        a_in = float(act[w, last]) if has else 0.0
        exp = [float(act_dot[w, last]) if has else 0.0, float(force[w, uid])]
        term = (
          f"@act_kernel float Sc ({int(m.na)})%Z {vlib.fhex(h)} ({dsbl})%Z {_prm_term(p)} "
          f"{vlib.fhex(ctrl[w, uid])} {vlib.fhex(a_in)} {vlib.fhex(length[w, uid])} {vlib.fhex(velocity[w, uid])}"
        )
        lines.append(f"tv3 {vlib.fhex(TOL)} (fun Sc => {term}) {vlib.flist(exp)}")
        lim = bool(p["ctrllimited"]) and not dsbl
        outside = lim and not (p["ctrlrange"][0] <= ctrl[w, uid] <= p["ctrlrange"][1])
        meta.append({
          "cls": (int(p["dyn"]), int(p["gain"]), int(p["bias"]), bool(p["actearly"]), bool(p["actlimited"]), bool(p["forcelimited"]), lim, outside, bool(has)),
          "xml": xml, "uid": uid, "world": w, "ctrl": float(ctrl[w, uid]), "act": a_in, "length": float(length[w, uid]),
          "velocity": float(velocity[w, uid]), "impl": exp,
        })  # fmt: skip
  verdicts = tvalid.run_cases("C03core", ["Gen.support_act", "Gen.util_misc", "Model.Act"], lines)
  bad = []
  ndisc = 0
  for mt, v in zip(meta, verdicts):
    if v == 0:
      res.nontrivial(("core",) + mt["cls"])
    elif v == 1:
      ndisc += 1
    else:
      bad.append({k: mt[k] for k in mt if k != "cls"} | {"class": list(mt["cls"])})
  res.count(len(meta))
  if meta:
    res.sample({"kind": "correspondence act_kernel vs mjw.fwd_actuation", **{k: meta[0][k] for k in ("xml", "uid", "world", "ctrl", "act", "length", "velocity", "impl")}})
  res.extra["corr_core"] = {"cases": len(meta), "discarded": ndisc, "disagree": len(bad), "classes": len({mt["cls"] for mt in meta})}
  return bad


# =============================================================================================
# correspondence 2: private kernels launched directly
# =============================================================================================
SLOTS_SRC = """import warp as wp
from mujoco_warp._src import types, util_misc


@wp.kernel
def c03_slots(dyn: wp.array(dtype=types.vec10), gain: wp.array(dtype=types.vec10), out: wp.array2d(dtype=int)):
  i = wp.tid()
  s = util_misc.dcmotor_slots(dyn[i], gain[i])
  for j in range(6):
    out[i, j] = s[j]
"""


def _slots_kernel():
  """Wrapper kernel around util_misc.dcmotor_slots, kept in build/wrap like tvalid's wrappers."""
  import importlib
  import os
  import sys

  import tvalid

  os.makedirs(tvalid.WRAP_DIR, exist_ok=True)
  vlib.write_if_changed(os.path.join(tvalid.WRAP_DIR, "vw_C03slots.py"), SLOTS_SRC)
  if tvalid.WRAP_DIR not in sys.path:
    sys.path.insert(0, tvalid.WRAP_DIR)
  return importlib.import_module("vw_C03slots").c03_slots


def corr_kernels(res, n):
  import warp as wp

  import tvalid
  from mujoco_warp._src import forward as fw
  from mujoco_warp._src import types

  rng = np.random.default_rng(vlib.seed() + 304)
  lines, meta = [], []
  bl = lambda xs: "[" + "; ".join("true" if bool(x) else "false" for x in xs) + "]"  # noqa: E731
  ll = lambda rows: "[" + "; ".join(vlib.flist(r) for r in rows) + "]"  # noqa: E731

  # ---- tendon total + clamp ----------------------------------------------------------------
  for k in range(4 * n):
    nu, nt = int(rng.integers(1, 8)), int(rng.integers(1, 4))
    nrow = int(rng.integers(1, 3))  # tendon_actfrcrange batch dimension 1 or 2 (worldid % shape[0])
    trntype = rng.choice([0, 3, 3, 3, 4], nu).astype(np.int32)
    trnid = np.stack([rng.integers(0, nt, nu), np.full(nu, -1)], axis=1).astype(np.int32)
    limited = rng.random(nt) < 0.7
    lo = rng.normal(0, 1, (nrow, nt))
    if rng.random() < 0.3:
      lo = np.abs(lo) + 0.1  # range excluding zero
    rngs = np.stack([lo, lo + rng.uniform(0.05, 2, (nrow, nt))], axis=2).astype(np.float32)
    force = _f32(rng.normal(0, 1, (2, nu)) * 10.0 ** rng.uniform(-1, 1.5, (2, 1)))
    if rng.random() < 0.15 and nu >= 2:  # cancelling pair: total == 0 exactly (division by zero in the kernel)
      trntype[:2], trnid[:2, 0] = 3, 0
      force[:, 1] = -force[:, 0]
      if nu > 2:
        trnid[2:, 0] = np.where(trnid[2:, 0] == 0, nt - 1 if nt > 1 else 0, trnid[2:, 0])
    tot = wp.zeros((2, nt), dtype=float)
    wforce = wp.array(force.copy(), dtype=float)
    wtt, wti = wp.array(trntype, dtype=int), wp.array(trnid, dtype=wp.vec2i)
    wp.launch(fw._tendon_actuator_force, dim=(2, nu), inputs=[wtt, wti, wforce], outputs=[tot])
    wp.launch(fw._tendon_actuator_force_clamp, dim=(2, nu), inputs=[wp.array(limited, dtype=bool), wp.array(rngs, dtype=wp.vec2), wtt, wti, tot], outputs=[wforce])
    out = wforce.numpy()
    trn = "[" + "; ".join(f"(({int(t)})%Z, ({int(i[0])})%Z)" for t, i in zip(trntype, trnid)) + "]"
    for w in range(2):
      term = f"@ten_clamp float Sc (lookb {bl(limited)}) (lookv {ll(rngs[w % nrow].astype(np.float64))}) {trn} {vlib.flist(force[w].astype(np.float64))}"
      lines.append(f"tv3 {vlib.fhex(TOL)} (fun Sc => {term}) {vlib.flist(out[w].astype(np.float64))}")
      changed = bool(np.any(out[w] != force[w]))
      meta.append({"kind": "tendon_clamp", "cls": ("ten", nu, nt, changed, nrow), "inputs": {"trntype": trntype.tolist(), "trnid": trnid[:, 0].tolist(), "limited": limited.tolist(), "range": rngs[w % nrow].tolist(), "force": force[w].tolist()}, "impl": out[w].tolist()})

  # ---- joint gravcomp + limits -----------------------------------------------------------------
  nv = 4 * n
  jl = rng.random(nv) < 0.7
  agc = rng.integers(0, 2, nv).astype(np.int32)
  lo = rng.normal(0, 1, nv)
  jr = np.stack([lo, lo + rng.uniform(0.05, 2, nv)], axis=1).astype(np.float32)[None]
  gc = _f32(rng.normal(0, 1, (2, nv)))
  q = _f32(rng.normal(0, 2, (2, nv)))
  for ge in (True, False):
    outq = wp.zeros((2, nv), dtype=float)
    wp.launch(
      fw._qfrc_actuator_gravcomp_limits, dim=(2, nv),
      inputs=[wp.array(jl, dtype=bool), wp.array(agc, dtype=int), wp.array(jr, dtype=wp.vec2), wp.array(np.arange(nv, dtype=np.int32), dtype=int), wp.array(gc, dtype=float), wp.array(q, dtype=float), ge],
      outputs=[outq],
    )  # fmt: skip
    o = outq.numpy()
    for w in range(2):
      for i in range(nv if ge else nv // 2):
        term = f"[@qfrc_limit float Sc {'true' if ge else 'false'} ({int(agc[i])})%Z {'true' if jl[i] else 'false'} {vlib.flist(jr[0, i].astype(np.float64))} {vlib.fhex(gc[w, i])} {vlib.fhex(q[w, i])}]"
        lines.append(f"tv3 {vlib.fhex(TOL)} (fun Sc => {term}) {vlib.flist([float(o[w, i])])}")
        meta.append({"kind": "qfrc_limit", "cls": ("jnt", ge, int(agc[i]), bool(jl[i]), bool(o[w, i] != q[w, i])), "inputs": {"gravity_enabled": ge, "actgravcomp": int(agc[i]), "limited": bool(jl[i]), "range": jr[0, i].tolist(), "gravcomp": float(gc[w, i]), "qfrc": float(q[w, i])}, "impl": [float(o[w, i])]})

  # ---- _next_activation, non-DC-motor branch ---------------------------------------------------
  nu = 6 * n
  dyn = rng.choice([0, 1, 2, 3, 3, 4, 7], nu).astype(np.int32)
  prm = np.zeros((1, nu, 10), np.float32)
  prm[0, :, 0] = np.where(rng.random(nu) < 0.1, 0.0, 10.0 ** rng.uniform(-3, 0, nu))
  al = rng.random(nu) < 0.5
  lo = rng.normal(0, 0.5, nu)
  ar = np.stack([lo, lo + rng.uniform(0.05, 1.5, nu)], axis=1).astype(np.float32)[None]
  act = np.stack([rand_act(rng, nu), rand_act(rng, nu)])
  ad = _f32(rng.normal(0, 1, (2, nu)) * 10.0 ** rng.uniform(-1, 2, (2, nu)))
  hs = _f32([0.002, 0.02])  # per-world timestep (worldid % shape[0])
  zero10 = wp.zeros((1, nu), dtype=types.vec10)
  for scale, limit in ((1.0, True), (0.5, False), (1.0 / 6.0, True)):
    out = wp.zeros((2, nu), dtype=float)
    wp.launch(
      fw._next_activation, dim=(2, nu),
      inputs=[wp.array(hs, dtype=float), wp.array(dyn, dtype=int), wp.array(np.arange(nu, dtype=np.int32), dtype=int), wp.array(np.ones(nu, np.int32), dtype=int),
              wp.array(prm, dtype=types.vec10), zero10, zero10, wp.array(al, dtype=bool), wp.array(ar, dtype=wp.vec2), wp.array(act, dtype=float), wp.array(ad, dtype=float),
              wp.zeros((2, nu), dtype=float), float(np.float32(scale)), limit],
      outputs=[out],
    )  # fmt: skip
    o = out.numpy()
    sub = range(nu) if limit and scale == 1.0 else range(0, nu, 3)
    for w in range(2):
      for i in sub:
        p = {"dyn": dyn[i], "gain": 0, "bias": 0, "actadr": i, "dynprm": prm[0, i].astype(np.float64), "gainprm": np.zeros(10), "biasprm": np.zeros(10), "actlimited": al[i],
             "actrange": ar[0, i].astype(np.float64), "actearly": False, "forcelimited": False, "forcerange": [0, 0], "ctrllimited": False, "ctrlrange": [0, 0], "acc0": 0.0, "lengthrange": [0, 0]}  # fmt: skip
        term = f"[@next_activation float Sc {vlib.fhex(hs[w])} {_prm_term(p)} {vlib.fhex(act[w, i])} {vlib.fhex(ad[w, i])} {vlib.fhex(np.float32(scale))} {'true' if limit else 'false'}]"
        lines.append(f"tv3 {vlib.fhex(TOL)} (fun Sc => {term}) {vlib.flist([float(o[w, i])])}")
        meta.append({"kind": "next_activation", "cls": ("nact", int(dyn[i]), bool(al[i]) and limit, scale, w), "inputs": {"timestep": float(hs[w]), "dyntype": int(dyn[i]), "dynprm0": float(prm[0, i, 0]), "actlimited": bool(al[i]), "actrange": ar[0, i].tolist(), "act": float(act[w, i]), "act_dot": float(ad[w, i]), "scale": scale, "limit": limit}, "impl": [float(o[w, i])]})

  # ---- dcmotor_slots (not translatable: integer vector) -----------------------------------------
  ns = 8 * n
  dp = _f32(np.where(rng.random((ns, 10)) < 0.5, 0.0, rng.normal(0.3, 1, (ns, 10))))
  gp = _f32(np.where(rng.random((ns, 10)) < 0.5, 0.0, rng.normal(0.3, 1, (ns, 10))))
  so = wp.zeros((ns, 6), dtype=int)
  wp.launch(_slots_kernel(), dim=ns, inputs=[wp.array(dp, dtype=types.vec10), wp.array(gp, dtype=types.vec10)], outputs=[so])
  so = so.numpy()
  for i in range(ns):
    lines.append(f"tvz (@dcmotor_slots_model float ScalarF0 {vlib.flist(dp[i].astype(np.float64))} {vlib.flist(gp[i].astype(np.float64))}) {vlib.zlist(so[i])}")
    meta.append({"kind": "dcmotor_slots", "cls": ("slots",) + tuple(int(x) for x in so[i]), "inputs": {"dynprm": dp[i].tolist(), "gainprm": gp[i].tolist()}, "impl": so[i].tolist()})

  verdicts = tvalid.run_cases("C03kern", ["Gen.support_act", "Gen.util_misc", "Model.Act"], lines)
  bad, per = [], {}
  for mt, v in zip(meta, verdicts):
    st = per.setdefault(mt["kind"], [0, 0, 0])
    st[v] += 1
    if v == 0:
      res.nontrivial(("kern",) + mt["cls"])
    elif v == 2 and len(bad) < 20:
      bad.append({k: mt[k] for k in ("kind", "inputs", "impl")})
  res.count(len(meta))
  res.extra["corr_kernels"] = {k: {"agree": v[0], "discarded": v[1], "disagree": v[2]} for k, v in per.items()}
  for kind in per:
    first = next(mt for mt in meta if mt["kind"] == kind)
    res.sample({"kind": "correspondence " + kind, "inputs": first["inputs"], "impl": first["impl"]}, cap=12)
  return bad, per


# =============================================================================================
# oracle: MJWarp vs MuJoCo C
# =============================================================================================
# <dcmotor> variants without a controller: the installed mujoco (3.13) encodes the controller input
# (`input="pos|vel|ff"`) differently from the gainprm[8] input mode /repo reads, so those cannot be
# expressed for both sides; the voltage-input motor with every optional state can
DCMOTORS = [
  'motorconst="0.05" resistance="2.0"',
  'motorconst="0.05" resistance="2.0" thermal="10 5 0 0 25 25"',
  'motorconst="0.05" resistance="2.0" thermal="0.1 0.1 0 0.004 25 26"',
  'motorconst="0.05" resistance="2.0" inductance="0.01 0" thermal="10 5 0 0.004 25 25"',
  'motorconst="0.05" resistance="2.0" inductance="0.01 0" saturation="0 0 100"',
  'motorconst="0.05" resistance="2.0" inductance="0.01 0.3" saturation="1 2 100"',
  'motorconst="0.05" resistance="2.0" damping="0.01" lugre="100 1 0.5 0.7 10"',
  'motorconst="2.0" resistance="0.5" inductance="0 0.001"',
  'motorconst="0.05" resistance="2.0" cogging="0.02 6 0.3"',
  'motorconst="0.05" resistance="2.0" inductance="0.01 0.3" thermal="10 5 0.1 0.004 25 26" saturation="1 2 100" lugre="100 1 0.5 0.7 10" cogging="0.02 6 0.3" damping="0.01"',
]


def rand_actuators(rng, info, n, allow_dc=True):
  joints = info["joints"]
  scalar = [j for j in joints if j[1] in ("hinge", "slide")]
  sites = info.get("sites", [])
  tendons = info.get("tendons", [])
  out = []
  for a in range(n):
    kind = str(rng.choice(["motor", "position", "position", "velocity", "intvelocity", "damper", "cylinder", "muscle", "general", "general", "general", "dcmotor"]))
    if kind == "dcmotor" and not allow_dc:
      kind = "general"
    r = rng.random()
    if kind in ("muscle", "dcmotor") and not (tendons and r < 0.3):  # <muscle>/<dcmotor>: joint or tendon transmissions only
      r = 0.9
    if tendons and r < 0.3:
      trn = f'tendon="{tendons[int(rng.integers(len(tendons)))]}" gear="{_f([rng.normal(0, 2)])}"'
      if rng.random() < 0.6:  # make shared limited tendons likely
        trn = f'tendon="{tendons[0]}" gear="{_f([rng.normal(0, 2)])}"'
    elif sites and r < 0.45:
      trn = f'site="{sites[int(rng.integers(len(sites)))]}" gear="{_f(rng.normal(0, 1, 6))}"'
      if len(sites) >= 2 and rng.random() < 0.5:
        trn += f' refsite="{sites[int(rng.integers(len(sites)))]}"'
    elif len(sites) >= 2 and r < 0.52:
      i, j = rng.choice(len(sites), 2, replace=False)
      trn = f'cranksite="{sites[i]}" slidersite="{sites[j]}" cranklength="{_f([rng.uniform(0.8, 2.5)])}" gear="{_f([rng.normal(0, 2)])}"'
    else:
      j = joints[int(rng.integers(len(joints)))]
      if j[1] in ("free", "ball") and scalar and rng.random() < 0.6:
        j = scalar[int(rng.integers(len(scalar)))]
      tk = "jointinparent" if rng.random() < 0.2 else "joint"
      g = rng.normal(0, 1, 6) if j[1] == "free" else (rng.normal(0, 1, 3) if j[1] == "ball" else [rng.normal(0, 2)])
      trn = f'{tk}="{j[0]}" gear="{_f(g)}"'
    common = f'name="a{a}" {trn}'
    ctrl_lim = ""
    if rng.random() < 0.5:
      lo = rng.normal(0, 0.5)
      ctrl_lim = f' ctrllimited="true" ctrlrange="{_f([lo])} {_f([lo + rng.uniform(0.1, 2)])}"'
    frc_lim = ""
    if rng.random() < 0.4:
      lo = rng.normal(0, 1)
      frc_lim = f' forcelimited="true" forcerange="{_f([lo])} {_f([lo + rng.uniform(0.1, 3)])}"'
    if kind == "motor":
      s = f"<motor {common}{ctrl_lim}{frc_lim}/>"
    elif kind == "position":
      s = f'<position {common}{ctrl_lim}{frc_lim} kp="{_f([rng.uniform(1, 20)])}"'
      s += f' kv="{_f([rng.uniform(0, 2)])}"' if rng.random() < 0.5 else ""
      s += f' timeconst="{_f([rng.uniform(0.005, 0.2)])}"' if rng.random() < 0.4 else ""
      s += "/>"
    elif kind == "velocity":
      s = f'<velocity {common}{ctrl_lim}{frc_lim} kv="{_f([rng.uniform(0.1, 5)])}"/>'
    elif kind == "intvelocity":
      lo = rng.normal(0, 0.5)
      s = f'<intvelocity {common}{ctrl_lim}{frc_lim} kp="{_f([rng.uniform(1, 20)])}" actrange="{_f([lo])} {_f([lo + rng.uniform(0.1, 2)])}"/>'
    elif kind == "damper":
      s = f'<damper {common}{frc_lim} kv="{_f([rng.uniform(0.1, 5)])}" ctrlrange="0 {_f([rng.uniform(0.2, 2)])}"/>'
    elif kind == "cylinder":
      s = f'<cylinder {common}{ctrl_lim}{frc_lim} timeconst="{_f([rng.uniform(0.005, 0.3)])}" area="{_f([rng.uniform(0.1, 3)])}" bias="{_f(rng.normal(0, 1, 3))}"/>'
    elif kind == "muscle":
      s = (f'<muscle {common}{ctrl_lim}{frc_lim} lengthrange="{_f([rng.uniform(-0.5, 0.2)])} {_f([rng.uniform(0.6, 1.6)])}" timeconst="{_f(rng.uniform(0.005, 0.05, 2))}" '
           f'tausmooth="{_f([rng.choice([0, 0.2])])}" force="{_f([rng.choice([-1, 30])])}" scale="{_f([rng.uniform(50, 300)])}"/>')  # fmt: skip
    elif kind == "dcmotor":
      s = f"<dcmotor {common}{ctrl_lim} {DCMOTORS[int(rng.integers(len(DCMOTORS)))]}/>"
    else:
      dyn = str(rng.choice(["none", "integrator", "filter", "filterexact", "muscle", "user"]))
      gain = str(rng.choice(["fixed", "affine", "muscle"]))
      bias = str(rng.choice(["none", "affine", "muscle"]))
      s = f'<general {common}{ctrl_lim}{frc_lim} dyntype="{dyn}" gaintype="{gain}" biastype="{bias}"'
      if dyn in ("filter", "filterexact"):
        s += f' dynprm="{_f([10.0 ** rng.uniform(-3, 0)])}"'
      elif dyn == "muscle":
        s += f' dynprm="{_f(rng.uniform(0.005, 0.05, 2))} {_f([rng.choice([0, 0.3])])}"'
      elif dyn == "user":
        s += f' actdim="{int(rng.integers(1, 3))}"'
      s += f' gainprm="{MUSCLE_PRM}"' if gain == "muscle" else f' gainprm="{_f(rng.normal(0, 3, 3))}"'
      if bias == "muscle":
        s += f' biasprm="{MUSCLE_PRM}"'
      elif bias == "affine":
        s += f' biasprm="{_f(rng.normal(0, 2, 3))}"'
      if gain == "muscle" or bias == "muscle":
        s += f' lengthrange="{_f([rng.uniform(-0.5, 0.2)])} {_f([rng.uniform(0.6, 1.6)])}"'
      if dyn != "none":
        if rng.random() < 0.5:
          lo = rng.normal(0, 0.4)
          s += f' actlimited="true" actrange="{_f([lo])} {_f([lo + rng.uniform(0.05, 1)])}"'
        if rng.random() < 0.5:
          s += ' actearly="true"'
      s += "/>"
    out.append(s)
  return "<actuator>" + "".join(out) + "</actuator>"


def oracle_model(rng, allow_dc=True):
  import models

  o = models.Opts(nbody=(2, 6), tendons=int(rng.integers(0, 3)), sites=0.9, limits=0.3, actuators=0, gravity=bool(rng.random() < 0.8),
                  option=f'timestep="{_f([rng.choice([0.002, 0.005, 0.01])])}"')  # fmt: skip
  xml, info = models.random_model(rng, o)

  def jrep(mo):
    t = mo.group(0)
    if 'type="hinge"' not in t and 'type="slide"' not in t:
      return t
    add = ""
    if rng.random() < 0.4:
      lo = -rng.uniform(0.05, 1.5)
      add += f' actuatorfrclimited="true" actuatorfrcrange="{_f([lo])} {_f([lo + rng.uniform(0.1, 2.5)])}"'
    if rng.random() < 0.3:
      add += ' actuatorgravcomp="true"'
    return t[:-2] + add + "/>"

  xml = re.sub(r"<joint name=[^>]*?/>", jrep, xml)
  xml = re.sub(r'<body name="b\d+"', lambda mo: mo.group(0) + (f' gravcomp="{_f([rng.uniform(0.2, 1.5)])}"' if rng.random() < 0.4 else ""), xml)

  def trep(mo):
    if rng.random() < 0.7:  # the MuJoCo compiler requires lo <= 0 <= hi for tendons
      return mo.group(0) + f' actuatorfrclimited="true" actuatorfrcrange="{_f([-rng.uniform(0.05, 1.5)])} {_f([rng.uniform(0.05, 1.5)])}"'
    return mo.group(0)

  xml = re.sub(r'<(fixed|spatial) name="\w+"', trep, xml)
  if not info["joints"]:
    return None, info
  acts = rand_actuators(rng, info, int(rng.integers(3, 7)), allow_dc)
  if rng.random() < 0.15:
    xml = xml.replace("<worldbody>", '<option><flag clampctrl="disable"/></option><worldbody>', 1)
  xml = xml.replace("</mujoco>", acts + "</mujoco>")
  return xml, info


ADHESION_XML = """<mujoco><option timestep="0.005"/><worldbody>
<geom name="floor" type="plane" size="3 3 .1"/>
<body name="ball" pos="0 0 0.095"><freejoint name="fj0"/><geom name="bg" type="sphere" size="0.1"/></body>
<body name="ball2" pos="0.6 0 0.09"><freejoint name="fj1"/><geom name="xg" type="sphere" size="0.1"/></body>
</worldbody><actuator>
<adhesion name="ad0" body="ball" gain="3" ctrlrange="0 1"/>
<adhesion name="ad1" body="ball2" gain="0.7" ctrlrange="0 2"/>
<motor name="m0" joint="fj0" gear="0 0 1 0 0 0"/>
</actuator></mujoco>"""


def dense_moment_mj(m, d):
  import mujoco

  out = np.zeros((m.nu, m.nv))
  if m.nu and m.nv:
    mujoco.mju_sparse2dense(out, d.actuator_moment, d.moment_rownnz, d.moment_rowadr, d.moment_colind)
  return out


def dense_moment_mjw(m, dd, w):
  out = np.zeros((m.nu, m.nv))
  nnz, adr = dd.moment_rownnz.numpy()[w], dd.moment_rowadr.numpy()[w]
  col, val = dd.moment_colind.numpy()[w], dd.actuator_moment.numpy()[w]
  for i in range(m.nu):
    for k in range(int(nnz[i])):
      out[i, int(col[adr[i] + k])] += float(val[adr[i] + k])
  return out


def compare_actuation(xml, qpos, qvel, ctrl2, act2, rtol=5e-4):
  """Run both implementations on (xml, state); ctrl2/act2 have one row per world.  Returns (failures, stats)."""
  import mujoco
  import warp as wp

  import mujoco_warp as mjw

  m = mujoco.MjModel.from_xml_string(xml)
  nworld = len(ctrl2)
  ds = []
  for w in range(nworld):
    d = mujoco.MjData(m)
    d.qpos[:], d.qvel[:] = qpos, qvel
    d.ctrl[:] = ctrl2[w]
    if m.na:
      d.act[:] = act2[w]
    mujoco.mj_fwdPosition(m, d)
    mujoco.mj_fwdVelocity(m, d)
    mujoco.mj_fwdActuation(m, d)
    ds.append(d)
  mm = mjw.put_model(m)
  d0 = mujoco.MjData(m)
  d0.qpos[:], d0.qvel[:] = qpos, qvel
  dd = mjw.put_data(m, d0, nworld=nworld)
  wp.copy(dd.ctrl, wp.array(np.asarray(ctrl2, dtype=np.float32), dtype=float))
  if m.na:
    wp.copy(dd.act, wp.array(np.asarray(act2, dtype=np.float32), dtype=float))
  mjw.fwd_position(mm, dd)
  mjw.fwd_velocity(mm, dd)
  mjw.fwd_actuation(mm, dd)
  fails = []
  TEN = int(mujoco.mjtTrn.mjTRN_TENDON)
  for w, d in enumerate(ds):
    if not all(np.all(np.isfinite(getattr(d, f))) for f in ("actuator_force", "act_dot", "qfrc_actuator", "actuator_length")):
      continue  # MuJoCo itself produced inf/nan (division by a zero tendon total): nothing to compare
    mom_c = dense_moment_mj(m, d)
    mom_w = dense_moment_mjw(m, dd, w)
    frc_c = np.asarray(d.actuator_force)
    # per-actuator scale of the force: cancellation inside a clamped tendon total amplifies float32 rounding
    fscale = 1.0 + np.abs(frc_c)
    for t in range(m.ntendon):
      if m.tendon_actfrclimited[t]:
        on = [i for i in range(m.nu) if m.actuator_trntype[i] == TEN and m.actuator_trnid[i, 0] == t]
        if on:
          lo, hi = m.tendon_actfrcrange[t]
          tot = float(np.sum(frc_c[on]))
          if not (lo + 1e-9 < tot < hi - 1e-9):  # clamp active (or at the edge): forces were rescaled by bound/total
            # pre-clamp magnitudes are |f| * |T_pre| / |bound|; use the post-clamp sum of magnitudes / |total| as conditioning
            cond = float(np.sum(np.abs(frc_c[on]))) / max(abs(tot), 1e-12)
            fscale[on] *= 1.0 + cond
    checks = [
      ("actuator_length", dd.actuator_length.numpy()[w], d.actuator_length, 1.0 + np.abs(d.actuator_length)),
      ("actuator_moment", mom_w, mom_c, 1.0 + np.abs(mom_c)),
      ("actuator_velocity", dd.actuator_velocity.numpy()[w], d.actuator_velocity, 1.0 + np.abs(mom_c) @ np.abs(qvel)),
      ("actuator_force", dd.actuator_force.numpy()[w], frc_c, fscale),
      ("act_dot", dd.act_dot.numpy()[w], d.act_dot, 1.0 + np.abs(d.act_dot)),
      # moment entries carry an absolute float32 error of a few ulp of the row's magnitude (also where MuJoCo's entry is
      # ~0); it is multiplied by forces that reach 1e7 for far-out-of-range controls: 1e-3 * (1 + row max) per entry
      ("qfrc_actuator", dd.qfrc_actuator.numpy()[w], d.qfrc_actuator,
       1.0 + (np.abs(mom_c) + 1e-3 * (1.0 + np.abs(mom_c).max(axis=1, keepdims=True))).T @ fscale + np.abs(d.qfrc_gravcomp)),
    ]
    for name, a, b, scale in checks:
      a, b = np.asarray(a, dtype=np.float64), np.asarray(b, dtype=np.float64)
      if a.shape != b.shape:
        fails.append({"field": name, "world": w, "err": "shape", "mjw": list(a.shape), "mj": list(b.shape)})
        continue
      if a.size == 0:
        continue
      err = np.abs(a - b)
      err = np.where(np.isnan(err), np.inf, err)
      if np.any(err > rtol * scale):
        i = np.unravel_index(int(np.argmax(err / scale)), err.shape)
        fl = {"field": name, "world": w, "index": [int(x) for x in i], "mjw": float(a[i]), "mj": float(b[i]), "err": float(err[i])}
        if name == "actuator_force":
          fl["bad"] = [int(x) for x in np.nonzero(err > rtol * scale)[0]]
        fails.append(fl)
    wf = [f for f in fails if f["world"] == w]
    ff = next((f for f in wf if f["field"] == "actuator_force"), None)
    if ff is not None and all(f["field"] in ("actuator_force", "qfrc_actuator") for f in wf):
      got = np.asarray(dd.actuator_force.numpy()[w], dtype=np.float64)
      why = explain_forces(m, d, qpos, qvel, ctrl2[w], act2[w] if m.na else None, got, ff["bad"], rtol * fscale)
      if why is not None:  # every failing force is one of the named stage-order / servo-wrap differences; qfrc follows
        fails = [f for f in fails if f["world"] != w]
        for kind, i in why.items():
          fails.append({"field": kind, "world": w, "index": [i], "mjw": float(got[i]), "mj": float(frc_c[i]), "err": float(abs(got[i] - frc_c[i]))})
  # one full step: the stored activation (support.next_act through _next_activation) against mj_step
  if m.na and not fails:
    mjw.step(mm, dd)
    act_w = dd.act.numpy()
    for w, d in enumerate(ds):
      ad = np.array(d.act_dot)
      a0 = np.array(d.act)
      mujoco.mj_step(m, d)
      if any(d.warning[k].number for k in range(len(d.warning))) or not np.all(np.isfinite(d.act)):
        continue  # MuJoCo reset or flagged the state (bad qacc from a far-out-of-range control): nothing to compare
      a, b = np.asarray(act_w[w], dtype=np.float64), np.asarray(d.act, dtype=np.float64)
      scale = 1.0 + np.abs(a0) + np.abs(b) + m.opt.timestep * np.abs(ad)
      err = np.where(np.isnan(a - b), np.inf, np.abs(a - b))
      if np.any(err > rtol * scale):
        i = int(np.argmax(err / scale))
        fails.append({"field": "act_next", "world": w, "index": [i], "mjw": float(a[i]), "mj": float(b[i]), "err": float(err[i])})
  return fails, m


def explain_forces(m, d, qpos, qvel, ctrl, act, got, bad, tol):
  """Attribute failing actuator forces to a NAMED difference; None unless every failing index is explained.
    clamp-order : the force equals what MuJoCo's numbers give with /repo's stage order (forcerange clamp, then tendon scale)
    dc-mech     : DC motor with cogging / LuGre force on a force-limited tendon (/repo scales the mechanical force with the
                  tendon limit, MuJoCo adds it after every clamp) - static attribution, DC motors are oracle-only
    servo-wrap  : ball-joint position servo (fixed gain = -biasprm[1], dyntype none/integrator): MuJoCo 3.13 wraps
                  (target - length) into one turn, /repo evaluates the affine law; the force equals the affine law"""
  import mujoco

  TEN = int(mujoco.mjtTrn.mjTRN_TENDON)
  alt = mjw_order_forces(m, qpos, qvel, ctrl, act)
  dc_tendons = {int(m.actuator_trnid[j, 0]) for j in range(m.nu)
                if m.actuator_trntype[j] == TEN and int(m.actuator_biastype[j]) == 3 and (m.actuator_biasprm[j, 0] != 0 or m.actuator_dynprm[j, 5] > 0)}  # fmt: skip

  def user_out(j):  # user activation outside actrange used early: MuJoCo clamps it, next_act's USER branch does not
    if int(m.actuator_dyntype[j]) != 7 or not (m.actuator_actlimited[j] and m.actuator_actearly[j]) or m.actuator_actadr[j] < 0:
      return False
    a_last = float(d.act[m.actuator_actadr[j] + m.actuator_actnum[j] - 1])
    return not (m.actuator_actrange[j, 0] <= a_last <= m.actuator_actrange[j, 1])

  user_tendons = {int(m.actuator_trnid[j, 0]) for j in range(m.nu) if m.actuator_trntype[j] == TEN and user_out(j)}
  out = {}
  for i in bad:
    on_lim = m.actuator_trntype[i] == TEN and bool(m.tendon_actfrclimited[m.actuator_trnid[i, 0]])
    if on_lim and int(m.actuator_trnid[i, 0]) in dc_tendons:  # the tendon total (hence every scale factor on it) contains the mechanical force
      out.setdefault("dc-mech", i)
      continue
    if on_lim and alt is not None and abs(got[i] - alt[i]) <= tol[i] + 5e-4 * abs(alt[i]):
      out.setdefault("clamp-order", i)
      continue
    lin = servo_linear(m, d, i)
    if lin is not None and abs(got[i] - lin) <= tol[i] + 5e-4 * abs(lin):
      out.setdefault("servo-wrap", i)
      continue
    # last (regression class, /repo 0fa25c6 clamps user activations): only when none of the open, evidence-based classes
    # explains the force - a user activation outside actrange used early, or a tendon total containing such a force
    if user_out(i) or (on_lim and int(m.actuator_trnid[i, 0]) in user_tendons):
      out.setdefault("user-actlimit", i)
      continue
    return None
  return out or None


def servo_linear(m, d, i):
  """Affine force law of actuator i from MuJoCo's own length/velocity/ctrl/act when i is a ball-joint position servo."""
  import mujoco

  if int(m.actuator_trntype[i]) not in (0, 1) or m.jnt_type[m.actuator_trnid[i, 0]] != mujoco.mjtJoint.mjJNT_BALL:
    return None
  g, b = m.actuator_gainprm[i], m.actuator_biasprm[i]
  if int(m.actuator_gaintype[i]) != 0 or int(m.actuator_biastype[i]) != 1 or g[0] != -b[1] or int(m.actuator_dyntype[i]) not in (0, 1):
    return None
  c = float(d.ctrl[i])
  if m.actuator_ctrllimited[i] and not (m.opt.disableflags & mujoco.mjtDisableBit.mjDSBL_CLAMPCTRL):
    c = min(max(c, m.actuator_ctrlrange[i, 0]), m.actuator_ctrlrange[i, 1])
  x = c
  if m.actuator_actadr[i] >= 0:
    x = float(d.act[m.actuator_actadr[i] + m.actuator_actnum[i] - 1])
    if m.actuator_actearly[i]:
      x = x + m.opt.timestep * c
      if m.actuator_actlimited[i]:
        x = min(max(x, m.actuator_actrange[i, 0]), m.actuator_actrange[i, 1])
  f = g[0] * x + b[0] + b[1] * d.actuator_length[i] + b[2] * d.actuator_velocity[i]
  if m.actuator_forcelimited[i]:
    f = min(max(f, m.actuator_forcerange[i, 0]), m.actuator_forcerange[i, 1])
  return float(f)


def mjw_order_forces(m, qpos, qvel, ctrl, act):
  """What MuJoCo's own numbers give when the forcerange clamp is applied BEFORE the tendon total/scale (the
  order of /repo's kernels) instead of after it (MuJoCo's order).  None when the model has no actuator
  that is both forcelimited and on a force-limited tendon.  Used only to NAME a disagreement."""
  import copy

  import mujoco

  TEN = int(mujoco.mjtTrn.mjTRN_TENDON)
  on_lim = [i for i in range(m.nu) if m.actuator_trntype[i] == TEN and m.tendon_actfrclimited[m.actuator_trnid[i, 0]]]
  if not any(m.actuator_forcelimited[i] for i in on_lim):
    return None
  m2 = copy.copy(m)
  m2.actuator_forcelimited[:] = 0
  m2.tendon_actfrclimited[:] = 0
  d = mujoco.MjData(m2)
  d.qpos[:], d.qvel[:], d.ctrl[:] = qpos, qvel, ctrl
  if m.na:
    d.act[:] = act
  mujoco.mj_fwdPosition(m2, d)
  mujoco.mj_fwdVelocity(m2, d)
  mujoco.mj_fwdActuation(m2, d)
  f = np.array(d.actuator_force)
  for i in range(m.nu):
    if m.actuator_forcelimited[i]:
      f[i] = min(max(f[i], m.actuator_forcerange[i, 0]), m.actuator_forcerange[i, 1])
  tot = np.zeros(max(m.ntendon, 1))
  for i in range(m.nu):
    if m.actuator_trntype[i] == TEN:
      tot[m.actuator_trnid[i, 0]] += f[i]
  for i in on_lim:
    t = m.actuator_trnid[i, 0]
    lo, hi = m.tendon_actfrcrange[t]
    if tot[t] < lo:
      f[i] *= lo / tot[t]
    elif tot[t] > hi:
      f[i] *= hi / tot[t]
  return f


KEY_OF = {
  "clamp-order": "C03:fwd_actuation:forcerange-clamp-before-tendon-clamp",
  "dc-mech": "C03:fwd_actuation:dcmotor-mechanical-force-before-tendon-clamp",
  "servo-wrap": "C03:_actuator_force:ball-joint-position-servo-not-wrapped",
  "user-actlimit": "C03:next_act:dyntype-user-skips-actlimited-clamp",
}


def classify(m, f):
  """Specific key for a disagreement: field + what kind of actuator it is about."""
  import mujoco

  name = f["field"]
  if name in KEY_OF:
    return KEY_OF[name]
  if name in ("actuator_force", "actuator_length", "actuator_velocity") and "index" in f:
    i = f["index"][0]
    return f"C03:oracle:{name}:dyn{int(m.actuator_dyntype[i])}-gain{int(m.actuator_gaintype[i])}-bias{int(m.actuator_biastype[i])}-trn{int(m.actuator_trntype[i])}"
  if name == "actuator_moment" and "index" in f:
    return f"C03:oracle:actuator_moment:trn{int(m.actuator_trntype[f['index'][0]])}"
  if name in ("act_dot", "act_next") and "index" in f:
    j = f["index"][0]
    own = [i for i in range(m.nu) if m.actuator_actadr[i] >= 0 and m.actuator_actadr[i] <= j < m.actuator_actadr[i] + m.actuator_actnum[i]]
    if name == "act_next" and own and int(m.actuator_dyntype[own[0]]) == 7 and m.actuator_actlimited[own[0]]:
      return KEY_OF["user-actlimit"]
    return f"C03:oracle:{name}:dyn{int(m.actuator_dyntype[own[0]]) if own else -1}"
  _ = mujoco
  return f"C03:oracle:{name}"


def oracle(res, nmodels):
  import mujoco

  import models

  rng = np.random.default_rng(vlib.seed() + 305)
  found = {}
  nskip = 0
  jobs = []
  for k in range(nmodels):
    xml, info = oracle_model(rng, allow_dc=True)
    if xml is None:
      nskip += 1
      continue
    jobs.append(xml)
  jobs.append(ADHESION_XML)
  for xml in jobs:
    try:
      m = mujoco.MjModel.from_xml_string(xml)
    except ValueError:
      nskip += 1  # generator produced something the MuJoCo compiler rejects: not a case
      continue
    d = mujoco.MjData(m)
    if xml is ADHESION_XML:
      mujoco.mj_resetData(m, d)
      qpos, qvel = d.qpos.copy(), _f32(rng.normal(0, 0.1, m.nv)).astype(np.float64)
    else:
      models.random_state(rng, m, d, vel_scale=1.0)
      qpos, qvel = d.qpos.copy(), d.qvel.copy()
    ctrl2 = [rand_ctrl(rng, m.nu), rand_ctrl(rng, m.nu)]
    act2 = [rand_act(rng, m.na), rand_act(rng, m.na)]
    if xml is ADHESION_XML:
      ctrl2 = [_f32([0.8, 1.5, 0.3]), _f32([5.0, -1.0, 2.0])]
    try:
      fails, m = compare_actuation(xml, qpos, qvel, ctrl2, act2)
    except NotImplementedError:
      nskip += 1  # put_model refuses the model: outside "accepted models"
      continue
    res.count(2)
    feats = (tuple(sorted(set(int(x) for x in m.actuator_trntype))), tuple(sorted(set(int(x) for x in m.actuator_dyntype))), tuple(sorted(set(int(x) for x in m.actuator_gaintype))),
             tuple(sorted(set(int(x) for x in m.actuator_biastype))), bool(m.tendon_actfrclimited.any()) if m.ntendon else False, bool(m.jnt_actfrclimited.any()))  # fmt: skip
    if not fails:
      res.nontrivial(("oracle", xml))
      res.extra.setdefault("oracle_features", set()).add(str(feats))
    if len(res.samples) < 12 and xml is jobs[0]:
      res.sample({"kind": "oracle MJWarp vs MuJoCo", "xml": xml[:600], "ctrl": [c.tolist() for c in ctrl2], "fails": fails}, cap=12)
    for f in fails:
      key = classify(m, f)
      if key not in found:
        found[key] = {"xml": xml, "qpos": qpos.tolist(), "qvel": qvel.tolist(), "ctrl": [c.tolist() for c in ctrl2], "act": [a.tolist() for a in act2], "first": f, "all": fails[:8]}
  res.extra["oracle_features"] = sorted(res.extra.get("oracle_features", []))[:40]
  res.extra["oracle"] = {"models": len(jobs), "skipped": nskip, "disagreement_classes": sorted(found)}
  return found


# ---- probes of specific sites found by reading the code -----------------------------------------
USER_EARLY_XML = """<mujoco><worldbody><body><joint name="j" type="hinge"/><geom size="0.1"/></body></worldbody>
<actuator><general name="u" joint="j" dyntype="user" actdim="1" actearly="true" gainprm="1"/></actuator></mujoco>"""

GROUP_XML = """<mujoco><option actuatorgroupdisable="1"/><worldbody><body><joint name="j" type="hinge"/><geom size="0.1"/></body></worldbody>
<actuator><motor name="off" joint="j" group="1"/><motor name="on" joint="j" group="0" gear="0.5"/></actuator></mujoco>"""


ORDER_XML = """<mujoco><worldbody><body><joint name="j" type="slide" axis="1 0 0"/><geom size="0.1"/></body></worldbody>
<tendon><fixed name="t" actuatorfrclimited="true" actuatorfrcrange="-1 1"><joint joint="j" coef="1"/></fixed></tendon>
<actuator><motor name="a" tendon="t" forcelimited="true" forcerange="2 4"/></actuator></mujoco>"""


DCMECH_XML = """<mujoco><option timestep="0.002"/><worldbody><body><joint name="j" type="hinge"/><geom size="0.1" pos="0.1 0 0"/></body></worldbody>
<tendon><fixed name="t" actuatorfrclimited="true" actuatorfrcrange="-1 1"><joint joint="j" coef="1"/></fixed></tendon>
<actuator><dcmotor name="a" tendon="t" motorconst="0.05" resistance="2.0" cogging="3 6 0.3"/></actuator></mujoco>"""

WRAP_XML = """<mujoco><worldbody><body><joint name="j" type="ball"/><geom size="0.1"/></body></worldbody>
<actuator><position name="a" joint="j" gear="1 0 0" kp="2"/></actuator></mujoco>"""


KEY_USER = "C03:_actuator_force:dyntype-user-actearly-unassigned-act"
KEY_GROUP = "C03:fwd_actuation:actuatorgroupdisable-ignored"


USER_LIMIT_XML = """<mujoco><worldbody><body><joint name="j" type="hinge"/><geom size="0.1"/></body></worldbody>
<actuator><general name="u" joint="j" dyntype="user" actdim="1" actlimited="true" actrange="0 1" gainprm="1"/></actuator></mujoco>"""


def probes(res):
  """Minimal witnesses of the named differences.  The three open ones must still disagree as described (they are
  listed in known_findings.json); the repaired ones (/repo 9478e66, 5a274fa, 0fa25c6) are regression cases under their
  old keys: user+actearly and user+actlimited must now agree with MuJoCo, and put_model must refuse a model that disables an actuator group."""
  import mujoco

  import mujoco_warp as mjw

  out = {}
  for key, xml, ctrl, act in (
    (KEY_OF["dc-mech"], DCMECH_XML, [100.0], []),
    (KEY_OF["servo-wrap"], WRAP_XML, [5.0], []),
    (KEY_OF["clamp-order"], ORDER_XML, [3.0], []),
    (KEY_USER, USER_EARLY_XML, [0.0], [0.5]),
    (KEY_OF["user-actlimit"], USER_LIMIT_XML, [0.0], [2.0]),
  ):
    mp = mujoco.MjModel.from_xml_string(xml)
    q0 = np.array(mp.qpos0)
    if xml is WRAP_XML:
      q0 = np.array([np.cos(0.3), np.sin(0.3), 0.0, 0.0])
    elif mp.nq == 1:
      q0 = np.array([0.4])
    fails, _ = compare_actuation(xml, q0, np.zeros(mp.nv), [_f32(ctrl), _f32(ctrl)], [_f32(act), _f32(act)])
    res.count(1)
    if fails and key == KEY_USER:  # a regression would read uninitialised memory: keep the stored replay deterministic
      fails = [{k: v for k, v in f.items() if k not in ("mjw", "err")} | {"mjw": "varies per run"} for f in fails]
    if fails:
      out[key] = {"xml": xml, "qpos": q0.tolist(), "qvel": [0.0] * mp.nv, "ctrl": [ctrl, ctrl], "act": [act, act], "first": fails[0], "all": fails[:8]}
    else:
      res.nontrivial(("probe", key))
  # actuator group disable: accepted-model boundary
  res.count(1)
  mg = mujoco.MjModel.from_xml_string(GROUP_XML)
  try:
    mjw.put_model(mg)
    raised = False
  except NotImplementedError:
    raised = True
  if raised:
    res.nontrivial(("probe", KEY_GROUP))
  else:
    fails, _ = compare_actuation(GROUP_XML, [0.0], [0.0], [_f32([1.0, 3.0])] * 2, [_f32([])] * 2)
    out[KEY_GROUP] = {"xml": GROUP_XML, "qpos": [0.0], "qvel": [0.0], "ctrl": [[1.0, 3.0]] * 2, "act": [[], []],
                      "first": fails[0] if fails else {"field": "put_model", "note": "accepted a model with a disabled actuator group"}, "all": fails[:8]}  # fmt: skip
  res.obligation("regression: dyntype=user with actearly agrees with MuJoCo (fixed 9478e66)", KEY_USER not in out, "")
  res.obligation("regression: user activations are clamped to actrange like mj_nextActivation (fixed 0fa25c6)", KEY_OF["user-actlimit"] not in out, "")
  res.obligation("regression: put_model raises NotImplementedError for actuatorgroupdisable (fixed 5a274fa)", raised, "")
  return out


WHAT = {
  KEY_OF["user-actlimit"]: "REGRESSION of fix 0fa25c6 - support.next_act returns act_in for DynType.USER BEFORE the actlimited clamp; MuJoCo's mj_nextActivation clamps user activations to actrange as well, so the stored activation (and with actearly the force) differs whenever a user activation is outside actrange (theorem C03_next_act_user states what the code does)",
  KEY_OF["dc-mech"]: "DC-motor cogging / LuGre forces are added inside _actuator_force and then scaled by the tendon force limit; MuJoCo adds them after the tendon and forcerange clamps (same stage-order root cause as forcerange-clamp-before-tendon-clamp)",
  KEY_OF["servo-wrap"]: "ball-joint position servo (fixed gain = -biasprm[1], dyntype none/integrator): the installed MuJoCo 3.13 wraps (target - length) into one turn before applying kp, /repo evaluates the plain affine law, so forces differ once |target - length| > pi*|gear| (probably a MuJoCo feature newer than /repo's baseline)",
  "C03:fwd_actuation:forcerange-clamp-before-tendon-clamp": "actuator forcerange is clamped inside _actuator_force, BEFORE the tendon total is formed and scaled; MuJoCo scales by the tendon limit first and clamps to forcerange last, so forces differ (and leave forcerange) whenever a force-limited actuator acts on a force-limited tendon whose limit is active",
  KEY_USER: "REGRESSION of fix 9478e66 - dyntype=user with actearly: _actuator_force passes an unassigned local `act` to next_act (only the filter/muscle branches and the INTEGRATOR/NONE/DCMOTOR test assign it), so actuator_force is garbage; MuJoCo uses act",
  KEY_GROUP: "REGRESSION of fix 5a274fa - opt.disableactuator (actuatorgroupdisable) is accepted by put_model and ignored: actuators of a disabled group still produce force; MuJoCo zeroes them",
}


def run(res):
  quick = res.tier == "quick"
  res.rule = ("T-validation: random float32 inputs per translated function; correspondence: one case per (actuator, world) of generated models through mjw.fwd_actuation and per element of "
              "directly launched kernels, distinct = agreeing non-discarded cases with a distinct (dyntype, gaintype, biastype, flags...) class; oracle: distinct random models (2 worlds each)")  # fmt: skip
  ok, trs, failing = propkit.prove(res, PROPS, gen_names=["support_act", "util_misc"], required_funcs=REQ_FUNCS)
  notr = {k: v for tr in trs.values() for k, v in getattr(tr, "errors", {}).items()}
  res.extra["not_translated"] = notr
  tbad = tvalidate(res, trs, 60 if quick else 600)
  res.obligation("T-validation: translated next_act / util_misc functions agree with compiled Warp", not tbad, f"{len(tbad)} disagreements")
  have_model = ok or failing is None or not str(failing).startswith(("Gen/", "Model/"))
  cbad, kbad = [], []
  if have_model:
    try:
      cbad = corr_core(res, 36 if quick else 400)
      res.obligation("correspondence: Model/Act.v act_kernel vs real mjw.fwd_actuation (actuator_force, act_dot)", not cbad, f"{len(cbad)} disagreements; {res.extra.get('corr_core')}")
      kbad, per = corr_kernels(res, 12 if quick else 120)
      res.obligation("correspondence: Model/Act.v vs kernels _tendon_actuator_force(+_clamp), _qfrc_actuator_gravcomp_limits, _next_activation, util_misc.dcmotor_slots", not kbad, f"{per}")
    except RuntimeError as e:  # case files do not compile: the model no longer matches the regenerated functions
      res.obligation("correspondence: case files compile", False, str(e)[-600:])
      cbad = cbad or [{"error": str(e)[-600:]}]
  found = oracle(res, 45 if quick else 500)
  found.update(probes(res))  # the minimal inputs take precedence over a random model of the same class
  for key, data in found.items():
    res.violation(key, WHAT.get(key, f"MJWarp disagrees with MuJoCo C: {data['first']}"), data)
  res.obligation("oracle: mjw.fwd_actuation agrees with mujoco.mj_fwdActuation on the generated models (known findings excepted)", not [k for k in found if k not in WHAT], f"{sorted(found)}")
  if (tbad or cbad or kbad) and not found:
    res.violation("C03:model-mismatch", "Model/Act.v or the translated functions disagree with the compiled code (model no longer tied to /repo); no MuJoCo disagreement found", (tbad + cbad + kbad)[:4], found_input=False)
  if not ok and not found:
    propkit.broken_proof_violation(res, "C03 theorem over regenerated support.py/util_misc.py and Model/Act.v", failing)
  res.assumptions += [
    "theorems are over R: float32 rounding is covered only by the correspondence (1e-4) and the oracle (5e-4 of a conditioning-aware scale)",
    "Model/Act.v covers the non-DC-motor dyn/gain/bias types (dyntype user with actearly included since /repo 9478e66)",
    "models that disable an actuator group are outside the accepted models (put_model raises since /repo 5a274fa; checked)",
    "agreement with MuJoCo C is tested, not proved; transmissions (length, moment) are compared by the oracle only (C22 owns their geometry)",
    "callbacks (act_dyn/act_gain/act_bias) and delayed controls (nhistory > 0) are not exercised",
    "util_misc functions not translated (while loops / integer vectors): " + ", ".join(sorted(k.rsplit(".", 1)[1] for k in notr)),
  ]


def replay(res, path):
  r = json.load(open(path))["replay"]
  if not isinstance(r, dict) or "xml" not in r:
    print("replay: no concrete input in this file (proof/correspondence breakage); re-run ./check C03")
    return 1
  fails, m = compare_actuation(r["xml"], r["qpos"], r["qvel"], [_f32(c) for c in r["ctrl"]], [_f32(a) for a in r["act"]])
  print("disagreements:", json.dumps(fails, indent=1))
  return 1 if fails else 0
