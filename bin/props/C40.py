"""C40 "Flex deformables agree with MuJoCo C".

Proved (Coq, over R, on the kernels REGENERATED from /repo/mujoco_warp/_src/smooth.py into
coq/Gen/T_flex.v by bin/gens_flex.py): what _flex_nodes / _flex_vertices write (frame transform,
centred flex, trilinear interpolation with partition-of-unity weights), the exact write list of
_flex_edges, length = |x_b - x_a|, velocity = J . qvel for the row the kernel stores (sparse = dense),
velocity = d/dt length for free vertices; the row read with the MODEL's column indices equals the
velocity only under a layout hypothesis (`_partial`), refuted by a moving-parent witness; flex-vs-plane
broadphase (collision_flex._flex_broadphase_bounds/_flex_broadphase_plane): the AABB contains every vertex
with radius+margin+gap to spare and the stage-1 box cull is conservative (the task writes nothing iff the
vertex sphere is not within margin of the plane), for every unit normal.

Tied to /repo on every run: (1) the translated kernels are run inside Coq on TRACED launches of the
real kernels (1D rope, 2D cloth, 3D tets, trilinear, pinned) and the final buffers compared;
(2) the layout hypothesis of the `_partial` theorem is evaluated on every oracle model.

Tested only (differential oracle MJWarp vs the MuJoCo C binary, random 1D/2D/3D flex models and
states): flexvert_xpos, flexedge_length, flexedge_velocity, flexedge_J, flex passive forces,
flex equality / strain constraint rows, flex contacts, qacc.
"""

from __future__ import annotations

import json

import numpy as np

import propkit
import vlib

MANIFEST = {
  "text": (
    "Proved over R on the translated kernels smooth._flex_nodes/_flex_vertices/_flex_edges (Gen/T_flex.v): vertex = "
    "xmat_body*vert_local + xpos_body (body position for centred flexes; weighted sum of the 8 cell nodes with "
    "partition-of-unity weights for trilinear flexes); edge length = |x_b - x_a|; the exact J slots written; velocity "
    "written = stored sparse row . qvel = dense row . qvel with the kernel's implied columns [dofs b1]++[dofs b2]; for "
    "free vertices velocity = (x.xdot)/|x| = d/dt length (real derivative). `_partial`: row read with the model's "
    "flexedge_J_colind equals the velocity only under the layout hypothesis (refuted witness: vertex bodies under a "
    "moving parent); d/dt length for vertices on articulated bodies. Flex-vs-plane broadphase (translated "
    "_flex_broadphase_bounds/_flex_broadphase_plane): the box contains all vertices inflated by radius+margin+gap and the "
    "stage-1 cull is conservative for every unit plane normal (task writes nothing iff dist >= margin). Tested only (oracle vs MuJoCo C on random "
    "1D/2D/3D/trilinear flex models, incl. flexes touching planes tilted into all 8 sign octants, nworld 1 and 2, 5-step "
    "trajectories): passive elasticity/bending forces, flex equality and strain rows, flex contacts (count, dist, pos, normal)."
  ),
  "note": (
    "bin/gens_flex.py normalises the search-loop idiom (loop-born variable read after the loop) on the AST before the "
    "unchanged translator; Warp's scoping of such variables is measured on every run (search_loop_semantics); kernel "
    "validation on traced launches ties T_flex.v to the real kernels. Flex contacts/rows use the shared allocation "
    "proved in C16 (Model/Alloc.v)."
  ),
  "technique": "translated-kernel theorems (Coq/R) + kernel validation on traced launches + differential oracle vs MuJoCo C",
  "engine": "coq",
}

REQUIRED_KERNELS = ("_flex_nodes", "_flex_vertices", "_flex_edges", "_flex_broadphase_bounds", "_flex_broadphase_plane")


# ---------------------------------------------------------------------------------------------
# fixtures (the repo's own flex_test.py snippets, reduced in size where the Coq run needs it)
# ---------------------------------------------------------------------------------------------
def _mj(body):
  return f"<mujoco>{body}</mujoco>"


KV_FIXTURES = {
  "rope1d": _mj('<worldbody><flexcomp name="rope" type="grid" count="5 1 1" spacing="0.1 0.1 0.1" dim="1" mass="1"><edge equality="true"/></flexcomp></worldbody>'),
  "cloth2d": _mj('<worldbody><flexcomp name="cloth" type="grid" count="3 3 1" spacing="0.1 0.1 0.1" dim="2" mass="1"><edge equality="true"/></flexcomp></worldbody>'),
  "tet3d": _mj('<worldbody><flexcomp name="soft" type="grid" count="2 2 2" spacing="0.1 0.1 0.1" dim="3" mass="1" dof="full"><elasticity young="1e4" damping="0.1"/></flexcomp></worldbody>'),
  "trilinear3d": _mj('<worldbody><flexcomp name="soft" type="grid" count="3 3 3" spacing="0.1 0.1 0.1" dim="3" mass="1" dof="trilinear"><contact selfcollide="none"/><elasticity young="1e4" poisson="0.3"/></flexcomp></worldbody>'),
  "pinned1d": _mj(
    '<worldbody><body name="anchor" pos=".5 .5 1" euler="10 20 30"><geom size=".02" mass=".01"/>'
    '<flexcomp name="line" type="grid" count="4 1 1" spacing=".1 .1 .1" radius=".01" dim="1" mass="1">'
    '<contact contype="0" conaffinity="0"/><edge equality="true"/><pin id="0"/></flexcomp></body></worldbody>'
  ),
}


def _state(rng, mjm, mjd, qn=0.05, vn=0.1):
  import mujoco

  mjd.qpos[:] = mjm.qpos0 + qn * rng.standard_normal(mjm.nq)
  for j in range(mjm.njnt):
    a = mjm.jnt_qposadr[j]
    if mjm.jnt_type[j] == mujoco.mjtJoint.mjJNT_FREE:
      mjd.qpos[a + 3 : a + 7] /= np.linalg.norm(mjd.qpos[a + 3 : a + 7])
    elif mjm.jnt_type[j] == mujoco.mjtJoint.mjJNT_BALL:
      mjd.qpos[a : a + 4] /= np.linalg.norm(mjd.qpos[a : a + 4])
  mjd.qvel[:] = vn * rng.standard_normal(mjm.nv)


# ---------------------------------------------------------------------------------------------
# Warp scoping of loop-born variables (the assumption behind gens_flex.normalise_search_loops)
# ---------------------------------------------------------------------------------------------
def search_loop_semantics(res):
  import warp as wp

  @wp.kernel
  def c40_loop_target(n: int, adr: wp.array[int], out: wp.array[int]):
    t = wp.tid()
    for f in range(n):
      loc = t - adr[f]
      if loc >= 0 and loc < 2:
        break
    out[t] = f

  @wp.kernel
  def c40_loop_copy(n: int, adr: wp.array[int], out: wp.array[int]):
    t = wp.tid()
    for i in range(n):
      loc = t - adr[i]
      if loc >= 0 and loc < 2:
        f = i
        break
    out[t] = f

  adr = wp.array(np.array([0, 2, 4], dtype=np.int32))
  o1 = wp.array(np.full(8, -7, dtype=np.int32))
  o2 = wp.array(np.full(8, -7, dtype=np.int32))
  wp.launch(c40_loop_target, dim=8, inputs=[3, adr], outputs=[o1])
  wp.launch(c40_loop_copy, dim=8, inputs=[3, adr], outputs=[o2])
  a, b = o1.numpy().tolist(), o2.numpy().tolist()
  # owned indices 0..5 -> index of the owner; unowned 6,7: loop target = last index (n-1); a copy is never assigned
  ok = a == [0, 0, 1, 1, 2, 2, 2, 2] and b[:6] == [0, 0, 1, 1, 2, 2]
  res.obligation("Warp scoping: a loop-born variable read after the loop holds the last value assigned (break index / last index)", ok, f"target form {a}, copy form {b[:6]} (+ unassigned {b[6:]})")
  res.count(16)
  return ok


# ---------------------------------------------------------------------------------------------
# kernel validation on traced launches
# ---------------------------------------------------------------------------------------------
def kvalidate(res, trk, names):
  import mujoco
  import warp as wp

  import ktrace
  import kvalid
  import mujoco_warp as mjw

  wanted = {fi.pyqual: fi for fi in trk.kernels.values()}
  kname = {fi.pyqual: k for k, fi in trk.kernels.items()}
  rng = np.random.default_rng(vlib.seed() + 4001)
  cases = []
  for name in names:
    mjm = mujoco.MjModel.from_xml_string(KV_FIXTURES[name])
    mjd = mujoco.MjData(mjm)
    _state(rng, mjm, mjd, 0.1, 0.1)
    mujoco.mj_forward(mjm, mjd)
    m = mjw.put_model(mjm)
    d = mjw.put_data(mjm, mjd, nworld=2)
    q = d.qpos.numpy()
    q[1] += (0.05 * rng.standard_normal(mjm.nq)).astype(np.float32)
    wp.copy(d.qpos, wp.array(q, dtype=float))
    v = d.qvel.numpy()
    v[1] = (0.3 * rng.standard_normal(mjm.nv)).astype(np.float32)
    wp.copy(d.qvel, wp.array(v, dtype=float))
    with ktrace.Tracer(wanted, per_kernel=1) as t:
      mjw.kinematics(m, d)
      mjw.com_pos(m, d)
      mjw.flex(m, d)
    for c in t.cases:
      c["fixture"], c["xml"] = name, KV_FIXTURES[name]
      res.nontrivial(("kv", name, kname[c["qual"]]))
    cases += t.cases
  # flex-vs-plane broadphase on tilted planes (mixed-sign normals; one touching, one separated = culled at stage 1)
  for j, (kind, oc) in enumerate((("cube2", (1, -1, 1)), ("cloth", (-1, 1, 1)), ("cube2", (-1, -1, -1)))):
    for _ in range(20):
      xml, qpos, qvel, info = tilted_scene(rng, kind, oc)
      if (j == 2) == (info["depth"] < 0):  # third fixture: separated
        break
    mjm = mujoco.MjModel.from_xml_string(xml)
    mjd = mujoco.MjData(mjm)
    mjd.qpos[:], mjd.qvel[:] = qpos, qvel
    mujoco.mj_forward(mjm, mjd)
    m = mjw.put_model(mjm)
    d = mjw.put_data(mjm, mjd, nworld=2)
    q = d.qpos.numpy()
    q[1] += (0.002 * rng.standard_normal(mjm.nq)).astype(np.float32)
    wp.copy(d.qpos, wp.array(q, dtype=float))
    mjw.kinematics(m, d)
    mjw.com_pos(m, d)
    mjw.flex(m, d)
    with ktrace.Tracer(wanted, per_kernel=1) as t:
      mjw.collision(m, d)
    for c in t.cases:
      c["fixture"], c["xml"] = f"tilted_{kind}_{j}", xml
      res.nontrivial(("kv", c["fixture"], kname[c["qual"]], int(d.nacon.numpy()[0])))
    cases += t.cases
    if t.skipped:
      res.notes.append(f"kernel validation tilted_{kind}_{j}: skipped {t.skipped}")
  seen = {kname[c["qual"]] for c in cases}
  res.obligation("kernel validation traced every translated flex kernel", all(k in seen for k in REQUIRED_KERNELS), f"traced: {sorted(seen)}")
  verdicts = kvalid.run_cases(res, "C40k", "Gen.T_flex", cases, tol=2e-4)
  res.extra["kernel_validation"] = {"cases": len(cases), "agree": verdicts.count(0), "discarded": verdicts.count(1), "disagree": verdicts.count(2)}
  return [{"fixture": cases[i]["fixture"], "kernel": cases[i]["qual"], "xml": cases[i]["xml"]} for i, vv in enumerate(verdicts) if vv == 2]


# ---------------------------------------------------------------------------------------------
# the witness of C40_row_with_model_colind_refuted, replayed on the REAL kernel
# ---------------------------------------------------------------------------------------------
def witness_replay(res):
  """Launch smooth._flex_edges on the arrays of Proof/Flex.v `Witness`: bodies 1 (parent, dof 0), 2 and 3 (vertex
  bodies, dofs 1 and 2), one edge, MuJoCo's merged row columns [0,1,2], qvel = (1,0,0).  The theorem says: velocity
  written 0, J slots (-1, +1, untouched) so that sum_s J[s]*qvel[colind[s]] = -1."""
  import warp as wp

  import mujoco_warp._src.smooth as Sm

  i32 = lambda x: wp.array(np.array(x, dtype=np.int32), dtype=int)  # noqa: E731
  J = wp.zeros((1, 3), dtype=float)
  ln = wp.zeros((1, 1), dtype=float)
  vel = wp.full((1, 1), 7.0, dtype=float)
  colind = [0, 1, 2]
  qvel = np.array([[1.0, 0.0, 0.0]], dtype=np.float32)
  try:
    wp.launch(
      Sm._flex_edges, dim=(1, 1),
      inputs=[1, i32([0, 1, 1, 1]), i32([0, 1, 1, 1]), i32([-1, 0, 1, 2]), i32([0]), i32([0]), i32([1]), i32([2, 3]),
              wp.array(np.array([[0, 1]], dtype=np.int32), dtype=wp.vec2i), i32([0]), i32(colind), wp.array(qvel, dtype=float),
              wp.zeros((1, 4), dtype=wp.vec3), wp.array(np.tile(np.array([0, 0, 0, 1, 0, 0], dtype=np.float32), (1, 3, 1)), dtype=wp.spatial_vector),
              wp.array(np.array([[[0, 0, 0], [1, 0, 0]]], dtype=np.float32), dtype=wp.vec3)],
      outputs=[J, ln, vel],
    )  # fmt: skip
  except Exception as e:  # the kernel signature changed: the witness no longer applies as written
    res.obligation("witness of C40_row_with_model_colind_refuted replays on the real _flex_edges kernel", False, f"launch failed: {type(e).__name__}: {e}")
    return False
  Jn, v, l_ = J.numpy()[0], float(vel.numpy()[0, 0]), float(ln.numpy()[0, 0])
  jq = float(sum(Jn[s] * qvel[0, colind[s]] for s in range(3)))
  ok = Jn.tolist() == [-1.0, 1.0, 0.0] and v == 0.0 and l_ == 1.0 and jq == -1.0
  res.obligation("witness of C40_row_with_model_colind_refuted replays on the real _flex_edges kernel", ok, f"J slots {Jn.tolist()}, velocity {v}, length {l_}, row.qvel with model columns {jq}")
  res.count()
  res.nontrivial(("witness", "moving-parent-slide"))
  return ok


# ---------------------------------------------------------------------------------------------
# oracle: MJWarp vs MuJoCo C
# ---------------------------------------------------------------------------------------------
def _slides(n, x):
  return f'<body name="{n}" pos="{x} 0 0"><joint type="slide" axis="1 0 0"/><joint type="slide" axis="0 1 0"/><joint type="slide" axis="0 0 1"/><geom size=".005" mass=".1" contype="0" conaffinity="0"/></body>'


def _family(name, rng):
  """MJCF of one model of a family.  Families marked `probe` exercise configurations outside the
  repo's own flex tests; every family is inside what put_model accepts."""
  r = lambda lo, hi: float(rng.uniform(lo, hi))  # noqa: E731
  n = int(rng.integers(3, 7))
  nocol = '<contact contype="0" conaffinity="0" selfcollide="none"/>'
  if name == "rope1d":
    return _mj(f'<worldbody><flexcomp name="f" type="grid" count="{n} 1 1" spacing=".1 .1 .1" dim="1" mass="1" radius=".01">{nocol}<edge equality="true"/></flexcomp></worldbody>')
  if name == "cloth2d_equality":
    a, b = int(rng.integers(2, 5)), int(rng.integers(2, 4))
    return _mj(f'<worldbody><flexcomp name="f" type="grid" count="{a} {b} 1" spacing=".1 .1 .1" dim="2" mass="1" radius=".01">{nocol}<edge equality="true"/></flexcomp></worldbody>')
  if name == "cloth2d_elastic":
    a, b = int(rng.integers(3, 5)), int(rng.integers(3, 4))
    e2d = str(rng.choice(["both", "stretch", "bend"]))
    dof = str(rng.choice(["full", "2d"])) if e2d == "stretch" else "full"
    return _mj(f'<worldbody><flexcomp name="f" type="grid" count="{a} {b} 1" spacing=".1 .1 .1" dim="2" mass="1" radius=".01" dof="{dof}">{nocol}'
               f'<elasticity young="{r(1e3, 5e3):.4g}" poisson="{r(0, .4):.3g}" thickness="1e-2" damping="{r(0, 2e-3):.3g}" elastic2d="{e2d}"/></flexcomp></worldbody>')  # fmt: skip
  if name == "tet3d_elastic":
    a = int(rng.integers(2, 4))
    tp = str(rng.choice(["grid", "box"])) if a == 3 else "grid"
    return _mj(f'<worldbody><flexcomp name="f" type="{tp}" count="{a} {a} {a}" spacing=".1 .1 .1" dim="3" mass="1" radius=".005" dof="full">{nocol}'
               f'<elasticity young="{r(5e3, 2e4):.4g}" poisson="{r(0, .4):.3g}" damping="{r(0, .1):.3g}"/></flexcomp></worldbody>')  # fmt: skip
  if name == "trilinear_elastic":
    return _mj(f'<worldbody><flexcomp name="f" type="grid" count="3 3 3" spacing=".1 .1 .1" dim="3" mass="1" radius=".005" dof="trilinear">{nocol}'
               f'<elasticity young="{r(5e3, 2e4):.4g}" poisson="{r(0, .4):.3g}" damping="{r(0, 2e-3):.3g}"/></flexcomp></worldbody>')  # fmt: skip
  if name == "trilinear_strain":
    return _mj(f'<worldbody><flexcomp name="f" type="grid" count="3 3 3" spacing=".1 .1 .1" dim="3" mass="1" radius=".005" dof="trilinear">{nocol}'
               '<edge equality="strain"/></flexcomp></worldbody>')  # fmt: skip
  if name == "pinned_static_parent":
    pins = "0" if rng.random() < 0.5 else f"0 {n - 1}"
    return _mj(f'<worldbody><body name="anchor" pos="{r(-.5, .5):.3g} {r(-.5, .5):.3g} 1" euler="{r(-40, 40):.3g} {r(-40, 40):.3g} {r(-40, 40):.3g}">'
               f'<flexcomp name="f" type="grid" count="{n} 1 1" spacing=".1 .1 .1" dim="1" mass="1" radius=".01">{nocol}<edge equality="true"/><pin id="{pins}"/></flexcomp></body></worldbody>')  # fmt: skip
  if name in ("two_flexes", "probe_two_flexes_one_without_jacobian"):
    # second flex: with damping MuJoCo allocates its edge Jacobian rows, without it does not (rownnz = 0, rowadr = 0)
    damp = ' damping="1e-3"' if name == "two_flexes" else ""
    return _mj(f'<worldbody><flexcomp name="f" type="grid" count="{n} 1 1" spacing=".1 .1 .1" dim="1" mass="1" radius=".01" pos="0 0 1">{nocol}<edge equality="true"/></flexcomp>'
               f'<flexcomp name="g" type="grid" count="3 3 1" spacing=".1 .1 .1" dim="2" mass="1" radius=".01" pos="0 1 1">{nocol}<elasticity young="3e3" poisson=".3" thickness="1e-2" elastic2d="both"{damp}/></flexcomp></worldbody>')  # fmt: skip
  # ---- probes ----
  if name == "probe_adjacent_pins":  # two neighbouring pinned vertices: a rigid edge
    return _mj(f'<worldbody><flexcomp name="f" type="grid" count="3 3 1" spacing=".1 .1 .1" dim="2" mass="1" radius=".01" pos="0 0 1">{nocol}<edge equality="true"/><pin id="0 1"/></flexcomp></worldbody>')
  if name == "probe_moving_parent":  # the flexcomp hangs under a jointed body, no pins
    jt = str(rng.choice(["slide", "hinge", "free"]))
    j = "<freejoint/>" if jt == "free" else f'<joint type="{jt}" axis="0 1 0"/>'
    return _mj(f'<worldbody><body name="base" pos="0 0 1">{j}<geom type="box" size=".05 .05 .05" contype="0" conaffinity="0"/>'
               f'<flexcomp name="f" type="grid" count="{n} 1 1" spacing=".1 .1 .1" dim="1" mass="1" radius=".01" pos="0 0 .3">{nocol}<edge equality="true"/></flexcomp></body></worldbody>')  # fmt: skip
  if name == "probe_pinned_to_jointed_body":  # vertex 0 rides on a hinged body
    return _mj('<worldbody><body name="base" pos="0 0 1"><joint type="hinge" axis="0 1 0"/><geom type="box" size=".05 .05 .05" contype="0" conaffinity="0"/>'
               f'<flexcomp name="f" type="grid" count="{n} 1 1" spacing=".1 .1 .1" dim="1" mass="1" radius=".01" pos="0 0 .3">{nocol}<edge equality="true"/><pin id="0"/></flexcomp></body></worldbody>')  # fmt: skip
  if name == "probe_reversed_body_order":  # <flex> whose first vertex body comes last in the tree
    return _mj(f'<worldbody>{_slides("a", 0)}{_slides("b", .1)}{_slides("c", .2)}</worldbody>'
               f'<deformable><flex name="f" dim="1" body="c a b" element="0 1 1 2" radius=".01">{nocol}</flex></deformable><equality><flex flex="f"/></equality>')  # fmt: skip
  if name == "probe_edge_damping":
    return _mj(f'<worldbody><flexcomp name="f" type="grid" count="{n} 1 1" spacing=".1 .1 .1" dim="1" mass="1" radius=".01">{nocol}<edge damping="{r(.05, .5):.3g}"/></flexcomp></worldbody>')
  if name == "probe_edge_stiffness":
    return _mj(f'<worldbody><flexcomp name="f" type="grid" count="{n} 1 1" spacing=".1 .1 .1" dim="1" mass="1" radius=".01">{nocol}<edge stiffness="{r(10, 100):.3g}"/></flexcomp></worldbody>')
  if name == "contact_cloth_plane":
    return _mj('<worldbody><geom type="plane" size="0 0 1"/>'
               f'<flexcomp name="f" type="grid" count="3 3 1" spacing=".1 .1 .1" dim="2" mass="1" radius=".02" pos="0 0 {r(.0, .03):.3g}"><contact selfcollide="none"/><edge equality="true"/></flexcomp></worldbody>')  # fmt: skip
  if name == "contact_cloth_small_geom":  # one element touched (the repo's "localized" contact tests)
    g = str(rng.choice(["sphere", "box", "capsule"]))
    geom = {"sphere": '<geom type="sphere" size="0.02" pos="-0.066 -0.033 0.06"/>', "box": '<geom type="box" size="0.01 0.01 0.01" pos="-0.033 -0.066 0.063" euler="30 45 15"/>',
            "capsule": '<geom type="capsule" size="0.01 0.03" pos="-0.066 -0.033 0.058" euler="90 0 0"/>'}[g]  # fmt: skip
    return _mj(f'<worldbody>{geom}<flexcomp name="f" type="grid" count="3 3 1" spacing=".1 .1 .1" pos="0 0 0.05" dim="2" mass="1"><contact condim="3"/></flexcomp></worldbody>')
  if name == "probe_contact_cloth_big_sphere":
    return _mj(f'<worldbody><geom type="sphere" size=".1" pos="{r(-.05, .05):.3g} {r(-.05, .05):.3g} 0"/>'
               f'<flexcomp name="f" type="grid" count="4 4 1" spacing=".08 .08 .08" dim="2" mass="1" radius=".01" pos="0 0 {r(.09, .105):.3g}"><contact selfcollide="none"/><edge equality="true"/></flexcomp></worldbody>')  # fmt: skip
  if name == "probe_contact_rope_sphere":
    return _mj(f'<worldbody><geom type="sphere" size=".1" pos="{r(-.1, .1):.3g} 0 0"/>'
               f'<flexcomp name="f" type="grid" count="5 1 1" spacing=".08 .08 .08" dim="1" mass="1" radius=".02" pos="0 0 {r(.1, .115):.3g}"><contact selfcollide="none"/><edge equality="true"/></flexcomp></worldbody>')  # fmt: skip
  if name == "probe_rope_vertex_on_sphere":  # the middle vertex of a straight rope presses on the top of a sphere
    return _mj('<option timestep="0.002"/><worldbody><geom type="sphere" size=".1" pos="0 0 0"/>'
               f'<flexcomp name="f" type="grid" count="5 1 1" spacing=".08 .08 .08" dim="1" mass="1" radius=".02" pos="0 0 {0.12 - r(.003, .008):.4g}"><contact selfcollide="none"/><edge equality="true"/></flexcomp></worldbody>')  # fmt: skip
  if name == "probe_rope_geom_on_vertex_body":  # collidable geoms on the vertex bodies of a 1D flex
    sl = lambda nm, x: _slides(nm, x).replace('contype="0" conaffinity="0"', "")  # noqa: E731
    return _mj(f'<worldbody>{sl("a", 0)}{sl("b", .1)}{sl("c", .2)}</worldbody>'
               '<deformable><flex name="f" dim="1" body="a b c" element="0 1 1 2" radius=".01"/></deformable><equality><flex flex="f"/></equality>')  # fmt: skip
  raise KeyError(name)


BASE_FAMILIES = ["rope1d", "cloth2d_equality", "cloth2d_elastic", "tet3d_elastic", "trilinear_elastic", "trilinear_strain", "pinned_static_parent", "two_flexes",
                 "contact_cloth_plane", "contact_cloth_small_geom"]  # fmt: skip
# probe family -> (site label of the root cause, disagreement groups that root cause explains).  The violation key is
# C40:<site>:<family> when the first disagreement is one of the expected groups, C40:<group>:<family> otherwise
# (so a NEW kind of disagreement in a probe family is never absorbed by a recorded finding).
PROBES = {
  "probe_adjacent_pins": ("equality_flex:rigid-edge-row", {"efc_equality_rows"}),
  "probe_moving_parent": ("flex_edges:J-layout-ancestor-dofs", {"flexedge_J"}),
  "probe_pinned_to_jointed_body": ("flex_edges:velocity-ancestor-dofs", {"flexedge_velocity", "flexedge_J"}),
  "probe_reversed_body_order": ("flex_edges:J-layout-body-order", {"flexedge_J"}),
  "probe_two_flexes_one_without_jacobian": ("flex_edges:J-row-not-allocated", {"flexedge_J"}),
  "probe_edge_damping": ("passive:edge-damping-ignored", {"qfrc_damper"}),
  "probe_edge_stiffness": ("passive:edge-stiffness-ignored", {"qfrc_spring"}),
  "probe_rope_geom_on_vertex_body": ("flex_geom_vertex:own-body-geom", {"contact_count"}),
  "probe_contact_cloth_big_sphere": ("flex_contact:coincident-contacts-merged", {"contact_duplicates_merged"}),
  "probe_contact_rope_sphere": ("flex_contact:1d-vertex-only", {"contact_count", "contact_dist", "contact_pos", "contact_duplicates_merged", "contact_kind"}),
  "probe_rope_vertex_on_sphere": ("flex_contact:1d-vertex-only", {"contact_count", "contact_dist", "contact_pos", "contact_duplicates_merged", "contact_kind"}),
}
# families of 1D flexes against geoms: a contact that MJWarp and MuJoCo both report (same dist and pos) but with
# opposite normals is one root cause whatever the family
ROPE_GEOM_FAMILIES = ("probe_contact_rope_sphere", "probe_rope_vertex_on_sphere")
PROBE_FAMILIES = list(PROBES)


# ---------------------------------------------------------------------------------------------
# flex resting with a corner in a TILTED plane (normals in all eight sign octants)
# ---------------------------------------------------------------------------------------------
OCTANTS = [(sx, sy, sz) for sx in (1, -1) for sy in (1, -1) for sz in (1, -1)]


def _tilted_xml(kind, ppos, normal, fmargin, gmargin, euler):
  plane = f'<geom name="plane" type="plane" size="2 2 .1" pos="{ppos[0]:.9f} {ppos[1]:.9f} {ppos[2]:.9f}" zaxis="{normal[0]:.9f} {normal[1]:.9f} {normal[2]:.9f}" margin="{gmargin}"/>'
  con = f'<contact selfcollide="none" internal="false" margin="{fmargin}"/>'
  eu = f'euler="{euler[0]:.4g} {euler[1]:.4g} {euler[2]:.4g}"'
  if kind == "cube":
    flex = f'<flexcomp name="f" type="grid" count="3 3 3" spacing=".1 .1 .1" pos="0 0 1" {eu} radius=".005" dim="3" mass="1">{con}<elasticity young="1e4" poisson="0.2" damping="0.01"/></flexcomp>'
  elif kind == "cube2":
    flex = f'<flexcomp name="f" type="grid" count="2 2 2" spacing=".15 .1 .2" pos="0 0 1" {eu} radius=".01" dim="3" mass="1">{con}<elasticity young="1e4" poisson="0.2" damping="0.01"/></flexcomp>'
  else:  # cloth, rotated out of every coordinate plane
    flex = f'<flexcomp name="f" type="grid" count="4 3 1" spacing=".1 .1 .1" pos="0 0 1" {eu} radius=".008" dim="2" mass="1">{con}<edge equality="true"/></flexcomp>'
  return _mj(f'<option timestep="0.002"/><worldbody>{plane}{flex}</worldbody>')


def tilted_scene(rng, kind, octant):
  """(xml, qpos, qvel, info): the deepest vertex sphere penetrates the plane by `depth` (or stays `-depth` away)."""
  import mujoco

  a = rng.uniform(0.25, 1.0, 3) * np.array(octant, dtype=float)
  if rng.random() < 0.25:
    a[int(rng.integers(0, 2))] = 0.0  # one zero component now and then
  n = a / np.linalg.norm(a)
  euler = rng.uniform(-50, 50, 3) if kind == "cloth" else rng.uniform(-15, 15, 3) * (rng.random() < 0.5)
  fmargin = float(rng.choice([0.0, 0.0, 0.005]))
  gmargin = float(rng.choice([0.0, 0.003]))
  depth = float(rng.uniform(0.002, 0.008)) if rng.random() < 0.8 else -float(rng.uniform(0.004, 0.02) + fmargin + gmargin)
  m0 = mujoco.MjModel.from_xml_string(_tilted_xml(kind, (0, 0, -50), (0, 0, 1), fmargin, gmargin, euler))
  d0 = mujoco.MjData(m0)
  _state(rng, m0, d0, 0.002, 0.05)
  mujoco.mj_kinematics(m0, d0)
  mujoco.mj_flex(m0, d0)
  radius = float(m0.flex_radius[0])
  low = float(np.min(d0.flexvert_xpos @ n))
  ppos = n * (low - radius + depth)
  xml = _tilted_xml(kind, ppos, n, fmargin, gmargin, euler)
  return xml, d0.qpos.copy(), d0.qvel.copy(), {"normal": n.tolist(), "depth": depth, "flex_margin": fmargin, "geom_margin": gmargin, "kind": kind}


def oracle_tilted(res, nper, nstep):
  """Contacts (count, dist, pos, normal), kinematics and a short trajectory vs MuJoCo C, nworld 1 and 2,
  for cube / box / rotated cloth flexes whose corner touches a plane with a normal in every sign octant."""
  import mujoco
  import warp as wp

  import mjcmp
  import mujoco_warp as mjw

  fails = []
  st = {"scenes": 0, "states": 0, "skipped_margin": 0, "with_contact": 0, "mixed_sign_normal": 0, "trajectories": 0}
  rng = np.random.default_rng(vlib.seed() + 4700)
  kinds = ["cube", "cloth", "cube2"]
  k = 0
  for oc in OCTANTS:
    for rep in range(nper):
      kind = kinds[k % 3]
      k += 1
      for attempt in range(6):
        xml, qpos, qvel, info = tilted_scene(rng, kind, oc)
        mjm = mujoco.MjModel.from_xml_string(xml)
        mjds = []
        for w in range(2):  # world 1: the same scene nudged a little
          mjd = mujoco.MjData(mjm)
          mjd.qpos[:] = qpos + (0.0005 * rng.standard_normal(mjm.nq) if w else 0.0)
          mjd.qvel[:] = qvel * (1.0 if w == 0 else -0.5)
          mujoco.mj_forward(mjm, mjd)
          mjds.append(mjd)
        if all(contact_margin_ok(mjm, x) for x in mjds):
          break
        st["skipped_margin"] += 1
      else:
        continue
      st["scenes"] += 1
      nn = np.array(info["normal"])
      st["mixed_sign_normal"] += int(np.any(nn > 1e-9) and np.any(nn < -1e-9))
      m = mjw.put_model(mjm)
      for nworld in (1, 2):
        d = mjw.put_data(mjm, mjds[0], nworld=nworld)
        if nworld == 2:
          q = d.qpos.numpy()
          q[1] = mjds[1].qpos
          v = d.qvel.numpy()
          v[1] = mjds[1].qvel
          wp.copy(d.qpos, wp.array(q, dtype=float))
          wp.copy(d.qvel, wp.array(v, dtype=float))
        d.flexedge_J.zero_()
        mjw.forward(m, d)
        for w in range(nworld):
          res.count()
          st["states"] += 1
          st["with_contact"] += int(mjds[w].ncon > 0)
          res.nontrivial(("tilted", kind, oc, nworld, w, int(mjds[w].ncon)))
          diffs = compare(mjm, mjds[w], m, d, w)
          if diffs:
            fails.append({"family": f"contact_tilted_plane_{kind}", "first": diffs[0][0], "diffs": [f"{g}: {t}" for g, t in diffs], "n_layout_violations": 0, "layout_hypothesis_violations": [],
                          "xml": xml, "qpos": mjds[w].qpos.tolist(), "qvel": mjds[w].qvel.tolist(), "nworld": nworld, "world": w, "scene": info})  # fmt: skip
        if nworld == 1 and nstep and not fails:
          # short trajectory: without the contact rows the corner keeps sinking (seeded change C40-1: 3e-4 after 5 steps);
          # float32 vs float64 over 5 steps of 2 ms stays below 2e-5 on the unchanged tree (measured, see evidence)
          ref = mujoco.MjData(mjm)
          ref.qpos[:] = mjds[0].qpos
          ref.qvel[:] = mjds[0].qvel
          for _ in range(nstep):
            mujoco.mj_step(mjm, ref)
            mjw.step(m, d)
          dq = float(np.max(np.abs(d.qpos.numpy()[0] - ref.qpos)))
          st["trajectories"] += 1
          st["max_traj_err"] = max(st.get("max_traj_err", 0.0), dq)
          res.count()
          if dq > 1e-4:
            fails.append({"family": f"contact_tilted_plane_{kind}", "first": "trajectory_qpos", "diffs": [f"trajectory_qpos: max |qpos - MuJoCo| after {nstep} steps = {dq:.3e}"], "n_layout_violations": 0,
                          "layout_hypothesis_violations": [], "xml": xml, "qpos": mjds[0].qpos.tolist(), "qvel": mjds[0].qvel.tolist(), "nworld": 1, "world": 0, "scene": info, "steps": nstep})  # fmt: skip
  res.extra.setdefault("oracle", {})["contact_tilted_plane"] = st
  return fails, st


def _dense(rownnz, rowadr, colind, J, nv):
  out = np.zeros((len(rownnz), nv))
  for r_ in range(len(rownnz)):
    for k in range(int(rownnz[r_])):
      out[r_, int(colind[rowadr[r_] + k])] += J[rowadr[r_] + k]
  return out


def layout_report(mjm):
  """The layout hypothesis of C40_row_with_model_colind_partial, evaluated on a model: for every edge
  with both vertex bodies >= 0, rownnz = dofnum(b1)+dofnum(b2) and colind = [dofs b1] ++ [dofs b2]."""
  bad = []
  for f in range(mjm.nflex):
    if mjm.flex_interp[f] != 0:
      continue
    va = mjm.flex_vertadr[f]
    for e in range(mjm.flex_edgeadr[f], mjm.flex_edgeadr[f] + mjm.flex_edgenum[f]):
      b1 = int(mjm.flex_vertbodyid[va + mjm.flex_edge[e, 0]])
      b2 = int(mjm.flex_vertbodyid[va + mjm.flex_edge[e, 1]])
      if b1 < 0 or b2 < 0:
        continue
      want = list(range(mjm.body_dofadr[b1], mjm.body_dofadr[b1] + mjm.body_dofnum[b1])) + list(range(mjm.body_dofadr[b2], mjm.body_dofadr[b2] + mjm.body_dofnum[b2]))
      ra, nz = int(mjm.flexedge_J_rowadr[e]), int(mjm.flexedge_J_rownnz[e])
      have = [int(x) for x in mjm.flexedge_J_colind.reshape(-1)[ra : ra + nz]]
      if have != want:
        bad.append({"edge": e, "b1": b1, "b2": b2, "kernel_columns": want, "model_columns": have})
  return bad


def compare(mjm, mjd, m, d, w=0):
  """Returns ordered list of (group, detail) disagreements between MJWarp world w and MuJoCo."""
  import mujoco

  import mjcmp

  out = []

  def chk(group, a, b, rtol, why=""):
    a = np.asarray(a, dtype=np.float64)
    b = np.asarray(b, dtype=np.float64)
    if a.shape != b.shape:
      out.append((group, f"shape {a.shape} vs {b.shape}"))
      return
    ok, err = mjcmp.cmp_arrays(a, b, rtol)
    if not ok:
      out.append((group, f"max abs err {err:.3e} (scale {float(np.max(np.abs(b))) if b.size else 0:.3e}, rtol {rtol})"))

  nv = mjm.nv
  # kinematics: float32 rounding of sums of O(1) terms; the repo's tests use atol 1e-5 .. 5e-4
  chk("flexvert_xpos", d.flexvert_xpos.numpy()[w], mjd.flexvert_xpos, 1e-5)
  if mjm.nflexedge:
    # MuJoCo leaves flexedge_length at 0 for interpolated flexes (no consumer); MJWarp fills it in
    comp = np.zeros(mjm.nflexedge, dtype=bool)
    for f in range(mjm.nflex):
      if mjm.flex_interp[f] == 0:
        comp[mjm.flex_edgeadr[f] : mjm.flex_edgeadr[f] + mjm.flex_edgenum[f]] = True
    chk("flexedge_length", d.flexedge_length.numpy()[w][comp], mjd.flexedge_length[comp], 1e-5)
    # MuJoCo leaves J / velocity at zero for flexes whose edges cannot generate forces (rigid, or no
    # edge equality / edge spring-damper / elasticity damping): nothing consumes them there, so they
    # are compared only on the other flexes
    live = np.zeros(mjm.nflexedge, dtype=bool)
    for f in range(mjm.nflex):
      uses = bool(mjm.flex_edgeequality[f]) or mjm.flex_edgedamping[f] != 0 or mjm.flex_edgestiffness[f] != 0 or mjm.flex_damping[f] != 0
      if uses and not mjm.flex_rigid[f] and mjm.flex_interp[f] == 0:
        live[mjm.flex_edgeadr[f] : mjm.flex_edgeadr[f] + mjm.flex_edgenum[f]] = True
    live &= ~mjm.flexedge_rigid.astype(bool)
    chk("flexedge_velocity", d.flexedge_velocity.numpy()[w][live], mjd.flexedge_velocity[live], 1e-4)
    Jc = _dense(mjm.flexedge_J_rownnz, mjm.flexedge_J_rowadr, mjm.flexedge_J_colind.reshape(-1), mjd.flexedge_J.reshape(-1), nv)
    Jw = _dense(m.flexedge_J_rownnz.numpy(), m.flexedge_J_rowadr.numpy(), m.flexedge_J_colind.numpy(), d.flexedge_J.numpy()[w].reshape(-1), nv)
    chk("flexedge_J", Jw[live], Jc[live], 1e-4)
  # passive forces: elasticity is k * (l^2 - l0^2) with k ~ 1e3..2e4 and l^2 - l0^2 a cancelling
  # difference of float32 squares (relative error ~1e-7 * l^2 / |l^2 - l0^2| ~ 1e-5), hence 1e-3 of
  # (1 + max force); the repo's own tests use an absolute 5e-4 on forces of order 1..10
  chk("qfrc_spring", d.qfrc_spring.numpy()[w], mjd.qfrc_spring, 1e-3)
  chk("qfrc_damper", d.qfrc_damper.numpy()[w], mjd.qfrc_damper, 1e-3)
  chk("qfrc_passive", d.qfrc_passive.numpy()[w], mjd.qfrc_passive, 1e-3)
  # constraint rows as multisets (type, id, pos, vel = J.qvel)
  nw = int(d.nefc.numpy()[w])
  tw, iw = d.efc.type.numpy()[w][:nw], d.efc.id.numpy()[w][:nw]
  pw, vw = d.efc.pos.numpy()[w][:nw], d.efc.vel.numpy()[w][:nw]
  eqw = tw == int(mujoco.mjtConstraint.mjCNSTR_EQUALITY)
  eqc = mjd.efc_type == int(mujoco.mjtConstraint.mjCNSTR_EQUALITY)
  if int(eqw.sum()) != int(eqc.sum()):
    out.append(("efc_equality_rows", f"{int(eqw.sum())} equality rows vs MuJoCo {int(eqc.sum())}"))
  else:
    kw = sorted(zip(iw[eqw].tolist(), np.round(pw[eqw], 4).tolist(), pw[eqw].tolist(), vw[eqw].tolist()))
    kc = sorted(zip(mjd.efc_id[eqc].tolist(), np.round(mjd.efc_pos[eqc], 4).tolist(), mjd.efc_pos[eqc].tolist(), mjd.efc_vel[eqc].tolist()))
    if [k[0] for k in kw] != [k[0] for k in kc]:
      out.append(("efc_equality_rows", "equality ids differ"))
    else:
      # sort by (id, pos): rows of one flex equality are told apart by their residual; the sort is
      # stable against float32 noise unless two residuals agree to 1e-4 (then compare as sorted sets)
      chk("efc_equality_pos", sorted(k[2] for k in kw), sorted(k[2] for k in kc), 1e-4)
      if not any(g == "efc_equality_pos" for g, _ in out):
        ow = np.argsort(np.array([k[2] for k in kw]), kind="stable")
        oc = np.argsort(np.array([k[2] for k in kc]), kind="stable")
        pc = np.array([k[2] for k in kc])[oc]
        if pc.size < 2 or np.min(np.diff(pc)) > 1e-4:
          chk("efc_equality_vel", np.array([k[3] for k in kw])[ow], np.array([k[3] for k in kc])[oc], 1e-3)
  # contacts: count and (dist, pos) multiset; states are generated with a margin from appearing/disappearing contacts
  na = int(d.nacon.numpy()[0])
  sel = d.contact.worldid.numpy()[:na] == w
  dw, xw = d.contact.dist.numpy()[:na][sel].astype(np.float64), d.contact.pos.numpy()[:na][sel].astype(np.float64)
  dc, xc = np.asarray(mjd.contact.dist, dtype=np.float64), np.asarray(mjd.contact.pos, dtype=np.float64).reshape(-1, 3)
  # contact normal = first row of the contact frame
  xw = np.concatenate([xw, d.contact.frame.numpy()[:na][sel][:, 0, :].astype(np.float64).reshape(-1, 3)], axis=1)
  xc = np.concatenate([xc, np.asarray(mjd.contact.frame, dtype=np.float64).reshape(-1, 9)[:, :3]], axis=1)
  # kind of the flex side: 1 = a flex VERTEX, 0 = a flex ELEMENT (or none): an element contact spreads its Jacobian
  # over the element's vertices, so equal geometry with different kinds still gives different rows
  xw = np.concatenate([xw, (np.max(d.contact.vert.numpy()[:na][sel].reshape(-1, 2), axis=1, initial=-1) >= 0).astype(np.float64).reshape(-1, 1)], axis=1)
  xc = np.concatenate([xc, (np.max(np.asarray(mjd.contact.vert).reshape(-1, 2), axis=1, initial=-1) >= 0).astype(np.float64).reshape(-1, 1)], axis=1)

  def canon(dd, xx):
    if len(dd) == 0:
      return np.zeros((0, 8))
    a = np.concatenate([dd[:, None], xx], axis=1)
    return a[np.lexsort((a[:, 3].round(3), a[:, 2].round(3), a[:, 1].round(3), a[:, 0].round(4)))]

  def merged(a):  # merge coincident contacts (same dist to 1e-4 and position to 1e-3)
    keep = []
    for r_ in a:
      if not any(abs(r_[0] - q[0]) < 1e-4 and np.linalg.norm(r_[1:4] - q[1:4]) < 1e-3 for q in keep):
        keep.append(r_)
    return np.array(keep).reshape(-1, 8)

  cw, cc = canon(dw, xw), canon(dc, xc)
  if len(cw) == len(cc):
    if len(cw):
      chk("contact_dist", cw[:, 0], cc[:, 0], 1e-4)
      chk("contact_pos", cw[:, 1:4], cc[:, 1:4], 2e-3)
      if not any(g in ("contact_dist", "contact_pos") for g, _ in out):  # same pairing: normals comparable
        chk("contact_normal", cw[:, 4:7], cc[:, 4:7], 1e-3)
        if not np.array_equal(cw[:, 7], cc[:, 7]):
          out.append(("contact_kind", f"same contact geometry, but {int(cc[:, 7].sum())} of MuJoCo's contacts are flex-vertex contacts (the others element contacts) vs {int(cw[:, 7].sum())} of MJWarp's"))
  else:
    mc = merged(cc)
    same = len(mc) == len(cw) and (len(cw) == 0 or (np.max(np.abs(mc[:, 0] - cw[:, 0])) < 2e-4 and np.max(np.abs(mc[:, 1:4] - cw[:, 1:4])) < 2e-3))
    if same:
      out.append(("contact_duplicates_merged", f"{len(cw)} contacts vs MuJoCo {len(cc)}; equal after merging MuJoCo's coincident contacts"))
      chk("contact_normal", cw[:, 4:7], mc[:, 4:7], 1e-3)
    else:
      out.append(("contact_count", f"{len(cw)} contacts vs MuJoCo {len(cc)} ({len(mc)} after merging coincident ones)"))
  # qacc: downstream summary (ill-conditioned with stiff elasticity: the repo's own multiflex test uses atol 5e-2)
  chk("qacc", d.qacc.numpy()[w], mjd.qacc, 5e-3)
  return out


def contact_margin_ok(mjm, mjd, eps=5e-4):
  """No contact is about to appear or disappear: re-run MuJoCo collision with margins +-eps."""
  import mujoco

  n0 = mjd.ncon
  for s in (+1.0, -1.0):
    m2 = mjm.__copy__()
    m2.geom_margin[:] = np.maximum(mjm.geom_margin + s * eps, 0) if s > 0 else mjm.geom_margin
    if mjm.nflex:
      m2.flex_margin[:] = mjm.flex_margin + s * eps
    d2 = mujoco.MjData(m2)
    d2.qpos[:] = mjd.qpos
    mujoco.mj_kinematics(m2, d2)
    mujoco.mj_comPos(m2, d2)
    mujoco.mj_flex(m2, d2)
    mujoco.mj_collision(m2, d2)
    if d2.ncon != n0:
      return False
  return True


def oracle(res, families, nmodels, nstates, probe):
  import mujoco

  import mujoco_warp as mjw

  fails = []
  stats = {}
  for fi_, fam in enumerate(families):
    rng = np.random.default_rng(vlib.seed() + 4100 + fi_ + (1000 if probe else 0))
    for k in range(nmodels):
      xml = _family(fam, rng)
      try:
        mjm = mujoco.MjModel.from_xml_string(xml)
      except Exception as e:  # generator outside MuJoCo's schema: machinery error, not a finding
        raise RuntimeError(f"family {fam}: MuJoCo rejected generated MJCF: {e}")
      try:
        m = mjw.put_model(mjm)
      except NotImplementedError as e:
        stats.setdefault(fam, {"models": 0, "states": 0, "rejected": 0, "skipped_margin": 0})["rejected"] += 1
        res.notes.append(f"{fam}: put_model rejects the model ({e})")
        continue
      st = stats.setdefault(fam, {"models": 0, "states": 0, "rejected": 0, "skipped_margin": 0})
      st["models"] += 1
      lay = layout_report(mjm)
      done = 0
      for s in range(4 * nstates):  # states too close to a contact appearing/disappearing are redrawn
        if done >= nstates:
          break
        mjd = mujoco.MjData(mjm)
        small = "contact" in fam or fam == "probe_rope_vertex_on_sphere"
        _state(rng, mjm, mjd, (0.002 if fam == "contact_cloth_small_geom" else 0.03) if small else 0.05, 0.1)
        mujoco.mj_forward(mjm, mjd)
        if (small or fam == "probe_rope_geom_on_vertex_body") and not contact_margin_ok(mjm, mjd):
          st["skipped_margin"] += 1
          continue
        done += 1
        d = mjw.put_data(mjm, mjd)
        d.flexedge_J.zero_()
        mjw.forward(m, d)
        res.count()
        st["states"] += 1
        res.nontrivial(("oracle", fam, int(mjm.nflexvert), int(mjm.nflexedge), int(mjm.nv), int(mjd.nefc), int(mjd.ncon)))
        diffs = compare(mjm, mjd, m, d)
        if diffs:
          fails.append({"family": fam, "first": diffs[0][0], "diffs": [f"{g}: {t}" for g, t in diffs], "layout_hypothesis_violations": lay[:3], "n_layout_violations": len(lay),
                        "xml": xml, "qpos": mjd.qpos.tolist(), "qvel": mjd.qvel.tolist()})  # fmt: skip
        elif lay and not probe:
          res.notes.append(f"{fam}: layout hypothesis fails on {len(lay)} edges but no disagreement was observed")
  res.extra.setdefault("oracle", {}).update(stats)
  return fails


def run(res):
  quick = res.tier == "quick"
  ok, trs, failing = propkit.prove(res, "Props/C40.v", gen_names=["T_flex"])
  trk = trs.get("T_flex")
  tr_ok = trk is not None and all(k in trk.kernels for k in REQUIRED_KERNELS)
  res.obligation("translate: smooth._flex_nodes/_flex_vertices/_flex_edges and collision_flex._flex_broadphase_bounds/_flex_broadphase_plane are inside the Gallina model", tr_ok, json.dumps(getattr(trk, "errors", {}))[:400])
  if trk is not None:
    res.extra["translation"] = {"kernels": sorted(trk.kernels), "not_translated_optional": getattr(trk, "optional_errors", {}), "rewrites": {k: fi.notes for k, fi in trk.kernels.items()}}
    # _flex_edges never reads the model's column indices (parameter present, unused): recorded for the reader of the theorems
    res.extra["flex_edges_reads_colind"] = ("flexedge_J_colind" in trk.kernels["_flex_edges"].body) if "_flex_edges" in trk.kernels else None
  sem_ok = search_loop_semantics(res)
  wit_ok = witness_replay(res)
  kbad = []
  if tr_ok:
    kbad = kvalidate(res, trk, list(KV_FIXTURES))
    res.obligation("kernel validation: translated flex kernels agree with traced launches of the real kernels", not kbad, f"{len(kbad)} disagreements")
  nm, ns = (2, 2) if quick else (12, 6)
  fails = oracle(res, BASE_FAMILIES, nm, ns, probe=False)
  pfails = oracle(res, PROBE_FAMILIES, nm, ns, probe=True)
  tfails, tst = oracle_tilted(res, 1 if quick else 6, 5)
  fails = fails + tfails
  res.obligation("tilted-plane oracle covered mixed-sign normals with contacts, nworld 1 and 2, and trajectories",
                 tst["mixed_sign_normal"] >= 4 and tst["with_contact"] >= 8 and tst["trajectories"] >= 4, json.dumps(tst))
  res.obligation("oracle ran on every family", all(v["states"] > 0 or v.get("rejected", 0) > 0 for v in res.extra["oracle"].values()), json.dumps(res.extra["oracle"]))
  # failing inputs that are NOT already recorded findings: only those can explain a broken proof / correspondence
  known = {k["key"] for k in vlib.load_known().get("findings", []) if k.get("property") == res.pid}
  seen = set()
  for f in fails + pfails:
    site, expected = PROBES.get(f["family"], (None, ()))
    key = f"C40:{site if f['first'] in expected else f['first']}:{f['family']}"
    if "contact_normal" in [x.split(":")[0] for x in f["diffs"]] and f["family"] in ROPE_GEOM_FAMILIES:
      key = "C40:flex_geom_vertex:normal-reversed"
    elif f["family"] in ROPE_GEOM_FAMILIES and f["first"] in expected:
      key = "C40:flex_contact:1d-vertex-only:probe_contact_rope_sphere"  # one documented deviation, one recorded key
    elif f["first"] == "contact_duplicates_merged" and site != "flex_contact:1d-vertex-only":
      # one root cause whatever the family: MJWarp merges coincident element contacts (documented in flex_test.py)
      key = "C40:flex_contact:coincident-contacts-merged"
    if key in seen:
      continue
    seen.add(key)
    res.violation(key, f"MJWarp disagrees with MuJoCo C on flex family {f['family']}: " + "; ".join(f["diffs"][:4]), f)
  new_input = bool(seen - known)
  if kbad and not new_input:
    res.violation("C40:translator-mismatch", "translated flex kernel disagrees with the traced real launch (model no longer tied to code)", kbad[:3], found_input=False)
  if (not ok or not tr_ok or not sem_ok or not wit_ok) and not new_input:
    propkit.broken_proof_violation(res, "C40 theorems over the regenerated flex kernels", failing or ("Gen/T_flex.v" if not tr_ok else "witness/semantics replay"))
  res.rule = "theorems on Gen/T_flex.v; kernel validation tol 2e-4; oracle rtol*(1+max): kinematics 1e-5, J/velocity 1e-4, forces 1e-3, qacc 5e-3"
  res.assumptions += [
    "float32 rounding is not modelled: theorems are over R; tolerances as in `rule`",
    "some flex owns every launched vertex/edge/node index (the launch grid is nflexvert/nflexedge/nflexnode); otherwise the real kernels read an uninitialised register",
    "flex contacts and flex constraint rows are allocated by the shared counters proved in C16 (Model/Alloc.v), not re-proved here",
    "elasticity, bending, flexstrain rows and flex collision geometry are tested against MuJoCo only",
  ]


def replay(res, path):
  import mujoco

  import mujoco_warp as mjw

  r = propkit.load_replay(path)["replay"]
  if isinstance(r, list) or "xml" not in r:
    print("replay: no concrete input in this file (proof/correspondence breakage); re-run the check")
    return 1
  mjm = mujoco.MjModel.from_xml_string(r["xml"])
  mjd = mujoco.MjData(mjm)
  mjd.qpos[:] = r["qpos"]
  mjd.qvel[:] = r["qvel"]
  mujoco.mj_forward(mjm, mjd)
  m = mjw.put_model(mjm)
  d = mjw.put_data(mjm, mjd)
  d.flexedge_J.zero_()
  mjw.forward(m, d)
  diffs = compare(mjm, mjd, m, d)
  for g, t in diffs:
    print(f"DISAGREE {g}: {t}")
  print("layout hypothesis violations:", len(layout_report(mjm)))
  if r.get("steps"):
    ref = mujoco.MjData(mjm)
    ref.qpos[:] = r["qpos"]
    ref.qvel[:] = r["qvel"]
    d = mjw.put_data(mjm, ref)
    for _ in range(int(r["steps"])):
      mujoco.mj_step(mjm, ref)
      mjw.step(m, d)
    dq = float(np.max(np.abs(d.qpos.numpy()[0] - ref.qpos)))
    print(f"trajectory: max |qpos - MuJoCo| after {r['steps']} steps = {dq:.3e}")
    if dq > 1e-4:
      diffs.append(("trajectory_qpos", dq))
  return 1 if diffs else 0
