"""C07 Sensors and energy agree with MuJoCo C.

proof     Props/C07.v over the REGENERATED translations Gen/K_sensor.v (sensor kernels after the
          source-to-source inlining of _write_scalar/_write_vector, bin/gens_sensor.py) and Gen/T_sensor.v
T         T-validation of the pure value functions, correspondence of the hand models that are not proved
          equal to a translation (cutoff_val vs the compiled _write_scalar/_write_vector, kinetic vs the tile
          kernel, energy_run vs the potential-energy launches, sensor_dim_of_type / adr-dim invariant vs
          compiled MuJoCo models, enum constants vs the mujoco enums)
K         kernel validation: REAL launches traced during mjw.forward on a sensor-rich model, re-executed by
          the translated kernels inside Coq (inlined _sensor_pos/_sensor_vel/_sensor_acc/_limit_* included)
oracle    mjw.forward vs mujoco.mj_forward sensordata for every supported sensor type x objtype/reftype,
          with and without cutoff, nworld=2 with different states, energy flag on/off, plus directed
          regression cases for the five defects found and since repaired in /repo (keys C07:<type>:<what>)."""

from __future__ import annotations

import json
import os
import sys

import numpy as np

import propkit
import vlib

MANIFEST = {
  "text": "proof: the cutoff rule (REAL clamp to [-c,c], POSITIVE min(x,c), c<=0 no-op, GEOMFROMTO and AXIS/QUATERNION exempt) and its equality with MuJoCo's apply_cutoff over R; the machine translations of the kernels _sensor_pos (all types but the 3 geom-distance ones), _sensor_vel and _tendon_actuator_force_cutoff EQUAL readable models built from that cutoff function, for every scalar instance; a _limit_pos/_vel/_frc task writes exactly the selected limit row's value through the cutoff function, and the selection is MuJoCo's (a joint-limit sensor reads only LIMIT_JOINT rows of its joint, a tendon-limit sensor only LIMIT_TENDON rows of its tendon); every write of a _sensor_pos/_sensor_vel task lies in its sensor's slot and slots of different sensors are disjoint under MuJoCo's adr/dim invariant; kinetic energy >= 0 for PSD M, gravitational potential = -sum m g.x from the translated energy kernels; closed forms of clock/jointpos/jointvel/gyro/velocimeter/magnetometer/framepos. The ~60 individual sensor formulas, contact/touch/tactile sensors, spring energy of ball/free joints and everything float32 are covered by kernel validation and the differential oracle only.",
  "note": "trusted: Coq kernel; bin/translate.py and the source-to-source step of bin/gens_sensor.py (inlining of the void writer functions, alias elimination, Coq-level lambda lifting) -- both validated on every run by re-executing traced real launches inside Coq; MuJoCo apply_cutoff transcribed by hand into Model/Sensor.v mj_cutoff (checked against the MuJoCo binary by the oracle); real-number axioms of Coq's Reals",
  "technique": "Rocq proof over kernels machine-translated from the source (T for kernels), translation validation on traced launches, differential oracle against MuJoCo C",
  "engine": "coq",
}

PROPS = "Props/C07.v"
TFUNCS = ["poly_potential", "quat_sub", "quat_to_vel", "inside_geom", "_transform_spatial", "mul_quat", "quat_inv", "upper_tri_index"]

# verdict used for kernels with exact comparisons against literal zero (cutoff > 0.0): agree when the plain
# binary64 run agrees; otherwise fall back to the near-tie rule of kv3 / tv3 (discard or disagree)
KVF = (
  "Definition kvF (tol : float) (f : Scalar float -> heapF) (expected : heapF) : nat :=\n"
  "  if heap_finite expected && heap_close tol (f ScalarF0) expected then 0%nat else kv3 tol f expected.\n"
)
TVF = (
  "Definition tvF (tol : float) (f : Scalar float -> list float) (exp : list float) : nat :=\n"
  "  if all_finite exp && fl_close tol (f ScalarF0) exp then 0%nat else tv3 tol f exp.\n"
)


# --------------------------------------------------------------------------------------------
# models
# --------------------------------------------------------------------------------------------
# joints 0,1 (free, hf) are unlimited and tendons are 0,1: joint-limit and tendon-limit rows never share
# an id here (the id collision defect has its own directed case)
BASE = """
<mujoco>
  <compiler angle="radian"/>
  <option gravity="-0.5 0.3 -9.0" magnetic="0.1 -0.4 0.3" timestep="0.002"{integrator}>
    <flag energy="{energy}"/>
  </option>
  <worldbody>
    <geom name="floor" type="plane" size="5 5 .01"/>
    <camera name="camw" pos="0 -2 1" xyaxes="1 0 0 0 0.5 1" resolution="64 48"/>
    <site name="sitew" pos=".3 .2 .5" size=".15"/>
    <body name="bf" pos="1 0 .095">
      <freejoint name="free"/>
      <geom name="gf0" type="sphere" size=".1" pos=".12 0 0"/>
      <geom name="gf1" type="sphere" size=".1" pos="-.12 .05 0"/>
      <geom name="gf2" type="capsule" size=".1 .05" pos="0 -.15 0" quat=".7 .7 0 0"/>
      <site name="sf" type="box" size=".3 .3 .15"/>
      <site name="sf2" type="sphere" size=".15" pos=".12 0 -.05"/>
      <camera name="camf" pos="0 0 .1"/>
      <body name="bf1" pos="0 0 .25">
        <joint name="hf" type="hinge" axis="1 0 0" stiffness="1 2 0"/>
        <geom name="gf3" type="sphere" size=".05" pos="0 .1 0"/>
        <site name="sf3" pos="0 .1 0"/>
      </body>
    </body>
    <body name="b0" pos="0.1 0.2 0.8" quat=".9 .1 .2 .3">
      <joint name="slide" type="slide" axis="1 .2 0" stiffness="3 10 5" springref=".1" limited="true" range="-.2 .2" margin=".05"/>
      <geom name="g0" type="sphere" size=".1" pos=".05 0 0" contype="0" conaffinity="0"/>
      <geom name="g0b" type="capsule" size=".05 .1" pos="0 .25 0" contype="0" conaffinity="0"/>
      <site name="s0" pos=".1 .1 0" quat=".8 .2 .1 .3" size=".12"/>
      <camera name="cam0" pos="0 0 .2" quat=".9 .1 0 .2" resolution="32 32" sensorsize="0.01 0.01" focal="0.02 0.02"/>
      <body name="b1" pos=".35 0 .1">
        <joint name="hinge" type="hinge" axis="0 1 .3" stiffness="2 -6 4" springref="-.2" limited="true" range="-.5 .5" margin=".1"/>
        <geom name="g1" type="box" size=".1 .05 .07" pos="0.1 0 0" quat=".9 .2 0 .1" contype="0" conaffinity="0"/>
        <site name="s1" type="box" size=".3 .3 .3" pos=".05 0 0" quat=".7 .1 .5 .2"/>
        <body name="b2" pos=".3 .1 0">
          <joint name="ball" type="ball" stiffness="1.5 3 2" limited="true" range="0 .5" margin=".2"/>
          <geom name="g2" type="capsule" size=".04 .12" pos="0 0 .1" contype="0" conaffinity="0"/>
          <geom name="g2b" type="sphere" size=".06" pos=".1 .1 0" contype="0" conaffinity="0"/>
          <site name="s2" type="ellipsoid" size=".25 .2 .3" pos="0 .05 .05"/>
          <camera name="cam2" pos=".1 0 0" quat=".6 .3 .1 .2"/>
        </body>
      </body>
    </body>
  </worldbody>
  <tendon>
    <fixed name="tfix" stiffness="2 30 10" springlength="0.02 0.12" limited="true" range="-.05 .05" margin=".03">
      <joint joint="slide" coef="0.8"/>
      <joint joint="hinge" coef="-0.5"/>
    </fixed>
    <spatial name="tspat" stiffness="4 -20 15" springlength="0.42 0.5" limited="true" range="0 .6" margin=".3">
      <site site="sitew"/>
      <site site="s1"/>
    </spatial>
  </tendon>
  <actuator>
    <motor name="aslide" joint="slide" gear="2"/>
    <position name="ahinge" joint="hinge" kp="5"/>
    <motor name="atfix" tendon="tfix" gear="1.5"/>
    <motor name="atfix2" tendon="tfix" gear="-.7"/>
    <motor name="atspat" tendon="tspat"/>
    <motor name="aball" joint="ball" gear=".3 .2 -.4 0 0 0"/>
  </actuator>
  <sensor>
{sensors}
  </sensor>
</mujoco>
"""

POST_CUTOFF = ("BALLQUAT", "FRAMEXAXIS", "FRAMEYAXIS", "FRAMEZAXIS", "FRAMEQUAT")
FRAME_OBJ = [("body", "b2"), ("xbody", "b2"), ("geom", "g2"), ("site", "s2"), ("camera", "cam2"), ("body", "bf"), ("site", "sf")]
FRAME_REF = [None, ("body", "b0"), ("xbody", "b1"), ("geom", "g0b"), ("site", "s0"), ("camera", "cam0"), ("camera", "camw"), ("body", "bf1")]
CANCELLING = ("FORCE", "TORQUE", "ACCELEROMETER", "FRAMELINACC", "FRAMEANGACC")
CONTACT_DEPENDENT = ("TOUCH", "CONTACT", "FORCE", "TORQUE", "ACCELEROMETER", "FRAMELINACC", "FRAMEANGACC", "JOINTLIMITFRC", "TENDONLIMITFRC")


def sensor_specs(small=False):
  """[(mjtSensor name without prefix, xml element without cutoff, cutoffs to try | None)]"""
  S = []

  def add(tp, xml, cut=()):
    S.append((tp, xml, cut))

  add("MAGNETOMETER", '<magnetometer site="s0"/>', (0.2,))
  add("MAGNETOMETER", '<magnetometer site="sf"/>')
  add("CAMPROJECTION", '<camprojection camera="camw" site="s2"/>', (30.0,))
  add("CAMPROJECTION", '<camprojection camera="cam0" site="sitew"/>', (10.0,))
  add("RANGEFINDER", '<rangefinder site="s0"/>', (0.3,))
  add("RANGEFINDER", '<rangefinder site="sf3"/>', (0.1,))
  add("RANGEFINDER", '<rangefinder site="sitew"/>')
  for j in ("slide", "hinge", "hf"):
    add("JOINTPOS", f'<jointpos joint="{j}"/>', (0.1,))
    add("JOINTVEL", f'<jointvel joint="{j}"/>', (0.3,))
    add("JOINTACTFRC", f'<jointactuatorfrc joint="{j}"/>', (0.2,))
  for t in ("tfix", "tspat"):
    add("TENDONPOS", f'<tendonpos tendon="{t}"/>', (0.1,))
    add("TENDONVEL", f'<tendonvel tendon="{t}"/>', (0.1,))
    add("TENDONLIMITPOS", f'<tendonlimitpos tendon="{t}"/>', (0.01,))
    add("TENDONLIMITVEL", f'<tendonlimitvel tendon="{t}"/>', (0.05,))
    add("TENDONLIMITFRC", f'<tendonlimitfrc tendon="{t}"/>', (0.5,))
    add("TENDONACTFRC", f'<tendonactuatorfrc tendon="{t}"/>', (0.1,))
  for a in ("aslide", "ahinge", "atfix", "atspat", "aball"):
    add("ACTUATORPOS", f'<actuatorpos actuator="{a}"/>', (0.1,))
    add("ACTUATORVEL", f'<actuatorvel actuator="{a}"/>', (0.1,))
    add("ACTUATORFRC", f'<actuatorfrc actuator="{a}"/>', (0.2,))
  add("BALLQUAT", '<ballquat joint="ball"/>', (0.5,))
  add("BALLANGVEL", '<ballangvel joint="ball"/>', (0.3,))
  for j in ("slide", "hinge", "ball"):
    add("JOINTLIMITPOS", f'<jointlimitpos joint="{j}"/>', (0.02,))
    add("JOINTLIMITVEL", f'<jointlimitvel joint="{j}"/>', (0.1,))
    add("JOINTLIMITFRC", f'<jointlimitfrc joint="{j}"/>', (1.0,))
  fobj = FRAME_OBJ[:3] if small else FRAME_OBJ
  fref = FRAME_REF[:3] if small else FRAME_REF
  for el, tp in (("framepos", "FRAMEPOS"), ("framexaxis", "FRAMEXAXIS"), ("frameyaxis", "FRAMEYAXIS"), ("framezaxis", "FRAMEZAXIS"),
                 ("framequat", "FRAMEQUAT"), ("framelinvel", "FRAMELINVEL"), ("frameangvel", "FRAMEANGVEL")):  # fmt: skip
    for k, (ot, on) in enumerate(fobj):
      for l, ref in enumerate(fref):
        r = "" if ref is None else f' reftype="{ref[0]}" refname="{ref[1]}"'
        add(tp, f'<{el} objtype="{ot}" objname="{on}"{r}/>', (0.3,) if (k + l) % 5 == 0 else ())
  for el, tp in (("framelinacc", "FRAMELINACC"), ("frameangacc", "FRAMEANGACC")):
    for ot, on in fobj:
      add(tp, f'<{el} objtype="{ot}" objname="{on}"/>', (2.0,))
  for b in ("b0", "b2", "bf", "world"):
    add("SUBTREECOM", f'<subtreecom body="{b}"/>', (0.5,))
    add("SUBTREELINVEL", f'<subtreelinvel body="{b}"/>', (0.2,))
    add("SUBTREEANGMOM", f'<subtreeangmom body="{b}"/>', (0.01,))
  pairs = [('geom1="g0" geom2="g2b"', 2.0), ('geom1="g2b" geom2="g0"', 2.0), ('geom1="g0b" geom2="g2b"', 2.0), ('geom1="g1" geom2="gf0"', 3.0),
           ('body1="b0" body2="b2"', 2.0), ('geom1="gf1" body2="b2"', 3.0), ('body1="bf1" geom2="g0"', 3.0), ('geom1="g0" geom2="g2b"', 0.05),
           ('geom1="gf0" geom2="floor"', 1.0), ('geom1="floor" geom2="gf2"', 1.0), ('geom1="g0b" geom2="g2"', 2.0)]  # fmt: skip
  for el, tp in (("distance", "GEOMDIST"), ("normal", "GEOMNORMAL"), ("fromto", "GEOMFROMTO")):
    for p, c in pairs[:4] if small else pairs:
      S.append((tp, f'<{el} {p} cutoff="{c}"/>', None))  # here the cutoff is part of the definition
  for ot, on in (("body", "b2"), ("xbody", "b2"), ("geom", "g2b"), ("site", "sf3"), ("camera", "cam2"), ("geom", "g1"), ("body", "bf1")):
    for site in ("s1", "s2", "sf", "sitew"):
      add("INSIDESITE", f'<insidesite objtype="{ot}" objname="{on}" site="{site}"/>', (0.5,) if site == "s1" else ())
  add("E_POTENTIAL", "<e_potential/>", (1.0,))
  add("E_KINETIC", "<e_kinetic/>", (0.01,))
  add("CLOCK", "<clock/>", (0.001,))
  for s in ("s0", "s2", "sf", "sf3"):
    add("VELOCIMETER", f'<velocimeter site="{s}"/>', (0.2,))
    add("GYRO", f'<gyro site="{s}"/>', (0.2,))
    add("ACCELEROMETER", f'<accelerometer site="{s}"/>', (3.0,))
    add("FORCE", f'<force site="{s}"/>', (1.0,))
    add("TORQUE", f'<torque site="{s}"/>', (0.1,))
  for s in ("sf", "sf2", "s1"):
    add("TOUCH", f'<touch site="{s}"/>', (2.0,))
  datas = ("found", "force dist normal", "torque pos tangent", "found force torque dist pos normal tangent")
  k = 0
  for sel in ("", 'geom1="floor"', 'geom2="gf0"', 'geom1="gf1" geom2="floor"', 'body1="bf"', 'body1="world" body2="bf"', 'subtree1="bf"', 'site="sf2"', 'site="sf" body2="world"'):  # fmt: skip
    for red in (None, "mindist", "maxforce", "netforce"):
      data = datas[k % 4]
      num = (1, 3)[k % 2]
      k += 1
      r = "" if red is None else f' reduce="{red}"'
      add("CONTACT", f'<contact {sel} num="{num}"{r} data="{data}"/>', (0.5,) if k % 3 == 0 else ())
  return S


def build_xml(energy=True, integrator=None, specs=None):
  specs = specs if specs is not None else sensor_specs()
  lines, meta = [], []  # meta: (type, xml, cutoff | "def", set-after-compile)
  for tp, xml, cuts in specs:
    lines.append("    " + xml)
    if cuts is None:
      meta.append((tp, xml, "def", False))
      continue
    meta.append((tp, xml, 0.0, False))
    for c in cuts:
      if tp in POST_CUTOFF:  # the compiler rejects a cutoff on axis/quaternion data: set it after compilation
        lines.append("    " + xml)
        meta.append((tp, xml, c, True))
      else:
        x = xml.replace("/>", f' cutoff="{c}"/>')
        lines.append("    " + x)
        meta.append((tp, x, c, False))
  integ = "" if integrator is None else f' integrator="{integrator}"'
  return BASE.format(energy="enable" if energy else "disable", integrator=integ, sensors="\n".join(lines)), meta


def compile_model(energy=True, specs=None):
  import mujoco

  xml, meta = build_xml(energy=energy, specs=specs)
  m = mujoco.MjModel.from_xml_string(xml)
  assert m.nsensor == len(meta)
  for i, (tp, _, c, post) in enumerate(meta):
    assert mujoco.mjtSensor(m.sensor_type[i]).name == "mjSENS_" + tp
    if post:
      m.sensor_cutoff[i] = c
  return xml, meta, m


def rand_state(rng, m, d, contact=True):
  """State of the BASE model: joints inside/outside their limits, free body resting on (or above) the floor."""
  import mujoco

  mujoco.mj_resetData(m, d)
  q = d.qpos
  q[0:3] = [1 + rng.uniform(-0.1, 0.1), rng.uniform(-0.1, 0.1), 0.095 + (rng.uniform(-0.004, 0.003) if contact else rng.uniform(0.05, 0.2))]
  yaw, tilt = rng.uniform(-3, 3), rng.uniform(-0.01, 0.01)
  q[3:7] = [np.cos(yaw / 2), tilt, 0, np.sin(yaw / 2)]
  q[3:7] /= np.linalg.norm(q[3:7])
  q[7] = rng.uniform(-0.5, 0.5)  # hf
  q[8] = rng.uniform(-0.25, 0.25)  # slide (range +-.2, margin .05)
  q[9] = rng.uniform(-0.65, 0.65)  # hinge (range +-.5, margin .1)
  b = rng.normal(size=4)
  b[0] += 2.0
  q[10:14] = b / np.linalg.norm(b)
  d.qvel[:] = rng.normal(size=m.nv) * 0.5
  d.qvel[0:3] *= 0.1
  d.ctrl[:] = rng.normal(size=m.nu)
  d.time = rng.uniform(0, 2)
  d.qpos[:] = d.qpos.astype(np.float32)
  d.qvel[:] = d.qvel.astype(np.float32)
  d.ctrl[:] = d.ctrl.astype(np.float32)
  d.time = float(np.float32(d.time))


def put_states(mjw, wp, m, ds, **kw):
  mm = mjw.put_model(m)
  dd = mjw.put_data(m, ds[0], nworld=len(ds), **kw)
  for name in ("qpos", "qvel", "ctrl"):
    arr = np.stack([np.asarray(getattr(d, name)) for d in ds]).astype(np.float32)
    if arr.size:
      wp.copy(getattr(dd, name), wp.array(arr))
  wp.copy(dd.time, wp.array(np.array([d.time for d in ds], dtype=np.float32)))
  return mm, dd


# --------------------------------------------------------------------------------------------
# constants, layout
# --------------------------------------------------------------------------------------------
def check_constants(res):
  """The integer literals of Model/Sensor.v and Props against the mujoco enums."""
  import mujoco

  S, O, C, D = mujoco.mjtSensor, mujoco.mjtObj, mujoco.mjtConstraint, mujoco.mjtDataType
  want = {
    2: S.mjSENS_VELOCIMETER, 3: S.mjSENS_GYRO, 6: S.mjSENS_MAGNETOMETER, 7: S.mjSENS_RANGEFINDER, 8: S.mjSENS_CAMPROJECTION,
    9: S.mjSENS_JOINTPOS, 10: S.mjSENS_JOINTVEL, 11: S.mjSENS_TENDONPOS, 12: S.mjSENS_TENDONVEL, 13: S.mjSENS_ACTUATORPOS,
    14: S.mjSENS_ACTUATORVEL, 18: S.mjSENS_BALLQUAT, 19: S.mjSENS_BALLANGVEL, 20: S.mjSENS_JOINTLIMITPOS, 21: S.mjSENS_JOINTLIMITVEL,
    22: S.mjSENS_JOINTLIMITFRC, 23: S.mjSENS_TENDONLIMITPOS, 24: S.mjSENS_TENDONLIMITVEL, 25: S.mjSENS_TENDONLIMITFRC,
    26: S.mjSENS_FRAMEPOS, 27: S.mjSENS_FRAMEQUAT, 28: S.mjSENS_FRAMEXAXIS, 29: S.mjSENS_FRAMEYAXIS, 30: S.mjSENS_FRAMEZAXIS,
    31: S.mjSENS_FRAMELINVEL, 32: S.mjSENS_FRAMEANGVEL, 35: S.mjSENS_SUBTREECOM, 36: S.mjSENS_SUBTREELINVEL, 37: S.mjSENS_SUBTREEANGMOM,
    38: S.mjSENS_INSIDESITE, 39: S.mjSENS_GEOMDIST, 40: S.mjSENS_GEOMNORMAL, 41: S.mjSENS_GEOMFROMTO, 43: S.mjSENS_E_POTENTIAL,
    44: S.mjSENS_E_KINETIC, 45: S.mjSENS_CLOCK,
  }  # fmt: skip
  bad = [f"{v.name}={int(v)}!={k}" for k, v in want.items() if int(v) != k]
  for k, v in ((1, O.mjOBJ_BODY), (2, O.mjOBJ_XBODY), (5, O.mjOBJ_GEOM), (6, O.mjOBJ_SITE), (7, O.mjOBJ_CAMERA), (3, C.mjCNSTR_LIMIT_JOINT),
               (4, C.mjCNSTR_LIMIT_TENDON), (0, D.mjDATATYPE_REAL), (1, D.mjDATATYPE_POSITIVE)):  # fmt: skip
    if int(v) != k:
      bad.append(f"{v.name}={int(v)}!={k}")
  res.count(len(want) + 9)
  res.obligation("enum literals of Model/Sensor.v equal the mujoco enums", not bad, "; ".join(bad))
  return bad


def check_layout(res, models_):
  """sensor_dim_of_type and the adr/dim invariant on compiled MuJoCo models (inside Coq)."""
  import tvalid

  lines = []
  for m in models_:
    tps = [int(t) for t in m.sensor_type]
    idx = [i for i, t in enumerate(tps) if t in TABLE_TYPES]
    lines.append(f"tvz (map sensor_dim_of_type {vlib.zlist([tps[i] for i in idx])}) {vlib.zlist([int(m.sensor_dim[i]) for i in idx])}")
    adr = f"(fun i => lk {vlib.zlist(m.sensor_adr)} 0%Z i)"
    dim = f"(fun i => lk {vlib.zlist(m.sensor_dim)} 0%Z i)"
    lines.append(f"tvz [if adr_dim_check {m.nsensor}%nat 0%Z {adr} {dim} then 1%Z else 0%Z; {adr} 0%Z] [1; 0]%Z")
    res.nontrivial(("layout", m.nsensor, m.nsensordata))
  v = tvalid.run_cases("C07lay", ["Base.Kernel", "Base.KernelF", "Gen.K_sensor", "Model.Sensor"], lines)
  res.count(len(lines))
  ok = all(x == 0 for x in v)
  res.obligation("sensor_dim_of_type and adr/dim invariant hold on compiled MuJoCo models", ok, f"verdicts {v}")
  return [] if ok else [{"what": "layout", "verdicts": v}]


TABLE_TYPES = (2, 3, 6, 7, 8, 9, 10, 11, 12, 13, 14, 18, 19, 20, 21, 22, 23, 24, 25, 26, 27, 28, 29, 30, 31, 32, 35, 36, 37, 38, 39, 40, 41, 43, 44, 45)


# --------------------------------------------------------------------------------------------
# T-validation and model correspondences
# --------------------------------------------------------------------------------------------
def tvalidate(res, tr, n):
  import tvalid

  tv = tvalid.TValid("C07", tr, "Gen.T_sensor")
  for f in TFUNCS:
    if f in tv.sigs:
      tv.add(f, tol=2e-4)
  bad, per = tv.run(res, n_per_fn=n)
  return bad


WRAP_SRC = '''import warp as wp
import mujoco_warp._src.sensor as SM


@wp.kernel
def k_write_scalar(stype: wp.array[int], dtype: wp.array[int], adr: wp.array[int], cut: wp.array[float], x: wp.array[float], out: wp.array2d[float]):
  i = wp.tid()
  SM._write_scalar(stype, dtype, adr, cut, i, x[i], out[i])


@wp.kernel
def k_write_vector(stype: wp.array[int], dtype: wp.array[int], adr: wp.array[int], cut: wp.array[float], x: wp.array[wp.vec3], out: wp.array2d[float]):
  i = wp.tid()
  SM._write_vector(stype, dtype, adr, cut, i, 3, x[i], out[i])
'''


def cutoff_correspondence(res, n):
  """cutoff_val (Model/Sensor.v) against the compiled _write_scalar / _write_vector."""
  import importlib

  import tvalid
  import warp as wp

  os.makedirs(tvalid.WRAP_DIR, exist_ok=True)
  vlib.write_if_changed(os.path.join(tvalid.WRAP_DIR, "vw_C07cut.py"), WRAP_SRC)
  if tvalid.WRAP_DIR not in sys.path:
    sys.path.insert(0, tvalid.WRAP_DIR)
  W = importlib.import_module("vw_C07cut")
  rng = np.random.default_rng(vlib.seed() + 71)
  stype = rng.choice([41, 9, 0, 26, 42, 39], n).astype(np.int32)
  dtype = rng.choice([0, 1, 2, 3], n, p=[0.4, 0.4, 0.1, 0.1]).astype(np.int32)
  adr = rng.integers(0, 3, n).astype(np.int32)
  cut = rng.choice([0.0, -1.0, 0.5, 2.0, 1e-3], n).astype(np.float32)
  x = (rng.normal(size=n) * 10.0 ** rng.uniform(-3, 1, n)).astype(np.float32)
  x[rng.random(n) < 0.1] = 0.0
  x3 = (rng.normal(size=(n, 3)) * (10.0 ** rng.uniform(-3, 1, n))[:, None]).astype(np.float32)
  SENT = np.float32(123.25)
  lines, metas, bad = [], [], []
  for which in ("scalar", "vector"):
    out = wp.array(np.full((n, 8), SENT, dtype=np.float32))
    args = [wp.array(stype), wp.array(dtype), wp.array(adr), wp.array(cut)]
    if which == "scalar":
      wp.launch(W.k_write_scalar, dim=n, inputs=args + [wp.array(x)], outputs=[out])
    else:
      wp.launch(W.k_write_vector, dim=n, inputs=args + [wp.array(x3, dtype=wp.vec3)], outputs=[out])
    wp.synchronize()
    o = out.numpy()
    for i in range(n):
      k = 1 if which == "scalar" else 3
      a = int(adr[i])
      untouched = np.delete(o[i], np.arange(a, a + k))
      if not np.all(untouched == SENT):  # a write outside [adr, adr+dim)
        bad.append({"which": which, "i": i, "row": o[i].tolist()})
      vals = [x[i]] if which == "scalar" else list(x3[i])
      model = "; ".join(f"cutoff_val ({int(stype[i])})%Z ({int(dtype[i])})%Z {vlib.fhex(cut[i])} {vlib.fhex(v)}" for v in vals)
      lines.append(f"tvF {vlib.fhex(1e-6)} (fun Sc => [{model}]) {vlib.flist(o[i, a : a + k].astype(np.float64))}")
      metas.append((which, int(stype[i]), int(dtype[i]), float(cut[i]), [float(v) for v in vals], o[i, a : a + k].tolist()))
  v = tvalid.run_cases("C07cut", ["Gen.K_sensor", "Model.Sensor"], lines, extra_defs=TVF)
  res.count(len(lines))
  for mt, vv in zip(metas, v):
    if vv == 0:
      res.nontrivial(("cut", mt[0], mt[1], mt[2], mt[3] > 0))
    if vv == 2:
      bad.append({"case": mt})
  res.extra["cutoff_correspondence"] = {"agree": v.count(0), "discarded": v.count(1), "disagree": v.count(2)}
  res.sample({"kind": "cutoff_val vs compiled _write_scalar", "stype,dtype,cutoff,x,out": metas[0][1:]})
  res.obligation("correspondence cutoff_val / write slots vs compiled _write_scalar and _write_vector", not bad, f"{len(bad)} disagreements of {len(lines)}")
  return bad


def _coq_args(fi, args, shapes_from):
  """Gallina arguments of a translated kernel for read-only numpy arrays (kvalid's literal encoders)."""
  import kvalid

  nt = fi.ntid
  out = []
  for p, t in zip(fi.argnames[nt:-1], fi.argtypes[nt:-1]):
    out.append(kvalid._static_fun(args[p], t[1], t[2]) if t[0] == "A" else kvalid._lit(args[p], t))
  shapes = [f"({int(np.asarray(shapes_from[r]).shape[k])})%Z" for r, k in fi.shape_params]
  return out, shapes


def energy_correspondence(res, trT, states):
  """energy_run over the translated potential-energy kernels vs the real launches (traced during
  mjw.energy_pos), and `kinetic` vs the real tile kernel."""
  import ktrace
  import tvalid
  import warp as wp

  import mujoco_warp as mjw
  from mujoco_warp._src import sensor as SM
  from mujoco_warp._src import support

  names = ["_energy_pos_zero", "_energy_pos_gravity", "_energy_pos_passive_joint", "_energy_pos_passive_tendon"]
  missing = [k for k in names if k not in trT.kernels]
  if missing:
    res.obligation("translate energy kernels", False, str(missing))
    return [{"missing": missing}]
  wanted = {"mujoco_warp._src.sensor." + k: trT.kernels[k] for k in names}
  lines, metas = [], []
  for m, ds in states:
    mm, dd = put_states(mjw, wp, m, ds, nconmax=64, njmax=128)
    mjw.forward(mm, dd)
    dd.energy.fill_(0.5)  # arbitrary start so that the zeroing of component 0 only is visible
    with ktrace.Tracer(wanted, max_elems=20000, max_tasks=2000, per_kernel=1) as t:
      SM.energy_pos(mm, dd)
    for c in t.cases:
      fi = c["fi"]
      call, shapes = _coq_args(fi, c["args"], c["args"])
      dims = c["dim"] if isinstance(c["dim"], (tuple, list)) else (c["dim"],)
      for w in range(int(dims[0])):
        tids = [(w,)] if len(dims) == 1 else [(w, j) for j in range(int(dims[1]))]
        tasks = " ++ ".join(f"({fi.coqname} {' '.join(f'({i})%Z' for i in tid)} {' '.join(call)} (fun _ => 0%Z) {' '.join(shapes)})" for tid in tids) or "nil"
        e0 = c["args"]["energy_out"][w]
        e1 = c["after"]["energy_out"][w]
        lines.append(
          f"tvF {vlib.fhex(2e-4)} (fun Sc => let e := energy_run ({w})%Z ({vlib.fhex(e0[0])}, {vlib.fhex(e0[1])}) ({tasks}) in [fst e; snd e]) {vlib.flist(np.asarray(e1, dtype=np.float64))}"
        )
        metas.append((c["qual"].split(".")[-1], w, [float(x) for x in e0], [float(x) for x in e1]))
        res.nontrivial(("energy_pos", metas[-1][0], m.nbody, w, float(e1[0])))
    # kinetic: the tile kernel on M qvel computed by support.mul_m
    mv = wp.zeros((dd.nworld, m.nv), dtype=float)
    support.mul_m(mm, dd, mv, dd.qvel)
    dd.energy.fill_(0.25)
    wp.launch_tiled(SM._energy_vel_kinetic(m.nv), dim=dd.nworld, inputs=[dd.qvel, mv], outputs=[dd.energy], block_dim=mm.block_dim.energy_vel_kinetic)
    wp.synchronize()
    qv, mvn, en = dd.qvel.numpy(), mv.numpy(), dd.energy.numpy()
    for w in range(dd.nworld):
      lines.append(f"tvF {vlib.fhex(2e-4)} (fun Sc => [kinetic {vlib.flist(qv[w].astype(np.float64))} {vlib.flist(mvn[w].astype(np.float64))}; {vlib.fhex(0.25)}]) {vlib.flist([float(en[w][1]), float(en[w][0])])}")
      metas.append(("kinetic", w, qv[w].tolist(), [float(en[w][1])]))
      res.nontrivial(("kinetic", m.nv, w, float(en[w][1])))
  v = tvalid.run_cases("C07en", ["Base.Kernel", "Base.KernelF", "Gen.T_sensor", "Model.Sensor"], lines, chunk=24, extra_defs=[TVF if i % 24 == 0 else "" for i in range(len(lines))])
  res.count(len(lines))
  bad = [{"kernel": mt[0], "world": mt[1], "before": mt[2], "after": mt[3]} for mt, vv in zip(metas, v) if vv == 2]
  res.extra["energy_correspondence"] = {"agree": v.count(0), "discarded": v.count(1), "disagree": v.count(2)}
  if metas:
    res.sample({"kind": "energy_run over translated kernels vs real launch", "kernel": metas[0][0], "before": metas[0][2], "after": metas[0][3]})
  res.obligation("correspondence energy_run (translated energy kernels) and kinetic vs the real launches", not bad and v.count(0) > 0, f"verdicts agree/discard/disagree {v.count(0)}/{v.count(1)}/{v.count(2)}")
  return bad


# --------------------------------------------------------------------------------------------
# kernel validation on traced real launches
# --------------------------------------------------------------------------------------------
TRACE_SENSORS = """
    <magnetometer site="s0" cutoff="0.2"/>
    <camprojection camera="camw" site="s1"/>
    <rangefinder site="s0"/>
    <jointpos joint="slide" cutoff="0.05"/>
    <tendonpos tendon="tfix"/>
    <actuatorpos actuator="aslide"/>
    <ballquat joint="ball"/>
    <jointlimitpos joint="slide"/>
    <jointlimitpos joint="ball" cutoff="0.05"/>
    <tendonlimitpos tendon="tspat" cutoff="0.01"/>
    <framepos objtype="body" objname="b1" reftype="site" refname="s0" cutoff="0.1"/>
    <framepos objtype="xbody" objname="bf"/>
    <framexaxis objtype="geom" objname="g1" reftype="camera" refname="cam0"/>
    <frameyaxis objtype="camera" objname="cam2" reftype="body" refname="bf"/>
    <framezaxis objtype="site" objname="s1"/>
    <framequat objtype="camera" objname="cam0" reftype="xbody" refname="b1"/>
    <framequat objtype="geom" objname="g2"/>
    <subtreecom body="b0"/>
    <distance geom1="g0" geom2="g1" cutoff="2"/>
    <normal geom1="g0" geom2="gf0" cutoff="2"/>
    <fromto body1="b2" geom2="gf1" cutoff="3"/>
    <insidesite objtype="body" objname="b1" site="s1" cutoff="0.5"/>
    <insidesite objtype="geom" objname="gf0" site="s1"/>
    <e_potential/>
    <e_kinetic cutoff="0.01"/>
    <clock/>
    <velocimeter site="s0" cutoff="0.1"/>
    <gyro site="s1"/>
    <jointvel joint="slide"/>
    <tendonvel tendon="tfix" cutoff="0.05"/>
    <actuatorvel actuator="aslide"/>
    <ballangvel joint="ball"/>
    <jointlimitvel joint="slide"/>
    <tendonlimitvel tendon="tspat"/>
    <framelinvel objtype="body" objname="b1" reftype="site" refname="s0"/>
    <frameangvel objtype="xbody" objname="bf" reftype="geom" refname="g0" cutoff="0.2"/>
    <subtreelinvel body="b0"/>
    <subtreeangmom body="b0" cutoff="0.001"/>
    <touch site="sf"/>
    <accelerometer site="s0" cutoff="3"/>
    <force site="s1"/>
    <torque site="sf" cutoff="0.1"/>
    <actuatorfrc actuator="aslide"/>
    <tendonactuatorfrc tendon="tfix" cutoff="0.1"/>
    <jointactuatorfrc joint="slide"/>
    <jointlimitfrc joint="slide" cutoff="1"/>
    <tendonlimitfrc tendon="tspat"/>
    <framelinacc objtype="geom" objname="g1"/>
    <frameangacc objtype="camera" objname="cam0" cutoff="1"/>
    <contact geom1="floor" num="2" data="found force dist normal"/>
    <contact body1="bf" reduce="netforce" data="force torque pos"/>
"""


class PatchedVerdict:
  """kvalid.run_cases with verdict kvF (see KVF): bin/kvalid.py is shared, so its call of
  tvalid.run_cases is intercepted while this context is active (entered once, around all threads)."""

  def __enter__(self):
    import tvalid

    self.tvalid, self.orig = tvalid, tvalid.run_cases
    orig = self.orig

    def patched(tag_, imports, lines, chunk=400, extra_defs=""):
      if not lines or not lines[0].startswith("kv3 "):
        return orig(tag_, imports, lines, chunk=chunk, extra_defs=extra_defs)
      lines = [l.replace("kv3 ", "kvF ", 1) for l in lines]
      ex = list(extra_defs)
      for k in range(0, len(ex), chunk):
        ex[k] = ex[k].replace("From Coq Require Import String.\n", "From Coq Require Import String.\n" + KVF, 1)
      return orig(tag_, imports, lines, chunk=chunk, extra_defs=ex)

    tvalid.run_cases = patched
    return self

  def __exit__(self, *a):
    self.tvalid.run_cases = self.orig


def kvalidate(res, trs, nstates, thorough):
  """Real launches traced during mjw.forward, replayed by the translated kernels inside Coq."""
  import concurrent.futures as cf

  import ktrace
  import mujoco
  import warp as wp

  import mujoco_warp as mjw

  trK, trA, trT = trs.get("K_sensor"), trs.get("K_sensor_acc"), trs.get("T_sensor")
  S = "mujoco_warp._src.sensor."
  wanted, group = {}, {}
  for tr, g in ((trK, "Gen.K_sensor"), (trA, "Gen.K_sensor_acc")):
    for kn, fi in (tr.kernels.items() if tr is not None else ()):
      wanted[S + kn] = fi
      group[kn] = g
  # quick tier: the inlined kernels (they validate bin/gens_sensor.py) + three cheap plain ones; the touch
  # (ray_geom, ~1000 generated lines) and contact-match kernels are replayed in the thorough tier
  tnames = ["_sensor_rangefinder_init", "_sensor_collision", "_tendon_actuator_force"] + (["_sensor_touch", "_contact_match"] if thorough else [])
  for kn in tnames:
    if trT is not None and kn in trT.kernels:
      wanted[S + kn] = trT.kernels[kn]
      group[kn] = "Gen.T_sensor"
  expected = ["_sensor_pos", "_sensor_vel", "_sensor_acc", "_limit_pos", "_limit_vel", "_limit_frc", "_tendon_actuator_force_cutoff"] + tnames
  untranslated = [k for k in expected if k not in group]
  xml = BASE.format(energy="enable", integrator="", sensors=TRACE_SENSORS)
  m = mujoco.MjModel.from_xml_string(xml)
  rng = np.random.default_rng(vlib.seed() + 72)
  by = {}
  traced = {}
  for s in range(nstates):
    ds = [mujoco.MjData(m) for _ in range(2)]
    for d in ds:
      rand_state(rng, m, d)
    mm, dd = put_states(mjw, wp, m, ds, nconmax=8, njmax=24)
    mjw.forward(mm, dd)  # contacts / efc rows of this state
    with ktrace.Tracer(wanted, max_elems=8000, max_tasks=600, per_kernel=1) as t:
      mjw.forward(mm, dd)
    for c in t.cases:
      kn = c["qual"].split(".")[-1]
      by.setdefault(group[kn], []).append(c)
      traced[kn] = traced.get(kn, 0) + 1
      res.nontrivial(("kv", kn, s))
    for q, why in t.skipped.items():
      res.notes.append(f"kernel validation: launch of {q} not traced ({why})")
  with vlib.Lock():
    ok, out, failing = vlib.coq_make(["Gen/K_sensor_acc.vo", "Gen/K_sensor.vo", "Gen/T_sensor.vo"])
  if not ok:
    res.obligation("build Gen/K_sensor_acc.vo", False, f"first failure at {failing}")
    return [{"error": "translated kernel file does not compile", "failing": failing}]
  bad = []

  import kvalid

  def one(item):
    g, cases = item
    return g, cases, kvalid.run_cases(res, "C07k_" + g.split(".")[-1], g, cases)

  with PatchedVerdict(), cf.ThreadPoolExecutor(max_workers=3) as ex:
    results = list(ex.map(one, by.items()))
  summary = {}
  for g, cases, verdicts in results:
    for c, v in zip(cases, verdicts):
      kn = c["qual"].split(".")[-1]
      st = summary.setdefault(kn, [0, 0, 0])
      st[v] += 1
      if v == 2:
        bad.append({"kernel": kn, "dim": list(c["dim"]) if isinstance(c["dim"], (tuple, list)) else c["dim"]})
  res.extra["kernel_validation"] = {k: {"agree": v[0], "discarded": v[1], "disagree": v[2]} for k, v in summary.items()}
  never = [k for k in expected if summary.get(k, [0])[0] == 0]
  res.obligation("kernel validation: every sensor kernel translated", not untranslated, f"untranslated: {untranslated}")
  res.obligation(
    "kernel validation: translated sensor kernels (inlined writers) agree with the traced real launches",
    not bad and not never,
    f"{summary}; never validated: {never}",
  )
  if untranslated or never:
    bad.append({"untranslated": untranslated, "never_validated": never})
  return bad


# --------------------------------------------------------------------------------------------
# oracle
# --------------------------------------------------------------------------------------------
def classify(tp, xml, cutoff):
  """Violation key of a mismatching sensor (root cause when it is recognisable)."""
  if tp in ("GEOMDIST", "GEOMNORMAL", "GEOMFROMTO") and 'geom1="g0b" geom2="g2"' in xml:
    return "C07:GEOMDIST:capsule-capsule-beyond-margin"
  if tp == "TOUCH" and cutoff not in (0.0, "def"):
    return "C07:TOUCH:cutoff-ignored"
  return f"C07:{tp}:{'cutoff' if cutoff not in (0.0, 'def') else 'value'}"


def mj_cutoff_rule(m, i, x):
  """MuJoCo's documented rule (= Model/Sensor.v mj_cutoff) applied to the no-cutoff value x."""
  import mujoco

  c = m.sensor_cutoff[i]
  t = m.sensor_type[i]
  if c <= 0 or int(t) in (int(mujoco.mjtSensor.mjSENS_GEOMFROMTO), int(mujoco.mjtSensor.mjSENS_CONTACT)):
    return x
  if int(m.sensor_datatype[i]) == int(mujoco.mjtDataType.mjDATATYPE_REAL):
    return np.clip(x, -c, c)
  if int(m.sensor_datatype[i]) == int(mujoco.mjtDataType.mjDATATYPE_POSITIVE):
    return np.minimum(x, c)
  return x


def compare_sensors(m, meta, ref, refs_pert, got, contact_ok=True, rtol=1e-3):
  """Per-sensor comparison; a sensor whose reference value moves under a 2e-5 state perturbation is
  near a discontinuity (contact appearing, ray leaving a geom, point crossing a site boundary, limit
  activating) and is discarded.  float32 vs float64: |err| <= 1e-3 (1 + |ref|)."""
  bad, ndisc, ncmp = [], 0, 0
  per = compare_sensors.per_type
  # force / torque / acceleration sensors are sums of constraint and inertial force terms that can cancel
  # (a force sensor on a free body is exactly 0 in MuJoCo and 1e-2 in float32 when the contact forces are
  # ~400): their round-off is relative to the size of the terms, taken as the largest reference value
  # among the sensors of the same type in this state
  tmax = {}
  for i, (tp, _, _, _) in enumerate(meta):
    a, n = m.sensor_adr[i], m.sensor_dim[i]
    tmax[tp] = max(tmax.get(tp, 0.0), float(np.abs(ref[a : a + n]).max()))
  for i, (tp, x, c, _) in enumerate(meta):
    a, n = m.sensor_adr[i], m.sensor_dim[i]
    r, g = ref[a : a + n], got[a : a + n]
    scale = 1.0 + (tmax[tp] if tp in CANCELLING else float(np.abs(r).max()))
    if (not contact_ok and tp in CONTACT_DEPENDENT) or float(np.abs(refs_pert[:, a : a + n] - r).max()) > 2e-4 * scale:
      ndisc += 1
      continue
    ncmp += 1
    k = (tp, "cutoff" if c not in (0.0, "def") else "plain")
    per[k] = per.get(k, 0) + 1
    err = float(np.abs(g - r).max()) if np.all(np.isfinite(g)) else float("inf")
    if err > rtol * scale:
      bad.append({"sensor": i, "type": tp, "sensor_xml": x, "cutoff": c, "err": err, "mujoco": r[:8].tolist(), "mjwarp": g[:8].tolist()})
  return bad, ndisc, ncmp


compare_sensors.per_type = {}


def oracle(res, nstates, energy_modes):
  import mujoco
  import warp as wp

  import mujoco_warp as mjw

  rng = np.random.default_rng(vlib.seed() + 7)
  fails, models_ = [], []
  seen_types = set()
  rule_bad = []
  for energy in energy_modes:
    xml, meta, m = compile_model(energy=energy)
    models_.append(m)
    # MuJoCo itself obeys the transcribed rule: twin sensors (same element, cutoff c) = rule(no-cutoff value)
    twins = {}
    for i, (tp, x, c, post) in enumerate(meta):
      base = x.split(" cutoff=")[0].rstrip("/>") if not post else x.rstrip("/>")
      if c == 0.0:
        twins[(tp, base)] = i
    for s in range(nstates):
      ds = [mujoco.MjData(m) for _ in range(2)]
      for k, d in enumerate(ds):
        rand_state(rng, m, d, contact=(s + k) % 3 != 2)
      mm, dd = put_states(mjw, wp, m, ds, nconmax=64, njmax=128)
      mjw.forward(mm, dd)
      sd, en = dd.sensordata.numpy(), dd.energy.numpy()
      nacon = int(dd.nacon.numpy()[0])
      ncon_ref = 0
      for w, d in enumerate(ds):
        mujoco.mj_forward(m, d)
        ncon_ref += d.ncon
        for t in range(m.ntendon):  # spring deadband regime of every tendon in this state
          lo, hi = m.tendon_lengthspring[t]
          reg = "below" if d.ten_length[t] < lo else "above" if d.ten_length[t] > hi else "inside"
          oracle.regimes[(t, reg)] = oracle.regimes.get((t, reg), 0) + 1
        pert = []
        for _ in range(3):
          d2 = mujoco.MjData(m)
          d2.qpos[:], d2.qvel[:], d2.ctrl[:], d2.time = d.qpos, d.qvel, d.ctrl, d.time
          mujoco.mj_integratePos(m, d2.qpos, rng.normal(size=m.nv) * 2e-5, 1.0)
          d2.qvel += rng.normal(size=m.nv) * 2e-5
          mujoco.mj_forward(m, d2)
          pert.append(d2.sensordata.copy())
        pert = np.array(pert)
        # constraint-contact count must agree before contact-dependent sensors are compared
        ncon_w = int(np.sum(dd.contact.worldid.numpy()[:nacon] == w) - np.sum((dd.contact.worldid.numpy()[:nacon] == w) & ((dd.contact.type.numpy()[:nacon] & 1) == 0)))
        bad, ndisc, ncmp = compare_sensors(m, meta, d.sensordata, pert, sd[w], contact_ok=(ncon_w == d.ncon))
        res.count(ncmp)
        for i, (tp, _, c, _) in enumerate(meta):
          seen_types.add((tp, c not in (0.0,)))
        res.nontrivial(("oracle", energy, s, w, d.ncon, ncmp))
        for b in bad:
          b.update({"energy_flag": energy, "qpos": d.qpos.tolist(), "qvel": d.qvel.tolist(), "ctrl": d.ctrl.tolist(), "time": d.time, "world": w})
          fails.append(b)
        # energy
        e_ref = d.energy.copy()
        e_got = en[w].astype(np.float64)
        res.count(2)
        # with the flag disabled data.energy is not an output (directed case C07:ENERGY:zeroed-with-energy-sensors)
        for k, nm in enumerate(("E_POTENTIAL", "E_KINETIC") if energy else ()):
          if abs(e_got[k] - e_ref[k]) > 1e-3 * (1 + abs(e_ref[k])):
            fails.append({"type": "ENERGY", "sensor": -1, "sensor_xml": f"data.energy[{k}] ({nm})", "cutoff": 0.0, "err": float(abs(e_got[k] - e_ref[k])), "mujoco": e_ref.tolist(), "mjwarp": e_got.tolist(),
                          "energy_flag": energy, "qpos": d.qpos.tolist(), "qvel": d.qvel.tolist(), "ctrl": d.ctrl.tolist(), "time": d.time, "world": w})  # fmt: skip
        # the rule on the MuJoCo side
        for i, (tp, x, c, post) in enumerate(meta):
          if c in (0.0, "def"):
            continue
          base = x.split(" cutoff=")[0].rstrip("/>") if not post else x.rstrip("/>")
          j = twins.get((tp, base))
          if j is None:
            continue
          a, n = m.sensor_adr[i], m.sensor_dim[i]
          aj = m.sensor_adr[j]
          want = mj_cutoff_rule(m, i, d.sensordata[aj : aj + n])
          res.count()
          if not np.allclose(want, d.sensordata[a : a + n], rtol=0, atol=1e-12):
            rule_bad.append({"type": tp, "xml": x, "cutoff": c, "rule": want.tolist(), "mujoco": d.sensordata[a : a + n].tolist()})
        if s == 0 and w == 0 and energy:
          res.sample({"kind": "oracle", "nsensor": int(m.nsensor), "nsensordata": int(m.nsensordata), "compared": ncmp, "discarded_near_discontinuity": ndisc, "ncon": int(d.ncon), "energy": e_ref.tolist()})
  res.obligation("MuJoCo's binary obeys the transcribed cutoff rule (Model/Sensor.v mj_cutoff) on every twin sensor", not rule_bad, f"{len(rule_bad)} mismatches; first: {rule_bad[:1]}")
  regs = {r for _, r in oracle.regimes}
  res.extra["oracle_tendon_deadband_regimes"] = {f"tendon{t}:{r}": n for (t, r), n in sorted(oracle.regimes.items())}
  res.obligation("oracle: polynomial-stiffness tendons visited below, inside and above their spring deadband", regs == {"below", "inside", "above"}, str(sorted(oracle.regimes.items())))
  per = compare_sensors.per_type
  wanted_kinds = {(tp, "cutoff" if c not in (0.0, "def") else "plain") for tp, _, c, _ in meta}
  never = sorted(k for k in wanted_kinds if per.get(k, 0) == 0)
  res.extra["oracle_compared_per_type"] = {f"{t}:{k}": n for (t, k), n in sorted(per.items())}
  res.obligation("oracle: every sensor type of the model (plain and with cutoff) compared at least once", not never, f"{len(per)} (type, cutoff) classes compared; never compared: {never}")
  return fails, models_, meta, xml


oracle.regimes = {}


# ---- directed regression cases of the defects found --------------------------------------------
DIRECTED = {
  "C07:TOUCH:cutoff-ignored": dict(
    xml='<mujoco><worldbody><geom type="plane" size="5 5 .01"/><body pos="0 0 .095"><freejoint/><geom type="sphere" size=".1"/><site name="s" type="box" size=".3 .3 .3"/></body></worldbody>'
    '<sensor><touch site="s"/><touch site="s" cutoff="2"/></sensor></mujoco>',
    what="touch sensor with cutoff=2: MuJoCo stores min(force, 2), MJWarp's _sensor_touch accumulates with atomic_add and never applies the cutoff",
  ),
  "C07:LIMITSENSOR:joint-tendon-id-collision": dict(
    xml='<mujoco><worldbody><body><joint name="j" type="slide" limited="true" range="-1 1"/><geom type="sphere" size=".1"/><site name="a"/></body><site name="b" pos="0 0 .5"/></worldbody>'
    '<tendon><spatial name="t" limited="true" range="0 .2"><site site="a"/><site site="b"/></spatial></tendon>'
    '<sensor><jointlimitpos joint="j"/><jointlimitvel joint="j"/><jointlimitfrc joint="j"/><tendonlimitpos tendon="t"/></sensor></mujoco>',
    qvel=[0.3],
    what="joint 0 is inside its range (no joint-limit row) while tendon 0 violates its limit: MuJoCo's jointlimitpos/vel/frc of joint 0 are 0, MJWarp's _limit_pos/_limit_vel/_limit_frc match rows by efc_id only and return the TENDON limit's pos/vel/force",
  ),
  "C07:GEOMDIST:capsule-capsule-beyond-margin": dict(
    xml='<mujoco><worldbody><body pos="0 0 1"><joint type="slide"/><geom name="a" type="capsule" size=".05 .1"/></body><body pos=".5 .3 1.2" quat=".8 .3 .2 .4"><joint type="slide"/><geom name="b" type="capsule" size=".05 .1"/></body></worldbody>'
    '<sensor><distance geom1="a" geom2="b" cutoff="3"/><normal geom1="a" geom2="b" cutoff="3"/><fromto geom1="a" geom2="b" cutoff="3"/></sensor></mujoco>',
    what="distance/normal/fromto between two capsules 0.45 apart with cutoff 3: MuJoCo reports the distance, MJWarp reports the cutoff and zero vectors (collision_primitive_core.capsule_capsule drops candidates with dist > margin, so the sensor contact carries dist = inf)",
  ),
}


ENERGY_XML = '<mujoco><option gravity="0 0 -9.81"><flag energy="disable"/></option><worldbody><body pos="0 0 1"><joint type="hinge" axis="0 1 0"/><geom type="sphere" size=".1" pos=".3 0 0"/></body></worldbody><sensor><e_potential/><e_kinetic/></sensor></mujoco>'


def run_energy_flag():
  """energy flag disabled + energy sensors: MuJoCo leaves the values the sensors computed in data.energy."""
  import mujoco
  import warp as wp

  import mujoco_warp as mjw

  m = mujoco.MjModel.from_xml_string(ENERGY_XML)
  d = mujoco.MjData(m)
  d.qpos[0], d.qvel[0] = 0.4, 1.5
  mm, dd = put_states(mjw, wp, m, [d, d])
  mjw.forward(mm, dd)
  mujoco.mj_forward(m, d)
  e, s = dd.energy.numpy()[0].astype(np.float64), dd.sensordata.numpy()[0]
  sens_ok = bool(np.abs(s - d.sensordata).max() < 1e-3)
  bad = sens_ok and bool(np.abs(e - d.energy).max() > 1e-3 * (1 + np.abs(d.energy).max()))
  return bad, {"xml": ENERGY_XML, "qpos0": [0.4], "qvel0": [1.5], "mujoco_energy": d.energy.tolist(), "mjwarp_energy": e.tolist(), "sensordata_agree": sens_ok}


SPRING_XML = """<mujoco><option gravity="0 0 -2"><flag energy="{energy}" contact="disable"/></option><worldbody>
<body pos="0 0 1"><joint name="s" type="slide" axis="1 0 0" stiffness="4 7 6" springref=".05"/><geom type="sphere" size=".05" mass=".5"/>
<body pos=".3 0 0"><joint name="h" type="hinge" axis="0 1 0" stiffness="3 -2 1" springref=".2"/><geom type="capsule" size=".03" fromto="0 0 0 .3 0 0" mass=".3"/></body></body></worldbody>
<tendon><fixed name="tp" stiffness="20 30 10" springlength=".1 .3"><joint joint="s" coef="1"/></fixed>
<fixed name="tl" stiffness="15" springlength=".0 .2"><joint joint="h" coef="1"/></fixed></tendon>
<sensor><e_potential/><e_kinetic/><tendonpos tendon="tp"/></sensor></mujoco>"""
SPRING_STATES = {"below": [-0.2, -0.4], "inside": [0.2, 0.1], "above": [0.5, 0.6], "at-lower": [0.1, 0.0]}


def run_spring_energy():
  """Polynomial-stiffness tendon (deadband .1 .3) and joint springs, tendon below / inside / above the deadband:
  data.energy and the e_potential / e_kinetic sensors vs MuJoCo, energy flag on and off."""
  import mujoco
  import warp as wp

  import mujoco_warp as mjw

  bad = []
  for energy in ("enable", "disable"):
    m = mujoco.MjModel.from_xml_string(SPRING_XML.format(energy=energy))
    names = list(SPRING_STATES)
    ds = []
    for nm in names:
      d = mujoco.MjData(m)
      d.qpos[:] = SPRING_STATES[nm]
      d.qvel[:] = [0.3, -0.7]
      ds.append(d)
    mm, dd = put_states(mjw, wp, m, ds)
    mjw.forward(mm, dd)
    en, sd = dd.energy.numpy().astype(np.float64), dd.sensordata.numpy().astype(np.float64)
    for w, (nm, d) in enumerate(zip(names, ds)):
      mujoco.mj_forward(m, d)
      err = max(float(np.abs(en[w] - d.energy).max()), float(np.abs(sd[w] - d.sensordata).max()))
      if err > 1e-4 * (1 + float(np.abs(d.energy).max())):  # energies here are O(1); float32 round-off ~1e-7
        bad.append({"regime": nm, "energy_flag": energy, "qpos": SPRING_STATES[nm], "ten_length": d.ten_length.tolist(), "mujoco_energy": d.energy.tolist(), "mjwarp_energy": en[w].tolist(),
                    "mujoco_sensordata": d.sensordata.tolist(), "mjwarp_sensordata": sd[w].tolist(), "err": err})  # fmt: skip
  return bad


def run_directed(key):
  import mujoco
  import warp as wp

  import mujoco_warp as mjw

  spec = DIRECTED[key]
  m = mujoco.MjModel.from_xml_string(spec["xml"])
  d = mujoco.MjData(m)
  if "qvel" in spec:
    d.qvel[:] = spec["qvel"]
  mm, dd = put_states(mjw, wp, m, [d, d])
  mjw.forward(mm, dd)
  mujoco.mj_forward(m, d)
  got = dd.sensordata.numpy()
  err = float(np.abs(got[0] - d.sensordata).max())
  return err > 1e-3 * (1 + float(np.abs(d.sensordata).max())), {"xml": spec["xml"], "qvel": spec.get("qvel"), "mujoco": d.sensordata.tolist(), "mjwarp": got[0].tolist(), "err": err}


RK4_XML = '<mujoco><option integrator="RK4" timestep="0.01"/><worldbody><body pos="0 0 1"><joint name="h" type="hinge" axis="0 1 0"/><geom type="capsule" fromto="0 0 0 .5 0 0" size=".05"/><site name="s" pos=".5 0 0"/></body></worldbody><sensor><jointpos joint="h"/><jointvel joint="h"/><framepos objtype="site" objname="s"/><accelerometer site="s"/><clock/></sensor></mujoco>'


def run_rk4(integrator="RK4"):
  """One step: sensordata afterwards (MuJoCo keeps the sensors of the forward pass at t0)."""
  import mujoco
  import warp as wp

  import mujoco_warp as mjw

  m = mujoco.MjModel.from_xml_string(RK4_XML.replace('integrator="RK4"', f'integrator="{integrator}"'))
  d = mujoco.MjData(m)
  d.qpos[0], d.qvel[0] = 0.3, 1.0
  mm, dd = put_states(mjw, wp, m, [d, d])
  mujoco.mj_step(m, d)
  mjw.step(mm, dd)
  got = dd.sensordata.numpy()[0]
  err = float(np.abs(got - d.sensordata).max())
  state_err = float(np.abs(dd.qpos.numpy()[0] - d.qpos).max())
  return err > 1e-3 * (1 + float(np.abs(d.sensordata).max())) and state_err < 1e-4, {"xml": RK4_XML, "integrator": integrator, "qpos0": [0.3], "qvel0": [1.0], "mujoco": d.sensordata.tolist(), "mjwarp": got.tolist(), "err": err, "qpos_err": state_err}


# --------------------------------------------------------------------------------------------
def _t(res, name, t0):
  import time

  res.extra.setdefault("timing_s", {})[name] = round(time.time() - t0, 1)
  vlib.log(f"[C07] {name}: {time.time() - t0:.1f}s")
  return time.time()


def run(res):
  import time

  t0 = time.time()
  quick = res.tier == "quick"
  res.rule = (
    "cases = T-validation inputs + cutoff/energy/layout correspondence cases + traced kernel launches + compared sensor values of the "
    "oracle; distinct = agreeing non-discarded correspondence cases, traced (kernel,state) pairs, oracle (model,state,world) triples"
  )
  ok, trs, failing = propkit.prove(res, PROPS, gen_names=["T_sensor", "K_sensor", "K_sensor_acc"], required_funcs=TFUNCS)
  for g in ("K_sensor", "K_sensor_acc"):
    tr = trs.get(g)
    if tr is not None and tr.errors:
      res.obligation(f"translate:{g}", False, json.dumps(tr.errors)[:500])
      ok = False
  t0 = _t(res, "prove", t0)
  corr_bad = []
  corr_bad += check_constants(res)
  trT = trs.get("T_sensor")
  if trT is not None:
    tb = tvalidate(res, trT, 60 if quick else 1200)
    res.obligation("T-validation: translated sensor/math value functions agree with compiled Warp", not tb, f"{len(tb)} disagreements")
    corr_bad += tb
  t0 = _t(res, "tvalid", t0)
  corr_bad += cutoff_correspondence(res, 150 if quick else 3000)
  t0 = _t(res, "cutoff", t0)
  # oracle (the property itself) -- also yields the compiled models used by the layout / energy checks
  fails, models_, meta, xml = oracle(res, 6 if quick else 80, (True, False))
  t0 = _t(res, "oracle", t0)
  corr_bad += check_layout(res, models_)
  t0 = _t(res, "layout", t0)
  if trT is not None:
    import mujoco

    rng = np.random.default_rng(vlib.seed() + 73)
    _, _, msmall = compile_model(energy=True, specs=[("JOINTPOS", '<jointpos joint="slide"/>', ())])
    states = []
    for _ in range(1 if quick else 4):
      ds = [mujoco.MjData(msmall) for _ in range(2)]
      for d in ds:
        rand_state(rng, msmall, d)
      states.append((msmall, ds))
    corr_bad += energy_correspondence(res, trT, states)
  t0 = _t(res, "energy", t0)
  corr_bad += kvalidate(res, trs, 1 if quick else 4, not quick)
  t0 = _t(res, "kvalid", t0)

  found = False
  seen = set()
  for f in fails:
    key = classify(f["type"], f["sensor_xml"], f["cutoff"])
    if key in seen or len(seen) >= 4:  # one root cause usually shows up under many sensor types
      continue
    seen.add(key)
    found = True
    res.violation(key, f"{f['sensor_xml']}: MuJoCo {f['mujoco'][:4]} vs MJWarp {f['mjwarp'][:4]} (err {f['err']:.3g}, energy flag {f['energy_flag']})", {"kind": "oracle", **f})
  res.obligation("oracle: mjw.forward sensordata and energy equal mujoco.mj_forward on the all-sensor-types model", not fails, f"{len(fails)} mismatching sensor values")
  for key in DIRECTED:
    bad, data = run_directed(key)
    res.count()
    res.nontrivial(("directed", key))
    if bad:
      found = True
      res.violation(key, DIRECTED[key]["what"] + f" (MuJoCo {np.round(data['mujoco'], 4).tolist()[:6]}, MJWarp {np.round(data['mjwarp'], 4).tolist()[:6]})", {"kind": "directed", "key": key, **data})
  bad, data = run_energy_flag()
  res.count()
  res.nontrivial(("directed", "energy-flag"))
  if bad:
    found = True
    res.violation(
      "C07:ENERGY:zeroed-with-energy-sensors",
      f"energy flag disabled and e_potential/e_kinetic sensors present: the sensors agree, but forward._energy_pos zeroes data.energy afterwards while MuJoCo leaves the values computed for the sensors: MuJoCo energy {np.round(data['mujoco_energy'], 4).tolist()} vs MJWarp {data['mjwarp_energy']}",
      {"kind": "energy-flag", **data},
    )
  sbad = run_spring_energy()
  res.count(8)
  res.nontrivial(("directed", "spring-energy"))
  for b in sbad[:1]:
    found = True
    res.violation(
      f"C07:ENERGY:spring-potential-{b['regime']}-deadband",
      f"polynomial-stiffness springs, tendon {b['regime']} its spring deadband [.1,.3] (length {b['ten_length'][0]:.3g}): potential energy / e_potential sensor MuJoCo {np.round(b['mujoco_energy'], 5).tolist()} vs MJWarp {np.round(b['mjwarp_energy'], 5).tolist()} (energy flag {b['energy_flag']})",
      {"kind": "spring-energy", "xml": SPRING_XML, **b},
    )
  bad, data = run_rk4("RK4")
  okE, dataE = run_rk4("Euler")
  res.count(2)
  res.nontrivial(("directed", "rk4"))
  if bad:
    found = True
    res.violation(
      "C07:RK4:sensordata-of-last-stage",
      f"after one RK4 step sensordata is that of the 4th stage (forward() inside rungekutta4 recomputes the sensors), MuJoCo keeps the t0 sensors (mj_forwardSkip skipsensor=1): MuJoCo {np.round(data['mujoco'], 4).tolist()} vs MJWarp {np.round(data['mjwarp'], 4).tolist()}; Euler on the same model agrees (err {dataE['err']:.2g})",
      {"kind": "rk4", **data},
    )
  t0 = _t(res, "directed", t0)
  if corr_bad and not found:
    res.violation("C07:translator-or-model-mismatch", "a model / translated kernel disagrees with the compiled code (model no longer tied to the code)", corr_bad[:3], found_input=False)
  if not ok and not found:
    propkit.broken_proof_violation(res, "C07 theorems over the regenerated sensor kernels", failing)
  res.assumptions += [
    "float32 rounding is not modelled: theorems are over R (cutoff rule, energy, closed forms) or hold for every scalar instance (kernel = model, slots); oracle tolerance 1e-3 (1 + |value|)",
    "the source-to-source inlining of _write_scalar/_write_vector (bin/gens_sensor.py) is validated by replaying traced launches, not proved",
    "sensor values near a discontinuity (reference moves by > 2e-4 under a 2e-5 state perturbation) are discarded by the oracle",
    "_sensor_acc (contact-sensor slots), touch, tactile, user and plugin sensors: kernel validation / oracle only; sensor_slots_disjoint covers the position and velocity stage kernels",
  ]


def replay(res, path):
  r = json.load(open(path))["replay"]
  if isinstance(r, list) or "kind" not in r:
    print("replay: no concrete input in this file (proof/correspondence breakage); re-run the check")
    return 1
  if r["kind"] == "directed":
    bad, data = run_directed(r["key"])
    print("mismatch" if bad else "agree", json.dumps(data)[:2000])
    return 0
  if r["kind"] == "spring-energy":
    bad = run_spring_energy()
    print("mismatch" if bad else "agree", json.dumps(bad)[:3000])
    return 0
  if r["kind"] == "energy-flag":
    bad, data = run_energy_flag()
    print("mismatch" if bad else "agree", json.dumps(data))
    return 0
  if r["kind"] == "rk4":
    bad, data = run_rk4(r.get("integrator", "RK4"))
    print("mismatch" if bad else "agree", json.dumps(data))
    return 0
  import mujoco
  import warp as wp

  import mujoco_warp as mjw

  xml, meta, m = compile_model(energy=r["energy_flag"])
  d = mujoco.MjData(m)
  d.qpos[:], d.qvel[:], d.ctrl[:], d.time = r["qpos"], r["qvel"], r["ctrl"], r["time"]
  mm, dd = put_states(mjw, wp, m, [d, d], nconmax=64, njmax=128)
  mjw.forward(mm, dd)
  mujoco.mj_forward(m, d)
  i = r["sensor"]
  if i < 0:
    print("energy: MuJoCo", d.energy, "MJWarp", dd.energy.numpy()[0])
    return 0
  a, n = m.sensor_adr[i], m.sensor_dim[i]
  print("sensor", i, r["type"], r["sensor_xml"], "MuJoCo", d.sensordata[a : a + n], "MJWarp", dd.sensordata.numpy()[0][a : a + n])
  return 0
