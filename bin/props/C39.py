"""C39 contact_force reports the contact wrench.

proof (T): _decode_pyramid = mju_decodePyramid on guarded reads, contact_force_fn spec (pyramidal /
elliptic / invalid / world frame) over the Gallina definitions regenerated from support.py.
Ties: T-validation with array arguments (own wrapper kernels), oracle mjw.contact_force vs
mujoco.mj_contactForce and vs a numpy decode of MJWarp's own efc_force."""

from __future__ import annotations

import importlib
import os
import sys

import numpy as np

import propkit
import vlib
from props import C24 as H

MANIFEST = {
  "text": "proof: over R, about the Gallina definitions regenerated on every run from support.py: _decode_pyramid equals MuJoCo's mju_decodePyramid (condim 1..6 unrolled) applied to the reads guarded by address < njmax, and to the plain rows when they all fit; contact_force_fn returns 0 for an invalid contact, the decoded pyramid (pyramidal cone) or the copied rows (elliptic cone, condim 1,3,4,6) with the normal component minus the contact's adhesion, and with to_world_frame both halves multiplied by the transposed contact frame. tested only: the kernel wrapper contact_force_kernel / contact_force (ids, nacon guard), agreement with mujoco.mj_contactForce on random scenes (depends on the solve), float32",
  "note": "trusted: Coq kernel; translator bin/translate.py incl. its model of Warp arrays as total functions (validated each run against the compiled Warp functions with real arrays, negative indices wrapping); real-number axioms",
  "technique": "Rocq proof over functions machine-translated from the source (T) + translation validation + differential oracle vs MuJoCo",
  "engine": "coq",
}

PROPS = "Props/C39.v"
FUNCS = ["_decode_pyramid", "contact_force_fn"]

WRAP_SRC = '''import warp as wp
import mujoco_warp._src.support as S
from mujoco_warp._src.types import vec5


@wp.kernel
def k_decode(njmax: wp.array(dtype=int), pyramid: wp.array2d(dtype=float), adr: wp.array(dtype=int), mu: wp.array(dtype=vec5),
             condim: wp.array(dtype=int), out: wp.array(dtype=wp.spatial_vector)):
  i = wp.tid()
  out[i] = S._decode_pyramid(njmax[i], pyramid[i], adr[i], mu[i], condim[i])


@wp.kernel
def k_cf(opt_cone: wp.array(dtype=int), frame: wp.array(dtype=wp.mat33), fric: wp.array(dtype=vec5), cdim: wp.array(dtype=int),
         cadr: wp.array2d(dtype=int), adh: wp.array(dtype=float), efc_force: wp.array2d(dtype=float), njmax: wp.array(dtype=int),
         nacon: wp.array2d(dtype=int), worldid: wp.array(dtype=int), cid: wp.array(dtype=int), toworld: wp.array(dtype=int),
         out: wp.array(dtype=wp.spatial_vector)):
  i = wp.tid()
  out[i] = S.contact_force_fn(opt_cone[i], frame, fric, cdim, cadr, adh, efc_force, njmax[i], nacon[i], worldid[i], cid[i], toworld[i] != 0)
'''

COQ_DEFS = """
Definition widx (n i : Z) : nat := Z.to_nat (if (i <? 0)%Z then (i + n)%Z else i).
Definition arrf (l : list float) (i : Z) : float := nth (widx (Z.of_nat (length l)) i) l 0.
Definition arrz (l : list Z) (i : Z) : Z := nth (widx (Z.of_nat (length l)) i) l 0%Z.
"""


def _wrappers():
  import tvalid

  os.makedirs(tvalid.WRAP_DIR, exist_ok=True)
  vlib.write_if_changed(os.path.join(tvalid.WRAP_DIR, "vw_C39arr.py"), WRAP_SRC)
  if tvalid.WRAP_DIR not in sys.path:
    sys.path.insert(0, tvalid.WRAP_DIR)
  return importlib.import_module("vw_C39arr")


def spec_decode(njmax, pyr, adr, mu, condim):
  """The theorem's right-hand side: mju_decodePyramid on reads guarded by address < njmax."""
  g = lambda a: float(pyr[a]) if a < njmax else 0.0  # noqa: E731
  if condim == 1:
    f = np.zeros(6)
    f[0] = float(pyr[adr])
    return f
  return decode_ref([g(adr + k) for k in range(2 * (condim - 1))], mu, condim)


def spec_cf(cone, frame, fric, dim, cadr, adh, efcrow, njmax, nacon, cid, tow):
  """contact_force_fn as the C39 theorems state it (negative row addresses read the wrapped element, as Warp does)."""
  f = np.zeros(6)
  if cid >= 0 and cid <= nacon and cadr[0] >= 0:
    if cone == 0:
      f = spec_decode(njmax, efcrow, int(cadr[0]), fric, dim)
    else:
      for i in range(dim):
        if cadr[i] < njmax:
          f[i] = float(efcrow[int(cadr[i])])
    f[0] -= adh
  if tow:
    f = np.concatenate([f[:3] @ frame, f[3:] @ frame])
  return f


def tvalidate(res, n):
  """Compiled _decode_pyramid / contact_force_fn on real Warp arrays vs the translated Gallina (arrays as functions)."""
  import tvalid
  import warp as wp

  from mujoco_warp._src.types import vec5

  W = _wrappers()
  rng = np.random.default_rng(vlib.seed() + 3939)
  fx, fl, zl = vlib.fhex, vlib.flist, vlib.zlist
  lines, meta = [], []
  # ---- _decode_pyramid
  L = 16
  njmax = rng.integers(4, L + 1, n).astype(np.int32)  # njmax_in <= real row length: reads stay in bounds
  pyr = (rng.standard_normal((n, L)) * 10.0 ** rng.uniform(-1, 3, (n, 1))).astype(np.float32)
  condim = rng.choice([1, 3, 4, 6, 2, 5], n, p=[0.15, 0.25, 0.25, 0.25, 0.05, 0.05]).astype(np.int32)
  adr = np.array([rng.integers(0, max(1, njmax[i] - (0 if rng.random() < 0.4 else 2 * (condim[i] - 1)) + 1)) for i in range(n)], dtype=np.int32)
  adr = np.minimum(adr, njmax - 1).astype(np.int32)
  mu = rng.uniform(0.01, 2.0, (n, 5)).astype(np.float32)
  out = wp.zeros(n, dtype=wp.spatial_vector)
  wp.launch(W.k_decode, dim=n, inputs=[wp.array(njmax, dtype=int), wp.array(pyr, dtype=float), wp.array(adr, dtype=int), wp.array(mu, dtype=vec5), wp.array(condim, dtype=int)], outputs=[out])
  wp.synchronize()
  o = out.numpy()
  spec_fails = []
  for i in range(n):
    ref = spec_decode(int(njmax[i]), pyr[i].astype(np.float64), int(adr[i]), mu[i].astype(np.float64), int(condim[i]))
    if np.max(np.abs(ref - o[i])) > 1e-4 * (1 + np.max(np.abs(ref))) and len(spec_fails) < 3:
      spec_fails.append({"site": "_decode_pyramid", "njmax": int(njmax[i]), "adr": int(adr[i]), "condim": int(condim[i]), "pyramid": pyr[i].tolist(), "mu": mu[i].tolist(), "compiled": o[i].tolist(), "spec": ref.tolist()})
    lines.append(f"tv3 {fx(1e-4)} (fun Sc => @_decode_pyramid float Sc ({njmax[i]})%Z (arrf {fl(pyr[i])}) ({adr[i]})%Z {fl(mu[i])} ({condim[i]})%Z) {fl(o[i])}")
    meta.append(("_decode_pyramid", {"njmax": int(njmax[i]), "adr": int(adr[i]), "condim": int(condim[i]), "pyramid": pyr[i].tolist(), "mu": mu[i].tolist(), "out": o[i].tolist()}))
  # ---- contact_force_fn : ncon contacts over nw worlds, one case per (contact, flags)
  ncon, nw, NJ = n, 4, 24
  cdim = rng.choice([1, 3, 4, 6], ncon).astype(np.int32)
  frame = rng.standard_normal((ncon, 3, 3)).astype(np.float32)
  fric = rng.uniform(0.01, 2.0, (ncon, 5)).astype(np.float32)
  adh = np.where(rng.random(ncon) < 0.5, 0.0, rng.uniform(0, 20, ncon)).astype(np.float32)
  efc = (rng.standard_normal((nw, NJ)) * 10.0 ** rng.uniform(-1, 3, (nw, 1))).astype(np.float32)
  cadr = -np.ones((ncon, 10), dtype=np.int32)
  cone = rng.integers(0, 2, ncon).astype(np.int32)
  for c in range(ncon):
    nrows = cdim[c] if (cone[c] != 0 or cdim[c] == 1) else 2 * (cdim[c] - 1)
    base = int(rng.integers(0, NJ))
    if rng.random() < 0.1:
      base = -1
    for k in range(nrows):
      cadr[c, k] = base + k if (base >= 0 and base + k < NJ) else -1  # rows past the buffer: -1, as constraint.py does
  njm = np.where(rng.random(ncon) < 0.8, NJ, rng.integers(1, NJ + 1, ncon)).astype(np.int32)
  world = rng.integers(0, nw, ncon).astype(np.int32)
  cid = np.arange(ncon, dtype=np.int32)
  nacon = np.where(rng.random(ncon) < 0.85, ncon, cid + rng.integers(-1, 2, ncon)).astype(np.int32)  # cid == nacon and cid > nacon cases
  tow = (rng.random(ncon) < 0.5).astype(np.int32)
  out = wp.zeros(ncon, dtype=wp.spatial_vector)
  wp.launch(
    W.k_cf, dim=ncon,
    inputs=[wp.array(cone, dtype=int), wp.array(frame, dtype=wp.mat33), wp.array(fric, dtype=vec5), wp.array(cdim, dtype=int), wp.array(cadr, dtype=int),
            wp.array(adh, dtype=float), wp.array(efc, dtype=float), wp.array(njm, dtype=int), wp.array(nacon.reshape(-1, 1), dtype=int),
            wp.array(world, dtype=int), wp.array(cid, dtype=int), wp.array(tow, dtype=int)],
    outputs=[out],
  )  # fmt: skip
  wp.synchronize()
  o = out.numpy()
  for c in range(ncon):
    ref = spec_cf(int(cone[c]), frame[c].astype(np.float64), fric[c].astype(np.float64), int(cdim[c]), cadr[c], float(adh[c]), efc[world[c]].astype(np.float64), int(njm[c]), int(nacon[c]), int(cid[c]), bool(tow[c]))
    if np.max(np.abs(ref - o[c])) > 1e-4 * (1 + np.max(np.abs(ref))) and len(spec_fails) < 6:
      spec_fails.append({"site": "contact_force_fn", "cone": int(cone[c]), "condim": int(cdim[c]), "cadr": cadr[c].tolist(), "njmax": int(njm[c]), "nacon": int(nacon[c]), "cid": int(cid[c]), "to_world": int(tow[c]), "adhesion": float(adh[c]), "efc_row": efc[world[c]].tolist(), "friction": fric[c].tolist(), "frame": frame[c].tolist(), "compiled": o[c].tolist(), "spec": ref.tolist()})
    term = (
      f"@contact_force_fn float Sc ({cone[c]})%Z (fun _ => {fl(frame[c].reshape(-1))}) (fun _ => {fl(fric[c])}) (fun _ => ({cdim[c]})%Z) "
      f"(fun _ => arrz {zl(cadr[c])}) (fun _ => {fx(adh[c])}) (fun _ => arrf {fl(efc[world[c]])}) ({njm[c]})%Z (fun _ => ({nacon[c]})%Z) "
      f"({world[c]})%Z ({cid[c]})%Z {'true' if tow[c] else 'false'}"
    )
    lines.append(f"tv3 {fx(1e-4)} (fun Sc => {term}) {fl(o[c])}")
    meta.append(("contact_force_fn", {"cone": int(cone[c]), "condim": int(cdim[c]), "cadr": cadr[c].tolist(), "njmax": int(njm[c]), "nacon": int(nacon[c]), "cid": int(cid[c]), "to_world": int(tow[c]), "adhesion": float(adh[c]), "out": o[c].tolist()}))
  verdicts = tvalid.run_cases("C39", ["Gen.support"], lines, extra_defs=COQ_DEFS)
  bad, per = [], {}
  for (fn, info), v in zip(meta, verdicts):
    st = per.setdefault(fn, [0, 0, 0])
    st[v] += 1
    if v == 2 and len(bad) < 10:
      bad.append({"function": fn, **info})
    if v == 0:
      res.nontrivial(("tv", fn, str(info)[:200]))
  res.count(len(lines))
  res.extra.setdefault("t_validation", {})["C39"] = {k: {"agree": v[0], "discarded": v[1], "disagree": v[2]} for k, v in per.items()}
  res.sample({"kind": "T-validation (arrays)", "case": lines[-1][:400]})
  return bad, spec_fails


# ---------------------------------------------------------------------------------------------
# oracle
# ---------------------------------------------------------------------------------------------
def decode_ref(e, mu, dim):
  """mju_decodePyramid."""
  f = np.zeros(6)
  if dim == 1:
    f[0] = e[0]
    return f
  f[0] = sum(e[: 2 * (dim - 1)])
  for i in range(dim - 1):
    f[i + 1] = (e[2 * i] - e[2 * i + 1]) * mu[i]
  return f


def request_orders(rng, nacon):
  """(safe, adversarial) request lists for mjw.contact_force.  safe: identity, reversed, permuted, a subset, repeats -
  every id names a contact.  adversarial: lists with ids that name no contact (>= nacon: the slot must stay untouched;
  -1: zero wrench, as mj_contactForce) - these are launched in a worker process (a crash must not kill the check)."""
  idn = np.arange(nacon)
  safe = [("identity", idn), ("reversed", idn[::-1])]
  if nacon > 1:
    safe.append(("permuted", rng.permutation(nacon)))
    safe.append(("subset", rng.permutation(nacon)[: max(1, nacon // 2)]))
    safe.append(("repeats", rng.integers(0, nacon, nacon + 2)))
  mixed = np.concatenate([rng.permutation(nacon)[: max(1, nacon - 1)], [nacon, -1, nacon + 3]])
  adv = [("out-of-range", rng.permutation(mixed))]
  cv = lambda l: [(n, np.asarray(x, dtype=np.int32)) for n, x in l]  # noqa: E731
  return cv(safe), cv(adv)


def contact_forces(m, d, mm, dd, cfg, rng=None, orders=None):
  """Failures of mjw.contact_force on one forwarded scene: every request order x both frames, each slot against
  (a) a numpy decode of the efc_force row of THE REQUESTED CONTACT'S world and (b) mj_contactForce of that world.
  d: one MjData (all worlds share its state) or one per world."""
  import mujoco
  import warp as wp

  import mujoco_warp as mjw

  fails, st = [], {"contacts": 0, "matched": 0, "dims": set(), "worst_mj": 0.0, "worst_decode": 0.0, "slots": 0, "orders": set()}
  nacon = int(dd.nacon.numpy()[0])
  if nacon == 0:
    return fails, st
  dl = d if isinstance(d, list) else [d] * dd.nworld
  hetero = isinstance(d, list)
  pyramidal = cfg["cone"] == "pyramidal"
  cdim, cfric, cadr, cworld = dd.contact.dim.numpy(), dd.contact.friction.numpy().astype(np.float64), dd.contact.efc_address.numpy(), dd.contact.worldid.numpy()
  cframe, cadh, cgeom, cpos = dd.contact.frame.numpy().astype(np.float64), dd.contact.adhesion.numpy().astype(np.float64), dd.contact.geom.numpy(), dd.contact.pos.numpy()
  efc = dd.efc.force.numpy().astype(np.float64)
  SENT = 12345.0
  # references per contact
  ref, refw, mjref = {}, {}, {}
  same = {w: H.same_constraints(m, dl[w], dd, w, frames=pyramidal, masses=True) for w in (range(dd.nworld) if hetero else [0])}
  st["same_constraint_set"] = int(sum(same.values()))
  for c in range(nacon):
    w, dim, a0 = int(cworld[c]), int(cdim[c]), int(cadr[c, 0])
    st["contacts"] += 1
    st["dims"].add((cfg["cone"], dim))
    r = np.zeros(6)
    if a0 >= 0:
      if pyramidal:
        n_e = 1 if dim == 1 else 2 * (dim - 1)
        r = decode_ref([efc[w, a0 + k] for k in range(n_e)], cfric[c], dim)
      else:
        r[:dim] = [efc[w, int(cadr[c, k])] for k in range(dim)]
      r[0] -= cadh[c]
    ref[c], refw[c] = r, np.concatenate([cframe[c].T @ r[:3], cframe[c].T @ r[3:]])
    if not same.get(w, False):
      continue
    dw = dl[w]
    for i in range(dw.ncon):
      g = dw.contact[i]
      if int(g.geom1) == int(cgeom[c][0]) and int(g.geom2) == int(cgeom[c][1]) and np.linalg.norm(g.pos - cpos[c]) < 1e-4 and g.dim == dim:
        fm = np.zeros(6)
        mujoco.mj_contactForce(m, dw, i, fm)
        fr = g.frame.reshape(3, 3)
        mjref[c] = (fm, np.concatenate([fr.T @ fm[:3], fr.T @ fm[3:]]), bool(np.max(np.abs(fr - cframe[c])) < 1e-4))
        st["matched"] += 1
        break
  if orders is None:
    orders = request_orders(rng if rng is not None else np.random.default_rng(0), nacon)[0]
  for oname, ids in orders:
    st["orders"].add(oname)
    for tw in (False, True):
      f = wp.array(np.full((len(ids), 6), SENT, dtype=np.float32), dtype=wp.spatial_vector)
      mjw.contact_force(mm, dd, wp.array(ids, dtype=int), tw, f)
      wp.synchronize()
      out = f.numpy().astype(np.float64)
      for slot, c in enumerate(ids.tolist()):
        st["slots"] += 1
        base = {"order": oname, "contact_ids": ids.tolist(), "slot": slot, "contact": c, "to_world_frame": tw, "mjw": out[slot].tolist()}
        if c >= nacon:
          if np.any(out[slot] != SENT):
            fails.append({"site": f"id-beyond-nacon-written:{oname}", **base})
          continue
        if c < 0:
          if np.any(out[slot] != 0):
            fails.append({"site": f"negative-id-nonzero:{oname}", **base})
          continue
        dim, w = int(cdim[c]), int(cworld[c])
        r = refw[c] if tw else ref[c]
        err = float(np.max(np.abs(out[slot] - r)) / (1 + np.max(np.abs(r))))
        st["worst_decode"] = max(st["worst_decode"], err)
        if err > 2e-5:
          fails.append({"site": f"decode:{cfg['cone']}:condim{dim}:world{int(tw)}:{oname}", "world": w, "expected": r.tolist(), "efc_address": cadr[c].tolist(), **base})
        if c in mjref:
          fm, fw, frames_equal = mjref[c]
          rm = fw if tw else fm
          diff = np.abs(out[slot] - rm)
          if not tw and not frames_equal:
            diff = diff[[0, 3]]  # the tangent axes of the contact frame are a free choice: only normal components are comparable
          err = float(np.max(diff) / (1 + np.max(np.abs(rm))))
          st["worst_mj"] = max(st["worst_mj"], err)
          if err > cfg.get("mj_tol", 3e-2):
            fails.append({"site": f"vs-mujoco:{cfg['cone']}:condim{dim}:world{int(tw)}:{oname}", "world": w, "mujoco": rm.tolist(), "frames_equal": frames_equal, **base})
  return fails, st


def kv_cases(ncases, seed):
  """Launch arguments for contact_force_kernel (numpy only): 2-4 worlds with different efc_force rows, request lists
  permuted / reversed / subsets / repeats / ids >= nacon; the world of a contact never equals its slot by construction."""
  rng = np.random.default_rng(seed + 3940)
  cases, infos = [], []
  for k in range(ncases):
    nworld, NJ = int(rng.integers(2, 5)), 14
    ncon = int(rng.integers(3, 7))
    nacon = ncon - (1 if k % 4 == 3 else 0)
    cone = k % 2
    cdim = rng.choice([1, 3, 4, 6], ncon).astype(np.int32)
    cworld = rng.integers(0, nworld, ncon).astype(np.int32)
    cworld[: min(ncon, nworld)] = rng.permutation(nworld)[: min(ncon, nworld)]
    cadr = -np.ones((ncon, 10), dtype=np.int32)
    for c in range(ncon):
      nrows = int(cdim[c]) if (cone != 0 or cdim[c] == 1) else 2 * (int(cdim[c]) - 1)
      base = int(rng.integers(0, NJ - nrows + 1)) if rng.random() > 0.1 else -1
      if base >= 0:
        cadr[c, :nrows] = np.arange(base, base + nrows)
    efc = (rng.standard_normal((nworld, NJ)) * 10.0 ** rng.uniform(0, 3, (nworld, 1))).astype(np.float32)
    order = [rng.permutation(nacon), np.arange(nacon)[::-1], rng.permutation(nacon)[: max(1, nacon // 2)], rng.integers(0, nacon, nacon + 1),
             rng.permutation(np.concatenate([rng.permutation(nacon)[:2], [nacon, nacon + 2]]))][k % 5]  # fmt: skip
    ids = np.asarray(order, dtype=np.int32)
    args = dict(
      opt_cone=int(cone), contact_frame_in=rng.standard_normal((ncon, 3, 3)).astype(np.float32), contact_friction_in=rng.uniform(0.05, 2, (ncon, 5)).astype(np.float32),
      contact_dim_in=cdim, contact_efc_address_in=cadr, contact_worldid_in=cworld, contact_adhesion_in=np.where(rng.random(ncon) < 0.5, 0, rng.uniform(0, 9, ncon)).astype(np.float32),
      efc_force_in=efc, njmax_in=NJ, nacon_in=np.array([nacon], dtype=np.int32), contact_ids=ids, to_world_frame=bool(k % 3 == 0),
      out=np.full((len(ids), 6), 7.0, dtype=np.float32),
    )  # fmt: skip
    cases.append(dict(dim=(len(ids),), args=args, written=["out"]))
    infos.append({"nworld": nworld, "cone": int(cone), "contact_ids": ids.tolist(), "contact_worldid": cworld.tolist(), "contact_dim": cdim.tolist(), "nacon": nacon, "to_world_frame": bool(k % 3 == 0)})
  return cases, infos


def kv_launch(case):
  """The REAL kernel on one kv case (worker process); returns the out buffer."""
  import warp as wp

  import mujoco_warp._src.support as sp
  from mujoco_warp._src.types import vec5

  a = case["args"]
  out = wp.array(a["out"].copy(), dtype=wp.spatial_vector)
  wp.launch(
    sp.contact_force_kernel, dim=case["dim"],
    inputs=[a["opt_cone"], wp.array(a["contact_frame_in"], dtype=wp.mat33), wp.array(a["contact_friction_in"], dtype=vec5), wp.array(a["contact_dim_in"], dtype=int),
            wp.array(a["contact_efc_address_in"], dtype=int), wp.array(a["contact_worldid_in"], dtype=int), wp.array(a["contact_adhesion_in"], dtype=float),
            wp.array(a["efc_force_in"], dtype=float), a["njmax_in"], wp.array(a["nacon_in"], dtype=int), wp.array(a["contact_ids"], dtype=int), a["to_world_frame"]],
    outputs=[out],
  )  # fmt: skip
  wp.synchronize()
  return out.numpy()


def kvalidate(res, trk, ncases, outs):
  """The translated contact_force_kernel vs the buffers the real kernel produced (launched in the worker process)."""
  import kvalid

  fi = getattr(trk, "kernels", {}).get("contact_force_kernel")
  if fi is None:
    return [{"error": "kernel contact_force_kernel did not translate", "detail": getattr(trk, "errors", {})}]
  cases, infos = kv_cases(ncases, vlib.seed())
  use = []
  for k, c in enumerate(cases):
    if k >= len(outs) or outs[k] is None:
      continue
    c["fi"] = fi
    c["after"] = {p: (np.asarray(outs[k], dtype=np.float32) if p == "out" else v) for p, v in c["args"].items() if isinstance(v, np.ndarray)}
    use.append(k)
    res.nontrivial(("kv", k, infos[k]["nworld"], tuple(infos[k]["contact_ids"])))
  verdicts = kvalid.run_cases(res, "C39k", "Gen.support", [cases[k] for k in use], tol=1e-4)
  res.extra["kernel_validation"] = {"cases": len(use), "agree": verdicts.count(0), "discarded": verdicts.count(1), "disagree": verdicts.count(2)}
  return [{"case": use[i], **infos[use[i]]} for i, v in enumerate(verdicts) if v == 2]


# ---------------------------------------------------------------------------------------------
# crash-tolerant worker: real launches on adversarial request lists run in a child process
# ---------------------------------------------------------------------------------------------
def run_worker(spec, timeout=600):
  """spec = {"seed", "kv": ncases, "scenes": [{xml,qpos,qvel,config,orders:[(name, ids)]}]}.  Returns (result, crash) where
  crash = None or {"returncode", "stage", "item"}: the item being processed when the child died."""
  import json
  import subprocess
  import tempfile

  d = tempfile.mkdtemp(prefix="c39w_", dir=vlib.BUILD)
  sp_, out_, prog_ = (os.path.join(d, n) for n in ("spec.json", "out.json", "progress.txt"))
  with open(sp_, "w") as fh:
    json.dump(spec, fh)
  try:
    p = subprocess.run([sys.executable, os.path.abspath(__file__), "--worker", sp_, out_, prog_], capture_output=True, text=True, timeout=timeout)
    rc, tail = p.returncode, (p.stderr or "")[-600:]
  except subprocess.TimeoutExpired:
    rc, tail = -999, "timeout"
  result = {"kv": [], "scenes": []}
  try:
    with open(out_) as fh:
      result = json.load(fh)
  except Exception:
    pass
  crash = None
  if rc != 0:
    stage, item = "start", -1
    try:
      with open(prog_) as fh:
        last = fh.read().strip().splitlines()[-1].split()
        stage, item = last[0], int(last[1])
    except Exception:
      pass
    crash = {"returncode": rc, "stage": stage, "item": item, "stderr_tail": tail}
    # partial results written before the crash
    try:
      with open(out_ + ".partial") as fh:
        result = json.load(fh)
    except Exception:
      pass
  return result, crash


def worker_main(spec_path, out_path, prog_path):
  import json
  import warnings

  warnings.filterwarnings("ignore")
  import warp as wp

  wp.config.quiet = True
  from props import C06 as B

  spec = json.load(open(spec_path))
  result = {"kv": [], "scenes": []}

  def mark(stage, i):
    with open(prog_path, "a") as fh:
      fh.write(f"{stage} {i}\n")
      fh.flush()
      os.fsync(fh.fileno())
    with open(out_path + ".partial", "w") as fh:
      json.dump(result, fh, default=float)

  cases, _ = kv_cases(int(spec.get("kv", 0)), int(spec.get("seed", 0)))
  for k, c in enumerate(cases):
    mark("kv", k)
    result["kv"].append(kv_launch(c).tolist())
  for i, sc in enumerate(spec.get("scenes", [])):
    mark("scene", i)
    m, dl, mm, dd = B.run_batch(sc["xml"], sc["qpos"], sc["qvel"])
    orders = [(n, np.asarray(x, dtype=np.int32)) for n, x in sc["orders"]]
    f, st = contact_forces(m, dl, mm, dd, sc["config"], orders=orders)
    st = {k: (sorted(map(list, v)) if isinstance(v, set) and v and isinstance(next(iter(v)), tuple) else (sorted(v) if isinstance(v, set) else v)) for k, v in st.items()}
    result["scenes"].append({"fails": f[:6], "stats": st})
  with open(out_path, "w") as fh:
    json.dump(result, fh, default=float)


def forward_oracle(res, nscenes):
  import mujoco

  from props import C06 as B

  rng = np.random.default_rng(vlib.seed() + 39)
  fails, adv_scenes, reported = [], [], set()
  agg = {"contacts": 0, "matched": 0, "dims": set(), "worst_mj": 0.0, "worst_decode": 0.0, "same_constraint_set": 0, "slots": 0, "orders": set(), "nworlds": set()}
  for k in range(nscenes):
    cone = ("pyramidal", "elliptic")[k % 2]
    condims = [(1, 3, 4, 6), (3,), (4,), (6,), (1,)][(k // 2) % 5]
    nworld = (2, 3, 4, 1)[k % 4]
    xml, cfg = H.scene(rng, cone, "Newton", ("dense", "sparse")[(k // 2) % 2], condims=condims, adhesion=(k % 3 == 0), extra_opt='tolerance="1e-10"')
    m = mujoco.MjModel.from_xml_string(xml)
    qp, qv = B.batch_states(rng, m, nworld)  # one state per world
    m, dl, mm, dd = B.run_batch(xml, qp, qv)
    cfg = dict(cfg, nworld=nworld)
    orders, adv = request_orders(rng, int(dd.nacon.numpy()[0]))
    f, st = contact_forces(m, dl, mm, dd, cfg, orders=orders)
    if int(dd.nacon.numpy()[0]):
      adv_scenes.append({"xml": xml, "qpos": qp.tolist(), "qvel": qv.tolist(), "config": cfg, "orders": [(n, x.tolist()) for n, x in adv]})
    res.count()
    for key in ("contacts", "matched", "same_constraint_set", "slots"):
      agg[key] += st.get(key, 0)
    agg["dims"] |= st["dims"]
    agg["orders"] |= st["orders"]
    for key in ("worst_mj", "worst_decode"):
      agg[key] = max(agg[key], st[key])
    if st["contacts"]:
      res.nontrivial(("forward", k, cone, nworld, st["contacts"]))
      agg["nworlds"].add(nworld)
    if k == 0:
      res.sample({"kind": "contact_force oracle", "config": cfg, "ncon": [int(d.ncon) for d in dl], "orders": [(n, x.tolist()) for n, x in orders][:3], "xml": xml[:300]})
    sites = set()
    for x in f:
      if x["site"] not in sites and len(sites) < 4:
        sites.add(x["site"])
        rec = {"xml": xml, "qpos": qp.tolist(), "qvel": qv.tolist(), "config": cfg, "failure": x}
        fails.append(rec)
        key = f"C39:contact_force:{x['site']}"
        if key not in reported and len(reported) < 6:  # reported at once: later (adversarial) launches may kill a process
          reported.add(key)
          res.violation(key, f"mjw.contact_force: {x}", rec)
  res.extra["contact_force_oracle"] = {k: (sorted(map(lambda z: list(z) if isinstance(z, tuple) else z, v)) if isinstance(v, set) else (round(v, 7) if isinstance(v, float) else v)) for k, v in agg.items()}
  return fails, agg, adv_scenes


def run(res):
  import time

  quick = res.tier == "quick"
  res.rule = (
    "T-validation: _decode_pyramid and contact_force_fn compiled with real Warp arrays (row buffers shorter than the contact, njmax_in below the buffer "
    "length, invalid / boundary contact ids, both cones, condim 1..6, adhesion, world frame) vs the Gallina term; oracle: batches of 1-4 worlds with one state per world, request lists identity/reversed/permuted/subset/repeats/out-of-range(-1, >= nacon), "
    "both cones, condim 1/3/4/6, dense/sparse, both frames, against mj_contactForce and against a numpy decode of MJWarp's efc_force"
  )
  tm = res.extra.setdefault("timing_s", {})
  t0 = time.time()
  ok, trs, failing = propkit.prove(res, PROPS, gen_names=["support"], required_funcs=FUNCS)
  tm["prove"] = round(time.time() - t0, 1)
  tr = trs.get("support")
  search = not ok
  tbad, sfails = [], []
  if tr is not None and all(f in tr.signatures() for f in FUNCS):
    try:
      tbad, sfails = tvalidate(res, 150 if quick else 1500)
      res.obligation("compiled _decode_pyramid / contact_force_fn meet the theorems' right-hand sides on generated inputs", not sfails, f"{len(sfails)} failures")
      res.obligation("T-validation: translated support.py functions agree with compiled Warp (arrays)", not tbad, f"{len(tbad)} disagreements")
    except RuntimeError as e:
      res.obligation("T-validation: translated support.py functions agree with compiled Warp (arrays)", False, str(e)[-400:])
      tbad = [{"error": str(e)[-400:]}]
    search = search or bool(tbad)
    tm["tvalid"] = round(time.time() - t0, 1)
  fails, agg, adv_scenes = forward_oracle(res, (20 if quick else 200) * (2 if search else 1))
  tm["forward"] = round(time.time() - t0, 1)
  # coverage of the random scenes depends on the draw: recorded, not an obligation (the directed kernel-validation
  # launches below cover every (cone, condim) combination on every run)
  res.extra["cone_condim_combinations_reached"] = sorted(str(x) for x in agg["dims"])
  if len(agg["dims"]) < 8:
    res.notes.append(f"random scenes reached {len(agg['dims'])} of 8 (cone, condim) combinations with this seed")
  # real launches on adversarial request lists (ids that name no contact) and the kernel-validation launches run in
  # a child process: a crash there is a violation with the request list, not the death of the check
  nkv = 15 if quick else 60
  wres, crash = run_worker({"seed": vlib.seed(), "kv": nkv, "scenes": adv_scenes[: (12 if quick else 60)]})
  tm["worker"] = round(time.time() - t0, 1)
  if crash is not None:
    if crash["stage"] == "scene" and 0 <= crash["item"] < len(adv_scenes):
      sc = adv_scenes[crash["item"]]
      data = {"xml": sc["xml"], "qpos": sc["qpos"], "qvel": sc["qvel"], "config": sc["config"], "failure": {"site": "crash", "order": sc["orders"][0][0], "contact_ids": sc["orders"][0][1], "returncode": crash["returncode"]}}
      res.violation("C39:contact_force:crash:out-of-range-request", f"mjw.contact_force kills the process (exit {crash['returncode']}) on a request list with ids that name no contact", data)
      fails = fails + [data]
    elif crash["stage"] == "kv":
      _, infos = kv_cases(nkv, vlib.seed())
      data = {"kv_case": crash["item"], "returncode": crash["returncode"], **infos[crash["item"]]}
      res.violation("C39:contact_force_kernel:crash:generated-launch", f"contact_force_kernel kills the process (exit {crash['returncode']}) on a generated launch", data)
      fails = fails + [data]
    else:
      res.violation("C39:worker-crash", f"worker process died before any launch: {crash}", crash, found_input=False)
  res.obligation("worker process (adversarial request lists, kernel-validation launches) ran to completion", crash is None, str(crash))
  nadv = 0
  for sc, r in zip(adv_scenes, wres.get("scenes", [])):
    nadv += 1
    agg["orders"].add("out-of-range")
    agg["slots"] += r["stats"].get("slots", 0)
    for x in r["fails"][:2]:
      rec = {"xml": sc["xml"], "qpos": sc["qpos"], "qvel": sc["qvel"], "config": sc["config"], "failure": x}
      fails.append(rec)
      res.violation(f"C39:contact_force:{x['site']}", f"mjw.contact_force: {x}", rec)
  res.count(nadv)
  res.extra["contact_force_oracle"]["adversarial_scenes"] = nadv
  res.extra["contact_force_oracle"]["orders"] = sorted(agg["orders"])
  res.extra["contact_force_oracle"]["slots"] = agg["slots"]
  res.obligation("oracle reached batches of 2, 3 and 4 different worlds and every request order", {2, 3, 4} <= agg["nworlds"] and len(agg["orders"]) >= 6, f"nworld {sorted(agg['nworlds'])}, orders {sorted(agg['orders'])}")
  kbad = []
  if tr is not None:
    try:
      kbad = kvalidate(res, tr, nkv, wres.get("kv", []))
    except RuntimeError as e:
      kbad = [{"error": str(e)[-400:]}]
    res.obligation("kernel validation: translated contact_force_kernel agrees with the real kernel (2-4 worlds, permuted/reversed/subset/repeated/out-of-range requests)", not kbad and res.extra.get("kernel_validation", {}).get("cases", 0) >= (nkv if crash is None else 0), f"{len(kbad)} disagreements, {res.extra.get('kernel_validation')}")
    search = search or bool(kbad)
    tm["kvalid"] = round(time.time() - t0, 1)
  for f in sfails[:3]:
    res.violation(f"C39:{f['site']}:spec", "compiled function differs from mju_decodePyramid / mj_contactForce semantics on this input", f)
  fails = fails or sfails
  if kbad and not fails:
    res.violation("C39:kernel-translation-mismatch", "translated contact_force_kernel disagrees with the real kernel (kernel-level theorem no longer tied to code)", kbad[:3], found_input=False)
  if tbad and not fails:
    res.violation("C39:translator-mismatch", "translated Gallina disagrees with compiled Warp function (model no longer tied to code)", tbad[:3], found_input=False)
  if not ok and not fails:
    propkit.broken_proof_violation(res, "C39 theorem over regenerated support.py", failing)
  res.assumptions += [
    "float32 rounding is not modelled: theorems are over R",
    "Warp arrays are modelled as total functions of integer indices (negative-index wrap is outside the theorems; T-validation feeds wrapped reads)",
    "agreement with mujoco.mj_contactForce additionally depends on the solver reaching MuJoCo's solution (tolerance 3e-2 relative, only on scenes where both engines built the same constraint set)",
    "row-buffer overflow (njmax too small for a contact's rows) is outside the theorem hypotheses (see C16)",
  ]


def replay(res, path):
  import json

  r = json.load(open(path))["replay"]
  if isinstance(r, dict) and r.get("site") in ("_decode_pyramid", "contact_force_fn"):
    import warp as wp

    from mujoco_warp._src.types import vec5

    W = _wrappers()
    out = wp.zeros(1, dtype=wp.spatial_vector)
    i32 = lambda x: wp.array(np.array([x], dtype=np.int32), dtype=int)  # noqa: E731
    if r["site"] == "_decode_pyramid":
      wp.launch(W.k_decode, dim=1, inputs=[i32(r["njmax"]), wp.array(np.array([r["pyramid"]], dtype=np.float32), dtype=float), i32(r["adr"]), wp.array(np.array([r["mu"]], dtype=np.float32), dtype=vec5), i32(r["condim"])], outputs=[out])
    else:
      wp.launch(
        W.k_cf, dim=1,
        inputs=[i32(r["cone"]), wp.array(np.array([r["frame"]] * (r["cid"] + 1), dtype=np.float32), dtype=wp.mat33), wp.array(np.array([r["friction"]] * (r["cid"] + 1), dtype=np.float32), dtype=vec5),
                wp.array(np.array([r["condim"]] * (r["cid"] + 1), dtype=np.int32), dtype=int), wp.array(np.array([r["cadr"]] * (r["cid"] + 1), dtype=np.int32), dtype=int),
                wp.array(np.array([r["adhesion"]] * (r["cid"] + 1), dtype=np.float32), dtype=float), wp.array(np.array([r["efc_row"]], dtype=np.float32), dtype=float), i32(r["njmax"]),
                wp.array(np.array([[r["nacon"]]], dtype=np.int32), dtype=int), i32(0), i32(r["cid"]), i32(r["to_world"])],
        outputs=[out],
      )  # fmt: skip
    wp.synchronize()
    got = out.numpy()[0]
    print("compiled:", got.tolist(), "\nspec    :", r["spec"])
    return 1 if np.max(np.abs(got - np.array(r["spec"]))) > 1e-4 * (1 + np.max(np.abs(r["spec"]))) else 0
  if not isinstance(r, dict) or "xml" not in r:
    print("replay: no concrete input in this file (proof/correspondence breakage); re-run the check")
    return 1
  from props import C06 as B

  if isinstance(r, dict) and "kv_case" in r:
    wres, crash = run_worker({"seed": vlib.seed(), "kv": int(r["kv_case"]) + 1, "scenes": []})
    print("worker:", "completed" if crash is None else f"died {crash}")
    return 0 if crash is None else 1
  x = r.get("failure", {})
  if x.get("site") == "crash" or x.get("order") == "out-of-range":  # adversarial request list: launched in a child process
    wres, crash = run_worker({"seed": 0, "kv": 0, "scenes": [{"xml": r["xml"], "qpos": r["qpos"], "qvel": r["qvel"], "config": r["config"], "orders": [(x.get("order", "stored"), x["contact_ids"])]}]})
    print("worker:", "completed" if crash is None else f"died {crash}")
    fl = wres["scenes"][0]["fails"] if wres.get("scenes") else []
    print("failures:", fl[:3])
    return 1 if (crash is not None or fl) else 0
  m, d, mm, dd = B.run_batch(r["xml"], r["qpos"], r["qvel"])
  orders = [(x.get("order", "stored"), np.asarray(x["contact_ids"], dtype=np.int32))] if "contact_ids" in x else None
  f, st = contact_forces(m, d, mm, dd, r["config"], rng=np.random.default_rng(0), orders=orders)
  print("stats:", st)
  print("failures:", f[:5])
  return 1 if f else 0


if __name__ == "__main__":
  if len(sys.argv) == 5 and sys.argv[1] == "--worker":
    worker_main(sys.argv[2], sys.argv[3], sys.argv[4])
