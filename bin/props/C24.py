"""C24 Constraint forces are physically admissible.

proof (T): theorems over the Gallina definitions regenerated from solver.py (_eval_constraint,
_eval_elliptic_middle) + the hand model of the kernel's argument assembly (Model/SolverHand.v);
ties: T-validation (compiled Warp function vs Gallina at binary64), kernel correspondence
(_update_constraint_efc vs SolverHand), property oracle on the compiled function and on
mjw.forward() output.

The helpers of this module (scene generator, forward runner, kernel harness) are also used by
props/C06.py and props/C39.py."""

from __future__ import annotations

import re

import numpy as np

import propkit
import vlib

MANIFEST = {
  "text": "proof: over R, about the Gallina definitions regenerated on every run from solver.py:_eval_constraint/_eval_elliptic_middle: limit / frictionless / pyramidal rows have force >= 0 (D > 0); SATISFIED rows have zero force and cost; friction-loss rows have |force| <= frictionloss; equality rows force = -D*jaref; elliptic rows: top zone zero, bottom zone quadratic, middle zone normal force > 0 and tangent formula; the assembled elliptic contact (kernel argument assembly modelled by hand in Model/SolverHand.v, run against the real kernel _update_constraint_efc every check) satisfies f_N >= 0 and sum (f_j/mu_j)^2 <= f_N^2 in all three zones under the row-mass relation D_j mu^2 = D_0 mu_j^2 that constraint.py establishes (checked on real data); the state code determines the formula. tested only: float32 rounding, qfrc_constraint = J^T force (numpy oracle), that constraint.py really establishes the D relation, the solver's other kernels",
  "note": "trusted: Coq kernel; translator bin/translate.py (validated each run against the compiled Warp functions); hand model Model/SolverHand.v of ~10 kernel lines (validated each run against the kernel); real-number axioms of Coq's Reals",
  "technique": "Rocq proof over functions machine-translated from the source (T) + hand model with executable correspondence (C) + differential/property oracle",
  "engine": "coq",
}

PROPS = "Props/C24.v"
FUNCS = ["_eval_constraint", "_eval_elliptic_middle"]

# ---------------------------------------------------------------------------------------------
# generators for T-validation of the translated solver functions
# ---------------------------------------------------------------------------------------------


def gen_eval_constraint(rng, n):
  """Inputs of _eval_constraint in the ranges the kernel produces (plus degenerate ones)."""
  kind = rng.integers(0, 4, n)  # 0 equality 1 friction 2 elliptic 3 limit/contact
  ie = kind == 0
  ifr = kind == 1
  iel = kind == 2
  # flags are independent booleans in the signature: sometimes set later flags too (earlier ones win)
  extra = rng.random(n) < 0.2
  ifr = ifr | (extra & (kind == 0))
  iel = iel | (extra & (kind <= 1))
  D = 10.0 ** rng.uniform(-1, 4, n)
  D = np.where(rng.random(n) < 0.03, 0.0, D)
  fl = np.where(rng.random(n) < 0.15, 0.0, 10.0 ** rng.uniform(-2, 1, n))
  rf = fl / np.where(D == 0, 1.0, D)
  jaref = rng.standard_normal(n) * 10.0 ** rng.uniform(-3, 2, n)
  sel = rng.random(n)
  jaref = np.where((kind == 1) & (sel < 0.5), rf * rng.uniform(-3, 3, n), jaref)
  jaref = np.where(sel > 0.95, 0.0, jaref)
  mu = np.where(rng.random(n) < 0.03, 0.0, rng.uniform(0.05, 2.0, n))
  D0 = 10.0 ** rng.uniform(-1, 4, n)
  T = np.where(rng.random(n) < 0.1, 0.0, 10.0 ** rng.uniform(-3, 1.5, n))
  # place N relative to the two zone boundaries  N = mu*T  and  N = -T/mu
  z = rng.uniform(-2, 2, n)
  N = np.where(z > 0, mu * T * z * 1.5, -T / np.where(mu == 0, 1.0, mu) * (-z) * 1.5)
  N = np.where(T == 0, rng.standard_normal(n), N)
  # keep away from heavy cancellation in N - mu*T (float32 error amplification, not a model matter)
  close = np.abs(N - mu * T) < 5e-3 * (np.abs(N) + np.abs(mu * T))
  N = np.where(close, N - 0.05 * (np.abs(N) + 1e-3), N)
  jaref0 = N / np.where(mu == 0, 1.0, mu)
  TT = T * T
  TT = np.where(rng.random(n) < 0.03, -TT, TT)
  uf = rng.standard_normal(n) * T
  efcid = rng.integers(0, 40, n)
  efcid0 = np.where(rng.random(n) < 0.4, efcid, rng.integers(0, 40, n))
  jaref = np.where((kind == 2) & (efcid == efcid0), jaref0, jaref)
  f32 = lambda a: np.asarray(a, dtype=np.float32)  # noqa: E731
  return [ie, ifr, iel, f32(jaref), f32(D), f32(fl), efcid.astype(np.int32), efcid0.astype(np.int32), f32(jaref0), f32(D0), f32(mu), f32(uf), f32(TT)]


def gen_elliptic_middle(rng, n):
  mu = np.where(rng.random(n) < 0.03, 0.0, rng.uniform(0.05, 2.0, n))
  T = np.where(rng.random(n) < 0.05, 0.0, 10.0 ** rng.uniform(-3, 1.5, n))
  N = rng.standard_normal(n) * 10.0 ** rng.uniform(-2, 1.5, n)
  close = np.abs(N - mu * T) < 5e-3 * (np.abs(N) + np.abs(mu * T))
  N = np.where(close, N - 0.05 * (np.abs(N) + 1e-3), N)
  D0 = 10.0 ** rng.uniform(-1, 4, n)
  uf = rng.standard_normal(n) * T
  f32 = lambda a: np.asarray(a, dtype=np.float32)  # noqa: E731
  return [f32(N), f32(T), f32(D0), f32(mu), f32(uf), rng.random(n) < 0.5]


def solver_tvalid(res, tr, tag, n, funcs):
  """TValid over translated solver.py functions; returns (disagreements, TValid object)."""
  import tvalid

  tv = tvalid.TValid(tag, tr, "Gen.solver")
  gens = {"_eval_constraint": gen_eval_constraint, "_eval_elliptic_middle": gen_elliptic_middle}
  for f in funcs:
    tv.add(f, gen=gens.get(f), tol=2e-3)
  bad, per = tv.run(res, n_per_fn=n)
  return bad, tv


# ---------------------------------------------------------------------------------------------
# property oracle on the COMPILED _eval_constraint (through the T-validation wrapper kernel)
# ---------------------------------------------------------------------------------------------


def function_oracle(res, tv, n, seed_off=0):
  """C24 inequalities checked directly on the compiled Warp function for random valid inputs."""
  import warp as wp

  W = tv._load_wrappers()
  rng = np.random.default_rng(vlib.seed() + 2400 + seed_off)
  ins = gen_eval_constraint(rng, n)
  # valid inputs only: D, D0, mu > 0; normal rows of elliptic contacts carry D = D0
  ins[4] = np.maximum(ins[4], np.float32(1e-3))
  ins[9] = np.maximum(ins[9], np.float32(1e-3))
  ins[10] = np.maximum(ins[10], np.float32(0.05))
  ie, ifr, iel, jaref, D, fl, efcid, efcid0, jaref0, D0, mu, uf, TT = ins
  normal = (~ie) & (~ifr) & iel & (efcid == efcid0)
  ins[3] = jaref = np.where(normal, jaref0, jaref).astype(np.float32)
  ins[4] = D = np.where(normal, D0, D).astype(np.float32)
  wins = [wp.array(np.ascontiguousarray(a), dtype=(wp.bool if a.dtype == np.bool_ else wp.int32 if a.dtype == np.int32 else wp.float32)) for a in ins]
  out = wp.zeros(n, dtype=wp.vec3)
  wp.launch(W.k__eval_constraint, dim=n, inputs=wins, outputs=[out])
  wp.synchronize()
  o = out.numpy().astype(np.float64)
  force, state, cost = o[:, 0], o[:, 1], o[:, 2]
  fails = []

  def rec(mask, site, what):
    for i in np.nonzero(mask)[0][:2]:
      fails.append({"site": site, "what": what, "inputs": {k: (v[i].item()) for k, v in zip(["is_equality", "is_friction", "is_elliptic", "jaref", "D", "frictionloss", "efcid", "efcid0", "jaref0", "D0", "mu", "ufrictionj", "TT"], ins)}, "output": o[i].tolist()})

  lim = (~ie) & (~ifr) & (~iel)
  rec(lim & (force < 0), "limit-contact-row", "limit / pyramidal / frictionless row has negative force")
  rec((state == 0) & ((force != 0) | (cost != 0)), "satisfied-row", "SATISFIED row with nonzero force or cost")
  fr = (~ie) & ifr
  rec(fr & (np.abs(force) > fl.astype(np.float64) * (1 + 1e-5) + 1e-30), "friction-row", "|force| exceeds frictionloss")
  rec(ie & (np.abs(force + D.astype(np.float64) * jaref) > 1e-5 * (1 + np.abs(force))), "equality-row", "equality force is not -D*jaref")
  rec(normal & (force < 0), "elliptic-normal-row", "elliptic normal force negative")
  rec(~np.isin(state, [0, 1, 2, 3, 4]), "state-code", "state code outside {0..4}")
  rec((state == 1) & (np.abs(force + D.astype(np.float64) * jaref) > 1e-5 * (1 + np.abs(force))), "quadratic-state", "QUADRATIC row whose force is not -D*jaref")
  rec((state == 2) & (force != fl), "linearneg-state", "LINEARNEG row whose force is not +frictionloss")
  rec((state == 3) & (force != -fl), "linearpos-state", "LINEARPOS row whose force is not -frictionloss")
  rec(cost < 0, "cost-sign", "negative row cost")
  res.count(n)
  res.nontrivial(("function-oracle", int(lim.sum()), int(fr.sum()), int(normal.sum())))
  return fails


# ---------------------------------------------------------------------------------------------
# kernel harness: the real _update_constraint_efc on generated row layouts
# ---------------------------------------------------------------------------------------------


def make_layouts(rng, nworld, consistent_D=0.6):
  """Row layouts: per world ne equality rows, nf friction rows, nl limit rows, then elliptic contacts."""
  from mujoco_warp._src import types

  ELL = int(types.ConstraintType.CONTACT_ELLIPTIC)
  worlds = []
  contacts = []  # global list
  for w in range(nworld):
    ne, nf, nl = int(rng.integers(0, 3)), int(rng.integers(0, 3)), int(rng.integers(0, 3))
    impr = float(np.float32(rng.choice([1.0, 0.5, 2.0, rng.uniform(0.3, 3)])))
    rows = []  # dict(type, id, D, fl, jaref)
    for k in range(ne + nf + nl):
      typ = 0 if k < ne else (1 if k < ne + nf else int(rng.choice([3, 4, 5, 6])))
      D = float(np.float32(10.0 ** rng.uniform(-1, 4)))
      fl = float(np.float32(10.0 ** rng.uniform(-2, 1))) if rng.random() < 0.9 else 0.0
      ja = float(np.float32(rng.standard_normal() * 10.0 ** rng.uniform(-3, 1)))
      if ne <= k < ne + nf and rng.random() < 0.5:
        ja = float(np.float32(fl / D * rng.uniform(-3, 3)))
      rows.append({"type": typ, "id": k, "D": D, "fl": fl, "jaref": ja})
    blocks = []
    for c in range(int(rng.integers(1, 4))):
      dim = int(rng.choice([3, 4, 6]))
      fric = np.float32(rng.uniform(0.05, 2.0, 5))
      if rng.random() < 0.3:
        fric[1] = fric[0]
      mu = float(np.float32(np.float32(fric[0]) * np.float32(impr)))
      D0 = float(np.float32(10.0 ** rng.uniform(-1, 4)))
      T = 0.0 if rng.random() < 0.08 else 10.0 ** rng.uniform(-3, 1)
      z = rng.uniform(-2, 2)
      N = mu * T * z * 1.5 if z > 0 else -T / mu * (-z) * 1.5
      if T == 0:
        N = rng.standard_normal()
      if abs(N - mu * T) < 5e-3 * (abs(N) + abs(mu * T)):
        N -= 0.05 * (abs(N) + 1e-3)
      j0 = float(np.float32(N / mu))
      u = rng.standard_normal(dim - 1)
      u = u / max(np.linalg.norm(u), 1e-9) * T
      jt = [float(np.float32(u[k] / fric[k])) for k in range(dim - 1)]
      consistent = rng.random() < consistent_D
      Dt = [float(np.float32(D0 * float(fric[k]) ** 2 / mu**2)) if consistent else float(np.float32(10.0 ** rng.uniform(-1, 4))) for k in range(dim - 1)]
      adr0 = len(rows)
      conid = len(contacts)
      rows.append({"type": ELL, "id": conid, "D": D0, "fl": 0.0, "jaref": j0})
      for k in range(dim - 1):
        rows.append({"type": ELL, "id": conid, "D": Dt[k], "fl": 0.0, "jaref": jt[k]})
      contacts.append({"world": w, "dim": dim, "fric": fric, "adr0": adr0})
      blocks.append({"adr0": adr0, "dim": dim, "fric": [float(x) for x in fric], "impr": impr, "j0": j0, "D0": D0, "jt": jt, "Dt": Dt, "consistent": consistent, "conid": conid})
    worlds.append({"ne": ne, "nf": nf, "nl": nl, "impr": impr, "rows": rows, "blocks": blocks})
  return worlds, contacts


def run_update_kernel(worlds, contacts):
  """Launch the real kernel; returns force, state arrays (nworld, njmax)."""
  import warp as wp

  from mujoco_warp._src import solver

  nworld = len(worlds)
  njmax = max(len(w["rows"]) for w in worlds) + 2
  ncon = len(contacts)
  z = lambda *s: np.zeros(s, dtype=np.float32)  # noqa: E731
  ne = np.array([w["ne"] for w in worlds], dtype=np.int32)
  nf = np.array([w["nf"] for w in worlds], dtype=np.int32)
  nefc = np.array([len(w["rows"]) for w in worlds], dtype=np.int32)
  typ = np.zeros((nworld, njmax), dtype=np.int32)
  eid = np.zeros((nworld, njmax), dtype=np.int32)
  D, fl, ja = z(nworld, njmax), z(nworld, njmax), z(nworld, njmax)
  for w, W in enumerate(worlds):
    for r, row in enumerate(W["rows"]):
      typ[w, r], eid[w, r], D[w, r], fl[w, r], ja[w, r] = row["type"], row["id"], row["D"], row["fl"], row["jaref"]
  cfric = np.zeros((max(ncon, 1), 5), dtype=np.float32)
  cdim = np.zeros(max(ncon, 1), dtype=np.int32)
  cadr = -np.ones((max(ncon, 1), 10), dtype=np.int32)
  for c, C in enumerate(contacts):
    cfric[c], cdim[c] = C["fric"], C["dim"]
    cadr[c, : C["dim"]] = np.arange(C["adr0"], C["adr0"] + C["dim"])
  impr = np.array([w["impr"] for w in worlds], dtype=np.float32)
  from mujoco_warp._src.types import vec5

  force = wp.array(np.full((nworld, njmax), 777.0, dtype=np.float32), dtype=wp.float32)
  state = wp.array(np.full((nworld, njmax), -7, dtype=np.int32), dtype=wp.int32)
  wp.launch(
    solver._update_constraint_efc(False),
    dim=(nworld, njmax),
    inputs=[
      wp.array(impr, dtype=wp.float32), wp.array(ne, dtype=wp.int32), wp.array(nf, dtype=wp.int32), wp.array(nefc, dtype=wp.int32),
      wp.array(cfric, dtype=vec5), wp.array(cdim, dtype=wp.int32), wp.array(cadr, dtype=wp.int32),
      wp.array(typ, dtype=wp.int32), wp.array(eid, dtype=wp.int32), wp.array(D, dtype=wp.float32), wp.array(fl, dtype=wp.float32),
      wp.array(np.array([ncon], dtype=np.int32), dtype=wp.int32), wp.array(ja, dtype=wp.float32),
      wp.zeros(nworld, dtype=wp.bool), wp.zeros(nworld, dtype=wp.bool),
    ],
    outputs=[force, state, wp.zeros((nworld, njmax), dtype=wp.int32), wp.zeros(nworld, dtype=wp.int32), wp.zeros(nworld, dtype=wp.int32)],
  )  # fmt: skip
  wp.synchronize()
  return force.numpy(), state.numpy()


def kernel_correspondence(res, nworld, tag="C24k"):
  """Model/SolverHand.v (binary64, vm_compute) vs the real kernel; also the cone property on the kernel output."""
  import tvalid

  rng = np.random.default_rng(vlib.seed() + 2424)
  worlds, contacts = make_layouts(rng, nworld)
  force, state = run_update_kernel(worlds, contacts)
  fx, fl_ = vlib.fhex, vlib.flist
  lines, meta = [], []
  cone_fails = []
  for w, W in enumerate(worlds):
    nrow = len(W["rows"])
    if np.any(force[w, nrow:] != 777.0) or np.any(state[w, nrow:] != -7):
      cone_fails.append({"site": "kernel-writes-beyond-nefc", "world": w})
    for r in range(W["ne"] + W["nf"] + W["nl"]):
      row = W["rows"][r]
      lines.append(f"tv3 {fx(2e-3)} (fun Sc => @simple_force_state float Sc ({W['ne']})%Z ({W['nf']})%Z ({r})%Z {fx(row['jaref'])} {fx(row['D'])} {fx(row['fl'])}) {fl_([force[w, r], state[w, r]])}")
      meta.append(("simple", w, r))
    for B in W["blocks"]:
      a, dim = B["adr0"], B["dim"]
      rows = "[" + "; ".join(f"({fx(B['jt'][k])}, {fx(B['fric'][k])}, {fx(B['Dt'][k])})" for k in range(dim - 1)) + "]"
      exp = []
      for k in range(dim):
        exp += [force[w, a + k], state[w, a + k]]
      lines.append(f"tv3 {fx(2e-3)} (fun Sc => rows_force_state (@block_rows float Sc ({a})%Z {fx(B['fric'][0])} {fx(B['impr'])} {fx(B['j0'])} {fx(B['D0'])} {rows})) {fl_(exp)}")
      meta.append(("block", w, B["conid"]))
      # property on the REAL kernel output: friction cone (needs the D relation in the bottom zone)
      f = force[w, a : a + dim].astype(np.float64)
      st = state[w, a : a + dim]
      scaled = sum((f[k + 1] / B["fric"][k]) ** 2 for k in range(dim - 1))
      bad = f[0] < 0 or ((B["consistent"] or st[0] != 1) and scaled > f[0] ** 2 * (1 + 2e-3) + 1e-9)
      if len(set(st.tolist())) != 1:
        bad = True
      if bad:
        cone_fails.append({"site": "kernel-elliptic-cone", "block": B, "force": f.tolist(), "state": st.tolist()})
  verdicts = tvalid.run_cases(tag, ["Gen.solver", "Model.SolverHand"], lines)
  bad = []
  nd = 0
  for (kind, w, k), v in zip(meta, verdicts):
    if v == 2 and len(bad) < 10:
      W = worlds[w]
      bad.append({"kind": kind, "world": {"ne": W["ne"], "nf": W["nf"], "impr": W["impr"]}, "row_or_contact": k, "rows": W["rows"] if kind == "simple" else [b for b in W["blocks"] if b["conid"] == k]})
    if v == 0:
      res.nontrivial(("kernel", kind, w, k))
    nd += v == 1
  res.count(len(lines))
  res.extra.setdefault("kernel_correspondence", {})[tag] = {"cases": len(lines), "agree": sum(1 for v in verdicts if v == 0), "discarded": int(nd), "disagree": sum(1 for v in verdicts if v == 2)}
  if lines:
    res.sample({"kind": "kernel correspondence", "case": lines[-1][:300]})
  return bad, cone_fails


# ---------------------------------------------------------------------------------------------
# scenes and the implementation-level oracle (after mjw.forward)
# ---------------------------------------------------------------------------------------------


FLOOR_Z = 0.45  # the floor is raised to where models.py puts the root bodies, so that fixed-base chains touch it too


def scene(rng, cone="pyramidal", solver="Newton", jacobian="dense", condims=(1, 3, 4, 6), adhesion=False, equality=None, extra_opt=""):
  """Random contact-rich model: (xml, config dict)."""
  import models

  impratio = float(rng.choice([1.0, 1.0, 0.5, 3.0])) if cone == "elliptic" else float(rng.choice([1.0, 1.0, 2.0]))
  opt = f'cone="{cone}" solver="{solver}" jacobian="{jacobian}" impratio="{impratio:g}" {extra_opt}'
  o = models.Opts(
    nbody=(2, 6), contacts=True, plane=True, condim=tuple(condims), limits=0.6, frictionloss=0.5,
    equality=int(rng.integers(0, 2)) if equality is None else equality, option=opt, sites=0.0, spread=0.25,
    joint_types=("hinge", "slide", "ball", "free"), free_only_root=True, geom_types=("sphere", "capsule", "box", "ellipsoid"),
  )  # fmt: skip
  xml, info = models.random_model(rng, o)

  def geom_attrs(m):
    s = m.group(1) + f' friction="{rng.uniform(0.2, 1.5):.3g} {rng.uniform(0.002, 0.1):.3g} {rng.uniform(0.0005, 0.05):.3g}"'
    if adhesion and rng.random() < 0.6:
      s += f' adhesion="{rng.uniform(0.5, 20):.3g}"'
    return s

  xml = re.sub(r'(<geom name="g[^"]*")', geom_attrs, xml)
  cd = int(rng.choice(condims))
  xml = xml.replace('<geom name="floor"', f'<geom name="floor" pos="0 0 {FLOOR_Z}" condim="{cd}"')
  return xml, {"cone": cone, "solver": solver, "jacobian": jacobian, "impratio": impratio, "adhesion": adhesion}


def make_state(rng, m, d):
  """Random state with bodies pushed toward the floor so that contacts occur."""
  import mujoco

  import models

  models.random_state(rng, m, d, vel_scale=float(10.0 ** rng.uniform(-1, 0.5)), unnormalized=False)
  for j in range(m.njnt):
    if m.jnt_type[j] == mujoco.mjtJoint.mjJNT_FREE:
      d.qpos[m.jnt_qposadr[j] + 2] = np.float32(FLOOR_Z + rng.uniform(-0.03, 0.25))
  return d


def run_forward(xml, qpos, qvel, nworld=2):
  """(m, d, mm, dd) after mujoco.mj_forward and mjw.forward on the same state."""
  import mujoco
  import warp as wp

  import mujoco_warp as mjw

  m = mujoco.MjModel.from_xml_string(xml)
  d = mujoco.MjData(m)
  d.qpos[:] = qpos
  d.qvel[:] = qvel
  mujoco.mj_forward(m, d)
  mm = mjw.put_model(m)
  dd = mjw.put_data(m, d, nworld=nworld, njmax=max(2 * d.nefc + 16, 32), naconmax=max(2 * nworld * d.ncon + 8, 16))
  mjw.forward(mm, dd)
  wp.synchronize()
  return m, d, mm, dd


def same_constraints(m, d, dd, w=0, frames=False, masses=False):
  """True when MuJoCo and MJWarp (world w) built the same constraint set: same row count and the same contacts
  (geoms, dimension, position, distance, contact normal; with frames=True also the tangent axes - the
  pyramidal cone is not invariant under a rotation of the tangent axes, so a different axis choice is a
  different problem).  Collision-detection differences are not a matter of C06/C24/C39."""
  if int(dd.nefc.numpy()[w]) != d.nefc or int(dd.ne.numpy()[w]) != d.ne or int(dd.nf.numpy()[w]) != d.nf:
    return False
  nacon = int(dd.nacon.numpy()[0])
  cw = dd.contact.worldid.numpy()[:nacon]
  idx = [c for c in range(nacon) if cw[c] == w]
  if len(idx) != d.ncon:
    return False
  geom, pos, dist, dim = dd.contact.geom.numpy(), dd.contact.pos.numpy(), dd.contact.dist.numpy(), dd.contact.dim.numpy()
  frame = dd.contact.frame.numpy()
  used = set()
  for c in idx:
    hit = None
    for i in range(d.ncon):
      g = d.contact[i]
      if i not in used and {int(g.geom1), int(g.geom2)} == {int(geom[c][0]), int(geom[c][1])} and int(g.dim) == int(dim[c]) \
         and np.linalg.norm(g.pos - pos[c]) < 1e-4 and abs(g.dist - dist[c]) < 1e-5:
        df = np.abs(g.frame.reshape(3, 3) - frame[c])
        if int(g.geom1) == int(geom[c][0]) and np.max(df[0]) < 1e-4 and (not frames or np.max(df) < 1e-4):
          hit = i
          break
    if hit is None:
      return False
    used.add(hit)
  if masses:  # row masses per constraint type as multisets (a differing efc_D is a C05/C06 matter, see findings/C06.json)
    nefc = int(dd.nefc.numpy()[w])
    typ, D = dd.efc.type.numpy()[w, :nefc], dd.efc.D.numpy()[w, :nefc].astype(np.float64)
    for t in set(int(x) for x in d.efc_type):
      a, b = np.sort(np.asarray(d.efc_D)[np.asarray(d.efc_type) == t]), np.sort(D[typ == t])
      if len(a) != len(b) or np.any(np.abs(a - b) > 1e-3 * np.abs(a) + 1e-9):
        return False
  return True


def efc_J_dense(mm, dd, w, nefc, nv):
  """Constraint Jacobian of world w as a dense float64 (nefc, nv) matrix (dense or CSR storage)."""
  J = dd.efc.J.numpy()
  if not mm.is_sparse:
    return J[w, :nefc, :nv].astype(np.float64)
  out = np.zeros((nefc, nv))
  nnz = dd.efc.J_rownnz.numpy()[w]
  adr = dd.efc.J_rowadr.numpy()[w]
  col = dd.efc.J_colind.numpy()[w, 0]
  val = J[w, 0]
  for r in range(nefc):
    for k in range(adr[r], adr[r] + nnz[r]):
      out[r, col[k]] += val[k]
  return out


def admissible(m, mm, dd):
  """The C24 inequalities on d.efc after forward().  Returns (failures, stats)."""
  from mujoco_warp._src import types

  CT = types.ConstraintType
  fails, stats = [], {"rows": 0, "elliptic_contacts": 0, "states": set(), "dscale_bad": 0}
  nworld = dd.nworld
  nefc_a, ne_a, nf_a = dd.nefc.numpy(), dd.ne.numpy(), dd.nf.numpy()
  typ, state, force = dd.efc.type.numpy(), dd.efc.state.numpy(), dd.efc.force.numpy().astype(np.float64)
  D, fl, eid = dd.efc.D.numpy().astype(np.float64), dd.efc.frictionloss.numpy().astype(np.float64), dd.efc.id.numpy()
  nacon = int(dd.nacon.numpy()[0])
  cdim, cfric, cadr, cworld = dd.contact.dim.numpy(), dd.contact.friction.numpy().astype(np.float64), dd.contact.efc_address.numpy(), dd.contact.worldid.numpy()
  impr = mm.opt.impratio_invsqrt.numpy()
  qfrc = dd.qfrc_constraint.numpy().astype(np.float64)
  Ma, qsm = np.abs(dd.efc.Ma.numpy().astype(np.float64)), np.abs(dd.qfrc_smooth.numpy().astype(np.float64))
  for w in range(nworld):
    nefc, ne, nf = int(nefc_a[w]), int(ne_a[w]), int(nf_a[w])
    stats["rows"] += nefc
    for r in range(nefc):
      f, s, t = force[w, r], int(state[w, r]), int(typ[w, r])
      stats["states"].add((t, s))
      if s == 0 and f != 0:
        fails.append({"site": "satisfied-row", "world": w, "row": r, "force": f})
      if ne <= r < ne + nf and abs(f) > fl[w, r] * (1 + 1e-5) + 1e-12:
        fails.append({"site": "friction-row", "world": w, "row": r, "force": f, "frictionloss": fl[w, r]})
      if r >= ne + nf and t in (CT.LIMIT_JOINT, CT.LIMIT_TENDON, CT.CONTACT_FRICTIONLESS, CT.CONTACT_PYRAMIDAL) and f < 0:
        fails.append({"site": "limit-contact-row", "world": w, "row": r, "type": t, "force": f})
      if s not in (0, 1, 2, 3, 4):
        fails.append({"site": "state-code", "world": w, "row": r, "state": s})
      if D[w, r] <= 0:
        fails.append({"site": "hypothesis-D-positive", "world": w, "row": r, "D": D[w, r]})
    # generalized constraint force
    if nefc and m.nv:
      J = efc_J_dense(mm, dd, w, nefc, m.nv)
      ref = J.T @ force[w, :nefc]
      # (with the incremental solver the public value is recovered as Ma - qfrc_smooth - grad, so its
      # rounding error scales with those terms, not with |J|'|f|)
      # and with float32 M*qacc, whose error is eps32 times the LARGEST terms of the world, not of the dof; the recovered
      # value also carries the solver's remaining gradient: 2e-5 of the world's largest term is allowed per dof)
      scale = np.abs(J).T @ np.abs(force[w, :nefc]) + 0.1 * float(np.max(np.abs(Ma[w, : m.nv]) + np.abs(qsm[w, : m.nv]) + np.abs(ref)))
      err = np.abs(ref - qfrc[w, : m.nv])
      if np.any(err > 2e-4 * scale + 1e-5):
        i = int(np.argmax(err - 2e-4 * scale))
        fails.append({"site": "qfrc_constraint", "world": w, "dof": i, "qfrc_constraint": qfrc[w, i], "Jt_force": ref[i]})
  for c in range(nacon):
    w, dim = int(cworld[c]), int(cdim[c])
    a0 = int(cadr[c, 0])
    if a0 < 0 or int(typ[w, a0]) != CT.CONTACT_ELLIPTIC:
      continue
    adr = [int(cadr[c, k]) for k in range(dim)]
    if min(adr) < 0:
      continue
    stats["elliptic_contacts"] += 1
    f = force[w, adr]
    mu = cfric[c, 0] * float(impr[w % len(impr)])
    scaled = sum((f[k] / cfric[c, k - 1]) ** 2 for k in range(1, dim))
    dbad = any(abs(D[w, adr[k]] * mu * mu - D[w, a0] * cfric[c, k - 1] ** 2) > 1e-3 * D[w, a0] * cfric[c, k - 1] ** 2 for k in range(1, dim))
    stats["dscale_bad"] += dbad
    if f[0] < 0 or scaled > f[0] ** 2 * (1 + 5e-3) + 1e-8:
      fails.append({"site": "elliptic-cone", "contact": c, "world": w, "force": f.tolist(), "friction": cfric[c].tolist(), "state": state[w, adr].tolist(), "D": D[w, adr].tolist(), "mu": mu, "D_relation_holds": not dbad})
    if len(set(state[w, adr].tolist())) != 1:
      fails.append({"site": "elliptic-state-mixed", "contact": c, "world": w, "state": state[w, adr].tolist()})
  return fails, stats


# ---------------------------------------------------------------------------------------------
# batched option / geom fields: per-world impratio, friction, solref, solimp
# ---------------------------------------------------------------------------------------------
def slope_scene(rng, cone, solver, jacobian):
  """Bodies resting on a plane under tilted gravity (some stick, some slide), one explicit pair; condim 3/4/6."""
  gx, gy = rng.uniform(2.0, 7.0) * rng.choice([-1, 1]), rng.uniform(-2.0, 2.0)
  bodies, names = "", []
  for i, (gt, size, z) in enumerate([("box", "0.1 0.08 0.05", 0.048), ("sphere", "0.07", 0.068), ("capsule", "0.04 0.1", 0.039), ("ellipsoid", "0.09 0.06 0.05", 0.048)]):
    cd = int(rng.choice([3, 4, 6]))
    quat = "1 0 0 0" if gt != "capsule" else "0.7071 0 0.7071 0"
    bodies += (
      f'<body name="b{i}" pos="{0.5 * i - 0.7:.3g} {rng.uniform(-0.1, 0.1):.3g} {z}" quat="{quat}"><freejoint/>'
      f'<geom name="g{i}" type="{gt}" size="{size}" condim="{cd}" friction="{rng.uniform(0.2, 0.9):.3g} {rng.uniform(0.002, 0.05):.3g} {rng.uniform(0.0005, 0.01):.3g}"/></body>'
    )
    names.append(f"g{i}")
  pair = f'<contact><pair geom1="floor" geom2="g3" condim="{int(rng.choice([3, 4, 6]))}" friction="{rng.uniform(0.2, 0.8):.3g} {rng.uniform(0.2, 0.8):.3g} 0.01 0.001 0.001"/></contact>'
  xml = (
    f'<mujoco><option cone="{cone}" solver="{solver}" jacobian="{jacobian}" gravity="{gx:.3g} {gy:.3g} -9.81" timestep="0.002" tolerance="1e-10" iterations="{200 if solver == "CG" else 100}"/>'
    f'<worldbody><geom name="floor" type="plane" size="5 5 .1" condim="3" friction="0.6 0.01 0.001"/>{bodies}</worldbody>{pair}</mujoco>'
  )
  return xml, {"cone": cone, "solver": solver, "jacobian": jacobian, "adhesion": False}


def run_batched_options(xml, spec, single=None):
  """forward() with per-world Model fields.  spec = {impratio:[..], fric:[scale per world], solref0:[..], solimp0:[..], dz:[..], vel:[..]};
  single = world index: a single-world run carrying that world's values in the MjModel itself (reference)."""
  import mujoco
  import warp as wp

  import mujoco_warp as mjw

  m = mujoco.MjModel.from_xml_string(xml)
  worlds = list(range(len(spec["impratio"]))) if single is None else [single]
  base = {k: getattr(m, k).copy() for k in ("geom_friction", "geom_solref", "geom_solimp", "pair_friction", "pair_solref", "pair_solimp")}

  def fields(w):
    out = {k: v.copy() for k, v in base.items()}
    out["geom_friction"][:, 0] *= spec["fric"][w]
    out["pair_friction"][:, :2] *= spec["fric"][w]
    out["geom_solref"][:, 0] = spec["solref0"][w]
    out["pair_solref"][:, 0] = spec["solref0"][w]
    out["geom_solimp"][:, 0] = spec["solimp0"][w]
    out["pair_solimp"][:, 0] = spec["solimp0"][w]
    return out

  if single is not None:
    m.opt.impratio = spec["impratio"][single]
    for k, v in fields(single).items():
      getattr(m, k)[:] = v
  d = mujoco.MjData(m)
  mujoco.mj_forward(m, d)
  qp, qv = [], []
  for w in worlds:
    q = d.qpos.copy()
    q[2::7] += spec["dz"][w]
    qp.append(q)
    v = np.zeros(m.nv)
    v[0::6] = spec["vel"][w]
    qv.append(v)
  mm = mjw.put_model(m)
  dd = mjw.put_data(m, d, nworld=len(worlds), njmax=128, naconmax=64 * len(worlds))
  if single is None:
    mm.opt.impratio_invsqrt = wp.array(1.0 / np.sqrt(np.array(spec["impratio"], dtype=np.float64)), dtype=float)
    per = [fields(w) for w in worlds]
    vt = {"geom_friction": wp.vec3, "geom_solref": wp.vec2, "geom_solimp": mm.geom_solimp.dtype, "pair_friction": mm.pair_friction.dtype, "pair_solref": wp.vec2, "pair_solimp": mm.pair_solimp.dtype}
    for k in base:
      setattr(mm, k, wp.array(np.array([p[k] for p in per], dtype=np.float32), dtype=vt[k]))
  dd.qpos = wp.array(np.array(qp, dtype=np.float32), dtype=float)
  dd.qvel = wp.array(np.array(qv, dtype=np.float32), dtype=float)
  out = []
  for phase in range(2):
    mjw.forward(mm, dd)
    wp.synchronize()
    out.append({"qacc": dd.qacc.numpy().astype(np.float64).copy(), "force": [np.sort(dd.efc.force.numpy()[w, : int(dd.nefc.numpy()[w])].astype(np.float64)) for w in range(dd.nworld)]})
    yield phase, m, mm, dd, out[-1]
    for _ in range(2):
      mjw.step(mm, dd)


def batched_options_oracle(res, nscenes):
  rng = np.random.default_rng(vlib.seed() + 2430)
  fails = []
  agg = {"scenes": 0, "worlds": 0, "rows": 0, "elliptic_contacts": 0, "dscale_bad": 0, "worst_batch_vs_single": 0.0, "states": set()}
  combos = [("elliptic", "Newton", "dense"), ("elliptic", "CG", "sparse"), ("pyramidal", "Newton", "sparse"), ("elliptic", "Newton", "sparse"), ("pyramidal", "CG", "dense"), ("elliptic", "CG", "dense")]
  for k in range(nscenes):
    cone, solver, jac = combos[k % len(combos)]
    xml, cfg = slope_scene(rng, cone, solver, jac)
    nworld = (2, 3, 4)[k % 3]
    imp = rng.permutation([10.0, 1.0, 0.3, 4.0])[:nworld]
    if k % 2 == 0:
      imp[0], imp[1] = 10.0, 1.0  # a world whose impratio is much smaller than world 0's
    spec = {"impratio": [float(x) for x in imp], "fric": [float(x) for x in rng.uniform(0.5, 1.6, nworld)], "solref0": [float(x) for x in rng.uniform(0.01, 0.04, nworld)],
            "solimp0": [float(x) for x in rng.uniform(0.7, 0.95, nworld)], "dz": [float(x) for x in rng.uniform(-0.004, 0.0, nworld)], "vel": [float(x) for x in rng.uniform(-0.3, 0.3, nworld)]}  # fmt: skip
    cfg = dict(cfg, batched=spec, nworld=nworld)
    batch = {}
    for phase, m, mm, dd, o in run_batched_options(xml, spec):
      f, st = admissible(m, mm, dd)
      batch[phase] = o
      for key in ("rows", "elliptic_contacts", "dscale_bad"):
        agg[key] += st[key]
      agg["states"] |= st["states"]
      for x in f[:3]:
        fails.append({"xml": xml, "config": cfg, "phase": phase, "failure": dict(x, site="batched:" + x["site"])})
    # batch vs a single-world run carrying the same values in the MjModel
    for w in range(nworld):
      for phase, m, mm, dd, o in run_batched_options(xml, spec, single=w):
        qb, qs = batch[phase]["qacc"][w], o["qacc"][0]
        err = float(np.max(np.abs(qb - qs)) / (1 + np.max(np.abs(qs))))
        fb, fs = batch[phase]["force"][w], o["force"][0]
        ferr = float(np.max(np.abs(fb - fs)) / (1 + np.max(np.abs(fs)))) if len(fb) == len(fs) and len(fs) else (0.0 if len(fb) == len(fs) else 1.0)
        agg["worst_batch_vs_single"] = max(agg["worst_batch_vs_single"], err, ferr)
        if err > 2e-2 or ferr > 2e-2:
          fails.append({"xml": xml, "config": cfg, "phase": phase, "failure": {"site": "batched:batch-vs-single-world", "world": w, "qacc_rel_err": err, "efc_force_rel_err": ferr, "impratio": spec["impratio"][w], "qacc_batch": qb.tolist(), "qacc_single": qs.tolist()}})
    res.count()
    res.nontrivial(("batched", k, cone, solver, jac, nworld))
    agg["scenes"] += 1
    agg["worlds"] += nworld
  res.extra["batched_options_oracle"] = {k: (sorted(map(list, v)) if isinstance(v, set) else (round(v, 6) if isinstance(v, float) else int(v))) for k, v in agg.items()}
  return fails, agg


CONFIGS = [
  ("pyramidal", "Newton", "dense"), ("elliptic", "Newton", "dense"), ("pyramidal", "CG", "dense"), ("elliptic", "CG", "sparse"),
  ("elliptic", "Newton", "sparse"), ("pyramidal", "Newton", "sparse"),
]  # fmt: skip


def forward_oracle(res, nscenes):
  rng = np.random.default_rng(vlib.seed() + 24)
  fails = []
  agg = {"rows": 0, "elliptic_contacts": 0, "states": set(), "dscale_bad": 0, "scenes_with_contacts": 0}
  for k in range(nscenes):
    cone, solver, jac = CONFIGS[k % len(CONFIGS)]
    import mujoco

    xml, cfg = scene(rng, cone, solver, jac, adhesion=(k % 3 == 2))
    m = mujoco.MjModel.from_xml_string(xml)
    d = make_state(rng, m, mujoco.MjData(m))
    qpos, qvel = d.qpos.copy(), d.qvel.copy()
    m, d, mm, dd = run_forward(xml, qpos, qvel)
    f, st = admissible(m, mm, dd)
    res.count()
    for key in ("rows", "elliptic_contacts", "dscale_bad"):
      agg[key] += st[key]
    agg["states"] |= st["states"]
    agg["scenes_with_contacts"] += d.ncon > 0
    if st["rows"]:
      res.nontrivial(("forward", k, cone, solver, jac, st["rows"]))
    if k == 0:
      res.sample({"kind": "forward oracle", "config": cfg, "nefc": int(d.nefc), "ncon": int(d.ncon), "xml": xml[:300]})
    for x in f[:3]:
      fails.append({"xml": xml, "qpos": qpos.tolist(), "qvel": qvel.tolist(), "config": cfg, "failure": x})
  res.extra["forward_oracle"] = {k: (sorted(map(list, v)) if isinstance(v, set) else int(v)) for k, v in agg.items()}
  return fails, agg


def run(res):
  quick = res.tier == "quick"
  res.rule = (
    "T-validation: random float32 inputs per translated function (all row kinds, the three elliptic zones, degenerate D/mu/TT), distinct = agreeing "
    "non-discarded cases; kernel correspondence: generated row layouts (equality/friction/limit rows + elliptic contacts of dim 3,4,6) run through the "
    "real _update_constraint_efc; function oracle: C24 predicates on the compiled _eval_constraint; forward oracle: random contact scenes x cone x solver x jacobian; batched-options oracle: 2-4 worlds with per-world impratio / geom+pair friction / solref / solimp, bodies sliding and sticking on a plane under tilted gravity, per-world admissibility and agreement with a single-world run carrying the same values"
  )
  import time

  tm = res.extra.setdefault("timing_s", {})
  t0 = time.time()
  ok, trs, failing = propkit.prove(res, PROPS, gen_names=["solver"], required_funcs=FUNCS)
  tm["prove"] = round(time.time() - t0, 1)
  tr = trs.get("solver")
  search = not ok
  tbad, kbad, ffails, cone_fails = [], [], [], []
  if tr is not None and "_eval_constraint" in tr.signatures():
    tbad, tv = solver_tvalid(res, tr, "C24", 250 if quick else 2500, [f for f in FUNCS if f in tr.signatures()])
    res.obligation("T-validation: translated solver.py functions agree with compiled Warp", not tbad, f"{len(tbad)} disagreements")
    tm["tvalid"] = round(time.time() - t0, 1)
    search = search or bool(tbad)
    ffails = function_oracle(res, tv, (20000 if quick else 200000) * (3 if search else 1))
    try:
      kbad, cone_fails = kernel_correspondence(res, 60 if quick else 600)
      res.obligation("correspondence: Model/SolverHand.v vs kernel _update_constraint_efc", not kbad, f"{len(kbad)} disagreements")
    except RuntimeError as e:  # case file does not compile (model broke with the regenerated solver.v)
      res.obligation("correspondence: Model/SolverHand.v vs kernel _update_constraint_efc", False, str(e)[-400:])
      search = True
    tm["kernel"] = round(time.time() - t0, 1)
  fails, agg = forward_oracle(res, (12 if quick else 120) * (2 if search else 1))
  bfails, bagg = batched_options_oracle(res, (6 if quick else 36) * (2 if search else 1))
  tm["batched"] = round(time.time() - t0, 1)
  agg["dscale_bad"] += bagg["dscale_bad"]
  agg["elliptic_contacts"] += bagg["elliptic_contacts"]
  seenb = set()
  for f in bfails:
    key = f"C24:forward:{f['failure']['site']}:{f['config']['cone']}"
    if key not in seenb and len(seenb) < 4:
      seenb.add(key)
      res.violation(key, f"batch of {f['config']['nworld']} worlds with per-world impratio/friction/solref/solimp, after forward(): {f['failure']}", f)
  tm["forward"] = round(time.time() - t0, 1)
  res.obligation(
    "hypothesis D_j*mu^2 = D_0*mu_j^2 holds on every sampled elliptic contact (constraint.py)", agg["dscale_bad"] == 0,
    f"{agg['dscale_bad']} of {agg['elliptic_contacts']} elliptic contacts deviate by more than 1e-3",
  )  # fmt: skip
  for f in ffails[:3]:
    res.violation(f"C24:_eval_constraint:{f['site']}", f["what"], f)
  for f in cone_fails[:3]:
    res.violation(f"C24:_update_constraint_efc:{f['site']}", "kernel output violates the friction-cone / row-layout property", f)
  for f in fails[:3]:
    res.violation(f"C24:forward:{f['failure']['site']}", f"after forward(): {f['failure']}", f)
  found = bool(ffails or cone_fails or fails or bfails)
  if tbad and not found:
    res.violation("C24:translator-mismatch", "translated Gallina disagrees with compiled Warp function (model no longer tied to code)", tbad[:3], found_input=False)
  if kbad and not found:
    res.violation("C24:kernel-model-mismatch", "Model/SolverHand.v disagrees with kernel _update_constraint_efc (hand model no longer tied to code)", kbad[:3], found_input=False)
  if not ok and not found:
    propkit.broken_proof_violation(res, "C24 theorem over regenerated solver.py", failing)
  res.assumptions += [
    "float32 rounding is not modelled: theorems are over R; oracles use tolerances 1e-5 (row bounds) / 5e-3 (cone)",
    "D > 0 on every row (checked on real data by the forward oracle); mu > 0 for elliptic contacts",
    "assembled cone theorem assumes D_j*mu^2 = D_0*mu_j^2 (constraint.py row construction; checked on real data each run)",
    "early-return paths of _update_constraint_efc (done world, conid >= nacon, negative row address) are not modelled",
  ]


def replay(res, path):
  import json

  r = json.load(open(path))["replay"]
  if isinstance(r, list) or not isinstance(r, dict):
    print("replay: no concrete input in this file (proof/correspondence breakage); re-run the check")
    return 1
  if "xml" in r and "batched" in r.get("config", {}):
    bad = []
    for phase, m, mm, dd, o in run_batched_options(r["xml"], r["config"]["batched"]):
      f, st = admissible(m, mm, dd)
      bad += [dict(x, phase=phase) for x in f]
    print("failures:", bad[:4])
    return 1 if bad else 0
  if "xml" in r:
    m, d, mm, dd = run_forward(r["xml"], np.array(r["qpos"]), np.array(r["qvel"]))
    f, st = admissible(m, mm, dd)
    print("failures:", f[:5])
    return 1 if f else 0
  if "inputs" in r:
    import gens

    tr = gens.GENS["solver"]()
    import tvalid
    import warp as wp

    tv = tvalid.TValid("C24", tr, "Gen.solver")
    tv.add("_eval_constraint")
    W = tv._load_wrappers()
    i = r["inputs"]
    order = ["is_equality", "is_friction", "is_elliptic", "jaref", "D", "frictionloss", "efcid", "efcid0", "jaref0", "D0", "mu", "ufrictionj", "TT"]
    dts = [wp.bool] * 3 + [wp.float32] * 3 + [wp.int32] * 2 + [wp.float32] * 5
    out = wp.zeros(1, dtype=wp.vec3)
    wp.launch(W.k__eval_constraint, dim=1, inputs=[wp.array([i[k]], dtype=t) for k, t in zip(order, dts)], outputs=[out])
    print("inputs:", i, "\n_eval_constraint ->", out.numpy()[0], "(stored:", r.get("output"), ")")
    return 1
  print("replay data:", str(r)[:2000])
  return 1
