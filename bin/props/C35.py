"""C35 Rendered depth and segmentation match ray casting.

proof   : Props/C35.v (Proof/Ray.v): pixel_ray theorems on the translated compute_ray (unit direction
          through the pixel centre for fovy / intrinsic perspective cameras; orthographic: optical axis
          direction and pixel-centre origin of the repaired kernel), _build_rays write / pixel index,
          render_pixel (Model/Ray.v copy of _render_megakernel + cast_ray) = nearest_fold instance.
tie     : T-validation of compute_ray, kernel validation of _build_rays, per-pixel correspondence inside Coq
          (render_pixel over translated compute_ray + ray_geom vs the real render kernel's depth / seg).
oracle  : small images (8x6) of random scenes and cameras, every world: rendered depth and segmentation vs
          mjw.rays cast along the same pixel rays among the rendered geoms; get_depth / get_segmentation
          extraction; directed regression probes (orthographic camera and off-centre mesh: repaired in /repo; hfield: open)."""

from __future__ import annotations

import json

import numpy as np

import gens_ray as G
import propkit
import vlib

MANIFEST = {
  "text": "proof: over R, on the Gallina definition regenerated from render_util.compute_ray: for a perspective camera given by fovy (sensorsize[1]=0) or by intrinsics (focal, principal point, sensor cropped to the image aspect) the pixel direction is the UNIT vector through the pixel centre ((px+1/2)/W,(py+1/2)/H) of the near-plane window, pointing along -z (closed-form components); for an orthographic camera compute_ray returns the optical axis for every pixel and the render kernel (hand model render_origin of the offset added in /repo 2e971a4) starts the ray at the pixel centre of the image window of height fovy: the ray is parallel to the axis, passes through that pixel's centre at every depth, and distinct pixels get distinct rays (this replaces the former `_refuted` theorem about the unrepaired kernel); _build_rays stores compute_ray(px,py) at offset+px+py*W and (px,py) is recovered by C rem/quot; the model render_pixel (copy of _render_megakernel + cast_ray: optional back-face cull, `d>=0 and d<best` update in any visiting order, depth = dist * -dir_z, seg = (geom, mjOBJ_GEOM), miss = depth 0 / seg (-1,-1)) returns the nearest eligible candidate (nearest_fold instance). the scene-BVH leaf layout written by build/refit (hand index of _compute_bvh_bounds whose stride argument total_bvh_size = bvh_ngeom + bvh_nflexgeom is read from the source on every run; translated _compute_flex_bvh_bounds) is read back by the ray kernels as the enabled geom in every world, flex leaves skipped, no collisions. tested only: float32, the Warp BVH traversal, the refitted leaf contents (checked per world after mjw.refit_bvh on moved scenes with a flex, nworld 2 and 3, together with depth / segmentation vs rays()), mesh / hfield / flex / splat hits, extraction kernels; not covered: shading, textures",
  "note": "trusted: Coq kernel; translator bin/translate.py (compute_ray / _build_rays / ray_geom validated each run against the compiled code); Model/Ray.v render_pixel hand model (validated per pixel against the real render kernel inside Coq on primitive scenes); real-number axioms of Coq's Reals; mjw.rays (property C34) as the reference the oracle compares the renderer with",
  "technique": "Rocq proof over functions machine-translated from the source (T) + hand model of the pixel pipeline, translation validation, kernel validation, per-pixel correspondence inside Coq, differential oracle render vs rays",
  "engine": "coq",
}

PROPS = "Props/C35.v"
REQ = ["compute_ray", "ray_geom", "_ray_eliminate", "_ray_quad", "ray_plane", "ray_sphere", "_ray_geom_mesh", "_ray_map"]
W, H = 8, 6
OBJ_GEOM = 5
OBJ_FLEX = 9


# ---------------------------------------------------------------- T-validation of compute_ray
def g_compute_ray(rng, n):
  proj = rng.choice([0, 0, 0, 1], n).astype(np.int32)
  fovy = rng.uniform(10, 120, n).astype(np.float32)
  sens = rng.uniform(1e-3, 1e-2, (n, 2)).astype(np.float32)
  sens[rng.random(n) < 0.5, 1] = 0.0
  k = rng.random(n) < 0.15  # sensor aspect equal to the image aspect (neither crop branch)
  intr = np.concatenate([rng.uniform(1e-3, 1e-2, (n, 2)), rng.normal(0, 3e-4, (n, 2))], axis=1).astype(np.float32)
  w = rng.integers(1, 65, n).astype(np.int32)
  h = rng.integers(1, 65, n).astype(np.int32)
  sens[k & (sens[:, 1] != 0), 0] = (sens[:, 1] * w / h)[k & (sens[:, 1] != 0)]
  px = (rng.random(n) * w).astype(np.int32)
  py = (rng.random(n) * h).astype(np.int32)
  zn = rng.uniform(1e-3, 0.1, n).astype(np.float32)
  return [proj, fovy, sens, intr, w, h, px, py, zn]


def tvalidate(res, tr, n):
  import tvalid

  tv = tvalid.TValid("C35", tr, "Gen.T_render_util")
  tv.add("compute_ray", gen=g_compute_ray, tol=2e-4)
  bad, per = tv.run(res, n_per_fn=n, label="T-validation render_util.compute_ray")
  return bad


def kvalidate(res, tr, ncases):
  """translated kernel _build_rays vs the real kernel on the same launch grid"""
  import warp as wp

  import kvalid
  import mujoco_warp._src.render_util as RU

  fi = tr.kernels.get("_build_rays")
  if fi is None:
    return [{"error": "kernel _build_rays did not translate", "detail": tr.errors}]
  rng = np.random.default_rng(vlib.seed() + 3511)
  cases = []
  for k in range(ncases):
    w, h = int(rng.integers(1, 6)), int(rng.integers(1, 5))
    off = int(rng.integers(0, 4))
    sens = (float(rng.uniform(1e-3, 1e-2)), 0.0 if k % 2 else float(rng.uniform(1e-3, 1e-2)))
    intr = tuple(float(x) for x in np.concatenate([rng.uniform(1e-3, 1e-2, 2), rng.normal(0, 3e-4, 2)]))
    cases.append(dict(kernel=RU._build_rays, fi=fi, dim=(w, h),
                      args=dict(offset=off, img_w=w, img_h=h, projection=int(k % 5 == 4), fovy=float(rng.uniform(20, 100)),
                                sensorsize=wp.vec2(*sens), intrinsic=wp.vec4(*intr), znear=float(rng.uniform(1e-3, 0.1)),
                                ray_out=np.zeros((off + w * h + 2, 3), dtype=np.float32)),
                      written=["ray_out"]))  # fmt: skip
    res.nontrivial(("kv", k, w, h))
  verdicts = kvalid.run_cases(res, "C35k", "Gen.T_render_util", cases)
  res.extra["kernel_validation"] = {"agree": verdicts.count(0), "discarded": verdicts.count(1), "disagree": verdicts.count(2)}
  return [{"case": i, "dim": cases[i]["dim"]} for i, v in enumerate(verdicts) if v == 2]


# ---------------------------------------------------------------- scenes / rendering
def build(xml, rng, nworld=2):
  import props.C34 as C34

  return C34.build(xml, rng, nworld=nworld)


def render(m, mm, dd, cull, groups, nworld=2, res_wh=(W, H)):
  import mujoco_warp as mjw

  rc = mjw.create_render_context(m, nworld=nworld, cam_res=res_wh, render_rgb=False, render_depth=True, render_seg=True,
                                 enabled_geom_groups=list(groups), enable_backface_culling=bool(cull))  # fmt: skip
  mjw.refit_bvh(mm, dd, rc)
  mjw.render(mm, dd, rc)
  return rc


def images(rc, cam, nworld, w=W, h=H):
  """raw depth / segmentation of one camera as (nworld, H, W[,2]) plus the get_depth/get_segmentation views"""
  import warp as wp

  import mujoco_warp as mjw

  da, sa = int(rc.depth_adr.numpy()[cam]), int(rc.seg_adr.numpy()[cam])
  dep = rc.depth_data.numpy()[:, da : da + w * h].reshape(nworld, h, w)
  seg = rc.seg_data.numpy()[:, sa : sa + w * h].reshape(nworld, h, w, 2)
  gd = wp.zeros((nworld, h, w), dtype=float)
  gs = wp.zeros((nworld, h, w), dtype=wp.vec2i)
  mjw.get_depth(rc, cam, 4.0, gd)
  mjw.get_segmentation(rc, cam, gs)
  return dep, seg, gd.numpy(), gs.numpy()


def pixel_rays(m, dd, cam, nworld, w=W, h=H):
  """origins / world directions (float32) of the property's pixel rays of one camera, every world.
  Perspective: from the camera position through the pixel centre of the near-plane window.  Orthographic:
  parallel to the optical axis from the pixel centre of the image window of height fovy (MuJoCo's
  convention: fovy of an orthographic camera is the window height in length units)."""
  znear = float(m.vis.map.znear * m.stat.extent)
  dl = G.pixel_dirs(m, cam, w, h, znear)
  xpos, xmat = dd.cam_xpos.numpy(), dd.cam_xmat.numpy()
  pnt = np.zeros((nworld, h * w, 3), np.float64)
  vec = np.zeros((nworld, h * w, 3), np.float64)
  off = np.zeros((h * w, 3))
  if m.cam_projection[cam] == 1:
    hh = float(m.cam_fovy[cam]) / 2
    hw = hh * w / h
    for py in range(h):
      for px in range(w):
        u, v = (px + 0.5) / w, (py + 0.5) / h
        off[py * w + px] = [-hw + 2 * hw * u, hh - 2 * hh * v, 0.0]
  for wd in range(nworld):
    R = xmat[wd, cam].astype(np.float64)
    pnt[wd] = xpos[wd, cam] + (R @ off.T).T
    vec[wd] = (R @ dl.reshape(-1, 3).T).T
  return dl, pnt.astype(np.float32), vec.astype(np.float32)


# ---------------------------------------------------------------- per-pixel correspondence inside Coq
def pixel_correspondence(res, trr, tru, nscenes, npix):
  """Model/Ray.v render_pixel over the translated compute_ray and ray_geom, vm_compute'd on the arrays of
  random primitive scenes, vs the depth / segmentation the real render kernel wrote for that pixel."""
  import tvalid

  if "compute_ray" not in tru.signatures() or "ray_geom" not in trr.signatures():
    return [{"error": "compute_ray / ray_geom not translated"}]
  rng = np.random.default_rng(vlib.seed() + 3501)
  defs, lines, meta = [G.COQ_ARRAY_DEFS], [], []
  for s in range(nscenes):
    ncam = 2
    cams = G.random_cameras(rng, ncam, W, H, ortho=0.34)
    xml = G.scene(rng, ngeom=(2, 6), types=G.PRIMS, alpha0=0.0, mats=False, cameras=cams, plane_infinite=0.3)
    m, ds, mm, dd = build(xml, rng)
    cull = bool(s % 2)
    groups = (0, 1, 2) if s % 3 else (0, 1, 2, 3, 4, 5)
    if not np.isin(m.geom_group, groups).any():  # a render context without any geom crashes in wp.Bvh (noted in C34's findings)
      groups = (0, 1, 2, 3, 4, 5)
    rc = render(m, mm, dd, cull, groups)
    order = rc.enabled_geom_ids.numpy()
    znear = float(m.vis.map.znear * m.stat.extent)
    gt = mm.geom_type.numpy()
    gs = mm.geom_size.numpy()[0]
    xp, xm = dd.geom_xpos.numpy(), dd.geom_xmat.numpy()
    cxp, cxm = dd.cam_xpos.numpy(), dd.cam_xmat.numpy()
    tag = f"p{s}"
    defs.append(f"Definition {tag}_type := az {G.zl(gt)}.\nDefinition {tag}_size := avf [{'; '.join(G.fl(r) for r in gs)}].")
    for wd in range(2):
      defs.append(f"Definition {tag}_xpos{wd} := avf [{'; '.join(G.fl(r) for r in xp[wd])}].\nDefinition {tag}_xmat{wd} := avf [{'; '.join(G.fl(r) for r in xm[wd].reshape(len(gt), 9))}].")
    for c in range(ncam):
      dep, seg, _, _ = images(rc, c, 2)
      proj, fovy = int(m.cam_projection[c]), float(np.float32(m.cam_fovy[c]))
      sens, intr = np.float32(m.cam_sensorsize[c]), np.float32(m.cam_intrinsic[c])
      for _ in range(npix):
        wd, px, py = int(rng.integers(0, 2)), int(rng.integers(0, W)), int(rng.integers(0, H))
        gdf = f"(fun o d g => @ray_geom float Sc ({tag}_xpos{wd} g) ({tag}_xmat{wd} g) ({tag}_size g) o d ({tag}_type g))"
        cr = f"(@compute_ray float Sc ({proj})%Z {vlib.fhex(fovy)} {G.fl(sens)} {G.fl(intr)} ({W})%Z ({H})%Z ({px})%Z ({py})%Z {vlib.fhex(np.float32(znear))})"
        exp = [float(dep[wd, py, px]), int(seg[wd, py, px, 0]), int(seg[wd, py, px, 1])]
        lines.append(f"tv3 {vlib.fhex(3e-4)} (fun Sc => let '(dp, (sa, sb)) := @render_pixel float Sc {'true' if cull else 'false'} ({proj})%Z {vlib.fhex(fovy)} ({W})%Z ({H})%Z ({px + py * W})%Z {G.fl(cxp[wd, c])} {G.fl(cxm[wd, c].reshape(9))} {cr} {gdf} {G.zl(order)} in [dp; f_ofZ sa; f_ofZ sb]) {vlib.flist(exp)}")
        meta.append(dict(xml=xml, qpos=ds[wd].qpos.tolist(), world=wd, camera=c, px=px, py=py, cull=cull, groups=list(groups), projection=proj, impl=exp))
  verdicts = tvalid.run_cases("C35p", ["Model.Ray", "Gen.T_ray", "Gen.T_render_util"], lines, chunk=60, extra_defs="\n".join(defs))
  bad = []
  for md, v in zip(meta, verdicts):
    if v == 0:
      res.nontrivial(("px", md["xml"][:80], md["world"], md["camera"], md["px"], md["py"]))
    elif v == 2 and len(bad) < 10:
      bad.append(md)
  res.count(len(verdicts))
  res.extra["pixel_correspondence"] = {"cases": len(verdicts), "agree": verdicts.count(0), "discarded": verdicts.count(1), "disagree": verdicts.count(2),
                                       "hit_pixels": sum(1 for md in meta if md["impl"][1] >= 0),
                                       "orthographic_pixels": sum(1 for md in meta if md["projection"] == 1)}  # fmt: skip
  if meta:
    res.sample({"kind": "pixel correspondence (render_pixel model vs real render kernel)", **{k: meta[0][k] for k in ("world", "camera", "px", "py", "cull", "impl")}})
  return bad


# ---------------------------------------------------------------- oracle: render vs rays, per pixel
def hfield_side_hit(m, d, g, p, v, dist):
  """is the hit point of rays() on hfield geom g on its base box or a side wall (not on the top surface)?"""
  hid = int(m.geom_dataid[g])
  sx, sy, sz, _ = m.hfield_size[hid]
  R = d.geom_xmat[g].reshape(3, 3)
  q = R.T @ (np.asarray(p, dtype=np.float64) + dist * np.asarray(v, dtype=np.float64) - d.geom_xpos[g])
  return bool(abs(q[0]) >= sx * (1 - 1e-4) or abs(q[1]) >= sy * (1 - 1e-4) or q[2] < -1e-5)


def near_discontinuity(m, d, p, v, gg, rg, rdist, rng, k=10, eps=5e-4):
  import props.C34 as C34

  p, v = np.asarray(p, dtype=np.float64), np.asarray(v, dtype=np.float64)
  for _ in range(k):
    x, g, _ = C34.mj_cast(m, d, p + rng.normal(0, eps, 3) * (1 + np.abs(p)), v + rng.normal(0, eps, 3), gg, True, -1)
    if g == rg and (g < 0 or abs(x - rdist) <= 5e-3 * (1 + abs(x))):
      return True
  return False


def compare_camera(m, mm, dd, rc, cam, groups, cull, rng, ds, nworld=2, w=W, h=H):
  """returns (npixels compared, ndiscarded, failures) for one camera"""
  import props.C34 as C34

  dep, seg, gdep, gseg = images(rc, cam, nworld, w, h)
  dl, pnt, vec = pixel_rays(m, dd, cam, nworld, w, h)
  fails = []
  rr = rc.ray.numpy()
  off = sum(int(a) * int(b) for a, b in rc.cam_res.numpy()[:cam])
  stored = rr[off : off + w * h].reshape(h, w, 3)
  if float(np.abs(stored - dl).max()) > 2e-5:
    fails.append(dict(kind="pixel-direction", camera=cam, err=float(np.abs(stored - dl).max()), projection=int(m.cam_projection[cam])))
  # extraction kernels: get_depth clamps depth/scale to [0,1]; get_segmentation copies
  if float(np.abs(gdep - np.clip(dep / 4.0, 0, 1)).max()) > 1e-6 or not np.array_equal(gseg, seg):
    fails.append(dict(kind="extraction", camera=cam))
  gg = [1 if g in groups else 0 for g in range(6)]
  dist, gid, nrm = C34.cast(mm, dd, pnt, vec, gg, True, np.full(w * h, -1))
  dist, gid, nrm = dist.reshape(nworld, h, w), gid.reshape(nworld, h, w), nrm.reshape(nworld, h, w, 3)
  ncmp = ndisc = 0
  for wd in range(nworld):
    for py in range(h):
      for px in range(w):
        ncmp += 1
        g = int(gid[wd, py, px])
        exp_depth = float(dist[wd, py, px] * -dl[py, px, 2]) if g >= 0 else 0.0
        exp_seg = (g, OBJ_GEOM) if g >= 0 else (-1, -1)
        if cull and g >= 0 and float(np.dot(vec[wd, py * w + px], nrm[wd, py, px])) > 0:
          ndisc += 1  # the nearest hit is a back face: the renderer culls it and sees what is behind (not given by rays())
          continue
        if g >= 0 and int(m.geom_type[g]) == 1 and hfield_side_hit(m, ds[wd], g, pnt[wd, py * w + px], vec[wd, py * w + px], float(dist[wd, py, px])):
          ndisc += 1  # base box / side wall of a height field: the open finding C35:render:hfield-base-and-sides-not-rendered
          continue
        sg = tuple(int(v) for v in seg[wd, py, px])
        if sg[1] == OBJ_FLEX:
          ndisc += 1  # a flex primitive is in front: rays() does not cast against flexes
          continue
        if sg == exp_seg and abs(float(dep[wd, py, px]) - exp_depth) <= 1e-3 * (1 + abs(exp_depth)):
          continue
        # near a silhouette / two geoms at almost the same depth: some tiny perturbation of the ray makes
        # MuJoCo return what was rendered -> discard, do not compare
        rd = float(dep[wd, py, px]) / max(float(-dl[py, px, 2]), 1e-9)
        if near_discontinuity(m, ds[wd], pnt[wd, py * w + px], vec[wd, py * w + px], gg, sg[0], rd, rng):
          ndisc += 1
          continue
        fails.append(dict(kind="pixel", camera=cam, world=wd, px=px, py=py, rendered=[float(dep[wd, py, px]), *sg], expected=[exp_depth, *exp_seg],
                          projection=int(m.cam_projection[cam]), geom_types=sorted({G.TYPE_NAME[int(m.geom_type[k])] for k in (sg[0], g) if k >= 0})))  # fmt: skip
  return ncmp, ndisc, fails


def oracle(res, nscenes, types, tag, meshes=("cube", "octa")):
  rng = np.random.default_rng(vlib.seed() + 3502 + len(tag))
  allf, ncmp, ndisc, nhit = [], 0, 0, 0
  for s in range(nscenes):
    ncam = int(rng.integers(1, 4))
    cams = G.random_cameras(rng, ncam, W, H, ortho=0.3)
    xml = G.scene(rng, types=types, alpha0=0.0, mats=False, cameras=cams, meshes=meshes, plane_infinite=0.3)
    m, ds, mm, dd = build(xml, rng)
    cull = bool(s % 2)
    groups = (0, 1, 2) if s % 3 else (0, 1, 2, 3, 4, 5)
    if not np.isin(m.geom_group, groups).any():  # a render context without any geom crashes in wp.Bvh (noted in C34's findings)
      groups = (0, 1, 2, 3, 4, 5)
    rc = render(m, mm, dd, cull, groups)
    for c in range(ncam):
      n, nd, fails = compare_camera(m, mm, dd, rc, c, groups, cull, rng, ds)
      ncmp += n
      ndisc += nd
      for f in fails:
        f.update(xml=xml, qpos=[d.qpos.tolist() for d in ds], cull=cull, groups=list(groups))
      allf += fails
    nhit += int((rc.seg_data.numpy()[:, :, 0] >= 0).sum())
    res.nontrivial(("or", tag, xml[:200]))
    if s == 0:
      res.sample({"kind": f"oracle render vs rays ({tag})", "xml": xml[:300], "cameras": ncam, "cull": cull, "groups": list(groups), "hit_pixels": int((rc.seg_data.numpy()[:, :, 0] >= 0).sum())})
  res.count(ncmp)
  res.extra.setdefault("oracle_render_vs_rays", {})[tag] = {"pixels": ncmp, "hit_pixels": nhit, "discarded": ndisc, "disagree": len(allf)}
  return allf


# ---------------------------------------------------------------- refit: leaf layout of the scene BVH
def refit_layout(m, mm, dd, rc, nworld):
  """After mjw.refit_bvh: leaf w*(bvh_ngeom+bvh_nflexgeom)+k must hold, for EVERY world w, the box of enabled
  geom k in world w's pose (group w, box containing that geom's position) and the flex leaves behind them
  group w.  This is the output of the traced _compute_bvh_bounds / _compute_flex_bvh_bounds refit launches."""
  n, f = int(rc.bvh_ngeom), int(rc.bvh_nflexgeom)
  lo, up, grp = rc.lower.numpy(), rc.upper.numpy(), rc.group.numpy()
  en = rc.enabled_geom_ids.numpy()
  xpos = dd.geom_xpos.numpy()
  bad = []
  if len(grp) != nworld * (n + f):
    return [dict(kind="size", len=int(len(grp)), expected=nworld * (n + f))]
  for w in range(nworld):
    for k in range(n + f):
      i = w * (n + f) + k
      if int(grp[i]) != w:
        bad.append(dict(kind="group", world=w, local=k, leaf=i, group=int(grp[i])))
      elif k < n:
        p = xpos[w, en[k]]
        tol = 1e-4 * (1 + np.abs(p))
        if not (np.all(lo[i] - tol <= p) and np.all(p <= up[i] + tol)):
          bad.append(dict(kind="box", world=w, local=k, geom=int(en[k]), leaf=i, lower=lo[i].tolist(), upper=up[i].tolist(), geom_xpos=p.tolist()))
  return bad


def launch_stride_extraction():
  """S tie: the per-world stride argument of the _compute_bvh_bounds launches in bvh.build_scene_bvh and
  bvh.refit_scene_bvh, read from the source (ast).  Returns {function: source text of that argument}."""
  import ast
  import inspect

  import mujoco_warp._src.bvh as B

  src = inspect.getsource(B)
  tree = ast.parse(src)
  params = [a.arg for a in next(n for n in tree.body if isinstance(n, ast.FunctionDef) and n.name == "_compute_bvh_bounds").args.args]
  pos = params.index("bvh_ngeom")
  out = {}
  for fn in tree.body:
    if isinstance(fn, ast.FunctionDef) and fn.name in ("build_scene_bvh", "refit_scene_bvh"):
      total = None
      for node in ast.walk(fn):
        if isinstance(node, ast.Assign) and len(node.targets) == 1 and isinstance(node.targets[0], ast.Name) and node.targets[0].id == "total_bvh_size":
          total = ast.unparse(node.value)
        if isinstance(node, ast.Call) and ast.unparse(node.func) == "wp.launch":
          kw = {k.arg: k.value for k in node.keywords}
          if "kernel" in kw and ast.unparse(kw["kernel"]) == "_compute_bvh_bounds":
            ins = kw["inputs"].elts + (kw["outputs"].elts if "outputs" in kw else [])
            out[fn.name] = (ast.unparse(ins[pos]), total)
  return out


def oracle_flex_refit(res, nscenes):
  """scenes WITH a flex, nworld in {2,3}: the context is built at the default pose, the bodies (and flex
  vertices) are moved differently in every world, mjw.refit_bvh, render; leaf layout of the refitted BVH and
  depth / segmentation vs rays() per pixel IN EVERY WORLD."""
  import mujoco_warp as mjw

  rng = np.random.default_rng(vlib.seed() + 3503)
  allf, ncmp, ndisc, nflexpix, nleaf = [], 0, 0, 0, 0
  for s in range(nscenes):
    nworld = 2 + s % 2
    ncam = 2
    cams = G.random_cameras(rng, ncam, W, H, ortho=0.2)
    flex = (f'<flexcomp name="f" type="grid" count="{int(rng.integers(2, 4))} {int(rng.integers(2, 4))} 1" spacing="0.25 0.25 0.25" pos="{G.fmt(rng.normal(0, 0.6, 3))}" '
            'radius="0.01" dim="2"><edge equality="false"/></flexcomp>')  # fmt: skip
    xml = G.scene(rng, ngeom=(4, 8), types=G.PRIMS, alpha0=0.0, mats=False, cameras=cams, plane_infinite=0.3, groups=3, nbody=(2, 3))
    xml = xml.replace("</worldbody>", flex + "</worldbody>")
    m, ds, mm, dd = build(xml, rng, nworld=nworld)
    groups = (0, 1, 2)
    rc = mjw.create_render_context(m, nworld=nworld, cam_res=(W, H), render_rgb=False, render_depth=True, render_seg=True,
                                   enabled_geom_groups=list(groups), enable_backface_culling=bool(s % 2))  # fmt: skip
    mjw.refit_bvh(mm, dd, rc)
    lay = refit_layout(m, mm, dd, rc, nworld)
    nleaf += nworld * (int(rc.bvh_ngeom) + int(rc.bvh_nflexgeom))
    for b in lay[:2]:
      allf.append(dict(kind="refit-layout", detail=b, xml=xml, qpos=[d.qpos.tolist() for d in ds], nworld=nworld, cull=bool(s % 2), groups=list(groups), camera=0, projection=0, geom_types=[]))
    mjw.render(mm, dd, rc)
    for c in range(ncam):
      n, nd, fails = compare_camera(m, mm, dd, rc, c, groups, bool(s % 2), rng, ds, nworld=nworld)
      ncmp += n
      ndisc += nd
      for f in fails:
        f.update(xml=xml, qpos=[d.qpos.tolist() for d in ds], nworld=nworld, cull=bool(s % 2), groups=list(groups), flex=True)
      allf += fails
    nflexpix += int((rc.seg_data.numpy()[:, :, 1] == OBJ_FLEX).sum())
    res.nontrivial(("flex", xml[:200]))
    if s == 0:
      res.sample({"kind": "oracle render vs rays after refit_bvh, scene with a flex", "xml": xml[:300], "nworld": nworld, "bvh_ngeom": int(rc.bvh_ngeom), "bvh_nflexgeom": int(rc.bvh_nflexgeom)})
  res.count(ncmp + nleaf)
  res.extra.setdefault("oracle_render_vs_rays", {})["flex-refit"] = {"pixels": ncmp, "flex_pixels_skipped": nflexpix, "discarded": ndisc, "leaves_checked": nleaf, "disagree": len(allf)}
  return allf


def oracle_hfield_render(res, nscenes, max_n=7):
  """structured (piecewise-planar) height fields seen FROM ABOVE by cameras inside the footprint (every pixel
  ray reaches the top surface first, or nothing: no base / side-wall hits, which are the open finding): rendered
  depth / segmentation vs rays() per pixel, nworld 1-2, perspective and orthographic cameras."""
  rng = np.random.default_rng(vlib.seed() + 3504)
  allf, ncmp, ndisc, nhf = [], 0, 0, 0
  for s in range(nscenes):
    nr, nc = int(rng.integers(2, max_n + 1)), int(rng.integers(2, max_n + 2))
    kind = G.TERRAINS[s % len(G.TERRAINS)]
    # cameras INSIDE the footprint, above the field, looking down the geom's -z with a small tilt: every pixel ray
    # starts above the terrain inside the footprint, so its first hfield hit (if any) is on the top surface
    def cams(hpos, R, sx, sy, sz):
      out = ""
      mn = min(sx, sy)
      for c in range(2):
        lx, ly = rng.uniform(-0.1, 0.1, 2) * mn
        x = np.array([1.0, rng.normal(0, 0.1), rng.normal(0, 0.06)])
        x /= np.linalg.norm(x)
        y = np.cross([0, 0, 1.0], x) + np.array([0, 0, rng.normal(0, 0.06)])
        y -= x * np.dot(x, y)
        y /= np.linalg.norm(y)
        extra = f'projection="orthographic" fovy="{G.fmt([0.9 * mn])}"' if c == 1 and s % 2 else f'fovy="{G.fmt([rng.uniform(25, 45)])}"'
        out += f'<camera name="c{c}" pos="{G.fmt(hpos + R @ np.array([lx, ly, sz + rng.uniform(0.6, 1.0)]))}" xyaxes="{G.fmt(R @ x)} {G.fmt(R @ y)}" {extra}/>'
      return out

    xml, kind = G.terrain_scene(rng, nr, nc, kind, cameras=cams)
    nworld = 1 + s % 2
    m, ds, mm, dd = build(xml, rng, nworld=nworld)
    groups = (0, 1, 2, 3, 4, 5)
    rc = render(m, mm, dd, bool(s % 2), groups, nworld=nworld)
    for c in range(2):
      n, nd, fails = compare_camera(m, mm, dd, rc, c, groups, bool(s % 2), rng, ds, nworld=nworld)
      ncmp += n
      ndisc += nd
      for f in fails:
        f.update(xml=xml, qpos=[d.qpos.tolist() for d in ds], nworld=nworld, cull=bool(s % 2), groups=list(groups), terrain=kind, structured_hfield=True)
      allf += fails
    nhf += int((rc.seg_data.numpy()[:, :, 0] == 0).sum())
    res.nontrivial(("hfr", xml[:300]))
    if s == 0:
      res.sample({"kind": "oracle render vs rays, structured height field from above", "terrain": kind, "nrow": nr, "ncol": nc, "nworld": nworld})
  res.count(ncmp)
  res.extra.setdefault("oracle_render_vs_rays", {})["structured-hfield-top"] = {"pixels": ncmp, "hfield_pixels": nhf, "discarded": ndisc, "disagree": len(allf)}
  return allf


# ---------------------------------------------------------------- directed probes of recorded defects
def probe_scene(xml, cull=False, groups=(0, 1, 2, 3, 4, 5), qpos=None, camera=0, nworld=2):
  """render one camera of a fixed scene (nworld=2) and compare every pixel with rays along the property's
  pixel rays; for an orthographic camera the property's ray starts at the pixel centre of the image window
  of half-height fovy/2 (MuJoCo's orthographic convention) and runs along the optical axis."""
  import mujoco

  import mujoco_warp as mjw
  import props.C34 as C34

  m = mujoco.MjModel.from_xml_string(xml)
  d = mujoco.MjData(m)
  mujoco.mj_forward(m, d)
  mm, dd = mjw.put_model(m), mjw.put_data(m, d, nworld=nworld)
  if qpos is not None:
    import warp as wp

    dd.qpos = wp.array(np.array(qpos, dtype=np.float32), dtype=float)
    mjw.kinematics(mm, dd)
    mjw.camlight(mm, dd)
    if m.nflex:
      mjw.flex(mm, dd)
  rc = render(m, mm, dd, cull, groups, nworld=nworld)  # builds the context at the default pose, refits to dd, renders
  layout = refit_layout(m, mm, dd, rc, nworld)
  dep, seg, _, _ = images(rc, camera, nworld)
  dl, pnt, vec = pixel_rays(m, dd, camera, nworld)
  gg = [1 if g in groups else 0 for g in range(6)]
  dist, gid, nrm = C34.cast(mm, dd, pnt, vec, gg, True, np.full(W * H, -1))
  gid = gid.reshape(nworld, H, W)
  dist = dist.reshape(nworld, H, W)
  exp_depth = np.where(gid >= 0, dist * -dl[None, :, :, 2], 0.0)
  bad = ((seg[..., 0] != gid) | (np.abs(dep - exp_depth) > 1e-3 * (1 + np.abs(exp_depth)))) & (seg[..., 1] != OBJ_FLEX)
  return dict(xml=xml, cull=cull, groups=list(groups), rendered_seg=seg[0, :, :, 0].tolist(), expected_seg=gid[0].tolist(),
              rendered_depth=np.round(dep[0], 4).tolist(), expected_depth=np.round(exp_depth[0], 4).tolist(), bad_pixels=int(bad.sum()), pixels=int(bad.size), bad_pixels_per_world=[int(b.sum()) for b in bad], refit_layout_errors=layout[:4])  # fmt: skip


CAM = '<camera name="c" pos="0 -2 0.3" xyaxes="1 0 0 0 0 1" {extra}/>'
PROBES = {
  "C35:render:orthographic-all-pixels-same-ray": (
    "orthographic cameras: compute_ray returns (0,0,-1) for every pixel and _render_megakernel starts every ray at cam_xpos, so all pixels cast the identical ray (the image is constant: the depth / segmentation of whatever lies on the optical axis) instead of parallel rays through the pixel centres of the fovy-high window (theorem C35_pixel_ray_orthographic_refuted / C35_orthographic_image_constant)",
    '<mujoco><visual><map znear="0.01"/></visual><worldbody>' + CAM.format(extra='projection="orthographic" fovy="2"')
    + '<geom type="sphere" size="0.3" pos="0.5 0 0.6"/><geom type="box" size="0.2 0.2 0.2" pos="-0.6 0 0"/></worldbody></mujoco>', {}),
  "C35:render:hfield-base-and-sides-not-rendered": (
    "height fields are rendered from their top surface only (front faces): the base box and side walls that mjw.rays / mj_ray hit are missing from the hfield BVH, so a camera looking at an hfield from the side or from below sees through it (same root cause as C34:bvh:hfield-base-and-sides-missing)",
    '<mujoco><visual><map znear="0.01"/></visual><asset><hfield name="hf" nrow="3" ncol="3" size="0.6 0.4 0.3 0.2" elevation="0.2 0.8 0.1 0.5 1 0.6 0.8 0.4 0"/></asset><worldbody>'
    + CAM.format(extra='fovy="45"') + '<geom type="hfield" hfield="hf" pos="0 0 0.2"/></worldbody></mujoco>', {}),
  "C35:render:mesh-clipped-by-off-centre-bounds": (
    "a mesh whose vertex AABB is not centred on the mesh frame is clipped in the image: the scene-BVH box is centred on the geom position (same root cause as C34:bvh:mesh-bounds-not-centred), pixels whose rays hit the part outside the box show the background",
    '<mujoco><visual><map znear="0.01"/></visual><asset><mesh name="fr" vertex="0 -.4 -.4  0 .4 -.4  0 -.4 .4  0 .4 .4  1 -.15 -.15  1 .15 -.15  1 -.15 .15  1 .15 .15"/></asset><worldbody>'
    '<camera name="c" pos="0.3 -1.2 0.3" xyaxes="1 0 0 0 0 1" fovy="60"/><geom type="mesh" mesh="fr" pos="-0.5 0 0.3"/></worldbody></mujoco>', {}),
}  # fmt: skip


def probes(res):
  out = {}
  for key, (what, xml, kw) in PROBES.items():
    try:
      r = probe_scene(xml, **kw)
    except Exception as e:
      res.notes.append(f"probe {key} failed to run: {type(e).__name__}: {e}")
      continue
    res.count(r["pixels"])
    out[key] = r["bad_pixels"]
    if r["bad_pixels"]:
      res.violation(key, what + f" -- {r['bad_pixels']} of {r['pixels']} pixels differ", r)
  res.extra["probes"] = out
  return out


# ---------------------------------------------------------------- run
def classify(f):
  if f["kind"] == "refit-layout":
    return "C35:refit:scene-bvh-leaf-layout"
  if f.get("structured_hfield") and f["kind"] == "pixel":
    return "C35:oracle:render-vs-rays:structured-hfield-top"
  if f.get("flex") and f["kind"] == "pixel" and f.get("world", 0) >= 1:
    return "C35:oracle:render-vs-rays-after-refit:flex-scene-world>=1"
  if f["kind"] != "pixel":
    return f"C35:oracle:{f['kind']}"
  if f["projection"] == 1:
    return "C35:render:orthographic-all-pixels-same-ray"
  if "hfield" in f["geom_types"]:
    return "C35:render:hfield-base-and-sides-not-rendered"
  return "C35:oracle:render-vs-rays:" + "+".join(f["geom_types"] or ["none"])


def run(res):
  import time

  t0 = time.time()

  def lap(what):
    vlib.log(f"[C35] {what}: {time.time() - t0:.1f}s")

  quick = res.tier == "quick"
  res.rule = ("T-validation: random float32 camera parameters / pixels per projection and aspect branch; pixel correspondence: distinct (scene, world, camera, pixel); "
              "oracle: one evaluation per compared pixel, distinct = scenes")  # fmt: skip
  ok, trs, failing = propkit.prove(res, PROPS, gen_names=["T_bvh", "T_ray", "T_render_util"], required_funcs=REQ)
  lap("prove")
  trr, tru = trs.get("T_ray"), trs.get("T_render_util")
  tbad = []
  if tru is not None:
    b = tvalidate(res, tru, 120 if quick else 1200)
    res.obligation("T-validation: translated compute_ray agrees with compiled Warp", not b, f"{len(b)} disagreements")
    tbad += b
    b = kvalidate(res, tru, 6 if quick else 40)
    res.obligation("kernel validation: translated _build_rays agrees with the real kernel launch", not b, f"{len(b)} disagreements")
    tbad += b
    lap("T/kernel validation")
  if tru is not None and trr is not None:
    b = pixel_correspondence(res, trr, tru, 5 if quick else 40, 8 if quick else 12)
    res.obligation("pixel correspondence: Model/Ray.v render_pixel over translated compute_ray + ray_geom vs the real render kernel", not b, f"{len(b)} disagreements")
    tbad += b
    lap("pixel correspondence")
  found = False
  seen = set()
  fails = oracle(res, 10 if quick else 140, G.PRIMS, "primitives")
  fails += oracle(res, 6 if quick else 80, G.PRIMS + ("mesh",), "with-mesh", meshes=("cube", "octa", "pyr"))
  fails += oracle_flex_refit(res, 6 if quick else 60)
  fails += oracle_hfield_render(res, 8 if quick else 72)
  ext = launch_stride_extraction()
  okx = len(ext) == 2 and all(a == "total_bvh_size" and t is not None and t.replace(" ", "") == "rc.bvh_ngeom+rc.bvh_nflexgeom" for a, t in ext.values())
  res.obligation("launch extraction: build_scene_bvh and refit_scene_bvh pass total_bvh_size = rc.bvh_ngeom + rc.bvh_nflexgeom as _compute_bvh_bounds' per-world stride",
                 okx, json.dumps(ext))  # fmt: skip
  res.extra["stride_extraction"] = {k: list(v) for k, v in ext.items()}
  if not okx:
    tbad.append({"stride_extraction": ext})
  lap("oracle")
  for f in fails:
    key = classify(f)
    found = True
    if key not in seen:
      seen.add(key)
      if f["kind"] == "refit-layout":
        res.violation(key, f"after mjw.refit_bvh the scene-BVH leaf of a geom is not where _ray_bvh / cast_ray read it (nworld {f['nworld']}, flex in the model): {f['detail']}", f)
        continue
      res.violation(key, f"rendered {f.get('rendered')} vs rays {f.get('expected')} ({f['kind']}, camera {f.get('camera')}, world {f.get('world')}, pixel ({f.get('px')},{f.get('py')}), {f.get('geom_types')})", f)
  pr = probes(res)
  lap("probes")
  found = found or any(pr.values())
  if tbad and not found:
    res.violation("C35:model-mismatch", "translated / hand model disagrees with the compiled code (model no longer tied to code)", tbad[:3], found_input=False)
  if not ok and not found:
    propkit.broken_proof_violation(res, "C35 theorems over regenerated render_util.py / ray.py", failing)
  res.assumptions += [
    "float32 rounding is not modelled (theorems over R); the oracle compares depth to 1e-3 relative and discards pixels whose ray is within 5e-4 of a silhouette",
    "rendered geoms = geoms of the render context's enabled_geom_groups; scenes of the oracle contain no alpha-0 geoms: the renderer draws them (depth and segmentation) although rays()/mj_ray treat them as invisible",
    "with enable_backface_culling=True (default) a pixel whose nearest hit is a back face (camera inside a geom) shows what lies behind it: modelled (cull_hit), excluded from the rays() comparison",
    "Warp's BVH traversal is outside /repo: visiting order is arbitrary in the model; coverage of the geoms by the BVH boxes is tested, see C34",
  ]


def replay(res, path):
  r = json.load(open(path))["replay"]
  if isinstance(r, list) or "xml" not in r:
    print("replay: no concrete input in this file (proof/correspondence breakage); re-run the check")
    return 1
  out = probe_scene(r["xml"], cull=r.get("cull", False), groups=tuple(r.get("groups", (0, 1, 2, 3, 4, 5))), qpos=r.get("qpos"), camera=r.get("camera", 0), nworld=r.get("nworld", 2))
  print("rendered segmentation (world 0):")
  for row in out["rendered_seg"]:
    print("  ", row)
  print("expected from rays():")
  for row in out["expected_seg"]:
    print("  ", row)
  print("pixels differing:", out["bad_pixels"], "of", out["pixels"], "per world:", out["bad_pixels_per_world"])
  if out["refit_layout_errors"]:
    print("scene-BVH leaves after refit_bvh not where the ray kernels read them:", out["refit_layout_errors"])
  return 0
