"""C28 Constraint islands are the connected components.

Proof (Coq, Props/C28.v) about the hand-written executable model coq/Model/Island.v of
island.py; correspondence of that model with the real kernels / host functions on
(a) synthetic constraint graphs driven through the REAL island.tree_edges / island.island /
    island.compute_island_mapping (fake Model/Data namespaces holding real wp.arrays),
(b) direct launches of _flood_fill on arbitrary adjacency matrices and garbage stacks,
(c) real MuJoCo models (welds/connects incl. to the world and by site, contact pairs, joint
    limits, friction loss, tendons, joint/tendon equalities), dense and sparse Jacobians.
Oracles on the real code: union-find over the real tree_tree, and mujoco's own island fields."""

from __future__ import annotations

import json
import re
import types as pytypes

import numpy as np

import propkit
import vlib

MANIFEST = {
  "text": "proof: over the Gallina transcription of island.py (edge marking, explicit-stack flood fill, island map allocation) the adjacency is symmetric and equals the union of the row marks for every task order; flood-fill labels are exactly the connected components of touched trees numbered by smallest tree, fuel ntree^2+ntree suffices and the explicit DFS stack never holds more than 1 + (directed off-diagonal edges of tree_tree) <= ntree^2 entries (any scratch array at least that long is never overrun; K5 overruns ntree slots); the allocated stack size and the array aliasing of flood_fill are read off the source by ast on every run (S); dof and constraint island maps are mutually inverse with contiguous per-island ranges for EVERY task order of the counting and allocating launches. The tie to /repo is by correspondence (model evaluated in Coq vs the real kernels on generated inputs), not by proof; float Jacobian entries enter only through the test J==0",
  "note": "trusted: Coq kernel; hand transcription coq/Model/Island.v (checked each run against the real kernels: synthetic graphs through the real host functions, direct _flood_fill launches, real MuJoCo models); a launch is modelled as a sequential fold over an arbitrary task order with indivisible atomics; Warp CPU runs tasks in ascending order",
  "technique": "Rocq proof over a hand-written executable model (C) + in-Coq correspondence cases + differential oracles (union-find, MuJoCo)",
  "engine": "coq",
}

PROPS = "Props/C28.v"

ENUMS = {
  "EQUALITY": 0, "FRICTION_DOF": 1, "FRICTION_TENDON": 2, "LIMIT_JOINT": 3, "LIMIT_TENDON": 4,
  "CONTACT_FRICTIONLESS": 5, "CONTACT_PYRAMIDAL": 6, "CONTACT_ELLIPTIC": 7,
}  # fmt: skip


# ----------------------------------------------------------------------------------------
# Coq term builders
# ----------------------------------------------------------------------------------------
def zl(xs):
  return vlib.zlist([int(x) for x in xs])


def zll(rows):
  return "[" + "; ".join(zl(r) for r in rows) + "]"


def zpairs(ps):
  def z(x):
    x = int(x)
    return f"({x})" if x < 0 else str(x)

  return "[" + "; ".join(f"({z(a)}, {z(b)})" for a, b in ps) + "]%Z"


def zz(x):
  return f"({int(x)})%Z"


def emodel_term(M):
  return (
    f"(mkEModel {zz(M['nv'])} {zl(M['body_treeid'])} {zl(M['jnt_dofadr'])} {zl(M['dof_treeid'])} {zl(M['geom_bodyid'])} "
    f"{zl(M['site_bodyid'])} {zl(M['eq_type'])} {zl(M['eq_obj1id'])} {zl(M['eq_obj2id'])} {zl(M['eq_objtype'])} "
    f"{'true' if M['is_sparse'] else 'false'})"
  )


def edata_term(D):
  return (
    f"(mkEData {zz(D['nefc'])} {zz(D['njmax'])} {zpairs(D['contact_geom'])} {zl(D['efc_type'])} {zl(D['efc_id'])} "
    f"{zl(D['rownnz'])} {zl(D['rowadr'])} {zl(D['colind'])} {zll(D['J_nz'])})"
  )


# ----------------------------------------------------------------------------------------
# (a) synthetic constraint graphs through the real host functions
# ----------------------------------------------------------------------------------------
def synth_model(rng):
  ntree = int(rng.integers(1, 9))
  # dofs: every tree owns >= 1 dof (as in any real model); mostly tree-sorted, sometimes shuffled
  per = rng.integers(1, 4, ntree)
  dof_treeid = np.repeat(np.arange(ntree), per)
  if rng.random() < 0.2:
    rng.shuffle(dof_treeid)
  nv = len(dof_treeid)
  nbody = int(rng.integers(2, 2 * ntree + 3))
  body_treeid = rng.integers(-1, ntree, nbody)
  body_treeid[0] = -1
  njnt = int(rng.integers(1, nv + 1))
  ngeom = int(rng.integers(1, 2 * nbody))
  nsite = int(rng.integers(1, nbody + 2))
  neq = int(rng.integers(1, 6))
  eq_type = rng.choice([0, 0, 1, 1, 2, 3, 4, 6], neq)
  eq_objtype = rng.choice([1, 1, 6], neq)
  o1 = np.zeros(neq, int)
  o2 = np.zeros(neq, int)
  for e in range(neq):
    hi = nsite if eq_objtype[e] == 6 else nbody
    o1[e], o2[e] = rng.integers(0, hi, 2)
  ncon = int(rng.integers(1, 7))
  cg = rng.integers(0, ngeom, (ncon, 2))
  for c in range(ncon):
    if rng.random() < 0.12:
      cg[c, rng.integers(0, 2)] = -1 - int(rng.integers(0, 3))  # flex contact: negative geom id
  return {
    "ntree": ntree, "nv": nv, "dof_treeid": dof_treeid, "body_treeid": body_treeid,
    "jnt_dofadr": rng.integers(0, nv, njnt), "geom_bodyid": rng.integers(0, nbody, ngeom),
    "site_bodyid": rng.integers(0, nbody, nsite), "eq_type": eq_type, "eq_obj1id": o1, "eq_obj2id": o2,
    "eq_objtype": eq_objtype, "is_sparse": bool(rng.random() < 0.5), "contact_geom": cg,
  }  # fmt: skip


def synth_world(rng, M, njmax, nnz):
  ntree, nv = M["ntree"], M["nv"]
  style = rng.random()
  if style < 0.1:
    nefc = 0
  elif style < 0.2:
    nefc = int(rng.integers(njmax, njmax + 4))  # nefc >= njmax: the min() guard
  else:
    nefc = int(rng.integers(0, min(njmax, 2 * ntree + 2) + 1))
  efc_type = rng.integers(0, 8, njmax)
  efc_id = np.zeros(njmax, int)
  for r in range(njmax):
    t = efc_type[r]
    if t == 0:
      efc_id[r] = rng.integers(0, len(M["eq_type"]))
    elif t == 1:
      efc_id[r] = rng.integers(0, nv)
    elif t == 3:
      efc_id[r] = rng.integers(0, len(M["jnt_dofadr"]))
    elif t >= 5:
      efc_id[r] = rng.integers(0, len(M["contact_geom"]))
    else:
      efc_id[r] = rng.integers(0, 5)
  # Jacobian pattern: few trees per row
  J = np.zeros((njmax, nv), np.float32)
  rownnz = np.zeros(njmax, int)
  rowadr = np.zeros(njmax, int)
  colind = rng.integers(0, nv, nnz)
  adr = 0
  for r in range(njmax):
    k = int(rng.choice([0, 1, 1, 2, 2, 3, 5]))
    k = min(k, nv)
    dofs = rng.choice(nv, k, replace=False) if rng.random() < 0.8 else rng.integers(0, nv, k)
    if rng.random() < 0.5:
      dofs = np.sort(dofs)
    for dof in dofs:
      J[r, dof] = rng.choice([1.0, -2.5, 1e-30, np.nan]) if rng.random() < 0.9 else -0.0
    k = min(k, nnz - adr)
    rownnz[r], rowadr[r] = k, adr
    colind[adr : adr + k] = dofs[:k]
    adr += k
  return {"nefc": nefc, "njmax": njmax, "efc_type": efc_type, "efc_id": efc_id, "J": J, "rownnz": rownnz, "rowadr": rowadr, "colind": colind}


def fake_md(M, worlds):
  """Namespaces with the fields island.py reads, holding real wp.arrays."""
  import warp as wp

  W = len(worlds)
  njmax, nv, ntree = worlds[0]["njmax"], M["nv"], M["ntree"]
  ia = lambda a: wp.array(np.ascontiguousarray(a, dtype=np.int32), dtype=int)  # noqa: E731
  fm = pytypes.SimpleNamespace(
    nv=nv, ntree=ntree, body_treeid=ia(M["body_treeid"]), jnt_dofadr=ia(M["jnt_dofadr"]), dof_treeid=ia(M["dof_treeid"]),
    geom_bodyid=ia(M["geom_bodyid"]), site_bodyid=ia(M["site_bodyid"]), eq_type=ia(M["eq_type"]), eq_obj1id=ia(M["eq_obj1id"]),
    eq_obj2id=ia(M["eq_obj2id"]), eq_objtype=ia(M["eq_objtype"]), is_sparse=M["is_sparse"],
  )  # fmt: skip
  if M["is_sparse"]:
    Jarr = wp.zeros((W, 1, max(1, len(worlds[0]["colind"]))), dtype=float)
  else:
    Jarr = wp.array(np.stack([w["J"] for w in worlds]), dtype=float)
  garbage = lambda shape: wp.array(np.full(shape, 12345, np.int32), dtype=int)  # noqa: E731
  efc = pytypes.SimpleNamespace(
    type=ia(np.stack([w["efc_type"] for w in worlds])), id=ia(np.stack([w["efc_id"] for w in worlds])),
    J_rownnz=ia(np.stack([w["rownnz"] for w in worlds])), J_rowadr=ia(np.stack([w["rowadr"] for w in worlds])),
    J_colind=ia(np.stack([w["colind"] for w in worlds])[:, None, :]), J=Jarr, island=garbage((W, njmax)),
  )  # fmt: skip
  fd = pytypes.SimpleNamespace(
    nworld=W, njmax=njmax, nefc=ia([w["nefc"] for w in worlds]),
    contact=pytypes.SimpleNamespace(geom=wp.array(np.ascontiguousarray(M["contact_geom"], dtype=np.int32), dtype=wp.vec2i)),
    efc=efc, nisland=garbage((W,)), nidof=garbage((W,)), tree_island=garbage((W, ntree)), dof_island=garbage((W, nv)),
    island_dofadr=garbage((W, ntree)), island_idofadr=garbage((W, ntree)), island_nv=garbage((W, ntree)),
    island_nefc=garbage((W, ntree)), island_ne=garbage((W, ntree)), island_nf=garbage((W, ntree)),
    island_iefcadr=garbage((W, ntree)), map_dof2idof=garbage((W, nv)), map_idof2dof=garbage((W, nv)),
    map_efc2iefc=garbage((W, njmax)), map_iefc2efc=garbage((W, njmax)), dof_islandid=garbage((W, nv)),
    efc_islandid=garbage((W, njmax)),
  )  # fmt: skip
  return fm, fd


IMAP_FIELDS = [
  "dof_island", "island_nv", "island_idofadr", "island_dofadr", "nidof", "map_dof2idof", "map_idof2dof", "dof_islandid",
  "efc.island", "island_nefc", "island_ne", "island_nf", "island_iefcadr", "map_efc2iefc", "map_iefc2efc", "efc_islandid",
]  # fmt: skip


def real_pipeline(m, d, efc_tree_inputs=None):
  """Run the REAL island.tree_edges, island.island, _compute_efc_tree, compute_island_mapping.

  Returns per world: flat int list in the order of Model/Island.v pipeline_flat, plus pieces."""
  import warp as wp

  from mujoco_warp._src import island

  W, ntree, njmax = d.nworld, m.ntree, d.njmax
  tt = wp.array(np.full((W, ntree, ntree), 777, np.int32), dtype=int)
  island.tree_edges(m, d, tt)
  island.island(m, d)
  et = wp.array(np.full((W, njmax), -1, np.int32), dtype=int)
  wp.launch(
    island._compute_efc_tree, dim=(W, njmax),
    inputs=[m.nv, m.body_treeid, m.jnt_dofadr, m.dof_treeid, m.geom_bodyid, m.site_bodyid, m.eq_type, m.eq_obj1id,
            m.eq_obj2id, m.eq_objtype, m.is_sparse, d.nefc, d.contact.geom, d.efc.type, d.efc.id, d.efc.J,
            d.efc.J_rownnz, d.efc.J_rowadr, d.efc.J_colind, d.njmax],
    outputs=[et],
  )  # fmt: skip
  island.compute_island_mapping(m, d)
  wp.synchronize()
  ttn, etn = tt.numpy(), et.numpy()
  lab, nisl = d.tree_island.numpy(), d.nisland.numpy()
  outs = []
  for w in range(W):
    flat = list(ttn[w].reshape(-1)) + list(lab[w]) + [nisl[w]] + list(etn[w])
    for f in IMAP_FIELDS:
      a = d.efc.island if f == "efc.island" else getattr(d, f)
      a = a.numpy()
      flat += [a[w]] if a.ndim == 1 else list(a[w])
    outs.append({"flat": [int(x) for x in flat], "tt": ttn[w], "lab": lab[w], "nisland": int(nisl[w]), "efc_tree": etn[w]})
  return outs


def components_oracle(tt):
  """Union-find over an adjacency matrix: expected labels (component of touched trees, numbered by smallest tree)."""
  n = tt.shape[0]
  par = list(range(n))

  def find(a):
    while par[a] != a:
      par[a] = par[par[a]]
      a = par[a]
    return a

  touched = [False] * n
  for i in range(n):
    for j in range(n):
      if tt[i, j] != 0:
        touched[i] = True
        touched[j] = True
        a, b = find(i), find(j)
        if a != b:
          par[max(a, b)] = min(a, b)
  lab = [-1] * n
  k = 0
  ids = {}
  for i in range(n):
    if touched[i]:
      r = find(i)
      if r not in ids:
        ids[r] = k
        k += 1
      lab[i] = ids[r]
  return lab, k


def maps_oracle(o, nv, njmax, nefc, etype):
  """Property-level check of the real map arrays of one world (dict name->array). Returns error string or None."""
  nisl = int(o["nisland"])
  di, d2i, i2d = o["dof_island"], o["map_dof2idof"], o["map_idof2dof"]
  if sorted(d2i.tolist()) != list(range(nv)):
    return "map_dof2idof is not a permutation of range(nv)"
  if any(i2d[d2i[k]] != k for k in range(nv)):
    return "map_idof2dof o map_dof2idof != id"
  adr, cnt = o["island_idofadr"], o["island_nv"]
  for c in range(nisl):
    if cnt[c] != int((di == c).sum()):
      return f"island_nv[{c}] wrong"
    if adr[c] != int(((di >= 0) & (di < c)).sum()):
      return f"island_idofadr[{c}] wrong"
    if o["island_dofadr"][c] != int(np.nonzero(di == c)[0].min()):
      return f"island_dofadr[{c}] wrong"
  nidof = int(o["nidof"])
  if nidof != int((di >= 0).sum()):
    return "nidof wrong"
  for k in range(nv):
    c = di[k]
    if c >= 0 and not (adr[c] <= d2i[k] < adr[c] + cnt[c] and o["dof_islandid"][d2i[k]] == c):
      return f"dof {k} outside its island range"
    if c < 0 and not (nidof <= d2i[k] < nv):
      return f"unconstrained dof {k} inside island range"
  na = min(njmax, nefc)
  ei, e2i, i2e = o["efc.island"][:na], o["map_efc2iefc"], o["map_iefc2efc"]
  inis = [e for e in range(na) if ei[e] >= 0]
  if sorted(int(e2i[e]) for e in inis) != list(range(len(inis))):
    return "map_efc2iefc is not a bijection onto range(#island rows)"
  if any(i2e[e2i[e]] != e for e in inis):
    return "map_iefc2efc o map_efc2iefc != id"
  ea = o["island_iefcadr"]
  for c in range(nisl):
    rows = [e for e in inis if ei[e] == c]
    ne = sum(1 for e in rows if etype[e] == 0)
    nf = sum(1 for e in rows if etype[e] in (1, 2))
    if (o["island_nefc"][c], o["island_ne"][c], o["island_nf"][c]) != (len(rows), ne, nf):
      return f"island_nefc/ne/nf[{c}] wrong"
    if ea[c] != sum(1 for e in inis if ei[e] < c):
      return f"island_iefcadr[{c}] wrong"
    for e in rows:
      lo = ea[c] + (0 if etype[e] == 0 else ne if etype[e] in (1, 2) else ne + nf)
      hi = ea[c] + (ne if etype[e] == 0 else ne + nf if etype[e] in (1, 2) else len(rows))
      if not (lo <= e2i[e] < hi and o["efc_islandid"][e2i[e]] == c):
        return f"row {e} outside its island/category range"
  return None


def world_dict(d, w):
  o = {"nisland": int(d.nisland.numpy()[w])}
  for f in IMAP_FIELDS:
    a = (d.efc.island if f == "efc.island" else getattr(d, f)).numpy()
    o[f] = a[w]
  return o


def synthetic(res, nlaunch, W, fails):
  rng = np.random.default_rng(vlib.seed() + 2801)
  lines, meta = [], []
  for k in range(nlaunch):
    M = synth_model(rng)
    njmax = int(rng.integers(1, 2 * M["ntree"] + 6))
    nnz = 5 * njmax + 1
    worlds = [synth_world(rng, M, njmax, nnz) for _ in range(W)]
    fm, fd = fake_md(M, worlds)
    outs = real_pipeline(fm, fd)
    for w, (wd, o) in enumerate(zip(worlds, outs)):
      D = {
        "nefc": wd["nefc"], "njmax": njmax, "contact_geom": M["contact_geom"], "efc_type": wd["efc_type"], "efc_id": wd["efc_id"],
        "rownnz": wd["rownnz"], "rowadr": wd["rowadr"], "colind": wd["colind"],
        "J_nz": [] if M["is_sparse"] else [[0 if x == 0.0 else 1 for x in row] for row in wd["J"]],
      }  # fmt: skip
      lines.append(f"tvz (pipeline_flat {emodel_term(M)} {edata_term(D)} {zz(M['ntree'])}) {zl(o['flat'])}")
      meta.append(("synthetic", k, w))
      res.count()
      # oracles on the real outputs
      lab, kk = components_oracle(o["tt"])
      if not np.array_equal(o["tt"], o["tt"].T):
        fails.append(("C28:tree_edges:asymmetric-adjacency", "tree_tree not symmetric", {"kind": "synthetic", "model": jsonable(M), "world": jsonable(wd)}))
      if lab != o["lab"].tolist() or kk != o["nisland"]:
        fails.append(("C28:flood_fill:labels-not-components", f"tree_island {o['lab'].tolist()} nisland {o['nisland']} but components give {lab} {kk}",
                      {"kind": "synthetic", "model": jsonable(M), "world": jsonable(wd)}))  # fmt: skip
      err = maps_oracle(world_dict(fd, w), M["nv"], njmax, wd["nefc"], wd["efc_type"])
      if err:
        fails.append(("C28:island_maps:" + re.sub(r"\[\d+\]", "", err.split(" ")[0]), err, {"kind": "synthetic", "model": jsonable(M), "world": jsonable(wd)}))
      if o["nisland"] > 0:
        res.nontrivial(("syn", M["ntree"], o["lab"].tolist().__str__(), wd["nefc"], M["is_sparse"]))
      if k == 0 and w == 0:
        res.sample({"kind": "synthetic pipeline", "ntree": M["ntree"], "nefc": wd["nefc"], "sparse": M["is_sparse"], "tree_island": o["lab"].tolist(), "nisland": o["nisland"]})
  return lines, meta


def jsonable(x):
  if isinstance(x, dict):
    return {k: jsonable(v) for k, v in x.items()}
  if isinstance(x, np.ndarray):
    if x.dtype.kind == "f":
      return [None if np.isnan(v) else float(v) for v in x.reshape(-1)] if x.ndim == 1 else [jsonable(r) for r in x]
    return x.tolist()
  if isinstance(x, (np.integer,)):
    return int(x)
  if isinstance(x, (np.floating,)):
    return float(x)
  if isinstance(x, (list, tuple)):
    return [jsonable(v) for v in x]
  return x


# ----------------------------------------------------------------------------------------
# (b) direct _flood_fill launches
# ----------------------------------------------------------------------------------------
def sym_graph_from_bits(n, bits):
  a = np.zeros((n, n), np.int32)
  k = 0
  for i in range(n):
    for j in range(i, n):
      if (bits >> k) & 1:
        a[i, j] = a[j, i] = 1
      k += 1
  return a


def flood_cases(rng, ncases, exhaustive_upto):
  cases = []
  for n in range(1, exhaustive_upto + 1):
    for bits in range(1 << (n * (n + 1) // 2)):
      cases.append((sym_graph_from_bits(n, bits), True))
  for _ in range(ncases):
    n = int(rng.integers(1, 9))
    p = rng.choice([0.05, 0.15, 0.3, 0.6, 1.0])
    a = (rng.random((n, n)) < p).astype(np.int32)
    sym = rng.random() < 0.8
    if sym:
      a = np.maximum(a, a.T)
    a = a * rng.choice([1, 1, 1, 7, -3], (n, n))  # the kernel only tests != 0
    if sym:
      a = np.where(a != 0, np.maximum(np.abs(a), np.abs(a.T)), 0)
    cases.append((a.astype(np.int32), bool(np.array_equal(a != 0, (a != 0).T))))
  return cases


def flood_direct(res, ncases, exhaustive_upto, fails):
  import warp as wp

  from mujoco_warp._src import island

  rng = np.random.default_rng(vlib.seed() + 2802)
  cases = flood_cases(rng, ncases, exhaustive_upto)
  lines, meta = [], []
  # group by n so that one launch handles many worlds
  by_n = {}
  for a, sym in cases:
    by_n.setdefault(a.shape[0], []).append((a, sym))
  for n, group in sorted(by_n.items()):
    W = len(group)
    tt = wp.array(np.stack([a for a, _ in group]), dtype=int)
    stack0 = rng.integers(-5, n + 5, (W, n * n)).astype(np.int32)
    stack = wp.array(stack0.copy(), dtype=int)
    lab = wp.array(np.full((W, n), -1, np.int32), dtype=int)
    nisl = wp.array(np.full(W, 99, np.int32), dtype=int)
    wp.launch(island._flood_fill, dim=W, inputs=[n, tt, lab, stack], outputs=[nisl, lab, stack])
    wp.synchronize()
    labn, nisln, stackn = lab.numpy(), nisl.numpy(), stack.numpy()
    for w, (a, sym) in enumerate(group):
      exp = list(labn[w]) + [nisln[w], 0] + list(stackn[w])  # 0: ghost out-of-bounds flag stays false
      lines.append(f"tvz (flood_flat {zz(n)} {zll(a)} {zl(stack0[w])}) {zl(exp)}")
      meta.append(("flood", n, w))
      res.count()
      if nisln[w] > 0:
        res.nontrivial(("ff", n, a.tobytes()))
      if sym:
        olab, k = components_oracle(a)
        if olab != labn[w].tolist() or k != nisln[w]:
          fails.append(("C28:flood_fill:labels-not-components", f"adjacency {a.tolist()}: labels {labn[w].tolist()} nisland {nisln[w]}, components {olab} {k}",
                        {"kind": "flood", "n": n, "adj": a.tolist(), "stack0": stack0[w].tolist()}))  # fmt: skip
    if n == 3:
      res.sample({"kind": "_flood_fill direct", "adj": group[-1][0].tolist(), "labels": labn[W - 1].tolist(), "nisland": int(nisln[W - 1])})
  return lines, meta


# ----------------------------------------------------------------------------------------
# (c) real MuJoCo models
# ----------------------------------------------------------------------------------------
def real_model_xml(rng):
  """Random scene: T trees in a row (3 m apart, no accidental contacts) plus random constraints.

  Contacts between chosen trees are made by small spheres rigidly attached to the two bodies and
  placed at a common far-away spot, enabled by an explicit <pair> (all geoms have contype 0)."""
  T = int(rng.integers(1, 9))
  kinds = [str(rng.choice(["free", "chain", "slide", "hinge"])) for _ in range(T)]
  joints_of, body_of, bpos, extra = {}, {}, {}, {}
  fl = lambda p=0.3: f' frictionloss="{rng.uniform(0.05, 0.5):.3g}"' if rng.random() < p else ""  # noqa: E731
  lim = lambda p=0.3: (' limited="true" range="0.2 0.5"' if rng.random() < 0.5 else ' limited="true" range="-1 1"') if rng.random() < p else ""  # noqa: E731
  tmpl = []
  for t, kd in enumerate(kinds):
    b = f"b{t}"
    body_of[t] = [b]
    bpos[b] = np.array([3.0 * t, 0, 1])
    extra[b] = []
    site = f'<site name="s{t}" pos="0 0 0.05"/>'
    pos = f"{3 * t} 0 1"
    if kd == "free":
      joints_of[t] = []
      tmpl.append(f'<body name="{b}" pos="{pos}"><joint name="j{t}" type="free"/><geom name="g{t}" size=".1"/>{site}@{b}@</body>')
    elif kd == "chain":
      joints_of[t] = [f"j{t}", f"k{t}"]
      c = f"c{t}"
      body_of[t].append(c)
      bpos[c] = bpos[b] + np.array([0, 0, 0.4])
      extra[c] = []
      tmpl.append(
        f'<body name="{b}" pos="{pos}"><joint name="j{t}" type="hinge" axis="0 1 0"{lim()}{fl()}/><geom name="g{t}" size=".1"/>{site}@{b}@'
        f'<body name="{c}" pos="0 0 .4"><joint name="k{t}" type="hinge" axis="1 0 0"{lim()}{fl()}/><geom name="h{t}" size=".08"/>@{c}@</body></body>'
      )
    else:
      joints_of[t] = [f"j{t}"]
      tmpl.append(f'<body name="{b}" pos="{pos}"><joint name="j{t}" type="{kd}" axis="0 0 1"{lim()}{fl()}/><geom name="g{t}" size=".1"/>{site}@{b}@</body>')
  nedge = int(rng.integers(0, T + 2))
  eqs, pairs, tendons, wgeoms = [], [], [], []
  scal = [t for t in range(T) if joints_of[t]]

  def contact_geom_on(body, name, spot):
    rel = spot - bpos[body]
    extra[body].append(f'<geom name="{name}" size=".05" pos="{rel[0]:.6g} {rel[1]:.6g} {rel[2]:.6g}"/>')

  for e in range(nedge):
    a, b = (int(x) for x in rng.integers(0, T, 2))
    kind = str(rng.choice(["weld", "connect", "site", "world", "pair", "pairworld", "tendonlim", "tendonfric", "jointeq", "tendoneq", "selfpair"]))
    ba, bb = str(rng.choice(body_of[a])), str(rng.choice(body_of[b]))
    spot = np.array([0.0, 10.0 + e, 1.0])
    cd = int(rng.choice([1, 3, 4]))
    if kind == "weld" and ba != bb:
      eqs.append(f'<weld body1="{ba}" body2="{bb}"/>')
    elif kind == "connect" and ba != bb:
      eqs.append(f'<connect body1="{ba}" body2="{bb}" anchor="0 0 0"/>')
    elif kind == "site" and a != b:
      eqs.append(f'<{rng.choice(["connect", "weld"])} site1="s{a}" site2="s{b}"/>')
    elif kind == "world":
      if rng.random() < 0.5:
        eqs.append(f'<connect body1="{ba}" anchor="0 0 0"/>')
      else:
        eqs.append(f'<weld body1="{ba}"/>')
    elif (kind == "pair" and a != b) or (kind == "selfpair" and ba != bb):
      contact_geom_on(ba, f"p{e}a", spot)
      contact_geom_on(bb, f"p{e}b", spot + np.array([0.03, 0, 0]))
      pairs.append(f'<pair geom1="p{e}a" geom2="p{e}b" condim="{cd}"/>')
    elif kind == "pairworld":
      contact_geom_on(ba, f"p{e}a", spot)
      wgeoms.append(f'<geom name="p{e}w" size=".05" pos="{spot[0] + 0.03:.6g} {spot[1]:.6g} {spot[2]:.6g}"/>')
      pairs.append(f'<pair geom1="p{e}w" geom2="p{e}a" condim="{cd}"/>')
    elif kind in ("tendonlim", "tendonfric", "tendoneq") and len(scal) >= 1:
      ts = rng.choice(scal, min(len(scal), int(rng.integers(1, 4))), replace=False)
      name = f"t{e}"
      attr = ' limited="true" range="0.3 0.6"' if kind == "tendonlim" else ' frictionloss="0.2"' if kind == "tendonfric" else ""
      tendons.append(f'<fixed name="{name}"{attr}>' + "".join(f'<joint joint="{joints_of[int(t)][0]}" coef="{rng.choice([1, -1, 0.5])}"/>' for t in ts) + "</fixed>")
      if kind == "tendoneq":
        eqs.append(f'<tendon tendon1="{name}" polycoef="0.1 0 0 0 0"/>')
    elif kind == "jointeq" and len(scal) >= 2:
      ta, tb = rng.choice(scal, 2, replace=False)
      eqs.append(f'<joint joint1="{joints_of[int(ta)][0]}" joint2="{joints_of[int(tb)][-1]}"/>')
  bodies = "".join(tmpl)
  for b, gs in extra.items():
    bodies = bodies.replace(f"@{b}@", "".join(gs))
  jac = str(rng.choice(["dense", "sparse"]))
  cone = str(rng.choice(["pyramidal", "elliptic"]))
  return (
    f'<mujoco><option jacobian="{jac}" cone="{cone}"/><default><geom contype="0" conaffinity="0"/></default>'
    f'<worldbody>{"".join(wgeoms)}{bodies}</worldbody>'
    + (f"<contact>{''.join(pairs)}</contact>" if pairs else "")
    + (f"<tendon>{''.join(tendons)}</tendon>" if tendons else "")
    + (f"<equality>{''.join(eqs)}</equality>" if eqs else "")
    + "</mujoco>"
  )


def extract_inputs(mjm, mm, dd, w):
  nefc = int(dd.nefc.numpy()[w])
  njmax = dd.njmax
  nv = mjm.nv
  sparse = bool(mm.is_sparse)
  M = {
    "ntree": mjm.ntree, "nv": nv, "body_treeid": mm.body_treeid.numpy(), "jnt_dofadr": mm.jnt_dofadr.numpy(),
    "dof_treeid": mm.dof_treeid.numpy(), "geom_bodyid": mm.geom_bodyid.numpy(), "site_bodyid": mm.site_bodyid.numpy(),
    "eq_type": mm.eq_type.numpy(), "eq_obj1id": mm.eq_obj1id.numpy(), "eq_obj2id": mm.eq_obj2id.numpy(),
    "eq_objtype": mm.eq_objtype.numpy(), "is_sparse": sparse,
  }  # fmt: skip
  cg = dd.contact.geom.numpy()
  ncon_used = 1 + max([0] + [int(i) for t, i in zip(dd.efc.type.numpy()[w, : min(nefc, njmax)], dd.efc.id.numpy()[w, : min(nefc, njmax)]) if t >= 5])
  if sparse:
    rn, ra = dd.efc.J_rownnz.numpy()[w], dd.efc.J_rowadr.numpy()[w]
    used = int(max([0] + [ra[r] + rn[r] for r in range(min(nefc, njmax))]))
    D = {"rownnz": rn, "rowadr": ra, "colind": dd.efc.J_colind.numpy()[w, 0, :used], "J_nz": []}
  else:
    J = dd.efc.J.numpy()[w]
    D = {"rownnz": [], "rowadr": [], "colind": [], "J_nz": [[0 if x == 0.0 else 1 for x in J[r, :nv]] for r in range(min(nefc, njmax))]}
  D.update({"nefc": nefc, "njmax": njmax, "contact_geom": cg[:ncon_used], "efc_type": dd.efc.type.numpy()[w], "efc_id": dd.efc.id.numpy()[w]})
  return M, D


def real_models(res, nmodels, fails):
  import mujoco

  import mujoco_warp as mjw

  rng = np.random.default_rng(vlib.seed() + 2803)
  lines, meta = [], []
  for k in range(nmodels):
    xml = real_model_xml(rng)
    try:
      mjm = mujoco.MjModel.from_xml_string(xml)
    except Exception as e:  # generator produced something MuJoCo rejects: not a case
      vlib.log(f"C28: skipped model ({e})")
      continue
    mjd = mujoco.MjData(mjm)
    mjd.qpos[:] = mjm.qpos0
    mujoco.mj_forward(mjm, mjd)
    mm = mjw.put_model(mjm)
    dd = mjw.put_data(mjm, mjd, nworld=1, njmax=max(8, 2 * mjd.nefc + 4), njmax_nnz=max(8, 2 * mjd.nefc + 4) * mjm.nv)
    dd.nisland.fill_(-7)
    dd.tree_island.fill_(-7)
    mjw.fwd_position(mm, dd)
    o = real_pipeline(mm, dd)[0]
    M, D = extract_inputs(mjm, mm, dd, 0)
    lines.append(f"tvz (pipeline_flat {emodel_term(M)} {edata_term(D)} {zz(mjm.ntree)}) {zl(o['flat'])}")
    meta.append(("real", k, 0))
    res.count()
    data = {"kind": "real", "xml": xml, "qpos": mjd.qpos.tolist()}
    # oracle 1: union-find over the real adjacency
    lab, kk = components_oracle(o["tt"])
    if lab != o["lab"].tolist() or kk != o["nisland"]:
      fails.append(("C28:flood_fill:labels-not-components", f"tree_island {o['lab'].tolist()} vs components {lab}", data))
    # oracle 2: MuJoCo's own islands
    wd = world_dict(dd, 0)
    nefc = int(dd.nefc.numpy()[0])
    if nefc != mjd.nefc:
      res.notes.append(f"real model {k}: nefc differs from MuJoCo ({nefc} vs {mjd.nefc}); island comparison skipped")
    else:
      ni = mjd.nisland
      diffs = []
      if o["nisland"] != ni:
        diffs.append(f"nisland {o['nisland']} vs {ni}")
      if ni > 0 or o["nisland"] > 0:
        cmp = [
          ("tree_island", o["lab"], mjd.tree_island), ("dof_island", wd["dof_island"], mjd.dof_island),
          ("island_nv", wd["island_nv"][:ni], mjd.island_nv[:ni]), ("island_idofadr", wd["island_idofadr"][:ni], mjd.island_idofadr[:ni]),
          ("island_dofadr", wd["island_dofadr"][:ni], mjd.island_dofadr[:ni]), ("island_nefc", wd["island_nefc"][:ni], mjd.island_nefc[:ni]),
          ("island_ne", wd["island_ne"][:ni], mjd.island_ne[:ni]), ("island_nf", wd["island_nf"][:ni], mjd.island_nf[:ni]),
          ("island_iefcadr", wd["island_iefcadr"][:ni], mjd.island_iefcadr[:ni]),
          ("map_dof2idof", wd["map_dof2idof"], mjd.map_dof2idof), ("map_idof2dof", wd["map_idof2dof"], mjd.map_idof2dof),
          ("nidof", [int(wd["nidof"])], [mjd.nidof]),
        ]  # fmt: skip
        for name, a, b in cmp:
          if not np.array_equal(np.asarray(a), np.asarray(b)):
            diffs.append(f"{name} {np.asarray(a).tolist()} vs mujoco {np.asarray(b).tolist()}")
      if diffs:
        fails.append(("C28:mujoco-parity:" + diffs[0].split(" ")[0], "; ".join(diffs[:4]), data))
    err = maps_oracle(wd, mjm.nv, dd.njmax, nefc, dd.efc.type.numpy()[0])
    if err:
      fails.append(("C28:island_maps:" + re.sub(r"\[\d+\]", "", err.split(" ")[0]), err, data))
    if o["nisland"] > 0:
      res.nontrivial(("real", xml))
    if len([m for m in meta if m[0] == "real"]) == 1:
      res.sample({"kind": "real model", "xml": xml[:500], "tree_island": o["lab"].tolist(), "mujoco_tree_island": mjd.tree_island.tolist(), "nefc": nefc})
  return lines, meta



# ----------------------------------------------------------------------------------------
# (S) facts read off the source of island.flood_fill by ast: stack allocation and aliasing
# ----------------------------------------------------------------------------------------
def stack_facts():
  """Returns dict(expr=source text of the per-world stack size, cap=fn ntree->int, aliased=bool, filled=bool)."""
  import ast
  import os

  src = open(os.path.join(vlib.REPO, "mujoco_warp", "_src", "island.py")).read()
  tree = ast.parse(src)
  fn = next(n for n in tree.body if isinstance(n, ast.FunctionDef) and n.name == "flood_fill")
  launch = None
  for n in ast.walk(fn):
    if isinstance(n, ast.Call) and isinstance(n.func, ast.Attribute) and n.func.attr == "launch" and n.args and isinstance(n.args[0], ast.Name) and n.args[0].id == "_flood_fill":
      launch = n
  kw = {k.arg: k.value for k in launch.keywords}
  ins, outs = kw["inputs"].elts, kw["outputs"].elts
  u = ast.unparse
  # kernel signature: inputs (ntree, tree_tree_in, labels_in, stack_in), outputs (nisland_out, tree_island_out, stack_out)
  aliased = u(ins[2]) == u(outs[1]) and u(ins[3]) == u(outs[2]) and isinstance(ins[3], ast.Name) and u(ins[0]) == "m.ntree"
  stack_name = u(ins[3])
  shape = None
  for n in ast.walk(fn):
    if isinstance(n, ast.Assign) and len(n.targets) == 1 and u(n.targets[0]) == stack_name:
      c = n.value
      if isinstance(c, ast.Call) and u(c.func) in ("wp.empty", "wp.zeros") and isinstance(c.args[0], ast.Tuple) and len(c.args[0].elts) == 2:
        shape = c.args[0].elts
  filled = any(isinstance(n, ast.Call) and u(n.func) == u(ins[2]) + ".fill_" and u(n.args[0]) == "-1" for n in ast.walk(fn))
  if shape is None or u(shape[0]) != "d.nworld":
    return {"expr": None, "cap": None, "aliased": aliased, "filled": filled}
  code = compile(ast.Expression(shape[1]), "<stack>", "eval")

  def cap(ntree):
    m = pytypes.SimpleNamespace(ntree=ntree)
    return int(eval(code, {"__builtins__": {}}, {"m": m, "d": pytypes.SimpleNamespace()}))

  return {"expr": u(shape[1]), "cap": cap, "aliased": aliased, "filled": filled}


# ----------------------------------------------------------------------------------------
# (d) dense tree-coupling graphs in a crash-tolerant subprocess with Warp's bounds-checked debug build
# ----------------------------------------------------------------------------------------
SLEEP_OPT = '<option sleep_tolerance="0.01" jacobian="{jac}" cone="{cone}"><flag sleep="enable" island="enable"/></option>'


def _free_bodies(n, cluster=False):
  if cluster:  # all spheres overlap pairwise: a contact clique
    return "".join(
      f'<body name="b{i}" pos="{0.02 * np.cos(2 * np.pi * i / n):.5f} {0.02 * np.sin(2 * np.pi * i / n):.5f} {0.011 * i:.4f}"><freejoint/><geom type="sphere" size="0.05"/></body>'
      for i in range(n)
    )
  return "".join(f'<body name="b{i}" pos="{0.5 * i} 0 {0.3 * (i % 2)}"><freejoint/><geom type="sphere" size="0.05"/></body>' for i in range(n))


def dense_xml_cases(quick):
  cases = []
  opt = lambda k: SLEEP_OPT.format(jac=["dense", "sparse"][k % 2], cone=["pyramidal", "elliptic"][(k // 2) % 2])  # noqa: E731
  k = 0
  for n in (4, 5, 6, 7) if quick else (4, 5, 6, 7, 8, 9):
    eq = "connect" if n % 2 else "weld"
    anchor = ' anchor="0 0 0"' if eq == "connect" else ""
    eqs = "".join(f'<{eq} body1="b{i}" body2="b{j}"{anchor}/>' for i in range(n) for j in range(i + 1, n))
    cases.append({"name": f"K{n}-{eq}", "xml": f"<mujoco>{opt(k)}<worldbody>{_free_bodies(n)}</worldbody><equality>{eqs}</equality></mujoco>"})
    k += 1
  for a, b in ((2, 3), (3, 3), (3, 4)) if quick else ((2, 3), (3, 3), (3, 4), (4, 4), (2, 6)):
    n = a + b
    eqs = "".join(f'<weld body1="b{i}" body2="b{a + j}"/>' for i in range(a) for j in range(b))
    cases.append({"name": f"K{a},{b}-weld", "xml": f"<mujoco>{opt(k)}<worldbody>{_free_bodies(n)}</worldbody><equality>{eqs}</equality></mujoco>"})
    k += 1
  for n in (4, 5, 6) if quick else (4, 5, 6, 7):
    cases.append({"name": f"contact-cluster{n}", "xml": f"<mujoco>{opt(k)}<worldbody>{_free_bodies(n, cluster=True)}</worldbody></mujoco>"})
    k += 1
  # one island holding equality + dof friction + tendon friction + joint limit + tendon limit + contacts,
  # a second island (tree with friction loss only) and an unconstrained tree; ntree > 1, sleep + island enabled
  for v in range(2 if quick else 4):
    cases.append({"name": f"mixed-island{v}", "xml": f"""<mujoco>{opt(v)}<worldbody>
      <body name="a" pos="0 0 1"><joint name="a1" type="hinge" axis="0 1 0" limited="true" range="0.2 0.5"/><geom size=".05"/>
        <body name="a2" pos="0 0 .3"><joint name="a2j" type="hinge" axis="1 0 0" frictionloss="0.1"/><geom size=".04"/></body></body>
      <body name="b" pos="2 0 1"><joint name="b1" type="slide" axis="0 0 1" frictionloss="0.2"/><geom name="gb" size=".05"/></body>
      <body name="c" pos="2.06 0 1"><freejoint/><geom name="gc" size=".05"/></body>
      <body name="d" pos="4 0 1"><joint name="d1" type="hinge" axis="0 1 0" frictionloss="0.3"/><geom size=".05"/></body>
      <body name="e" pos="6 0 1"><joint name="e1" type="slide" axis="1 0 0"/><geom size=".05"/></body>
      {'<body name="f" pos="8 0 1"><joint name="f1" type="hinge" axis="0 0 1"/><geom size=".05"/></body>' if v % 2 else ''}
      </worldbody>
      <tendon><fixed name="t1" frictionloss="0.2" limited="true" range="0.3 0.6"><joint joint="a1" coef="1"/><joint joint="b1" coef="-1"/></fixed>
      {'<fixed name="t2" frictionloss="0.1"><joint joint="f1" coef="1"/><joint joint="d1" coef="0.5"/></fixed>' if v % 2 else ''}</tendon>
      <equality><connect body1="c" body2="a2" anchor="0 0 0"/></equality></mujoco>"""})
  return cases


def dense_adj_cases(rng, quick):
  cases = []

  def add(name, a):
    cases.append({"name": name, "n": int(a.shape[0]), "adj": a.astype(int).tolist()})

  for n in range(2, 9 if quick else 13):
    add(f"K{n}", 1 - np.eye(n, dtype=int))
    add(f"K{n}+self", np.ones((n, n), int))
  for a, b in ((2, 3), (3, 3), (3, 5), (4, 4), (1, 7)):
    m = np.zeros((a + b, a + b), int)
    m[:a, a:] = 1
    m[a:, :a] = 1
    add(f"K{a},{b}", m)
  for _ in range(20 if quick else 200):
    n = int(rng.integers(4, 9))
    m = (rng.random((n, n)) < rng.choice([0.6, 0.8, 0.95])).astype(int)
    add("dense-random", np.maximum(m, m.T))
  return cases


def worker_case(c):
  """Runs in the child (debug build).  Returns a JSON-able dict."""
  import mujoco
  import warp as wp

  import mujoco_warp as mjw
  from mujoco_warp._src import island

  if "adj" in c:  # the real host function flood_fill (it allocates the stack) on a synthetic adjacency, 2 worlds
    n = c["n"]
    a = np.array(c["adj"], np.int32)
    fm = pytypes.SimpleNamespace(ntree=n)
    fd = pytypes.SimpleNamespace(nworld=2, tree_island=wp.array(np.full((2, n), 5, np.int32), dtype=int), nisland=wp.array(np.full(2, 9, np.int32), dtype=int))
    island.flood_fill(fm, fd, wp.array(np.stack([a, a]), dtype=int))
    wp.synchronize()
    return {"lab": fd.tree_island.numpy().tolist(), "nisland": fd.nisland.numpy().tolist()}
  mjm = mujoco.MjModel.from_xml_string(c["xml"])
  mjd = mujoco.MjData(mjm)
  mujoco.mj_forward(mjm, mjd)
  mm = mjw.put_model(mjm)
  njmax = max(8, 2 * mjd.nefc + 8)
  dd = mjw.make_data(mjm, nworld=2, nconmax=2 * mjd.ncon + 8, njmax=njmax, njmax_nnz=njmax * mjm.nv)
  mjw.forward(mm, dd)  # the real path: fwd_position -> island.island, solve -> compute_island_mapping
  wp.synchronize()
  fw = {"tree_island": dd.tree_island.numpy()[0].tolist(), "nisland": int(dd.nisland.numpy()[0])}
  o = real_pipeline(mm, dd)[0]
  M, D = extract_inputs(mjm, mm, dd, 0)
  wd = world_dict(dd, 0)
  nefc = int(dd.nefc.numpy()[0])
  etype = dd.efc.type.numpy()[0]
  err = maps_oracle(wd, mjm.nv, dd.njmax, nefc, etype)
  lab, kk = components_oracle(o["tt"])
  mj = {"nefc": int(mjd.nefc), "nisland": int(mjd.nisland), "tree_island": mjd.tree_island.tolist(), "dof_island": mjd.dof_island.tolist(),
        "island_nefc": mjd.island_nefc[: mjd.nisland].tolist(), "island_ne": mjd.island_ne[: mjd.nisland].tolist(),
        "island_nf": mjd.island_nf[: mjd.nisland].tolist(), "island_nv": mjd.island_nv[: mjd.nisland].tolist()}  # fmt: skip
  ni = o["nisland"]
  mine = {"nefc": nefc, "nisland": ni, "tree_island": o["lab"].tolist(), "dof_island": wd["dof_island"].tolist(),
          "island_nefc": wd["island_nefc"][:ni].tolist(), "island_ne": wd["island_ne"][:ni].tolist(),
          "island_nf": wd["island_nf"][:ni].tolist(), "island_nv": wd["island_nv"][:ni].tolist()}  # fmt: skip
  return {"forward": fw, "flat": o["flat"], "M": jsonable(M), "D": jsonable(D), "ntree": int(mjm.ntree), "maps_err": err,
          "components": [lab, kk], "mj": mj, "mine": mine, "types": sorted(set(int(t) for t in etype[: min(nefc, dd.njmax)]))}  # fmt: skip


def worker_main(path, start):
  import warp as wp

  wp.config.mode = "debug"  # bounds-checked kernels: an out-of-range index aborts the process
  try:
    wp.config.log_level = 30
  except Exception:
    pass
  cases = json.load(open(path))
  for i in range(start, len(cases)):
    print(f"BEGIN {i}", flush=True)
    try:
      r = worker_case(cases[i])
    except Exception as e:  # noqa
      r = {"exception": type(e).__name__ + ": " + str(e)[:300]}
    print(f"DONE {i} " + json.dumps(r), flush=True)


def run_debug_worker(cases, timeout=900, max_deaths=3):
  """Runs all cases in child processes; returns list of (status, payload): status in ok|crash|timeout|skipped.

  After max_deaths child deaths the remaining cases are skipped (every restart costs a Warp import)."""
  import os
  import subprocess
  import sys

  os.makedirs(vlib.BUILD, exist_ok=True)
  path = os.path.join(vlib.BUILD, f"C28_cases_{os.getpid()}.json")
  with open(path, "w") as fh:
    json.dump(cases, fh)
  out = [None] * len(cases)
  start = 0
  deaths = 0
  while start < len(cases):
    if deaths >= max_deaths:
      for i in range(start, len(cases)):
        out[i] = out[i] or ("skipped", {})
      break
    try:
      p = subprocess.run([sys.executable, os.path.abspath(__file__), "--worker", path, str(start)], capture_output=True, text=True, timeout=timeout)
      txt, err, rc = p.stdout, p.stderr, p.returncode
    except subprocess.TimeoutExpired as e:
      txt = (e.stdout or b"").decode(errors="replace") if isinstance(e.stdout, bytes) else (e.stdout or "")
      err, rc = "TIMEOUT", 124
    began = None
    for line in txt.splitlines():
      if line.startswith("BEGIN "):
        began = int(line.split()[1])
      elif line.startswith("DONE "):
        _, i, payload = line.split(" ", 2)
        out[int(i)] = ("ok", json.loads(payload))
        began = None
    if began is not None:  # the child died (or hung) inside this case
      tail = "\n".join(l for l in err.splitlines() if "conda" not in l)[-600:]
      out[began] = ("timeout" if rc == 124 else "crash", {"returncode": rc, "stderr": tail})
      start = began + 1
      deaths += 1
    else:
      nxt = max([i for i, o in enumerate(out) if o is not None], default=start - 1) + 1
      if nxt <= start and rc != 0:  # died before the first BEGIN: machinery problem
        raise RuntimeError("C28 debug worker failed to start: " + err[-800:])
      start = max(nxt, start + 1) if rc != 0 else len(cases)
  try:
    os.remove(path)
  except OSError:
    pass
  return out


def dense_debug(res, facts, fails):
  quick = res.tier == "quick"
  rng = np.random.default_rng(vlib.seed() + 2804)
  xcases, acases = dense_xml_cases(quick), dense_adj_cases(rng, quick)
  results = run_debug_worker(acases + xcases)
  lines, meta = [], []
  cap = facts["cap"]
  for c, r in zip(acases + xcases, results):
    res.count()
    kind = "adj" if "adj" in c else "xml"
    data = {"kind": "dense-" + kind, "case": c}
    if r is not None and r[0] == "skipped":
      continue
    if r is None or r[0] != "ok":
      st, info = r if r else ("crash", {})
      oob = "Assertion" in info.get("stderr", "") or st == "crash"
      fails.append(("C28:flood_fill:stack-out-of-bounds" if oob else "C28:island:debug-build-" + st,
                    f"{c['name']}: bounds-checked debug build died inside the island code ({st}, rc {info.get('returncode')}): {info.get('stderr', '')[-200:]}", data))  # fmt: skip
      continue
    r = r[1]
    if "exception" in r:
      fails.append(("C28:island:exception", f"{c['name']}: {r['exception']}", data))
      continue
    res.nontrivial(("dense", c["name"], kind))
    if kind == "adj":
      n, a = c["n"], np.array(c["adj"])
      olab, k = components_oracle(a)
      for w in range(2):
        if r["lab"][w] != olab or r["nisland"][w] != k:
          fails.append(("C28:flood_fill:labels-not-components", f"{c['name']}: labels {r['lab'][w]} nisland {r['nisland'][w]}, components {olab} {k}", data))
      capn = cap(n) if cap else n * n
      exp = r["lab"][0] + [r["nisland"][0], 0]
      lines.append(f"tvz (let r := flood_fill {zz(n)} {zll(a)} (zfill {zz(capn)} {zz(0)}) in lab (fst r) ++ [snd r; if bad (fst r) then {zz(1)} else {zz(0)}]) {zl(exp)}")
      meta.append(("dense-adj", c["name"], 0))
    else:
      M, D = r["M"], r["D"]
      lines.append(f"tvz (pipeline_flat {emodel_term(M)} {edata_term(D)} {zz(r['ntree'])}) {zl(r['flat'])}")
      meta.append(("dense-xml", c["name"], 0))
      if r["forward"]["tree_island"] != r["mine"]["tree_island"] or r["forward"]["nisland"] != r["mine"]["nisland"]:
        fails.append(("C28:forward:island-differs-from-direct-call", f"{c['name']}: forward {r['forward']} vs island.island {r['mine']['tree_island']}", data))
      if r["components"][0] != r["mine"]["tree_island"] or r["components"][1] != r["mine"]["nisland"]:
        fails.append(("C28:flood_fill:labels-not-components", f"{c['name']}: tree_island {r['mine']['tree_island']} vs components {r['components'][0]}", data))
      if r["maps_err"]:
        fails.append(("C28:island_maps:" + re.sub(r"\[\d+\]", "", r["maps_err"].split(" ")[0]), f"{c['name']}: {r['maps_err']}", data))
      if r["mj"]["nefc"] == r["mine"]["nefc"]:
        diffs = [f"{k} {r['mine'][k]} vs mujoco {r['mj'][k]}" for k in r["mj"] if r["mj"][k] != r["mine"][k]]
        if diffs:
          fails.append(("C28:mujoco-parity:" + diffs[0].split(" ")[0], f"{c['name']}: " + "; ".join(diffs[:3]), data))
      else:
        res.notes.append(f"dense case {c['name']}: nefc differs from MuJoCo; parity skipped")
      if c["name"].startswith("mixed") and not {0, 1, 2, 3, 4}.issubset(set(r["types"])):
        res.notes.append(f"{c['name']}: row kinds present {r['types']}")
  res.sample({"kind": "dense graphs, debug build subprocess", "cases": [c["name"] for c in acases[:6] + xcases], "stack_expr": facts["expr"]})
  return lines, meta


# ----------------------------------------------------------------------------------------
def check_enums(res):
  from mujoco_warp._src.types import ConstraintType, EqType, ObjType

  ok = all(int(getattr(ConstraintType, k)) == v for k, v in ENUMS.items())
  ok = ok and int(EqType.CONNECT) == 0 and int(EqType.WELD) == 1 and int(ObjType.SITE) == 6
  res.obligation("enum constants of Model/Island.v match types.py", ok, "")
  return ok


def run(res):
  import tvalid

  quick = res.tier == "quick"
  res.rule = (
    "cases: (a) synthetic constraint graphs (ntree 1..8, every row kind, static bodies, flex contacts, dense+sparse, nefc>=njmax) through the real "
    "tree_edges/island/_compute_efc_tree/compute_island_mapping, every output array compared exactly with the Coq model; (b) direct _flood_fill "
    "launches on arbitrary adjacency matrices (all symmetric graphs on <=3 trees quick / <=5 thorough, random up to 8 incl. asymmetric) comparing labels, "
    "nisland and the final stack array; (c) real MuJoCo models; (d) dense coupling graphs (cliques, complete bipartite, contact clusters, one island mixing every row kind) through mjw.forward with sleep+island enabled and through the host flood_fill, in a child process with Warp's bounds-checked debug build; distinct = distinct inputs with at least one island"
  )
  ok, trs, failing = propkit.prove(res, PROPS)
  enum_ok = check_enums(res)
  fails = []
  # (S) allocation site of the DFS stack and the aliasing the model relies on
  try:
    facts = stack_facts()
  except Exception as e:  # fail closed
    facts = {"expr": None, "cap": None, "aliased": False, "filled": False, "error": f"{type(e).__name__}: {e}"}
  cap_ok = facts["cap"] is not None
  if cap_ok:
    try:
      cap_ok = all(facts["cap"](n) >= 1 + n * (n - 1) for n in range(1, 257))
    except Exception:
      cap_ok = False
  res.obligation(
    "S: island.flood_fill allocates a per-world DFS stack of at least 1 + ntree*(ntree-1) ints for ntree in 1..256 (C28_flood_fill_stack_depth_le_edges applies)",
    cap_ok, f"stack size expression: {facts['expr']}",
  )  # fmt: skip
  alias_ok = bool(facts["aliased"] and facts["filled"])
  res.obligation("S: flood_fill passes d.tree_island as labels_in and tree_island_out, one scratch array as stack_in and stack_out, m.ntree as ntree, after tree_island.fill_(-1)", alias_ok, "")
  res.extra["stack_expr"] = facts["expr"]
  # dense graphs first, in a bounds-checked child: if the island code writes out of bounds there, the phases
  # that run the same host code in THIS (release-build) process are skipped rather than corrupting its heap
  l4, m4 = dense_debug(res, facts, fails)
  oob = any(k == "C28:flood_fill:stack-out-of-bounds" for k, _, _ in fails)
  if oob:
    res.notes.append("out-of-bounds access found in the debug-build child: in-process phases (synthetic pipeline, real models) skipped")
    l1, m1, l3, m3 = [], [], [], []
  else:
    l1, m1 = synthetic(res, 30 if quick else 300, 8, fails)
    l3, m3 = real_models(res, 40 if quick else 400, fails)
  l2, m2 = flood_direct(res, 300 if quick else 3000, 3 if quick else 5, fails)
  lines, meta = l1 + l2 + l3 + l4, m1 + m2 + m3 + m4
  verdicts = tvalid.run_cases("C28", ["Model.Island"], lines, chunk=150)
  bad = [(mt, ln) for mt, ln, v in zip(meta, lines, verdicts) if v != 0]
  per = {}
  for mt, v in zip(meta, verdicts):
    st = per.setdefault(mt[0], [0, 0])
    st[0 if v == 0 else 1] += 1
  res.extra["correspondence"] = {k: {"agree": v[0], "disagree": v[1]} for k, v in per.items()}
  res.obligation("correspondence Model/Island.v vs real island.py (synthetic pipeline, _flood_fill direct, real models, dense graphs in the debug build)", not bad, f"{len(bad)} disagreements of {len(lines)}")
  seen = set()
  for key, what, data in fails:
    if key in seen:
      continue
    seen.add(key)
    res.violation(key, what, data)
  if bad and not fails:
    res.violation("C28:model-mismatch", "Coq model disagrees with the real island kernels (model no longer tied to code)", [{"case": list(mt), "line": ln[:4000]} for mt, ln in bad[:3]], found_input=False)
  if (not ok or not enum_ok or not cap_ok or not alias_ok) and not fails:
    propkit.broken_proof_violation(res, "C28 theorems over Model/Island.v", failing or ("enum constants" if not enum_ok else f"S-fact flood_fill stack/aliasing (stack expr {facts['expr']})"))
  res.assumptions += [
    "a kernel launch is a sequential fold over some order of its tasks with indivisible atomics (theorems hold for every order)",
    "inputs are well formed: tree ids in [-1,ntree), array lengths as allocated by put_data (out-of-range indices are not modelled)",
    "contact/equality rows are taken as produced by make_constraint (C16/C31 cover their construction)",
  ]


def replay(res, path):
  import mujoco
  import warp as wp

  import mujoco_warp as mjw
  from mujoco_warp._src import island

  r = json.load(open(path))["replay"]
  if not isinstance(r, dict) or "kind" not in r:
    print("replay: no concrete input in this file (proof/correspondence breakage); re-run the check")
    return 1
  if r["kind"].startswith("dense-"):
    out = run_debug_worker([r["case"]])[0]
    pl = out[1]
    brief = {k: pl[k] for k in ("maps_err", "mine", "mj", "forward", "lab", "nisland", "returncode", "stderr", "exception") if k in pl}
    print("debug-build child:", out[0], json.dumps(brief)[:2500])
    return 0
  if r["kind"] == "flood":
    n = r["n"]
    tt = wp.array(np.array(r["adj"], np.int32)[None], dtype=int)
    stack = wp.array(np.array(r["stack0"], np.int32)[None], dtype=int)
    lab = wp.array(np.full((1, n), -1, np.int32), dtype=int)
    nisl = wp.zeros(1, dtype=int)
    wp.launch(island._flood_fill, dim=1, inputs=[n, tt, lab, stack], outputs=[nisl, lab, stack])
    print("labels", lab.numpy()[0].tolist(), "nisland", nisl.numpy()[0], "expected", components_oracle(np.array(r["adj"])))
    return 0
  if r["kind"] == "real":
    mjm = mujoco.MjModel.from_xml_string(r["xml"])
    mjd = mujoco.MjData(mjm)
    mjd.qpos[:] = r["qpos"]
    mujoco.mj_forward(mjm, mjd)
    mm, dd = mjw.put_model(mjm), mjw.put_data(mjm, mjd, nworld=1, njmax=max(8, 2 * mjd.nefc + 4), njmax_nnz=max(8, 2 * mjd.nefc + 4) * mjm.nv)
    mjw.fwd_position(mm, dd)
    o = real_pipeline(mm, dd)[0]
    print("mjw tree_island", o["lab"].tolist(), "nisland", o["nisland"], "| mujoco", mjd.tree_island.tolist(), mjd.nisland)
    return 0
  if r["kind"] == "synthetic":
    M = {k: (np.array(v) if isinstance(v, list) else v) for k, v in r["model"].items()}
    wd = {k: (np.array([[np.nan if x is None else x for x in row] for row in v], np.float32) if k == "J" else np.array(v) if isinstance(v, list) else v) for k, v in r["world"].items()}
    fm, fd = fake_md(M, [wd])
    o = real_pipeline(fm, fd)[0]
    print("tree_tree", o["tt"].tolist(), "tree_island", o["lab"].tolist(), "nisland", o["nisland"], "components", components_oracle(o["tt"]))
    return 0
  return 1


if __name__ == "__main__":
  import sys

  if len(sys.argv) == 4 and sys.argv[1] == "--worker":
    worker_main(sys.argv[2], int(sys.argv[3]))
