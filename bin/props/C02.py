"""C02 Smooth dynamics agree with MuJoCo C.

proof   : Props/C02.v (tree accumulation under every schedule, spatial algebra of math.py over R,
          M entry = subtree sum, _qfrc_smooth, polynomial damping)
T       : inert_vec / motion_cross / motion_cross_force (Gen/math.v), _poly_force & co (Gen/passive_util.v)
          validated against the compiled Warp functions
C       : Model/Dyn.v (body_tree, tree_accumulate, subtree_sum, subtree_nodes, qfrc_smooth_kernel) evaluated by
          vm_compute against put_model's body_tree and the REAL kernels (smooth.crb, smooth._rne_cfrc_backward,
          smooth._subtree_com_acc, forward._qfrc_smooth) on integer-valued arrays over random forests
oracle  : mjw.forward / rne_postconstraint / mul_m against mujoco.mj_forward / mj_rnePostConstraint / mj_mulM
          on random trees with armature, (polynomial) stiffness and damping, gravcomp, fluid (inertia box and
          ellipsoid), wind, tendon stiffness/damping/armature, every M block layout, two worlds in different states
"""

from __future__ import annotations

import json

import numpy as np

import propkit
import vlib

MANIFEST = {
  "text": "proof: (1) leaf-to-root accumulation over the body forest launched level by level as crb/com_pos/rne do, with every order of the tasks inside a level, leaves at each body the recursive subtree sum and equals MuJoCo's sequential backward loop (any commutative semigroup; both kernel guards); (2) over R on the regenerated math.py: inert_vec is symmetric for every 10-vector, motion_cross antisymmetric, motion_cross_force is minus its transpose, the velocity-product force does no work; (3) the entry _M adds from the accumulated crb is the sum of per-body contributions over the subtree (crb_is_JtIJ_partial); (4) _qfrc_smooth = passive - bias + actuator + applied, zero on sleeping trees; polynomial damping dissipative. cinert/cdof/cvel, the RNE forward pass, spring/gravcomp/fluid/tendon passive forces, factor/solve and float32 rounding are only tested against MuJoCo C",
  "note": "trusted: Coq kernel; translator bin/translate.py (validated each run); hand models of Model/Dyn.v (body_tree of put_model, the three accumulate kernels, _qfrc_smooth) tied to the real kernels by the correspondence run on integer-valued arrays; one world modelled (world independence is C09/C10); exact arithmetic in the theorems",
  "technique": "Rocq proof over hand model + machine-translated functions, correspondence by vm_compute against the real kernels, differential oracle against MuJoCo C",
  "engine": "coq",
}

PROPS = "Props/C02.v"
MATH_FUNCS = ["inert_vec", "motion_cross", "motion_cross_force"]
UTIL_FUNCS = ["_poly_force", "_poly_force_deriv", "poly_potential", "_pow2", "_pow4", "geom_semiaxes", "ellipsoid_max_moment"]


# ------------------------------------------------------------------------------------------------
# T-validation
# ------------------------------------------------------------------------------------------------
def tvalidate(res, trs, n):
  import tvalid

  bad = []

  def vec(rng, k, m):
    x = rng.standard_normal((k, m)) * (10.0 ** rng.uniform(-1.0, 0.5, k))[:, None]
    x[rng.random(k) < 0.05] = 0.0
    return x.astype(np.float32)

  if trs.get("math") is not None:
    tv = tvalid.TValid("C02m", trs["math"], "Gen.math")
    tv.add("inert_vec", gen=lambda rng, k: [vec(rng, k, 10), vec(rng, k, 6)], tol=1e-4)
    tv.add("motion_cross", gen=lambda rng, k: [vec(rng, k, 6), vec(rng, k, 6)], tol=1e-4)
    tv.add("motion_cross_force", gen=lambda rng, k: [vec(rng, k, 6), vec(rng, k, 6)], tol=1e-4)
    b, _ = tv.run(res, n_per_fn=n, label="T-validation math.py spatial algebra")
    bad += b
  if trs.get("passive_util") is not None:
    tv = tvalid.TValid("C02p", trs["passive_util"], "Gen.passive_util")

    def poly(rng, k):
      return [vec(rng, k, 1)[:, 0], vec(rng, k, 2), vec(rng, k, 1)[:, 0], rng.integers(0, 2, k).astype(np.int32)]

    for f in ("_poly_force", "_poly_force_deriv", "poly_potential"):
      tv.add(f, gen=poly, tol=1e-4)
    tv.add("_pow2", tol=1e-5)
    tv.add("_pow4", tol=1e-5)
    tv.add("geom_semiaxes", gen=lambda rng, k: [np.abs(vec(rng, k, 3)), rng.integers(0, 9, k).astype(np.int32)], tol=1e-5)
    tv.add("ellipsoid_max_moment", gen=lambda rng, k: [np.abs(vec(rng, k, 3)), rng.integers(0, 3, k).astype(np.int32)], tol=1e-4)
    b, _ = tv.run(res, n_per_fn=max(20, n // 3), label="T-validation passive helpers")
    bad += b
  return bad


# ------------------------------------------------------------------------------------------------
# correspondence: Model/Dyn.v vs put_model's body_tree and the real accumulate kernels
# ------------------------------------------------------------------------------------------------
def forest_xml(rng, kind):
  """A body forest (every body one hinge or welded, one small geom). Returns xml."""
  if kind == "chain":
    nb = int(rng.integers(2, 14))
    parents = [-1] + list(range(nb - 1))
  elif kind == "star":
    nb = int(rng.integers(2, 14))
    parents = [-1] * nb
  elif kind == "broom":  # chain then fan
    c = int(rng.integers(1, 6))
    f = int(rng.integers(2, 8))
    parents = [-1] + list(range(c - 1)) + [c - 1] * f
    nb = len(parents)
  else:
    nb = int(rng.integers(1, 40))
    deep = rng.random() < 0.5
    parents = []
    for b in range(nb):
      if b == 0 or rng.random() < 0.12:
        parents.append(-1)
      elif deep:
        parents.append(int(rng.integers(max(0, b - 3), b)))
      else:
        parents.append(int(rng.integers(0, b)))
  children = {b: [c for c in range(len(parents)) if parents[c] == b] for b in range(-1, len(parents))}

  def emit(b):
    s = f'<body pos="{rng.normal(0, 0.2):.3f} {rng.normal(0, 0.2):.3f} {rng.normal(0, 0.2):.3f}">'
    if rng.random() < 0.85:
      s += f'<joint type="hinge" axis="{rng.normal():.3f} {rng.normal():.3f} 1"/>'
    s += '<geom size="0.05" contype="0" conaffinity="0"/>'
    order = list(children[b])
    rng.shuffle(order)  # XML order decides body ids: vary it
    for c in order:
      s += emit(c)
    return s + "</body>"

  roots = list(children[-1])
  rng.shuffle(roots)
  return "<mujoco><worldbody>" + "".join(emit(b) for b in roots) + "</worldbody></mujoco>"


def _subtree_sets(parent, skip_parent0):
  """Independent definition of the subtree: bodies whose ancestor chain (through contributing links) meets b."""
  n = len(parent)
  out = []
  for b in range(n):
    mem = []
    for j in range(n):
      k = j
      hit = k == b
      while not hit and k != 0:
        if skip_parent0 and parent[k] == 0:
          break  # link into the world body does not contribute (crb)
        k = parent[k]
        hit = k == b
      if hit:
        mem.append(j)
    out.append(mem)
  return out


def _run_cases(tag, imports, lines, chunk):
  """tvalid.run_cases; if another check rebuilt a library under us (stale .vo: "inconsistent assumptions"),
  rebuild Model/Dyn.vo under the build lock and retry once."""
  import tvalid

  try:
    return tvalid.run_cases(tag, imports, lines, chunk=chunk)
  except RuntimeError as e:
    if "inconsistent assumptions" not in str(e):
      raise
    with vlib.Lock():
      vlib.coq_make(["Model/Dyn.vo"])
    return tvalid.run_cases(tag, imports, lines, chunk=chunk)


def corr_accumulate(res, nforests):
  import mujoco
  import warp as wp

  import mujoco_warp as mjw
  import tvalid
  from mujoco_warp._src import smooth
  from mujoco_warp._src.types import vec10

  rng = np.random.default_rng(vlib.seed() + 202)
  lines, meta = [], []
  kinds = ["chain", "star", "broom"] + ["random"] * 7
  Z = vlib.zlist

  def ints(shape):
    return rng.integers(-900, 901, shape).astype(np.float32)

  def exact(a):
    a = np.asarray(a, dtype=np.float64)
    assert np.all(a == np.round(a)) and np.all(np.abs(a) < 2**24), "integer-valued float32 expected"
    return [int(x) for x in a]

  for k in range(nforests):
    kind = kinds[k % len(kinds)]
    xml = forest_xml(rng, kind)
    m = mujoco.MjModel.from_xml_string(xml)
    d = mujoco.MjData(m)
    mujoco.mj_forward(m, d)
    mm = mjw.put_model(m)
    dd = mjw.put_data(m, d, nworld=2)
    nb = m.nbody
    par = [int(x) for x in mm.body_parentid.numpy()]
    P = Z(par)
    shape_key = ("forest", tuple(par))
    # 1. body_tree of put_model
    bt = [[int(x) for x in a.numpy()] for a in mm.body_tree]
    exp = [x for lvl in bt for x in lvl] + [len(lvl) for lvl in bt]
    lines.append(f"tvz (concat (body_tree {P}) ++ map (fun l => Z.of_nat (length l)) (body_tree {P})) {Z(exp)}")
    meta.append(("body_tree", xml, par, None, exp))

    def add(tag, g, init_w, out_w, comp):
      init = exact(init_w[:, comp])
      out = exact(out_w[:, comp])
      lines.append(f"tvz (tree_accumulate_Z {g} {P} {Z(init)}) {Z(out)}")
      meta.append((tag, xml, par, init, out))
      return init, out

    # 2. crb: the real host function (wp.copy(d.crb, d.cinert); level loop; _M)
    cin = ints((2, nb, 10))
    dd.cinert.assign(wp.array(cin, dtype=vec10))
    smooth.crb(mm, dd)
    crb = dd.crb.numpy()
    for w, c in ((0, 0), (0, 9), (1, 4)):
      init, out = add("crb", "SkipParent0", cin[w], crb[w], c)
    lines.append(f"tvz (subtree_sums_Z SkipParent0 {P} {Z(init)}) {Z(out)}")
    meta.append(("crb-spec", xml, par, init, out))
    # 3. cfrc_int: the real host function _rne_cfrc_backward
    cf = ints((2, nb, 6))
    dd.cfrc_int.assign(wp.array(cf, dtype=wp.spatial_vector))
    smooth._rne_cfrc_backward(mm, dd)
    cfo = dd.cfrc_int.numpy()
    for w, c in ((0, 0), (1, 5)):
      init, out = add("cfrc_backward", "SkipBody0", cf[w], cfo[w], c)
    lines.append(f"tvz (subtree_sums_Z SkipBody0 {P} {Z(init)}) {Z(out)}")
    meta.append(("cfrc-spec", xml, par, init, out))
    # 4. subtree_com: the host loop of com_pos between _subtree_com_init and _subtree_div
    sc = ints((2, nb, 3))
    dd.subtree_com.assign(wp.array(sc, dtype=wp.vec3))
    for i in reversed(range(len(mm.body_tree))):
      body_tree = mm.body_tree[i]
      wp.launch(smooth._subtree_com_acc, dim=(dd.nworld, body_tree.size), inputs=[mm.body_parentid, dd.subtree_com, body_tree], outputs=[dd.subtree_com])
    sco = dd.subtree_com.numpy()
    for w, c in ((0, 1), (1, 2)):
      add("subtree_com_acc", "SkipBody0", sc[w], sco[w], c)
    # 5. MuJoCo's own serial loop on the same integers (the C reference algorithm), and the list-of-bodies form
    init = exact(sc[0][:, 0])
    ser = list(init)
    for i in range(nb - 1, 0, -1):
      ser[par[i]] += ser[i]
    lines.append(f"tvz (serial_accumulate Z.add 0%Z SkipBody0 {P} {Z(init)}) {Z(ser)}")
    meta.append(("serial", xml, par, init, ser))
    for g, sp0 in (("SkipBody0", False), ("SkipParent0", True)):
      sets = _subtree_sets(par, sp0)
      exp = []
      for s in sets:
        exp += [len(s)] + sorted(s)
      lines.append(f"tvz (flat_map (fun b => Z.of_nat (length (subtree_nodes {g} {P} b)) :: sort_uniq (subtree_nodes {g} {P} b)) (zseq {nb}%nat)) {Z(exp)}")
      meta.append(("subtree_nodes-" + g, xml, par, None, exp))
    res.nontrivial(shape_key)
    if k == 0:
      res.sample({"kind": "correspondence accumulate", "body_parentid": par, "body_tree": bt, "cinert_comp0": exact(cin[0][:, 0]), "crb_comp0": exact(crb[0][:, 0])})
  verdicts = _run_cases("C02acc", ["Model.Dyn"], lines, chunk=70)
  bad = []
  for (tag, xml, par, init, out), v in zip(meta, verdicts):
    if v != 0:
      bad.append({"site": tag, "xml": xml, "body_parentid": par, "init": init, "real_output": out})
  res.count(len(lines))
  return bad


def corr_qfrc_smooth(res, n):
  import warp as wp

  import tvalid
  from mujoco_warp._src import forward

  rng = np.random.default_rng(vlib.seed() + 203)
  lines, meta = [], []
  Z, F = vlib.zlist, vlib.flist
  for k in range(n):
    nv = int(rng.integers(1, 13))
    nbody = int(rng.integers(2, 9))
    ntree = int(rng.integers(1, 5))
    body_treeid = rng.integers(-1, ntree, nbody).astype(np.int32)
    body_treeid[0] = -1
    dof_bodyid = rng.integers(0, nbody, nv).astype(np.int32)
    tree_awake = rng.integers(0, 2, ntree).astype(np.int32)
    fl = [(rng.standard_normal(nv) * 3).astype(np.float32) for _ in range(4)]  # applied, bias, passive, actuator
    for es in (True, False):
      out = wp.zeros((1, nv), dtype=float)
      out.fill_(7.0)
      wp.launch(
        forward._qfrc_smooth(es),
        dim=(1, nv),
        inputs=[wp.array(body_treeid), wp.array(dof_bodyid), wp.array(fl[0][None]), wp.array(tree_awake[None]), wp.array(fl[1][None]), wp.array(fl[2][None]), wp.array(fl[3][None])],
        outputs=[out],
      )
      exp = out.numpy()[0].astype(np.float64)
      args = f"{'true' if es else 'false'} {Z(body_treeid)} {Z(dof_bodyid)} {Z(tree_awake)} {F(fl[0])} {F(fl[1])} {F(fl[2])} {F(fl[3])}"
      lines.append(f"tv3 {vlib.fhex(1e-5)} (fun Sc => @qfrc_smooth_kernel float Sc {args}) {F(exp)}")
      meta.append({"enable_sleep": es, "body_treeid": body_treeid.tolist(), "dof_bodyid": dof_bodyid.tolist(), "tree_awake": tree_awake.tolist(), "real_output": exp.tolist()})
      nsleep = int(sum(1 for i in range(nv) if body_treeid[dof_bodyid[i]] >= 0 and tree_awake[body_treeid[dof_bodyid[i]]] == 0))
      res.nontrivial(("qfrc_smooth", es, nsleep > 0, nsleep < nv))
  verdicts = _run_cases("C02qs", ["Model.Dyn"], lines, chunk=40)
  bad = [mt for mt, v in zip(meta, verdicts) if v == 2]
  res.count(len(lines))
  return bad


# ------------------------------------------------------------------------------------------------
# oracle: MJWarp vs MuJoCo C
# ------------------------------------------------------------------------------------------------
def _f(x):
  return " ".join(f"{float(v):.6g}" for v in np.atleast_1d(x))


LAYOUT_KINDS = ["single", "free_simple", "free7", "arms64", "arms65", "sliders", "multi"]


def dyn_model(rng, kind):
  """Random MJCF exercising the smooth-dynamics features. Returns (xml, overrides) where overrides are
  model arrays set after compilation (polynomial stiffness / damping coefficients)."""
  fluid = rng.random() < 0.6
  ellipsoid = fluid and rng.random() < 0.6
  jid = [0]
  sid = [0]
  scalar_joints, sites = [], []

  def joint(jt, extra_p=1.0):
    name = f"j{jid[0]}"
    jid[0] += 1
    if jt == "free":
      return f'<freejoint name="{name}"/>'
    a = f'name="{name}" type="{jt}" pos="{_f(rng.normal(0, 0.05, 3))}"'
    if jt != "ball":
      a += f' axis="{_f(rng.normal(0, 1, 3))}"'
      scalar_joints.append(name)
    if rng.random() < 0.6 * extra_p:
      a += f' armature="{_f([rng.uniform(0.005, 0.2)])}"'
    if rng.random() < 0.5 * extra_p:
      a += f' stiffness="{_f([rng.uniform(0.1, 8)])}"'
      if jt != "ball":
        a += f' springref="{_f([rng.normal(0, 0.3)])}"'
    if rng.random() < 0.5 * extra_p:
      a += f' damping="{_f([rng.uniform(0.01, 2)])}"'
    if jt != "ball" and rng.random() < 0.1:
      a += ' actuatorgravcomp="true"'
    return f"<joint {a}/>"

  def geom():
    gt = str(rng.choice(["sphere", "capsule", "box", "ellipsoid", "cylinder"]))
    if gt == "sphere":
      size = _f([rng.uniform(0.04, 0.12)])
    elif gt in ("capsule", "cylinder"):
      size = _f([rng.uniform(0.03, 0.08), rng.uniform(0.05, 0.15)])
    else:
      size = _f(rng.uniform(0.03, 0.12, 3))
    s = f'<geom type="{gt}" size="{size}" pos="{_f(rng.normal(0, 0.05, 3))}" quat="{_f(rng.normal(0, 1, 4))}" contype="0" conaffinity="0" density="{_f([rng.uniform(300, 2000)])}"'
    if ellipsoid and rng.random() < 0.8:
      s += f' fluidshape="ellipsoid" fluidcoef="{_f(rng.uniform(0.1, 1.5, 5))}"'
    return s + "/>"

  def body(joints, children="", root=False, simple=False):
    pos = rng.normal(0, 0.3, 3) + (np.array([0, 0, 0.8]) if root else 0)
    s = f'<body pos="{_f(pos)}"' + ("" if simple else f' quat="{_f(rng.normal(0, 1, 4))}"')
    if rng.random() < 0.4:
      s += f' gravcomp="{_f([rng.uniform(0.1, 1.5)])}"'
    s += ">" + "".join(joints)
    if simple:
      s += f'<geom type="sphere" size="{_f([rng.uniform(0.05, 0.1)])}" contype="0" conaffinity="0"/>'
    else:
      # bodies that use the ellipsoid fluid model get ONE geom, so that the geom centre is the body CoM: a geom
      # away from the CoM hits the recorded defect C02:passive._fluid_force:ellipsoid-force-moment-dropped, which
      # has its own probe (probe_fluid_moment) and would otherwise mask every other disagreement
      s += geom() + (geom() if (not ellipsoid and rng.random() < 0.3) else "")
    if rng.random() < 0.7:
      sites.append(f"s{sid[0]}")
      s += f'<site name="s{sid[0]}" pos="{_f(rng.normal(0, 0.1, 3))}" size="0.01"/>'
      sid[0] += 1
    return s + children + "</body>"

  def random_tree(nb, root_free_p=0.4):
    parents = [-1] + [int(rng.integers(0, b)) for b in range(1, nb)]
    ch = {b: [c for c in range(nb) if parents[c] == b] for b in range(nb)}

    def emit(b):
      if b == 0 and rng.random() < root_free_p:
        js = [joint("free")]
      elif rng.random() < 0.1:
        js = []
      else:
        jt = str(rng.choice(["hinge", "hinge", "slide", "ball"]))
        js = [joint(jt)]
        if jt != "ball" and rng.random() < 0.3:
          js.append(joint(str(rng.choice(["hinge", "slide"]))))
      return body(js, "".join(emit(c) for c in ch[b]), root=(b == 0))

    return emit(0)

  def arms(narm, per):
    s = ""
    for _ in range(narm):
      a = ""
      for _ in range(per):
        a = body([joint("hinge", 0.5)], a)
      s += a
    return body([joint("hinge")], s, root=True)

  if kind == "single":
    wb = body([joint("hinge")], root=True)
  elif kind == "free_simple":  # diagonal M rows (dof_simplenum): the compact layout
    wb = body([joint("free")], root=True, simple=True) + body([joint("free")], root=True, simple=True)
  elif kind == "free7":
    wb = body([joint("free")], body([joint("hinge")]), root=True)
  elif kind == "arms64":
    wb = arms(9, 7)  # 1 + 63 dofs: the largest tile block
  elif kind == "arms65":
    wb = arms(8, 8)  # 1 + 64 dofs: sparse LDL
  elif kind == "sliders":
    wb = body([joint("slide"), joint("slide"), joint("slide")], body([joint("hinge")]), root=True)
  elif kind == "multi":
    wb = "".join(random_tree(int(rng.integers(1, 4))) for _ in range(int(rng.integers(2, 5))))
  else:
    wb = random_tree(int(rng.integers(2, 9)))
  opt = f'gravity="{"0 0 -9.81" if rng.random() < 0.85 else _f(rng.normal(0, 5, 3))}"'
  if fluid:
    if rng.random() < 0.8:
      opt += f' density="{_f([rng.uniform(0.5, 50)])}"'
    if rng.random() < 0.8:
      opt += f' viscosity="{_f([rng.uniform(0.001, 0.5)])}"'
    if rng.random() < 0.6:
      opt += f' wind="{_f(rng.normal(0, 1, 3))}"'
  # put_model rejects jacobian=dense for nv > 60
  opt += f' jacobian="{rng.choice(["auto", "sparse"] if kind in ("arms64", "arms65") else ["auto", "dense", "sparse"])}"'
  flags = ""
  r = rng.random()
  if r < 0.08:
    flags = '<flag spring="disable"/>'
  elif r < 0.16:
    flags = '<flag damper="disable"/>'
  elif r < 0.22:
    flags = '<flag gravity="disable"/>'
  elif r < 0.26:
    flags = '<flag spring="disable" damper="disable"/>'
  xml = f"<mujoco><option {opt}>{flags}</option><worldbody>{wb}</worldbody>"
  tend = ""
  if len(scalar_joints) >= 2 and rng.random() < 0.6:
    for t in range(int(rng.integers(1, 3))):
      k = int(rng.integers(2, min(4, len(scalar_joints)) + 1))
      idx = rng.choice(len(scalar_joints), k, replace=False)
      a = f'stiffness="{_f([rng.uniform(0.5, 5)])}" damping="{_f([rng.uniform(0.05, 1)])}"'
      if rng.random() < 0.6:
        a += f' armature="{_f([rng.uniform(0.005, 0.1)])}"'
      if rng.random() < 0.5:
        lo = rng.normal(0, 0.2)
        a += f' springlength="{_f([lo])} {_f([lo + rng.uniform(0, 0.3)])}"'
      tend += f"<fixed {a}>" + "".join(f'<joint joint="{scalar_joints[i]}" coef="{_f([rng.normal(0, 1)])}"/>' for i in idx) + "</fixed>"
  if len(sites) >= 2 and rng.random() < 0.5:
    i, j = rng.choice(len(sites), 2, replace=False)
    a = f'stiffness="{_f([rng.uniform(0.5, 5)])}" damping="{_f([rng.uniform(0.05, 1)])}"'
    if rng.random() < 0.6:
      a += f' armature="{_f([rng.uniform(0.005, 0.1)])}"'
    tend += f'<spatial {a}><site site="{sites[i]}"/><site site="{sites[j]}"/></spatial>'
  if tend:
    xml += f"<tendon>{tend}</tendon>"
  xml += "</mujoco>"
  return xml


POLY_FIELDS = ("jnt_stiffnesspoly", "dof_dampingpoly", "tendon_stiffnesspoly", "tendon_dampingpoly")


def poly_overrides(rng, m):
  """Polynomial stiffness / damping coefficients, set on the compiled model (arrays of MjModel).

  dof_dampingpoly is drawn per JOINT and copied to the joint's dofs, as the MuJoCo compiler does for `damping`:
  values that differ between the dofs of one free/ball joint hit the recorded defect
  C02:passive._spring_damper_dof_passive:joint-damping-read-from-first-dof (own probe: probe_dof_damping)."""
  ov = {}
  if rng.random() < 0.6:
    for f in POLY_FIELDS:
      a = np.array(getattr(m, f), dtype=np.float64)
      if a.size == 0:
        continue
      if f == "dof_dampingpoly":
        pj = np.where((rng.random(m.njnt) < 0.5)[:, None], rng.uniform(0.0, 1.5, (m.njnt, 2)), 0.0)
        a = pj[m.dof_jntid]
      else:
        mask = rng.random(a.shape[0]) < 0.5
        a[mask] = rng.uniform(0.0, 1.5, (int(mask.sum()), 2))
      ov[f] = a.astype(np.float32).astype(np.float64).tolist()
  return ov


def build(xml, ov):
  import mujoco

  m = mujoco.MjModel.from_xml_string(xml)
  for f, a in ov.items():
    getattr(m, f)[:] = np.array(a).reshape(getattr(m, f).shape)
  return m


STATE_FIELDS = ("qpos", "qvel", "qfrc_applied", "xfrc_applied")

# float32 pipeline against float64 reference: |a-b| <= rtol * (1 + max|a|,|b|) over the field
FIELDS = [
  "cinert", "cdof", "crb", "M", "cvel", "cdof_dot", "qfrc_bias", "qfrc_spring", "qfrc_damper", "qfrc_gravcomp", "qfrc_fluid",
  "qfrc_passive", "qfrc_actuator", "qfrc_smooth",
]  # fmt: skip
POST_FIELDS = ["cacc", "cfrc_int", "cfrc_ext"]


def compare_case(case, want_detail=False):
  """Run MuJoCo C and MJWarp (2 worlds, different states) on one stored case; return list of (world, field, err)."""
  import mujoco
  import warp as wp

  import mjcmp
  import mujoco_warp as mjw
  from mujoco_warp._src import support

  m = build(case["xml"], case["overrides"])
  ds = []
  for w in range(2):
    d = mujoco.MjData(m)
    for f in STATE_FIELDS:
      getattr(d, f)[:] = np.array(case["state"][w][f]).reshape(getattr(d, f).shape)
    mujoco.mj_forward(m, d)
    ds.append(d)
  mm = mjw.put_model(m)
  d0 = mujoco.MjData(m)
  for f in STATE_FIELDS:
    getattr(d0, f)[:] = np.array(case["state"][0][f]).reshape(getattr(d0, f).shape)
  dd = mjw.put_data(m, d0, nworld=2)
  for f in STATE_FIELDS:
    arr = getattr(dd, f).numpy()
    arr[1] = np.array(case["state"][1][f]).reshape(arr[1].shape)
    getattr(dd, f).assign(arr)
  mjw.forward(mm, dd)
  mjw.rne_postconstraint(mm, dd)
  vec = np.array(case["vec"], dtype=np.float32).reshape(2, m.nv)
  mres = wp.zeros((2, m.nv), dtype=float)
  support.mul_m(mm, dd, mres, wp.array(vec, dtype=float))
  mres = mres.numpy()
  bad = []
  info = {"nv": int(m.nv), "tree_dofnum": [int(x) for x in m.tree_dofnum]}
  for w in range(2):
    d = ds[w]
    if not np.all(np.isfinite(d.qacc)):
      continue
    for name, err in mjcmp.compare_fields(dd, d, FIELDS, world=w, rtol=2e-4):
      bad.append((w, name, err))
    # dense M: mj_fullM against the CSR of MJWarp expanded with MuJoCo's own layout
    full = np.zeros((m.nv, m.nv))
    mujoco.mj_fullM(m, d, full)
    mine = np.zeros((m.nv, m.nv))
    Mw = dd.M.numpy()[w][: d.M.shape[0]].astype(np.float64)
    mujoco.mju_sym2dense(mine, Mw, m.M_rownnz, m.M_rowadr, m.M_colind)
    ok, err = mjcmp.cmp_arrays(mine, full, 2e-4)
    if not ok:
      bad.append((w, "M_dense", err))
    ok, err = mjcmp.cmp_arrays(mine, mine.T, 0.0)
    if not ok:
      bad.append((w, "M_symmetric", err))
    # mul_m
    ref = np.zeros(m.nv)
    mujoco.mj_mulM(m, d, ref, vec[w].astype(np.float64))
    ok, err = mjcmp.cmp_arrays(mres[w], ref, 2e-4)
    if not ok:
      bad.append((w, "mul_m", err))
    # solve: error of x = M^-1 f in float32 is bounded by cond(M) * eps32 * |x|; skip hopeless conditioning
    if m.nv:
      cond = float(np.linalg.cond(full))
      info["cond"] = max(info.get("cond", 0.0), cond)
      if cond < 1e5:
        r = max(2e-4, 8 * cond * 6e-8)
        for name in ("qacc_smooth", "qacc"):
          a = getattr(dd, name).numpy()[w]
          ok, err = mjcmp.cmp_arrays(a, getattr(d, name), r)
          if not ok:
            bad.append((w, name, err))
    # RNE with accelerations (cacc, cfrc_int, cfrc_ext): evaluated by MuJoCo at MJWarp's own qacc, so that the
    # conditioning of the solve (checked above with its own bound) does not enter this comparison
    d.qacc[:] = dd.qacc.numpy()[w].astype(np.float64)
    mujoco.mj_rnePostConstraint(m, d)
    for name, err in mjcmp.compare_fields(dd, d, POST_FIELDS, world=w, rtol=2e-4):
      bad.append((w, name, err))
  return bad, info


def make_case(rng, kind):
  import mujoco

  import models

  xml = dyn_model(rng, kind)
  m0 = mujoco.MjModel.from_xml_string(xml)
  ov = poly_overrides(rng, m0)
  m = build(xml, ov)
  states = []
  for w in range(2):
    d = mujoco.MjData(m)
    models.random_state(rng, m, d, vel_scale=float(10.0 ** rng.uniform(-1, 0.7)), unnormalized=bool(rng.random() < 0.3))
    st = {"qpos": d.qpos.tolist(), "qvel": d.qvel.tolist()}
    st["qfrc_applied"] = (rng.normal(0, 1, m.nv) * (rng.random() < 0.7)).astype(np.float32).astype(float).tolist()
    st["xfrc_applied"] = (rng.normal(0, 1, (m.nbody, 6)) * (rng.random() < 0.7)).astype(np.float32).astype(float).tolist()
    states.append(st)
  vec = rng.normal(0, 1, (2, m.nv)).astype(np.float32).astype(float).tolist()
  return {"kind": kind, "xml": xml, "overrides": ov, "state": states, "vec": vec}


def oracle(res, nrandom):
  rng = np.random.default_rng(vlib.seed() + 204)
  fails = []
  kinds = LAYOUT_KINDS + ["random", "random", "multi"] * (nrandom // 3)
  for k, kind in enumerate(kinds):
    case = make_case(rng, kind)
    bad, info = compare_case(case)
    res.count()
    res.nontrivial(("oracle", kind, tuple(info["tree_dofnum"]), k))
    if k < 2:
      res.sample({"kind": "oracle " + kind, "nv": info["nv"], "tree_dofnum": info["tree_dofnum"], "cond_M": info.get("cond"), "xml": case["xml"][:300], "mismatches": bad})
    if bad:
      case["mismatches"] = [(w, n, e) for w, n, e in bad]
      fails.append(case)
  return fails



# ------------------------------------------------------------------------------------------------
# probes for the two recorded defects (minimal inputs; each reports under its own key)
# ------------------------------------------------------------------------------------------------
_E = 'fluidshape="ellipsoid" fluidcoef="0.5 0.25 1.5 1.0 1.0"'
PROBE_FLUID_XML = (
  '<mujoco><option density="10" viscosity="0.2" wind="1 -0.4 -0.5"/><worldbody><body pos="0 0 1"><freejoint/>'
  f'<geom type="ellipsoid" size="0.05 0.1 0.07" pos="0.1 0.05 -0.08" {_E}/>'
  f'<geom type="box" size="0.05 0.04 0.07" pos="-0.1 0.05 0.08" {_E}/></body></worldbody></mujoco>'
)
PROBE_DAMP_XML = '<mujoco><option gravity="0 0 0"/><worldbody><body><freejoint/><geom size="0.1"/></body></worldbody></mujoco>'


def _probe_case(kind, xml, ov, qvel):
  import mujoco

  m = build(xml, ov)
  d = mujoco.MjData(m)
  st = []
  for w in range(2):
    st.append({
      "qpos": d.qpos.tolist(), "qvel": [float(x) * (1 + w) for x in qvel],
      "qfrc_applied": [0.0] * m.nv, "xfrc_applied": np.zeros((m.nbody, 6)).tolist(),
    })  # fmt: skip
  return {"kind": kind, "xml": xml, "overrides": ov, "state": st, "vec": np.ones((2, m.nv)).tolist()}


def probe_fluid_moment(res):
  """_fluid_force, ellipsoid model: MuJoCo applies each geom's fluid force at the geom centre (mj_applyFT at
  geom_xpos); MJWarp sums the forces and applies them at the body CoM, dropping the moment (geom_xpos - xipos) x f."""
  case = _probe_case("probe_fluid_moment", PROBE_FLUID_XML, {}, [0.5, -1.2, 0.8, 1.1, -0.7, 0.4])
  bad, _ = compare_case(case)
  res.count()
  hit = [(w, n, e) for w, n, e in bad if n == "qfrc_fluid"]
  if hit:
    case["mismatches"] = bad
    res.violation(
      "C02:passive._fluid_force:ellipsoid-force-moment-dropped",
      f"body with two fluidshape=ellipsoid geoms away from its CoM: qfrc_fluid differs from MuJoCo C by {hit[0][2]:.3g} (rotational dofs): the moment of each geom's fluid force about the body CoM is dropped",
      case,
    )
  return bool(hit)


def probe_dof_damping(res):
  """_spring_damper_dof_passive reads dof_damping / dof_dampingpoly at the joint's FIRST dof and uses it for all
  dofs of a free/ball joint; MuJoCo C (and the per-dof array layout) treat damping per dof."""
  ov = {"dof_damping": [0.0, 0.0, 0.0, 0.7, 0.8, 0.9]}  # rotational damping only
  case = _probe_case("probe_dof_damping", PROBE_DAMP_XML, ov, [0.3, -0.2, 0.5, 1.0, -2.0, 1.5])
  bad, _ = compare_case(case)
  res.count()
  hit = [(w, n, e) for w, n, e in bad if n == "qfrc_damper"]
  if hit:
    case["mismatches"] = bad
    res.violation(
      "C02:passive._spring_damper_dof_passive:joint-damping-read-from-first-dof",
      f"free joint with dof_damping = (0,0,0,.7,.8,.9): qfrc_damper differs from MuJoCo C by {hit[0][2]:.3g}: damping of dofs 1.. of a free/ball joint is ignored, the first dof's value is used for all",
      case,
    )
  return bool(hit)


# ------------------------------------------------------------------------------------------------
def run(res):
  quick = res.tier == "quick"
  res.rule = (
    "correspondence: one case = one vm_compute evaluation of the model against the real kernel output "
    "(distinct = body forests up to identical parent arrays; _qfrc_smooth: sleep flag x some/none/all dofs asleep); "
    "T-validation: random float32 inputs per translated function; oracle: distinct = generated models (7 fixed M block "
    "layouts + random trees), each compared in two worlds with different states on ~20 fields"
  )
  import time

  tm = {}
  t0 = time.time()
  ok, trs, failing = propkit.prove(res, PROPS, gen_names=["math", "passive_util"], required_funcs=MATH_FUNCS + UTIL_FUNCS)
  tm["prove"] = round(time.time() - t0, 1)
  t0 = time.time()
  tbad = tvalidate(res, trs, 60 if quick else 600)
  tm["t_validation"] = round(time.time() - t0, 1)
  t0 = time.time()
  res.obligation("T-validation: translated spatial algebra and passive helpers agree with compiled Warp", not tbad, f"{len(tbad)} disagreements")
  cbad, qbad = [], []
  corr_ok = True
  try:
    cbad = corr_accumulate(res, 30 if quick else 300)
    qbad = corr_qfrc_smooth(res, 20 if quick else 200)
  except RuntimeError as e:  # the model no longer compiles against the case files
    corr_ok = False
    res.obligation("correspondence machinery", False, str(e)[-600:])
  res.obligation("correspondence: body_tree / tree_accumulate / subtree_sum / subtree_nodes vs put_model and the real accumulate kernels", corr_ok and not cbad, f"{len(cbad)} disagreements")
  res.obligation("correspondence: qfrc_smooth_kernel vs forward._qfrc_smooth", corr_ok and not qbad, f"{len(qbad)} disagreements")
  tm["correspondence"] = round(time.time() - t0, 1)
  t0 = time.time()
  fails = oracle(res, 15 if quick else 210)
  tm["oracle"] = round(time.time() - t0, 1)
  res.extra["stage_seconds"] = tm
  res.obligation("oracle: MJWarp smooth dynamics agree with MuJoCo C on all generated models", not fails, f"{len(fails)} models disagree")
  probe_fluid_moment(res)
  probe_dof_damping(res)
  for f in fails[:3]:
    w, name, err = f["mismatches"][0]
    res.violation(f"C02:oracle:{name}:{f['kind']}", f"{name} differs from MuJoCo C by {err:.3g} (world {w}, model kind {f['kind']}); all mismatches: {[(a, b) for a, b, _ in f['mismatches']][:8]}", f)
  # a correspondence disagreement IS a concrete input on which the real kernel departs from the model the
  # theorems are about
  for b in cbad[:2]:
    res.violation(f"C02:correspondence:{b['site']}", f"real kernel output differs from Model/Dyn.v at {b['site']}", b)
  for b in qbad[:1]:
    res.violation("C02:correspondence:_qfrc_smooth", "forward._qfrc_smooth differs from Model/Dyn.v qfrc_smooth_kernel", b)
  if tbad and not fails:
    res.violation("C02:translator-mismatch", "translated Gallina disagrees with compiled Warp function (model no longer tied to code)", tbad[:3], found_input=False)
  if (not ok or not corr_ok) and not (fails or cbad or qbad):
    propkit.broken_proof_violation(res, "C02 theorem over regenerated math.py / Model/Dyn.v", failing or "correspondence case files")
  res.assumptions += [
    "float32 rounding is not modelled: theorems are over R / an exact commutative semigroup; the oracle compares with rtol 2e-4 (qacc: 8*cond(M)*eps32)",
    "one world is modelled in the accumulation theorem; tasks of different worlds touch disjoint rows (C09/C10)",
    "atomic_add is indivisible (Warp/CUDA semantics); the plain read of in[bodyid] by a task cannot race because no task of the same launch writes a body of the launched level (consequence of the depth invariant proved in Proof/Dyn.v)",
    "wf_forest (body 0 is its own parent, parent id < body id) is what the MuJoCo compiler guarantees",
  ]


def replay(res, path):
  r = json.load(open(path))["replay"]
  if not isinstance(r, dict) or "xml" not in r:
    print("replay: no concrete model in this file (proof/correspondence breakage); re-run the check")
    return 1
  if "state" in r:
    bad, info = compare_case(r)
    print("model:", info)
    for w, name, err in bad:
      print(f"  world {w}: {name} differs by {err:.4g}")
    print("mismatches:", len(bad))
    return 1 if bad else 0
  print("correspondence case at", r.get("site"), "body_parentid", r.get("body_parentid"))
  print("init", r.get("init"))
  print("real kernel output", r.get("real_output"))
  return 1
