"""C08 Time integration agrees with MuJoCo C.

Proof (Props/C08.v): theorems over Model/Integrate.v (transcription of forward.py's _next_position,
_next_velocity, _next_activation, _advance, euler, rungekutta4 over an abstract forward()) and
vm_compute facts about the regenerated host skeleton (stage order).  Tie to /repo:
  T  quat_integrate regenerated from math.py (Gen/math.v); the model's _next_position / _next_velocity
     tasks and next_act are PROVED equal to the machine translations Gen/kforward.v, Gen/support_act.v
     (C08_next_position_is_kernel, C08_next_velocity_is_kernel, C08_next_act_is_translated);
  S  Gen/Skel_pipeline.v facts (C08_*_order, C08_rk4_forward_count);
  C  the model evaluated inside Coq at binary64 against the REAL kernels launched directly, and
     against the REAL host functions _advance / euler / rungekutta4 run with forward() replaced by
     a random affine map (the model's abstract fwd instantiated with the same map).
Oracle (a test, not a theorem): mjw.step vs mujoco.mj_step in lock step."""

from __future__ import annotations

import json

import numpy as np

import propkit
import vlib

MANIFEST = {
  "text": "proof: over a transcription of forward.py's integration kernels and host code with an ABSTRACT forward(): semi-implicit Euler update (_advance: new velocity feeds the position update, time, warmstart), euler()'s implicit polynomial-damping derivative (kernels proved equal to their machine translation; value d + 2 p0 |v| + 3 p1 v^2, even in v, slope of the damper force on both sides of 0), unit norm of every free/ball quaternion written by _next_position for every input, harmlessness of the in-place launch, rungekutta4 = classical RK4 with nodes (0,1/2,1/2,1) also for a time-dependent forward() (stage i evaluated at t0 + c_i h), stage-order facts on the regenerated host skeleton. NOT proved: forward() itself, the implicit linear solves / derivative content (C27, C06), float32 rounding - these are only tested by the lock-step oracle against mujoco.mj_step",
  "note": "trusted: Coq kernel; translate.py (quat_integrate, validated in C23); extract_launch.py; hand transcription Model/Integrate.v (validated every run against the real kernels and host functions); binary64 model vs float32 kernels compared with tolerance 1e-4",
  "technique": "Rocq proof over hand model + T-translated quat_integrate, S facts by vm_compute, correspondence by vm_compute at binary64 vs real kernels / host functions, differential oracle vs MuJoCo C",
  "engine": "coq",
}

PROPS = "Props/C08.v"
INTS = {"euler": 0, "rk4": 1, "implicit": 2, "implicitfast": 3}
KEY_SIGN = "C08:implicit:rne-derivative-sign"
KEY_FREE = "C08:implicitfast:childless-free-body-rne-derivative"
KEY_RKTIME = "C08:rk4:stage-time-not-advanced"
# keys of findings that are still open in /repo (KEY_SIGN and KEY_RKTIME were repaired; their directed
# witnesses stay as regression cases and count as NEW failing inputs if they fail again)
KEY_BALLWRAP = "C08:forward-actuation:ball-joint-servo-error-wrap"
KEY_RKACT = "C08:rk4:filterexact-stage-activation"
CLASSIFIED = (KEY_FREE, KEY_BALLWRAP)  # KEY_RKACT was repaired in /repo: its witness stays as a regression case

F = vlib.fhex
FL = vlib.flist


def Z(i):
  return f"({int(i)})%Z"


# ------------------------------------------------------------------------------------------------
# correspondence: kernels
# ------------------------------------------------------------------------------------------------
def _joint_layout(rng, overlap=False):
  """Random joint list. Returns (types, qposadr, dofadr, nq, nv)."""
  nj = int(rng.integers(1, 6))
  types = [int(rng.choice([0, 1, 2, 3], p=[0.25, 0.25, 0.25, 0.25])) for _ in range(nj)]
  width = {0: 7, 1: 4, 2: 1, 3: 1}
  dwidth = {0: 6, 1: 3, 2: 1, 3: 1}
  qadr, dadr = [], []
  q = v = 0
  for t in types:
    if rng.random() < 0.2:
      q += int(rng.integers(1, 3))  # slots no joint owns
    qadr.append(q)
    dadr.append(v)
    q += width[t]
    v += dwidth[t]
  nq, nv = q + int(rng.integers(0, 2)), v
  if overlap and nj >= 2:
    k = int(rng.integers(1, nj))
    qadr[k] = max(0, qadr[k] - int(rng.integers(1, 4)))  # joint k overlaps its predecessor
  perm = rng.permutation(nj) if rng.random() < 0.3 else np.arange(nj)
  types = [types[i] for i in perm]
  qadr = [qadr[i] for i in perm]
  dadr = [dadr[i] for i in perm]
  return types, qadr, dadr, nq, nv


def _rand_state(rng, n, scale=1.0):
  x = rng.standard_normal(n) * scale
  sel = rng.random(n)
  x = np.where(sel < 0.05, 0.0, x)
  return x.astype(np.float32)


def _coq_joints(types, qadr, dadr):
  return "[" + "; ".join(f"Build_joint {Z(t)} {Z(a)} {Z(d)}" for t, a, d in zip(types, qadr, dadr)) + "]"


def cases_next_position(rng, n):
  import warp as wp

  from mujoco_warp._src import forward as fw

  lines, meta = [], []
  for c in range(n):
    inplace = c % 2 == 0
    overlap = inplace and (c % 10 == 0)
    types, qadr, dadr, nq, nv = _joint_layout(rng, overlap)
    h = np.float32(10.0 ** rng.uniform(-3, -0.5))
    scale = np.float32([1.0, 0.5, rng.uniform(-1, 2)][c % 3])
    qpos = _rand_state(rng, nq, 10.0 ** rng.uniform(-1, 0.5))
    for t, a in zip(types, qadr):
      if t in (0, 1) and rng.random() < 0.1:
        o = a + (3 if t == 0 else 0)
        qpos[o : o + 4] = 0  # zero quaternion
    qvel = _rand_state(rng, nv, 10.0 ** rng.uniform(-1, 1.5))
    out0 = qpos.copy() if inplace else _rand_state(rng, nq)
    w_in = wp.array(qpos.reshape(1, -1), dtype=float)
    w_out = w_in if inplace else wp.array(out0.reshape(1, -1), dtype=float)
    wp.launch(
      fw._next_position,
      dim=(1, len(types)),
      inputs=[wp.array([h], dtype=float), wp.array(types, dtype=int), wp.array(qadr, dtype=int), wp.array(dadr, dtype=int), w_in, wp.array(qvel.reshape(1, -1), dtype=float), float(scale)],
      outputs=[w_out],
    )
    exp = w_out.numpy()[0].astype(np.float64)
    J = _coq_joints(types, qadr, dadr)
    if inplace:
      term = f"@next_position_inplace float Sc {F(h)} {F(scale)} {J} {FL(qpos)} {FL(qvel)}"
    else:
      term = f"@next_position float Sc {F(h)} {F(scale)} {J} {FL(qpos)} {FL(qvel)} {FL(out0)}"
    lines.append(f"tv3 0x1p-13 (fun Sc => {term}) {FL(exp)}")
    meta.append({"kernel": "_next_position", "inplace": inplace, "overlap": overlap, "types": types, "qposadr": qadr, "dofadr": dadr, "h": float(h), "scale": float(scale), "qpos": qpos.tolist(), "qvel": qvel.tolist(), "out0": out0.tolist(), "impl": exp.tolist()})
  return lines, meta


def cases_next_velocity(rng, n):
  import warp as wp

  from mujoco_warp._src import forward as fw

  lines, meta = [], []
  for c in range(n):
    nv = int(rng.integers(1, 8))
    h = np.float32(10.0 ** rng.uniform(-3, -0.5))
    scale = np.float32([1.0, 0.5, rng.uniform(-1, 2)][c % 3])
    qvel = _rand_state(rng, nv, 3.0)
    qacc = _rand_state(rng, nv, 10.0 ** rng.uniform(0, 3))
    w = wp.array(qvel.reshape(1, -1), dtype=float)
    wo = w if c % 2 == 0 else wp.zeros((1, nv), dtype=float)
    wp.launch(fw._next_velocity, dim=(1, nv), inputs=[wp.array([h], dtype=float), w, wp.array(qacc.reshape(1, -1), dtype=float), float(scale)], outputs=[wo])
    exp = wo.numpy()[0].astype(np.float64)
    lines.append(f"tv3 0x1p-13 (fun Sc => @next_velocity float Sc {F(h)} {FL(qvel)} {FL(qacc)} {F(scale)}) {FL(exp)}")
    meta.append({"kernel": "_next_velocity", "h": float(h), "scale": float(scale), "qvel": qvel.tolist(), "qacc": qacc.tolist(), "impl": exp.tolist()})
  return lines, meta


def _launch_next_activation(h, acts, act_in, act_dot, scale, limit, out_arr):
  """acts: list of dict(dyn, adr, num, prm0, lo, hi, limited). Launches the real kernel (nworld=1)."""
  import warp as wp

  from mujoco_warp._src import forward as fw
  from mujoco_warp._src.types import vec10

  nu = len(acts)
  na = len(act_in)
  dynprm = np.zeros((1, nu, 10), dtype=np.float32)
  for u, a in enumerate(acts):
    dynprm[0, u, 0] = a["prm0"]
  zeros10 = wp.array(np.zeros((1, nu, 10), dtype=np.float32), dtype=vec10)
  w_in = wp.array(np.asarray(act_in, dtype=np.float32).reshape(1, na), dtype=float)
  w_out = w_in if out_arr is None else wp.array(np.asarray(out_arr, dtype=np.float32).reshape(1, na), dtype=float)
  wp.launch(
    fw._next_activation,
    dim=(1, nu),
    inputs=[
      wp.array([h], dtype=float),
      wp.array([a["dyn"] for a in acts], dtype=int),
      wp.array([a["adr"] for a in acts], dtype=int),
      wp.array([a["num"] for a in acts], dtype=int),
      wp.array(dynprm, dtype=vec10),
      zeros10,
      zeros10,
      wp.array([bool(a["limited"]) for a in acts], dtype=bool),
      wp.array(np.array([[[a["lo"], a["hi"]] for a in acts]], dtype=np.float32).reshape(1, nu, 2), dtype=wp.vec2),
      w_in,
      wp.array(np.asarray(act_dot, dtype=np.float32).reshape(1, na), dtype=float),
      wp.zeros((1, nu), dtype=float),
      float(scale),
      bool(limit),
    ],
    outputs=[w_out],
  )
  return w_out.numpy()[0].astype(np.float64)


def _coq_acts(acts):
  return "[" + "; ".join(f"Build_actuator float {Z(a['dyn'])} {Z(a['adr'])} {Z(a['num'])} {F(a['prm0'])} {F(a['lo'])} {F(a['hi'])} {'true' if a['limited'] else 'false'}" for a in acts) + "]"


def cases_next_activation(rng, n):
  lines, meta = [], []
  for c in range(n):
    nu = int(rng.integers(1, 5))
    acts, adr = [], 0
    for u in range(nu):
      dyn = int(rng.choice([0, 1, 2, 3, 4, 7]))  # NONE INTEGRATOR FILTER FILTEREXACT MUSCLE USER (not DCMOTOR=5)
      num = 0 if dyn == 0 else (int(rng.integers(1, 4)) if dyn == 7 else 1)
      if rng.random() < 0.15:
        adr += 1  # an activation slot no actuator owns
      lo = np.float32(rng.uniform(-1, 0.2))
      prm0 = np.float32(0.0 if rng.random() < 0.1 else 10.0 ** rng.uniform(-3, 0))  # tau = 0 exercises max(MINVAL, .)
      acts.append({"dyn": dyn, "adr": adr, "num": num, "prm0": float(prm0), "lo": float(lo), "hi": float(np.float32(lo + rng.uniform(0.05, 1.5))), "limited": bool(rng.random() < 0.5)})
      adr += num
    na = adr + int(rng.integers(0, 2))
    if na == 0:
      na = 1
    perm = rng.permutation(nu) if rng.random() < 0.3 else np.arange(nu)
    acts = [acts[i] for i in perm]
    h = np.float32(10.0 ** rng.uniform(-3, -1))
    scale = np.float32([1.0, 0.5, rng.uniform(-1, 2)][c % 3])
    limit = bool(c % 2)
    inplace = c % 4 < 2
    act = _rand_state(rng, na, 0.7)
    act_dot = _rand_state(rng, na, 10.0 ** rng.uniform(-1, 2))
    out0 = None if inplace else _rand_state(rng, na)
    exp = _launch_next_activation(h, acts, act, act_dot, scale, limit, out0)
    A = _coq_acts(acts)
    lim = "true" if limit else "false"
    if inplace:
      term = f"@next_activation_inplace float Sc {F(h)} {A} {FL(act)} {FL(act_dot)} {F(scale)} {lim}"
    else:
      term = f"@next_activation float Sc {F(h)} {A} {FL(act)} {FL(act_dot)} {F(scale)} {lim} {FL(out0)}"
    lines.append(f"tv3 0x1p-13 (fun Sc => {term}) {FL(exp)}")
    meta.append({"kernel": "_next_activation", "acts": acts, "h": float(h), "scale": float(scale), "limit": limit, "inplace": inplace, "act": act.tolist(), "act_dot": act_dot.tolist(), "out0": None if out0 is None else out0.tolist(), "impl": exp.tolist()})
  return lines, meta


def cases_rk_accumulate_time(rng, n):
  import warp as wp

  from mujoco_warp._src import forward as fw

  lines, meta = [], []
  for c in range(n):
    nv = int(rng.integers(1, 7))
    scale = np.float32([1.0 / 6.0, 1.0 / 3.0, rng.uniform(-1, 1)][c % 3])
    v, a = _rand_state(rng, nv, 3.0), _rand_state(rng, nv, 30.0)
    rv, ra = _rand_state(rng, nv, 3.0), _rand_state(rng, nv, 30.0)
    wrv, wra = wp.array(rv.reshape(1, -1), dtype=float), wp.array(ra.reshape(1, -1), dtype=float)
    wp.launch(fw._rk_accumulate_velocity_acceleration, dim=(1, nv), inputs=[wp.array(v.reshape(1, -1), dtype=float), wp.array(a.reshape(1, -1), dtype=float), float(scale)], outputs=[wrv, wra])
    wrd = wp.array(rv.reshape(1, -1), dtype=float)
    wp.launch(fw._rk_accumulate_activation_velocity, dim=(1, nv), inputs=[wp.array(a.reshape(1, -1), dtype=float), float(scale)], outputs=[wrd])
    exp = np.concatenate([wrv.numpy()[0], wra.numpy()[0], wrd.numpy()[0]]).astype(np.float64)
    term = f"@accum float Sc {F(scale)} {FL(rv)} {FL(v)} ++ @accum float Sc {F(scale)} {FL(ra)} {FL(a)} ++ @accum float Sc {F(scale)} {FL(rv)} {FL(a)}"
    lines.append(f"tv3 0x1p-13 (fun Sc => {term}) {FL(exp)}")
    meta.append({"kernel": "_rk_accumulate_*", "scale": float(scale), "impl": exp.tolist()})
  # _rk_perturb_activation: act_t0 + scale * act_dot * timestep
  for c in range(max(6, n // 3)):
    na = int(rng.integers(1, 6))
    h = np.float32(10.0 ** rng.uniform(-3, -1))
    sc = np.float32([0.5, 1.0, rng.uniform(-1, 2)][c % 3])
    a0, ad = _rand_state(rng, na, 0.7), _rand_state(rng, na, 10.0 ** rng.uniform(-1, 2))
    wo = wp.array(_rand_state(rng, na).reshape(1, na), dtype=float)
    wp.launch(fw._rk_perturb_activation, dim=(1, na), inputs=[wp.array([h], dtype=float), wp.array(a0.reshape(1, na), dtype=float), wp.array(ad.reshape(1, na), dtype=float), float(sc)], outputs=[wo])
    exp = wo.numpy()[0].astype(np.float64)
    lines.append(f"tv3 0x1p-13 (fun Sc => @rk_perturb_activation float Sc {F(h)} {FL(a0)} {FL(ad)} {F(sc)}) {FL(exp)}")
    meta.append({"kernel": "_rk_perturb_activation", "h": float(h), "scale": float(sc), "act_t0": a0.tolist(), "act_dot": ad.tolist(), "impl": exp.tolist()})
  # _rk_stage_time: time_t0 + scale * timestep
  for c in range(max(4, n // 4)):
    h = np.float32(10.0 ** rng.uniform(-3, -1))
    t = np.float32(rng.uniform(0, 50))
    sc = np.float32([0.5, 1.0, rng.uniform(-1, 2)][c % 3])
    wt = wp.zeros(1, dtype=float)
    wp.launch(fw._rk_stage_time, dim=1, inputs=[wp.array([h], dtype=float), wp.array([t], dtype=float), float(sc)], outputs=[wt])
    exp = wt.numpy().astype(np.float64)
    lines.append(f"tv3 0x1p-18 (fun Sc => [@rk_stage_time float Sc (@Build_model float {F(h)} [] []) {F(t)} {F(sc)}]) {FL(exp)}")
    meta.append({"kernel": "_rk_stage_time", "t": float(t), "h": float(h), "scale": float(sc), "impl": exp.tolist()})
  # _next_time: time + timestep (overflow flags are C16's)
  kern = fw._next_time_builder(False)
  for c in range(max(4, n // 4)):
    h = np.float32(10.0 ** rng.uniform(-3, -1))
    t = np.float32(rng.uniform(0, 50))
    wt = wp.array([t], dtype=float)
    wp.launch(
      kern,
      dim=1,
      inputs=[wp.array([h], dtype=float), False, wp.zeros(1, dtype=int), wt, wp.zeros((1, 1), dtype=int), wp.zeros((1, 1), dtype=int), 1, 4, 4, 4, wp.zeros(1, dtype=int), wp.zeros(1, dtype=int)],
      outputs=[wt, wp.zeros(1, dtype=int)],
    )
    exp = wt.numpy().astype(np.float64)
    lines.append(f"tv3 0x1p-18 (fun Sc => [@sadd float Sc {F(t)} {F(h)}]) {FL(exp)}")
    meta.append({"kernel": "_next_time", "t": float(t), "h": float(h), "impl": exp.tolist()})
  return lines, meta


def cases_euler_damping(rng, n):
  """forward._compute_damping_deriv and forward._euler_damp_qfrc (euler()'s implicit damping matrix)."""
  import warp as wp

  from mujoco_warp._src import forward as fw

  lines, meta = [], []
  for c in range(n):
    nv = int(rng.integers(1, 7))
    damp = np.where(rng.random(nv) < 0.4, 0.0, rng.uniform(0.0, 2.0, nv)).astype(np.float32)  # linear part zero and non-zero
    poly = (rng.uniform(-0.2, 2.0, (nv, 2)) * (rng.random((nv, 2)) < 0.8)).astype(np.float32)
    v = (rng.standard_normal(nv) * 10.0 ** rng.uniform(-1, 2)).astype(np.float32)  # both signs, large |v|
    if c % 5 == 0:
      v = -np.abs(v)
    out = wp.zeros((1, nv), dtype=float)
    wp.launch(fw._compute_damping_deriv, dim=(1, nv), inputs=[wp.array(damp.reshape(1, nv), dtype=float), wp.array(poly.reshape(1, nv, 2), dtype=wp.vec2), wp.array(v.reshape(1, nv), dtype=float)], outputs=[out])
    deriv = out.numpy()[0]
    P = "[" + "; ".join(f"({F(a)}, {F(b)})" for a, b in poly) + "]"
    lines.append(f"tv3 0x1p-13 (fun Sc => @compute_damping_deriv float Sc {FL(damp)} {P} {FL(v)}) {FL(deriv.astype(np.float64))}")
    meta.append({"kernel": "_compute_damping_deriv", "damping": damp.tolist(), "dampingpoly": poly.tolist(), "qvel": v.tolist(), "impl": deriv.tolist()})
    # CSR lower-triangular rows with random lengths; the kernel touches the last entry of each row
    nnz = rng.integers(1, 4, nv)
    adr = np.concatenate([[0], np.cumsum(nnz)[:-1]])
    M0 = _rand_state(rng, int(nnz.sum()), 2.0)
    h = np.float32(10.0 ** rng.uniform(-3, -1))
    wM = wp.array(M0.reshape(1, -1), dtype=float)
    wp.launch(fw._euler_damp_qfrc, dim=(1, nv), inputs=[wp.array([h], dtype=float), wp.array(nnz, dtype=int), wp.array(adr, dtype=int), wp.array(deriv.reshape(1, nv), dtype=float)], outputs=[wM])
    exp = wM.numpy()[0].astype(np.float64)
    lines.append(f"tv3 0x1p-13 (fun Sc => @euler_damp_qfrc float Sc {F(h)} {vlib.zlist(nnz)} {vlib.zlist(adr)} {FL(deriv)} {FL(M0)}) {FL(exp)}")
    meta.append({"kernel": "_euler_damp_qfrc", "h": float(h), "rownnz": nnz.tolist(), "rowadr": adr.tolist(), "deriv": deriv.tolist(), "M": M0.tolist(), "impl": exp.tolist()})
  return lines, meta


# ------------------------------------------------------------------------------------------------
# correspondence: host functions with forward() replaced by an affine map
# ------------------------------------------------------------------------------------------------
HOST_DEFS = """
Definition dotF (a b : list float) : float := fold_left (fun acc p => (acc + fst p * snd p)%float) (combine a b) 0%float.
Definition affF (W : list (list float)) (b c : list float) (x : list float) (t : float) : list float :=
  map (fun p => (dotF (fst (fst p)) x + snd (fst p) + t * snd p)%float) (combine (combine W b) c).
Definition mkfwd (W1 : list (list float)) (b1 c1 : list float) (W2 : list (list float)) (b2 c2 : list float)
  : list float -> list float -> list float -> float -> list float * list float :=
  fun q v a t => (affF W1 b1 c1 (q ++ v ++ a) t, affF W2 b2 c2 (q ++ v ++ a) t).
"""


def _host_model(rng, k):
  import mujoco

  import models

  o = models.Opts(nbody=(1, 4), actuators=int(rng.integers(1, 4)), act_kinds=("general", "general", "motor"), contacts=False, gravity=True)
  xml, _ = models.random_model(rng, o)
  m = mujoco.MjModel.from_xml_string(xml)
  m.opt.disableflags |= mujoco.mjtDisableBit.mjDSBL_EULERDAMP
  m.opt.timestep = float(np.float32(10.0 ** rng.uniform(-3, -1.5)))
  for u in range(m.nu):
    if m.actuator_dyntype[u] != 0 and rng.random() < 0.5:
      m.actuator_actlimited[u] = 1
      lo = rng.uniform(-0.6, 0.0)
      m.actuator_actrange[u] = [lo, lo + rng.uniform(0.1, 1.0)]
  return xml, m


def _coq_model_of(m):
  J = _coq_joints(m.jnt_type, m.jnt_qposadr, m.jnt_dofadr)
  acts = []
  for u in range(m.nu):
    acts.append({"dyn": int(m.actuator_dyntype[u]), "adr": int(m.actuator_actadr[u]), "num": int(m.actuator_actnum[u]), "prm0": float(np.float32(m.actuator_dynprm[u, 0])), "lo": float(np.float32(m.actuator_actrange[u, 0])), "hi": float(np.float32(m.actuator_actrange[u, 1])), "limited": bool(m.actuator_actlimited[u])})
  return f"(@Build_model float {F(np.float32(m.opt.timestep))} {J} {_coq_acts(acts)})"


def _mat(M):
  return "[" + "; ".join(FL(r) for r in M) + "]"


def cases_host(rng, n):
  """Real forward._advance / euler / rungekutta4 on real Model/Data with forward.forward replaced."""
  import mujoco
  import warp as wp

  import models
  import mujoco_warp as mjw
  from mujoco_warp._src import forward as fw

  lines, meta = [], []
  orig_forward = fw.forward
  try:
    for c in range(n):
      xml, m = _host_model(rng, c)
      d = mujoco.MjData(m)
      models.random_state(rng, m, d, vel_scale=float(10.0 ** rng.uniform(-0.5, 0.7)), unnormalized=bool(c % 3 == 0))
      d.time = float(np.float32(rng.uniform(0, 3)))
      nq, nv, na = m.nq, m.nv, m.na
      nx = nq + nv + na
      W1 = (rng.standard_normal((nv, nx)) * 2.0).astype(np.float32)
      b1 = (rng.standard_normal(nv) * 5.0).astype(np.float32)
      c1 = (rng.standard_normal(nv) * 3.0).astype(np.float32)
      W2 = (rng.standard_normal((na, nx)) * 2.0).astype(np.float32)
      b2 = (rng.standard_normal(na) * 3.0).astype(np.float32)
      c2 = (rng.standard_normal(na) * 3.0).astype(np.float32)
      mm = mjw.put_model(m)
      dd = mjw.put_data(m, d)

      def fake_forward(mm_, dd_):
        x = np.concatenate([dd_.qpos.numpy()[0], dd_.qvel.numpy()[0], dd_.act.numpy()[0]]).astype(np.float64)
        t = float(dd_.time.numpy()[0])
        dd_.qacc.assign((W1.astype(np.float64) @ x + b1 + t * c1).astype(np.float32).reshape(1, nv))
        if na:
          dd_.act_dot.assign((W2.astype(np.float64) @ x + b2 + t * c2).astype(np.float32).reshape(1, na))

      fw.forward = fake_forward
      q0, v0, a0, t0 = dd.qpos.numpy()[0].copy(), dd.qvel.numpy()[0].copy(), dd.act.numpy()[0].copy(), float(dd.time.numpy()[0])
      kind = ["euler", "rk4", "advance_qacc", "advance_qacc_qvel"][c % 4]
      fake_forward(mm, dd)
      qa, ad = dd.qacc.numpy()[0].copy(), dd.act_dot.numpy()[0].copy()
      M = _coq_model_of(m)
      fwd = f"(mkfwd {_mat(W1)} {FL(b1)} {FL(c1)} {_mat(W2)} {FL(b2)} {FL(c2)})"
      D0 = f"(@Build_data float {FL(q0)} {FL(v0)} {FL(a0)} {F(t0)} {FL(qa)} {FL(ad)} [])"
      if kind == "euler":
        fw.euler(mm, dd)
        term = f"@euler_step float Sc {M} {D0}"
      elif kind == "rk4":
        fw.rungekutta4(mm, dd)
        # the model starts before step()'s forward: do_forward recomputes k1 with the same map
        term = f"@step_rk4 float Sc {M} {fwd} (@Build_data float {FL(q0)} {FL(v0)} {FL(a0)} {F(t0)} [] [] [])"
      else:
        qarg = (rng.standard_normal(nv) * 20).astype(np.float32)
        varg = (rng.standard_normal(nv) * 2).astype(np.float32)
        if kind == "advance_qacc":
          fw._advance(mm, dd, wp.array(qarg.reshape(1, nv), dtype=float))
          term = f"@advance float Sc {M} {D0} {FL(qarg)} None"
        else:
          fw._advance(mm, dd, wp.array(qarg.reshape(1, nv), dtype=float), wp.array(varg.reshape(1, nv), dtype=float))
          term = f"@advance float Sc {M} {D0} {FL(qarg)} (Some {FL(varg)})"
      exp = np.concatenate([dd.qpos.numpy()[0], dd.qvel.numpy()[0], dd.act.numpy()[0], dd.time.numpy()[:1], dd.qacc_warmstart.numpy()[0]]).astype(np.float64)
      # rk4 composes 4 affine evaluations with |W| ~ 2: float32 error of k4 is amplified; 2e-3 relative
      tol = "0x1p-9" if kind == "rk4" else "0x1p-12"
      lines.append(f"tv3 {tol} (fun Sc => @data_flat float ({term})) {FL(exp)}")
      meta.append({"host": kind, "xml": xml, "nq": nq, "nv": nv, "na": na, "jnt_type": [int(x) for x in m.jnt_type], "dyntype": [int(x) for x in m.actuator_dyntype], "impl": exp.tolist()})
  finally:
    fw.forward = orig_forward
  return lines, meta


def correspondence(res, quick):
  import tvalid

  rng = np.random.default_rng(vlib.seed() + 8)
  n = 1 if quick else 8
  specs = [
    ("_next_position", cases_next_position, 120 * n),
    ("_next_velocity", cases_next_velocity, 40 * n),
    ("_next_activation", cases_next_activation, 120 * n),
    ("_rk_accumulate/_rk_perturb_activation/_rk_stage_time/_next_time", cases_rk_accumulate_time, 30 * n),
    ("_compute_damping_deriv/_euler_damp_qfrc", cases_euler_damping, 30 * n),
    ("host _advance/euler/rungekutta4 with affine forward", cases_host, 32 * n),
  ]
  groups = []
  for g, fn, cnt in specs:
    try:
      groups.append((g, fn(rng, cnt)))
    except Exception as e:  # kernel signature / host API changed: this group can no longer be launched
      res.obligation(f"correspondence Model/Integrate.v vs real {g}", False, f"cannot launch the real code with the modelled argument list: {type(e).__name__}: {str(e)[:300]}")
      res.extra.setdefault("correspondence_unlaunchable", []).append(g)
  lines = [l for _, (ls, _) in groups for l in ls]
  metas = [(g, mt) for g, (_, ms) in groups for mt in ms]
  verdicts = tvalid.run_cases("C08", ["Gen.math", "Model.Integrate"], lines, chunk=60, extra_defs=HOST_DEFS)
  per, bad = {}, []
  for (g, mt), v in zip(metas, verdicts):
    st = per.setdefault(g, [0, 0, 0])
    st[v] += 1
    if v == 0:
      res.nontrivial(("corr", g, st[0]))
    if v == 2 and len(bad) < 10:
      bad.append({"group": g, **mt})
  res.count(len(lines))
  res.extra["correspondence"] = {g: {"agree": s[0], "discarded": s[1], "disagree": s[2]} for g, s in per.items()}
  for g, s in per.items():
    res.obligation(f"correspondence Model/Integrate.v vs real {g}", s[2] == 0 and s[0] > 0, f"agree {s[0]}, discarded {s[1]}, disagree {s[2]}")
  if metas:
    mt = dict(metas[0][1])
    res.sample({"kind": "correspondence", **{k: mt[k] for k in list(mt)[:8]}})
  if res.extra.get("correspondence_unlaunchable"):
    res.extra["_bad"] = bad
    raise RuntimeError("groups not launchable: " + ", ".join(res.extra["correspondence_unlaunchable"]))
  return bad


# ------------------------------------------------------------------------------------------------
# oracle: mjw.step vs mujoco.mj_step
# ------------------------------------------------------------------------------------------------
def cmp_step(m, d, dd, prev, step, loose):
  """Compare after one more lock-step step. Bounds: float32 round-off of the state (2e-6 relative)
  plus 1e-3 of the INCREMENT (h + |dx|): the increment is h * (float32 qacc) and qacc carries the
  conditioning of M (~5e-4 relative observed bound); errors compound over the k steps so far.
  With contacts the constraint solver stops at its own tolerance on both sides: x20."""
  h = float(m.opt.timestep)
  k = step + 1
  out = []

  def chk(name, a, b, bound):
    a = np.asarray(a, dtype=np.float64).reshape(-1)
    b = np.asarray(b, dtype=np.float64).reshape(-1)
    if a.size == 0:
      return
    if not (np.all(np.isfinite(a)) and np.all(np.isfinite(b))):
      out.append((name, float("nan"), bound, []))
      return
    e = np.abs(a - b)
    if float(e.max()) > bound:
      out.append((name, float(e.max()), bound, [int(i) for i in np.nonzero(e > bound)[0]]))

  W = lambda f: getattr(dd, f).numpy()[0]  # noqa: E731
  rq = 5e-4 * loose
  amax = float(np.max(np.abs(d.qacc))) if m.nv else 0.0
  # RK4: the stored qacc is that of the LAST stage, whose state carries h * (float32 qacc of the earlier
  # stages) amplified by the stiffness of the system; its round-off scales with the largest acceleration
  # seen during the step (here: the one at t0), not with its own (possibly much smaller) magnitude
  amax = max(amax, float(prev.get("qacc0max", 0.0)))
  chk("qacc_warmstart", W("qacc_warmstart"), d.qacc_warmstart, k * rq * (1 + amax))
  if m.nv:
    dvm = float(np.max(np.abs(np.asarray(d.qvel) - prev["qvel"])))
    chk("qvel", W("qvel"), d.qvel, k * (2 * rq * (h + dvm) + 2e-6 * (1 + float(np.max(np.abs(d.qvel))))))
  if m.nq:
    dqm = float(np.max(np.abs(np.asarray(d.qpos) - prev["qpos"])))
    chk("qpos", W("qpos"), d.qpos, k * (2 * rq * (h * h + dqm) + 2e-6 * (1 + float(np.max(np.abs(d.qpos))))))
  if m.na:
    dam = float(np.max(np.abs(np.asarray(d.act) - prev["act"])))
    chk("act", W("act"), d.act, k * (2 * rq * (h + dam) + 2e-6 * (1 + float(np.max(np.abs(d.act))))))
  chk("time", dd.time.numpy()[0], d.time, 2e-6 * (1 + abs(d.time)))
  return out


def lockstep(m, d0, nsteps, ctrl_seq=None):
  """Returns (status, step, failures). status: 'ok' | 'fail' | 'discard'."""
  import mujoco

  import mujoco_warp as mjw

  d = mujoco.MjData(m)
  d.qpos[:], d.qvel[:] = d0["qpos"], d0["qvel"]
  if m.na:
    d.act[:] = d0["act"]
  if m.nu:
    d.ctrl[:] = d0["ctrl"]
  d.time = d0.get("time", 0.0)
  if d0.get("history") is not None and m.nhistory:
    d.history[:] = d0["history"]
  mm = mjw.put_model(m)
  contacts = bool(np.any(m.geom_contype != 0))
  # generous capacities: a run that still reports a capacity overflow is discarded (the property is
  # about accepted states without overflow; what happens at capacity is C16's subject)
  dd = mjw.put_data(m, d, nconmax=256, njmax=1024) if contacts else mjw.put_data(m, d)
  for s in range(nsteps):
    if ctrl_seq is not None:
      d.ctrl[:] = ctrl_seq[s]
      dd.ctrl.assign(np.asarray(ctrl_seq[s], dtype=np.float32).reshape(1, -1))
    prev = {"qpos": d.qpos.copy(), "qvel": d.qvel.copy(), "act": d.act.copy()}
    if m.opt.integrator == mujoco.mjtIntegrator.mjINT_RK4 and m.nv:
      mujoco.mj_forward(m, d)  # acceleration at t0 (mj_step recomputes it from the same warmstart)
      prev["qacc0max"] = float(np.max(np.abs(d.qacc)))
    mujoco.mj_step(m, d)
    mjw.step(mm, dd)
    if d.warning[mujoco.mjtWarning.mjWARN_BADQACC].number or d.warning[mujoco.mjtWarning.mjWARN_BADQPOS].number or d.warning[mujoco.mjtWarning.mjWARN_BADQVEL].number:
      return "discard", s, "unstable (MuJoCo warning)"
    ref = np.concatenate([np.asarray(d.qpos), np.asarray(d.qvel), np.asarray(d.qacc), np.asarray(d.act)])
    if not np.all(np.isfinite(ref)) or (ref.size and float(np.max(np.abs(ref))) > 1e6):
      return "discard", s, "MuJoCo reference itself non-finite or astronomically large (diverging simulation)"
    if m.nv and float(np.max(np.abs(d.qacc))) > 1e4:
      return "discard", s, "qacc > 1e4 (stiff / ill-conditioned: float32 comparison meaningless)"
    if int(np.max(dd.overflow.numpy())) != 0:
      return "discard", s, "MJWarp reports a capacity overflow (C16)"
    if d.nefc and (int(d.solver_niter[0]) >= int(m.opt.iterations) or int(dd.solver_niter.numpy()[0]) >= int(m.opt.iterations)):
      return "discard", s, "a constraint solver stopped at the iteration cap (not converged: qacc not comparable)"
    if contacts:
      if int(dd.nacon.numpy()[0]) != int(d.ncon):
        return "discard", s, "contact set differs (state near a contact discontinuity)"
      if d.ncon and float(np.min(np.abs(d.contact.dist))) < 1e-4:
        return "discard", s, "contact distance within 1e-4 of activation"
      if d.ncon:
        # the integrators can only be compared on the same constraint problem: contact geometry that
        # differs (convex-collision tolerance, multi-contact choice, tangent axes of the contact frame - they shape
        # the pyramidal cone -) is the collision properties' subject (e.g. C20's plane-capsule frame finding)
        n = int(d.ncon)
        cw = sorted((tuple(int(x) for x in g), float(di), tuple(float(x) for x in np.asarray(fr).reshape(-1))) for g, di, fr in zip(dd.contact.geom.numpy()[:n], dd.contact.dist.numpy()[:n], dd.contact.frame.numpy()[:n]))
        cc = sorted((tuple(int(x) for x in g), float(di), tuple(float(x) for x in fr)) for g, di, fr in zip(d.contact.geom, d.contact.dist, d.contact.frame))
        for a, b_ in zip(cw, cc):
          if a[0] != b_[0] or abs(a[1] - b_[1]) > 1e-3 * (1 + abs(b_[1])) or float(np.max(np.abs(np.array(a[2]) - np.array(b_[2])))) > 2e-3:
            return "discard", s, "contact geometry differs between MJWarp and MuJoCo (collision-level disagreement, not an integrator matter)"
    b = cmp_step(m, d, dd, prev, s, 20.0 if (contacts and d.ncon) else 1.0)
    if b:
      return "fail", s, b
  return "ok", nsteps, []


def childless_free_dofs(m):
  import mujoco

  out = set()
  for j in range(m.njnt):
    if m.jnt_type[j] == mujoco.mjtJoint.mjJNT_FREE:
      b = m.jnt_bodyid[j]
      if not np.any(m.body_parentid[1:] == b):
        a = m.jnt_dofadr[j]
        out |= set(range(a, a + 6))
  return out


def ball_servo_wrap_active(m, d0, nsteps):
  """MuJoCo-only diagnosis: does some affine-bias actuator on a BALL joint produce, at one of the
  visited states, a force different from gain*ctrl + b0 + b1*length + b2*velocity (MuJoCo 3.13 wraps
  the servo error of ball-joint transmissions by 2*pi*|gear|)?"""
  import mujoco

  us = [u for u in range(m.nu) if m.actuator_trntype[u] == mujoco.mjtTrn.mjTRN_JOINT and m.jnt_type[m.actuator_trnid[u, 0]] == mujoco.mjtJoint.mjJNT_BALL
        and m.actuator_dyntype[u] == 0 and m.actuator_gaintype[u] == 0 and m.actuator_biastype[u] == 1 and m.actuator_biasprm[u, 1] != 0 and not m.actuator_forcelimited[u]]  # fmt: skip
  if not us:
    return False
  d = mujoco.MjData(m)
  d.qpos[:], d.qvel[:] = d0["qpos"], d0["qvel"]
  if m.na:
    d.act[:] = d0["act"]
  d.ctrl[:] = d0["ctrl"]
  for _ in range(nsteps):
    mujoco.mj_forward(m, d)
    for u in us:
      c = float(d.ctrl[u])
      if m.actuator_ctrllimited[u]:
        c = min(max(c, m.actuator_ctrlrange[u, 0]), m.actuator_ctrlrange[u, 1])
      plain = m.actuator_gainprm[u, 0] * c + m.actuator_biasprm[u, 0] + m.actuator_biasprm[u, 1] * d.actuator_length[u] + m.actuator_biasprm[u, 2] * d.actuator_velocity[u]
      if abs(plain - d.actuator_force[u]) > 1e-6 * (1 + abs(plain)):
        return True
    mujoco.mj_step(m, d)
  return False


def classify(m, name, d0, nsteps, fails, ctrl_seq=None):
  """Key of a lock-step disagreement."""
  from mujoco_warp._src import derivative

  if ctrl_seq is None and ball_servo_wrap_active(m, d0, nsteps):
    return KEY_BALLWRAP

  fields = [f[0] for f in fails]
  if name == "implicit":
    orig = derivative.deriv_rne_vel
    try:
      derivative.deriv_rne_vel = lambda mm, dd, out, flg_subtract=False: orig(mm, dd, out, flg_subtract=not flg_subtract)
      st, _, _ = lockstep(m, d0, nsteps, ctrl_seq)
    finally:
      derivative.deriv_rne_vel = orig
    if st == "ok":
      return KEY_SIGN  # diagnosis only: the disagreement vanishes when the flag is flipped
  if name == "rk4" and m.na and np.any(np.isin(m.actuator_dyntype, (3, 5, 7))):
    # diagnosis only: does the disagreement vanish when the RK sub-stages perturb the activations by plain
    # Euler (act_t0 + a h act_dot, what mj_RungeKutta does) instead of next_act's exact filter?
    from mujoco_warp._src import forward as fw

    orig_p = fw._rk_perturb_state

    def plain(mm, dd, scale, qpos_t0, qvel_t0, act_t0=None):
      ad = dd.act_dot.numpy().copy()
      orig_p(mm, dd, scale, qpos_t0, qvel_t0, None)
      if act_t0 is not None:
        hh = mm.opt.timestep.numpy()[0]
        dd.act.assign((act_t0.numpy() + np.float32(scale) * ad * hh).astype(np.float32))

    try:
      fw._rk_perturb_state = plain
      st, _, _ = lockstep(m, d0, nsteps, ctrl_seq)
    finally:
      fw._rk_perturb_state = orig_p
    if st == "ok":
      return KEY_RKACT
  if name == "implicitfast":
    cf = childless_free_dofs(m)
    qv = [f for f in fails if f[0] == "qvel"]
    if cf and qv and set(qv[0][3]) <= cf:
      return KEY_FREE
  return f"C08:oracle:{name}:{fields[0]}"


DIRECTED = [
  # (key, integrator, xml, qvel0, note)
  (
    KEY_SIGN,
    "implicit",
    '<mujoco><option gravity="0 0 0"/><worldbody><body pos="0 0 1"><joint type="hinge" axis="0 1 0"/><geom type="box" size=".04 .05 .07" pos=".07 -.09 .04"/><body pos=".2 0 0"><joint type="hinge" axis="1 0 0"/><geom type="box" size=".04 .05 .07" pos=".07 -.09 .04"/></body></body></worldbody></mujoco>',
    [4.0, 6.0],
  ),
  (
    KEY_FREE,
    "implicitfast",
    '<mujoco><option gravity="0 0 0"/><worldbody><body pos="0 0 1"><freejoint/><geom type="box" size=".04 .05 .07" pos=".07 -.09 .04"/></body></worldbody></mujoco>',
    [1.0, 2.0, 3.0, 4.0, 6.0, -10.0],
  ),
]

RK_DELAY_XML = (
  '<mujoco><option integrator="RK4" gravity="0 0 0"/><worldbody><body><joint name="slide" type="slide" axis="1 0 0"/>'
  '<geom type="sphere" size=".1"/></body></worldbody>'
  '<actuator><motor joint="slide" delay="0.003" nsample="4" interp="linear"/></actuator></mujoco>'
)


def directed(res):
  """Sharp witnesses of the recorded findings, run every time (so that a fix is noticed: the key
  simply stops being reported).  Returns list of (key, what, data)."""
  import mujoco

  out = []
  for key, name, xml, qvel0 in DIRECTED:
    m = mujoco.MjModel.from_xml_string(xml)
    m.opt.integrator = INTS[name]
    d0 = {"qpos": m.qpos0.copy(), "qvel": np.array(qvel0), "act": np.zeros(m.na), "ctrl": np.zeros(m.nu)}
    st, s, b = lockstep(m, d0, 1)
    res.count()
    if st == "fail":
      k = classify(m, name, d0, 1, b)
      out.append((k, f"{name}: mjw.step disagrees with mujoco.mj_step after 1 step in {b[0][0]} by {b[0][1]:.3g} (bound {b[0][2]:.3g})", {"xml": xml, "integrator": name, "qpos0": d0["qpos"].tolist(), "qvel0": list(qvel0), "steps": 1, "fails": [list(x[:3]) for x in b]}))
    else:
      res.nontrivial(("directed-agrees", key))
  # position servo on a ball joint with |ctrl - length| > pi*|gear| (forward-level parity gap, C03's subject)
  xml = '<mujoco><option gravity="0 0 0"/><worldbody><body pos="0 0 1"><joint name="j0" type="ball"/><geom type="sphere" size=".1"/></body></worldbody><actuator><position joint="j0" gear="-1.77 -0.93 0.51 0 0 0" kp="5.6" kv="1.76"/></actuator></mujoco>'
  m = mujoco.MjModel.from_xml_string(xml)
  q = np.array([0.0186, -0.3146, -0.0960, 0.1204])
  d0 = {"qpos": q / np.linalg.norm(q), "qvel": np.zeros(3), "act": np.zeros(0), "ctrl": np.array([-0.5])}
  st, s, b = lockstep(m, d0, 1)
  res.count()
  if st == "fail":
    out.append((classify(m, "euler", d0, 1, b), f"euler: position servo on a ball joint, ctrl=-0.5, length=6.13: {b[0][0]} differs from mujoco.mj_step by {b[0][1]:.3g} (bound {b[0][2]:.3g})", {"xml": xml, "integrator": "euler", "qpos0": d0["qpos"].tolist(), "qvel0": [0.0, 0.0, 0.0], "ctrl0": [-0.5], "steps": 1, "fails": [list(x[:3]) for x in b]}))
  else:
    res.nontrivial(("directed-agrees", KEY_BALLWRAP))
  # saturated act-limited stateful actuators: the RK4 sub-stages must NOT clamp (plain Euler in
  # _rk_perturb_state / _rk_perturb_activation, as mj_RungeKutta), the final _advance must; also actearly
  ACTS = {
    "intvelocity": ('<intvelocity joint="j" kp="50" actrange="-0.5 0.5"/>', 0.5, 3.0),
    "integrator": ('<general joint="j" dyntype="integrator" gainprm="20" actlimited="true" actrange="-0.3 0.4"/>', 0.4, 5.0),
    "filter": ('<general joint="j" dyntype="filter" dynprm="0.05" gainprm="10" actlimited="true" actrange="-0.2 0.2"/>', 0.2, 2.0),
    "filterexact-actearly": ('<general joint="j" dyntype="filterexact" dynprm="0.05" gainprm="10" actlimited="true" actrange="-0.2 0.2" actearly="true"/>', 0.2, 2.0),
    "integrator-actearly": ('<general joint="j" dyntype="integrator" gainprm="20" actlimited="true" actrange="-0.3 0.4" actearly="true"/>', 0.4, 5.0),
  }
  for integ in ("rk4", "euler", "implicitfast"):
    for nm, (axml, bound, push) in ACTS.items():
      for variant, nst in (("at-bound", 1), ("inside-by-h-actdot", 3), ("lower-bound", 2)):
        xml = f'<mujoco><option timestep="0.01" gravity="0 0 -9.81"/><worldbody><body><joint name="j" type="hinge" axis="0 1 0" damping="0.1"/><geom type="capsule" size=".05 .3" pos="0 0 -.3"/></body></worldbody><actuator>{axml}</actuator></mujoco>'
        m = mujoco.MjModel.from_xml_string(xml)
        m.opt.integrator = INTS[integ]
        lo, hi = m.actuator_actrange[0]
        if variant == "at-bound":
          a0, c0 = hi, push
        elif variant == "inside-by-h-actdot":
          a0, c0 = hi - 0.5 * 0.01 * push, push
        else:
          a0, c0 = lo, -push
        d0 = {"qpos": np.array([0.3]), "qvel": np.array([0.5]), "act": np.array([np.float32(a0)]), "ctrl": np.array([c0])}
        st, s, b = lockstep(m, d0, nst)
        res.count()
        if st == "fail":
          out.append((f"C08:directed:{integ}-actlimited-saturated:{b[0][0]}", f"{integ}, {nm} actuator saturated ({variant}): {b[0][0]} differs from mujoco.mj_step by {b[0][1]:.3g} (bound {b[0][2]:.3g}) at step {s}", {"xml": xml, "integrator": integ, "qpos0": [0.3], "qvel0": [0.5], "act0": [float(np.float32(a0))], "ctrl0": [c0], "steps": nst, "fails": [list(x[:3]) for x in b]}))
        elif st == "ok":
          res.nontrivial(("directed-actlimited", integ, nm, variant))
  # RK4 with an exact-filter actuator: sub-stage activations (finding C08:rk4:filterexact-stage-activation)
  xml = '<mujoco><option integrator="RK4" timestep="0.01" gravity="0 0 0"/><worldbody><body><joint name="j" type="hinge" damping="1"/><geom type="sphere" size=".1"/></body></worldbody><actuator><general joint="j" dyntype="filterexact" dynprm="0.03" gainprm="1"/></actuator></mujoco>'
  m = mujoco.MjModel.from_xml_string(xml)
  d0 = {"qpos": np.zeros(1), "qvel": np.zeros(1), "act": np.array([0.2]), "ctrl": np.array([1.0])}
  st, s, b = lockstep(m, d0, 1)
  res.count()
  if st == "fail":
    out.append((classify(m, "rk4", d0, 1, b), f"rk4 with dyntype=filterexact (tau=0.03, h=0.01): {b[0][0]} differs from mujoco.mj_step by {b[0][1]:.3g} (bound {b[0][2]:.3g})", {"xml": xml, "integrator": "rk4", "qpos0": [0.0], "qvel0": [0.0], "act0": [0.2], "ctrl0": [1.0], "steps": 1, "fails": [list(x[:3]) for x in b]}))
  else:
    res.nontrivial(("directed-agrees", KEY_RKACT))
  # polynomial joint damping: euler()'s implicit-damping matrix M + h diag(d/dv damper force) uses |v|;
  # both signs of velocity, large |v|, linear part zero and non-zero, all integrators, eulerdamp on
  for integ in ("euler", "implicitfast", "implicit", "rk4"):
    for dmp in ("0 0.8 0.3", "0.5 1.2 0", "0.2 0 0.4"):
      for v0 in ((-3.0, -2.0), (3.0, 2.0), (-25.0, 15.0)):
        xml = f'<mujoco><option timestep="0.004" gravity="0 0 -9.81"/><worldbody><body pos="0 0 1"><joint type="hinge" axis="0 1 0" damping="{dmp}"/><geom type="capsule" fromto="0 0 0 .3 0 0" size=".03" mass=".4"/><body pos=".3 0 0"><joint type="slide" axis="1 0 0" damping="{dmp}" stiffness="20"/><geom type="sphere" size=".05" mass=".2"/></body></body></worldbody></mujoco>'
        m = mujoco.MjModel.from_xml_string(xml)
        m.opt.integrator = INTS[integ]
        d0 = {"qpos": np.array([0.2, 0.05]), "qvel": np.array(v0), "act": np.zeros(0), "ctrl": np.zeros(0)}
        st, s, b = lockstep(m, d0, 2)
        res.count()
        if st == "fail":
          sign = "negative-velocity" if v0[0] < 0 and v0[1] < 0 else ("positive-velocity" if v0[0] > 0 and v0[1] > 0 else "mixed-large-velocity")
          out.append((f"C08:directed:{integ}-polynomial-damping:{sign}", f"{integ}, joint damping=\"{dmp}\", qvel0={v0}: {b[0][0]} differs from mujoco.mj_step by {b[0][1]:.3g} (bound {b[0][2]:.3g}) at step {s}", {"xml": xml, "integrator": integ, "qpos0": [0.2, 0.05], "qvel0": list(v0), "steps": 2, "fails": [list(x[:3]) for x in b]}))
        elif st == "ok":
          res.nontrivial(("directed-polydamp", integ, dmp, v0))
  # fluid medium x disable flags: the guard of implicit() (when is the implicit-in-velocity solve skipped?)
  # must follow MuJoCo for every combination of ACTUATION / SPRING / DAMPER (fluid forces are dropped only
  # when SPRING and DAMPER are both disabled)
  FLUID_XML = (
    '<mujoco><option density="1000" viscosity="0.8" gravity="0 0 -9.81" timestep="0.005"/><worldbody>'
    '<body pos="0 0 1"><joint name="j0" type="hinge" axis="0 1 0" stiffness="2" damping="0.3"/><geom type="box" size=".05 .2 .02" pos=".2 0 0"/>'
    '<body pos=".4 0 0"><joint name="j1" type="hinge" axis="1 0 0" damping="0.2"/><geom type="ellipsoid" size=".05 .1 .03" pos="0 .1 0" fluidshape="ellipsoid"/></body></body>'
    '</worldbody><actuator><velocity joint="j0" kv="2"/></actuator></mujoco>'
  )
  DB = mujoco.mjtDisableBit
  for integ in ("implicitfast", "implicit", "euler"):
    for mask in range(8):
      flags = (DB.mjDSBL_ACTUATION if mask & 1 else 0) | (DB.mjDSBL_SPRING if mask & 2 else 0) | (DB.mjDSBL_DAMPER if mask & 4 else 0)
      # integrator=implicit with fluidshape=ellipsoid is C27's open finding (ellipsoid fluid derivative mirrored
      # from the lower triangle): the fully implicit cases use the inertia-box fluid model only
      fxml = FLUID_XML.replace(' fluidshape="ellipsoid"', "") if integ == "implicit" else FLUID_XML
      m = mujoco.MjModel.from_xml_string(fxml)
      m.opt.integrator = INTS[integ]
      m.opt.disableflags |= int(flags)
      d0 = {"qpos": np.array([0.3, -0.4]), "qvel": np.array([6.0, -8.0]), "act": np.zeros(0), "ctrl": np.array([0.5])}
      st, s, b = lockstep(m, d0, 2)
      res.count()
      if st == "fail":
        names = "+".join(n for n, bit in (("actuation", 1), ("spring", 2), ("damper", 4)) if mask & bit) or "none"
        out.append((f"C08:directed:{integ}-fluid-disableflags:{names}", f"{integ} in a fluid medium with disabled [{names}]: {b[0][0]} differs from mujoco.mj_step by {b[0][1]:.3g} (bound {b[0][2]:.3g}) at step {s}", {"xml": fxml, "integrator": integ, "disableflags": int(flags), "qpos0": [0.3, -0.4], "qvel0": [6.0, -8.0], "ctrl0": [0.5], "steps": 2, "fails": [list(x[:3]) for x in b]}))
      elif st == "ok":
        res.nontrivial(("directed-fluid", integ, mask))
  # RK4 with a delayed control (time-dependent forward): regression case of the repaired finding
  # C08:rk4:stage-time-not-advanced; model-level counterpart: C08_rk4_time_dependent_example
  m = mujoco.MjModel.from_xml_string(RK_DELAY_XML)
  ctrls = [[float(np.sin(1.0 + i * 1.3))] for i in range(10)]
  for integ, expect in ((INTS["euler"], "control"), (INTS["rk4"], "test")):
    m.opt.integrator = integ
    d = mujoco.MjData(m)
    for i in range(6):  # fill the history buffer on the C side, then copy the state over
      d.ctrl[:] = ctrls[i]
      mujoco.mj_step(m, d)
    d0 = {"qpos": d.qpos.copy(), "qvel": d.qvel.copy(), "act": np.zeros(0), "ctrl": d.ctrl.copy(), "time": d.time, "history": d.history.copy()}
    st, s, b = lockstep(m, d0, 3, ctrl_seq=ctrls[6:9])
    res.count()
    if expect == "control":
      if st != "ok":
        out.append(("C08:oracle:euler:delayed-ctrl", f"Euler with a delayed control disagrees ({b})", {"xml": RK_DELAY_XML, "integrator": "euler", "fails": str(b)}))
    elif st == "fail":
      out.append((KEY_RKTIME, f"rk4 with a delayed control: {b[0][0]} differs from mujoco.mj_step by {b[0][1]:.3g} (bound {b[0][2]:.3g}) at step {s}; Euler on the same model agrees", {"xml": RK_DELAY_XML, "integrator": "rk4", "prefill_ctrl": ctrls[:6], "ctrl_seq": ctrls[6:9], "steps": 3, "fails": [list(x[:3]) for x in b]}))
    else:
      res.nontrivial(("directed-agrees", KEY_RKTIME))
  return out


def oracle(res, nper):
  import mujoco

  import models

  rng = np.random.default_rng(vlib.seed() + 808)
  found = []
  stats = {}
  for name in INTS:
    for k in range(nper):
      contacts = k % 3 == 2
      o = models.Opts(
        nbody=(1, 5),
        actuators=int(rng.integers(0, 4)),
        act_kinds=("motor", "position", "velocity", "general", "general"),
        damping=0.7,
        gravity=True,
        contacts=contacts,
        plane=contacts,
        limits=0.3 if contacts else 0.0,
      )
      if contacts:
        o.geom_types = ("sphere", "capsule", "box")  # analytic narrowphase only: no convex-collision tolerance in the way
      xml, _ = models.random_model(rng, o)
      if k % 2 == 0:  # polynomial joint damping "d p0 p1": linear part zero or not, on half of the models
        import re

        def _poly(mt):
          if rng.random() < 0.3:
            return mt.group(0)
          d = 0.0 if rng.random() < 0.4 else float(mt.group(1))
          return f'damping="{d:.4g} {rng.uniform(0.05, 1.5):.4g} {rng.uniform(0.0, 0.5) * (rng.random() < 0.6):.4g}"'

        xml = re.sub(r'damping="([0-9.eE+-]+)"', _poly, xml)
      m = mujoco.MjModel.from_xml_string(xml)
      m.opt.integrator = INTS[name]
      sat = []
      for u in range(m.nu):  # stateful actuators: half of them act-limited (the generator has none)
        if m.actuator_dyntype[u] in (1, 2, 3) and rng.random() < 0.5:
          m.actuator_actlimited[u] = 1
          lo = rng.uniform(-0.6, 0.0)
          m.actuator_actrange[u] = [lo, lo + rng.uniform(0.1, 1.0)]
          sat.append(u)
      damp_off = k % 2 == 1
      if damp_off:
        m.opt.disableflags |= mujoco.mjtDisableBit.mjDSBL_EULERDAMP
      d = mujoco.MjData(m)
      models.random_state(rng, m, d, unnormalized=(k % 5 == 0), vel_scale=float(10 ** rng.uniform(-1, 0.7)))
      for u in sat:  # saturated: activation at (or a hair inside) a bound, control pushing outward
        if rng.random() < 0.7:
          up = rng.random() < 0.5
          bnd = m.actuator_actrange[u, 1 if up else 0]
          d.act[m.actuator_actadr[u]] = np.float32(bnd - (1e-4 if up else -1e-4) * (rng.random() < 0.5))
          d.ctrl[u] = np.float32((1 if up else -1) * rng.uniform(0.5, 3.0) + (bnd if m.actuator_dyntype[u] != 1 else 0.0))
      d0 = {"qpos": d.qpos.copy(), "qvel": d.qvel.copy(), "act": d.act.copy(), "ctrl": d.ctrl.copy()}
      nsteps = int(rng.integers(1, 6))
      st, s, b = lockstep(m, d0, nsteps)
      res.count()
      stc = stats.setdefault(name, {"ok": 0, "fail": 0, "discard": 0})
      stc[st] += 1
      if st == "discard":
        stats.setdefault("discard_reasons", {}).setdefault(str(b)[:60], 0)
        stats["discard_reasons"][str(b)[:60]] += 1
      if st == "ok":
        res.nontrivial(("oracle", name, k))
        if len(res.samples) < 4 and k == 0:
          res.sample({"kind": "oracle", "integrator": name, "eulerdamp_disabled": damp_off, "contacts": contacts, "nq": m.nq, "nv": m.nv, "na": m.na, "steps": nsteps, "xml": xml[:300]})
      elif st == "fail":
        key = classify(m, name, d0, nsteps, b)
        found.append((key, f"{name}{' (eulerdamp off)' if damp_off else ''}{' with contacts' if contacts else ''}: mjw.step disagrees with mujoco.mj_step at step {s} in {b[0][0]} by {b[0][1]:.3g} (bound {b[0][2]:.3g})", {"xml": xml, "integrator": name, "eulerdamp_disabled": damp_off, "qpos0": d0["qpos"].tolist(), "qvel0": d0["qvel"].tolist(), "act0": d0["act"].tolist(), "ctrl0": d0["ctrl"].tolist(), "steps": nsteps, "actlimited": [int(x) for x in m.actuator_actlimited], "actrange": m.actuator_actrange.tolist(), "fails": [list(x[:3]) for x in b]}))
  res.extra["oracle"] = stats
  return found


def enum_obligation(res):
  from mujoco_warp._src.types import DynType
  from mujoco_warp._src.types import JointType

  got = (int(JointType.FREE), int(JointType.BALL), int(JointType.SLIDE), int(JointType.HINGE), int(DynType.FILTEREXACT), int(DynType.DCMOTOR), int(DynType.USER))
  res.obligation("enum values hard-wired in Model/Integrate.v match types.py", got == (0, 1, 2, 3, 3, 5, 7), str(got))
  return got == (0, 1, 2, 3, 3, 5, 7)


def run(res):
  quick = res.tier == "quick"
  res.rule = "correspondence cases: random joint/actuator layouts (gaps, permuted order, overlapping slots in place, zero quaternions, tau=0, every non-DCMOTOR dyntype) per kernel, and real host functions on random MJCF models with an affine forward(); distinct = agreeing non-discarded cases. oracle: random MJCF models x 4 integrators x eulerdamp on/off x contacts on/off, 1-5 lock-step steps; distinct = models that ran to the end in agreement"
  ok, trs, failing = propkit.prove(res, PROPS, gen_names=["math", "Skel_pipeline", "kforward", "support_act"], required_funcs=["quat_integrate", "mul_quat", "axis_angle_to_quat", "next_act", "_next_position", "_next_velocity"])
  ok = enum_obligation(res) and ok
  bad = []
  corr_ok = True
  try:
    bad = correspondence(res, quick)
  except RuntimeError as e:  # case files do not compile / a kernel cannot be launched any more
    corr_ok = False
    bad = res.extra.pop("_bad", [])
    res.obligation("correspondence machinery (case files compile, kernels launchable)", False, str(e)[-600:])
  found = directed(res) + oracle(res, 12 if quick else 100)
  seen = set()
  for key, what, data in found:
    if key in seen:
      continue
    seen.add(key)
    res.violation(key, what, data)
  for b in bad[:3]:
    g = b["group"].split()[0]
    res.violation(f"C08:correspondence:{g}", f"real {b['group']} differs from Model/Integrate.v (the theorems no longer describe the code) on a concrete input", b)
  new = [k for k in seen if k not in CLASSIFIED]
  if (not ok or not corr_ok) and not new and not bad:
    propkit.broken_proof_violation(res, "C08 integration theorems / stage-order facts", failing or "correspondence")
  res.assumptions += [
    "forward() is abstract in the theorems; its agreement with MuJoCo is other properties' subject and is only exercised here by the oracle",
    "float32 rounding is not modelled (theorems over R; correspondence at binary64 with tolerance 1.2e-4, 2e-3 for 4-stage affine RK4)",
    "DCMOTOR activation dynamics are not modelled (oracle only); sleep tail of _advance not modelled (sleep disabled)",
    "oracle discards runs where the MuJoCo reference is non-finite / > 1e6 / flagged unstable, |qacc| > 1e4, MJWarp reports a capacity overflow, a constraint solver hit its iteration cap, or the contact set differs / sits within 1e-4 of activation; with active contacts all bounds are x20 (both solvers stop at their own tolerance)",
  ]


def replay(res, path):
  import mujoco

  r = json.load(open(path))["replay"]
  if not isinstance(r, dict) or "xml" not in r:
    print("replay: no MJCF input in this file (proof / correspondence breakage or kernel-level case): re-run ./check C08")
    print(json.dumps(r, default=str)[:2000])
    return 1
  m = mujoco.MjModel.from_xml_string(r["xml"])
  m.opt.integrator = INTS[r["integrator"]]
  if r.get("eulerdamp_disabled"):
    m.opt.disableflags |= mujoco.mjtDisableBit.mjDSBL_EULERDAMP
  if r.get("disableflags"):
    m.opt.disableflags |= int(r["disableflags"])
  if r.get("actlimited") is not None and m.nu:
    m.actuator_actlimited[:] = r["actlimited"]
    m.actuator_actrange[:] = r["actrange"]
  if "prefill_ctrl" in r:
    d = mujoco.MjData(m)
    for c in r["prefill_ctrl"]:
      d.ctrl[:] = c
      mujoco.mj_step(m, d)
    d0 = {"qpos": d.qpos.copy(), "qvel": d.qvel.copy(), "act": np.zeros(0), "ctrl": d.ctrl.copy(), "time": d.time, "history": d.history.copy()}
    st, s, b = lockstep(m, d0, r["steps"], ctrl_seq=r["ctrl_seq"])
  else:
    d0 = {"qpos": np.array(r["qpos0"]), "qvel": np.array(r["qvel0"]), "act": np.array(r.get("act0", [])), "ctrl": np.array(r.get("ctrl0", np.zeros(m.nu)))}
    st, s, b = lockstep(m, d0, r["steps"])
  print(f"replay: {st} at step {s}: {b}")
  return 1 if st == "fail" else 0
