"""C22 Jacobians are consistent with positions and velocities.

Proof (Coq, Props/C22.v over Proof/Jac.v): CSR row = dense row as a linear functional, stated on the
machine-translated kernels forward._actuator_velocity / _tendon_velocity; the io.py loop computing
body_isdofancestor marks exactly the dofs on the path to the root; the translated support.jac_dof is
the velocity map of a body point (per dof, and summed against qvel = velocity from the body's cvel, with
the cvel recursion of smooth._comvel_branch); efc.vel = J.qvel for the +-1 rows (friction dof, joint
limit, joint equality), dense and sparse builders.
Tie: kernel translation validated against the real launches (ktrace/kvalid); hand models of Model/Jac.v
evaluated inside Coq against values the real code produced (put_model, com_vel, make_constraint).
Oracle (the property itself on the real code): efc.J @ qvel == efc.vel for every row; mjw.jac vs mj_jac
and finite differences of point positions; ten_J / actuator_moment vs finite differences of lengths;
dense vs sparse Jacobian option give the same qacc."""

from __future__ import annotations

import json

import numpy as np

import propkit
import vlib

MANIFEST = {
  "text": "proof: over R, for all inputs: (a) a CSR row with in-range columns denotes the same linear functional as its dense row, and the value the machine-translated kernels _actuator_velocity/_tendon_velocity store is that row times qvel; the dense merge loop of the tendon row builders accumulates (dense row).qvel = CSR row.qvel for strictly increasing columns; (b) on a well-formed kinematic tree (decidable check, evaluated on every generated MjModel) the io.py loop marks in body_isdofancestor exactly the dofs of the bodies on the path to the root; (c) the machine-translated support.jac_dof returns cdof_lin + cdof_ang x (p - subtree_com[root]) for marked dofs and 0 otherwise, and summed against qvel this is the velocity of the point computed from the body's cvel, cvel being the recursion of smooth._comvel_branch along an ancestor chain (hand model); the kernel launched by support.jac stores these columns; (d) efc.vel = J.qvel for friction-dof, joint-limit and joint-equality rows, dense and sparse builders (hand models; joint equality needs two distinct joints, which MuJoCo's compiler enforces). Only tested, not proved: contact/connect/weld/tendon/ball-limit rows, jac vs mj_jac and finite differences, ten_J/actuator_moment vs finite differences of lengths, dense vs sparse step equivalence; float32 rounding.",
  "note": "trusted: Coq kernel; translator bin/translate.py (kernels validated each run against the real launches, bin/kvalid.py); hand models of Model/Jac.v (io.py host loop, _comvel_branch, +-1 row builders, tendon merge loop) tied by correspondence inside Coq to values produced by put_model / com_vel / make_constraint on random models; well-formedness of MuJoCo's compiled tree arrays is checked per model, not proved of the compiler; real-number axioms of Coq's Reals",
  "technique": "Rocq proof over machine-translated kernels/functions (T) and hand models (C), kernel translation validation, correspondence inside Coq, differential + finite-difference oracle on the real code",
  "engine": "coq",
}

PROPS = "Props/C22.v"
FUNCS = ["jac_dof", "_compute_jacp", "_compute_jacr"]
EQUALITY, FRICTION_DOF, FRICTION_TENDON, LIMIT_JOINT = 0, 1, 2, 3


# ------------------------------------------------------------------------------ helpers
def _mj():
  import mujoco

  return mujoco


def _tree_arrays(m):
  return dict(
    ps=m.body_parentid.tolist(), dn=m.body_dofnum.tolist(), da=m.body_dofadr.tolist(), dp=m.dof_parentid.tolist(), db=m.dof_bodyid.tolist(),
    jntnum=m.body_jntnum.tolist(), jntadr=m.body_jntadr.tolist(), jnt_type=m.jnt_type.tolist(),
  )  # fmt: skip


def _Z(xs):
  return vlib.zlist(xs)


def _F(xs):
  return vlib.flist(np.asarray(xs, dtype=np.float64).reshape(-1))


def _ffun(xs):
  return f"(fl {_F(xs)})"


def _zfun(xs):
  return f"(zg {_Z(xs)})"


EXTRA = (
  "Definition fl (l : list float) (i : Z) : float := nth (Z.to_nat i) l 0%float.\n"
  "Definition fll (l : list (list float)) (i : Z) : list float := nth (Z.to_nat i) l nil.\n"
  "Definition b2z (b : bool) : Z := if b then 1%Z else 0%Z.\n"
)


def _run_cases(tag, lines, chunk=60):
  import tvalid

  if not lines:
    return []
  return tvalid.run_cases(tag, ["Model.Jac"], lines, chunk=chunk, extra_defs=EXTRA)


def dense_efc_J(m, mm, dd, w):
  """efc.J of world w as a dense (nefc, nv) float64 matrix (CSR rows expanded)."""
  nefc = int(dd.nefc.numpy()[w])
  if mm.is_sparse:
    J = np.zeros((nefc, m.nv))
    rn, ra = dd.efc.J_rownnz.numpy()[w], dd.efc.J_rowadr.numpy()[w]
    ci, val = dd.efc.J_colind.numpy()[w].reshape(-1), dd.efc.J.numpy()[w].reshape(-1)
    for r in range(nefc):
      for k in range(int(rn[r])):
        J[r, ci[ra[r] + k]] += val[ra[r] + k]
    return J
  return dd.efc.J.numpy()[w][:nefc, : m.nv].astype(np.float64)


def _csr_dense(rownnz, rowadr, colind, vals, nrow, ncol):
  J = np.zeros((nrow, ncol))
  for r in range(nrow):
    for k in range(int(rownnz[r])):
      J[r, colind[rowadr[r] + k]] += vals[rowadr[r] + k]
  return J


def rich_xml(rng, jac="dense", cone="pyramidal", contacts=False, extra_option=""):
  """Random tree (bin/models.py) + tendons (fixed, spatial with sphere/cylinder wrapping, pulley) and
  actuators with every transmission type (joint, jointinparent, tendon, site, site+refsite,
  slider-crank, body)."""
  import models

  o = models.Opts(
    nbody=(3, 6), sites=1.0, geom_types=("sphere", "cylinder"), limits=0.5, frictionloss=0.4, equality=int(rng.integers(0, 3)),
    contacts=contacts, plane=contacts, welded=0.1, option=f'jacobian="{jac}" cone="{cone}" {extra_option}', condim=(1, 3, 4, 6),
  )  # fmt: skip
  xml, info = models.random_model(rng, o)
  nb = info["nbody"]
  sites = info["sites"]
  joints = info["joints"]
  scalar = [j for j in joints if j[1] in ("hinge", "slide")]
  f = models._f
  ten, act = "", ""
  tnames = []
  if len(scalar) >= 2:
    k = int(rng.integers(2, min(3, len(scalar)) + 1))
    idx = rng.choice(len(scalar), k, replace=False)
    ten += '<fixed name="tf" frictionloss="0.05" limited="true" range="-0.2 0.3">' + "".join(f'<joint joint="{scalar[i][0]}" coef="{f([rng.normal(0, 1)])}"/>' for i in idx) + "</fixed>"
    tnames.append("tf")
  if len(sites) >= 2:
    i, j = (int(x) for x in rng.choice(len(sites), 2, replace=False))
    ten += f'<spatial name="ts0" frictionloss="0.03"><site site="{sites[i]}"/><site site="{sites[j]}"/></spatial>'
    tnames.append("ts0")
  if len(sites) >= 3:
    i, j, k = (int(x) for x in rng.choice(len(sites), 3, replace=False))
    g = f"g{int(rng.integers(nb))}_0"
    ten += f'<spatial name="ts1" limited="true" range="0 0.4"><site site="{sites[i]}"/><geom geom="{g}"/><site site="{sites[j]}"/><pulley divisor="2"/><site site="{sites[j]}"/><site site="{sites[k]}"/></spatial>'
    tnames.append("ts1")
  if len(sites) >= 2:
    i, j = (int(x) for x in rng.choice(len(sites), 2, replace=False))
    g = f"g{int(rng.integers(nb))}_0"
    ten += f'<spatial name="ts2"><site site="{sites[i]}"/><geom geom="{g}" sidesite="{sites[int(rng.integers(len(sites)))]}"/><site site="{sites[j]}"/></spatial>'
    tnames.append("ts2")
  for a, j in enumerate(joints[:3]):
    gear = f(rng.normal(0, 1, 6)) if j[1] in ("free", "ball") else f([rng.normal(0, 2)])
    kind = "jointinparent" if (j[1] in ("free", "ball") and rng.random() < 0.6) else "joint"
    act += f'<motor name="aj{a}" {kind}="{j[0]}" gear="{gear}"/>'
  for t in tnames[:2]:
    act += f'<motor name="at_{t}" tendon="{t}" gear="{f([rng.normal(0, 1.5)])}"/>'
  if len(sites) >= 2:
    i, j = (int(x) for x in rng.choice(len(sites), 2, replace=False))
    act += f'<motor name="as0" site="{sites[i]}" gear="{f(rng.normal(0, 1, 6))}"/>'
    act += f'<motor name="as1" site="{sites[i]}" refsite="{sites[j]}" gear="{f(rng.normal(0, 1, 6))}"/>'
    act += f'<motor name="asc" cranksite="{sites[i]}" slidersite="{sites[j]}" cranklength="{f([rng.uniform(0.8, 1.5)])}" gear="{f([rng.normal(0, 1)])}"/>'
  act += f'<adhesion name="ab" body="b{int(rng.integers(nb))}" ctrlrange="0 1" gain="0.5"/>'
  eq = ""
  if len(scalar) >= 2:
    i, j = (int(x) for x in rng.choice(len(scalar), 2, replace=False))
    eq += f'<joint joint1="{scalar[i][0]}" joint2="{scalar[j][0]}" polycoef="{f(rng.normal(0, 0.5, 5))}"/>'
  if scalar and rng.random() < 0.5:
    eq += f'<joint joint1="{scalar[int(rng.integers(len(scalar)))][0]}" polycoef="{f([rng.normal(0, 0.3)])} 0 0 0 0"/>'
  xml = xml.replace("</mujoco>", (f"<tendon>{ten}</tendon>" if ten else "") + (f"<equality>{eq}</equality>" if eq else "") + f"<actuator>{act}</actuator></mujoco>")
  return xml, info


def _state(rng, m, vel=1.0):
  import models

  mujoco = _mj()
  d = mujoco.MjData(m)
  models.random_state(rng, m, d, vel_scale=vel, unnormalized=False)
  return d


# ------------------------------------------------------------------------------ kernel validation
def kvalidate(res, trs, nmodels):
  """Translated kernels vs the real launches captured while the public API runs (bin/ktrace.py)."""
  import ktrace
  import kvalid
  import mujoco_warp as mjw
  import warp as wp

  mujoco = _mj()
  trk, trj = trs.get("kforward"), trs.get("kjac")
  bad = []
  if trk is None or trj is None:
    return [{"error": "generator missing"}]
  fis = {"av": trk.kernels.get("_actuator_velocity"), "tv": trk.kernels.get("_tendon_velocity"), "jac": trj.kernels.get("k_jac_pr"),
         "jp": trj.kernels.get("k_jac_p"), "jr": trj.kernels.get("k_jac_r")}  # fmt: skip
  for k, fi in fis.items():
    if fi is None:
      bad.append({"error": f"kernel {k} did not translate", "detail": {**trk.errors, **trj.errors}})
  if bad:
    return bad
  wanted_f = {"mujoco_warp._src.forward._actuator_velocity": fis["av"], "mujoco_warp._src.forward._tendon_velocity": fis["tv"]}
  jq = "mujoco_warp._src.support._make_jac_kernel.<locals>._jac"
  rng = np.random.default_rng(vlib.seed() + 2201)
  cases_f, cases_j = [], []
  for k in range(nmodels):
    xml, info = rich_xml(rng, jac=["dense", "sparse"][k % 2])
    m = mujoco.MjModel.from_xml_string(xml)
    d = _state(rng, m)
    mm, dd = mjw.put_model(m), mjw.put_data(m, d, nworld=2)
    mjw.fwd_position(mm, dd)
    with ktrace.Tracer(wanted_f, per_kernel=1) as t:
      mjw.fwd_velocity(mm, dd)
    cases_f += t.cases
    for variant, fi in (("pr", fis["jac"]), ("p", fis["jp"]), ("r", fis["jr"]))[: 3 if k == 0 else 1]:
      body = rng.integers(0, m.nbody, 2).astype(np.int32)
      pts = (dd.xipos.numpy()[np.arange(2), body] + rng.normal(0, 0.2, (2, 3))).astype(np.float32)
      jp, jr = wp.zeros((2, 3, m.nv), dtype=float), wp.zeros((2, 3, m.nv), dtype=float)
      with ktrace.Tracer({jq: fi}, per_kernel=1) as t:
        mjw.jac(mm, dd, jp if "p" in variant else None, jr if "r" in variant else None, wp.array(pts, dtype=wp.vec3), wp.array(body, dtype=int))
      cases_j += t.cases
    res.nontrivial(("kv", xml))
  got = {c["qual"] for c in cases_f + cases_j}
  need = set(wanted_f) | {jq}
  if got != need:
    bad.append({"error": "kernel launch not captured", "missing": sorted(need - got)})
  vf = kvalid.run_cases(res, "C22kf", "Gen.kforward", cases_f) if cases_f else []
  vj = kvalid.run_cases(res, "C22kj", "Gen.kjac", cases_j) if cases_j else []
  allv = vf + vj
  res.extra["kernel_validation"] = {"cases": len(allv), "agree": allv.count(0), "discarded": allv.count(1), "disagree": allv.count(2),
                                    "kernels": sorted(got)}  # fmt: skip
  for c, v in zip(cases_f + cases_j, allv):
    if v == 2:
      bad.append({"kernel": c["qual"], "dim": list(c["dim"]) if isinstance(c["dim"], (tuple, list)) else c["dim"]})
  if allv and allv.count(0) == 0:
    bad.append({"error": "no kernel validation case agreed (all discarded)"})
  return bad


# ------------------------------------------------------------------------------ correspondence: host loop + cvel
def corr_tree(res, nmodels):
  """io.py body_isdofancestor vs isdofancestor model; wf checks; _comvel_branch vs comvel_task."""
  import models
  import mujoco_warp as mjw

  mujoco = _mj()
  rng = np.random.default_rng(vlib.seed() + 2202)
  lines, meta = [], []
  for k in range(nmodels):
    o = models.Opts(nbody=(2, 8), welded=0.3, multi_joint=0.5, sites=0.3)
    if k % 4 == 3:
      o.joint_types = ("hinge", "slide")
    xml, info = models.random_model(rng, o)
    m = mujoco.MjModel.from_xml_string(xml)
    d = _state(rng, m)
    mm, dd = mjw.put_model(m), mjw.put_data(m, d, nworld=1)
    a = _tree_arrays(m)
    mask = mm.body_isdofancestor.numpy()
    nv_pad = mask.shape[1]
    tree = f"{_Z(a['ps'])} {_Z(a['dn'])} {_Z(a['da'])} {_Z(a['dp'])}"
    lines.append(f"tvz (concat (body_isdofancestor {tree} {nv_pad})) {_Z(mask.reshape(-1))}")
    meta.append(("isdofancestor", xml))
    lines.append(f"tvz [b2z (wf_treeb {tree} {_Z(a['db'])}); b2z (wf_jointsb {_Z(a['ps'])} {_Z(a['dn'])} {_Z(a['jntnum'])} {_Z(a['jntadr'])} {_Z(a['jnt_type'])})] [1; 1]%Z")
    meta.append(("wf", xml))
    # cvel along every branch (ancestor chain of a leaf, as io.py builds body_branches)
    mjw.fwd_position(mm, dd)
    mjw.fwd_velocity(mm, dd)
    cdof = dd.cdof.numpy()[0].astype(np.float64)
    cvel = dd.cvel.numpy()[0].astype(np.float64)
    qvel = dd.qvel.numpy()[0].astype(np.float64)
    bb, bs = mm.body_branches.numpy(), mm.body_branch_start.numpy()
    for br in range(len(bs) - 1):
      chain = [int(x) for x in bb[bs[br] : bs[br + 1]]]
      if not chain or m.nv == 0:
        continue
      cd = "(fll [" + "; ".join(_F(c) for c in cdof) + "])"
      term = (f"(fun Sc => let st := @comvel_task float Sc {_Z(a['ps'])} {_Z(a['jntnum'])} {_Z(a['jntadr'])} {_Z(a['da'])} {_Z(a['jnt_type'])} "
              f"{cd} {_ffun(qvel)} (@comvel_init float Sc) {_Z(chain)} in flat_map st {_Z(chain)})")  # fmt: skip
      lines.append(f"tv3 {vlib.fhex(2e-4)} {term} {_F(cvel[chain])}")
      meta.append(("comvel", xml))
    res.nontrivial(("tree", xml))
  verdicts = _run_cases("C22tree", lines, chunk=40)
  res.count(len(verdicts))
  bad = [{"what": meta[i][0], "xml": meta[i][1]} for i, v in enumerate(verdicts) if v == 2]
  res.extra["corr_tree"] = {"cases": len(verdicts), "agree": verdicts.count(0), "discarded": verdicts.count(1), "disagree": verdicts.count(2)}
  kinds = {}
  for (w, _), v in zip(meta, verdicts):
    kinds.setdefault(w, [0, 0])[0 if v == 0 else 1] += 1
  res.extra["corr_tree"]["by_kind"] = kinds
  if verdicts and any(kinds.get(k, [0])[0] == 0 for k in ("isdofancestor", "wf", "comvel")):
    bad.append({"what": "a correspondence kind has no agreeing case", "kinds": kinds})
  return bad


# ------------------------------------------------------------------------------ correspondence: efc row builders
class _Capture:
  """Record inputs (before) and outputs (after) of selected cache_kernel products while make_constraint runs."""

  def __init__(self, names):
    self.names, self.launches = names, []

  def __enter__(self):
    import warp as wp

    self.wp, self.orig = wp, wp.launch
    cap = self

    def launch(kernel, dim, inputs=(), outputs=(), *a, **kw):
      qn = kernel.func.__qualname__
      hit = next((n for n in cap.names if qn.startswith(n + ".")), None)
      if hit is None:
        return cap.orig(kernel, dim, inputs, outputs, *a, **kw)
      labels = [v.label for v in kernel.adj.args]
      args = list(inputs) + list(outputs)
      before = {l: (v.numpy().copy() if hasattr(v, "numpy") else v) for l, v in zip(labels, args)}
      r = cap.orig(kernel, dim, inputs, outputs, *a, **kw)
      wp.synchronize()
      after = {l: v.numpy().copy() for l, v in zip(labels, args) if hasattr(v, "numpy")}
      cap.launches.append(dict(name=hit, dim=dim, before=before, after=after))
      return r

    wp.launch = launch
    return self

  def __exit__(self, *a):
    self.wp.launch = self.orig


def _find_row(after, w, typ, idv, nefc):
  t, i = after["efc_type_out"][w][:nefc], after["efc_id_out"][w][:nefc]
  hit = np.nonzero((t == typ) & (i == idv))[0]
  return int(hit[0]) if len(hit) == 1 else None


def corr_rows(res, nmodels):
  import mujoco_warp as mjw

  mujoco = _mj()
  rng = np.random.default_rng(vlib.seed() + 2203)
  lines, meta = [], []
  tol = vlib.fhex(2e-5)
  for k in range(nmodels):
    sparse = k % 2 == 1
    xml, info = rich_xml(rng, jac="sparse" if sparse else "dense")
    m = mujoco.MjModel.from_xml_string(xml)
    d = _state(rng, m)
    # push some limited joints over their limits
    for j in range(m.njnt):
      if m.jnt_limited[j] and m.jnt_type[j] in (2, 3) and rng.random() < 0.7:
        d.qpos[m.jnt_qposadr[j]] = np.float32(m.jnt_range[j][int(rng.integers(2))] + rng.normal(0, 0.2))
    # ample explicit capacities: the default sparse capacity is itself defective (finding C22:dense-vs-sparse:default-njmax_nnz-drops-rows)
    mm, dd = mjw.put_model(m), mjw.put_data(m, d, nworld=2, njmax=128, njmax_nnz=128 * max(m.nv, 1))
    with _Capture(["_equality_joint", "_friction_dof", "_limit_slide_hinge", "_friction_tendon"]) as cap:
      mjw.fwd_position(mm, dd)
    nv = m.nv
    for L in cap.launches:
      b, a = L["before"], L["after"]
      nworld, n = L["dim"]
      for w in range(nworld):
        nefc = int(a["nefc_out"][w])
        qvel = b["qvel_in"][w].astype(np.float64)
        for t in range(n):
          if L["name"] == "_friction_dof":
            fl = float(b["dof_frictionloss"][w % b["dof_frictionloss"].shape[0]][t])
            row = _find_row(a, w, FRICTION_DOF, t, nefc)
            if (fl > 0) != (row is not None):
              lines.append("2%nat")
              meta.append(("friction_dof activity", xml))
              continue
            if row is None:
              continue
            model_d = f"@friction_dof_dense float Sc {nv} {t} {_ffun(qvel)}"
            model_s = f"@friction_dof_sparse float Sc {t} {_ffun(qvel)}"
          elif L["name"] == "_limit_slide_hinge":
            jid = int(b["jnt_limited_slide_hinge_adr"][t])
            rngv = b["jnt_range"][w % b["jnt_range"].shape[0]][jid].astype(np.float64)
            mar = float(b["jnt_margin"][w % b["jnt_margin"].shape[0]][jid])
            q = float(b["qpos_in"][w][int(b["jnt_qposadr"][jid])])
            pos = min(q - rngv[0], rngv[1] - q) - mar
            row = _find_row(a, w, LIMIT_JOINT, jid, nefc)
            if abs(pos) > 1e-5:
              lines.append(f"tvz [b2z (@limit_sh_active float ScalarF0 {vlib.fhex(q)} {vlib.fhex(rngv[0])} {vlib.fhex(rngv[1])} {vlib.fhex(mar)})] [{1 if row is not None else 0}]%Z")
              meta.append(("limit activity", xml))
            if row is None or abs((q - rngv[0]) - (rngv[1] - q)) < 1e-5:
              continue
            dof = int(b["jnt_dofadr"][jid])
            model_d = f"@limit_sh_dense float Sc {nv} {dof} {vlib.fhex(q)} {vlib.fhex(rngv[0])} {vlib.fhex(rngv[1])} {_ffun(qvel)}"
            model_s = f"@limit_sh_sparse float Sc {dof} {vlib.fhex(q)} {vlib.fhex(rngv[0])} {vlib.fhex(rngv[1])} {_ffun(qvel)}"
          elif L["name"] == "_equality_joint":
            eqid = int(b["eq_jnt_adr"][t])
            act = bool(b["eq_active_in"][w][eqid])
            row = _find_row(a, w, EQUALITY, eqid, nefc)
            if act != (row is not None):
              lines.append("2%nat")
              meta.append(("eq_joint activity", xml))
              continue
            if row is None:
              continue
            j1, j2 = int(b["eq_obj1id"][eqid]), int(b["eq_obj2id"][eqid])
            d1, d2 = int(b["jnt_dofadr"][j1]), (int(b["jnt_dofadr"][j2]) if j2 > -1 else 0)
            qa2 = int(b["jnt_qposadr"][j2]) if j2 > -1 else 0
            data = b["eq_data"][w % b["eq_data"].shape[0]][eqid].astype(np.float64)
            qpos = b["qpos_in"][w].astype(np.float64)
            qpos0 = b["qpos0"][w % b["qpos0"].shape[0]].astype(np.float64)
            args = f"{d1} {d2} ({j2})%Z {qa2} {_F(data)} {_ffun(qpos)} {_ffun(qpos0)} {_ffun(qvel)}"
            model_d = f"@eq_joint_dense float Sc {nv} {args}"
            model_s = f"@eq_joint_sparse float Sc {args}"
          else:  # _friction_tendon: the dense merge loop / sparse copy of a CSR tendon row
            fl = float(b["tendon_frictionloss"][w % b["tendon_frictionloss"].shape[0]][t])
            row = _find_row(a, w, FRICTION_TENDON, t, nefc)
            if (fl > 0) != (row is not None):
              lines.append("2%nat")
              meta.append(("friction_tendon activity", xml))
              continue
            if row is None:
              continue
            adr, nnz = int(b["ten_J_rowadr"][t]), int(b["ten_J_rownnz"][t])
            tj = b["ten_J_in"][w].astype(np.float64)
            model_d = f"@merge_dense float Sc {nv} {adr} {nnz} {_zfun(b['ten_J_colind'])} {_ffun(tj)} {_ffun(qvel)}"
            model_s = (f"(map (fun e => (fst e, snd e)) (@csr_entries float {adr} {nnz} {_zfun(b['ten_J_colind'])} {_ffun(tj)}), "
                       f"@csr_dot float Sc {adr} {nnz} {_zfun(b['ten_J_colind'])} {_ffun(tj)} {_ffun(qvel)})")  # fmt: skip
          vel = float(a["efc_vel_out"][w][row])
          if sparse:
            ra, rn = int(a["efc_J_rowadr_out"][w][row]), int(a["efc_J_rownnz_out"][w][row])
            ci = a["efc_J_colind_out"][w].reshape(-1)[ra : ra + rn]
            vals = a["efc_J_out"][w].reshape(-1)[ra : ra + rn].astype(np.float64)
            lines.append(f"tv3 {tol} (fun Sc => let r := {model_s} in map snd (fst r) ++ [snd r]) {_F(list(vals) + [vel])}")
            meta.append((L["name"] + " sparse", xml))
            lines.append(f"tvz (map fst (fst (let Sc := ScalarF0 in {model_s}))) {_Z(ci)}")
            meta.append((L["name"] + " colind", xml))
          else:
            Jrow = a["efc_J_out"][w][row][:nv].astype(np.float64)
            lines.append(f"tv3 {tol} (fun Sc => let r := {model_d} in fst r ++ [snd r]) {_F(list(Jrow) + [vel])}")
            meta.append((L["name"] + " dense", xml))
    res.nontrivial(("rows", xml))
  verdicts = _run_cases("C22rows", lines, chunk=60)
  res.count(len(verdicts))
  kinds = {}
  for (wh, _), v in zip(meta, verdicts):
    kinds.setdefault(wh, [0, 0, 0])[v] += 1
  res.extra["corr_rows"] = {"cases": len(verdicts), "agree": verdicts.count(0), "discarded": verdicts.count(1), "disagree": verdicts.count(2), "by_kind": kinds}
  bad = [{"what": meta[i][0], "xml": meta[i][1]} for i, v in enumerate(verdicts) if v == 2]
  for need in ("_equality_joint dense", "_equality_joint sparse", "_friction_dof dense", "_friction_dof sparse", "_limit_slide_hinge dense", "_limit_slide_hinge sparse", "_friction_tendon dense", "_friction_tendon sparse"):
    if kinds.get(need, [0])[0] == 0:
      bad.append({"what": f"no agreeing case for {need}", "kinds": kinds})
  return bad


# ------------------------------------------------------------------------------ oracles (real code)
def oracle_efc(res, nmodels):
  """(i) efc.J @ qvel == efc.vel for every row of every constraint kind, dense and sparse."""
  import mujoco_warp as mjw

  mujoco = _mj()
  rng = np.random.default_rng(vlib.seed() + 2210)
  fails, seen, worst = [], set(), 0.0
  for k in range(nmodels):
    jac, cone = ["dense", "sparse"][k % 2], ["pyramidal", "elliptic"][(k // 2) % 2]
    xml, info = rich_xml(rng, jac=jac, cone=cone, contacts=True)
    m = mujoco.MjModel.from_xml_string(xml)
    d = _state(rng, m)
    for j in range(m.njnt):
      if m.jnt_type[j] == 0:
        d.qpos[m.jnt_qposadr[j] + 2] = np.float32(rng.uniform(0.0, 0.15))  # near the floor: contacts
      if m.jnt_limited[j] and m.jnt_type[j] in (2, 3) and rng.random() < 0.5:
        d.qpos[m.jnt_qposadr[j]] = np.float32(m.jnt_range[j][int(rng.integers(2))] + rng.normal(0, 0.2))
    mm, dd = mjw.put_model(m), mjw.put_data(m, d, nworld=2, njmax=300, nconmax=150, njmax_nnz=300 * max(m.nv, 1))
    mjw.fwd_position(mm, dd)
    mjw.fwd_velocity(mm, dd)
    for w in range(2):
      J = dense_efc_J(m, mm, dd, w)
      nefc = J.shape[0]
      if nefc == 0:
        continue
      qv = dd.qvel.numpy()[w].astype(np.float64)
      vel = dd.efc.vel.numpy()[w][:nefc].astype(np.float64)
      typ = dd.efc.type.numpy()[w][:nefc]
      err = np.abs(J @ qv - vel) / (1 + np.abs(J) @ np.abs(qv))
      worst = max(worst, float(err.max()))
      seen |= {(jac, int(t)) for t in typ}
      res.count(nefc)
      if k == 0 and w == 0:
        res.sample({"kind": "oracle efc.J@qvel vs efc.vel", "jacobian": jac, "cone": cone, "nefc": nefc, "row_types": sorted({int(t) for t in typ}), "worst_rel_err": float(err.max()), "xml": xml[:300]})
      # float32 accumulation of <= nv products: 1e-4 relative to (1 + sum |J||qvel|) is > 100 ulp-sums
      if err.max() > 1e-4:
        i = int(err.argmax())
        fails.append({"kind": "efc", "xml": xml, "qpos": d.qpos.tolist(), "qvel": d.qvel.tolist(), "world": w, "row": i, "type": int(typ[i]),
                      "J_qvel": float(J[i] @ qv), "vel": float(vel[i]), "jacobian": jac})  # fmt: skip
    res.nontrivial(("efc", xml))
  res.extra["oracle_efc"] = {"worst_rel_err": worst, "row_types_seen": sorted(f"{j}:{t}" for j, t in seen)}
  return fails


def _fd_dir(rng, m):
  v = rng.normal(0, 1, m.nv)
  return v / max(np.linalg.norm(v), 1e-9)


def _qpos_step(m, qpos, v, h):
  mujoco = _mj()
  q = qpos.copy()
  mujoco.mj_integratePos(m, q, v, h)
  return q


def oracle_jac(res, nmodels, npoints):
  """(ii) mjw.jac vs mujoco.mj_jac and vs central finite differences of the point position."""
  import mujoco_warp as mjw
  import warp as wp

  mujoco = _mj()
  rng = np.random.default_rng(vlib.seed() + 2220)
  fails, worst_mj, worst_fd = [], 0.0, 0.0
  for k in range(nmodels):
    xml, info = rich_xml(rng, jac=["dense", "sparse"][k % 2])
    m = mujoco.MjModel.from_xml_string(xml)
    d = _state(rng, m)
    mm, dd = mjw.put_model(m), mjw.put_data(m, d, nworld=2)  # before mj_forward: put_data copies mjd's efc rows
    mujoco.mj_forward(m, d)
    mjw.fwd_position(mm, dd)
    for _ in range(npoints):
      body = rng.integers(0, m.nbody, 2).astype(np.int32)
      local = rng.normal(0, 0.2, (2, 3))
      pts = np.stack([d.xpos[b] + d.xmat[b].reshape(3, 3) @ l for b, l in zip(body, local)])
      jp, jr = wp.zeros((2, 3, m.nv), dtype=float), wp.zeros((2, 3, m.nv), dtype=float)
      mjw.jac(mm, dd, jp, jr, wp.array(pts.astype(np.float32), dtype=wp.vec3), wp.array(body, dtype=int))
      jp, jr = jp.numpy().astype(np.float64), jr.numpy().astype(np.float64)
      for w in range(2):
        b = int(body[w])
        jpm, jrm = np.zeros((3, m.nv)), np.zeros((3, m.nv))
        mujoco.mj_jac(m, d, jpm, jrm, pts[w], b)
        e = max(float(np.abs(jp[w] - jpm).max()), float(np.abs(jr[w] - jrm).max())) / (1 + float(np.abs(jpm).max()))
        worst_mj = max(worst_mj, e)
        # central difference of the world position of the body-fixed point along a random direction (float64)
        v = _fd_dir(rng, m)
        h = 1e-6
        pos = []
        d2 = mujoco.MjData(m)
        for s in (+1, -1):
          d2.qpos[:] = _qpos_step(m, d.qpos, v, s * h)
          mujoco.mj_kinematics(m, d2)
          pos.append(d2.xpos[b] + d2.xmat[b].reshape(3, 3) @ local[w])
        fd = (pos[0] - pos[1]) / (2 * h)
        efd = float(np.abs(jp[w] @ v - fd).max()) / (1 + float(np.abs(fd).max()))
        worst_fd = max(worst_fd, efd)
        res.count()
        if k == 0 and w == 0:
          res.sample({"kind": "oracle jac", "body": b, "point": pts[w].tolist(), "err_vs_mj_jac": e, "err_vs_fd": efd})
        # float32 kinematics feeding jac: cdof/subtree_com carry ~1e-6 relative error; 1e-4 leaves margin
        if e > 1e-4 or efd > 1e-4:
          fails.append({"kind": "jac", "xml": xml, "qpos": d.qpos.tolist(), "body": b, "point": pts[w].tolist(), "err_mj_jac": e, "err_fd": efd})
    res.nontrivial(("jac", xml))
  res.extra["oracle_jac"] = {"worst_vs_mj_jac": worst_mj, "worst_vs_fd": worst_fd}
  return fails


def oracle_lengths(res, nmodels):
  """(iii) ten_J / actuator_moment (MJWarp) vs central finite differences of ten_length / actuator_length."""
  import mujoco_warp as mjw

  mujoco = _mj()
  rng = np.random.default_rng(vlib.seed() + 2230)
  fails, worst = [], {"ten_fd64": 0.0, "act_fd64": 0.0, "ten_len": 0.0, "act_len": 0.0, "ten_fd32": 0.0, "act_fd32": 0.0}
  trn_seen, wrap_seen, skipped = set(), set(), 0
  fd_trn, not_deriv, wrap_active = set(), {"ten": 0, "act": 0}, 0
  for k in range(nmodels):
    xml, info = rich_xml(rng, jac=["dense", "sparse"][k % 2])
    m = mujoco.MjModel.from_xml_string(xml)
    def engaged(dx):  # tendons with a wrap point lying on a geom surface = wrapping actually engaged
      return sum(int((dx.wrap_obj.reshape(-1)[dx.ten_wrapadr[t] : dx.ten_wrapadr[t] + dx.ten_wrapnum[t]] >= 0).any()) for t in range(m.ntendon))

    best = None
    for _ in range(16):  # prefer a state in which tendons really wrap around their geoms
      dt = _state(rng, m, vel=0.0)
      mujoco.mj_fwdPosition(m, dt)
      if best is None or engaged(dt) > best[0]:
        best = (engaged(dt), dt.qpos.copy())
    d = mujoco.MjData(m)
    d.qpos[:] = best[1]
    mm, dd = mjw.put_model(m), mjw.put_data(m, d, nworld=1)  # before mj_forward: put_data copies mjd's efc rows
    mujoco.mj_forward(m, d)
    mjw.fwd_position(mm, dd)
    trn_seen |= {int(t) for t in m.actuator_trntype}
    wrap_active += engaged(d)
    wrap_seen |= {int(t) for t in m.wrap_type}
    tenJ = _csr_dense(mm.ten_J_rownnz.numpy(), mm.ten_J_rowadr.numpy(), mm.ten_J_colind.numpy(), dd.ten_J.numpy()[0].astype(np.float64), m.ntendon, m.nv)
    mom = _csr_dense(dd.moment_rownnz.numpy()[0], dd.moment_rowadr.numpy()[0], dd.moment_colind.numpy()[0], dd.actuator_moment.numpy()[0].astype(np.float64), m.nu, m.nv)
    tl, al = dd.ten_length.numpy()[0].astype(np.float64), dd.actuator_length.numpy()[0].astype(np.float64)
    worst["ten_len"] = max(worst["ten_len"], float((np.abs(tl - d.ten_length) / (1 + np.abs(d.ten_length))).max()) if m.ntendon else 0.0)
    worst["act_len"] = max(worst["act_len"], float((np.abs(al - d.actuator_length) / (1 + np.abs(d.actuator_length))).max()) if m.nu else 0.0)
    len_bad = (m.ntendon and (np.abs(tl - d.ten_length) / (1 + np.abs(d.ten_length))).max() > 2e-4) or (m.nu and (np.abs(al - d.actuator_length) / (1 + np.abs(d.actuator_length))).max() > 2e-4)
    if len_bad:
      fails.append({"kind": "length", "xml": xml, "qpos": d.qpos.tolist(), "ten_length_mjw": tl.tolist(), "ten_length_mj": d.ten_length.tolist(),
                    "actuator_length_mjw": al.tolist(), "actuator_length_mj": d.actuator_length.tolist()})  # fmt: skip
    # reference Jacobians of MuJoCo C (float64); MJWarp must reproduce them for every transmission / wrap type
    tenJ_mj = _csr_dense(m.ten_J_rownnz, m.ten_J_rowadr, m.ten_J_colind, d.ten_J, m.ntendon, m.nv)
    mom_mj = _csr_dense(d.moment_rownnz, d.moment_rowadr, d.moment_colind, d.actuator_moment, m.nu, m.nv)
    for which, J, Jmj in (("ten", tenJ, tenJ_mj), ("act", mom, mom_mj)):
      if J.size:
        e = float(np.abs(J - Jmj).max()) / (1 + float(np.abs(Jmj).max()))
        worst[which + "_vs_mj"] = max(worst.get(which + "_vs_mj", 0.0), e)
        res.count(J.shape[0])
        if e > 2e-4:  # float32 kinematics + wrap geometry vs float64
          i = int(np.abs(J - Jmj).max(axis=1).argmax())
          fails.append({"kind": which + "_J_mj", "xml": xml, "qpos": d.qpos.tolist(), "index": i, "J_mjw": J[i].tolist(), "J_mj": Jmj[i].tolist(),
                        "trntype": int(m.actuator_trntype[i]) if which == "act" else None})  # fmt: skip
    d2 = mujoco.MjData(m)

    def lengths64(q):
      d2.qpos[:] = q
      mujoco.mj_fwdPosition(m, d2)
      return d2.ten_length.copy(), d2.actuator_length.copy()

    def lengths32(q):
      d3 = mujoco.MjData(m)
      d3.qpos[:] = q
      d3x = mjw.put_data(m, d3, nworld=1)
      mjw.kinematics(mm, d3x)
      mjw.com_pos(mm, d3x)
      mjw.tendon(mm, d3x)
      mjw.transmission(mm, d3x)
      return d3x.ten_length.numpy()[0].astype(np.float64), d3x.actuator_length.numpy()[0].astype(np.float64)

    for rep in range(3):
      v = _fd_dir(rng, m)
      fds = {}
      for h in (1e-6, 1e-5):
        a, b = lengths64(_qpos_step(m, d.qpos, v, h)), lengths64(_qpos_step(m, d.qpos, v, -h))
        fds[h] = ((a[0] - b[0]) / (2 * h), (a[1] - b[1]) / (2 * h))
      for which, J, Jmj, idx in (("ten", tenJ, tenJ_mj, 0), ("act", mom, mom_mj, 1)):
        f1, f2 = fds[1e-6][idx], fds[1e-5][idx]
        smooth = np.abs(f1 - f2) <= 1e-4 * (1 + np.abs(f1))  # wrap on/off or side switch inside the stencil: skip that row
        # MuJoCo defines some "moments" that are not length derivatives (site transmission without refsite and
        # body/adhesion have length 0; ball/free joints and the rotational part of site+refsite use a
        # quaternion-difference length): the FD test applies where the float64 reference itself passes it
        is_deriv = np.abs(Jmj @ v - f1) <= 1e-5 * (1 + np.abs(f1))
        not_deriv[which] += int((smooth & ~is_deriv).sum())
        use = smooth & is_deriv
        skipped += int((~smooth).sum())
        Jv = J @ v
        err = np.where(use, np.abs(Jv - f1) / (1 + np.abs(f1)), 0.0)
        res.count(int(use.sum()))
        if which == "act":
          fd_trn |= {int(t) for t in m.actuator_trntype[use]}
        if err.size:
          worst[which + "_fd64"] = max(worst[which + "_fd64"], float(err.max()))
          # MJWarp's J is float32 on float32 kinematics; 5e-4 relative to (1+|dL/dq.v|) covers wrap geometry conditioning
          if err.max() > 5e-4:
            i = int(err.argmax())
            fails.append({"kind": which + "_J", "xml": xml, "qpos": d.qpos.tolist(), "dir": v.tolist(), "index": i, "J_v": float(Jv[i]), "fd": float(f1[i]),
                          "trntype": int(m.actuator_trntype[i]) if which == "act" else None})  # fmt: skip
      if rep == 0:
        # the same with MJWarp's own float32 lengths (coarse: h = 4e-3, error ~ 1e-7/h + curvature*h^2)
        h = 4e-3
        a, b = lengths32(_qpos_step(m, d.qpos, v, h)), lengths32(_qpos_step(m, d.qpos, v, -h))
        a6, b6 = lengths64(_qpos_step(m, d.qpos, v, h)), lengths64(_qpos_step(m, d.qpos, v, -h))
        for which, J, Jmj, idx in (("ten", tenJ, tenJ_mj, 0), ("act", mom, mom_mj, 1)):
          f32, f64 = (a[idx] - b[idx]) / (2 * h), (a6[idx] - b6[idx]) / (2 * h)
          smooth = np.abs(f64 - fds[1e-6][idx]) <= 2e-3 * (1 + np.abs(f64))
          is_deriv = np.abs(Jmj @ v - fds[1e-6][idx]) <= 1e-5 * (1 + np.abs(f64))
          err = np.where(smooth & is_deriv, np.abs(f32 - J @ v) / (1 + np.abs(f64)), 0.0)
          if err.size:
            worst[which + "_fd32"] = max(worst[which + "_fd32"], float(err.max()))
            if err.max() > 2e-2:
              i = int(err.argmax())
              fails.append({"kind": which + "_J_fd32", "xml": xml, "qpos": d.qpos.tolist(), "dir": v.tolist(), "index": i, "J_v": float((J @ v)[i]), "fd32": float(f32[i])})
    res.nontrivial(("len", xml))
  res.sample({"kind": "oracle ten_J/actuator_moment vs FD of lengths", **{k: v for k, v in worst.items()}})
  res.extra["oracle_lengths"] = {**worst, "trntypes_seen": sorted(trn_seen), "wrap_types_seen": sorted(wrap_seen), "nonsmooth_rows_skipped": skipped, "tendons_with_engaged_wrapping": wrap_active,
                                 "trntypes_fd_tested": sorted(fd_trn), "rows_where_mujoco_moment_is_not_a_length_derivative": not_deriv}
  return fails


def _cap_bits():
  from mujoco_warp._src.types import OverflowType as O

  return int(O.NEFC | O.NJMAX_NNZ | O.BROADPHASE | O.NARROWPHASE | O.CCD | O.HFIELD | O.NVMAX | O.EPA_HORIZON), int(O.NJMAX_NNZ)


def _ds_run(xml, qpos, qvel, ctrl, sizes):
  """forward() of one model; rows sorted into a layout-independent order."""
  import mujoco_warp as mjw

  mujoco = _mj()
  m = mujoco.MjModel.from_xml_string(xml)
  d = mujoco.MjData(m)
  d.qpos[:], d.qvel[:] = qpos, qvel
  if m.nu:
    d.ctrl[:] = ctrl
  mm, dd = mjw.put_model(m), mjw.put_data(m, d, nworld=1, **sizes)
  mjw.forward(mm, dd)
  cap, _ = _cap_bits()
  out = dict(overflow=int(dd.overflow.numpy()[0]) & cap, sparse=bool(mm.is_sparse), njmax_nnz=int(dd.njmax_nnz), njmax=int(dd.njmax),
             nefc=int(dd.nefc.numpy()[0]), qacc=dd.qacc.numpy()[0].astype(np.float64),
             n_limited_slide_hinge=int((m.jnt_limited.astype(bool) & np.isin(m.jnt_type, (2, 3))).sum()))  # fmt: skip
  from mujoco_warp._src.types import OverflowType as O

  # forward() alone does not run the end-of-step kernel that flags these two: same conditions, evaluated here
  if out["nefc"] > out["njmax"]:
    out["overflow"] |= int(O.NEFC)
  if int(dd.nacon.numpy()[0]) > int(dd.naconmax) or int(dd.ncollision.numpy()[0]) > int(dd.naconmax):
    out["overflow"] |= int(O.NARROWPHASE)
  if out["overflow"] & int(O.NEFC):
    return out  # the rows beyond njmax do not exist
  nefc = out["nefc"]
  J = dense_efc_J(m, mm, dd, 0)
  typ = dd.efc.type.numpy()[0][:nefc]
  key = np.lexsort(np.round(np.concatenate([J, typ[:, None], dd.efc.pos.numpy()[0][:nefc, None]], axis=1), 4).T[::-1]) if nefc else np.arange(0)
  out.update(J=J[key], vel=dd.efc.vel.numpy()[0][:nefc][key], types={int(t) for t in typ},
             nnz=int(dd.efc.J_rownnz.numpy()[0][:nefc].sum()) if mm.is_sparse else None)  # fmt: skip
  return out


def _ds_compare(res, kind, xml_d, xml_s, qpos, qvel, ctrl, sizes, stats, nnz_needed=None):
  """None = agree or not comparable (a capacity overflow was FLAGGED by the API: results are declared invalid, C16's matter);
  with default capacities a flagged njmax_nnz overflow is still reported when the rows would have fitted had
  _default_njmax_nnz counted the limited slide/hinge joints as its contract says (recorded finding)."""
  a, b = _ds_run(xml_d, qpos, qvel, ctrl, sizes), _ds_run(xml_s, qpos, qvel, ctrl, sizes)
  cap, nnz_bit = _cap_bits()
  base = {"kind": kind, "xml": xml_d, "xml_sparse": xml_s, "qpos": list(map(float, qpos)), "qvel": list(map(float, qvel)), "ctrl": list(map(float, ctrl)), "sizes": sizes,
          "njmax_nnz_sparse": b["njmax_nnz"], "njmax": b["njmax"], "overflow_dense": a["overflow"], "overflow_sparse": b["overflow"]}  # fmt: skip
  if a["sparse"] or not b["sparse"]:
    return {**base, "what": "jacobian option did not select the representation"}
  if a["overflow"] or (b["overflow"] & ~nnz_bit):
    stats["skipped_flagged_overflow"] += 1
    return None
  if b["overflow"] & nnz_bit:
    if not (kind == "dense_sparse_default" and nnz_needed is not None and nnz_needed <= b["njmax_nnz"] + b["n_limited_slide_hinge"]):
      stats["skipped_flagged_overflow"] += 1
      return None
    base["nnz_needed"] = nnz_needed
    base["n_limited_slide_hinge_uncounted"] = b["n_limited_slide_hinge"]
  res.count()
  res.nontrivial(("ds", kind, xml_d))
  stats["rows"] += a["nefc"]
  stats["types"] |= a["types"]
  if a["nefc"] != b["nefc"]:
    return {**base, "what": f"nefc {a['nefc']} vs {b['nefc']}"}
  eJ = float(np.abs(a["J"] - b["J"]).max()) if a["nefc"] else 0.0
  ev = float(np.abs(a["vel"] - b["vel"]).max()) if a["nefc"] else 0.0
  eq = float(np.abs(a["qacc"] - b["qacc"]).max()) / (1 + float(np.abs(a["qacc"]).max()))
  stats["worst_q"], stats["worst_J"] = max(stats["worst_q"], eq), max(stats["worst_J"], eJ, ev)
  stats["last_sparse_nnz"] = b.get("nnz")
  # J rows are the same float32 expressions in both layouts (1e-5 abs); qacc goes through an iterative
  # float32 solver with different summation order: 2e-3 relative to (1+|qacc|_inf)
  if eJ > 1e-5 or ev > 1e-4 or eq > 2e-3:
    return {**base, "J_err": eJ, "vel_err": ev, "qacc_rel_err": eq, "qacc_dense": a["qacc"].tolist(), "qacc_sparse": b["qacc"].tolist()}
  return None


def limited_joints_xml(jac, n, kinds):
  """n sibling bodies, each with one limited hinge/slide joint; no contacts, no other constraints."""
  s = f'<mujoco><option jacobian="{jac}" tolerance="1e-10" iterations="200"/><worldbody>'
  for i in range(n):
    s += (f'<body pos="{0.3 * i} 0 0"><joint name="j{i}" type="{kinds[i]}" axis="0 1 0" limited="true" range="-0.1 0.1"/>'
          '<geom size=".05" pos="0 0 -.2" contype="0" conaffinity="0"/></body>')  # fmt: skip
  return s + "</worldbody></mujoco>"


def oracle_dense_sparse(res, nmodels):
  """(iv) jacobian="dense" and "sparse" give the same constraint rows and the same qacc: random rich models with
  ample explicit capacities, the same models and a limited-joints-only family with the DEFAULT capacities of put_data."""
  import models

  mujoco = _mj()
  rng = np.random.default_rng(vlib.seed() + 2240)
  fails = []
  stats = {"rows": 0, "types": set(), "worst_q": 0.0, "worst_J": 0.0, "skipped_flagged_overflow": 0, "last_sparse_nnz": None}
  opt = 'tolerance="1e-10" iterations="200" ls_iterations="50"'
  for k in range(nmodels):
    seed_state = int(rng.integers(1 << 30))
    cone = ["pyramidal", "elliptic"][k % 2]
    contacts = k % 4 != 3
    xml_d, _ = rich_xml(np.random.default_rng(seed_state), jac="dense", cone=cone, contacts=contacts, extra_option=opt)
    xml_s, _ = rich_xml(np.random.default_rng(seed_state), jac="sparse", cone=cone, contacts=contacts, extra_option=opt)
    m = mujoco.MjModel.from_xml_string(xml_d)
    sub = np.random.default_rng(seed_state + 1)
    d0 = _state(sub, m, vel=0.5)
    for j in range(m.njnt):
      if m.jnt_type[j] == 0 and contacts:
        d0.qpos[m.jnt_qposadr[j] + 2] = np.float32(sub.uniform(0.0, 0.15))
      if m.jnt_limited[j] and m.jnt_type[j] in (2, 3) and sub.random() < 0.6:
        d0.qpos[m.jnt_qposadr[j]] = np.float32(m.jnt_range[j][int(sub.integers(2))] + sub.normal(0, 0.2))
    needed = None
    for kind, sizes in (("dense_sparse", dict(njmax=300, nconmax=150, njmax_nnz=300 * max(m.nv, 1))), ("dense_sparse_default", {})):
      try:
        stats["last_sparse_nnz"] = None
        f = _ds_compare(res, kind, xml_d, xml_s, d0.qpos.copy(), d0.qvel.copy(), d0.ctrl.copy(), sizes, stats, nnz_needed=needed)
        if kind == "dense_sparse":
          needed = stats["last_sparse_nnz"]  # non-zeros the rows of this state need (from the ample run)
      except ValueError as e:  # put_data refusing its own default capacity for an accepted model
        f = {"kind": kind, "xml": xml_d, "xml_sparse": xml_s, "qpos": d0.qpos.tolist(), "qvel": d0.qvel.tolist(), "ctrl": d0.ctrl.tolist(), "sizes": sizes,
             "what": f"{type(e).__name__}: {e}"}  # fmt: skip
      if f:
        fails.append(f)
  # regression case of the finding fixed by /repo eb1673a (key C22:dense-vs-sparse:default-njmax_nnz-drops-rows):
  # two limited hinges, qpos (0.5, 0.5), default capacities -- dense qacc (-1246.78, -1246.78), sparse was (-1246.78, -22.94)
  f = _ds_compare(res, "dense_sparse_default", limited_joints_xml("dense", 2, ["hinge", "hinge"]), limited_joints_xml("sparse", 2, ["hinge", "hinge"]),
                  np.array([0.5, 0.5], dtype=np.float32), np.zeros(2), np.zeros(0), {}, stats, nnz_needed=2)  # fmt: skip
  if f:
    fails.append(f)
  # limited slide/hinge joints only, default capacities: n rows of one non-zero each are needed
  for n in (1, 2, 5)[: 3 if nmodels >= 4 else 2]:
    kinds = [str(rng.choice(["hinge", "slide"])) for _ in range(n)]
    qpos = rng.choice([-0.5, 0.5], n).astype(np.float32)
    f = _ds_compare(res, "dense_sparse_default", limited_joints_xml("dense", n, kinds), limited_joints_xml("sparse", n, kinds), qpos, np.zeros(n), np.zeros(0), {}, stats, nnz_needed=n)
    if f:
      fails.append(f)
  res.extra["oracle_dense_sparse"] = {"worst_qacc_rel": stats["worst_q"], "worst_row_abs": stats["worst_J"], "rows_compared": stats["rows"], "row_types": sorted(stats["types"]),
                                      "pairs_skipped_because_api_flagged_capacity_overflow": stats["skipped_flagged_overflow"]}
  return fails


KEYS = {
  "efc": ("C22:efc:J-qvel-ne-vel", "constraint row velocity differs from J.qvel"),
  "jac": ("C22:jac:mismatch", "mjw.jac disagrees with mj_jac / finite differences of the point position"),
  "length": ("C22:length:mjw-vs-mujoco", "ten_length / actuator_length differ from MuJoCo"),
  "ten_J_mj": ("C22:ten_J:differs-from-mujoco", "ten_J differs from MuJoCo's ten_J"),
  "act_J_mj": ("C22:actuator_moment:differs-from-mujoco", "actuator_moment differs from MuJoCo's actuator_moment"),
  "ten_J": ("C22:ten_J:not-derivative-of-length", "ten_J.v differs from the finite difference of ten_length"),
  "act_J": ("C22:actuator_moment:not-derivative-of-length", "actuator_moment.v differs from the finite difference of actuator_length"),
  "ten_J_fd32": ("C22:ten_J:not-derivative-of-own-length", "ten_J.v differs from the finite difference of MJWarp's ten_length"),
  "act_J_fd32": ("C22:actuator_moment:not-derivative-of-own-length", "actuator_moment.v differs from the finite difference of MJWarp's actuator_length"),
  "dense_sparse": ("C22:dense-vs-sparse:differ", "dense and sparse Jacobian options give different rows or qacc"),
  "dense_sparse_default": ("C22:dense-vs-sparse:default-njmax_nnz-drops-rows", "with put_data's default capacities the sparse model loses constraint rows (default njmax_nnz too small): qacc differs from the dense model"),
}


def run(res):
  quick = res.tier == "quick"
  res.rule = ("kernel validation: real launches of _actuator_velocity/_tendon_velocity/jac captured on random models; correspondence cases: one per "
              "(model, row/branch) with distinct random models; oracle: distinct random models x rows/points/directions")  # fmt: skip
  import time

  tm, t0 = {}, time.time()

  def lap(name):
    nonlocal t0
    tm[name] = round(time.time() - t0, 1)
    t0 = time.time()

  ok, trs, failing = propkit.prove(res, PROPS, gen_names=["kforward", "T_support", "kjac"], required_funcs=FUNCS)
  lap("prove")
  tied = []
  try:
    kbad = kvalidate(res, trs, 3 if quick else 12)
  except Exception as e:  # harness failure = obligation failure, never silent
    kbad = [{"error": f"{type(e).__name__}: {e}"}]
  res.obligation("kernel validation: translated _actuator_velocity, _tendon_velocity, jac kernels agree with the real launches", not kbad, json.dumps(kbad)[:600])
  tied += kbad
  lap("kvalidate")
  try:
    tbad = corr_tree(res, 8 if quick else 60)
  except Exception as e:
    tbad = [{"error": f"{type(e).__name__}: {e}"}]
  res.obligation("correspondence: body_isdofancestor (io.py), wf checks, cvel (_comvel_branch) vs Model/Jac.v", not tbad, json.dumps(tbad)[:600])
  tied += tbad
  lap("corr_tree")
  try:
    rbad = corr_rows(res, 6 if quick else 40)
  except Exception as e:
    rbad = [{"error": f"{type(e).__name__}: {e}"}]
  res.obligation("correspondence: _equality_joint/_friction_dof/_limit_slide_hinge/_friction_tendon rows vs Model/Jac.v", not rbad, json.dumps(rbad)[:600])
  tied += rbad
  lap("corr_rows")

  fails = []
  fails += oracle_efc(res, 12 if quick else 120)
  lap("oracle_efc")
  fails += oracle_jac(res, 6 if quick else 60, 3 if quick else 6)
  lap("oracle_jac")
  fails += oracle_lengths(res, 8 if quick else 80)
  lap("oracle_lengths")
  fails += oracle_dense_sparse(res, 6 if quick else 60)
  lap("oracle_dense_sparse")
  res.extra["timing_s"] = tm
  per_key = {}
  for f in fails:
    key, what = KEYS[f["kind"]]
    if per_key.setdefault(key, 0) < 2:
      res.violation(key, what + ": " + ", ".join(f"{k}={v}" for k, v in f.items() if k not in ("xml", "xml_sparse", "qpos", "qvel", "ctrl", "dir") and not isinstance(v, list))[:300], f)
    per_key[key] += 1
  recorded = {k["key"] for k in vlib.load_known().get("findings", []) if k.get("property") == "C22"}
  fresh = [f for f in fails if KEYS[f["kind"]][0] not in recorded]  # failing inputs not explained by a recorded finding
  res.obligation("oracle: efc.J@qvel=efc.vel; jac vs mj_jac/FD; ten_J, actuator_moment vs mujoco and FD of lengths; dense vs sparse (no failing input outside the recorded findings)",
                 not fresh, json.dumps(per_key))  # fmt: skip
  if tied and not fresh:
    res.violation("C22:model-mismatch", "translated kernel or hand model disagrees with the real code (model no longer tied to code)", tied[:3], found_input=False)
  if not ok and not fresh:
    propkit.broken_proof_violation(res, "C22 theorem over regenerated kforward/T_support/kjac", failing)
  res.assumptions += [
    "float32 rounding is not modelled: theorems are over R; oracles use the tolerances stated next to each comparison",
    "well-formedness of the compiled tree arrays (wf_tree, wf_joints) is checked on every generated model by the decidable checker proved sound in Coq, not proved of MuJoCo's compiler",
    "the schedule of _comvel_branch (several branches rewriting a shared ancestor with the same value) is not modelled here: comvel_task is one branch; the correspondence compares every branch with d.cvel",
    "contact, connect, weld, tendon-limit, ball-limit and flex rows: efc.vel = J.qvel is tested (oracle), not proved",
    "jac vs positions, ten_J / actuator_moment vs lengths: tested by finite differences, not proved (kinematics and tendon wrapping are not modelled in C22)",
    "cdof and subtree_com are inputs of the jac_dof theorems (smooth._cdof is not modelled): J.qvel equals the point velocity induced by the SAME cdof through the cvel recursion",
    "MuJoCo semantics kept: actuator_moment of site transmissions without refsite, body (adhesion) transmissions and ball/free joint or rotational site+refsite transmissions is not the derivative of actuator_length in MuJoCo C either; those rows are compared with MuJoCo's moment, the finite-difference test runs where the float64 reference passes it",
  ]


def replay(res, path):
  import mujoco
  import mujoco_warp as mjw

  r = json.load(open(path))["replay"]
  if isinstance(r, list) or "xml" not in r:
    print("replay: no concrete input in this file (proof/correspondence breakage); re-run the check")
    return 1
  kind = r.get("kind")
  if kind in ("dense_sparse", "dense_sparse_default"):
    stats = {"rows": 0, "types": set(), "worst_q": 0.0, "worst_J": 0.0, "skipped_flagged_overflow": 0, "last_sparse_nnz": None}
    needed = r.get("nnz_needed")
    if needed is None and kind == "dense_sparse_default":  # non-zeros the rows of this state need: from a run with ample capacities
      nv = mujoco.MjModel.from_xml_string(r["xml"]).nv
      needed = _ds_run(r["xml_sparse"], np.array(r["qpos"]), np.array(r["qvel"]), np.array(r["ctrl"]), dict(njmax=300, nconmax=150, njmax_nnz=300 * max(nv, 1))).get("nnz")
    f = _ds_compare(res, kind, r["xml"], r["xml_sparse"], np.array(r["qpos"]), np.array(r["qvel"]), np.array(r["ctrl"]), r.get("sizes", {}), stats, nnz_needed=needed)
    print("dense vs sparse:", "no difference" if f is None else {k: v for k, v in f.items() if k not in ("xml", "xml_sparse")})
    return 0 if f is None else 1
  m = mujoco.MjModel.from_xml_string(r["xml"])
  d = mujoco.MjData(m)
  d.qpos[:] = r["qpos"]
  if "qvel" in r:
    d.qvel[:] = r["qvel"]
  if "ctrl" in r and m.nu:
    d.ctrl[:] = r["ctrl"]
  mm, dd = mjw.put_model(m), mjw.put_data(m, d, nworld=2, njmax=300, nconmax=150)
  if kind == "efc":
    mjw.fwd_position(mm, dd)
    mjw.fwd_velocity(mm, dd)
    J = dense_efc_J(m, mm, dd, r["world"])
    qv = dd.qvel.numpy()[r["world"]].astype(np.float64)
    i = r["row"]
    print("row", i, "type", int(dd.efc.type.numpy()[r["world"]][i]), "J.qvel", float(J[i] @ qv), "efc.vel", float(dd.efc.vel.numpy()[r["world"]][i]))
  else:
    mjw.fwd_position(mm, dd)
    mujoco.mj_forward(m, d)
    print("ten_length mjw", dd.ten_length.numpy()[0], "mujoco", d.ten_length)
    print("actuator_length mjw", dd.actuator_length.numpy()[0], "mujoco", d.actuator_length)
    print("recorded:", {k: v for k, v in r.items() if k not in ("xml", "qpos", "qvel", "dir")})
  return 0
