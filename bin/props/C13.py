"""C13 reset_data restores a fresh Data.

Proof:   Props/C13.v over the hand-written executable model Model/Reset.v (make_data initial values,
         the six reset kernels + sleep.update_sleep, reset_data_keyframe).
S tie:   the outputs=[...] of every wp.launch in io.py:reset_data and the (loop bound, guard) of every
         store in reset_nworld / reset_contact are extracted with `ast` and compared with the table the
         model was transcribed from; the set of written fields is compared with State.INTEGRATION.
C tie:   operation sequences on the REAL code (make_data, random state, steps with random ctrl,
         partial/full/None/int masks, nworld 1..3, na>nu and na<=nu, contacts, mocap, delays, sleep)
         are replayed through the model inside Coq (vm_compute) and compared bit for bit.
Oracle:  after reset on the real code, selected worlds vs a freshly made Data (every public per-world
         field + k further steps of both), unselected worlds vs their pre-reset values incl. their
         contacts (multisets per world) and vs an un-reset twin after k further steps.
"""

from __future__ import annotations

import ast
import dataclasses
import json
import os
import re

import numpy as np

import propkit
import vlib

MANIFEST = {
  "text": "proof: theorems about the hand-written executable model Model/Reset.v of io.py make_data/reset_data/reset_data_keyframe: the full statement reset_eq_fresh (a selected world and its contacts equal those of a fresh Data: every field reset_data writes incl. act with na>nu, history, awake counters, body_awake, cvel, cdof_dot) is PROVED; the full statement reset_frame is REFUTED on the faithful model (contacts under a partial mask, two vm_compute witnesses rebuilt and replayed on the real code on every run) and proved _partial for what does hold (unselected worlds' fields untouched, their contacts kept when world 0 is not selected and w>0, or when nothing is cleared). Only tested: that the model equals the real kernels (bit-exact correspondence on generated operation sequences, and an ast comparison of launch outputs / loop bounds), and everything about the trajectory after a reset (oracle: selected worlds vs a fresh Data and unselected worlds vs an un-reset twin after k further steps, incl. histories that end in NaN) - this is where the (now repaired) stale d.cvel/d.cdof_dot defect was found; the directed replays of the five repaired defects stay in the check as regression cases",
  "note": "trusted: Coq kernel + vm_compute; hand-written model Model/Reset.v (tied to io.py by the S extraction and by the correspondence cases on every run); float32 values are carried as bit patterns (the reset kernels only copy/zero); Warp CPU thread order; mujoco binary for compiling models",
  "technique": "Rocq proof over a hand-written executable model + static extraction (ast) + differential correspondence and trajectory oracle",
  "engine": "coq",
}

PROPS = "Props/C13.v"
IO_PY = os.path.join(vlib.REPO, "mujoco_warp", "_src", "io.py")
TYPES_PY = os.path.join(vlib.REPO, "mujoco_warp", "_src", "types.py")

# fields of Data modelled per world, in Model/Reset.v's World record order
STATE_FIELDS = ["time", "qpos", "qvel", "act", "history", "qacc_warmstart", "ctrl", "qfrc_applied", "xfrc_applied",
                "eq_active", "mocap_pos", "mocap_quat", "userdata"]  # fmt: skip
SCALAR_DERIVED = ["solver_niter", "ne", "nf", "nl", "nefc", "ntree_awake", "nbody_awake", "nv_awake"]
LIST_DERIVED = ["energy", "qacc", "act_dot", "sensordata", "M", "tree_asleep", "tree_awake", "body_awake",
                "body_awake_ind", "dof_awake_ind", "cvel", "cdof_dot", "efc_J"]  # fmt: skip
WORLD_FIELDS = STATE_FIELDS + SCALAR_DERIVED + LIST_DERIVED + ["overflow"]
NESTED = {"xfrc_applied", "mocap_pos", "mocap_quat", "cvel", "cdof_dot", "efc_J"}
FIELD_PATH = {"efc_J": "efc.J"}  # World field -> Data attribute path
NESTED_W = {"xfrc_applied": 6, "mocap_pos": 3, "mocap_quat": 4, "cvel": 6, "cdof_dot": 6}
CONTACT_FLOATS = ["dist", "pos", "frame", "includemargin", "friction", "solref", "solreffriction", "solimp", "adhesion"]
CONTACT_FEV = ["flex", "elem", "vert"]
CONTACT_ALL = CONTACT_FLOATS + ["dim", "geom"] + CONTACT_FEV + ["efc_address", "worldid", "type", "geomcollisionid"]

# ---------------------------------------------------------------------------------------------
# S: what the model was transcribed from.  kernel -> outputs of its launch, and for the two kernels
# with loops the (array, enclosing range bound, enclosing guards) of every store.
EXPECTED_LAUNCHES = {
  "reset_xfrc_applied": ["xfrc_applied", "cvel"],
  "reset_M": ["M"],
  "reset_efc_J": ["efc.J"],
  "reset_mocap": ["mocap_pos", "mocap_quat"],
  "reset_contact": ["contact." + f for f in ["dist", "pos", "frame", "includemargin", "friction", "solref", "solreffriction",
                                             "solimp", "dim", "geom", "flex", "elem", "vert", "efc_address", "worldid", "type",
                                             "geomcollisionid", "adhesion"]],  # fmt: skip
  "reset_sleep": ["tree_asleep", "tree_awake", "body_awake", "body_awake_ind", "dof_awake_ind"],
  "reset_nworld": ["solver_niter", "ne", "nf", "nl", "nefc", "ntree_awake", "nbody_awake", "nv_awake", "time", "energy",
                   "qpos", "qvel", "act", "qacc_warmstart", "ctrl", "qfrc_applied", "eq_active", "qacc", "cdof_dot", "act_dot",
                   "userdata", "sensordata", "history", "nacon", "overflow"],  # fmt: skip
}
EXPECTED_LAUNCH_ORDER = ["reset_xfrc_applied", "reset_M", "reset_efc_J", "reset_mocap", "reset_contact", "reset_sleep", "reset_nworld"]
EXPECTED_STORES = {
  "reset_nworld": {
    "solver_niter_out": ("", ""), "nacon_out": ("", "worldid == 0"), "ne_out": ("", ""), "nf_out": ("", ""),
    "nl_out": ("", ""), "nefc_out": ("", ""), "time_out": ("", ""), "energy_out": ("", ""),
    "ntree_awake_out": ("", ""), "nbody_awake_out": ("", ""), "nv_awake_out": ("", ""),
    "qpos_out": ("nq", ""), "qvel_out": ("nq", "i < nv"), "qacc_warmstart_out": ("nq", "i < nv"),
    "qfrc_applied_out": ("nq", "i < nv"), "qacc_out": ("nq", "i < nv"),
    "cdof_dot_out": ("nq", "i < nv"), "history_out": ("nhistory", ""),
    "ctrl_out": ("nu", ""), "act_out": ("na", ""), "act_dot_out": ("na", ""),
    "eq_active_out": ("neq", ""), "sensordata_out": ("nsensordata", ""), "userdata_out": ("nuserdata", ""),
    "overflow_out": ("", ""),
  },
  "reset_sleep": {
    "tree_asleep_out": ("", "elemid < ntree"), "tree_awake_out": ("", "elemid < ntree"),
    "body_awake_out": ("", "elemid < nbody"), "body_awake_ind_out": ("", "elemid < nbody"),
    "dof_awake_ind_out": ("", "elemid < nv"),
  },
  "reset_xfrc_applied": {"xfrc_applied_out": ("", ""), "cvel_out": ("", "")},
  "reset_efc_J": {"efc_J_out": ("", "")},
}  # fmt: skip
EXPECTED_SLEEP_TESTS = ["elemid < ntree", "elemid < nbody", "body_treeid[elemid] < 0", "body_mocapid[body_rootid[elemid]] >= 0", "elemid < nv"]
EXPECTED_CONTACT_GUARDS = ["conid >= nacon_in[0]", "worldid >= 0", "not reset_in[worldid]"]


def _attr_chain(node):
  parts = []
  while isinstance(node, ast.Attribute):
    parts.append(node.attr)
    node = node.value
  if isinstance(node, ast.Name):
    parts.append(node.id)
  return list(reversed(parts))


def s_extract(func_name="reset_data"):
  """ast facts about io.py:<func_name>: launches (kernel, outputs as Data field paths), stores per kernel."""
  with open(IO_PY) as fh:
    tree = ast.parse(fh.read())
  fn = next(n for n in tree.body if isinstance(n, ast.FunctionDef) and n.name == func_name)
  launches = []
  for node in ast.walk(fn):
    if isinstance(node, ast.Call) and _attr_chain(node.func) == ["wp", "launch"]:
      kern = node.args[0].id if node.args and isinstance(node.args[0], ast.Name) else ast.unparse(node.args[0])
      outs = None
      for kw in node.keywords:
        if kw.arg == "outputs":
          outs = kw.value
      if outs is None and len(node.args) >= 4:
        outs = node.args[3]
      fields = []
      for e in outs.elts if outs is not None else []:
        ch = _attr_chain(e)
        fields.append(".".join(ch[1:]) if ch and ch[0] == "d" else ast.unparse(e))
      launches.append((node.lineno, kern, fields))
  launches.sort()
  stores = {}
  guards_contact = []
  sleep_tests = []
  calls_update_sleep = any(isinstance(n, ast.Call) and _attr_chain(n.func)[-1:] == ["update_sleep"] for n in ast.walk(fn))
  for k in fn.body:
    if not isinstance(k, ast.FunctionDef):
      continue
    st = {}

    def visit(stmts, bound, guards):
      for s in stmts:
        if isinstance(s, ast.For):
          b = ast.unparse(s.iter.args[-1]) if isinstance(s.iter, ast.Call) and getattr(s.iter.func, "id", "") == "range" else ast.unparse(s.iter)
          visit(s.body, b, guards)
        elif isinstance(s, ast.If):
          t = ast.unparse(s.test)
          if t.startswith("wp.static("):
            visit(s.body, bound, guards)  # compiled in or out as a whole (reset is not None)
          else:
            if k.name == "reset_contact":
              guards_contact.append(t)
            if k.name == "reset_sleep":
              sleep_tests.append(t)
            visit(s.body, bound, guards + [t])
            visit(s.orelse, bound, guards + ["not (" + t + ")"])
        elif isinstance(s, ast.Assign):
          for tg in s.targets:
            if isinstance(tg, ast.Subscript):
              base = tg.value
              while isinstance(base, ast.Subscript):
                base = base.value
              if isinstance(base, ast.Name) and base.id.endswith("_out"):
                g = [x for x in guards if "reset_in" not in x and "body_treeid" not in x and "body_mocapid" not in x]
                st.setdefault(base.id, set()).add((bound, " and ".join(g)))

    visit(k.body, "", [])
    stores[k.name] = st
  return {"launches": launches, "stores": stores, "contact_guards": guards_contact, "sleep_tests": sleep_tests, "update_sleep": calls_update_sleep}


def s_integration_fields():
  """Data fields making up State.INTEGRATION (types.py), via the enum bits and the Data field list."""
  with open(TYPES_PY) as fh:
    tree = ast.parse(fh.read())
  state = next(n for n in tree.body if isinstance(n, ast.ClassDef) and n.name == "State")
  data = next(n for n in tree.body if isinstance(n, ast.ClassDef) and n.name == "Data")
  data_fields = [n.target.id for n in data.body if isinstance(n, ast.AnnAssign)]
  names = [n.targets[0].id for n in state.body if isinstance(n, ast.Assign)]
  from mujoco_warp._src import types as T

  integ = int(T.State.INTEGRATION)
  out = {}
  for nm in names:
    v = int(getattr(T.State, nm))
    if v <= 0 or v & (v - 1) or not (v & integ) or nm == "NSTATE":
      continue
    low = nm.lower()
    cands = [f for f in data_fields if f == low or f.endswith("_" + low)]
    out[nm] = cands[0] if cands else None
  return out


def s_check(res):
  """Static obligations. Returns (model_tied, missing_integration_fields)."""
  ex = s_extract()
  got = {k: f for _, k, f in ex["launches"]}
  order = [k for _, k, _ in ex["launches"]]
  diffs = []
  if order != EXPECTED_LAUNCH_ORDER:
    diffs.append(f"launch order {order}")
  for k, f in EXPECTED_LAUNCHES.items():
    if got.get(k) != f:
      diffs.append(f"outputs of {k}: {got.get(k)}")
  for k, tab in EXPECTED_STORES.items():
    st = {a: sorted(v) for a, v in ex["stores"].get(k, {}).items()}
    exp = {a: [v] for a, v in tab.items()}
    if st != exp:
      for a in sorted(set(st) | set(exp)):
        if st.get(a) != exp.get(a):
          diffs.append(f"{k}.{a}: stores {st.get(a)} expected {exp.get(a)}")
  if ex["contact_guards"][:3] != EXPECTED_CONTACT_GUARDS:
    diffs.append(f"reset_contact guards {ex['contact_guards'][:3]}")
  if [t for t in ex["sleep_tests"] if "reset_in" not in t] != EXPECTED_SLEEP_TESTS:
    diffs.append(f"reset_sleep tests {ex['sleep_tests']}")
  if not ex["update_sleep"]:
    diffs.append("reset_data no longer calls sleep.update_sleep")
  res.obligation("S: launches, outputs, loop bounds and guards of io.py:reset_data equal the table Model/Reset.v was transcribed from", not diffs, "; ".join(diffs)[:1500])
  written = set()
  for _, _, f in ex["launches"]:
    written.update(f)
  integ = s_integration_fields()
  missing = sorted(f for f in integ.values() if f is None or f not in written)
  res.obligation(
    "S: every State.INTEGRATION field is written by a reset_data launch",
    not missing,
    f"integration fields {sorted(integ.values(), key=str)}; not written by any launch: {missing}",
  )
  res.extra["s_extract"] = {"launch_outputs": {k: f for _, k, f in ex["launches"]}, "integration_fields": integ, "missing": missing}
  return not diffs, missing


# ---------------------------------------------------------------------------------------------
# real Data / Model  ->  python snapshot  ->  Coq term / flat list
def bits(a):
  a = np.asarray(a)
  if a.dtype == np.bool_:
    return a.astype(np.int64)
  if a.dtype.kind == "f":
    return np.ascontiguousarray(a, dtype=np.float32).view(np.int32).astype(np.int64)
  return a.astype(np.int64)


def data_attr(d, f):
  o = d
  for part in FIELD_PATH.get(f, f).split("."):
    o = getattr(o, part)
  return o


def snapshot(d):
  """Modelled part of a real Data as nested python ints."""
  nw = d.nworld
  arr = {f: bits(data_attr(d, f).numpy()) for f in WORLD_FIELDS}
  worlds = []
  for w in range(nw):
    x = {}
    for f in WORLD_FIELDS:
      a = arr[f][w]
      if f in NESTED:
        x[f] = [list(map(int, r)) for r in a.reshape(a.shape[0], NESTED_W.get(f, a.shape[-1]))]
      elif a.ndim == 0:
        x[f] = int(a)
      else:
        x[f] = list(map(int, a.reshape(-1)))
    worlds.append(x)
  c = d.contact
  n = d.naconmax
  flt = np.concatenate([bits(getattr(c, f).numpy()).reshape(n, -1) for f in CONTACT_FLOATS], axis=1) if n else np.zeros((0, 29), np.int64)
  has_fev = c.flex.shape[0] > 0
  fev = np.concatenate([bits(getattr(c, f).numpy()).reshape(n, -1) for f in CONTACT_FEV], axis=1) if has_fev else np.zeros((n, 0), np.int64)
  wid, geom, dim, typ, gc, efc = (bits(getattr(c, f).numpy()) for f in ["worldid", "geom", "dim", "type", "geomcollisionid", "efc_address"])
  slots = []
  for i in range(n):
    slots.append({"worldid": int(wid[i]), "geom": list(map(int, geom[i])), "dim": int(dim[i]), "type": int(typ[i]), "gcid": int(gc[i]),
                  "efc": list(map(int, efc[i])), "flt": list(map(int, flt[i])), "fev": list(map(int, fev[i]))})  # fmt: skip
  return {"worlds": worlds, "slots": slots, "nacon": int(d.nacon.numpy()[0])}


def zs(x):
  x = int(x)
  return f"({x})%Z"


def zl(xs):
  return vlib.zlist(xs)


def zll(xss):
  return "[" + "; ".join(zl(r) for r in xss) + "]"


def zlll(xsss):
  return "[" + "; ".join(zll(r) for r in xsss) + "]"


def world_term(x):
  parts = []
  for f in WORLD_FIELDS:
    v = x[f]
    parts.append(zll(v) if f in NESTED else (zl(v) if isinstance(v, list) else zs(v)))
  return "(Build_World " + " ".join(parts) + ")"


def slot_term(s):
  return f"(Build_Slot {zs(s['worldid'])} {zl(s['geom'])} {zs(s['dim'])} {zs(s['type'])} {zs(s['gcid'])} {zl(s['efc'])} {zl(s['flt'])} {zl(s['fev'])})"


def data_term(snap):
  return "(Build_Data [" + "; ".join(world_term(x) for x in snap["worlds"]) + "] [" + "; ".join(slot_term(s) for s in snap["slots"]) + "] " + zs(snap["nacon"]) + ")"


def flat_world(x):
  out = []
  for f in WORLD_FIELDS:
    v = x[f]
    if f in NESTED:
      for r in v:
        out.extend(r)
    elif isinstance(v, list):
      out.extend(v)
    else:
      out.append(v)
  return out


def flat_data(snap):
  out = []
  for x in snap["worlds"]:
    out.extend(flat_world(x))
  for s in snap["slots"]:
    out.extend([s["worldid"]] + s["geom"] + [s["dim"], s["type"], s["gcid"]] + s["efc"] + s["flt"] + s["fev"])
  out.append(snap["nacon"])
  return out


def mmodel_info(mjm, m, d):
  """Static model data read by make_data (host mjm) and by the reset kernels (device m)."""
  import mujoco

  from mujoco_warp._src import types as T

  g = lambda a: bits(a.numpy())
  info = {
    "nq": m.nq, "nv": m.nv, "nu": m.nu, "na": m.na, "nbody": m.nbody, "ntree": m.ntree, "neq": m.neq,
    "nuserdata": m.nuserdata, "nsensordata": m.nsensordata, "nmocap": m.nmocap, "nhistory": int(mjm.nhistory),
    "nM": int(d.M.shape[1]), "nJr": int(d.efc.J.shape[1]), "nJc": int(d.efc.J.shape[2]), "nefcaddress": int(d.contact.efc_address.shape[1]),
    "nfev": 6 if d.contact.flex.shape[0] > 0 else 0, "minawake": int(T.MJ_MINAWAKE),
    "sleep_enabled": bool(m.opt.enableflags & T.EnableBit.SLEEP),
    "qpos0": g(m.qpos0).reshape(-1, m.nq).tolist(), "eq_active0": g(m.eq_active0).reshape(-1).tolist(),
    "body_mocapid": g(m.body_mocapid).tolist(), "body_treeid": g(m.body_treeid).tolist(),
    "body_rootid": g(m.body_rootid).tolist(), "dof_bodyid": g(m.dof_bodyid).tolist(),
    "body_pos": g(m.body_pos).reshape(-1, m.nbody, 3).tolist(), "body_quat": g(m.body_quat).reshape(-1, m.nbody, 4).tolist(),
    "history0": g(m.history0).reshape(-1).tolist() if int(mjm.nhistory) else [],
    "h_history0": bits(mujoco.MjData(mjm).history.astype(np.float32)).tolist(),
    "h_qpos0": bits(mjm.qpos0.astype(np.float32)).tolist(), "h_eq_active0": bits(mjm.eq_active0.astype(bool)).tolist(),
    "h_body_pos": bits(mjm.body_pos.astype(np.float32)).tolist(), "h_body_quat": bits(mjm.body_quat.astype(np.float32)).tolist(),
    "nkey": m.nkey, "key_time": g(m.key_time).reshape(-1).tolist(),
    "key_qpos": g(m.key_qpos).reshape(m.nkey, m.nq).tolist(), "key_qvel": g(m.key_qvel).reshape(m.nkey, m.nv).tolist(),
    "key_act": g(m.key_act).reshape(m.nkey, m.na).tolist(), "key_ctrl": g(m.key_ctrl).reshape(m.nkey, m.nu).tolist(),
    "key_mpos": g(m.key_mpos).reshape(m.nkey, m.nmocap, 3).tolist(), "key_mquat": g(m.key_mquat).reshape(m.nkey, m.nmocap, 4).tolist(),
  }  # fmt: skip
  return info


MM_ORDER = ["nq", "nv", "nu", "na", "nbody", "ntree", "neq", "nuserdata", "nsensordata", "nmocap", "nhistory", "nM", "nJr", "nJc",
            "nefcaddress", "nfev", "minawake", "sleep_enabled", "qpos0", "eq_active0", "body_mocapid", "body_treeid",
            "body_rootid", "dof_bodyid", "body_pos", "body_quat", "history0", "h_qpos0", "h_eq_active0", "h_body_pos", "h_body_quat", "h_history0",
            "nkey", "key_time", "key_qpos", "key_qvel", "key_act", "key_ctrl", "key_mpos", "key_mquat"]  # fmt: skip
MM_L2 = {"qpos0", "h_body_pos", "h_body_quat", "key_qpos", "key_qvel", "key_act", "key_ctrl"}
MM_L3 = {"body_pos", "body_quat", "key_mpos", "key_mquat"}


def mmodel_term(info):
  parts = []
  for f in MM_ORDER:
    v = info[f]
    if isinstance(v, bool):
      parts.append("true" if v else "false")
    elif f in MM_L3:
      parts.append(zlll(v))
    elif f in MM_L2:
      parts.append(zll(v))
    elif isinstance(v, list):
      parts.append(zl(v))
    else:
      parts.append(zs(v))
  return "(Build_MModel " + " ".join(parts) + ")"


def mask_term(mask):
  if mask is None:
    return "None"
  return "(Some [" + "; ".join("true" if b else "false" for b in mask) + "])"


# ---------------------------------------------------------------------------------------------
# scenario models
USER_ACT = '<general joint="xj" dyntype="user" actdim="3" gainprm="1"/>'
FILTER_ACT = '<general joint="xj" dyntype="filter" dynprm="0.1" gainprm="1"/>'
MOTOR_ACT = '<motor joint="xj"/>'
DELAY_ACT = '<motor joint="xj2" delay="0.02" nsample="3"/>'


def build_model(rng, kind):
  """Return (xml, tags). kind selects the activation layout; everything else is random."""
  import mujoco

  import models

  if "manyeq" in kind:  # few dofs (nq = 2), several equalities: neq > nq
    xml = '<mujoco><option gravity="0 0 -9.81" /><worldbody></worldbody></mujoco>'
  else:
    nact = int(rng.integers(0, 3))
    o = models.Opts(nbody=(1, 4), plane=True, contacts=True, actuators=nact, mocap=0.5, equality=int(rng.integers(0, 2)),
                    sites=0.3, joint_types=("hinge", "slide", "ball", "free"), spread=0.5)  # fmt: skip
    xml, _ = models.random_model(rng, o)
  extra_wb = '<body name="xb" pos="3 0 1"><joint name="xj" type="slide" axis="0 0 1"/><geom size=".05" contype="0" conaffinity="0"/></body>'
  extra_wb += '<body name="xb2" pos="3 1 1"><joint name="xj2" type="hinge" axis="0 1 0"/><geom size=".05" contype="0" conaffinity="0"/></body>'
  nball = 0 if "manyeq" in kind else int(rng.integers(1, 3))
  for b in range(nball):  # spheres resting on / sunk into the plane: contacts from the first step on
    extra_wb += f'<body pos="{-2 - b} {rng.uniform(-.3, .3):.3f} {rng.uniform(0.07, 0.1):.3f}"><freejoint/><geom type="sphere" size="0.1"/></body>'
  if "mocapchild" in kind:
    extra_wb += '<body mocap="true" pos="5 0 1"><geom type="box" size=".1 .1 .1" contype="0" conaffinity="0"/><body pos="0 0 .3"><geom type="sphere" size=".05" contype="0" conaffinity="0"/></body></body>'
  acts = ""
  if "na>nu" in kind:
    acts += USER_ACT + (FILTER_ACT if rng.random() < 0.5 else "") + (MOTOR_ACT if rng.random() < 0.3 else "")
  elif "na<=nu" in kind:
    acts += FILTER_ACT + (MOTOR_ACT if rng.random() < 0.7 else "")
  if "delay" in kind:
    acts += DELAY_ACT
  sections = f'<size nuserdata="{int(rng.integers(0, 3))}"/>'
  if acts:
    sections += f"<actuator>{acts}</actuator>"
  if "eqc" in kind:
    sections += '<equality><connect body1="xb" body2="xb2" anchor="0 .5 0"/></equality>'
  if "manyeq" in kind:
    tmpl = ['<connect body1="xb" anchor="0 0 {a:.2f}"{act}/>', '<connect body1="xb2" anchor="0 {a:.2f} .1"{act}/>', '<weld body1="xb" body2="xb2"{act}/>',
            '<joint joint1="xj" joint2="xj2" polycoef="0 {a:.2f} 0 0 0"{act}/>', '<connect body1="xb" body2="xb2" anchor="0 .5 {a:.2f}"{act}/>']  # fmt: skip
    neq = int(rng.integers(3, 7))
    sections += "<equality>" + "".join(tmpl[int(rng.integers(len(tmpl)))].format(a=rng.uniform(-0.3, 0.3), act=(' active="false"' if rng.random() < 0.5 else "")) for _ in range(neq)) + "</equality>"
  if "interval" in kind:
    # delay / interval buffers whose period, phase and delay are NOT whole numbers of timesteps, all interpolation orders
    h = float(rng.choice([0.004, 0.003, 0.002]))
    sections += f'<option timestep="{h}"/>'
    off = lambda: float(rng.choice([0.05, 0.013, 0.0071, 0.0093, 0.031])) * float(rng.choice([1, 1, 2]))
    itp = lambda: str(rng.choice(["zoh", "linear", "cubic"]))
    per = off()
    sens = f'<jointpos joint="xj" interval="{per:.4g} {-per * rng.uniform(0.1, 0.9) if rng.random() < 0.5 else 0:.4g}" delay="{off():.4g}" nsample="{int(rng.integers(2, 6))}" interp="{itp()}"/>'
    sens += f'<jointvel joint="xj2" interval="{off():.4g}" nsample="{int(rng.integers(1, 4))}"/>'
    sens += f'<jointpos joint="xj2" delay="{off():.4g}" nsample="{int(rng.integers(2, 6))}" interp="{itp()}"/>'
    sections += f'<actuator><motor joint="xj2" delay="{off():.4g}" nsample="{int(rng.integers(2, 6))}" interp="{itp()}"/></actuator>'
    sections += f"<sensor>{sens}</sensor>"
  else:
    sections += '<sensor><jointpos joint="xj"/><jointvel joint="xj2"/></sensor>'
  if "sleep" in kind:
    xml = xml.replace("<option ", '<option><flag sleep="enable"/></option><option ', 1)
  xml = xml.replace("</worldbody>", extra_wb + "</worldbody>", 1).replace("</mujoco>", sections + "</mujoco>", 1)
  mjm = mujoco.MjModel.from_xml_string(xml)
  nkey = int(rng.integers(1, 4)) if "key" in kind else 0
  if nkey:
    ks = "<keyframe>"
    for k in range(nkey):
      f = lambda n, s=1.0: " ".join(f"{v:.4g}" for v in rng.normal(0, s, n))
      ks += f'<key time="{rng.uniform(0, 3):.3f}" qpos="{f(mjm.nq)}" qvel="{f(mjm.nv)}"'
      if mjm.na:
        ks += f' act="{f(mjm.na)}"'
      if mjm.nu:
        ks += f' ctrl="{f(mjm.nu)}"'
      if mjm.nmocap:
        ks += f' mpos="{f(3 * mjm.nmocap)}" mquat="{f(4 * mjm.nmocap)}"'
      ks += "/>"
    ks += "</keyframe>"
    xml = xml.replace("</mujoco>", ks + "</mujoco>", 1)
  return xml


KINDS = ["na>nu key", "na<=nu key eqc", "na>nu delay", "delay key", "na<=nu mocapchild", "na>nu sleep key", "plain eqc", "na<=nu sleep",
         "manyeq na<=nu key", "interval na>nu key", "manyeq interval"]


def put_random_state(rng, mjm, d, scale=1.0, flip_eq=False):
  """Overwrite the integration state of every world of a real Data with random float32 values."""
  import warp as wp

  nw = d.nworld

  def setf(name, shape, dtype=float, s=scale):
    a = rng.normal(0, s, (nw,) + shape).astype(np.float32)
    wp.copy(getattr(d, name), wp.array(a, dtype=dtype))

  qpos = np.tile(mjm.qpos0.astype(np.float32), (nw, 1)) + rng.normal(0, 0.05 * scale, (nw, mjm.nq)).astype(np.float32)
  wp.copy(d.qpos, wp.array(qpos, dtype=float))
  setf("qvel", (mjm.nv,), s=0.2 * scale)
  if mjm.na:
    setf("act", (mjm.na,))
  if mjm.nu:
    setf("ctrl", (mjm.nu,))
  setf("qfrc_applied", (mjm.nv,), s=0.1 * scale)
  setf("xfrc_applied", (mjm.nbody, 6), dtype=wp.spatial_vector, s=0.1 * scale)
  if mjm.nmocap:
    setf("mocap_pos", (mjm.nmocap, 3), dtype=wp.vec3)
    q = rng.normal(0, 1, (nw, mjm.nmocap, 4))
    q = (q / np.linalg.norm(q, axis=-1, keepdims=True)).astype(np.float32)
    wp.copy(d.mocap_quat, wp.array(q, dtype=wp.quat))
  if mjm.nuserdata:
    setf("userdata", (mjm.nuserdata,))
  if mjm.neq:
    ea = rng.random((nw, mjm.neq)) < 0.5
    if flip_eq:  # world 0: every equality toggled with respect to eq_active0
      ea[0] = ~mjm.eq_active0.astype(bool)
    wp.copy(d.eq_active, wp.array(ea, dtype=bool))
  wp.copy(d.time, wp.array(rng.uniform(0, 5, nw).astype(np.float32), dtype=float))


def set_ctrl(rng, mjm, ds):
  import warp as wp

  if mjm.nu:
    a = rng.normal(0, 1, (ds[0].nworld, mjm.nu)).astype(np.float32)
    for d in ds:
      wp.copy(d.ctrl, wp.array(a, dtype=float))
    return a
  return None


def random_mask(rng, nw, force=None):
  """(python-level mask or None, what is passed to reset_data)."""
  import warp as wp

  r = rng.random() if force is None else force
  if r < 0.15:
    return None, None
  if r < 0.3:
    mask = [True] * nw
  elif r < 0.4:
    mask = [False] * nw
  else:
    mask = [bool(b) for b in rng.random(nw) < 0.5]
  if rng.random() < 0.3:  # integer mask: cast by the wrapper, nonzero = True
    vals = [int(rng.integers(1, 5)) * (1 if rng.random() < 0.7 else -1) if b else 0 for b in mask]
    return mask, wp.array(np.array(vals, dtype=np.int32), dtype=int)
  return mask, wp.array(np.array(mask, dtype=bool), dtype=bool)


# ---------------------------------------------------------------------------------------------
# full-field comparison helpers for the oracle
def uninitialised_fields():
  """Data fields make_data allocates with wp.empty (garbage, never comparable)."""
  with open(IO_PY) as fh:
    src = fh.read()
  names = set(re.findall(r"\bd\.(\w+)\s*=\s*wp\.empty\(", src))
  names |= {"efc.jtdaj_adr", "efc.jtdaj_nrow", "efc.jtdaj_nblock"}
  return names


def all_arrays(d):
  import warp as wp

  out = {}
  for f in dataclasses.fields(d):
    v = getattr(d, f.name)
    if isinstance(v, wp.array):
      out[f.name] = v
    elif dataclasses.is_dataclass(v):
      for g in dataclasses.fields(v):
        w = getattr(v, g.name)
        if isinstance(w, wp.array):
          out[f.name + "." + g.name] = w
  return out


def world_rows(d, skip):
  """{field: int64 bit array with leading dim nworld} for every per-world public array."""
  out = {}
  for k, a in all_arrays(d).items():
    if k in skip or k.startswith("contact."):
      continue
    if a.ndim >= 1 and a.shape[0] == d.nworld and k not in ("nacon", "ncollision"):
      out[k] = bits(a.numpy())
  return out


def contact_multiset(d, snap=None):
  """per world: sorted list of contact tuples (slots below nacon)."""
  s = snap or snapshot(d)
  per = {}
  for i in range(min(s["nacon"], len(s["slots"]))):
    c = s["slots"][i]
    per.setdefault(c["worldid"], []).append(tuple(c["geom"] + [c["dim"], c["type"], c["gcid"]] + c["flt"] + c["fev"]))
  return {w: sorted(v) for w, v in per.items()}


def diff_world(a, b, w, wb=None):
  """names of fields whose row w differs (bitwise) between two world_rows dicts."""
  wb = w if wb is None else wb
  out = []
  for k in a:
    if k in b and (a[k][w].shape != b[k][wb].shape or not np.array_equal(a[k][w], b[k][wb])):
      out.append(k)
  return out


# ---------------------------------------------------------------------------------------------
class Scenario:
  """One real model + Data + un-reset twin, with an operation log that can be replayed."""

  def __init__(self, seed, kind, nworld, batched_qpos0=False):
    import mujoco
    import warp as wp

    import mujoco_warp as mjw

    self.seed, self.kind, self.nw = seed, kind, nworld
    self.rng = np.random.default_rng(seed)
    self.xml = build_model(self.rng, kind)
    self.mjm = mujoco.MjModel.from_xml_string(self.xml)
    self.m = mjw.put_model(self.mjm)
    self.batched = batched_qpos0 and nworld > 1
    if self.batched:  # per-world qpos0 / body_pos rows: exercises `worldid % shape[0]`
      q = np.tile(self.mjm.qpos0.astype(np.float32), (2, 1))
      q[1] += 0.25
      self.m.qpos0 = wp.array(q, dtype=float)
    self.ncon = 16
    self.mk = lambda: mjw.make_data(self.mjm, nworld=nworld, nconmax=self.ncon, njmax=96)
    self.d = self.mk()
    self.info = mmodel_info(self.mjm, self.m, self.d)
    self.log = []

  def mk_fresh(self):
    """A fresh Data as the user of a per-world qpos0 expects it (make_data only sees the host model)."""
    import warp as wp

    f = self.mk()
    if self.batched:
      q = self.m.qpos0.numpy()
      wp.copy(f.qpos, wp.array(np.stack([q[w % q.shape[0]] for w in range(self.nw)]), dtype=float))
    return f

  def describe(self):
    return {"index": getattr(self, "index", None), "nops": getattr(self, "nops", None), "params": [self.kind, self.nw, self.batched], "seed": self.seed, "kind": self.kind, "nworld": self.nw, "batched_qpos0": self.batched, "xml": self.xml}


def scramble_and_step(sc, ds, nsteps, scale=1.0):
  """Same random integration state into every Data of ds, then nsteps steps with the same random ctrl."""
  import mujoco_warp as mjw

  sd = int(sc.rng.integers(1 << 30))
  for d in ds:
    put_random_state(np.random.default_rng(sd), sc.mjm, d, scale, flip_eq="manyeq" in sc.kind)
  for _ in range(nsteps):
    set_ctrl(sc.rng, sc.mjm, ds)
    for d in ds:
      mjw.step(sc.m, d)
  sc.log.append(("scramble_step", sd, nsteps))


def classify_selected(sc, field, w, after, fresh_rows):
  """violation key for a modelled/state field of a selected world that differs from fresh."""
  info = sc.info
  if field == "act" or field == "act_dot":
    a, f = after[field][w], fresh_rows[field][w]
    lo = min(info["nu"], info["na"])
    if info["na"] > info["nu"] and np.array_equal(a[:lo], f[:lo]):
      return "C13:reset_data:act-na>nu"
  if field == "history":
    return "C13:reset_data:history"
  if field in ("ntree_awake", "nbody_awake", "nv_awake", "body_awake_ind", "dof_awake_ind"):
    return "C13:make_data:awake-counters-zero"
  if field == "body_awake":
    return "C13:reset_data:body_awake-mocap-child"
  if field == "efc.J":
    return STALE_EFC_J_KEY
  if field in ("cvel", "cdof_dot"):
    return "C13:reset_data:stale-cvel-cdof_dot"
  return "C13:reset_data:field-" + field


RESET_WRITTEN = None


def oracle_reset(sc, mask, wmask, ksteps, found, res):
  """The property on the real code for the current state of sc.d (sc.twin holds the same state).
  Performs the reset on sc.d; returns the snapshot taken right after it.  Violations go to `found`
  (dict key -> (what, data)); the first witness per key is kept."""
  import warp as wp

  import mujoco_warp as mjw

  skip = uninitialised_fields()
  nw = sc.nw
  pre_rows = world_rows(sc.d, skip)
  pre_con = contact_multiset(sc.d)
  pre_nacon = int(sc.d.nacon.numpy()[0])
  mjw.reset_data(sc.m, sc.d, wmask)
  post = snapshot(sc.d)
  post_rows = world_rows(sc.d, skip)
  post_con = contact_multiset(sc.d, post)
  fresh = sc.mk_fresh()
  fresh_rows = world_rows(fresh, skip)
  sel = [True] * nw if mask is None else mask
  rep = {"scenario": sc.describe(), "log": list(sc.log), "mask": mask, "int_mask": bool(wmask is not None and wmask.dtype != wp.bool)}
  modelled = set(WORLD_FIELDS) | set(FIELD_PATH.values())
  state_causes = {}
  stale = set()
  for w in range(nw):
    if sel[w]:
      for f in diff_world(post_rows, fresh_rows, w):
        if f in modelled:
          key = classify_selected(sc, f, w, post_rows, fresh_rows)
          pa, fa = post_rows[f][w].reshape(-1), fresh_rows[f][w].reshape(-1)
          k0 = int(np.flatnonzero(pa != fa)[0]) if pa.shape == fa.shape and (pa != fa).any() else 0
          found.setdefault(key, (f"after reset_data selected world {w} field {f} differs from a fresh Data from flat index {k0} on: reset {pa[k0 : k0 + 6].tolist()} fresh {fa[k0 : k0 + 6].tolist()} (int values / float32 bit patterns)", dict(rep, world=w, field=f, index=k0)))
          state_causes.setdefault(w, []).append(key)
        else:
          stale.add(f)
      if post_con.get(w):
        found.setdefault("C13:reset_data:selected-world-keeps-contacts", (f"selected world {w} still has {len(post_con[w])} contacts after reset", dict(rep, world=w)))
    else:
      for f in diff_world(post_rows, pre_rows, w):
        found.setdefault("C13:reset_data:frame-field-" + f, (f"unselected world {w} field {f} changed by reset_data", dict(rep, world=w, field=f)))
      if post_con.get(w, []) != pre_con.get(w, []):
        n0, n1 = len(pre_con.get(w, [])), len(post_con.get(w, []))
        if post["nacon"] == 0 and pre_nacon > 0 and sel[0]:
          key = "C13:reset_data:partial-mask-nacon"
          what = f"mask {mask}: world 0 is selected so nacon {pre_nacon}->0 and unselected world {w} lost its {n0} contacts"
        elif n1 > n0:
          key = "C13:reset_data:partial-mask-contact-worldid"
          what = f"mask {mask}: cleared contacts of the selected worlds were retagged worldid=0 geom=(0,0); unselected world {w} now reports {n1} contacts (had {n0})"
        else:
          key = "C13:reset_data:frame-contacts"
          what = f"mask {mask}: contacts of unselected world {w} changed ({n0} -> {n1})"
        found.setdefault(key, (what, dict(rep, world=w)))
  res.extra.setdefault("stale_unmodelled_fields_after_reset", set()).update(stale)
  res.count()
  # k further steps: selected worlds vs fresh, unselected worlds vs the un-reset twin.  d0 keeps the state right
  # after the reset: when a selected world diverges from fresh, the steps are replayed from d0 with one stale
  # field cleared at a time to name the field that let the history through
  if ksteps:
    d0 = clone_data(sc, sc.d)
    ctrls = []
    for _ in range(ksteps):
      ctrls.append(set_ctrl(sc.rng, sc.mjm, [sc.d, fresh, sc.twin]))
      for dd in (sc.d, fresh, sc.twin):
        mjw.step(sc.m, dd)
    a, f, t = world_rows(sc.d, skip), world_rows(fresh, skip), world_rows(sc.twin, skip)
    variants = {}

    def variant_matches(name, w):
      """does clearing the stale field(s) `name` right after the reset make world w follow the fresh Data?"""
      if name not in variants:
        v = clone_data(sc, d0)
        for fld in STALE_VARIANTS[name]:
          dst = v
          for part in fld.split(".")[:-1]:
            dst = getattr(dst, part)
          getattr(dst, fld.split(".")[-1]).zero_()
        for c in ctrls:
          if c is not None:
            wp.copy(v.ctrl, wp.array(c, dtype=float))
          mjw.step(sc.m, v)
        variants[name] = world_rows(v, skip)
      z = variants[name]
      return not [x for x in TRAJ_FIELDS if not np.array_equal(z[x][w], f[x][w])]

    for w in range(nw):
      ref = f if sel[w] else t
      bad = [x for x in TRAJ_FIELDS if not np.array_equal(a[x][w], ref[x][w])]
      if bad and sel[w]:
        # attribute the divergence to the fields that already differed right after the reset
        causes = list(dict.fromkeys(state_causes.get(w, [])))
        if not causes and variant_matches("cvel", w):
          stale_nan = bool(np.isnan(pre_rows["cvel"][w].astype(np.int32).view(np.float32)).any())
          key = "C13:reset_data:stale-cvel-cdof_dot"
          found.setdefault(key, (f"selected world {w}: every field reset_data writes equals a fresh Data, yet {ksteps} steps later it differs from a fresh Data stepped with the same ctrl in {bad}; zeroing d.cvel and d.cdof_dot after the reset removes the difference (make_constraint's equality rows read them before com_vel recomputes them){'; the stale values are NaN (diverged world): the world stays NaN after the reset' if stale_nan else ''}", dict(rep, world=w, fields=bad, ksteps=ksteps, stale_nan=stale_nan)))
          causes.append(key)
        if not causes and variant_matches("efc_J", w):
          report_stale_efc_J(res, found, f"generated scenario {sc.index} ({sc.kind}, nworld {nw}, mask {mask}): selected world {w} equals a fresh Data in every field reset_data writes, yet {ksteps} steps later it differs in {bad}; clearing d.efc.J right after the reset removes the difference (NaN rows >= nefc left by the diverged history are read by the dense solver with zero weight: 0*NaN)", dict(rep, world=w, fields=bad, ksteps=ksteps))
          causes.append(STALE_EFC_J_KEY)
        res.extra.setdefault("trajectory_divergences", []).append({"world": w, "fields": bad, "explained_by": causes, "kind": sc.kind, "seed": sc.seed})
        if not causes:
          found.setdefault("C13:reset_data:trajectory-unexplained", (f"{ksteps} steps after reset, selected world {w} differs from a fresh Data stepped with the same ctrl in {bad} although every field reset_data writes was equal right after the reset, and clearing cvel/cdof_dot or efc.J does not remove the difference", dict(rep, world=w, fields=bad, ksteps=ksteps)))
        else:
          for c in causes:
            if c in found and "trajectory" not in found[c][1] and "witness" in found[c][1]:
              found[c] = (found[c][0] + f"; consequence seen in generated scenario {sc.index} ({sc.kind}, nworld {nw}, mask {mask}): {ksteps} steps after the reset world {w} differs from a fresh Data stepped with the same ctrl in {bad}", dict(found[c][1], trajectory=dict(rep, world=w, fields=bad, ksteps=ksteps)))
      elif bad:
        found.setdefault("C13:reset_data:frame-trajectory", (f"{ksteps} steps after reset, unselected world {w} differs from its un-reset twin in {bad}", dict(rep, world=w, fields=bad, ksteps=ksteps)))
  sc.log.append(("reset", mask, ksteps))
  return post


STALE_VARIANTS = {"cvel": ["cvel", "cdof_dot"], "efc_J": ["efc.J"]}
STALE_EFC_J_KEY = "C13:reset_data:stale-nan-efc-J-rows"


def report_stale_efc_J(res, found, what, data):
  """NaN rows of d.efc.J survive reset_data (repaired in /repo 185e5dd: reset_efc_J).  Always a C13 violation
  under its own key: a finding recorded under another property never excuses it."""
  found.setdefault(STALE_EFC_J_KEY, (what, data))


TRAJ_FIELDS = ["time", "qpos", "qvel", "act", "history", "qacc_warmstart", "qacc", "sensordata", "ctrl", "mocap_pos", "mocap_quat", "userdata", "eq_active", "qfrc_applied", "xfrc_applied"]


def scenario_params(s):
  return KINDS[s % len(KINDS)], 1 + (s // 2) % 3, (s % 5 == 3)


def check_tables_consistent(sc, found):
  """tables_consistent of Proof/Reset.v on a generated model: what the reset kernels read from the device
  Model equals what make_data read from the host model (history0 = the history of a fresh Data, ...)."""
  if sc.batched:
    return True
  info = sc.info
  fs = snapshot(sc.d)["worlds"][0]  # sc.d is still the fresh make_data here
  bad = []
  if info["history0"] != info["h_history0"] or info["history0"] != fs["history"]:
    bad.append("history0")
  if [info["h_qpos0"]] != info["qpos0"]:
    bad.append("qpos0")
  if info["eq_active0"] != info["h_eq_active0"] or info["eq_active0"] != fs["eq_active"]:
    bad.append("eq_active0")
  if [info["h_body_pos"]] != info["body_pos"] or [info["h_body_quat"]] != info["body_quat"]:
    bad.append("body_pos/quat")
  for b in bad:
    what = f"put_model's Model.{b} (read by reset_data) differs from what make_data puts into a fresh Data"
    if b == "history0":
      k = next((i for i, (x, y) in enumerate(zip(info["history0"], fs["history"])) if x != y), None)
      what += f": first difference at history[{k}]: Model.history0 = {np.array([info['history0'][k]], dtype=np.int32).view(np.float32)[0] if k is not None else '?'}, fresh Data = {np.array([fs['history'][k]], dtype=np.int32).view(np.float32)[0] if k is not None else '?'} (nhistory={info['nhistory']})"
    found.setdefault(f"C13:put_model:{b}-differs-from-make_data", (what, {"scenario": sc.describe(), "log": [], "table": b}))
  return not bad


def run_one_scenario(res, s, seed, nops, found, tag="mm", params=None):
  """All operations of scenario number s on the real code: oracle + correspondence case lines."""
  kind, nw, batched = params or scenario_params(s)
  sc = Scenario(seed, kind, nw, batched_qpos0=batched)
  sc.index, sc.nops = s, nops
  TABLES_OK.append(check_tables_consistent(sc, found))
  sc.twin = sc.mk()
  lines, defs, meta = [], [], []
  defs.append(f"Definition {tag}{s} : MModel := {mmodel_term(sc.info)}.")
  fs = snapshot(sc.d)  # the model's `fresh` against the real make_data
  lines.append(f"tvz (flat_data (Some (fresh {tag}{s} {zs(nw)} {zs(sc.d.naconmax)}))) {zl(flat_data(fs))}")
  meta.append({"scenario": sc.describe(), "op": "make_data"})
  res.nontrivial(("fresh", kind, nw))
  for j in range(nops):
    scramble_and_step(sc, [sc.d, sc.twin], int(sc.rng.integers(1, 4)))
    mask, wmask = random_mask(sc.rng, nw, force=(0.9 if (j == 0 and nw > 1) else None))
    pre = snapshot(sc.d)
    post = oracle_reset(sc, mask, wmask, 2, found, res)
    name = f"{tag}dd{s}_{j}"
    defs.append(f"Definition {name} : Data := {data_term(pre)}.")
    lines.append(f"tvz (flat_data (reset_data {tag}{s} {mask_term(mask)} {name})) {zl(flat_data(post))}")
    meta.append({"scenario": sc.describe(), "op": "reset_data", "mask": mask, "log": list(sc.log)})
    res.nontrivial(("reset", kind, nw, str(mask), pre["nacon"] > 0))
    sc.twin = clone_data(sc, sc.d)  # the twin follows d for the next round
  # last operation: some worlds diverge to NaN/inf (qvel = 1e30), exactly those are reset
  div = [bool(b) for b in sc.rng.random(nw) < 0.6]
  if not any(div):
    div[int(sc.rng.integers(nw))] = True
  diverge(sc, [sc.d, sc.twin], div)
  mask = None if all(div) and sc.rng.random() < 0.5 else div
  wmask = None if mask is None else __import__("warp").array(np.array(mask, dtype=bool), dtype=bool)
  pre = snapshot(sc.d)
  post = oracle_reset(sc, mask, wmask, 2, found, res)
  defs.append(f"Definition {tag}dd{s}_x : Data := {data_term(pre)}.")
  lines.append(f"tvz (flat_data (reset_data {tag}{s} {mask_term(mask)} {tag}dd{s}_x)) {zl(flat_data(post))}")
  meta.append({"scenario": sc.describe(), "op": "reset_data after divergence", "mask": mask, "log": list(sc.log)})
  res.nontrivial(("reset-diverged", kind, nw, str(mask)))
  return lines, defs, meta


def diverge(sc, ds, worlds):
  """qvel = 1e30 in the given worlds, three steps: a history that ends in NaN/inf (what an RL loop resets)."""
  import warp as wp

  import mujoco_warp as mjw

  for d in ds:
    q = d.qvel.numpy()
    for w, b in enumerate(worlds):
      if b:
        q[w, :] = 1e30
    wp.copy(d.qvel, wp.array(q, dtype=float))
    for _ in range(3):
      mjw.step(sc.m, d)
  sc.log.append(("diverge", list(worlds)))


REGRESSION_SCENARIOS = [(64, 1364, 4, ("na>nu key", 3, False))]
TABLES_OK = []


def run_scenarios(res, nscen, quick, found):
  """Correspondence cases + oracle on generated scenarios.  Returns (case lines, defs, meta)."""
  lines, defs, meta = [], [], []
  base = vlib.seed() * 1000 + 1300
  for s in range(nscen):
    l, d, m = run_one_scenario(res, s, base + s, 2 if quick else 3, found)
    lines += l
    defs += d
    meta += m
  return lines, defs, meta


def clone_data(sc, d):
  """A Data with the same contents as d (every array copied)."""
  import warp as wp

  t = sc.mk()
  for k, a in all_arrays(d).items():
    dst = t
    parts = k.split(".")
    for p in parts[:-1]:
      dst = getattr(dst, p)
    b = getattr(dst, parts[-1])
    if b.shape == a.shape and a.size:
      wp.copy(b, a)
  return t


def run(res):
  quick = res.tier == "quick"
  res.rule = "correspondence cases: (model, Data, mask) triples taken from real operation sequences, distinct = (op, model kind, nworld, mask, contacts present); oracle evaluations: one per reset on the real code"
  ok, trs, failing = propkit.prove(res, PROPS)
  tied, missing = s_check(res)
  import tvalid

  found = {}
  wbad, replayed = witness_check(res, found)  # minimal inputs first: they become the recorded replay data
  stale = directed_stale_cvel(res, found)
  res.obligation("regression: a diverged world with a connect equality recovers after reset_data (cvel / cdof_dot cleared)", not stale, "")
  stale_j = directed_stale_efc_J(res, found)
  res.obligation("regression: a diverged world whose reset state has fewer constraint rows recovers after reset_data (efc.J cleared)", not stale_j, "")
  lines, defs, meta = run_scenarios(res, 12 if quick else 48, quick, found)
  # fixed regression scenarios (independent of VERIF_SEED): 64/1364 is the thorough-tier case in which NaN rows of
  # d.efc.J survived reset_data (C13:reset_data:stale-nan-efc-J-rows, repaired in /repo 185e5dd)
  for rs, rseed, rnops, rparams in REGRESSION_SCENARIOS:
    l, d_, m_ = run_one_scenario(res, rs, rseed, rnops, found, tag="rg", params=rparams)
    lines += l
    defs += d_
    meta += m_
  res.obligation("tables_consistent (hypothesis of C13_reset_eq_fresh) holds on every generated model: Model.history0 / qpos0 / eq_active0 / body_pos / body_quat read by reset_data equal what make_data puts into a fresh Data",
                 all(TABLES_OK), f"{sum(1 for x in TABLES_OK if not x)} of {len(TABLES_OK)} models violate it")
  verdicts = tvalid.run_cases("C13", ["Model.Reset"], lines, chunk=12, extra_defs="Local Open Scope Z_scope.\n" + "\n".join(defs) + "\n")
  bad = [m for m, v in zip(meta, verdicts) if v != 0]
  res.count(len(lines))
  if meta:
    res.sample({"kind": "correspondence", "op": meta[-1]["op"], "mask": meta[-1].get("mask"), "model_kind": meta[-1]["scenario"]["kind"]})
  res.obligation("correspondence Model/Reset.v (fresh, reset_data) vs real make_data / reset_data, bit-exact", not bad, f"{len(bad)} of {len(lines)} cases disagree")
  for key, (what, data) in sorted(found.items()):
    res.violation(key, what, data)
  res.extra["stale_unmodelled_fields_after_reset"] = sorted(res.extra.get("stale_unmodelled_fields_after_reset", []))
  # proof / tie breakage: the oracle above was the search; a failing input that is not already a recorded
  # finding explains it, otherwise the breakage itself is reported (no-failing-input-found)
  known = {(k.get("property"), k.get("key")) for k in vlib.load_known().get("findings", [])}
  new_keys = [k for k in found if ("C13", k) not in known]
  broken = []
  if not ok:
    broken.append(str(failing or PROPS))
  if not tied:
    broken.append("S-extraction(io.py:reset_data differs from the transcribed table)")
  if bad or wbad:
    broken.append(f"correspondence({len(bad)} scenario cases, witness cases {wbad})")
  if not all(replayed.values()):
    broken.append("witness-replay(" + ",".join(k for k, v in replayed.items() if not v) + " no longer reproduces on the real code)")
  if broken and not new_keys:
    propkit.broken_proof_violation(res, "C13 model/theorems no longer tied to io.py reset_data/make_data", "; ".join(broken), {"disagreeing_cases": bad[:2]})
  res.assumptions += [
    "float32 values are treated as opaque bit patterns (reset only copies and stores constants)",
    "Warp CPU thread order for sleep.update_sleep's compaction (atomic_add order); GPU order is not modelled",
    "fields not written by reset_data and not part of the integration state (xpos, qfrc_*, efc.*, ...) are only covered by the k-further-steps oracle, not by the theorems",
  ]


# ---------------------------------------------------------------------------------------------
# witnesses of the `_refuted` theorems (Proof/Reset.v wit_*): rebuilt on the REAL code on every run,
# compared with the Coq definitions (case lines) and replayed through the real reset_data.
WITNESSES = {
  "act": {
    "xml": '<mujoco><worldbody><body><joint name="j" type="slide"/><geom size=".1" contype="0" conaffinity="0"/></body></worldbody>'
           '<actuator><general joint="j" dyntype="user" actdim="3" gainprm="1"/></actuator></mujoco>',
    "nworld": 1, "nconmax": 0, "njmax": 4, "fill": {"act": 7.0}, "masks": {"act": None},
  },
  "hist": {
    "xml": '<mujoco><worldbody><body><joint name="j" type="slide"/><geom size=".1" contype="0" conaffinity="0"/></body></worldbody>'
           '<actuator><motor joint="j" delay="0.02" nsample="2"/></actuator></mujoco>',
    "nworld": 1, "nconmax": 0, "njmax": 4, "fill": {"history": 1.5}, "masks": {"hist": None},
  },
  "con": {
    "xml": '<mujoco><worldbody><geom type="plane" size="5 5 .1"/><body pos="0 0 .09"><joint name="j" type="slide" axis="0 0 1"/>'
           '<geom size=".1"/></body></worldbody></mujoco>',
    "nworld": 2, "nconmax": 1, "njmax": 4, "fill": {},
    "contacts": [{"worldid": 0, "geom": [0, 1], "dim": 3, "dist": -0.01}, {"worldid": 1, "geom": [0, 1], "dim": 3, "dist": -0.02}],
    "masks": {"con_w0": [True, False], "con_w1": [False, True]},
  },
  "mchild": {
    "xml": '<mujoco><worldbody><body mocap="true" pos="0 0 1"><geom size=".1" contype="0" conaffinity="0"/>'
           '<body pos="0 0 .3"><geom size=".05" contype="0" conaffinity="0"/></body></body>'
           '<body><joint name="j" type="slide"/><geom size=".1" contype="0" conaffinity="0"/></body></worldbody></mujoco>',
    "nworld": 1, "nconmax": 0, "njmax": 4, "fill": {}, "masks": {"mchild": None},
  },
  "key": {
    "xml": '<mujoco><worldbody><body mocap="true" pos="0 0 1"><geom size=".1" contype="0" conaffinity="0"/></body>'
           '<body><joint name="j" type="slide"/><geom size=".1" contype="0" conaffinity="0"/></body></worldbody>'
           '<actuator><general joint="j" dyntype="user" actdim="2" gainprm="1"/></actuator>'
           '<keyframe><key time="1.5" qpos="0.25" qvel="-0.5" act="2 3" ctrl="4" mpos="1 2 3" mquat="0 1 0 0"/>'
           '<key time="2.5" qpos="0.75" qvel="0.5" act="5 6" ctrl="7" mpos="3 2 1" mquat="0 0 1 0"/></keyframe></mujoco>',
    "nworld": 2, "nconmax": 0, "njmax": 4, "fill": {"act": 7.0, "qvel": 1.0, "time": 9.0}, "masks": {"key": [False, True]},
  },
}  # fmt: skip


def witness_real(name):
  """Build witness `name` on the real code: (mjm, m, d, info, pre-snapshot)."""
  import mujoco
  import warp as wp

  import mujoco_warp as mjw

  w = WITNESSES[name]
  mjm = mujoco.MjModel.from_xml_string(w["xml"])
  m = mjw.put_model(mjm)
  d = mjw.make_data(mjm, nworld=w["nworld"], nconmax=w["nconmax"], njmax=w["njmax"])
  for f, v in w["fill"].items():
    getattr(d, f).fill_(v)
  cs = w.get("contacts", [])
  if cs:
    wid, geom, dim, dist = d.contact.worldid.numpy(), d.contact.geom.numpy(), d.contact.dim.numpy(), d.contact.dist.numpy()
    for i, c in enumerate(cs):
      wid[i], geom[i], dim[i], dist[i] = c["worldid"], c["geom"], c["dim"], c["dist"]
    wp.copy(d.contact.worldid, wp.array(wid, dtype=int))
    wp.copy(d.contact.geom, wp.array(geom, dtype=wp.vec2i))
    wp.copy(d.contact.dim, wp.array(dim, dtype=int))
    wp.copy(d.contact.dist, wp.array(dist, dtype=float))
    wp.copy(d.nacon, wp.array([len(cs)], dtype=int))
  return mjm, m, d, mmodel_info(mjm, m, d), snapshot(d)


def witness_coq_text():
  """Coq definitions of the witnesses, for pasting into Proof/Reset.v (python -m props.C13)."""
  out = []
  for name in WITNESSES:
    _, _, _, info, pre = witness_real(name)
    out.append(f"Definition wit_{name}_m : MModel := {mmodel_term(info)}.")
    out.append(f"Definition wit_{name}_d : Data := {data_term(pre)}.")
  return "\n".join(out)


def flat_mmodel(info):
  out = []
  for f in MM_ORDER:
    v = info[f]
    if isinstance(v, bool):
      out.append(int(v))
    elif isinstance(v, list):
      out.extend(np.asarray(v, dtype=np.int64).reshape(-1).tolist() if len(v) else [])
      out.append(-7)  # separator (list boundaries)
    else:
      out.append(int(v))
  return out


STALE_CVEL_XML = (
  '<mujoco><worldbody>'
  '<body name="a" pos="0 0 1"><joint type="hinge" axis="0 1 0"/><geom type="capsule" size=".03" fromto="0 0 0 .4 0 0" contype="0" conaffinity="0"/></body>'
  '<body name="b" pos=".4 0 1"><joint type="hinge" axis="0 1 0"/><geom type="capsule" size=".03" fromto="0 0 0 .4 0 0" contype="0" conaffinity="0"/></body>'
  '</worldbody><equality><connect body1="a" body2="b" anchor=".4 0 0"/></equality></mujoco>'
)


def directed_stale_cvel(res, found, verbose=False):
  """Two hinged links joined by a connect equality: the world diverges (qvel = 1e30), is reset, and stepped."""
  import mujoco
  import warp as wp

  import mujoco_warp as mjw

  mjm = mujoco.MjModel.from_xml_string(STALE_CVEL_XML)
  m = mjw.put_model(mjm)
  d = mjw.make_data(mjm, nworld=1)
  wp.copy(d.qvel, wp.array(np.full((1, mjm.nv), 1e30, dtype=np.float32), dtype=float))
  for _ in range(3):
    mjw.step(m, d)
  mjw.reset_data(m, d)
  f = mjw.make_data(mjm, nworld=1)
  same_state = all(np.array_equal(bits(data_attr(d, k).numpy()), bits(data_attr(f, k).numpy())) for k in STATE_FIELDS)
  mjw.step(m, d)
  mjw.step(m, f)
  qa, qf = d.qacc.numpy()[0], f.qacc.numpy()[0]
  res.count()
  res.nontrivial("directed-stale-cvel")
  if verbose:
    print("integration state equal to fresh after the reset:", same_state, " qacc after one step: reset", qa, " fresh", qf)
  if same_state and not np.array_equal(bits(qa), bits(qf)):
    found.setdefault("C13:reset_data:stale-cvel-cdof_dot", (
      f"two links with a connect equality, world diverged by qvel=1e30 then reset_data: the integration state equals a fresh Data but one step later qacc = {qa.tolist()} (fresh Data: {qf.tolist()}): d.cvel / d.cdof_dot keep their NaN and make_constraint's equality rows read them (Jdot*qvel = NaN*0) before com_vel recomputes them; the world never recovers",
      {"directed": "stale-cvel", "xml": STALE_CVEL_XML, "nworld": 1, "history": "qvel=1e30, 3 steps, reset_data(m, d), 1 step"}))
    return True
  return False


STALE_EFC_J_XML = (
  '<mujoco><worldbody>'
  '<body name="a" pos="0 0 1"><joint type="hinge" axis="0 1 0" limited="true" range="0.2 1"/>'
  '<geom type="capsule" size=".03" fromto="0 0 0 .4 0 0" contype="0" conaffinity="0"/>'
  '<body name="b" pos=".4 0 0"><joint type="hinge" axis="0 1 0"/><geom type="capsule" size=".03" fromto="0 0 0 .4 0 0" contype="0" conaffinity="0"/></body></body>'
  '</worldbody><equality><connect body1="b" anchor=".4 0 0" active="false"/></equality></mujoco>'
)


def directed_stale_efc_J(res, found, verbose=False):
  """A limited hinge (one limit row at qpos0) and an initially inactive connect: the history sets
  eq_active := 1 and qvel := 1e30 (3 steps: efc.J rows 0..2 become NaN), then reset_data, then one step."""
  import mujoco
  import warp as wp

  import mujoco_warp as mjw

  mjm = mujoco.MjModel.from_xml_string(STALE_EFC_J_XML)
  m = mjw.put_model(mjm)
  d = mjw.make_data(mjm, nworld=1)
  wp.copy(d.eq_active, wp.array(np.array([[True]]), dtype=bool))
  wp.copy(d.qvel, wp.array(np.full((1, mjm.nv), 1e30, dtype=np.float32), dtype=float))
  for _ in range(3):
    mjw.step(m, d)
  mjw.reset_data(m, d)
  f = mjw.make_data(mjm, nworld=1)
  same_state = all(np.array_equal(bits(data_attr(d, k).numpy()), bits(data_attr(f, k).numpy())) for k in STATE_FIELDS)
  mjw.step(m, d)
  mjw.step(m, f)
  qa, qf = d.qacc.numpy()[0], f.qacc.numpy()[0]
  res.count()
  res.nontrivial("directed-stale-efc-J")
  if verbose:
    print("integration state equal to fresh after the reset:", same_state, " qacc after one step: reset", qa, " fresh", qf)
  if same_state and not np.array_equal(bits(qa), bits(qf)):
    report_stale_efc_J(res, found,
      f"limited hinge + initially inactive connect; history eq_active:=1, qvel:=1e30, 3 steps; reset_data; the integration state equals a fresh Data but one step later qacc = {qa.tolist()} (fresh Data: {qf.tolist()}): rows 1..2 of d.efc.J keep their NaN (the reset state has nefc=1) and the dense solver reads them with zero weight; the world never recovers",
      {"directed": "stale-efc-J", "xml": STALE_EFC_J_XML, "nworld": 1, "history": "eq_active:=1, qvel:=1e30, 3 steps, reset_data(m, d), 1 step"})
    return True
  return False


def witness_check(res, found):
  """Tie wit_* of Proof/Reset.v to the real code and replay them on the real reset_data.
  con_w0/con_w1 are the witnesses of the open partial-mask defect (must still reproduce: the _refuted
  theorems speak about them); act/awake/hist/mchild are the directed replays of repaired defects, kept as
  regression cases: they report a VIOLATION under the old key if the defect ever comes back."""
  import warp as wp

  import mujoco_warp as mjw
  import tvalid

  lines, tags = [], []
  replayed, regress = {}, {}
  for name, w in WITNESSES.items():
    for tag, mask in w["masks"].items():
      mjm, m, d, info, pre = witness_real(name)
      if tag == list(w["masks"])[0]:
        lines.append(f"tvz (flat_mmodel wit_{name}_m) {zl(flat_mmodel(info))}")
        tags.append(("model", name))
        lines.append(f"tvz (flat_data (Some wit_{name}_d)) {zl(flat_data(pre))}")
        tags.append(("data", name))
      pre_con = contact_multiset(d, pre)
      mjw.reset_data(m, d, None if mask is None else wp.array(np.array(mask, dtype=bool), dtype=bool))
      post = snapshot(d)
      lines.append(f"tvz (flat_data (reset_data wit_{name}_m {mask_term(mask)} wit_{name}_d)) {zl(flat_data(post))}")
      tags.append(("reset", tag))
      fresh = snapshot(mjw.make_data(mjm, nworld=w["nworld"], nconmax=w["nconmax"], njmax=w["njmax"]))
      post_con = contact_multiset(d, post)
      rep = {"witness": name, "xml": w["xml"], "nworld": w["nworld"], "fill": w["fill"], "contacts": w.get("contacts"), "mask": mask}
      ok = False
      if tag == "act":
        ok = post["worlds"][0]["act"] != fresh["worlds"][0]["act"]
        key, what = "C13:reset_data:act-na>nu", f"na=3 > nu=1, act filled with 7.0: after reset_data act bits = {post['worlds'][0]['act']} (expected all 0): act[nu:] is not zeroed"
        ok2 = post["worlds"][0]["ntree_awake"] != fresh["worlds"][0]["ntree_awake"]
        if ok2:
          found.setdefault("C13:make_data:awake-counters-zero", (f"make_data leaves ntree_awake/nbody_awake/nv_awake = {fresh['worlds'][0]['ntree_awake']},{fresh['worlds'][0]['nbody_awake']},{fresh['worlds'][0]['nv_awake']} and body_awake_ind/dof_awake_ind = 0 while tree_awake is all ones; reset_data (and MuJoCo) give ntree,nbody,nv and the identity index lists", rep))
        regress["awake"] = not ok2
      elif tag == "hist":
        ok = post["worlds"][0]["history"] != fresh["worlds"][0]["history"]
        key, what = "C13:reset_data:history", f"nhistory={info['nhistory']}, history filled with 1.5: after reset_data it is {post['worlds'][0]['history']} but a fresh Data has {fresh['worlds'][0]['history']}"
      elif tag == "con_w0":
        ok = post["nacon"] == 0 and pre_con.get(1) and not post_con.get(1)
        key, what = "C13:reset_data:partial-mask-nacon", "2 worlds with one contact each, reset=[True,False]: nacon 2->0, the contact of the unselected world 1 is no longer reported"
      elif tag == "con_w1":
        ok = len(post_con.get(0, [])) == len(pre_con.get(0, [])) + 1
        key, what = "C13:reset_data:partial-mask-contact-worldid", "2 worlds with one contact each, reset=[False,True]: the cleared slot of world 1 is retagged worldid=0 geom=(0,0) and nacon stays 2, so unselected world 0 reports 2 contacts instead of 1"
      elif tag == "mchild":
        ok = post["worlds"][0]["body_awake"] != fresh["worlds"][0]["body_awake"]
        key, what = "C13:reset_data:body_awake-mocap-child", f"static child of a mocap body: reset_data sets body_awake={post['worlds'][0]['body_awake']} but make_data / MuJoCo / update_sleep give {fresh['worlds'][0]['body_awake']} (test the root body)"
      if tag == "key":
        continue  # only a state for the C14 examples: no refutation attached
      if tag in ("con_w0", "con_w1"):
        replayed[tag] = bool(ok)
      else:
        regress[tag] = not ok
      if ok:
        found.setdefault(key, (what, rep))
  verdicts = tvalid.run_cases("C13w", ["Model.Reset", "Proof.Reset"], lines, chunk=50, extra_defs="Local Open Scope Z_scope.\n")
  bad = [t for t, v in zip(tags, verdicts) if v != 0]
  res.count(len(lines))
  res.obligation("witnesses wit_* of Proof/Reset.v equal the states built on the real code, and the model's reset of them equals the real reset_data", not bad, f"disagree: {bad}")
  res.obligation("the witnesses of the open partial-mask contact defect (_refuted theorems) reproduce on the real reset_data", all(replayed.values()), json.dumps(replayed))
  res.obligation("regression: directed replays of the repaired defects (act na>nu, history, awake counters, body_awake of a mocap child) now equal a fresh Data", all(regress.values()), json.dumps(regress))
  res.extra["witness_replay"] = dict(replayed, **{"regress_" + k: v for k, v in regress.items()})
  return bad, replayed


def replay(res, path):
  """Re-run one stored case on the real code and print what the oracle sees."""
  import warp as wp

  import mujoco_warp as mjw

  stored = json.load(open(path))
  r = stored["replay"]
  if isinstance(r, dict) and r.get("directed") == "stale-cvel":
    return 0 if directed_stale_cvel(res, {}, verbose=True) else 1
  if isinstance(r, dict) and r.get("directed") == "stale-efc-J":
    return 0 if directed_stale_efc_J(res, {}, verbose=True) else 1
  if not isinstance(r, dict) or not ("witness" in r or "scenario" in r):
    print("replay: no concrete input in this file (proof/correspondence breakage); re-run the check")
    return 1
  found = {}
  if "witness" in r:
    name = r["witness"]
    mjm, m, d, info, pre = witness_real(name)
    mask = r["mask"]
    mjw.reset_data(m, d, None if mask is None else wp.array(np.array(mask, dtype=bool), dtype=bool))
    post = snapshot(d)
    w = WITNESSES[name]
    fresh = snapshot(mjw.make_data(mjm, nworld=w["nworld"], nconmax=w["nconmax"], njmax=w["njmax"]))
    print("witness", name, "mask", mask)
    for k in range(w["nworld"]):
      diff = [f for f in WORLD_FIELDS if post["worlds"][k][f] != fresh["worlds"][k][f]]
      print(f" world {k}: fields differing from a fresh Data after reset: {diff}")
      for f in diff[:6]:
        print(f"   {f}: after reset {post['worlds'][k][f]}  fresh {fresh['worlds'][k][f]}")
    print(" contacts before:", {k: len(v) for k, v in contact_multiset(d, pre).items()}, "nacon", pre["nacon"])
    print(" contacts after: ", {k: len(v) for k, v in contact_multiset(d, post).items()}, "nacon", post["nacon"])
    return 0
  sc = r["scenario"]
  run_one_scenario(res, sc["index"], sc["seed"], sc["nops"], found, params=tuple(sc["params"]) if sc.get("params") else None)
  for k, (what, _) in sorted(found.items()):
    print(("* " if k == stored.get("key") else "  ") + k + ": " + what[:300])
  return 0 if stored.get("key") in found else 1


if __name__ == "__main__":
  print(witness_coq_text())
