"""C23 Rotations stay valid: theorems over the regenerated math.py (T), T-validation,
and an implementation-level oracle (quaternion norms / orthonormality after steps)."""

from __future__ import annotations

import numpy as np

import propkit
import vlib

MANIFEST = {
  "text": "proof: unit-norm / proper-rotation theorems over R about the Gallina definitions regenerated from math.py on every run (quat_integrate, mul_quat, axis_angle_to_quat, quat_to_mat, wp.normalize semantics incl. the zero quaternion); float32 rounding and the kernels that call these functions are covered by T-validation and an implementation-level oracle only",
  "note": "trusted: Coq kernel; translator bin/translate.py (validated each run against the compiled Warp functions on random inputs); Base/Vec.v copy of Warp's normalize; real-number axioms of Coq's Reals",
  "technique": "Rocq proof over functions machine-translated from the source (T), plus translation validation and differential oracle",
  "engine": "coq",
}

PROPS = "Props/C23.v"
FUNCS = ["mul_quat", "quat_integrate", "axis_angle_to_quat", "quat_to_mat", "rot_vec_quat", "quat_inv"]


def tvalidate(res, tr, n):
  import tvalid

  tv = tvalid.TValid("C23", tr, "Gen.math")
  for f in FUNCS:
    tv.add(f, tol=2e-4)
  bad, per = tv.run(res, n_per_fn=n)
  return bad


def kvalidate(res, trk, ncases):
  """Translated kernel _next_position vs the real kernel, same launch grid (incl. in/out aliasing)."""
  import kvalid

  import mujoco_warp._src.forward as F

  fi = trk.kernels.get("_next_position")
  if fi is None:
    return [{"error": "kernel _next_position did not translate", "detail": trk.errors}]
  rng = np.random.default_rng(vlib.seed() + 231)
  cases = []
  for k in range(ncases):
    nworld, nj = 2, int(rng.integers(1, 5))
    jt = rng.integers(0, 4, nj)
    qadr, dadr, q, v = [], [], 0, 0
    for t in jt:
      qadr.append(q)
      dadr.append(v)
      q += {0: 7, 1: 4, 2: 1, 3: 1}[int(t)]
      v += {0: 6, 1: 3, 2: 1, 3: 1}[int(t)]
    qpos = (rng.normal(0, 1, (nworld, q)) * 10.0 ** rng.uniform(-1, 1)).astype(np.float32)
    qvel = (rng.normal(0, 1, (nworld, v)) * 10.0 ** rng.uniform(-1, 2.5)).astype(np.float32)
    if k % 5 == 0:
      qpos[0] = 0  # zero quaternions
    if k % 7 == 0:
      qvel[1] = 0
    cases.append(
      dict(
        kernel=F._next_position, fi=fi, dim=(nworld, nj),
        args=dict(opt_timestep=np.array([0.01, 0.002], dtype=np.float32)[: 1 + k % 2], jnt_type=jt.astype(np.int32), jnt_qposadr=np.array(qadr, dtype=np.int32),
                  jnt_dofadr=np.array(dadr, dtype=np.int32), qpos_in=qpos, qvel_in=qvel, qvel_scale_in=float(rng.choice([1.0, 0.5])), qpos_out=qpos),
        bind=dict(qpos_in="qpos", qpos_out="qpos"), written=["qpos_out"],
      )
    )  # fmt: skip
    res.nontrivial(("kv", k, tuple(int(x) for x in jt)))
  verdicts = kvalid.run_cases(res, "C23k", "Gen.kforward", cases)
  res.extra["kernel_validation"] = {"agree": verdicts.count(0), "discarded": verdicts.count(1), "disagree": verdicts.count(2)}
  return [{"case": i, "jnt_type": cases[i]["args"]["jnt_type"].tolist(), "qpos": cases[i]["args"]["qpos_in"].tolist(), "qvel": cases[i]["args"]["qvel_in"].tolist()} for i, v in enumerate(verdicts) if v == 2]


def oracle(res, nmodels, nsteps):
  """Real code: after steps from wild states, qpos quaternions are unit and reported frames are rotations."""
  import mujoco
  import warp as wp

  import models
  import mujoco_warp as mjw

  rng = np.random.default_rng(vlib.seed() + 23)
  fails = []
  for k in range(nmodels):
    o = models.Opts(nbody=(1, 5), joint_types=("hinge", "ball", "free", "slide"), cameras=0.3, sites=0.7, gravity=bool(rng.random() < 0.5))
    xml, info = models.random_model(rng, o)
    m = mujoco.MjModel.from_xml_string(xml)
    d = mujoco.MjData(m)
    vel = float(10.0 ** rng.uniform(-1, 3))
    models.random_state(rng, m, d, vel_scale=vel)
    zero_quat = rng.random() < 0.15
    # a third of the cases: body at rest (angular velocity exactly zero) holding UNNORMALISED quaternions,
    # under each integrator - the step must still store unit quaternions
    rest = k % 3 == 1
    m.opt.integrator = [mujoco.mjtIntegrator.mjINT_EULER, mujoco.mjtIntegrator.mjINT_RK4, mujoco.mjtIntegrator.mjINT_IMPLICITFAST][k % 3 if not rest else (k // 3) % 3]
    if rest:
      # nothing may produce angular velocity during the step: no gravity torque, no control, no springs
      d.qvel[:] = 0
      d.ctrl[:] = 0
      m.opt.gravity[:] = 0
      m.jnt_stiffness[:] = 0
      m.opt.disableflags |= int(mujoco.mjtDisableBit.mjDSBL_CONTACT) | int(mujoco.mjtDisableBit.mjDSBL_ACTUATION)
    for j in range(m.njnt):
      a = m.jnt_qposadr[j]
      if zero_quat and m.jnt_type[j] == mujoco.mjtJoint.mjJNT_BALL:
        d.qpos[a : a + 4] = 0
      elif rest and m.jnt_type[j] in (mujoco.mjtJoint.mjJNT_BALL, mujoco.mjtJoint.mjJNT_FREE):
        o4 = a + 3 if m.jnt_type[j] == mujoco.mjtJoint.mjJNT_FREE else a
        d.qpos[o4 : o4 + 4] *= float(rng.choice([0.3, 1.7, 2.5]))
    mm = mjw.put_model(m)
    dd = mjw.put_data(m, d, nworld=2)
    worst = 0.0
    for s in range(nsteps):
      mjw.step(mm, dd)
    qpos = dd.qpos.numpy()
    if not np.all(np.isfinite(qpos)):
      res.count()
      continue  # diverged physically (huge velocity): norms are undefined, not a C23 matter
    for j in range(m.njnt):
      a = m.jnt_qposadr[j]
      if m.jnt_type[j] == mujoco.mjtJoint.mjJNT_FREE:
        q = qpos[:, a + 3 : a + 7]
      elif m.jnt_type[j] == mujoco.mjtJoint.mjJNT_BALL:
        q = qpos[:, a : a + 4]
      else:
        continue
      worst = max(worst, float(np.abs(np.linalg.norm(q, axis=1) - 1).max()))
    mats = [dd.xmat.numpy(), dd.ximat.numpy(), dd.geom_xmat.numpy(), dd.site_xmat.numpy(), dd.cam_xmat.numpy()]
    worst_m = 0.0
    for M in mats:
      if M.size == 0:
        continue
      M = M.reshape(-1, 3, 3).astype(np.float64)
      worst_m = max(worst_m, float(np.abs(np.einsum("nij,nkj->nik", M, M) - np.eye(3)).max()))
      worst_m = max(worst_m, float(np.abs(np.linalg.det(M) - 1).max()))
    xq = dd.xquat.numpy().reshape(-1, 4)
    worst = max(worst, float(np.abs(np.linalg.norm(xq, axis=1) - 1).max()))
    res.count()
    res.nontrivial(("oracle", xml))
    if k == 0:
      res.sample({"kind": "oracle", "xml": xml[:400], "vel_scale": vel, "steps": nsteps, "worst_quat_norm_err": worst, "worst_mat_err": worst_m})
    if worst > 1e-4 or worst_m > 1e-3:
      fails.append({"xml": xml, "qpos0": d.qpos.tolist(), "qvel0": d.qvel.tolist(), "steps": nsteps, "quat_norm_err": worst, "mat_err": worst_m})
  return fails


def run(res):
  quick = res.tier == "quick"
  res.rule = "T-validation cases: random float32 inputs per translated function (5% zeros, axis-aligned, unit and unnormalised quaternions), distinct = agreeing non-discarded cases; oracle: distinct random models stepped from wild states"
  ok, trs, failing = propkit.prove(res, PROPS, gen_names=["math", "kforward"], required_funcs=FUNCS)
  tr = trs.get("math")
  tbad = []
  if tr is not None:
    tbad = tvalidate(res, tr, 150 if quick else 1500)
    res.obligation("T-validation: translated math.py functions agree with compiled Warp", not tbad, f"{len(tbad)} disagreements")
  trk = trs.get("kforward")
  if trk is not None:
    kbad = kvalidate(res, trk, 16 if quick else 160)
    res.obligation("kernel validation: translated _next_position agrees with the real kernel launch", not kbad, f"{len(kbad)} disagreements")
    tbad = tbad + kbad
  fails = oracle(res, 12 if quick else 120, 5 if quick else 40)
  for f in fails[:3]:
    res.violation("C23:oracle:non-unit-rotation", f"after {f['steps']} steps quaternion norm error {f['quat_norm_err']:.2e}, matrix error {f['mat_err']:.2e}", f)
  if tbad and not fails:
    res.violation("C23:translator-mismatch", "translated Gallina disagrees with compiled Warp function (model no longer tied to code)", tbad[:3], found_input=False)
  if not ok and not fails:
    propkit.broken_proof_violation(res, "C23 theorem over regenerated math.py", failing)
  res.assumptions += [
    "float32 rounding is not modelled: theorems are over R; the oracle checks norms to 1e-4",
    "_next_position stores quat_integrate's result unchanged (checked by the oracle, modelled in C08)",
  ]


def replay(res, path):
  import json

  import mujoco

  import mujoco_warp as mjw

  r = json.load(open(path))["replay"]
  if isinstance(r, list) or "xml" not in r:
    print("replay: no concrete input in this file (proof/correspondence breakage); re-run the check")
    return 1
  m = mujoco.MjModel.from_xml_string(r["xml"])
  d = mujoco.MjData(m)
  d.qpos[:] = r["qpos0"]
  d.qvel[:] = r["qvel0"]
  mm, dd = mjw.put_model(m), mjw.put_data(m, d, nworld=2)
  for _ in range(r["steps"]):
    mjw.step(mm, dd)
  print("qpos after:", dd.qpos.numpy()[0])
  return 0
