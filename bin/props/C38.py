"""C38 Compacted active-DOF solve is equivalent.

proof   Props/C38.v over Model/Compact.v (island._reset_compact_maps/_compact_dofs, the gather/scatter
        kernels of solver.py, io._nvmax_pad) and over `_rescale` regenerated from solver.py.
C       the integer model run by vm_compute vs the REAL kernels launched on synthetic tree tables /
        awake masks / capacities (exact), on real models through island.update_active_dofs, and the
        gathers/scatters on integer-valued arrays (exact).
T       `_rescale` translation validated against the compiled function.
oracle  sleep-enabled models / make_data(nvmax=..): compact solve vs full solve with every tree awake
        (qacc, qfrc_constraint, efc force), frozen dofs have exactly zero qacc / qacc_smooth /
        qfrc_constraint (forced masks and trees that fell asleep by themselves), NVMAX bit iff the active
        dofs exceed nvmax."""

from __future__ import annotations

import json
import time

import numpy as np

import propkit
import vlib

MANIFEST = {
  "text": "proof: for the transcribed compaction kernels: update_active_dofs resets every entry of both maps (launch over max(nv, nvmax_pad), pinned on the source) so it does not depend on the maps left by the previous call and sleeping dofs map to -1 also for nv > nvmax_pad; dof_cdof/cdof_dof are mutually inverse, order preserving on the dofs of awake trees and -1 elsewhere (no overflow; prefix form under overflow); NVMAX bit iff active dofs > nvmax and ncdof = min; all trees awake -> identity maps; the gathered inertia is the identity, the gathered Jacobian and vectors are zero on the padding [ncdof, nvmax_pad); hence (over R, any row cost) the padded cost = active cost + 1/2|padding|^2 and its minimiser is (argmin, 0); scatter writes exactly 0 on frozen dofs; termination tests with nv->nvmax_pad, tol->tol*nv/nvmax_pad are the full solve's (over the regenerated _rescale). The linesearch gradient tolerance is preserved too (ls_tolerance is not rescaled; proved, with the pre-fix double scaling as a refuting regression witness); over a sparse full model a world with nefc = 0 has its compacted qfrc_constraint workspace overwritten with zeros by _solve_init_dof (flag m.is_sparse or _sparse_compact(ctx), checked on the source). Not proved: convergence of the Newton iteration, float32 rounding, the active block of cM/cJ equals P M P^T / J P^T (tested exactly by the correspondence)",
  "note": "trusted: Coq kernel; hand transcription Model/Compact.v (tied by exact per-run correspondence with the real kernels); translator for _rescale; real-number axioms of Coq's Reals",
  "technique": "Rocq proof over a hand-written executable model (C, exact integer correspondence with the launched kernels) + T for _rescale + differential oracle compact vs full solve",
  "engine": "coq",
}

NVMAX_BIT = 128


def zl(x):
  return vlib.zlist(np.asarray(x).reshape(-1).tolist())


def zll(rows):
  return "[" + "; ".join(vlib.zlist(np.asarray(r).reshape(-1).tolist()) for r in rows) + "]"


# ---------------------------------------------------------------- correspondence: maps
def launch_maps(nworld, ntree, adr, num, awake, nvmax, nv, nvp, ovf0):
  import warp as wp

  from mujoco_warp._src import island

  dc = wp.array(np.full((nworld, max(nv, 1)), 7, dtype=np.int32)[:, :nv].copy(), dtype=int) if nv else wp.zeros((nworld, 0), dtype=int)
  cd = wp.array(np.full((nworld, nvp), 7, dtype=np.int32), dtype=int)
  ncd = wp.array(np.full(nworld, 55, dtype=np.int32), dtype=int)
  ovf = wp.array(np.asarray(ovf0, dtype=np.int32), dtype=int)
  wp.launch(island._reset_compact_maps, dim=(nworld, max(nv, nvp)), inputs=[nv, nvp], outputs=[dc, cd])
  wp.launch(
    island._compact_dofs,
    dim=(nworld,),
    inputs=[ntree, wp.array(np.asarray(adr, dtype=np.int32), dtype=int), wp.array(np.asarray(num, dtype=np.int32), dtype=int), wp.array(np.asarray(awake, dtype=np.int32), dtype=int), nvmax, False],
    outputs=[ncd, dc, cd, ovf],
  )
  return ncd.numpy(), ovf.numpy(), dc.numpy(), cd.numpy()


def map_cases(res, rng, n):
  from mujoco_warp._src import io

  lines, meta = [], []
  for k in range(n):
    ntree = int(rng.integers(1, 7))
    num = rng.integers(0 if rng.random() < 0.2 else 1, 7, ntree)
    gaps = rng.integers(0, 2, ntree) if rng.random() < 0.25 else np.zeros(ntree, dtype=int)
    adr, a = [], 0
    for t in range(ntree):
      a += int(gaps[t])
      adr.append(a)
      a += int(num[t])
    nv = a + (int(rng.integers(0, 2)) if gaps.any() else 0)
    if nv == 0:
      continue
    nvmax = int(rng.integers(0, nv + 1)) if rng.random() < 0.7 else nv
    nvp = int(io._nvmax_pad(nvmax))
    nworld = 3
    awake = rng.choice([0, 1, 1, 1, 2, -1], (nworld, ntree))
    if k % 5 == 0:
      awake[0] = 1
    if k % 7 == 0:
      awake[1] = 0
    ovf0 = rng.choice([0, 0, 4, NVMAX_BIT, NVMAX_BIT + 4], nworld)
    ncd, ovf, dc, cd = launch_maps(nworld, ntree, adr, num, awake, nvmax, nv, nvp, ovf0)
    for w in range(nworld):
      exp = [int(ncd[w]), int(ovf[w])] + dc[w].tolist() + cd[w].tolist()
      lines.append(f"tvz (obs_compact (compact_dofs {ntree} {zl(adr)} {zl(num)} {zl(awake[w])} {nvmax} {nv} {nvp} {int(ovf0[w])}))%Z {zl(exp)}")
      nact = int(sum(int(num[t]) for t in range(ntree) if awake[w, t] == 1))
      meta.append({"kind": "maps", "ntree": ntree, "tree_dofadr": adr, "tree_dofnum": num.tolist(), "tree_awake": awake[w].tolist(), "nvmax": nvmax, "nv": nv, "nvmax_pad": nvp, "overflow_in": int(ovf0[w]), "real": exp})
      res.nontrivial(("maps", ntree, nact > nvmax, nact == 0, nact == nv, bool(gaps.any())))
      # the property itself on the real kernel output
  return lines, meta


# ---------------------------------------------------------------- correspondence: gathers / scatters
def scene(rng, nfree, arm=True, slider=True, iters=100, tol=1e-8):
  b = []
  for i in range(nfree):
    kind = rng.choice(["sphere", "box", "capsule"])
    x, y = 2.0 * i + rng.uniform(-0.2, 0.2), rng.uniform(-0.3, 0.3)
    if kind == "sphere":
      g, z = '<geom type="sphere" size=".1"/>', 0.098
    elif kind == "box":
      g, z = '<geom type="box" size=".1 .08 .06"/>', 0.059
    else:
      g, z = '<geom type="capsule" size=".05 .1" euler="0 90 0"/>', 0.049
    if rng.random() < 0.3:
      z += 0.5
    b.append(f'<body pos="{x:.3f} {y:.3f} {z:.3f}"><freejoint/>{g}</body>')
  if arm:
    b.append('<body pos="0 3 .6"><joint name="j0" type="hinge" axis="0 1 0" damping=".2"/><geom type="capsule" fromto="0 0 0 .3 0 0" size=".03"/><body pos=".3 0 0"><joint name="j1" type="hinge" axis="0 1 0" damping=".2" range="-1 1" limited="true"/><geom type="capsule" fromto="0 0 0 .25 0 0" size=".025"/></body></body>')
  if slider:
    b.append('<body pos="0 -3 .3"><joint name="s0" type="slide" axis="0 0 1" range="-.25 1" limited="true"/><geom type="sphere" size=".1"/></body>')
  act = '<actuator><motor joint="j0"/></actuator>' if arm else ""
  return f'<mujoco><option timestep="0.004" iterations="{iters}" tolerance="{tol}"/><worldbody><geom name="floor" type="plane" size="20 20 .1"/>{"".join(b)}</worldbody>{act}</mujoco>'


def gather_cases(res, rng, nscenes):
  """_init_compact_inertia/_gather_M_sparse on the sparse inertia structure of real models, the J and
  vector gathers/scatters on integer-valued arrays; maps come from the real update_active_dofs."""
  import mujoco
  import warp as wp

  import mujoco_warp as mjw
  from mujoco_warp._src import island
  from mujoco_warp._src import solver as S

  lines, meta = [], []
  for k in range(nscenes):
    xml = scene(rng, int(rng.integers(1, 4)), arm=bool(rng.random() < 0.8), slider=bool(rng.random() < 0.7))
    mjm = mujoco.MjModel.from_xml_string(xml)
    mjd = mujoco.MjData(mjm)
    mujoco.mj_forward(mjm, mjd)
    m = mjw.put_model(mjm)
    m.opt.warn_overflow = False
    nv, ntree = m.nv, m.ntree
    nvmax = int(rng.integers(max(1, nv // 2), nv + 1))
    nworld = 2
    d = mjw.put_data(mjm, mjd, nworld=nworld, nvmax=nvmax)
    nvp = d.nvmax_pad
    awake = rng.choice([0, 1, 1], (nworld, ntree)).astype(np.int32)
    if k % 3 == 0:
      awake[0] = 1
    d.tree_awake = wp.array(awake, dtype=int)
    ovf0 = rng.choice([0, 4], nworld).astype(np.int32)
    d.overflow.assign(ovf0)
    island.update_active_dofs(m, d)
    adr, num = m.tree_dofadr.numpy(), m.tree_dofnum.numpy()
    ncd, ovf, dc, cd = d.ncdof.numpy(), d.overflow.numpy(), d.dof_cdof.numpy(), d.cdof_dof.numpy()
    # 1. update_active_dofs on a real model
    for w in range(nworld):
      exp = [int(ncd[w]), int(ovf[w])] + dc[w].tolist() + cd[w].tolist()
      lines.append(f"tvz (obs_compact (compact_dofs {ntree} {zl(adr)} {zl(num)} {zl(awake[w])} {nvmax} {nv} {nvp} {int(ovf0[w])}))%Z {zl(exp)}")
      meta.append({"kind": "update_active_dofs", "xml": xml, "tree_awake": awake[w].tolist(), "nvmax": nvmax, "real": exp[:2]})
    # 2. inertia: integer-valued entries so that copies compare exactly
    rownnz, rowadr, colind = m.M_rownnz.numpy(), m.M_rowadr.numpy(), m.M_colind.numpy()
    nC = d.M.shape[1]
    Mv = (np.arange(nC, dtype=np.float32)[None, :] + 2 + 100 * np.arange(nworld, dtype=np.float32)[:, None]).astype(np.float32)
    Min = wp.array(Mv, dtype=float)
    cM = wp.array(np.full((nworld, nvp, nvp), 9, dtype=np.float32), dtype=float)
    wp.launch(S._init_compact_inertia, dim=(nworld, nvp, nvp), inputs=[d.ncdof], outputs=[cM])
    wp.launch(S._gather_M_sparse, dim=(nworld, nv), inputs=[m.M_rownnz, m.M_rowadr, m.M_colind, Min, d.dof_cdof], outputs=[cM])
    cMn = cM.numpy()
    for w in range(nworld):
      lines.append(f"tvz (flat (compact_inertia 0 1 {nv} {nvp} {int(ncd[w])} {zl(rownnz)} {zl(rowadr)} {zl(colind)} {zl(Mv[w])} {zl(dc[w])}))%Z {zl(cMn[w])}")
      meta.append({"kind": "gather_M", "xml": xml, "tree_awake": awake[w].tolist(), "nvmax": nvmax})
      res.nontrivial(("gatherM", nv, int(ncd[w])))
    # 3. dense J
    njmax = int(rng.integers(1, 6))
    nefc = rng.integers(0, njmax + 1, nworld).astype(np.int32)
    Jd = rng.integers(-9, 10, (nworld, njmax, nv)).astype(np.float32)
    cJ = wp.zeros((nworld, njmax, nvp), dtype=float)  # d.cJ.zero_()
    wp.launch(S._gather_J_dense, dim=(nworld, njmax), inputs=[wp.array(nefc, dtype=int), d.dof_cdof, wp.array(Jd, dtype=float)], outputs=[cJ])
    cJn = cJ.numpy()
    for w in range(nworld):
      lines.append(f"tvz (flat (gather_J_dense 0 {njmax} {int(nefc[w])} {nv} {nvp} {zl(dc[w])} {zll(Jd[w])}))%Z {zl(cJn[w])}")
      meta.append({"kind": "gather_J_dense", "xml": xml, "tree_awake": awake[w].tolist(), "nefc": int(nefc[w])})
    # 4. sparse J: random rows of distinct columns
    nnzmax = njmax * nv
    rn = np.zeros((nworld, njmax), dtype=np.int32)
    ra = np.zeros((nworld, njmax), dtype=np.int32)
    ci = np.zeros((nworld, 1, nnzmax), dtype=np.int32)
    Js = np.zeros((nworld, 1, nnzmax), dtype=np.float32)
    for w in range(nworld):
      a = 0
      for e in range(njmax):
        cols = np.sort(rng.choice(nv, int(rng.integers(0, nv + 1)), replace=False))
        rn[w, e], ra[w, e] = len(cols), a
        ci[w, 0, a : a + len(cols)] = cols
        Js[w, 0, a : a + len(cols)] = rng.integers(1, 10, len(cols))
        a += len(cols)
    cJs = wp.zeros((nworld, njmax, nvp), dtype=float)
    wp.launch(S._gather_J_sparse, dim=(nworld, njmax), inputs=[wp.array(nefc, dtype=int), d.dof_cdof, wp.array(rn, dtype=int), wp.array(ra, dtype=int), wp.array(ci, dtype=int), wp.array(Js, dtype=float)], outputs=[cJs])
    cJsn = cJs.numpy()
    for w in range(nworld):
      lines.append(f"tvz (flat (gather_J_sparse 0 {njmax} {int(nefc[w])} {nvp} {zl(dc[w])} {zl(rn[w])} {zl(ra[w])} {zl(ci[w, 0])} {zl(Js[w, 0])}))%Z {zl(cJsn[w])}")
      meta.append({"kind": "gather_J_sparse", "xml": xml, "tree_awake": awake[w].tolist(), "nefc": int(nefc[w])})
    # 5. vectors
    v = [rng.integers(-50, 51, (nworld, nv)).astype(np.float32) for _ in range(3)]
    o = [wp.array(np.full((nworld, nvp), 77, dtype=np.float32), dtype=float) for _ in range(3)]
    wp.launch(S._gather_dof_vecs_compact, dim=(nworld, nvp), inputs=[wp.array(v[0], dtype=float), wp.array(v[1], dtype=float), wp.array(v[2], dtype=float), d.cdof_dof], outputs=[o[0], o[1], o[2]])
    # outputs are (cqfrc_smooth <- qfrc_smooth = v[1], cqacc_smooth <- qacc_smooth = v[2], cqacc_warmstart <- qacc_warmstart = v[0])
    for src, dst in ((1, 0), (2, 1), (0, 2)):
      on = o[dst].numpy()
      for w in range(nworld):
        lines.append(f"tvz (gather_vec 0 {nvp} {zl(cd[w])} {zl(v[src][w])})%Z {zl(on[w])}")
        meta.append({"kind": "gather_dof_vecs", "xml": xml, "tree_awake": awake[w].tolist()})
    rhs = wp.array(np.full((nworld, nvp, 1), 77, dtype=np.float32), dtype=float)
    wp.launch(S._gather_rhs_compact, dim=(nworld, nvp), inputs=[d.cdof_dof, wp.array(v[0], dtype=float)], outputs=[rhs])
    rn_ = rhs.numpy()
    x = rng.integers(-50, 51, (nworld, nvp)).astype(np.float32)
    x2 = rng.integers(-50, 51, (nworld, nvp)).astype(np.float32)
    q1 = wp.array(np.full((nworld, nv), 77, dtype=np.float32), dtype=float)
    q2 = wp.array(np.full((nworld, nv), 77, dtype=np.float32), dtype=float)
    wp.launch(S._scatter_dof_vecs, dim=(nworld, nv), inputs=[d.dof_cdof, wp.array(x, dtype=float), wp.array(x2, dtype=float)], outputs=[q1, q2])
    q3 = wp.array(np.full((nworld, nv), 77, dtype=np.float32), dtype=float)
    wp.launch(S._scatter_solution, dim=(nworld, nv), inputs=[d.dof_cdof, wp.array(x.reshape(nworld, nvp, 1), dtype=float)], outputs=[q3])
    q1n, q2n, q3n = q1.numpy(), q2.numpy(), q3.numpy()
    for w in range(nworld):
      lines.append(f"tvz (gather_vec 0 {nvp} {zl(cd[w])} {zl(v[0][w])})%Z {zl(rn_[w])}")
      lines.append(f"tvz (scatter_vec 0 {nv} {zl(dc[w])} {zl(x[w])})%Z {zl(q1n[w])}")
      lines.append(f"tvz (scatter_vec 0 {nv} {zl(dc[w])} {zl(x2[w])})%Z {zl(q2n[w])}")
      lines.append(f"tvz (scatter_vec 0 {nv} {zl(dc[w])} {zl(x[w])})%Z {zl(q3n[w])}")
      meta += [{"kind": kk, "xml": xml, "tree_awake": awake[w].tolist()} for kk in ("gather_rhs", "scatter_dof_vecs.qacc", "scatter_dof_vecs.qfrc_constraint", "scatter_solution")]
  return lines, meta


def source_facts(res, sk):
  """S: the two host-side facts the tolerance / nefc=0 theorems are about, read off the regenerated skeleton."""
  def find(stmts, pred, out):
    for st in stmts:
      if pred(st):
        out.append(st)
      for k in ("then", "else", "body"):
        if k in st:
          find(st[k], pred, out)
    return out

  bad = []
  prog = sk.prog
  a = find(prog.get("solver._solve", {}).get("body", []), lambda st: st["k"] == "launch" and st["kernel"] == "solver._solve_init_dof", [])
  ok1 = len(a) == 1 and len(a[0]["factory_args"]) == 2 and a[0]["factory_args"][1] == "m.is_sparse or _sparse_compact(ctx)"
  res.obligation("S: _solve launches _solve_init_dof(warmstart, m.is_sparse or _sparse_compact(ctx))", ok1, str([x["factory_args"] for x in a]))
  if not ok1:
    bad.append("solver._solve:_solve_init_dof flag")
  body = prog.get("solver.solve_compact", {}).get("body", [])
  t = find(body, lambda st: st["k"] == "launch" and st["kernel"] == "solver._compact_tolerance", [])
  r = find(body, lambda st: st["k"] == "call" and st["f"] == "dataclasses.replace" and st["args"] == ["m.opt"], [])
  ok2 = (
    len(t) == 1 and t[0]["ins"] == ["m.opt.tolerance", "float(m.nv) / float(nvp)"] and len(t[0]["outs"]) == 1
    and len(r) == 1 and r[0]["kwargs"].get("tolerance") == t[0]["outs"][0] and "ls_tolerance" not in r[0]["kwargs"]
  )  # fmt: skip
  res.obligation("S: solve_compact rescales the current m.opt.tolerance by float(m.nv)/float(nvp) and passes ls_tolerance through", ok2, f"launch {[(x['ins'], x['outs']) for x in t]}; replace(m.opt) kwargs {[x['kwargs'] for x in r]}")
  if not ok2:
    bad.append("solver.solve_compact:tolerance")
  u = find(prog.get("island.update_active_dofs", {}).get("body", []), lambda st: st["k"] == "launch" and st["kernel"] == "island._reset_compact_maps", [])
  ok3 = len(u) == 1 and u[0]["dim"].replace(" ", "") == "(d.nworld,max(m.nv,d.nvmax_pad))" and u[0]["ins"] == ["m.nv", "d.nvmax_pad"]
  res.obligation("S: update_active_dofs resets the maps over dim (d.nworld, max(m.nv, d.nvmax_pad)) (Model: reset_dim)", ok3, str([(x["dim"], x["ins"]) for x in u]))
  if not ok3:
    bad.append("island.update_active_dofs:reset dim")
  return bad


def stale_map_cases(res, rng, n):
  """island.update_active_dofs (host launch geometry included) on a Data whose maps hold junk / the maps of a
  previous awake set, with nvmax_pad < nv: model update_active_dofs with dim = reset_dim nv nvp."""
  import mujoco
  import warp as wp

  import mujoco_warp as mjw
  from mujoco_warp._src import island

  lines, meta = [], []
  for k in range(n):
    xml = scene(rng, int(rng.integers(3, 6)), arm=bool(k % 2), slider=True)
    mjm = mujoco.MjModel.from_xml_string(xml)
    mjd = mujoco.MjData(mjm)
    mujoco.mj_forward(mjm, mjd)
    m = mjw.put_model(mjm)
    m.opt.warn_overflow = False
    nv, ntree = m.nv, m.ntree
    nvmax = int(rng.integers(6, 16))  # nvmax_pad = 16 < nv (nv >= 19)
    d = mjw.put_data(mjm, mjd, nworld=2, nvmax=nvmax)
    nvp = d.nvmax_pad
    adr, num = m.tree_dofadr.numpy(), m.tree_dofnum.numpy()
    for rep in range(3):
      if rep == 0:
        d.dof_cdof.fill_(5)
        d.cdof_dof.fill_(7)
      dc0, cd0 = d.dof_cdof.numpy().copy(), d.cdof_dof.numpy().copy()
      aw = rng.choice([0, 0, 1], (2, ntree)).astype(np.int32)
      aw[0, ntree - 1 - (rep % 2)] = 1 if rep < 2 else 0  # a high-index tree awake, later asleep
      d.tree_awake = wp.array(aw, dtype=int)
      ovf0 = np.zeros(2, dtype=np.int32)
      d.overflow.assign(ovf0)
      island.update_active_dofs(m, d)
      ncd, ovf, dc, cd = d.ncdof.numpy(), d.overflow.numpy(), d.dof_cdof.numpy(), d.cdof_dof.numpy()
      for w in range(2):
        exp = [int(ncd[w]), int(ovf[w])] + dc[w].tolist() + cd[w].tolist()
        lines.append(f"tvz (obs_compact (update_active_dofs (reset_dim {nv} {nvp}) {ntree} {zl(adr)} {zl(num)} {zl(aw[w])} {nvmax} {nv} {nvp} 0 {zl(dc0[w])} {zl(cd0[w])}))%Z {zl(exp)}")
        meta.append({"kind": "update_active_dofs_reused_data", "xml": xml, "nvmax": nvmax, "nv": nv, "tree_awake": aw[w].tolist(), "previous_dof_cdof": dc0[w].tolist()})
        res.nontrivial(("stale", nv, nvp, rep))
  return lines, meta


def solver_entry_cases(res, rng, n):
  """_solve_init_dof (both flags, nefc 0 / >0, junk in the qfrc_constraint buffer) and _compact_tolerance."""
  import warp as wp

  from mujoco_warp._src import solver as S

  lines, meta = [], []
  for k in range(n):
    nv, nworld = int(rng.integers(1, 9)), 2
    ws = rng.integers(-50, 51, (nworld, nv)).astype(np.float32)
    sm = rng.integers(-50, 51, (nworld, nv)).astype(np.float32)
    junk = rng.integers(1, 90, (nworld, nv)).astype(np.float32)
    nefc = np.array([0, int(rng.integers(0, 3))], dtype=np.int32)
    for warm in (True, False):
      for sparse in (True, False):
        qa = wp.array(np.full((nworld, nv), 77, dtype=np.float32), dtype=float)
        qf = wp.array(junk.copy(), dtype=float)
        wp.launch(S._solve_init_dof(warm, sparse), dim=(nworld, nv), inputs=[wp.array(nefc, dtype=int), wp.array(ws, dtype=float), wp.array(sm, dtype=float)], outputs=[qa, qf])
        qan, qfn = qa.numpy(), qf.numpy()
        for w in range(nworld):
          b = lambda x: "true" if x else "false"
          lines.append(f"tvz (let r := solve_init_dof 0 {b(warm)} {b(sparse)} {int(nefc[w])} {zl(ws[w])} {zl(sm[w])} {zl(junk[w])} in fst r ++ snd r)%Z {zl(np.concatenate([qan[w], qfn[w]]))}")
          meta.append({"kind": "solve_init_dof", "warmstart": warm, "sparse": sparse, "nefc": int(nefc[w])})
          res.nontrivial(("init_dof", warm, sparse, int(nefc[w]) == 0))
  for k in range(n):
    nv, nvp = int(rng.integers(1, 61)), int(rng.choice([16, 32, 48, 64]))
    tol = (10.0 ** rng.uniform(-6, -1, 3)).astype(np.float32)
    out = wp.zeros(3, dtype=float)
    wp.launch(S._compact_tolerance, dim=3, inputs=[wp.array(tol, dtype=float), float(nv) / float(nvp)], outputs=[out])
    o = out.numpy()
    for i in range(3):
      lines.append(f"tv3 {vlib.fhex(1e-6)} (fun Sc => [@compact_tolerance float Sc {vlib.fhex(tol[i])} ({nv})%Z ({nvp})%Z]) {vlib.flist([o[i]])}")
      meta.append({"kind": "compact_tolerance", "nv": nv, "nvmax_pad": nvp, "tol": float(tol[i])})
  return lines, meta


def pad_cases():
  from mujoco_warp._src import io

  ns = list(range(0, 70)) + [127, 128, 129, 1000]
  return [f"tvz (map nvmax_pad {zl(ns)})%Z {zl([io._nvmax_pad(n) for n in ns])}"], [{"kind": "nvmax_pad"}]


# ---------------------------------------------------------------- oracle on the real solver
def close(a, b, rtol):
  a, b = np.asarray(a, dtype=np.float64), np.asarray(b, dtype=np.float64)
  if a.shape != b.shape or not (np.isfinite(a).all() and np.isfinite(b).all()):
    return False, float("nan")
  if a.size == 0:
    return True, 0.0
  err = float(np.abs(a - b).max())
  return err <= rtol * (1.0 + float(np.abs(a).max())), err


def oracle(res, rng, quick):
  import mujoco
  import warp as wp

  import mujoco_warp as mjw
  from mujoco_warp._src import island
  from mujoco_warp._src import solver as S

  fails = []
  RTOL = 1e-3  # both solves stop at the (rescaled) tolerance 1e-6; observed agreement is ~1e-8
  nsc = 3 if quick else 12
  for k in range(nsc):
    xml = scene(rng, int(rng.integers(2, 5)), arm=bool(k % 3 != 2), slider=bool(k % 2 == 0))
    for sparse in (False, True):
      for cone in (0, 1) if (not quick or k == 0) else ((k + int(sparse)) % 2,):
        mjm = mujoco.MjModel.from_xml_string(xml)
        mjm.opt.jacobian = mujoco.mjtJacobian.mjJAC_SPARSE if sparse else mujoco.mjtJacobian.mjJAC_DENSE
        mjm.opt.cone = cone
        mjd = mujoco.MjData(mjm)
        mjd.qvel[:] = rng.normal(0, 0.3, mjm.nv).astype(np.float32)
        mjd.ctrl[:] = rng.normal(0, 0.5, mjm.nu).astype(np.float32)
        mujoco.mj_forward(mjm, mjd)
        info = {"xml": xml, "sparse": sparse, "cone": cone, "qvel": mjd.qvel.tolist(), "ctrl": mjd.ctrl.tolist(), "seed": vlib.seed()}
        m = mjw.put_model(mjm)
        m.opt.warn_overflow = False
        nv, ntree = m.nv, m.ntree
        adr, num = m.tree_dofadr.numpy(), m.tree_dofnum.numpy()

        # (a) full solve vs compact solve, every tree awake, nvmax = nv (explicit solve_compact call)
        d = mjw.put_data(mjm, mjd, nworld=2, nvmax=nv)
        mjw.forward(m, d)
        base = {f: getattr(d, f).numpy().copy() for f in ("qacc", "qfrc_constraint", "qacc_smooth")}
        base["efc_force"] = d.efc.force.numpy().copy()
        nefc = d.nefc.numpy().copy()
        conv = not np.any(d.overflow.numpy() & 512)
        # known root cause (finding C38:compact-nefc0-..): over a sparse full model a world without
        # constraint rows reads the never-written cqfrc_constraint workspace; failures of such scenes are
        # filed under that key (the field is kept in the message)
        nefc0 = bool(sparse and np.any(nefc == 0))

        def key_for(default):
          return "C38:compact-nefc0-reads-unwritten-workspace" if nefc0 else default

        d.tree_awake = wp.array(np.ones((2, ntree), dtype=np.int32), dtype=int)
        island.update_active_dofs(m, d)
        d.qacc.zero_()
        d.qfrc_constraint.zero_()
        poison(d)
        S.solve_compact(m, d)
        conv = conv and not np.any(d.overflow.numpy() & 512)
        res.count()
        if conv:
          for f, a, b in (("qacc", base["qacc"], d.qacc.numpy()), ("qfrc_constraint", base["qfrc_constraint"], d.qfrc_constraint.numpy()), ("efc_force", base["efc_force"][0, : nefc[0]], d.efc.force.numpy()[0, : nefc[0]])):
            ok, err = close(a, b, RTOL)
            if not ok:
              fails.append((key_for(f"C38:compact-vs-full:{f}"), f"all trees awake, nvmax=nv: compact solve differs from the full solve in {f} by {err:.3g}", dict(info, kind="all_awake", field=f)))
          res.nontrivial(("all-awake", k, sparse, cone, int(nefc[0]) > 0))
        d.qacc_smooth.zero_()
        poison(d)
        S.smooth_solve_compact(m, d)
        ok, err = close(base["qacc_smooth"], d.qacc_smooth.numpy(), RTOL)
        res.count()
        if not ok:
          fails.append((key_for("C38:smooth-compact-vs-full:qacc_smooth"), f"all trees awake: smooth_solve_compact differs from the full smooth solve by {err:.3g}", dict(info, kind="all_awake_smooth")))

        # (a') the same through the public entry points: SLEEP-enabled model (solve() routes to solve_compact)
        mjm2 = mujoco.MjModel.from_xml_string(xml)
        mjm2.opt.jacobian, mjm2.opt.cone = mjm.opt.jacobian, cone
        mjm2.opt.enableflags |= mujoco.mjtEnableBit.mjENBL_SLEEP
        m2 = mjw.put_model(mjm2)
        m2.opt.warn_overflow = False
        d2 = mjw.put_data(mjm2, mjd, nworld=2)
        poison(d2)
        mjw.forward(m2, d2)
        res.count()
        if conv and np.all(d2.tree_awake.numpy() == 1) and not np.any(d2.overflow.numpy() & 512):
          for f, a, b in (("qacc", base["qacc"], d2.qacc.numpy()), ("qfrc_constraint", base["qfrc_constraint"], d2.qfrc_constraint.numpy())):
            ok, err = close(a, b, RTOL)
            if not ok:
              fails.append((key_for(f"C38:sleep-forward-vs-full:{f}"), f"SLEEP enabled, every tree awake: forward differs from the no-sleep forward in {f} by {err:.3g}", dict(info, kind="sleep_forward", field=f)))

        # (b) forced masks: frozen dofs are exactly zero; active dofs of the smooth solve equal the full one
        for trial in range(2 if quick else 4):
          aw = rng.choice([0, 1], (2, ntree)).astype(np.int32)
          aw[0, int(rng.integers(0, ntree))] = 0
          d.tree_awake = wp.array(aw, dtype=int)
          d.overflow.zero_()
          island.update_active_dofs(m, d)
          d.qacc.fill_(3.0)
          d.qfrc_constraint.fill_(3.0)
          d.qacc_smooth.fill_(3.0)
          poison(d)
          S.smooth_solve_compact(m, d)
          qs = d.qacc_smooth.numpy().copy()
          S.solve_compact(m, d)
          qa, qf = d.qacc.numpy(), d.qfrc_constraint.numpy()
          res.count()
          for w in range(2):
            frozen = np.concatenate([np.arange(adr[t], adr[t] + num[t]) for t in range(ntree) if aw[w, t] != 1] or [np.zeros(0, dtype=int)]).astype(int)
            active = np.setdiff1d(np.arange(nv), frozen)
            for f, arr in (("qacc", qa), ("qfrc_constraint", qf), ("qacc_smooth", qs)):
              if frozen.size and np.any(arr[w, frozen] != 0.0):
                fails.append((key_for(f"C38:frozen-nonzero:{f}"), f"tree_awake {aw[w].tolist()}: {f} of a frozen dof is {arr[w, frozen].tolist()}", dict(info, kind="frozen", tree_awake=aw.tolist(), world=w, field=f)))
              if not np.isfinite(arr[w]).all():
                fails.append((key_for(f"C38:non-finite:{f}"), f"tree_awake {aw[w].tolist()}: {f} not finite", dict(info, kind="frozen", tree_awake=aw.tolist(), world=w, field=f)))
            ok, err = close(base["qacc_smooth"][w, active], qs[w, active], RTOL)
            if not ok:
              fails.append((key_for("C38:smooth-compact-active:qacc_smooth"), f"tree_awake {aw[w].tolist()}: active dofs of smooth_solve_compact differ from the full smooth solve by {err:.3g} (M is block diagonal per tree)", dict(info, kind="frozen", tree_awake=aw.tolist(), world=w, field="qacc_smooth_active")))
          res.nontrivial(("frozen", k, sparse, cone, tuple(aw.reshape(-1).tolist())))

        # (c) capacity: NVMAX bit iff active dofs > nvmax, ncdof clamped
        for nvmax in sorted(set(int(x) for x in rng.integers(0, nv + 1, 3)) | {nv}):
          dk = mjw.put_data(mjm, mjd, nworld=2, nvmax=nvmax)
          aw = rng.choice([0, 1, 1], (2, ntree)).astype(np.int32)
          dk.tree_awake = wp.array(aw, dtype=int)
          island.update_active_dofs(m, dk)
          res.count()
          for w in range(2):
            nact = int(sum(int(num[t]) for t in range(ntree) if aw[w, t] == 1))
            bit = bool(int(dk.overflow.numpy()[w]) & NVMAX_BIT)
            nc = int(dk.ncdof.numpy()[w])
            if bit != (nact > nvmax) or nc != min(nact, nvmax):
              fails.append(("C38:nvmax-bit", f"nvmax={nvmax}, active dofs {nact}: NVMAX bit {int(bit)}, ncdof {nc}", dict(info, kind="nvmax", nvmax=nvmax, tree_awake=aw.tolist(), world=w)))
          res.nontrivial(("nvmax", k, nvmax))
  # (d) trees that fall asleep by themselves: their dofs have exactly zero qacc
  xml = scene(np.random.default_rng(vlib.seed() + 380), 3)
  mjm = mujoco.MjModel.from_xml_string(xml)
  mjm.opt.enableflags |= mujoco.mjtEnableBit.mjENBL_SLEEP
  mjd = mujoco.MjData(mjm)
  mujoco.mj_forward(mjm, mjd)
  m = mjw.put_model(mjm)
  m.opt.warn_overflow = False
  d = mjw.put_data(mjm, mjd, nworld=2)
  adr, num = m.tree_dofadr.numpy(), m.tree_dofnum.numpy()
  slept = 0
  for step in range(160 if quick else 600):
    mjw.step(m, d)
    if step % 20 == 19:
      aw, qa = d.tree_awake.numpy(), d.qacc.numpy()
      res.count()
      for w in range(2):
        for t in range(m.ntree):
          if aw[w, t] != 1:
            slept += 1
            if np.any(qa[w, adr[t] : adr[t] + num[t]] != 0.0):
              fails.append(("C38:frozen-nonzero:qacc-natural-sleep", f"step {step}: tree {t} asleep but qacc {qa[w, adr[t] : adr[t] + num[t]].tolist()}", {"xml": xml, "kind": "natural", "steps": step + 1, "seed": vlib.seed()}))
  res.extra["natural_sleep_checks"] = slept
  if slept:
    res.nontrivial(("natural-sleep", slept > 0))
  return fails


SCRATCH_C = ("cM", "cqLD", "crhs", "cx", "cJ", "cMa", "cqfrc_smooth", "cqacc_smooth", "cqacc_warmstart", "cqacc", "cqfrc_constraint")


def poison(d, value=float("nan")):
  """The compact workspaces are allocated with wp.empty (io._allocate_compact_arrays): their content is
  unspecified until a gather writes them.  Fill them with `value` so that any read of an element that
  was never written shows up in the result instead of depending on what the allocator handed out."""
  for f in SCRATCH_C:
    a = getattr(d, f, None)
    if a is not None and a.size:
      a.fill_(value)


NEFC0_XML = '<mujoco><option jacobian="{jac}"/><worldbody><geom type="plane" size="5 5 .1"/><body pos="0 0 1"><freejoint/><geom type="sphere" size=".1"/></body></worldbody></mujoco>'


def nefc0_case(jac, fill):
  """Free-falling sphere (no constraint rows), SLEEP enabled so that forward() uses the compact solve."""
  import mujoco

  import mujoco_warp as mjw

  mjm = mujoco.MjModel.from_xml_string(NEFC0_XML.format(jac=jac))
  mjm.opt.enableflags |= mujoco.mjtEnableBit.mjENBL_SLEEP
  mjd = mujoco.MjData(mjm)
  mujoco.mj_forward(mjm, mjd)
  m = mjw.put_model(mjm)
  d = mjw.put_data(mjm, mjd)
  poison(d, fill)
  mjw.forward(m, d)
  return int(d.nefc.numpy()[0]), d.qacc.numpy()[0].tolist(), d.qfrc_constraint.numpy()[0].tolist(), mjd.qacc.tolist()


def runtime_tolerance_case(tol_mjm, tol_rt, states_seed, nworld=4):
  """Full solve vs compact solve (every tree awake, nvmax = nv) when m.opt.tolerance is changed on the
  Model after make_data.  Returns (niter_full, niter_compact, per-world relative qacc difference, ctol)."""
  import mujoco
  import warp as wp

  import batchkit as BK
  import mujoco_warp as mjw
  from mujoco_warp._src import island
  from mujoco_warp._src import solver as S

  mjm = mujoco.MjModel.from_xml_string(BK.RICH_XML)
  mjm.opt.tolerance = tol_mjm
  mjm.opt.iterations = 100
  ds = BK.random_states(np.random.default_rng(states_seed), mjm, nworld)
  m = mjw.put_model(mjm)
  m.opt.warn_overflow = False
  d = mjw.make_data(mjm, nworld=nworld, nvmax=mjm.nv, nconmax=64, njmax=256)
  BK.load_states(mjw, mjm, d, ds, list(range(nworld)))
  m.opt.tolerance = wp.array([tol_rt], dtype=float)  # what io.override_model(m, {"opt.tolerance": ..}) does
  mjw.forward(m, d)
  base, nb = d.qacc.numpy().copy(), d.solver_niter.numpy().copy()
  d.tree_awake = wp.array(np.ones((nworld, m.ntree), dtype=np.int32), dtype=int)
  island.update_active_dofs(m, d)
  d.qacc.zero_()
  S.solve_compact(m, d)
  q = d.qacc.numpy()
  rel = np.abs(q.astype(np.float64) - base).max(axis=1) / (1.0 + np.abs(base).max(axis=1))
  return nb.tolist(), d.solver_niter.numpy().tolist(), rel.tolist(), float(d.ctol.numpy()[0])


def reuse_sequence(xml, sparse, nvmax, masks, qvel, poisoned=True):
  """Drive ONE Data (SLEEP-free model, explicit compact calls) through the awake masks; after each mask compare
  with a FRESH Data in the same mask and with the full solve.  Returns the list of failures (dicts)."""
  import mujoco
  import warp as wp

  import mujoco_warp as mjw
  from mujoco_warp._src import island
  from mujoco_warp._src import solver as S

  mjm = mujoco.MjModel.from_xml_string(xml)
  mjm.opt.jacobian = mujoco.mjtJacobian.mjJAC_SPARSE if sparse else mujoco.mjtJacobian.mjJAC_DENSE
  mjd = mujoco.MjData(mjm)
  mjd.qvel[:] = qvel
  mujoco.mj_forward(mjm, mjd)
  m = mjw.put_model(mjm)
  m.opt.warn_overflow = False
  nv, ntree = m.nv, m.ntree
  adr, num = m.tree_dofadr.numpy(), m.tree_dofnum.numpy()

  def fresh():
    dk = mjw.put_data(mjm, mjd, nworld=1, nvmax=nvmax)
    mjw.forward(m, dk)
    return dk

  def apply(dk, aw):
    dk.tree_awake = wp.array(np.asarray([aw], dtype=np.int32), dtype=int)
    dk.overflow.zero_()
    island.update_active_dofs(m, dk)
    for f in ("qacc", "qfrc_constraint", "qacc_smooth"):
      getattr(dk, f).fill_(3.0)
    if poisoned:
      poison(dk)
    S.smooth_solve_compact(m, dk)
    qs = dk.qacc_smooth.numpy()[0].copy()
    S.solve_compact(m, dk)
    return {"dof_cdof": dk.dof_cdof.numpy()[0].copy(), "ncdof": int(dk.ncdof.numpy()[0]), "overflow": int(dk.overflow.numpy()[0]), "qacc_smooth": qs, "qacc": dk.qacc.numpy()[0].copy(), "qfrc_constraint": dk.qfrc_constraint.numpy()[0].copy()}

  d = fresh()
  base_smooth = d.qacc_smooth.numpy()[0].copy()  # full smooth solve (M is block diagonal per tree)
  fails = []
  for step, aw in enumerate(masks):
    got = apply(d, aw)
    ref = apply(fresh(), aw)
    frozen = np.concatenate([np.arange(adr[t], adr[t] + num[t]) for t in range(ntree) if aw[t] != 1] or [np.zeros(0, dtype=int)]).astype(int)
    active = np.setdiff1d(np.arange(nv), frozen)
    what = None
    if got["overflow"] & NVMAX_BIT:
      what = f"NVMAX bit set with {active.size} active dofs <= nvmax {nvmax}"
    elif not np.array_equal(got["dof_cdof"], ref["dof_cdof"]) or got["ncdof"] != ref["ncdof"]:
      what = f"dof_cdof of the reused Data {got['dof_cdof'].tolist()} differs from a fresh Data {ref['dof_cdof'].tolist()}"
    else:
      for f in ("qacc", "qacc_smooth", "qfrc_constraint"):
        if frozen.size and np.any(got[f][frozen] != 0.0):
          what = f"{f} of frozen dofs {frozen.tolist()} is {got[f][frozen].tolist()}"
          break
        ok, err = close(ref[f], got[f], 1e-4)
        if not ok:
          what = f"{f} of the reused Data differs from a fresh Data in the same sleep state by {err:.3g}"
          break
      if what is None:
        ok, err = close(base_smooth[active], got["qacc_smooth"][active], 1e-3)
        if not ok:
          what = f"qacc_smooth of the awake trees differs from the full solve by {err:.3g}"
    if what:
      fails.append({"step": step, "tree_awake": list(map(int, aw)), "what": what})
  return fails, nv, d.nvmax_pad


def reuse_oracle(res, rng, quick):
  out = []
  for k in range(2 if quick else 8):
    nfree = int(rng.integers(4, 6))
    xml = scene(rng, nfree, arm=bool(k % 2), slider=True)
    import mujoco

    mjm = mujoco.MjModel.from_xml_string(xml)
    ntree, nv = mjm.ntree, mjm.nv
    num = [int(x) for x in mjm.tree_dofnum]
    nvmax = 12  # nvmax_pad = 16 < nv (>= 25)
    qvel = rng.normal(0, 0.3, nv).astype(np.float32).tolist()
    masks = []
    for s in range(5 if quick else 10):  # alternate: a high-index tree awake, then asleep with a low one awake
      aw = [0] * ntree
      hi = ntree - 1 - int(rng.integers(0, 3))
      lo = int(rng.integers(0, 2))
      for t in ([hi, ntree - 1] if s % 2 == 0 else [lo]):
        if sum(num[u] for u in range(ntree) if aw[u]) + num[t] <= nvmax:
          aw[t] = 1
      masks.append(aw)
    for sparse in (False, True):
      fails, nv_, nvp = reuse_sequence(xml, sparse, nvmax, masks, qvel)
      res.count(len(masks))
      res.nontrivial(("reuse", k, sparse, nv_, nvp))
      if fails:
        f = fails[0]
        out.append(("C38:reused-data-stale-compaction-map", f"one Data driven through awake sets {masks} (nv={nv_}, nvmax={nvmax}, nvmax_pad={nvp}, {'sparse' if sparse else 'dense'}): at step {f['step']} (tree_awake {f['tree_awake']}) {f['what']}", {"kind": "reuse", "xml": xml, "sparse": sparse, "nvmax": nvmax, "masks": masks, "qvel": qvel, "step": f["step"]}))
  return out


def rescale_gen(rng, n):
  nv = rng.integers(1, 120, n).astype(np.int32)
  mi = (10.0 ** rng.uniform(-3, 2, n)).astype(np.float32)
  x = (rng.standard_normal(n) * 10.0 ** rng.uniform(-8, 2, n)).astype(np.float32)
  return [nv, mi, x]


def run(res):
  import tvalid

  quick = res.tier == "quick"
  res.rule = "correspondence cases: one per (world, kernel) launch on synthetic tree tables / awake masks / capacities and on real models (exact integer comparison); distinct = (kernel, nv, ncdof / overflow / all-awake / none-awake classes); oracle: scenes x jacobian x cone x awake masks x capacities"
  ok, trs, failing = propkit.prove(res, "Props/C38.v", gen_names=["solver_term", "Skel_pipeline"], required_funcs=["_rescale"])
  sbad = source_facts(res, trs["Skel_pipeline"]) if trs.get("Skel_pipeline") is not None else ["Skel_pipeline generator failed"]
  with vlib.Lock():
    okg, outg, failg = vlib.coq_make(["Gen/solver_term.vo", "Model/Compact.vo"])
  if not okg:
    res.obligation("build: Gen/solver_term.vo Model/Compact.vo", False, f"first failure at {failg}")
    ok, failing = False, failing or failg
  vlib.log(f"[C38] proofs built, {time.time() - res.t0:.0f}s")
  g = trs.get("solver_term")
  tbad = []
  if okg and g is not None and g.tr is not None and "_rescale" in g.signatures():
    tv = tvalid.TValid("C38t", g.tr, "Gen.solver_term")
    tv.add("_rescale", gen=rescale_gen, tol=1e-5)
    tbad, _ = tv.run(res, n_per_fn=100 if quick else 1000)
    res.obligation("T-validation: translated solver._rescale agrees with compiled Warp", not tbad, f"{len(tbad)} disagreements")

  rng = np.random.default_rng(vlib.seed() + 38)
  l1, m1 = map_cases(res, rng, 60 if quick else 600)
  l2, m2 = gather_cases(res, rng, 6 if quick else 40)
  l3, m3 = pad_cases()
  l4, m4 = solver_entry_cases(res, rng, 6 if quick else 40)
  l5, m5 = stale_map_cases(res, rng, 3 if quick else 20)
  lines, meta = l1 + l2 + l3 + l4 + l5, m1 + m2 + m3 + m4 + m5
  vlib.log(f"[C38] real kernels launched ({len(lines)} cases), {time.time() - res.t0:.0f}s")
  dis = []
  if okg:
    verdicts = tvalid.run_cases("C38", ["Model.Compact"], lines, chunk=120)
    res.count(len(verdicts))
    dis = [meta[i] for i, v in enumerate(verdicts) if v == 2]
    per = {}
    for mm_, v in zip(meta, verdicts):
      s = per.setdefault(mm_["kind"], [0, 0])
      s[0 if v == 0 else 1] += 1
    res.extra["correspondence"] = {k: {"agree": a, "disagree": b} for k, (a, b) in per.items()}
    res.obligation("correspondence: Model/Compact.v vs the real kernels (maps, inertia, J, vectors, nvmax_pad), exact", not dis and len(verdicts) > 0, f"{len(verdicts)} cases, {len(dis)} disagree")
    res.sample({"kind": "correspondence", **{k: v for k, v in m1[0].items()}})
  vlib.log(f"[C38] correspondence done, {time.time() - res.t0:.0f}s")

  # the property on the real kernel outputs of the synthetic cases (independent of the Coq model)
  fails = []
  for c in m1:
    nact = sum(n for n, a in zip(c["tree_dofnum"], c["tree_awake"]) if a == 1)
    ncd, ovf = c["real"][0], c["real"][1]
    dc = c["real"][2 : 2 + c["nv"]]
    cd = c["real"][2 + c["nv"] :]
    awake_dofs = [a + j for a, n, w in zip(c["tree_dofadr"], c["tree_dofnum"], c["tree_awake"]) if w == 1 for j in range(n)]
    bit_new = bool(ovf & NVMAX_BIT) and not (c["overflow_in"] & NVMAX_BIT)
    bad = None
    if not (c["overflow_in"] & NVMAX_BIT) and bit_new != (nact > c["nvmax"]):
      bad = f"NVMAX bit {int(bit_new)} with {nact} active dofs and nvmax {c['nvmax']}"
    elif ncd != min(nact, c["nvmax"]):
      bad = f"ncdof {ncd} != min({nact}, {c['nvmax']})"
    elif nact <= c["nvmax"]:
      if [dc[x] for x in awake_dofs] != list(range(nact)) or cd[:nact] != awake_dofs or any(v != -1 for i, v in enumerate(dc) if i not in awake_dofs) or any(v != -1 for v in cd[nact:]):
        bad = f"maps are not the order-preserving bijection: dof_cdof {dc}, cdof_dof {cd}"
    if bad:
      fails.append(("C38:compact-maps", bad, c))
  fails += oracle(res, rng, quick)
  fails += reuse_oracle(res, rng, quick)
  # (f) a world without constraint rows: the compact solve must not read a workspace it never wrote
  for jac in ("sparse", "dense"):
    for fill in (1.0, float("nan")):
      nefc, qacc, qfc, ref = nefc0_case(jac, fill)
      res.count()
      ok, err = close(ref, qacc, 1e-4)
      ok2 = bool(np.isfinite(qfc).all()) and float(np.abs(qfc).max()) < 1e-3
      if not (ok and ok2):
        fails.append(("C38:compact-nefc0-reads-unwritten-workspace", f"free-falling sphere, jacobian={jac}, SLEEP enabled, nefc={nefc}, compact workspaces pre-filled with {fill}: qacc {qacc} (MuJoCo {ref}), qfrc_constraint {qfc}", {"kind": "nefc0", "jacobian": jac, "fill": str(fill), "xml": NEFC0_XML.format(jac=jac)}))
      res.nontrivial(("nefc0", jac))
  # (e) tolerance changed on the Model after make_data: the compact solve keeps the tolerance frozen into
  #     d.ctol from mjm.opt.tolerance, the full solve follows m.opt.tolerance
  for tol_mjm, tol_rt in ((0.3, 1e-6), (1e-8, 0.3)):
    nb, nc, rel, ctol = runtime_tolerance_case(tol_mjm, tol_rt, vlib.seed())
    res.count()
    res.extra.setdefault("runtime_tolerance", []).append({"mjm_tolerance": tol_mjm, "model_tolerance_at_solve": tol_rt, "ctol": ctol, "niter_full": nb, "niter_compact": nc, "rel_qacc_diff": rel})
    if max(rel) > 1e-3:
      fails.append(("C38:compact-vs-full:runtime-tolerance-ignored", f"m.opt.tolerance set to {tol_rt} after make_data (mjm.opt.tolerance was {tol_mjm}): full solve niter {nb}, compact solve niter {nc} (d.ctol = {ctol:.3g} is the value frozen at make_data), qacc differs by {max(rel):.2e} relative", {"kind": "runtime_tol", "model": "batchkit.RICH_XML", "mjm_tolerance": tol_mjm, "model_tolerance_at_solve": tol_rt, "states_seed": vlib.seed(), "niter_full": nb, "niter_compact": nc, "rel_qacc_diff": rel}))
  vlib.log(f"[C38] oracle done, {time.time() - res.t0:.0f}s")
  seen = set()
  for key, what, data in fails:
    if key in seen:
      continue
    seen.add(key)
    res.violation(key, what, data)
  if dis and not fails:
    res.violation("C38:model-mismatch", "Model/Compact.v disagrees with the real compaction kernels (model no longer tied to the code)", dis[:3], found_input=False)
  if tbad and not fails:
    res.violation("C38:translator-mismatch", "translated _rescale disagrees with the compiled function", tbad[:3], found_input=False)
  if sbad and not fails:
    propkit.broken_proof_violation(res, "C38 host-side facts of the repaired compact solve (tolerance rescaling / nefc=0 flag)", "S:" + ",".join(sbad), sbad)
  elif not ok and not fails:
    propkit.broken_proof_violation(res, "C38 compaction theorems", failing)
  res.assumptions += [
    "well-formed tree tables (increasing, disjoint dof ranges inside [0,nv)); M_colind / J_colind entries are dof ids",
    "the Newton iteration on the padded problem is not modelled: the theorems locate the minimiser, the oracle compares the real solves (rtol 1e-3 of 1+|field|, converged runs only)",
    "regression cases kept under their keys: C38:compact-vs-full:runtime-tolerance-ignored (m.opt.tolerance changed after make_data) and C38:compact-nefc0-reads-unwritten-workspace (free-falling sphere, sparse, SLEEP, poisoned workspaces); both fixed in /repo",
    "d.ctol / d.cls_tol are still allocated by io but no longer read by solve_compact (checked on the source: S obligation)",
    "the compact workspaces (wp.empty) are pre-filled with NaN by the oracle before every compact solve: a read of a never-written element shows up as a non-finite or wrong result",
    "under NVMAX overflow a tree can be split between active and frozen dofs (the kernel prints 'behavior undefined'): only the prefix form of the map theorem applies",
  ]


def replay(res, path):
  import mujoco
  import warp as wp

  import mujoco_warp as mjw
  from mujoco_warp._src import island
  from mujoco_warp._src import solver as S

  r = json.load(open(path))["replay"]
  if not isinstance(r, dict):
    print("no concrete input in this replay file (broken obligation / model mismatch): re-run ./check C38")
    return 1
  if "tree_dofadr" in r:  # synthetic map case
    ncd, ovf, dc, cd = launch_maps(1, r["ntree"], r["tree_dofadr"], r["tree_dofnum"], [r["tree_awake"]], r["nvmax"], r["nv"], r["nvmax_pad"], [r["overflow_in"]])
    print("ncdof", ncd.tolist(), "overflow", ovf.tolist(), "dof_cdof", dc.tolist(), "cdof_dof", cd.tolist())
    nact = sum(n for n, a in zip(r["tree_dofnum"], r["tree_awake"]) if a == 1)
    bad = int(ncd[0]) != min(nact, r["nvmax"]) or (not (r["overflow_in"] & NVMAX_BIT) and bool(int(ovf[0]) & NVMAX_BIT) != (nact > r["nvmax"]))
    print("FAIL reproduced" if bad else "not reproduced (map order check: re-run ./check C38)")
    return 1 if bad else 0
  if r.get("kind") == "nefc0":
    nefc, qacc, qfc, ref = nefc0_case(r["jacobian"], float(r["fill"]))
    print(f"jacobian={r['jacobian']} SLEEP enabled nefc={nefc}, compact workspaces (wp.empty) pre-filled with {r['fill']}")
    print("mjwarp qacc", qacc, "qfrc_constraint", qfc)
    print("mujoco qacc", ref)
    ok, _ = close(ref, qacc, 1e-4)
    bad = not ok or not np.isfinite(qfc).all() or float(np.abs(qfc).max()) >= 1e-3
    print("FAIL reproduced" if bad else "not reproduced")
    return 1 if bad else 0
  if r.get("kind") == "reuse":
    fails, nv_, nvp = reuse_sequence(r["xml"], bool(r["sparse"]), int(r["nvmax"]), r["masks"], r["qvel"])
    print(f"nv {nv_} nvmax {r['nvmax']} nvmax_pad {nvp} masks {r['masks']}")
    for f in fails:
      print("step", f["step"], "tree_awake", f["tree_awake"], ":", f["what"][:300])
    print("FAIL reproduced" if fails else "not reproduced")
    return 1 if fails else 0
  if r.get("kind") == "runtime_tol":
    nb, nc, rel, ctol = runtime_tolerance_case(float(r["mjm_tolerance"]), float(r["model_tolerance_at_solve"]), int(r["states_seed"]))
    print(f"mjm.opt.tolerance {r['mjm_tolerance']} at make_data (d.ctol = {ctol:.4g}), m.opt.tolerance {r['model_tolerance_at_solve']} at solve time")
    print("solver_niter full", nb, "compact", nc, "relative qacc difference per world", rel)
    bad = max(rel) > 1e-3
    print("FAIL reproduced" if bad else "not reproduced")
    return 1 if bad else 0
  if "xml" not in r:
    print("no concrete input in this replay file: re-run ./check C38")
    return 1
  kind = r.get("kind")
  mjm = mujoco.MjModel.from_xml_string(r["xml"])
  if kind == "natural":
    mjm.opt.enableflags |= mujoco.mjtEnableBit.mjENBL_SLEEP
    mjd = mujoco.MjData(mjm)
    mujoco.mj_forward(mjm, mjd)
    m, d = mjw.put_model(mjm), mjw.put_data(mjm, mjd, nworld=2)
    for _ in range(int(r["steps"])):
      mjw.step(m, d)
    aw, qa = d.tree_awake.numpy(), d.qacc.numpy()
    adr, num = m.tree_dofadr.numpy(), m.tree_dofnum.numpy()
    bad = any(np.any(qa[w, adr[t] : adr[t] + num[t]] != 0) for w in range(2) for t in range(m.ntree) if aw[w, t] != 1)
    print("tree_awake", aw.tolist(), "qacc", qa.tolist())
    print("FAIL reproduced" if bad else "not reproduced")
    return 1 if bad else 0
  mjm.opt.jacobian = mujoco.mjtJacobian.mjJAC_SPARSE if r.get("sparse") else mujoco.mjtJacobian.mjJAC_DENSE
  mjm.opt.cone = int(r.get("cone", 0))
  mjd = mujoco.MjData(mjm)
  mjd.qvel[:] = r["qvel"]
  mjd.ctrl[:] = r["ctrl"]
  mujoco.mj_forward(mjm, mjd)
  m = mjw.put_model(mjm)
  m.opt.warn_overflow = False
  nvmax = int(r.get("nvmax", m.nv))
  d = mjw.put_data(mjm, mjd, nworld=2, nvmax=nvmax)
  mjw.forward(m, d)
  base_q, base_s = d.qacc.numpy().copy(), d.qacc_smooth.numpy().copy()
  aw = np.asarray(r.get("tree_awake", np.ones((2, m.ntree))), dtype=np.int32).reshape(2, m.ntree)
  d.tree_awake = wp.array(aw, dtype=int)
  d.overflow.zero_()
  island.update_active_dofs(m, d)
  print("kind", kind, "tree_awake", aw.tolist(), "nvmax", nvmax, "ncdof", d.ncdof.numpy().tolist(), "overflow", d.overflow.numpy().tolist())
  if kind == "nvmax":
    num = m.tree_dofnum.numpy()
    bad = False
    for w in range(2):
      nact = int(sum(int(num[t]) for t in range(m.ntree) if aw[w, t] == 1))
      bad |= bool(int(d.overflow.numpy()[w]) & NVMAX_BIT) != (nact > nvmax) or int(d.ncdof.numpy()[w]) != min(nact, nvmax)
    print("FAIL reproduced" if bad else "not reproduced")
    return 1 if bad else 0
  d.qacc.fill_(3.0)
  d.qfrc_constraint.fill_(3.0)
  d.qacc_smooth.fill_(3.0)
  poison(d)
  S.smooth_solve_compact(m, d)
  qs = d.qacc_smooth.numpy().copy()
  S.solve_compact(m, d)
  adr, num = m.tree_dofadr.numpy(), m.tree_dofnum.numpy()
  bad = not (np.isfinite(d.qacc.numpy()).all() and np.isfinite(d.qfrc_constraint.numpy()).all())
  for w in range(2):
    frozen = np.concatenate([np.arange(adr[t], adr[t] + num[t]) for t in range(m.ntree) if aw[w, t] != 1] or [np.zeros(0, dtype=int)]).astype(int)
    for f, arr in (("qacc", d.qacc.numpy()), ("qfrc_constraint", d.qfrc_constraint.numpy()), ("qacc_smooth", qs)):
      if frozen.size and np.any(arr[w, frozen] != 0.0):
        print(f"world {w}: frozen dofs {frozen.tolist()} have non-zero {f}: {arr[w, frozen].tolist()}")
        bad = True
    if not frozen.size:
      for f, a, b in (("qacc", base_q[w], d.qacc.numpy()[w]), ("qacc_smooth", base_s[w], qs[w])):
        ok, err = close(a, b, 1e-3)
        if not ok:
          print(f"world {w}: all trees awake, {f} differs from the full solve by {err:.3g}")
          bad = True
  print("FAIL reproduced" if bad else "not reproduced")
  print("full qacc      ", base_q.tolist())
  print("compact qacc   ", d.qacc.numpy().tolist())
  print("full qacc_smooth   ", base_s.tolist())
  print("compact qacc_smooth", qs.tolist())
  return 1 if bad else 0
