"""C06 Constrained acceleration is the convex-cost optimum (certificate part).

proof (T): force = -d cost/d jaref for every non-elliptic branch of the regenerated _eval_constraint
(including zone boundaries), row convexity, abstract n-dimensional KKT certificate, elliptic
middle-zone derivatives and C1 gluing.  Oracle on the real code: efc_force recomputed from qacc,
KKT residual, qacc vs MuJoCo."""

from __future__ import annotations

import numpy as np

import propkit
import vlib
from props import C24 as H

MANIFEST = {
  "text": "proof: over R, about the Gallina definitions regenerated on every run from solver.py: for equality, friction-loss and limit/frictionless/pyramidal rows the force returned by _eval_constraint is minus the derivative of the returned cost at every jaref incl. zone boundaries, the cost is convex and C1 (D-Lipschitz gradient); abstract finite-dimensional KKT theorem: M symmetric PSD + convex row costs + stationarity M(a-a0)=J'f(a) imply a is the global minimiser of the Gauss cost, instantiated for systems of such rows and, via first-order convexity of the whole elliptic contact block (all three zones, Cauchy-Schwarz + 2-D convexity of the distance-to-cone profile, row masses D_k mu^2 = D_0 mu_k^2), for any mix of simple rows and elliptic contacts (kkt_certificate_system); per-branch derivative identities and C1 gluing of the elliptic middle zone; _state_check is the per-row second derivative; the line-search friction cost equals the reported cost. tested only (per input, a posteriori): that Newton/CG reach the stationary point (KKT residual small, qacc agrees with mujoco.mj_forward), efc_force equals the force implied by qacc, float32",
  "note": "trusted: Coq kernel; translator bin/translate.py (validated each run against the compiled Warp functions); numpy port of _eval_constraint used by the oracle (cross-checked each run against the compiled function); Coquelicot auto_derive for the elliptic derivative lemmas; real-number axioms",
  "technique": "Rocq proof over functions machine-translated from the source (T) + a-posteriori optimality certificate and differential oracle vs MuJoCo",
  "engine": "coq",
}

PROPS = "Props/C06.v"
FUNCS = ["_eval_constraint", "_eval_elliptic_middle", "_eval_frictionloss_cost", "_state_check"]


# ---------------------------------------------------------------------------------------------
# float64 numpy port of _eval_constraint (mirror of Gen/solver.v), cross-checked against the
# compiled Warp function on every run
# ---------------------------------------------------------------------------------------------
def safe_div(x, y):
  return x / (y if y != 0.0 else 1e-15)


def eval_constraint64(ie, ifr, iel, jaref, D, fl, efcid, efcid0, jaref0, D0, mu, uf, TT):
  if ie:
    return -D * jaref, 1, 0.5 * D * jaref * jaref
  if ifr:
    rf = safe_div(fl, D)
    if jaref <= -rf:
      return fl, 2, -fl * (0.5 * rf + jaref)
    if jaref >= rf:
      return -fl, 3, -fl * (0.5 * rf - jaref)
    return -D * jaref, 1, 0.5 * D * jaref * jaref
  if iel:
    N = jaref0 * mu
    T = 0.0 if TT <= 0.0 else float(np.sqrt(TT))
    if N >= mu * T or (T <= 0.0 and N >= 0.0):
      return 0.0, 0, 0.0
    if mu * N + T <= 0.0 or (T <= 0.0 and N < 0.0):
      return -D * jaref, 1, 0.5 * D * jaref * jaref
    dm = safe_div(D0, mu * mu * (1.0 + mu * mu))
    nmt = N - mu * T
    fn = -dm * nmt * mu
    if efcid == efcid0:
      return fn, 4, 0.5 * dm * nmt * nmt
    return -safe_div(fn, T) * uf, 4, 0.0
  if jaref >= 0.0:
    return 0.0, 0, 0.0
  return -D * jaref, 1, 0.5 * D * jaref * jaref


def port_crosscheck(res, tv, n):
  """numpy port vs the compiled Warp _eval_constraint on random inputs (force/cost to 1e-3, state exact off ties)."""
  import warp as wp

  W = tv._load_wrappers()
  rng = np.random.default_rng(vlib.seed() + 606)
  ins = H.gen_eval_constraint(rng, n)
  wins = [wp.array(np.ascontiguousarray(a), dtype=(wp.bool if a.dtype == np.bool_ else wp.int32 if a.dtype == np.int32 else wp.float32)) for a in ins]
  out = wp.zeros(n, dtype=wp.vec3)
  wp.launch(W.k__eval_constraint, dim=n, inputs=wins, outputs=[out])
  wp.synchronize()
  o = out.numpy().astype(np.float64)
  bad = []
  nstate = 0
  for i in range(n):
    a = [x[i].item() for x in ins]
    f, s, c = eval_constraint64(*a)
    if not np.all(np.isfinite(o[i])) or not np.isfinite(f):
      continue
    if int(o[i, 1]) != s:
      nstate += 1  # near-tie branch decided differently in float32: force/cost are continuous, compare loosely
      continue
    if abs(f - o[i, 0]) > 2e-3 * (1 + abs(f)) or abs(c - o[i, 2]) > 2e-3 * (1 + abs(c)):
      bad.append({"inputs": a, "port": [f, s, c], "compiled": o[i].tolist()})
  res.count(n)
  res.extra["port_crosscheck"] = {"cases": n, "state_ties": nstate, "disagree": len(bad)}
  if nstate > 0.02 * n:
    bad.append({"state_mismatches": nstate, "of": n})
  return bad


# ---------------------------------------------------------------------------------------------
# oracle after forward()
# ---------------------------------------------------------------------------------------------
def certificate(m, d, mm, dd, cfg):
  """(failures, stats) for one forwarded scene: force-from-qacc, KKT residual, qacc vs MuJoCo.
  d: one MjData (all worlds share its state) or a list with one MjData per world."""
  import mujoco

  from mujoco_warp._src import types

  fails = []
  st = {"rows": 0, "worst_force": 0.0, "worst_kkt": 0.0, "worst_qacc": 0.0, "niter": 0}
  nv = m.nv
  dlist = d if isinstance(d, list) else [d] * dd.nworld  # MuJoCo data per world (heterogeneous batches)
  hetero = isinstance(d, list)
  typ, state = dd.efc.type.numpy(), dd.efc.state.numpy()
  force = dd.efc.force.numpy().astype(np.float64)
  D, fl, aref, eid = dd.efc.D.numpy().astype(np.float64), dd.efc.frictionloss.numpy().astype(np.float64), dd.efc.aref.numpy().astype(np.float64), dd.efc.id.numpy()
  qacc, qsm = dd.qacc.numpy().astype(np.float64), dd.qfrc_smooth.numpy().astype(np.float64)
  cdim, cfric, cadr = dd.contact.dim.numpy(), dd.contact.friction.numpy().astype(np.float64), dd.contact.efc_address.numpy()
  impr = mm.opt.impratio_invsqrt.numpy().astype(np.float64)
  nacon = int(dd.nacon.numpy()[0])
  niter = dd.solver_niter.numpy()
  ELL = int(types.ConstraintType.CONTACT_ELLIPTIC)
  nefc_a, ne_a, nf_a = dd.nefc.numpy(), dd.ne.numpy(), dd.nf.numpy()
  Mcache = None
  for w in range(dd.nworld if nv else 0):
    d = dlist[w]
    if Mcache is None or hetero:
      M = np.zeros((nv, nv))
      for i in range(nv):  # inertia matrix column by column (MuJoCo, float64, this world's configuration)
        e = np.zeros(nv)
        e[i] = 1.0
        col = np.zeros(nv)
        mujoco.mj_mulM(m, d, col, e)
        M[:, i] = col
      Mcache = M
    nefc, ne, nf = int(nefc_a[w]), int(ne_a[w]), int(nf_a[w])
    st["rows"] += nefc
    st["niter"] = max(st["niter"], int(niter[w]))
    a = qacc[w, :nv]
    if not np.all(np.isfinite(a)):
      fails.append({"site": "qacc-nonfinite", "world": w})
      continue
    J = H.efc_J_dense(mm, dd, w, nefc, nv) if nefc else np.zeros((0, nv))
    jar = J @ a - aref[w, :nefc]
    jscale = np.abs(J) @ np.abs(a) + np.abs(aref[w, :nefc])
    # (i) force implied by qacc
    for r in range(nefc):
      ie, ifr = r < ne, (r >= ne and r < ne + nf)
      iel = int(typ[w, r]) == ELL
      args = dict(efcid0=-1, jaref0=0.0, D0=0.0, mu=0.0, uf=0.0, TT=0.0)
      tscale = 0.0
      if iel:
        c = int(eid[w, r])
        if c >= nacon or cadr[c, 0] < 0:
          continue
        a0 = int(cadr[c, 0])
        mu = cfric[c, 0] * impr[w % len(impr)]
        TT, uf = 0.0, 0.0
        for j in range(1, int(cdim[c])):
          aj = int(cadr[c, j])
          uj = jar[aj] * cfric[c, j - 1]
          TT += uj * uj
          tscale = max(tscale, jscale[aj] * cfric[c, j - 1], jscale[a0] * mu)
          if aj == r:
            uf = uj * cfric[c, j - 1]
        args = dict(efcid0=a0, jaref0=jar[a0], D0=D[w, a0], mu=mu, uf=uf, TT=TT)
      f, s, cst = eval_constraint64(ie, ifr, iel, jar[r], D[w, r], fl[w, r] if ifr else 0.0, r, **args)
      # tolerance: float32 accumulation error of jaref (1e-5 of its term magnitudes) times the row stiffness
      if iel:
        a0 = args["efcid0"]
        stiff = max(D[w, r], D[w, a0] * (1 + 1 / max(args["mu"], 1e-6) ** 2))
        tol = 1e-5 * stiff * max(jscale[r], tscale, jscale[a0]) * 4 + 1e-5 * abs(f) + 1e-6
      else:
        tol = 1e-5 * D[w, r] * jscale[r] + 1e-5 * abs(f) + 1e-6
      err = abs(f - force[w, r])
      st["worst_force"] = max(st["worst_force"], err / tol)
      if err > tol:
        fails.append({"site": "force-from-qacc", "world": w, "row": r, "type": int(typ[w, r]), "state": int(state[w, r]), "efc_force": force[w, r], "recomputed": f, "recomputed_state": s, "jaref": jar[r], "D": D[w, r], "tol": tol})
    # (ii) KKT residual of the reported solution
    res_v = M @ a - qsm[w, :nv] - (J.T @ force[w, :nefc] if nefc else 0.0)
    scale = np.abs(M) @ np.abs(a) + np.abs(qsm[w, :nv]) + (np.abs(J).T @ np.abs(force[w, :nefc]) if nefc else 0.0)
    # per dof, relative to that dof's term magnitudes plus 1e-3 of the world's largest (float32 M*qacc and J'f carry
    # rounding errors proportional to the largest terms of the world; the solver's own criterion is a global norm)
    den = scale + 1e-3 * float(np.max(scale)) + 1e-6
    kkt = float(np.max(np.abs(res_v) / den))
    # ... and only when the residual matters in energy: 1/2 g' M^-1 g bounds the cost decrease still available
    # (H >= M); below ~1e-6 of the cost's natural scale it is under the float32 resolution of the cost the line
    # search evaluates, i.e. within the solver's attainable tolerance
    nat_k = float(a @ M @ a + qsm[w, :nv] @ np.linalg.solve(M, qsm[w, :nv]) + np.sum(D[w, :nefc] * jscale**2))
    energy = 0.5 * float(res_v @ np.linalg.solve(M, res_v))
    if energy <= 1e-6 * nat_k:
      kkt = min(kkt, cfg["kkt_tol"])
    # CG that stopped at its iteration cap did not terminate by the tolerance criterion: optimality is not claimed for
    # that solve (counted; Newton reaching its cap is still certified - it never should on these problems)
    capped = cfg.get("solver") == "CG" and int(niter[w]) >= int(m.opt.iterations)
    if capped:
      st["cg_capped"] = st.get("cg_capped", 0) + 1
      kkt = min(kkt, cfg["kkt_tol"])
    st["worst_kkt"] = max(st["worst_kkt"], kkt)
    st["worst_energy"] = max(st.get("worst_energy", 0.0), energy / (nat_k + 1e-30))
    if kkt > cfg["kkt_tol"]:
      i = int(np.argmax(np.abs(res_v) / den))
      fails.append({"site": "kkt-residual", "world": w, "dof": i, "residual": float(res_v[i]), "scale": float(scale[i]), "relative": kkt, "niter": int(niter[w])})
    # (iii) against MuJoCo, when both built the same constraint set: MuJoCo's qacc must not have a lower
    # Gauss cost (evaluated in float64 on MJWarp's own J, aref, D with the port), and qacc agrees loosely
    if (w == 0 or hetero) and not capped and H.same_constraints(m, d, dd, w, frames=(cfg["cone"] == "pyramidal")):
      st["compared"] = st.get("compared", 0) + 1
      Minv_q = np.linalg.solve(M, qsm[w, :nv]) if nv else np.zeros(0)
      # the two engines must be solving the same problem: row masses per constraint type as multisets
      dbad = None
      for t in sorted(set(int(x) for x in d.efc_type)):
        dm_ = np.sort(np.asarray(d.efc_D)[np.asarray(d.efc_type) == t])
        dw_ = np.sort(D[w, :nefc][typ[w, :nefc] == t])
        if len(dm_) != len(dw_) or np.any(np.abs(dm_ - dw_) > 1e-3 * np.abs(dm_) + 1e-9):
          dbad = {"site": "efc_D-vs-mujoco", "world": w, "type": t, "jacobian": cfg["jacobian"], "mujoco_D": dm_.tolist()[:12], "mjw_D": dw_.tolist()[:12]}
          break
      if dbad is not None:
        dbad["qacc_relative_error"] = float(np.max(np.abs(a - d.qacc)) / (np.max(np.abs(d.qacc)) + 1.0))
        fails.append(dbad)
        continue

      def gauss(acc):
        e = acc - Minv_q
        tot = 0.5 * e @ M @ e
        jr = J @ acc - aref[w, :nefc]
        for r in range(nefc):
          ie, ifr = r < ne, (r >= ne and r < ne + nf)
          iel = int(typ[w, r]) == ELL
          kw = dict(efcid0=-1, jaref0=0.0, D0=0.0, mu=0.0, uf=0.0, TT=0.0)
          if iel:
            c = int(eid[w, r])
            a0 = int(cadr[c, 0])
            TT = sum((jr[int(cadr[c, j])] * cfric[c, j - 1]) ** 2 for j in range(1, int(cdim[c])))
            kw = dict(efcid0=a0, jaref0=jr[a0], D0=D[w, a0], mu=cfric[c, 0] * impr[w % len(impr)], uf=0.0, TT=TT)
          tot += eval_constraint64(ie, ifr, iel, jr[r], D[w, r], fl[w, r] if ifr else 0.0, r, **kw)[2]
        return tot

      g_w, g_m = gauss(a), gauss(np.asarray(d.qacc, dtype=np.float64))
      # float32 qacc (relative error ~1e-6) perturbs the cost by ~1e-12 of its natural scale: the denominator carries
      # 1e-5 of that scale so that an essentially-zero cost is not compared in relative terms
      nat = float(a @ M @ a + Minv_q @ M @ Minv_q + np.sum(D[w, :nefc] * jscale**2))
      gap = (g_w - g_m) / (abs(g_m) + abs(g_w) + 1e-5 * nat + 1e-9)
      st["worst_cost_gap"] = max(st.get("worst_cost_gap", -1.0), gap)
      if gap > cfg["cost_tol"]:
        fails.append({"site": "cost-above-mujoco", "world": w, "cost_mjw": g_w, "cost_at_mujoco_qacc": g_m, "relative_gap": gap, "niter": int(niter[w])})
      qerr = float(np.max(np.abs(a - d.qacc)) / (np.max(np.abs(d.qacc)) + 1.0))
      st["worst_qacc"] = max(st["worst_qacc"], qerr)
      if qerr > cfg["qacc_tol"]:
        fails.append({"site": "qacc-vs-mujoco", "world": w, "relative_error": qerr, "mjw": a.tolist(), "mujoco": d.qacc.tolist(), "niter": int(niter[w])})
  return fails, st


def directed_scenes():
  """Small hand-written systems run on every check in addition to the random scenes: an equality whose body has no
  joint of its own (welded to its parent), under both Jacobian storages."""
  out = []
  for jac in ("dense", "sparse"):
    for kind in ("connect", "weld"):
      eq = '<connect body1="c" body2="b" anchor="0 0 0"/>' if kind == "connect" else '<weld body1="c" body2="b"/>'
      xml = (
        f'<mujoco><option jacobian="{jac}" tolerance="1e-10"/><worldbody>'
        '<body name="a" pos="0 0 1"><freejoint/><geom size=".1"/><body name="c" pos=".3 0 0"><geom size=".05"/></body></body>'
        '<body name="b" pos="1 0 1"><freejoint/><geom size=".1"/></body>'
        f"</worldbody><equality>{eq}</equality></mujoco>"
      )
      qpos = np.array([0, 0, 1, 1, 0, 0, 0, 1.02, 0.01, 1, 1, 0, 0, 0], dtype=np.float64)
      qvel = np.array([0.3, 0, 0, 0, 0.5, 0, -0.2, 0.1, 0, 0, 0, 0.4], dtype=np.float64)
      out.append((xml, qpos, qvel, {"cone": "pyramidal", "solver": "Newton", "jacobian": jac, "impratio": 1.0, "adhesion": False, "directed": f"{kind}-on-jointless-body"}))
  return out


BATCHES = (1, 2, 7, 16, 33)


def run_batch(xml, qpos_b, qvel_b):
  """mjw.forward on a batch with one state per world; MuJoCo mj_forward per world.  Returns (m, [d_w], mm, dd)."""
  import mujoco
  import warp as wp

  import mujoco_warp as mjw

  qpos_b, qvel_b = np.atleast_2d(np.asarray(qpos_b, dtype=np.float64)), np.atleast_2d(np.asarray(qvel_b, dtype=np.float64))
  m = mujoco.MjModel.from_xml_string(xml)
  dl = []
  for w in range(len(qpos_b)):
    d = mujoco.MjData(m)
    d.qpos[:] = qpos_b[w]
    d.qvel[:] = qvel_b[w]
    mujoco.mj_forward(m, d)
    dl.append(d)
  nworld = len(dl)
  mm = mjw.put_model(m)
  big = max(dl, key=lambda d: d.nefc)
  dd = mjw.put_data(m, big, nworld=nworld, njmax=max(2 * big.nefc + 16, 32), naconmax=max(2 * sum(d.ncon for d in dl), big.ncon * nworld, max(d.ncon for d in dl) * nworld) + 16)
  dd.qpos = wp.array(qpos_b.astype(np.float32), dtype=float)
  dd.qvel = wp.array(qvel_b.astype(np.float32), dtype=float)
  mjw.forward(mm, dd)
  wp.synchronize()
  return m, dl, mm, dd


def batch_states(rng, m, nworld):
  """nworld different states of one model (float32-representable)."""
  import mujoco

  qp, qv = [], []
  for _ in range(nworld):
    d = H.make_state(rng, m, mujoco.MjData(m))
    qp.append(np.asarray(d.qpos, dtype=np.float32).astype(np.float64))
    qv.append(np.asarray(d.qvel, dtype=np.float32).astype(np.float64))
  return np.array(qp), np.array(qv)


def big_scene(rng, cone, solver):
  """More than 60 dofs (11 free bodies + a 4-link limited arm): MuJoCo/MJWarp choose the sparse Jacobian by themselves."""
  bodies = ""
  for i in range(11):
    gt = ("sphere", "capsule", "box")[i % 3]
    size = {"sphere": f"{rng.uniform(0.05, 0.09):.3g}", "capsule": f"{rng.uniform(0.03, 0.05):.3g} {rng.uniform(0.05, 0.1):.3g}", "box": f"{rng.uniform(0.04, 0.08):.3g} {rng.uniform(0.04, 0.08):.3g} {rng.uniform(0.04, 0.08):.3g}"}[gt]
    bodies += (
      f'<body name="f{i}" pos="{(i % 4) * 0.45 - 0.7:.3g} {(i // 4) * 0.45 - 0.45:.3g} 0.07"><freejoint name="fj{i}"/>'
      f'<geom type="{gt}" size="{size}" condim="{int(rng.choice([1, 3, 4, 6]))}" friction="{rng.uniform(0.3, 1.2):.3g} {rng.uniform(0.002, 0.05):.3g} {rng.uniform(0.0005, 0.01):.3g}"/></body>'
    )
  arm = '<body name="arm0" pos="1.4 0 0.5">'
  for k in range(4):
    arm += f'<joint name="h{k}" type="hinge" axis="0 1 0" limited="true" range="-0.4 0.4" frictionloss="0.05" damping="0.1"/><geom type="capsule" fromto="0 0 0 0.2 0 0" size="0.03"/><body name="arm{k + 1}" pos="0.2 0 0">'
  arm += '<geom type="sphere" size="0.03"/>' + "</body>" * 5
  xml = (
    f'<mujoco><option cone="{cone}" solver="{solver}" tolerance="1e-10" iterations="{200 if solver == "CG" else 100}" ls_iterations="50"/>'
    f'<worldbody><geom name="floor" type="plane" size="5 5 .1" condim="3"/>{bodies}{arm}</worldbody></mujoco>'
  )
  return xml, {"cone": cone, "solver": solver, "jacobian": "auto(nv>=60)", "impratio": 1.0, "adhesion": False}


def big_states(rng, m, nworld):
  import mujoco

  qp, qv = [], []
  for _ in range(nworld):
    d = mujoco.MjData(m)
    mujoco.mj_resetData(m, d)
    qpos = d.qpos.copy()
    for j in range(m.njnt):
      a = m.jnt_qposadr[j]
      if m.jnt_type[j] == mujoco.mjtJoint.mjJNT_FREE:
        qpos[a : a + 2] += rng.normal(0, 0.03, 2)
        qpos[a + 2] = rng.uniform(0.02, 0.12)
        q = rng.normal(0, 1, 4)
        qpos[a + 3 : a + 7] = q / np.linalg.norm(q)
      else:
        qpos[a] = rng.uniform(-0.6, 0.6)
    qp.append(qpos.astype(np.float32).astype(np.float64))
    qv.append(rng.normal(0, 0.5, m.nv).astype(np.float32).astype(np.float64))
  return np.array(qp), np.array(qv)


def arms_xml(narm, jac):
  """narm coupled 4-link arms with joint frictionloss and one motor per joint (nv = 4*narm): with nv > 32 the Newton
  solver takes the blocked-Cholesky path and its stable-state fast path."""
  def arm(i):
    return (
      f'<body pos="0 {0.5 * i} 1"><joint name="a{i}j0" type="hinge" axis="0 1 0" frictionloss="1.5"/><geom type="capsule" size="0.02" fromto="0 0 0 0.2 0 0" mass="1"/>'
      f'<body pos="0.2 0 0"><joint name="a{i}j1" type="hinge" axis="0 1 0" frictionloss="0.8"/><geom type="capsule" size="0.02" fromto="0 0 0 0.2 0 0" mass="0.5"/>'
      f'<body pos="0.2 0 0"><joint name="a{i}j2" type="hinge" axis="1 0 0" frictionloss="2.0"/><geom type="capsule" size="0.02" fromto="0 0 0 0.15 0 0" mass="0.3"/>'
      f'<body pos="0.15 0 0"><joint name="a{i}j3" type="hinge" axis="0 1 0" frictionloss="0.5"/><geom type="capsule" size="0.02" fromto="0 0 0 0.1 0 0" mass="0.2"/>'
      "</body></body></body></body>"
    )

  acts = "".join(f'<motor joint="a{i}j{j}"/>' for i in range(narm) for j in range(4))
  return (
    f'<mujoco><option timestep="0.005" solver="Newton" cone="pyramidal" jacobian="{jac}" tolerance="1e-10" iterations="100" ls_iterations="50"/>'
    '<default><joint armature="0.01" damping="0.05"/><geom contype="0" conaffinity="0"/></default>'
    f'<worldbody>{"".join(arm(i) for i in range(narm))}</worldbody><actuator>{acts}</actuator></mujoco>'
  )


def run_sequence(seq, upto=None, on_step=None):
  """Warm-started sequence of solves on the SAME mjw Data: MuJoCo generates a trajectory under bang-bang motor torques
  (sign reversal every `period` steps, so friction rows flip LINEARNEG <-> LINEARPOS between consecutive solves); at every
  step the identical (qpos, qvel, ctrl, qacc_warmstart) of each world is given to mjw.forward.  on_step(k, m, dl, mm, dd)."""
  import mujoco
  import warp as wp

  import mujoco_warp as mjw

  xml = arms_xml(seq["narm"], seq["jacobian"])
  m = mujoco.MjModel.from_xml_string(xml)
  nworld = seq["nworld"]
  rng = np.random.default_rng(seq["seed"])
  amps = [rng.uniform(1.0, 4.0, m.nu) for _ in range(nworld)]
  dl = [mujoco.MjData(m) for _ in range(nworld)]
  for w, d in enumerate(dl):
    d.qpos[:] = rng.normal(0, 0.2, m.nq) * (w > 0)
  mm = mjw.put_model(m)
  dd = mjw.put_data(m, dl[0], nworld=nworld, njmax=2 * m.nv + 16, naconmax=16)
  f32 = lambda rows: wp.array(np.array(rows, dtype=np.float32), dtype=float)  # noqa: E731
  for k in range(seq["nstep"] if upto is None else upto + 1):
    warm = []
    for w, d in enumerate(dl):
      d.ctrl[:] = amps[w] if ((k + 2 * w) // seq["period"]) % 2 == 0 else -amps[w]
      warm.append(d.qacc_warmstart.copy())
      mujoco.mj_forward(m, d)
    wp.copy(dd.qpos, f32([d.qpos for d in dl]))
    wp.copy(dd.qvel, f32([d.qvel for d in dl]))
    wp.copy(dd.ctrl, f32([d.ctrl for d in dl]))
    wp.copy(dd.qacc_warmstart, f32(warm))
    mjw.forward(mm, dd)
    wp.synchronize()
    if on_step is not None:
      on_step(k, m, dl, mm, dd)
    for d in dl:
      mujoco.mj_step(m, d)
  return xml


def sequence_oracle(res, seqs):
  """Certify EVERY solve of warm-started sequences (friction sign flips between consecutive solves, nv > 32)."""
  fails = []
  agg = {"solves": 0, "worst_kkt": 0.0, "worst_qacc": 0.0, "worst_force": 0.0, "friction_flips": 0, "niter_max": 0, "configs": []}
  for seq in seqs:
    cfg = {"cone": "pyramidal", "solver": "Newton", "jacobian": seq["jacobian"], "impratio": 1.0, "adhesion": False, "kkt_tol": 2e-3, "qacc_tol": 2e-2, "cost_tol": 1e-4,
           "warmstart": True, "sequence": seq}  # fmt: skip
    prev = {}
    seen = set()

    def on_step(k, m, dl, mm, dd, cfg=cfg, prev=prev, seen=seen, seq=seq):
      f, st = certificate(m, dl, mm, dd, cfg)
      stt = dd.efc.state.numpy()
      if "state" in prev and prev["state"].shape == stt.shape:  # LINEARNEG <-> LINEARPOS flips since the previous solve
        agg["friction_flips"] += int(np.sum(((prev["state"] == 2) & (stt == 3)) | ((prev["state"] == 3) & (stt == 2))))
      prev["state"] = stt.copy()
      agg["solves"] += dd.nworld
      res.count(dd.nworld)
      for key in ("worst_kkt", "worst_qacc", "worst_force"):
        agg[key] = max(agg[key], st.get(key, 0.0))
      agg["niter_max"] = max(agg["niter_max"], st.get("niter", 0))
      for x in f:
        if x["site"] not in seen and len(seen) < 3:
          seen.add(x["site"])
          x = dict(x, step=k, mujoco_niter=[int(d.solver_niter[0]) for d in dl])
          fails.append({"sequence": seq, "step": k, "config": {a: b for a, b in cfg.items() if a != "sequence"}, "failure": x})

    run_sequence(seq, on_step=on_step)
    res.nontrivial(("sequence", seq["narm"], seq["jacobian"], seq["nworld"]))
    agg["configs"].append([4 * seq["narm"], seq["jacobian"], seq["nworld"]])
  res.extra["sequence_oracle"] = {k: (round(v, 6) if isinstance(v, float) else v) for k, v in agg.items()}
  return fails, agg


def launch_geometry_pin(res):
  """Host-side launch geometry of the solver: every slot/group count derived from nworld is >= 1 (and <= the row
  capacity) whenever there are rows - a zero-sized launch is accepted silently by Warp and skips the kernel."""
  from mujoco_warp._src import solver

  bad = []
  fn = getattr(solver, "_jtdaj_groups_per_world", None)
  if fn is None:
    res.obligation("launch geometry: solver._jtdaj_groups_per_world present", False, "helper no longer exists: pin must be re-anchored")
    return [{"site": "launch-geometry", "what": "_jtdaj_groups_per_world missing"}]
  n = 0
  for nworld in (1, 2, 3, 6, 7, 8, 16, 33, 64, 1000, 8192, 100000, 10**7):
    for njmax in (1, 2, 5, 64, 4096):
      g = int(fn(nworld, njmax))
      n += 1
      if not (1 <= g <= njmax):
        bad.append({"site": "launch-geometry", "function": "solver._jtdaj_groups_per_world", "nworld": nworld, "njmax": njmax, "returned": g})
  res.count(n)
  res.obligation("launch geometry: 1 <= _jtdaj_groups_per_world(nworld, njmax) <= njmax on the pinned grid", not bad, f"{len(bad)} of {n} violate")
  return bad


class LaunchWatch:
  """Records zero-sized kernel launches made while active (wp.launch / wp.launch_tiled of mujoco_warp's solver module)."""

  def __init__(self):
    self.zero = []

  def __enter__(self):
    import warp as wp

    from mujoco_warp._src import solver

    self.wp, self.solver = wp, solver
    self.orig = (solver.wp.launch, solver.wp.launch_tiled)

    def wrap(f):
      def g(*a, **k):
        dim = k.get("dim", a[1] if len(a) > 1 else None)
        kernel = k.get("kernel", a[0] if a else None)
        dims = dim if isinstance(dim, (tuple, list)) else (dim,)
        try:
          if any(int(x) == 0 for x in dims):
            mod = getattr(getattr(kernel, "func", None), "__module__", "") or ""
            self.zero.append((str(getattr(kernel, "key", kernel)), tuple(int(x) for x in dims), mod))
        except (TypeError, ValueError):
          pass
        return f(*a, **k)

      return g

    wp.launch, wp.launch_tiled = wrap(self.orig[0]), wrap(self.orig[1])
    return self

  def __exit__(self, *a):
    self.wp.launch, self.wp.launch_tiled = self.orig


CONFIGS = [
  ("pyramidal", "Newton", "dense"), ("elliptic", "Newton", "dense"), ("pyramidal", "CG", "dense"), ("elliptic", "CG", "dense"),
  ("elliptic", "Newton", "sparse"), ("pyramidal", "Newton", "sparse"), ("pyramidal", "CG", "sparse"), ("elliptic", "CG", "sparse"),
]  # fmt: skip


def forward_oracle(res, nscenes):
  import mujoco

  rng = np.random.default_rng(vlib.seed() + 6)
  fails = []
  agg = {"rows": 0, "worlds": 0, "worst_force": 0.0, "worst_kkt": 0.0, "worst_qacc": 0.0, "worst_cost_gap": -1.0, "niter": 0, "compared": 0,
         "batches": set(), "solver_zero_launches": set()}  # fmt: skip

  def one(tag, xml, qp, qv, cfg, k):
    with LaunchWatch() as lw:
      m, dl, mm, dd = run_batch(xml, qp, qv)
    cfg = dict(cfg, nworld=int(len(qp)), is_sparse=bool(mm.is_sparse))
    f, st = certificate(m, dl, mm, dd, cfg)
    res.count()
    agg["rows"] += st["rows"]
    agg["worlds"] += len(qp)
    for key in ("worst_force", "worst_kkt", "worst_qacc", "niter", "worst_cost_gap", "worst_energy"):
      agg[key] = max(agg.get(key, -1.0), st.get(key, -1.0))
    agg["compared"] += st.get("compared", 0)
    agg["cg_capped"] = agg.get("cg_capped", 0) + st.get("cg_capped", 0)
    if st["rows"]:
      res.nontrivial((tag, k, cfg["cone"], cfg["solver"], cfg["jacobian"], len(qp), st["rows"]))
      agg["batches"].add((len(qp), "sparse" if mm.is_sparse else "dense", cfg["solver"]))
      # a zero-sized launch of a solver kernel while there are constraint rows skips that kernel silently
      for key_, dims in sorted({(a, b) for a, b, mod in lw.zero if mod.endswith("_src.solver")}):
        agg["solver_zero_launches"].add((key_, dims))
        f.append({"site": "solver-zero-sized-launch", "kernel": key_, "dim": list(dims), "nworld": len(qp)})
    if k == 0:
      res.sample({"kind": "certificate oracle " + tag, "config": cfg, "nefc": [int(d.nefc) for d in dl][:4], "stats": {a: (float(b) if isinstance(b, (float, np.floating)) else b) for a, b in st.items()}, "xml": xml[:300]})
    sites = set()
    for x in f:  # one failure per distinct site and scene
      if x["site"] + x.get("kernel", "") not in sites and len(sites) < 6:
        sites.add(x["site"] + x.get("kernel", ""))
        fails.append({"xml": xml, "qpos": np.asarray(qp).tolist(), "qvel": np.asarray(qv).tolist(), "config": cfg, "failure": x})

  for k, (xml, qpos, qvel, cfg) in enumerate(directed_scenes()):
    cfg.update({"kkt_tol": 2e-3, "qacc_tol": 5e-2, "cost_tol": 1e-4, "warmstart": True})
    one("directed", xml, [qpos], [qvel], cfg, k + 1)
  # random scenes: cone x solver x jacobian cycle against the batch sizes, one state per world
  sched = [("Newton", jac, n) for n in BATCHES for jac in ("dense", "sparse")] + [("CG", "dense", 1), ("CG", "sparse", 2), ("CG", "dense", 7), ("CG", "sparse", 16), ("CG", "dense", 33), ("CG", "sparse", 7)]
  for k in range(nscenes):
    solver, jac, nworld = sched[k % len(sched)]
    cone = ("pyramidal", "elliptic")[(k + k // len(sched)) % 2]
    nowarm = k % 5 == 4
    extra = f'iterations="{200 if solver == "CG" else 100}" tolerance="1e-10" ls_iterations="50"'
    for _try in range(6):  # a scene whose states produce no constraint row at all certifies nothing: draw again
      xml, cfg = H.scene(rng, cone, solver, jac, extra_opt=extra)
      if nowarm:
        xml = xml.replace("<worldbody>", '<option><flag warmstart="disable"/></option><worldbody>', 1)
      m = mujoco.MjModel.from_xml_string(xml)
      qp, qv = batch_states(rng, m, nworld)
      dchk = mujoco.MjData(m)
      dchk.qpos[:], dchk.qvel[:] = qp[0], qv[0]
      mujoco.mj_forward(m, dchk)
      if dchk.nefc > 0 and m.nv > 0:
        break
    cfg.update({"kkt_tol": 2e-3 if solver == "Newton" else 1e-2, "qacc_tol": 5e-2 if solver == "Newton" else 1e-1, "cost_tol": 1e-4 if solver == "Newton" else 1e-3, "warmstart": not nowarm})
    one("forward", xml, qp, qv, cfg, k)
  # > 60 dofs: the engines pick the sparse Jacobian themselves
  big = [("pyramidal", "Newton", 7), ("elliptic", "Newton", 16), ("elliptic", "CG", 7), ("pyramidal", "Newton", 33), ("elliptic", "Newton", 2), ("pyramidal", "CG", 16)]
  for k, (cone, solver, nworld) in enumerate(big[: max(4, nscenes // 4)] if nscenes <= 40 else big * (nscenes // 48)):
    xml, cfg = big_scene(rng, cone, solver)
    m = mujoco.MjModel.from_xml_string(xml)
    qp, qv = big_states(rng, m, nworld)
    cfg.update({"kkt_tol": 2e-3 if solver == "Newton" else 1e-2, "qacc_tol": 5e-2 if solver == "Newton" else 1e-1, "cost_tol": 1e-4 if solver == "Newton" else 1e-3, "warmstart": True})
    one("big", xml, qp, qv, cfg, k)
  res.extra["certificate_oracle"] = {k: (sorted(map(list, v)) if isinstance(v, set) else (round(v, 6) if isinstance(v, float) else v)) for k, v in agg.items()}
  return fails, agg


def run(res):
  import time

  quick = res.tier == "quick"
  res.rule = (
    "T-validation: random float32 inputs per translated function; port cross-check: numpy float64 port of _eval_constraint vs the compiled function; "
    "certificate oracle: random constrained scenes x cone x solver x jacobian (forced dense/sparse, and a 70-dof model that is sparse by itself) x warmstart x batch size {1,2,7,16,33} with one state per world, every world certified; distinct = scenes with at least one constraint row; pin: solver launch-geometry helper on a grid of (nworld, njmax); sequence oracle: warm-started solves on the same Data along MuJoCo trajectories of 9/12/17 coupled friction arms (nv 36/48/68, blocked-Cholesky fast path) under bang-bang motor torques, dense and sparse, every solve certified"
  )
  tm = res.extra.setdefault("timing_s", {})
  t0 = time.time()
  ok, trs, failing = propkit.prove(res, PROPS, gen_names=["solver"], required_funcs=FUNCS)
  tm["prove"] = round(time.time() - t0, 1)
  tr = trs.get("solver")
  search = not ok
  tbad, pbad = [], []
  if tr is not None and "_eval_constraint" in tr.signatures():
    tbad, tv = H.solver_tvalid(res, tr, "C06", 200 if quick else 2000, [f for f in FUNCS if f in tr.signatures()])
    res.obligation("T-validation: translated solver.py functions agree with compiled Warp", not tbad, f"{len(tbad)} disagreements")
    pbad = port_crosscheck(res, tv, 3000 if quick else 30000)
    res.obligation("oracle's numpy port of _eval_constraint agrees with the compiled function", not pbad, f"{len(pbad)} disagreements")
    search = search or bool(tbad) or bool(pbad)
    tm["tvalid"] = round(time.time() - t0, 1)
  pin_bad = launch_geometry_pin(res)
  fails, agg = forward_oracle(res, (16 if quick else 160) * (2 if search else 1))
  tm["forward"] = round(time.time() - t0, 1)
  # warm-started sequences on the same Data, nv in {36, 48, 68} (blocked-Cholesky fast path), friction sign flips
  seqs = [{"narm": n, "jacobian": j, "nworld": w, "seed": vlib.seed() + 60 + i, "nstep": 40 if quick else 160, "period": 5}
          for i, (n, j, w) in enumerate([(9, "dense", 1), (9, "sparse", 2), (12, "dense", 2), (17, "sparse", 1)])]  # fmt: skip
  sfails, sagg = sequence_oracle(res, seqs)
  tm["sequences"] = round(time.time() - t0, 1)
  res.obligation("sequence oracle saw friction rows flip LINEARNEG <-> LINEARPOS between consecutive solves (nv > 32, dense and sparse)", sagg["friction_flips"] >= 20, f"{sagg['friction_flips']} flips in {sagg['solves']} solves")
  for f in sfails[:4]:
    x, q = f["failure"], f["sequence"]
    res.violation(f"C06:sequence:{x['site']}:nv{4 * q['narm']}:{q['jacobian']}", f"warm-started solve {f['step']} of a bang-bang friction-arm sequence: {x}", f)
  need = {(n, sp, "Newton") for n in BATCHES for sp in ("sparse", "dense")}
  res.obligation("oracle reached every batch size in {1,2,7,16,33} with Newton under both Jacobian storages", need <= agg["batches"], f"missing {sorted(need - agg['batches'])}")
  res.obligation("no zero-sized launch of a solver kernel while constraint rows exist", not agg["solver_zero_launches"], f"{sorted(agg['solver_zero_launches'])[:4]}")
  for b in pin_bad[:2]:
    res.violation(f"C06:launch-geometry:{b.get('function', 'missing')}:returns-{b.get('returned')}", f"solver launch geometry helper returns a slot count outside [1, njmax]: {b}", b)
  seen = set()
  for f in fails:
    x = f["failure"]
    if x["site"] == "efc_D-vs-mujoco":  # same rows, different row mass: the two engines solve different problems
      key = f"C06:forward:efc_D-vs-mujoco:type{x['type']}:{x['jacobian']}"
    elif x["site"] == "solver-zero-sized-launch":
      key = f"C06:forward:solver-zero-sized-launch:{x['kernel']}"
    else:
      key = f"C06:forward:{x['site']}:{f['config']['cone']}:{f['config']['solver']}"
    if key in seen or len(seen) >= 8:
      continue
    seen.add(key)
    res.violation(key, f"after forward(): {x}", f)
  fails = fails or pin_bad or sfails
  if tbad and not fails:
    res.violation("C06:translator-mismatch", "translated Gallina disagrees with compiled Warp function (model no longer tied to code)", tbad[:3], found_input=False)
  if pbad and not fails and not tbad:
    res.violation("C06:oracle-port-mismatch", "numpy port of _eval_constraint disagrees with the compiled function (oracle out of date)", pbad[:3], found_input=False)
  if not ok and not fails:
    propkit.broken_proof_violation(res, "C06 theorem over regenerated solver.py", failing)
  res.assumptions += [
    "float32 rounding is not modelled: theorems are over R",
    "CG solves that stop at the iteration cap (solver_niter == opt.iterations) are not required to be optimal (counted in the evidence); every Newton solve is",
    "convergence of Newton/CG is not proved: certified a posteriori per input (KKT residual <= 2e-3 Newton / 1e-2 CG relative to term magnitudes, or worth less than 1e-6 of the cost scale in energy (float32 resolution of the cost); qacc vs mujoco.mj_forward and Gauss cost not above the cost at MuJoCo's qacc, only on scenes where both engines built the same constraint set)",
    "elliptic contacts enter the KKT theorem as blocks whose argument assembly is the hand model Model/SolverHand.v (tied to the kernel by C24's correspondence run) and under the row-mass relation D_k*mu^2 = D_0*mu_k^2 (checked on real data by C24)",
    "M symmetric positive semidefinite and D > 0 are hypotheses of the KKT theorem",
    "the solver's fast paths (stable-state skip, incremental Hessian, blocked Cholesky) are not modelled: they are exercised by batches, a 70-dof model and warm-started friction-flip sequences and certified per solve",
  ]


def replay(res, path):
  import json

  r = json.load(open(path))["replay"]
  if isinstance(r, dict) and "sequence" in r:
    got = {}

    def on_step(k, m, dl, mm, dd):
      if k == r["step"]:
        got["f"], got["st"] = certificate(m, dl, mm, dd, dict(r["config"], sequence=r["sequence"]))
        got["niter"] = (dd.solver_niter.numpy().tolist(), [int(d.solver_niter[0]) for d in dl])

    run_sequence(r["sequence"], upto=r["step"], on_step=on_step)
    print("solve", r["step"], "niter (mjw, mujoco):", got.get("niter"), "stats:", got.get("st"))
    print("failures:", got.get("f", [])[:4])
    return 1 if got.get("f") else 0
  if isinstance(r, dict) and "function" in r:
    from mujoco_warp._src import solver

    g = solver._jtdaj_groups_per_world(r["nworld"], r["njmax"])
    print("solver._jtdaj_groups_per_world(%d, %d) = %d" % (r["nworld"], r["njmax"], g))
    return 0 if 1 <= g <= r["njmax"] else 1
  if not isinstance(r, dict) or "xml" not in r:
    print("replay: no concrete input in this file (proof/correspondence breakage); re-run the check")
    return 1
  with LaunchWatch() as lw:
    m, d, mm, dd = run_batch(r["xml"], r["qpos"], r["qvel"])
  print("zero-sized solver launches:", sorted({(a, b) for a, b, c in lw.zero if c.endswith("_src.solver")}))
  f, st = certificate(m, d, mm, dd, r["config"])
  print("stats:", st)
  print("failures:", f[:5])
  return 1 if f else 0
