"""C19 Contact pair filtering follows MuJoCo's rules.

proof  : Props/C19.v (upper_tri_index bijection over the REGENERATED math.upper_tri_index, pair_rule over
         Model/PairTable.v = Gallina copy of the host block of io.py:put_model).
tie    : T-validation of upper_tri_index + correspondence (model table evaluated in Coq == the real
         m.nxn_pairid / nxn_geom_pair / *_filtered built by mjw.put_model) on random MJCF models.
oracle : all geoms overlapping -> set of geom pairs (and the contact parameters of explicit pairs) in
         mjw.collision contacts == mujoco.mj_collision contacts; directed replays of the two model
         witnesses that leave the theorem's hypotheses (self pair, pair margin)."""

from __future__ import annotations

import json

import numpy as np

import propkit
import vlib

MANIFEST = {
  "text": "proof: the device lookup math.upper_tri_index (regenerated from source each run) is the rank of (i,j) in np.triu_indices order, exact under truncating and floor division, and a bijection onto the table rows; for the Gallina copy of put_model's pair-table block the entry read for geoms i<j is >=0 iff (i,j) is an explicit pair (last such pair id), -1 iff not explicit and contype/conaffinity pass, weld bodies differ, not parent/child (unless filterparent disabled) and not excluded, -2 otherwise; the *_filtered arrays hold exactly the ids > -2. Only tested: that the Gallina copy equals the real put_model output (correspondence on random models each run), that kernels emit contacts exactly for ids >= -1 and agreement with the MuJoCo binary (oracle); collision-sensor column of nxn_pairid is not modelled; int32 overflow (ngeom > 65535) not modelled",
  "note": "trusted: Coq kernel; translator (validated each run for upper_tri_index); the random MJCF generator; mujoco 3.13 binary as the rule's reference; Model/PairTable.v is hand-written and tied to io.py only by the correspondence run",
  "technique": "Rocq proof over a regenerated index function and a hand-written executable model of the host pair-table code, differential correspondence in Coq (vm_compute) against put_model, differential oracle against MuJoCo",
  "engine": "coq",
}

PROPS = "Props/C19.v"

MASKS = [0, 0, 1, 1, 2, 3, 4, 5, 6, 7, 1 << 30, (1 << 30) | 1, -1]


def run_cases_retry(tag, imports, lines, **kw):
  """tvalid.run_cases, rebuilding the .vo closure and retrying when another process recompiled a shared
  Base/Gen library in between ("makes inconsistent assumptions": a build race, not a verdict)."""
  import time

  import tvalid

  for attempt in range(3):
    try:
      return tvalid.run_cases(tag, imports, lines, **kw)
    except RuntimeError as e:
      if "inconsistent assumptions" not in str(e) or attempt == 2:
        raise
      time.sleep(5 * (attempt + 1))
      with vlib.Lock():
        vlib.coq_make([PROPS[:-2] + ".vo"])


# ---------------------------------------------------------------------------------- generator
def _f(x):
  return " ".join(f"{float(v):.6g}" for v in np.atleast_1d(x))


def random_xml(rng, overlap=True, pair_margin=0.0, self_pairs=False, types=("sphere", "sphere", "capsule", "box")):
  """Random kinematic tree with welded bodies, random bitmasks, excludes, explicit pairs, filterparent."""
  nb = int(rng.integers(1, 8))
  parents = [int(rng.integers(-1, b)) for b in range(nb)]
  geoms = []  # names in MuJoCo id order are recovered from the compiled model
  bodies = ["world"]

  def geom_xml(name, world=False):
    gt = str(rng.choice(list(types)))
    if gt == "sphere":
      size = _f([rng.uniform(0.25, 0.35)])
    elif gt == "capsule":
      size = _f([rng.uniform(0.2, 0.3), rng.uniform(0.1, 0.2)])
    else:
      size = _f(rng.uniform(0.2, 0.3, 3))
    ct, ca = int(rng.choice(MASKS)), int(rng.choice(MASKS))
    geoms.append(name)
    sd = 0.02 if overlap else 0.6
    return f'<geom name="{name}" type="{gt}" size="{size}" pos="{_f(rng.normal(0, sd, 3))}" contype="{ct}" conaffinity="{ca}" condim="{int(rng.choice([1, 3, 4, 6]))}" friction="{_f(rng.uniform(0.1, 1.5, 3))}"/>'

  def body_xml(b):
    name = f"b{b}"
    bodies.append(name)
    sd = 0.02 if overlap else 0.6
    s = f'<body name="{name}" pos="{_f(rng.normal(0, sd, 3))}">'
    r = rng.random()
    ng = int(rng.choice([1, 1, 2, 3]))
    if r < 0.35:
      pass  # no joint: welded to its parent (static if the parent chain reaches the world)
    elif r < 0.5 and parents[b] == -1:
      s += "<freejoint/>"
    elif r < 0.8:
      s += f'<joint type="hinge" axis="{_f(rng.normal(0, 1, 3))}"/>'
    elif r < 0.9:
      s += f'<joint type="slide" axis="{_f(rng.normal(0, 1, 3))}"/>'
    else:
      s += '<joint type="ball"/>'
    for g in range(ng):
      s += geom_xml(f"g{b}_{g}")
    for c in range(nb):
      if parents[c] == b:
        s += body_xml(c)
    return s + "</body>"

  wb = ""
  for g in range(int(rng.choice([0, 1, 2]))):
    wb += geom_xml(f"gw_{g}", world=True)
  for b in range(nb):
    if parents[b] == -1:
      wb += body_xml(b)
  contact = ""
  seen = set()
  for _ in range(int(rng.choice([0, 1, 2, 4]))):
    a, b = rng.choice(len(bodies), 2, replace=False)
    contact += f'<exclude body1="{bodies[a]}" body2="{bodies[b]}"/>'
  npair = int(rng.choice([0, 1, 2, 4])) if len(geoms) >= 2 else 0
  for _ in range(npair):
    a, b = (int(x) for x in rng.choice(len(geoms), 2, replace=False))
    if (min(a, b), max(a, b)) in seen:
      continue  # MuJoCo accepts repeated pairs; kept out (both engines then disagree on multiplicity only)
    seen.add((min(a, b), max(a, b)))
    attrs = f'condim="{int(rng.choice([1, 3, 4, 6]))}" friction="{_f(rng.uniform(0.1, 2, 5))}" solref="{_f([rng.uniform(0.01, 0.05), rng.uniform(0.5, 1.5)])}"'
    if pair_margin:
      attrs += f' margin="{_f([rng.uniform(0, pair_margin)])}"'
    contact += f'<pair geom1="{geoms[a]}" geom2="{geoms[b]}" {attrs}/>'
  if self_pairs and geoms:
    a = int(rng.integers(len(geoms)))
    contact += f'<pair geom1="{geoms[a]}" geom2="{geoms[a]}"/>'
  fp = "disable" if rng.random() < 0.4 else "enable"
  xml = f'<mujoco><option gravity="0 0 0"><flag filterparent="{fp}"/></option><worldbody>{wb}</worldbody><contact>{contact}</contact></mujoco>'
  return xml


def compile_model(xml):
  import mujoco

  try:
    return mujoco.MjModel.from_xml_string(xml)
  except Exception:
    return None


# ------------------------------------------------------------------------------ correspondence
def coq_model(m):
  import mujoco

  fp = not (int(m.opt.disableflags) & int(mujoco.mjtDisableBit.mjDSBL_FILTERPARENT))
  pairs = "[" + "; ".join(f"({int(a)}, {int(b)})" for a, b in zip(m.pair_geom1, m.pair_geom2)) + "]"
  z = vlib.zlist
  return (
    f"{{| ngeom := {m.ngeom}; geom_bodyid := {z(m.geom_bodyid)}; geom_contype := {z(m.geom_contype)}; "
    f"geom_conaffinity := {z(m.geom_conaffinity)}; body_weldid := {z(m.body_weldid)}; body_parentid := {z(m.body_parentid)}; "
    f"exclude_signature := {z(m.exclude_signature)}; pairs := {pairs}%Z; filterparent := {'true' if fp else 'false'} |}}"
  )


def real_table(m):
  """Flat output of the real put_model in the layout of Model.PairTable.table_out; None if a collision sensor exists."""
  import mujoco_warp as mjw

  mm = mjw.put_model(m)
  pid = mm.nxn_pairid.numpy().reshape(-1, 2)
  gp = mm.nxn_geom_pair.numpy().reshape(-1, 2)
  gpf = mm.nxn_geom_pair_filtered.numpy().reshape(-1, 2)
  pidf = mm.nxn_pairid_filtered.numpy().reshape(-1, 2)
  if (pid[:, 1] != -1).any():
    return None, mm
  out = [int(x) for x in pid[:, 0]] + [int(x) for x in gp.reshape(-1)]
  for (a, b), (c, _) in zip(gpf, pidf):
    out += [int(a), int(b), int(c)]
  return out, mm


def classify(m):
  """Non-triviality key: which outcomes / rule clauses the model exercises."""
  w = m.body_weldid
  feats = (
    int(m.ngeom),
    int(m.npair),
    int(m.nexclude),
    int((w[1:] != np.arange(1, m.nbody)).sum()),
    int(m.opt.disableflags) & 0xFFFF,
    hash(tuple(int(x) for x in m.geom_contype) + tuple(int(x) for x in m.geom_conaffinity)) & 0xFFFF,
  )
  return feats


def correspondence(res, nmodels):
  import tvalid

  rng = np.random.default_rng(vlib.seed() + 1900)
  lines, meta = [], []
  inv_bad = []
  outcomes = {"-2": 0, "-1": 0, ">=0": 0}
  tries = 0
  while len(lines) < nmodels and tries < 4 * nmodels:
    tries += 1
    xml = random_xml(rng, overlap=bool(rng.random() < 0.5))
    m = compile_model(xml)
    if m is None or m.ngeom < 2:
      continue
    # hypotheses of the theorems, checked on every generated model
    if (np.diff(m.geom_bodyid) < 0).any():
      inv_bad.append({"xml": xml, "why": "geom_bodyid not non-decreasing"})
    if (m.pair_geom1 == m.pair_geom2).any() or (m.pair_geom1 < 0).any() or (m.pair_geom2 >= m.ngeom).any():
      inv_bad.append({"xml": xml, "why": "pair outside wf_pairs"})
    exp, mm = real_table(m)
    if exp is None:
      continue
    npairs = m.ngeom * (m.ngeom - 1) // 2
    for v in exp[:npairs]:
      outcomes["-2" if v == -2 else "-1" if v == -1 else ">=0"] += 1
    lines.append(f"tvz (table_out {coq_model(m)}) {vlib.zlist(exp)}")
    meta.append((xml, exp[:npairs]))
    res.nontrivial(("corr",) + classify(m))
  verdicts = run_cases_retry("C19", ["Model.PairTable"], lines, chunk=60)
  bad = [{"xml": meta[i][0], "impl_nxn_pairid": meta[i][1]} for i, v in enumerate(verdicts) if v != 0]
  res.count(len(lines))
  res.extra["pair_table_outcomes"] = outcomes
  if meta:
    res.sample({"kind": "correspondence", "xml": meta[0][0][:600], "impl_nxn_pairid_contact": meta[0][1]})
  res.obligation(
    "correspondence Model.PairTable.table_out vs mjw.put_model (nxn_pairid[:,0], nxn_geom_pair, *_filtered)",
    not bad and len(lines) > 0,
    f"{len(lines)} models, {len(bad)} disagreements, table entries {outcomes}",
  )
  res.obligation("generated models satisfy the theorem hypotheses (geom_bodyid sorted, wf_pairs)", not inv_bad, f"{len(inv_bad)} exceptions")
  return bad, inv_bad


def tvalidate(res, tr, n):
  """Compiled Warp math.upper_tri_index vs the regenerated Gallina definition (exact integers).

  (tvalid.TValid instantiates every function at `float`; upper_tri_index has no scalar parameter, so the
  wrapper kernel and the case lines are written here.)"""
  import warp as wp

  import tvalid
  from mujoco_warp._src import math as mjmath

  @wp.kernel
  def k_uti(n: wp.array(dtype=int), i: wp.array(dtype=int), j: wp.array(dtype=int), o: wp.array(dtype=int)):
    t = wp.tid()
    o[t] = mjmath.upper_tri_index(n[t], i[t], j[t])

  rng = np.random.default_rng(vlib.seed() + 1901)
  nn = rng.integers(2, 2000, n)
  i = (rng.random(n) * (nn - 1)).astype(np.int64)
  j = i + 1 + (rng.random(n) * (nn - 1 - i)).astype(np.int64)
  sel = rng.random(n) < 0.1  # a few out-of-domain arguments (negative products exercise the truncation)
  i = np.where(sel, rng.integers(-6, 6, n), i)
  out = wp.zeros(n, dtype=int)
  wp.launch(k_uti, dim=n, inputs=[wp.array(nn.astype(np.int32), dtype=int), wp.array(i.astype(np.int32), dtype=int), wp.array(j.astype(np.int32), dtype=int)], outputs=[out])
  exp = out.numpy()
  lines = [f"tvz [upper_tri_index ({int(a)}) ({int(b)}) ({int(c)})]%Z [({int(e)})%Z]" for a, b, c, e in zip(nn, i, j, exp)]
  verdicts = run_cases_retry("C19t", ["Gen.math"], lines, chunk=1000)
  bad = [{"function": "upper_tri_index", "inputs": [int(nn[t]), int(i[t]), int(j[t])], "impl_output": int(exp[t])} for t, v in enumerate(verdicts) if v != 0]
  res.count(n)
  for t in range(n):
    res.nontrivial(("tv", int(nn[t]), int(i[t]), int(j[t])))
  return bad


# ---------------------------------------------------------------------------------------- oracle
def contact_pairs_mj(m, d):
  out = {}
  for c in range(d.ncon):
    con = d.contact[c]
    key = tuple(sorted((int(con.geom[0]), int(con.geom[1]))))
    out.setdefault(key, (int(con.dim), [float(x) for x in con.friction], [float(x) for x in con.solref], float(con.includemargin)))
  return out


def contact_pairs_mjw(mm, dd, world=0):
  n = int(dd.nacon.numpy()[0])
  geom = dd.contact.geom.numpy()[:n]
  wid = dd.contact.worldid.numpy()[:n]
  dim = dd.contact.dim.numpy()[:n]
  fr = dd.contact.friction.numpy()[:n]
  sr = dd.contact.solref.numpy()[:n]
  im = dd.contact.includemargin.numpy()[:n]
  out = {}
  for c in range(n):
    if wid[c] != world:
      continue
    key = tuple(sorted((int(geom[c][0]), int(geom[c][1]))))
    out.setdefault(key, (int(dim[c]), [float(x) for x in fr[c]], [float(x) for x in sr[c]], float(im[c])))
  return out


def run_both(xml, broadphases=(0, 1)):
  """-> (mujoco pair dict, {broadphase: mjw pair dict}, model)"""
  import mujoco

  import mujoco_warp as mjw

  m = mujoco.MjModel.from_xml_string(xml)
  d = mujoco.MjData(m)
  # kinematics + collision only (mj_forward's island pass aborts on explicit pairs between static geoms)
  mujoco.mj_kinematics(m, d)
  mujoco.mj_comPos(m, d)
  mujoco.mj_collision(m, d)
  ref = contact_pairs_mj(m, d)
  mm = mjw.put_model(m)
  got = {}
  for bp in broadphases:
    mm.opt.broadphase = bp
    dd = mjw.put_data(m, d, nworld=2, nconmax=max(64, 4 * m.ngeom * m.ngeom))
    mjw.kinematics(mm, dd)
    mjw.collision(mm, dd)
    if int(dd.nacon.numpy()[0]) > dd.naconmax:
      raise RuntimeError("oracle capacity too small")
    got[bp] = contact_pairs_mjw(mm, dd, 0)
    w1 = contact_pairs_mjw(mm, dd, 1)
    if set(w1) != set(got[bp]):
      got[bp] = {**got[bp], ("world-mismatch",): (0, [], [], 0.0)}
  return ref, got, m


def compare(ref, got, m):
  """None if equal, else a description."""
  if set(ref) != set(got):
    return {"missing_in_mjw": sorted(set(ref) - set(got)), "extra_in_mjw": sorted(set(got) - set(ref))}
  for k in ref:
    a, b = ref[k], got[k]
    if a[0] != b[0] or not np.allclose(a[1], b[1], rtol=1e-4, atol=1e-6) or not np.allclose(a[2], b[2], rtol=1e-4, atol=1e-6) or abs(a[3] - b[3]) > 1e-5:
      return {"pair": k, "mujoco_params": a, "mjw_params": b}
  return None


def oracle(res, nmodels):
  rng = np.random.default_rng(vlib.seed() + 1919)
  fails = []
  done = 0
  tries = 0
  while done < nmodels and tries < 4 * nmodels:
    tries += 1
    # spheres and capsules only: every pair has a closed-form narrowphase, so a missing pair is a
    # filtering matter and not a convergence matter of the convex (GJK/EPA) narrowphase
    xml = random_xml(rng, overlap=True, types=("sphere", "capsule"))
    if compile_model(xml) is None:
      continue
    ref, got, m = run_both(xml)
    done += 1
    res.count()
    res.nontrivial(("oracle",) + classify(m) + (len(ref),))
    if done == 1:
      res.sample({"kind": "oracle", "xml": xml[:500], "mujoco_pairs": sorted(ref), "mjw_pairs": sorted(got[0])})
    for bp, g in got.items():
      diff = compare(ref, g, m)
      if diff is not None:
        fails.append({"xml": xml, "broadphase": bp, "diff": diff})
        break
  return fails


# ------------------------------------------------------- batched (per-world) margin / gap oracle
def batched_scene(rng):
  """Spheres / capsules on free bodies, surface distances of a few cm, explicit pairs (also between geoms
  that fail the bitmask test and between excluded bodies) next to dynamically filtered pairs."""
  n = int(rng.integers(3, 8))
  body, names = "", []
  for k in range(n):
    pos = rng.uniform(-0.22, 0.22, 3)
    gt = str(rng.choice(["sphere", "sphere", "capsule"]))
    size = "0.08" if gt == "sphere" else "0.05 0.06"
    ct, ca = (1, 1) if rng.random() < 0.7 else (2, 4)
    names.append(f"g{k}")
    body += f'<body name="b{k}" pos="{_f(pos)}" quat="{_f(rng.normal(0, 1, 4))}"><freejoint/><geom name="g{k}" type="{gt}" size="{size}" contype="{ct}" conaffinity="{ca}"/></body>'
  contact, seen = "", set()
  for _ in range(int(rng.choice([1, 2, 3]))):
    a, b = (int(x) for x in rng.choice(n, 2, replace=False))
    if (min(a, b), max(a, b)) in seen:
      continue
    seen.add((min(a, b), max(a, b)))
    contact += f'<pair geom1="{names[a]}" geom2="{names[b]}" condim="{int(rng.choice([1, 3]))}"/>'
  if rng.random() < 0.4 and n >= 3:
    a, b = (int(x) for x in rng.choice(n, 2, replace=False))
    contact += f'<exclude body1="b{a}" body2="b{b}"/>'
  return f'<mujoco><option gravity="0 0 0"/><worldbody>{body}</worldbody><contact>{contact}</contact></mujoco>'


def batched_rows(rng, m, nworld):
  """Per-world rows of pair_margin / pair_gap / geom_margin / geom_gap with every pair's contact threshold
  placed around its actual surface distance, so that worlds disagree on which pairs are in contact."""
  import mujoco

  ref = m.__copy__()
  ref.pair_margin[:] = 10.0
  ref.geom_margin[:] = 10.0
  ref.geom_contype[:] = 1
  ref.geom_conaffinity[:] = 1
  d = mujoco.MjData(ref)
  mujoco.mj_kinematics(ref, d)
  mujoco.mj_comPos(ref, d)
  mujoco.mj_collision(ref, d)
  dist = {}
  for c in d.contact:
    dist[tuple(sorted((int(c.geom[0]), int(c.geom[1]))))] = float(c.dist)
  pm = np.zeros((nworld, m.npair))
  pg = np.zeros((nworld, m.npair))
  for i in range(m.npair):
    dd_ = max(dist.get(tuple(sorted((int(m.pair_geom1[i]), int(m.pair_geom2[i])))), 0.05), 0.01)
    pm[:, i] = rng.uniform(0, 0.9 * dd_, nworld)
    pg[:, i] = rng.uniform(0, 0.9 * dd_, nworld)
  # geoms: half the smallest positive distance to any other geom, split between margin and gap
  gm = np.zeros((nworld, m.ngeom))
  gg = np.zeros((nworld, m.ngeom))
  for g in range(m.ngeom):
    ds = [v for k, v in dist.items() if g in k and v > 0]
    dd_ = min(ds) if ds else 0.05
    gm[:, g] = rng.uniform(0, 0.45 * dd_, nworld)
    gg[:, g] = rng.uniform(0, 0.45 * dd_, nworld)
  return [np.asarray(x, dtype=np.float32).astype(np.float64) for x in (pm, pg, gm, gg)]


def batched_reference(m, pm, pg, gm, gg):
  """MuJoCo contacts for a model holding ONE world's parameter rows: {pair: (dim, includemargin)}"""
  import mujoco

  ref = m.__copy__()
  ref.pair_margin[:], ref.pair_gap[:], ref.geom_margin[:], ref.geom_gap[:] = pm, pg, gm, gg
  d = mujoco.MjData(ref)
  mujoco.mj_kinematics(ref, d)
  mujoco.mj_comPos(ref, d)
  mujoco.mj_collision(ref, d)
  return {tuple(sorted((int(c.geom[0]), int(c.geom[1])))): (int(c.dim), float(c.includemargin), float(c.dist)) for c in d.contact}


def batched_run(xml, nworld, rows, layout):
  """-> list of per-world differences between mjw.collision (batched Model fields) and per-world MuJoCo references.
  layout = (margin per-world?, gap per-world?) applied to both the pair_* and the geom_* fields; a shared field
  holds row 0."""
  import mujoco
  import warp as wp

  import mujoco_warp as mjw
  from mujoco_warp._src.types import ContactType

  m = mujoco.MjModel.from_xml_string(xml)
  pm, pg, gm, gg = rows
  bm, bg = layout
  mm = mjw.put_model(m)
  use = lambda r, batched: r if batched else r[:1]  # noqa: E731
  mm.pair_margin = wp.array(use(pm, bm), dtype=float)
  mm.pair_gap = wp.array(use(pg, bg), dtype=float)
  mm.geom_margin = wp.array(use(gm, bm), dtype=float)
  mm.geom_gap = wp.array(use(gg, bg), dtype=float)
  d = mujoco.MjData(m)
  mujoco.mj_kinematics(m, d)
  dd = mjw.put_data(m, d, nworld=nworld, nconmax=max(64, 4 * m.ngeom * m.ngeom))
  mjw.kinematics(mm, dd)
  mjw.collision(mm, dd)
  n = int(dd.nacon.numpy()[0])
  geom, wid = dd.contact.geom.numpy()[:n], dd.contact.worldid.numpy()[:n]
  ctype, inc, dim = dd.contact.type.numpy()[:n], dd.contact.includemargin.numpy()[:n], dd.contact.dim.numpy()[:n]
  explicit = {tuple(sorted((int(a), int(b)))) for a, b in zip(m.pair_geom1, m.pair_geom2)}
  diffs, stats = [], {"contacts": 0, "explicit_contacts": 0}
  for w in range(nworld):
    row = lambda r, batched: r[w] if batched else r[0]  # noqa: E731
    want = batched_reference(m, row(pm, bm), row(pg, bg), row(gm, bm), row(gg, bg))
    got = {}
    for c in range(n):
      if wid[c] == w and (ctype[c] & int(ContactType.CONSTRAINT)):
        got[tuple(sorted((int(geom[c][0]), int(geom[c][1]))))] = (int(dim[c]), float(inc[c]))
    stats["contacts"] += len(want)
    stats["explicit_contacts"] += len(set(want) & explicit)
    for k in sorted(set(want) | set(got)):
      a, b = want.get(k), got.get(k)
      if a is None or b is None or a[0] != b[0] or abs(a[1] - b[1]) > 1e-5:
        # a threshold within float32 round-off of the distance is a tie, not a disagreement
        dk = a[2] if a is not None else None
        diffs.append({"world": w, "pair": k, "explicit": k in explicit, "mujoco(dim,includemargin,dist)": a, "mjw(dim,includemargin)": b, "dist": dk})
  return diffs, stats, m


def batched_oracle(res, nscenes):
  rng = np.random.default_rng(vlib.seed() + 1933)
  found = {}
  tot = {"contacts": 0, "explicit_contacts": 0, "runs": 0}
  for s in range(nscenes):
    xml = batched_scene(rng)
    m = compile_model(xml)
    if m is None or m.npair == 0:
      continue
    nworld = int(rng.integers(2, 5))
    rows = batched_rows(rng, m, nworld)
    for layout in ((False, False), (False, True), (True, False), (True, True)):
      diffs, stats, _ = batched_run(xml, nworld, rows, layout)
      res.count(nworld)
      tot["runs"] += 1
      for k in ("contacts", "explicit_contacts"):
        tot[k] += stats[k]
      res.nontrivial(("batched", s, layout, stats["contacts"], stats["explicit_contacts"]))
      for d in diffs:
        key = f"C19:batched:{'explicit' if d['explicit'] else 'dynamic'}-pair-contacts-differ-from-mujoco:margin={'per-world' if layout[0] else 'shared'}:gap={'per-world' if layout[1] else 'shared'}"
        if key not in found:
          found[key] = (
            key,
            f"world {d['world']} of {nworld}, geom pair {d['pair']}: MuJoCo (model holding that world's margin/gap rows) reports {d['mujoco(dim,includemargin,dist)']}, mjw with batched Model fields reports {d['mjw(dim,includemargin)']}",
            {"kind": "batched", "xml": xml, "nworld": nworld, "layout": list(layout), "rows": [r.tolist() for r in rows], "diff": d},
          )
  res.extra["batched_oracle"] = tot
  return found


SELF_PAIR_XML = """<mujoco><option gravity="0 0 0"/><worldbody>
 <body name="a" pos="0 0 1"><freejoint/><geom name="ga" type="sphere" size=".1"/></body>
 <body name="b" pos="0 0 1.4"><freejoint/><geom name="gb" type="sphere" size=".1"/><geom name="gb1" type="sphere" size=".1" pos="0 0 0.05"/></body>
</worldbody><contact><pair geom1="ga" geom2="ga"/></contact></mujoco>"""

PAIR_MARGIN_XML = """<mujoco><option gravity="0 0 0"/><worldbody>
 <body name="a" pos="0 0 1"><freejoint/><geom name="ga" type="sphere" size=".1"/></body>
 <body name="b" pos="0 0 1.4"><freejoint/><geom name="gb" type="sphere" size=".1"/></body>
</worldbody><contact><pair geom1="ga" geom2="gb" margin="0.5"/></contact></mujoco>"""


REPEATED_PAIR_XML = """<mujoco><option gravity="0 0 0"/><worldbody>
 <body name="a" pos="0 0 1"><freejoint/><geom name="ga" type="sphere" size=".1"/></body>
 <body name="b" pos="0 0 1.15"><freejoint/><geom name="gb" type="sphere" size=".1"/></body>
</worldbody><contact><pair geom1="ga" geom2="gb" condim="1"/><pair geom1="gb" geom2="ga" condim="4"/></contact></mujoco>"""


def contact_count(xml):
  """-> (#contacts MuJoCo, #contacts mjw world 0, dims MuJoCo, dims mjw)"""
  import mujoco

  import mujoco_warp as mjw

  m = mujoco.MjModel.from_xml_string(xml)
  d = mujoco.MjData(m)
  mujoco.mj_kinematics(m, d)
  mujoco.mj_comPos(m, d)
  mujoco.mj_collision(m, d)
  mm = mjw.put_model(m)
  dd = mjw.put_data(m, d, nworld=1, nconmax=64)
  mjw.kinematics(mm, dd)
  mjw.collision(mm, dd)
  n = int(dd.nacon.numpy()[0])
  return d.ncon, n, sorted(int(x) for x in d.contact.dim), sorted(int(x) for x in dd.contact.dim.numpy()[:n])


def directed(res):
  """Replay, on the real code, the inputs on which the faithful model leaves the property."""
  out = []
  # 1. Coq witness pair_rule_selfpair_refuted: <pair geom1=g geom2=g> with g = geom 0
  try:
    ref, got, m = run_both(SELF_PAIR_XML, broadphases=(0,))
  except NotImplementedError:
    ref, got = {}, {0: {}}  # put_model rejects the self pair (the proposed repair)
  res.count()
  extra = sorted(k for k in got[0] if k not in ref and k[0] != k[1])
  if extra:
    out.append((
      "C19:pair-table:self-pair-index-wraps-to-other-row",
      f"<pair geom1=g geom2=g> (accepted by MuJoCo) is written to row upper_tri_index(n,g,g) which belongs to another pair (row -1 wraps to the last row for g=0): mjw reports contacts {extra} between geoms of one body that MuJoCo filters",
      {"xml": SELF_PAIR_XML, "mujoco_pairs": sorted(ref), "mjw_pairs": sorted(got[0]), "coq_witness": "Proof.PairTable.pair_rule_selfpair_refuted"},
    ))
  # 2. explicit pair whose margin exceeds the geoms' margins: broadphase filters use geom_margin
  ref, got, m = run_both(PAIR_MARGIN_XML, broadphases=(0,))
  res.count()
  missing = sorted(set(ref) - set(got[0]))
  if missing:
    out.append((
      "C19:explicit-pair:pair-margin-ignored-by-broadphase-filter",
      f"explicit pair with margin 0.5 at distance 0.2: MuJoCo reports the contact, mjw drops pair {missing} in the broadphase (sphere filter and SAP projection use geom_margin+geom_gap, not pair_margin+pair_gap)",
      {"xml": PAIR_MARGIN_XML, "mujoco_pairs": sorted(ref), "mjw_pairs": sorted(got[0])},
    ))
  # 3. the same two geoms named by two <pair> elements: the table keeps the last id (C19_pair_rule), MuJoCo collides both
  try:
    nmj, nw, dmj, dw = contact_count(REPEATED_PAIR_XML)
    res.count()
    if nmj != nw:
      out.append((
        "C19:pair-table:repeated-pair-keeps-last-only",
        f"two <pair> elements for the same geoms (condim 1 and 4): MuJoCo reports {nmj} contacts (dims {dmj}), mjw reports {nw} (dims {dw}): the pair table has one row per geom pair and keeps the last pair id",
        {"xml": REPEATED_PAIR_XML, "mujoco_ncon": nmj, "mjw_ncon": nw, "mujoco_dims": dmj, "mjw_dims": dw},
      ))
  except NotImplementedError:
    pass  # put_model rejects repeated pairs (the proposed repair)
  return out


# ------------------------------------------------------------------------------------------ run
def run(res):
  quick = res.tier == "quick"
  res.rule = "batched oracle: scenes with explicit and dynamic pairs, nworld 2-4, pair_margin/pair_gap/geom_margin/geom_gap in the 4 shared/per-world layouts with thresholds drawn around each pair's surface distance, per-world comparison with mujoco.mj_collision on a model holding that world's rows; correspondence: random MJCF trees (1-7 bodies, 35% welded, 0-2 world geoms, contype/conaffinity from 13 bitmasks, 0-4 excludes, 0-4 explicit pairs, filterparent on/off); distinct = distinct (ngeom, npair, nexclude, #welded, disableflags, bitmask hash); oracle: same generator with all geoms overlapping, distinct adds the number of colliding pairs"
  ok, trs, failing = propkit.prove(res, PROPS, gen_names=["math"], required_funcs=["upper_tri_index"])
  tr = trs.get("math")
  tbad = []
  if tr is not None:
    tbad = tvalidate(res, tr, 300 if quick else 3000)
    res.obligation("T-validation: translated upper_tri_index agrees with compiled Warp", not tbad, f"{len(tbad)} disagreements")
  cbad, inv_bad = correspondence(res, 250 if quick else 2500)
  fails = oracle(res, 100 if quick else 1000)
  for key, what, data in directed(res):
    res.violation(key, what, data)
  bfound = batched_oracle(res, 30 if quick else 300)
  for key, what, data in list(bfound.values())[:4]:
    res.violation(key, what, data)
  fails = fails + [{"batched": k} for k in bfound]  # a concrete failing input exists: no "no-failing-input-found" line
  for f in [f for f in fails if "diff" in f][:3]:
    d = f["diff"]
    if "pair" in d:
      key = "C19:oracle:contact-parameters-differ-from-mujoco"
    elif d.get("missing_in_mjw") and not d.get("extra_in_mjw"):
      key = "C19:oracle:pair-missing-vs-mujoco"
    elif d.get("extra_in_mjw") and not d.get("missing_in_mjw"):
      key = "C19:oracle:pair-extra-vs-mujoco"
    else:
      key = "C19:oracle:pair-set-differs-from-mujoco"
    res.violation(key, f"all-overlapping scene: contact geom pairs / parameters differ from MuJoCo ({json.dumps(d, default=str)[:300]})", f)
  if cbad and not fails:
    # model no longer equals put_model: search = the MuJoCo oracle above found nothing
    res.violation("C19:correspondence:pair-table-model-mismatch", "Model.PairTable no longer reproduces put_model's pair table (model not tied to code); MuJoCo oracle found no failing input", cbad[:3], found_input=False)
  if tbad and not fails:
    res.violation("C19:translator-mismatch", "translated upper_tri_index disagrees with compiled Warp", tbad[:3], found_input=False)
  if inv_bad:
    res.violation("C19:hypothesis:generated-model-outside-theorem-hypotheses", "MuJoCo compiled a model that violates geom_bodyid sortedness / wf_pairs", inv_bad[:3], found_input=False)
  if not ok and not fails:
    propkit.broken_proof_violation(res, "C19 theorem over regenerated math.upper_tri_index / Model.PairTable", failing)
  res.assumptions += [
    "int32 wrap-around not modelled: ngeom <= 65535 (upper_tri_index) and nbody < 32768 (exclude signature)",
    "wf_pairs: every <pair> names two different geoms (MuJoCo also accepts geom1 == geom2; see C19_pair_rule_selfpair_refuted and the recorded finding)",
    "repeated <pair> elements for the same two geoms: the table keeps the last id (proved); MuJoCo reports one contact per element (recorded finding); the random generators emit no repeated pairs",
    "collision sensors (second column of nxn_pairid) are not modelled; generated models have none (asserted)",
    "that kernels emit a candidate exactly when the looked-up id is >= -1 is covered by C18's correspondence, here only by the MuJoCo oracle",
  ]


def replay(res, path):
  r = json.load(open(path))["replay"]
  if isinstance(r, list):
    r = r[0] if r else {}
  if "xml" not in r:
    print("replay: no concrete input in this file (proof/correspondence breakage); re-run the check")
    return 1
  if r.get("kind") == "batched":
    diffs, stats, m = batched_run(r["xml"], int(r["nworld"]), [np.array(x) for x in r["rows"]], tuple(r["layout"]))
    print("layout (margin per-world, gap per-world):", r["layout"], "nworld:", r["nworld"], stats)
    for d in diffs:
      print("DIFF", d)
    return 1 if diffs else 0
  ref, got, m = run_both(r["xml"])
  print("mujoco pairs:", sorted(ref))
  rc = 0
  for bp, g in got.items():
    diff = compare(ref, g, m)
    print(f"mjw broadphase={bp} pairs:", sorted(g), "diff:", diff)
    if diff is not None:
      rc = 1
  exp, mm = real_table(m)
  print("nxn_pairid[:,0]:", exp[: m.ngeom * (m.ngeom - 1) // 2] if exp else None)
  return rc
