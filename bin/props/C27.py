"""C27 Velocity derivatives are correct.

proof   : Props/C27.v over the regenerated util_misc._poly_force / _poly_force_deriv / poly_potential,
          the translated kernels _compute_damping_deriv, _euler_damp_qfrc, _qderiv_actuator_passive,
          deriv_rne_body2jnt_sparse, _spring_damper_dof_passive, and the hand models (Model/Deriv.v) of
          _qderiv_actuator_passive_vel / _actuator_force (the translator rejects those two kernels).
tie     : T-validation of the three scalar functions; hand models vs the REAL kernels (wp.launch) at
          binary64 inside Coq; translated kernels vs traced launches during mjw.step (euler, implicit,
          implicitfast); the CSR-lower invariant of the theorem checked on every oracle model.
oracle  : the property itself on the real code: the matrix M - h*qDeriv that forward.implicit hands to its
          factorisation (deriv_smooth_vel, plus _map_m2d and deriv_rne_vel for integrator=implicit) against
          (a) MuJoCo C's analytic qDeriv and (b) central finite differences of the float64 smooth force;
          the matrix forward.euler factorises (M + h*D) against finite differences of MuJoCo's damper force.
          The real implicit()/euler() run unmodified; only smooth.factor_solve_* is wrapped to copy its input."""

from __future__ import annotations

import json

import numpy as np

import propkit
import vlib

MANIFEST = {
  "text": "proof over R (Coquelicot): _poly_force is the coefficient c(x), _poly_force_deriv = d/dx (x*c(x)) for every x incl. 0 and both parities; poly_potential' = x*c(x) up to the source's binary64 constant 1/3 (_partial); the passive damper kernel stores -v*c(v) for hinge/slide dofs; _compute_damping_deriv stores minus d(damper force)/dv; _euler_damp_qfrc adds h*deriv at rowadr+rownnz-1 which under MuJoCo's CSR-lower invariant is the unique diagonal slot of that dof and of no other; _qderiv_actuator_passive stores M - h*(qDeriv + [i=j] d damper/dv); _qderiv_box_fluid adds -h*J_i^T B J_j whenever density > 0 OR viscosity > 0 and nothing otherwise, B (_deriv_box_fluid) is diagonal and its diagonal is the derivative of the hand-modelled inertia-box fluid force of passive._fluid_force (exact for density-only media, up to the binary64 constants 1/3 and 3*pi with viscosity: _partial); the passive tendon kernel adds J*(-v*c(v)) and _qderiv_tendon_damping subtracts h*sum over ALL tendons of JJ(t)*d(damper force_t)/dv_t with JJ fixed before coefficients and velocities are chosen (no tendon skipped because of its coefficient values; the Jacobian row search itself is tested only); muscle_gain_vel = d muscle_gain/d velocity away from the FV breakpoints (_partial); the actuator kernel's value is d force/d velocity, taken at the ctrlrange-clamped control, for fixed/affine/muscle gain and bias and every non-DC-motor dynamics (hand models), and 0 when clamped by forcerange; deriv_rne_body2jnt_sparse adds with flg_subtract=False. RNE passes, fluid and tendon-damping kernels, assembly of the whole matrix and float32 are tested only (MuJoCo analytic qDeriv and float64 finite differences on random models).",
  "note": "trusted: Coq kernel + Coquelicot; translator bin/translate.py (validated each run: T-validation and traced-launch kernel validation); hand models Model/Deriv.v (compared with the real kernels each run); real-number axioms of Coq's Reals; MuJoCo 3.13 C as oracle; finite differences in float64 with step 1e-6",
  "technique": "Rocq proof over machine-translated functions/kernels (T) and two validated hand models, plus translation validation and a differential + finite-difference oracle",
  "engine": "coq",
}

PROPS = "Props/C27.v"
GENS = ["T_util_misc", "T_derivative", "T_passive", "kforward", "support_act"]
FUNCS = ["_poly_force", "_poly_force_deriv", "poly_potential", "next_act"]
KERNELS = {
  "T_derivative": ["_qderiv_actuator_passive", "_qderiv_actuator_passive_actuation_sparse", "_qderiv_tendon_damping", "deriv_rne_body2jnt_sparse", "deriv_rne_cvel_cdof_dot", "deriv_rne_cacc_cfrcbody_forward", "deriv_rne_cfrcbody_backward", "_qderiv_box_fluid"],
  "kforward": ["_compute_damping_deriv", "_euler_damp_qfrc"],
  "T_passive": ["_spring_damper_dof_passive", "_spring_damper_tendon_passive"],
}

K_CTRL = "C27:_qderiv_actuator_passive_vel:ctrl-not-clamped"
K_MUSCLE = "C27:_qderiv_actuator_passive_vel:muscle-gain-velocity-ignored"
K_ACTDAMP = "C27:put_model:actuator-damping-ignored"
K_ELLIPS = "C27:implicit:ellipsoid-fluid-derivative-upper-triangle"

IMPLICIT, IMPLICITFAST, EULER = 2, 3, 0


# ---------------------------------------------------------------------------------------------
# T-validation of the scalar functions
# ---------------------------------------------------------------------------------------------
def tvalidate(res, tr, n):
  import tvalid

  def gen(rng, k):
    lin = (rng.normal(0, 1, k) * (rng.random(k) < 0.8)).astype(np.float32)
    poly = (rng.normal(0, 1, (k, 2)) * (rng.random((k, 2)) < 0.8)).astype(np.float32)
    x = (rng.normal(0, 1, k) * 10.0 ** rng.uniform(-2, 1.5, k)).astype(np.float32)
    x[rng.random(k) < 0.1] = 0.0
    flg = rng.integers(0, 2, k).astype(np.int32)
    return [lin, poly, x, flg]

  tv = tvalid.TValid("C27", tr, "Gen.T_util_misc")
  for f in ("_poly_force", "_poly_force_deriv", "poly_potential"):
    tv.add(f, gen=gen, tol=2e-4)
  bad, _ = tv.run(res, n_per_fn=n)
  return bad


# ---------------------------------------------------------------------------------------------
# hand models (Model/Deriv.v) vs the REAL kernels
# ---------------------------------------------------------------------------------------------
def _b(x):
  return "true" if bool(x) else "false"


def _random_actuators(rng, n, restricted):
  """Per-actuator parameter arrays.  restricted: only the types actuator_force_model covers."""
  from mujoco_warp._src.types import vec10

  P = {}
  dyn_choices = [0, 1, 2, 3, 4, 7] if restricted else [0, 1, 2, 3, 4, 5, 7]
  P["dyntype"] = rng.choice(dyn_choices, n).astype(np.int32)
  P["gaintype"] = rng.choice([0, 1, 2, 6] if restricted else [0, 1, 1, 2, 2, 3, 6], n).astype(np.int32)
  P["biastype"] = rng.choice([0, 1, 2, 5] if restricted else [0, 1, 1, 2, 3, 5], n).astype(np.int32)
  P["actnum"] = np.where(P["dyntype"] == 0, 0, rng.integers(1, 4, n)).astype(np.int32)
  P["actadr"] = np.where(P["dyntype"] == 0, -1, 3 * np.arange(n)).astype(np.int32)
  r32 = lambda *s: rng.normal(0, 1, s).astype(np.float32)  # noqa: E731
  dynprm = r32(n, 10)
  dynprm[:, 0] = np.abs(dynprm[:, 0]) * 0.2 + 0.01
  gainprm = r32(n, 10)
  biasprm = r32(n, 10)
  zero = rng.random((n, 10)) < 0.25
  gainprm[zero] = 0
  biasprm[rng.random((n, 10)) < 0.25] = 0
  # muscle parameters (range0 range1 force scale lmin lmax vmax fpmax fvmax) around MuJoCo's defaults
  for arr, sel in ((gainprm, P["gaintype"] == 2), (biasprm, P["biastype"] == 2)):
    k = int(sel.sum())
    if k:
      base = np.array([0.75, 1.05, -1.0, 200.0, 0.5, 1.6, 1.5, 1.3, 1.2, 0.0], dtype=np.float32)
      mp = base[None] * rng.uniform(0.8, 1.25, (k, 10)).astype(np.float32)
      mp[:, 2] = np.where(rng.random(k) < 0.5, -1.0, rng.uniform(0.5, 3, k))
      arr[sel] = mp
  mus_dyn = P["dyntype"] == 4
  dynprm[mus_dyn, :3] = rng.uniform(0.01, 0.1, (int(mus_dyn.sum()), 3)).astype(np.float32)
  if not restricted:
    # DC-motor parameters: te sign, controller mode, temperature / slew / integral slots, LuGre sigma1
    dynprm[:, 0] = np.where(rng.random(n) < 0.5, np.abs(dynprm[:, 0]), -np.abs(dynprm[:, 0]) * (rng.random(n) < 0.5))
    gainprm[:, 8] = rng.integers(0, 3, n)
    gainprm[:, 0] = np.abs(gainprm[:, 0]) + 0.1
    for c in (2, 7):
      dynprm[:, c] = np.where(rng.random(n) < 0.5, np.abs(dynprm[:, c]), 0.0)
    gainprm[:, 5] = np.where(rng.random(n) < 0.5, np.abs(gainprm[:, 5]), 0.0)
    dynprm[:, 6] = np.where(rng.random(n) < 0.5, np.abs(dynprm[:, 6]), -np.abs(dynprm[:, 6]))
    gainprm[:, 2] = gainprm[:, 2] * 0.01
    # a DC-motor with slots needs room in act: give every DC actuator 3 slots
    dc = (P["gaintype"] == 3) | (P["biastype"] == 3) | (P["dyntype"] == 5)
    P["actnum"] = np.where(dc, 3, P["actnum"]).astype(np.int32)
    P["actadr"] = np.where(dc, 3 * np.arange(n), P["actadr"]).astype(np.int32)
  P["dynprm"], P["gainprm"], P["biasprm"] = dynprm.astype(np.float32), gainprm.astype(np.float32), biasprm.astype(np.float32)
  P["actlimited"] = rng.random(n) < 0.4
  lo = -np.abs(r32(n)) - 0.05
  P["actrange"] = np.stack([lo, np.abs(r32(n)) + 0.05], 1).astype(np.float32)
  P["actearly"] = rng.random(n) < 0.5
  P["forcelimited"] = rng.random(n) < 0.4
  P["forcerange"] = np.stack([-np.abs(r32(n)) - 0.05, np.abs(r32(n)) + 0.05], 1).astype(np.float32)
  P["ctrllimited"] = rng.random(n) < 0.5
  P["ctrlrange"] = np.stack([-np.abs(r32(n)) - 0.05, np.abs(r32(n)) + 0.05], 1).astype(np.float32)
  P["act"] = r32(3 * n)
  P["act_dot"] = r32(3 * n)
  P["ctrl"] = r32(n)
  P["length"] = r32(n)
  P["velocity"] = (r32(n) * 3).astype(np.float32)
  P["acc0"] = (np.abs(r32(n)) + 0.1).astype(np.float32)
  lr0 = r32(n) * 0.3
  P["lengthrange"] = np.stack([lr0, lr0 + np.abs(r32(n)) + 0.2], 1).astype(np.float32)
  P["force"] = r32(n)
  P["vec10"] = vec10
  return P


def _args_by_name(kernel, by_name):
  """Launch arguments in the kernel's own parameter order; names we cannot supply are returned."""
  names = [a.label for a in kernel.adj.args]
  unknown = [x for x in names if x not in by_name]
  return [by_name[x] for x in names if x in by_name], unknown


def model_corr_vel(res, n):
  """qderiv_vel_model vs the real derivative._qderiv_actuator_passive_vel (all gain/bias/dyn types)."""
  import warp as wp

  import tvalid

  import mujoco_warp._src.derivative as D

  rng = np.random.default_rng(vlib.seed() + 2701)
  P = _random_actuators(rng, n, restricted=False)
  h = np.float32(rng.choice([0.002, 0.01, 0.05]))
  dsbl = int(rng.integers(0, 2))
  vel = wp.zeros((1, n), dtype=float)
  v10 = P["vec10"]
  by_name = dict(
    opt_timestep=wp.array([h], dtype=float), actuator_dyntype=wp.array(P["dyntype"], dtype=int), actuator_gaintype=wp.array(P["gaintype"], dtype=int),
    actuator_biastype=wp.array(P["biastype"], dtype=int), actuator_actadr=wp.array(P["actadr"], dtype=int), actuator_actnum=wp.array(P["actnum"], dtype=int),
    actuator_dynprm=wp.array(P["dynprm"][None], dtype=v10), actuator_gainprm=wp.array(P["gainprm"][None], dtype=v10), actuator_biasprm=wp.array(P["biasprm"][None], dtype=v10),
    actuator_actlimited=wp.array(P["actlimited"], dtype=wp.bool), actuator_actrange=wp.array(P["actrange"][None], dtype=wp.vec2), actuator_actearly=wp.array(P["actearly"], dtype=wp.bool),
    actuator_forcelimited=wp.array(P["forcelimited"], dtype=wp.bool), actuator_forcerange=wp.array(P["forcerange"][None], dtype=wp.vec2),
    actuator_ctrllimited=wp.array(P["ctrllimited"], dtype=wp.bool), actuator_ctrlrange=wp.array(P["ctrlrange"][None], dtype=wp.vec2),
    actuator_acc0=wp.array(P["acc0"][None], dtype=float), actuator_lengthrange=wp.array(P["lengthrange"][None], dtype=wp.vec2),
    act_in=wp.array(P["act"][None], dtype=float), ctrl_in=wp.array(P["ctrl"][None], dtype=float), act_dot_in=wp.array(P["act_dot"][None], dtype=float),
    actuator_length_in=wp.array(P["length"][None], dtype=float), actuator_velocity_in=wp.array(P["velocity"][None], dtype=float),
    actuator_force_in=wp.array(P["force"][None], dtype=float), dsbl_clampctrl=dsbl, vel_out=vel,
  )  # fmt: skip
  args, unknown = _args_by_name(D._qderiv_actuator_passive_vel, by_name)
  if unknown:
    # the kernel's interface changed: the hand model no longer mirrors it
    return [{"error": f"_qderiv_actuator_passive_vel has parameters the hand model does not know: {unknown}"}]
  wp.launch(D._qderiv_actuator_passive_vel, dim=(1, n), inputs=args)
  wp.synchronize()
  out = vel.numpy()[0]
  fl, fh = vlib.flist, vlib.fhex
  lines = []
  for i in range(n):
    # the case line carries only this actuator's 3 activation slots (kernel address 3*i -> model address 0)
    adr0 = 0 if P["actadr"][i] >= 0 else -1
    sl = slice(3 * i, 3 * i + 3)
    lines.append(
      f"tv3 {fh(2e-4)} (fun Sc => [@qderiv_vel_model float Sc {fh(h)} ({int(P['dyntype'][i])})%Z ({int(P['gaintype'][i])})%Z ({int(P['biastype'][i])})%Z "
      f"({adr0})%Z ({int(P['actnum'][i])})%Z {fl(P['dynprm'][i])} {fl(P['gainprm'][i])} {fl(P['biasprm'][i])} {_b(P['actlimited'][i])} {fl(P['actrange'][i])} "
      f"{_b(P['actearly'][i])} {_b(P['forcelimited'][i])} {fl(P['forcerange'][i])} {_b(P['ctrllimited'][i])} {fl(P['ctrlrange'][i])} {fh(P['acc0'][i])} {fl(P['lengthrange'][i])} {fl(P['act'][sl])} {fh(P['ctrl'][i])} {fl(P['act_dot'][sl])} "
      f"{fh(P['length'][i])} {fh(P['velocity'][i])} {fh(P['force'][i])} ({dsbl})%Z]) {fl([out[i]])}"
    )
    res.nontrivial(("vel-model", int(P["dyntype"][i]), int(P["gaintype"][i]), int(P["biastype"][i]), bool(P["actearly"][i]), bool(P["forcelimited"][i])))
  verdicts = tvalid.run_cases("C27v", ["Model.Deriv"], lines)
  res.count(n)
  res.extra["model_vel_correspondence"] = {"agree": verdicts.count(0), "discarded": verdicts.count(1), "disagree": verdicts.count(2)}
  res.sample({"kind": "hand model vs _qderiv_actuator_passive_vel", "dyntype": int(P["dyntype"][0]), "gaintype": int(P["gaintype"][0]), "biastype": int(P["biastype"][0]), "kernel_value": float(out[0])})
  keys = ("dyntype", "gaintype", "biastype", "actadr", "actnum", "dynprm", "gainprm", "biasprm", "actlimited", "actrange", "actearly", "forcelimited", "forcerange", "ctrllimited", "ctrlrange", "acc0", "lengthrange", "ctrl", "length", "velocity", "force")
  return [{"case": i, "kernel_value": float(out[i]), **{k: np.asarray(P[k][i]).tolist() for k in keys}} for i, v in enumerate(verdicts) if v == 2]


def model_corr_force(res, n):
  """actuator_force_model vs the real forward._actuator_force (all non-DC-motor types)."""
  import warp as wp

  import tvalid

  import mujoco_warp._src.forward as F

  rng = np.random.default_rng(vlib.seed() + 2702)
  P = _random_actuators(rng, n, restricted=True)
  h = np.float32(rng.choice([0.002, 0.01, 0.05]))
  dsbl = int(rng.integers(0, 2))
  na = 3 * n
  v10 = P["vec10"]
  act_dot = wp.zeros((1, na), dtype=float)
  force = wp.zeros((1, n), dtype=float)
  by_name = dict(
    na=na, opt_timestep=wp.array([h], dtype=float), actuator_dyntype=wp.array(P["dyntype"], dtype=int), actuator_gaintype=wp.array(P["gaintype"], dtype=int),
    actuator_biastype=wp.array(P["biastype"], dtype=int), actuator_actadr=wp.array(P["actadr"], dtype=int), actuator_actnum=wp.array(P["actnum"], dtype=int),
    actuator_dynprm=wp.array(P["dynprm"][None], dtype=v10), actuator_gainprm=wp.array(P["gainprm"][None], dtype=v10), actuator_biasprm=wp.array(P["biasprm"][None], dtype=v10),
    actuator_actlimited=wp.array(P["actlimited"], dtype=wp.bool), actuator_actrange=wp.array(P["actrange"][None], dtype=wp.vec2), actuator_actearly=wp.array(P["actearly"], dtype=wp.bool),
    actuator_forcelimited=wp.array(P["forcelimited"], dtype=wp.bool), actuator_forcerange=wp.array(P["forcerange"][None], dtype=wp.vec2),
    actuator_ctrllimited=wp.array(P["ctrllimited"], dtype=wp.bool), actuator_ctrlrange=wp.array(P["ctrlrange"][None], dtype=wp.vec2),
    actuator_acc0=wp.array(P["acc0"][None], dtype=float), actuator_lengthrange=wp.array(P["lengthrange"][None], dtype=wp.vec2),
    act_in=wp.array(P["act"][None], dtype=float), ctrl_in=wp.array(P["ctrl"][None], dtype=float), actuator_length_in=wp.array(P["length"][None], dtype=float),
    actuator_velocity_in=wp.array(P["velocity"][None], dtype=float), dsbl_clampctrl=dsbl, act_dot_out=act_dot, actuator_force_out=force,
  )  # fmt: skip
  args, unknown = _args_by_name(F._actuator_force, by_name)
  if unknown:
    return [{"error": f"_actuator_force has parameters the hand model does not know: {unknown}"}]
  wp.launch(F._actuator_force, dim=(1, n), inputs=args)
  wp.synchronize()
  fo, ado = force.numpy()[0], act_dot.numpy()[0]
  fl, fh = vlib.flist, vlib.fhex
  lines = []
  for i in range(n):
    has_act = P["actadr"][i] >= 0
    exp = [ado[P["actadr"][i] + P["actnum"][i] - 1] if has_act else 0.0, fo[i]]
    adr0 = 0 if has_act else -1
    sl = slice(3 * i, 3 * i + 3)
    lines.append(
      f"tv3 {fh(2e-4)} (fun Sc => let r := @actuator_force_model float Sc ({na})%Z {fh(h)} ({int(P['dyntype'][i])})%Z ({int(P['gaintype'][i])})%Z ({int(P['biastype'][i])})%Z "
      f"({adr0})%Z ({int(P['actnum'][i])})%Z {fl(P['dynprm'][i])} {fl(P['gainprm'][i])} {fl(P['biasprm'][i])} {_b(P['actlimited'][i])} {fl(P['actrange'][i])} "
      f"{_b(P['actearly'][i])} {_b(P['forcelimited'][i])} {fl(P['forcerange'][i])} {_b(P['ctrllimited'][i])} {fl(P['ctrlrange'][i])} {fh(P['acc0'][i])} {fl(P['lengthrange'][i])} {fl(P['act'][sl])} {fh(P['ctrl'][i])} "
      f"{fh(P['length'][i])} {fh(P['velocity'][i])} ({dsbl})%Z in [fst r; snd r]) {fl(exp)}"
    )
    res.nontrivial(("force-model", int(P["dyntype"][i]), int(P["gaintype"][i]), int(P["biastype"][i]), bool(P["actearly"][i]), bool(P["forcelimited"][i]), bool(P["ctrllimited"][i])))
  verdicts = tvalid.run_cases("C27f", ["Model.Deriv"], lines)
  res.count(n)
  res.extra["model_force_correspondence"] = {"agree": verdicts.count(0), "discarded": verdicts.count(1), "disagree": verdicts.count(2)}
  keys = ("dyntype", "gaintype", "biastype", "actadr", "actnum", "dynprm", "gainprm", "biasprm", "actlimited", "actrange", "actearly", "forcelimited", "forcerange", "ctrllimited", "ctrlrange", "acc0", "lengthrange", "ctrl", "length", "velocity")
  return [{"case": i, "kernel_force": float(fo[i]), **{k: np.asarray(P[k][i]).tolist() for k in keys}} for i, v in enumerate(verdicts) if v == 2]


def model_corr_fluid(res, nbody):
  """fluid_force_box_model vs the real passive._fluid_force (inertia-box branch): 8 worlds = media
  {both, density only, viscosity only, neither} x {no wind, wind}; random bodies (rotation, CoM offset from the
  subtree root, spatial velocity, mass / inertia incl. one below MINVAL)."""
  import warp as wp

  import tvalid

  import mujoco_warp._src.passive as PS

  rng = np.random.default_rng(vlib.seed() + 2708)
  nb = nbody + 1
  media = [(d_, v_, w_) for w_ in (0, 1) for (d_, v_) in ((1, 1), (1, 0), (0, 1), (0, 0))]
  nw = len(media)
  dens = np.array([rng.uniform(1, 40) * d_ for d_, _, _ in media], dtype=np.float32)
  visc = np.array([rng.uniform(0.05, 0.5) * v_ for _, v_, _ in media], dtype=np.float32)
  wind = np.array([rng.normal(0, 1.5, 3) * w_ for _, _, w_ in media], dtype=np.float32)
  mass = rng.uniform(0.2, 3, (1, nb)).astype(np.float32)
  mass[0, nb - 1] = 0.0  # negligible mass: the kernel stores zero
  inertia = rng.uniform(0.01, 0.2, (1, nb, 3)).astype(np.float32)
  inertia[0, 1] = [0.3, 0.05, 0.05]  # violates the triangle inequality: max(MINVAL, .) is active
  q = rng.normal(0, 1, (nw, nb, 4))
  q /= np.linalg.norm(q, axis=2, keepdims=True)
  a, b_, c, d_ = q[..., 0], q[..., 1], q[..., 2], q[..., 3]
  rot = np.stack([1 - 2 * (c * c + d_ * d_), 2 * (b_ * c - a * d_), 2 * (b_ * d_ + a * c), 2 * (b_ * c + a * d_), 1 - 2 * (b_ * b_ + d_ * d_), 2 * (c * d_ - a * b_),
                  2 * (b_ * d_ - a * c), 2 * (c * d_ + a * b_), 1 - 2 * (b_ * b_ + c * c)], axis=-1).reshape(nw, nb, 3, 3).astype(np.float32)  # fmt: skip
  xipos = rng.normal(0, 0.5, (nw, nb, 3)).astype(np.float32)
  scom = rng.normal(0, 0.5, (nw, nb, 3)).astype(np.float32)
  cvel = (rng.normal(0, 1, (nw, nb, 6)) * 10.0 ** rng.uniform(-1, 1, (nw, nb, 1))).astype(np.float32)
  cvel[:, 2, 1] = 0.0  # |v| kink
  out = wp.zeros((nw, nb), dtype=wp.spatial_vector)
  by_name = dict(
    opt_wind=wp.array(wind, dtype=wp.vec3), opt_density=wp.array(dens, dtype=float), opt_viscosity=wp.array(visc, dtype=float),
    body_rootid=wp.array(np.arange(nb), dtype=int), body_geomnum=wp.zeros(nb, dtype=int), body_geomadr=wp.zeros(nb, dtype=int),
    body_mass=wp.array(mass, dtype=float), body_inertia=wp.array(inertia, dtype=wp.vec3), geom_type=wp.zeros(1, dtype=int),
    geom_size=wp.zeros((1, 1), dtype=wp.vec3), geom_fluid=wp.zeros((1, 12), dtype=float), body_fluid_ellipsoid=wp.zeros(nb, dtype=wp.bool),
    xipos_in=wp.array(xipos, dtype=wp.vec3), ximat_in=wp.array(rot, dtype=wp.mat33), geom_xpos_in=wp.zeros((nw, 1), dtype=wp.vec3),
    geom_xmat_in=wp.zeros((nw, 1), dtype=wp.mat33), subtree_com_in=wp.array(scom, dtype=wp.vec3), cvel_in=wp.array(cvel, dtype=wp.spatial_vector),
    fluid_applied_out=out,
  )  # fmt: skip
  args, unknown = _args_by_name(PS._fluid_force, by_name)
  if unknown:
    return [{"error": f"_fluid_force has parameters the hand model does not know: {unknown}"}]
  wp.launch(PS._fluid_force, dim=(nw, nb), inputs=args)
  wp.synchronize()
  o = out.numpy()
  fl, fh = vlib.flist, vlib.fhex
  lines, meta = [], []
  for w in range(nw):
    for b in range(1, nb):
      lines.append(
        f"tv3 {fh(2e-4)} (fun Sc => @fluid_force_box_model float Sc {fh(mass[0, b])} {fl(inertia[0, b])} {fl(rot[w, b].reshape(-1))} {fl(xipos[w, b])} {fl(scom[w, b])} "
        f"{fl(cvel[w, b])} {fl(wind[w])} {fh(dens[w])} {fh(visc[w])}) {fl(o[w, b])}"
      )
      meta.append((w, b))
      res.nontrivial(("fluid-model", media[w], b))
  verdicts = tvalid.run_cases("C27b", ["Model.Deriv"], lines)
  res.count(len(lines))
  res.extra["model_fluid_correspondence"] = {"agree": verdicts.count(0), "discarded": verdicts.count(1), "disagree": verdicts.count(2)}
  return [dict(world=w, body=b, density=float(dens[w]), viscosity=float(visc[w]), wind=wind[w].tolist(), mass=float(mass[0, b]), inertia=inertia[0, b].tolist(), ximat=rot[w, b].tolist(),
               xipos=xipos[w, b].tolist(), subtree_com=scom[w, b].tolist(), cvel=cvel[w, b].tolist(), kernel=o[w, b].tolist()) for (w, b), v in zip(meta, verdicts) if v == 2]  # fmt: skip


# ---------------------------------------------------------------------------------------------
# translated kernels vs traced launches of the real pipeline
# ---------------------------------------------------------------------------------------------
KV_FIXTURES = {
  "arm": """<mujoco><option timestep="0.01" density="5" viscosity="0.1"/><worldbody>
   <body pos="0 0 1"><joint name="j0" axis="0 1 0" damping="0.3"/><geom type="capsule" size=".04" fromto="0 0 0 .3 0 0"/><site name="s0" pos=".1 0 .05"/>
    <body pos=".3 0 0"><joint name="j1" type="slide" axis="1 0 0" damping="0.2"/><joint name="j2" axis="0 0 1"/><geom type="box" size=".05 .03 .02" pos=".1 0 0"/><site name="s1" pos=".1 .02 0"/></body></body>
   </worldbody><tendon><fixed name="t0" damping="0.4"><joint joint="j0" coef="1"/><joint joint="j2" coef="-0.6"/></fixed><spatial name="t1" damping="0.3"><site site="s0"/><site site="s1"/></spatial></tendon>
   <actuator><general joint="j1" gaintype="affine" gainprm="1 .5 .7" biastype="affine" biasprm=".1 .2 -.4"/><velocity joint="j0" kv="1.5"/><position tendon="t0" kp="3" kv="0.5"/></actuator></mujoco>""",
  "ball": """<mujoco><option timestep="0.005" gravity="0 0 0"/><worldbody>
   <body pos="0 0 1"><joint name="b" type="ball" damping="0.1"/><geom type="box" size=".06 .04 .02" pos=".05 .02 0"/>
    <body pos=".2 0 0"><joint name="h" axis="0 1 0" damping="0.05"/><geom type="capsule" size=".03" fromto="0 0 0 .2 0 0"/></body></body>
   </worldbody><actuator><general joint="h" dyntype="filter" dynprm="0.05" gaintype="affine" gainprm="2 0 -0.3" actearly="true"/></actuator></mujoco>""",
}


def kvalidate(res, trs, quick):
  import mujoco
  import warp as wp

  import ktrace
  import kvalid
  import mujoco_warp as mjw
  import mujoco_warp._src.forward as F

  rng = np.random.default_rng(vlib.seed() + 2703)
  bad = []
  seen = set()
  per_gen = {"T_derivative": [], "kforward": [], "T_passive": []}
  for name, xml in KV_FIXTURES.items():
    for integ in (IMPLICITFAST, IMPLICIT, EULER):
      mjm = mujoco.MjModel.from_xml_string(xml)
      mjm.opt.integrator = integ
      mjm.dof_dampingpoly[:] = rng.uniform(0, 0.3, (mjm.nv, 2))
      if mjm.ntendon:
        mjm.tendon_dampingpoly[:] = rng.uniform(0, 0.3, (mjm.ntendon, 2))
        mjm.tendon_damping[0] = 0.0  # purely polynomial tendon damper (zero linear part)
        mjm.dof_damping[0] = 0.0
      if mjm.opt.density > 0 and integ == IMPLICIT:
        mjm.opt.viscosity = 0.0  # density-only medium
      if mjm.opt.density > 0 and integ == IMPLICITFAST:
        mjm.opt.density = 0.0  # viscosity-only medium
      mjd = mujoco.MjData(mjm)
      mjd.qvel[:] = rng.normal(0, 2, mjm.nv).astype(np.float32)
      mjd.ctrl[:] = rng.normal(0, 1, mjm.nu).astype(np.float32)
      if mjm.na:
        mjd.act[:] = rng.normal(0, 0.5, mjm.na).astype(np.float32)
      if mjm.nq == mjm.nv:
        mjd.qpos[:] = rng.normal(0, 0.4, mjm.nq).astype(np.float32)
      mujoco.mj_forward(mjm, mjd)
      m = mjw.put_model(mjm)
      d = mjw.put_data(mjm, mjd, nworld=2)
      v = d.qvel.numpy()
      v[1] = rng.normal(0, 3, mjm.nv).astype(np.float32)
      wp.copy(d.qvel, wp.array(v, dtype=float))
      trp = trs.get("T_passive")
      if integ == IMPLICITFAST and trp is not None:
        # the passive damper kernels whose force the derivative kernels differentiate
        wantedp = {fi.pyqual: fi for k, fi in trp.kernels.items() if k in KERNELS["T_passive"]}
        with ktrace.Tracer(wantedp, per_kernel=1) as tp:
          mjw.forward(m, d)
        for c in tp.cases:
          c["fixture"], c["integrator"] = name, integ
          seen.add(c["qual"].rsplit(".", 1)[-1])
          res.nontrivial(("kv", name, integ, c["qual"].rsplit(".", 1)[-1]))
        per_gen["T_passive"] += tp.cases
      else:
        mjw.forward(m, d)
      g = "kforward" if integ == EULER else "T_derivative"
      tr = trs.get(g)
      if tr is None:
        continue
      wanted = {fi.pyqual: fi for k, fi in tr.kernels.items() if k in KERNELS[g]}
      with ktrace.Tracer(wanted, per_kernel=1) as t:
        if integ == EULER:
          F.euler(m, d)
        else:
          F.implicit(m, d)
      for c in t.cases:
        c["fixture"], c["integrator"] = name, integ
        seen.add(c["qual"].rsplit(".", 1)[-1])
        res.nontrivial(("kv", name, integ, c["qual"].rsplit(".", 1)[-1]))
      per_gen[g] += t.cases
  stats = {}
  for g, cases in per_gen.items():
    if not cases:
      continue
    if quick:
      # quick tier: one traced launch per (kernel, integrator)
      keep, have = [], set()
      for c in cases:
        k = (c["qual"], c["integrator"])
        if k not in have:
          have.add(k)
          keep.append(c)
      cases = keep
    verdicts = kvalid.run_cases(res, "C27k" + g[:2] + g[-2:], "Gen." + g, cases, tol=2e-4)
    stats[g] = {"cases": len(cases), "agree": verdicts.count(0), "discarded": verdicts.count(1), "disagree": verdicts.count(2)}
    bad += [{"fixture": cases[i]["fixture"], "integrator": cases[i]["integrator"], "kernel": cases[i]["qual"], "xml": KV_FIXTURES[cases[i]["fixture"]]} for i, vv in enumerate(verdicts) if vv == 2]
  res.extra["kernel_validation"] = stats
  need = [k for g in ("T_derivative", "kforward", "T_passive") for k in KERNELS[g]]
  res.obligation("kernel validation traced every translated derivative kernel", all(k in seen for k in need), f"traced: {sorted(seen)}")
  return bad


# ---------------------------------------------------------------------------------------------
# oracle on the real code
# ---------------------------------------------------------------------------------------------
def dense_M(m, vec):
  import mujoco

  out = np.zeros((m.nv, m.nv))
  mujoco.mju_sym2dense(out, np.ascontiguousarray(vec, dtype=np.float64).reshape(-1), m.M_rownnz, m.M_rowadr, m.M_colind)
  return out


def dense_D(m, vec):
  import mujoco

  out = np.zeros((m.nv, m.nv))
  mujoco.mju_sparse2dense(out, np.ascontiguousarray(vec, dtype=np.float64).reshape(-1), m.D_rownnz, m.D_rowadr, m.D_colind)
  return out


def csr_lower_inv(m):
  """The hypothesis of C27_euler_damp_diagonal on a real mjModel."""
  rn, ra, ci = m.M_rownnz, m.M_rowadr, m.M_colind
  if m.nv == 0:
    return True
  if ra[0] != 0:
    return False
  for i in range(m.nv):
    if rn[i] < 1 or ci[ra[i] + rn[i] - 1] != i:
      return False
    if i + 1 < m.nv and ra[i + 1] != ra[i] + rn[i]:
      return False
    if any(not (0 <= ci[ra[i] + k] < i) for k in range(rn[i] - 1)):
      return False
  return ra[m.nv - 1] + rn[m.nv - 1] == m.nC


def copy_state(m, src):
  import mujoco

  d = mujoco.MjData(m)
  d.qpos[:], d.qvel[:], d.act[:], d.ctrl[:], d.time = src.qpos, src.qvel, src.act, src.ctrl, src.time
  return d


def mj_qderiv(m, d, integ):
  """MuJoCo C's analytic qDeriv (D structure) at the state of d: mj_step computes it before integrating."""
  import mujoco

  old = m.opt.integrator
  m.opt.integrator = integ
  d2 = copy_state(m, d)
  mujoco.mj_step(m, d2)
  m.opt.integrator = old
  return dense_D(m, d2.qDeriv)


def fd_qderiv(m, d, bias, eps=1e-6):
  """Central differences of the float64 smooth force qfrc_passive + qfrc_actuator (- qfrc_bias) in qvel."""
  import mujoco

  d2 = copy_state(m, d)
  mujoco.mj_forward(m, d2)
  v0 = d.qvel.copy()

  def f(v):
    d2.qvel[:] = v
    mujoco.mj_fwdVelocity(m, d2)
    mujoco.mj_fwdActuation(m, d2)
    r = d2.qfrc_passive + d2.qfrc_actuator
    return (r - d2.qfrc_bias if bias else r).copy()

  J = np.zeros((m.nv, m.nv))
  for k in range(m.nv):
    e = np.zeros(m.nv)
    e[k] = eps
    J[:, k] = (f(v0 + e) - f(v0 - e)) / (2 * eps)
  return J


def mjw_qderiv(m, d, integ, state1=None):
  """(M - A)/h where A is the matrix the REAL forward.implicit(m, d) hands to its factorisation:
  the call runs unmodified; smooth.factor_solve_lu (integrator=implicit: A = qLU, D structure) and
  smooth.factor_solve_i (implicitfast: A = output of deriv_smooth_vel, M structure) are wrapped only to
  copy their matrix argument before it is factorised.  Returns one dense matrix per world (world 1
  gets `state1` = (qvel, ctrl, act) if given)."""
  import warp as wp

  import mujoco_warp as mjw
  from mujoco_warp._src import forward, smooth

  old = m.opt.integrator
  m.opt.integrator = integ
  nworld = 2 if state1 is not None else 1
  try:
    mm = mjw.put_model(m)
    dd = mjw.put_data(m, d, nworld=nworld)
  finally:
    m.opt.integrator = old
  if state1 is not None:
    for name, val in zip(("qvel", "ctrl", "act"), state1):
      arr = getattr(dd, name)
      a = arr.numpy()
      if a.shape[1]:
        a[1] = np.asarray(val, dtype=np.float32)
        wp.copy(arr, wp.array(a, dtype=float))
  mjw.forward(mm, dd)
  M = dd.M.numpy().copy()
  cap = {}
  orig_lu, orig_i = smooth.factor_solve_lu, smooth.factor_solve_i

  def cap_lu(m_, d_, qLU, *a, **k):
    cap["A"] = qLU.numpy().copy()
    return orig_lu(m_, d_, qLU, *a, **k)

  def cap_i(m_, d_, A, *a, **k):
    cap["A"] = A.numpy().copy()
    return orig_i(m_, d_, A, *a, **k)

  smooth.factor_solve_lu, smooth.factor_solve_i = cap_lu, cap_i
  try:
    forward.implicit(mm, dd)
  finally:
    smooth.factor_solve_lu, smooth.factor_solve_i = orig_lu, orig_i
  if "A" not in cap:
    raise RuntimeError("forward.implicit did not reach smooth.factor_solve_lu / factor_solve_i")
  h = m.opt.timestep
  A = cap["A"]
  want = mm.nD if integ == IMPLICIT else mm.nC
  if A.shape != (nworld, want):
    raise RuntimeError(f"forward.implicit factorises a matrix of shape {A.shape}, expected {(nworld, want)}")
  res = []
  for w in range(nworld):
    Md = dense_M(m, M[w])
    if integ == IMPLICIT:
      res.append((Md - dense_D(m, A[w])) / h)
    else:
      res.append(np.tril(Md - dense_M(m, A[w])) / h)
  return res, float(np.abs(M).max()) if M.size else 0.0


def expected(m, d, integ):
  """(MuJoCo analytic, finite differences), each restricted to the structure MJWarp fills: the D pattern
  for implicit; for implicitfast the lower triangle on M's pattern of the SYMMETRISED derivative
  without the bias term (the documented implicitfast approximation)."""
  Q = mj_qderiv(m, d, integ)
  if integ == IMPLICIT:
    mask = dense_D(m, np.ones(m.nD)) != 0
    return np.where(mask, Q, 0), np.where(mask, fd_qderiv(m, d, True), 0), mask
  mask = np.tril(dense_M(m, np.ones(m.nC))) != 0
  F = fd_qderiv(m, d, False)
  return np.where(mask, np.tril(Q), 0), np.where(mask, np.tril((F + F.T) / 2), 0), mask


def childless_free_dofs(m):
  """dofs of free joints whose body has no child body: MuJoCo 3.13's implicitfast keeps the unsymmetrised
  (and RNE) derivative for these (recorded as C08:implicitfast:childless-free-body-rne-derivative), so
  only the finite-difference oracle is used on them."""
  import mujoco

  out = np.zeros(m.nv, dtype=bool)
  for j in range(m.njnt):
    if m.jnt_type[j] == mujoco.mjtJoint.mjJNT_FREE:
      b = m.jnt_bodyid[j]
      if not np.any(m.body_parentid[1:] == b):
        out[m.jnt_dofadr[j] : m.jnt_dofadr[j] + 6] = True
  return out


def build_model(rng, feat):
  import mujoco

  import models

  o = models.Opts(
    nbody=(1, 5), joint_types=feat.get("jt", ("hinge", "slide", "ball", "free")), actuators=int(rng.integers(1, 4)),
    act_kinds=("position", "velocity", "general", "motor"), tendons=int(rng.integers(1, 3)) if feat["tendon"] else 0,
    gravity=bool(rng.random() < 0.5), sites=0.8, damping=0.6,
  )  # fmt: skip
  xml, info = models.random_model(rng, o)
  # ctrllimited actuators stay in (random ctrl is often outside ctrlrange: the repaired clamp is exercised)
  scalar = [j for j in info["joints"] if j[1] in ("hinge", "slide")]
  if feat.get("muscle") and scalar and "</actuator>" in xml:
    jn = scalar[int(rng.integers(len(scalar)))][0]
    xml = xml.replace("</actuator>", f'<muscle name="amus" joint="{jn}" lengthrange="-1.5 1.5" vmax="{rng.uniform(0.5, 3):.3f}" fvmax="{rng.uniform(1.1, 1.6):.3f}"/></actuator>')
  if not feat["forcelimited"]:
    xml = xml.replace(' forcelimited="true" forcerange="-0.5 0.6"', "")
  if feat["ellipsoid"]:
    parts = xml.split("<geom ")
    xml = parts[0] + "".join(('<geom fluidshape="ellipsoid" ' if rng.random() < 0.6 else "<geom ") + p for p in parts[1:])
  xml = xml.replace("<option ", f'<option jacobian="{feat["jac"]}" ')
  m = mujoco.MjModel.from_xml_string(xml)
  m.opt.timestep = float(rng.choice([0.002, 0.01, 0.02]))
  edits = {"timestep": m.opt.timestep}
  if feat["poly"]:
    # linear part zero on ~45% of the dofs, each polynomial coefficient zero on ~40%
    m.dof_damping[:] = rng.uniform(0, 0.5, m.nv) * (rng.random(m.nv) < 0.55)
    m.dof_dampingpoly[:] = rng.uniform(0, 0.3, (m.nv, 2)) * (rng.random((m.nv, 2)) < 0.6)
    edits["dof_damping"], edits["dof_dampingpoly"] = m.dof_damping.tolist(), m.dof_dampingpoly.tolist()
  if m.ntendon:
    # tendons always get polynomial damping; linear part zero on ~45% (purely polynomial dampers)
    m.tendon_damping[:] = rng.uniform(0, 1, m.ntendon) * (rng.random(m.ntendon) < 0.55)
    m.tendon_dampingpoly[:] = rng.uniform(0, 0.3, (m.ntendon, 2)) * (rng.random((m.ntendon, 2)) < 0.7)
    edits["tendon_damping"], edits["tendon_dampingpoly"] = m.tendon_damping.tolist(), m.tendon_dampingpoly.tolist()
  if feat.get("disable"):
    m.opt.disableflags |= int(feat["disable"])
    edits["disableflags"] = int(m.opt.disableflags)
  for i in range(m.nu):
    if rng.random() < 0.7:
      m.actuator_gaintype[i] = 1
      m.actuator_gainprm[i, :3] = rng.normal(0, 1, 3)
    if rng.random() < 0.7:
      m.actuator_biastype[i] = 1
      m.actuator_biasprm[i, :3] = rng.normal(0, 1, 3)
  edits["actuator_gaintype"], edits["actuator_gainprm"] = m.actuator_gaintype.tolist(), m.actuator_gainprm[:, :3].tolist()
  edits["actuator_biastype"], edits["actuator_biasprm"] = m.actuator_biastype.tolist(), m.actuator_biasprm[:, :3].tolist()
  if feat["fluid"]:
    # medium: both / density only / viscosity only (exactly one coefficient zero) / both, cyclically
    kind = feat.get("medium", "both")
    m.opt.density = float(rng.uniform(0.5, 50)) if kind in ("both", "density") else 0.0
    m.opt.viscosity = float(rng.uniform(0.05, 0.5)) if kind in ("both", "viscosity") else 0.0
    if rng.random() < 0.5:
      m.opt.wind[:] = rng.normal(0, 1, 3)
    edits["density"], edits["viscosity"], edits["wind"] = m.opt.density, m.opt.viscosity, m.opt.wind.tolist()
  d = mujoco.MjData(m)
  models.random_state(rng, m, d, vel_scale=feat["vel"], unnormalized=False)
  mujoco.mj_forward(m, d)
  return xml, edits, m, d


def apply_edits(m, e):
  m.opt.timestep = e["timestep"]
  for k in ("dof_damping", "dof_dampingpoly", "tendon_damping", "tendon_dampingpoly", "actuator_gaintype", "actuator_biastype"):
    if k in e and len(e[k]):
      getattr(m, k)[:] = np.asarray(e[k])
  for k in ("actuator_gainprm", "actuator_biasprm"):
    if k in e and len(e[k]):
      getattr(m, k)[:, :3] = np.asarray(e[k])
  if "density" in e:
    m.opt.density, m.opt.viscosity = e["density"], e["viscosity"]
    m.opt.wind[:] = e["wind"]
  if "disableflags" in e:
    m.opt.disableflags = int(e["disableflags"])


def force_margin_ok(m, d, margin=1e-3):
  """no force-limited actuator sits at / near its forcerange boundary (the derivative is discontinuous there)"""
  for i in range(m.nu):
    if m.actuator_forcelimited[i]:
      f, (lo, hi) = d.actuator_force[i], m.actuator_forcerange[i]
      if min(abs(f - lo), abs(f - hi)) < margin * (1 + abs(f)):
        return False
  return True


def tolerance(m, exp, mmax):
  # float32 kernels vs float64 references: relative 1e-3 of (1 + largest entry), plus the rounding of
  # M (8 ulp of its largest entry) amplified by 1/h because the kernels return M - h*qDeriv
  return 1e-3 * (1 + np.abs(exp).max()) + 8 * 6e-8 * mmax / m.opt.timestep


def compare_one(m, d, integ, state1=None):
  """Returns list of disagreement dicts for (model, state, integrator)."""
  import mujoco

  got, mmax = mjw_qderiv(m, d, integ, state1)
  states = [d]
  if state1 is not None:
    d1 = copy_state(m, d)
    d1.qvel[:], d1.ctrl[:], d1.act[:] = state1
    mujoco.mj_forward(m, d1)
    states.append(d1)
  out = []
  free = childless_free_dofs(m)
  for w, dw in enumerate(states):
    if not force_margin_ok(m, dw):
      continue
    mjq, fdq, mask = expected(m, dw, integ)
    tol = tolerance(m, fdq, mmax)
    e_fd = np.abs(got[w] - fdq)
    e_mj = np.abs(got[w] - mjq)
    # finite differences decide only where they are trustworthy: on entries where MuJoCo's own analytic
    # derivative (an approximation for the ellipsoid fluid model) is itself further than tol from them, MuJoCo's
    # analytic value is the reference (the property compares with MuJoCo) and the finite difference is not used
    fd_trust = np.abs(mjq - fdq) <= tol
    if integ == IMPLICITFAST:
      e_mj[np.ix_(free, free)] = 0.0  # see childless_free_dofs
      fd_trust[np.ix_(free, free)] = True  # there finite differences are the only reference
    e_fd = np.where(fd_trust, e_fd, 0.0)
    if e_fd.max(initial=0) > tol or e_mj.max(initial=0) > tol:
      lower_ok = np.tril(e_fd).max(initial=0) <= tol and np.tril(e_mj).max(initial=0) <= tol
      i, j = np.unravel_index(np.argmax(np.maximum(e_fd, e_mj)), e_fd.shape)
      out.append(
        dict(world=w, integrator=int(integ), err_vs_fd=float(e_fd.max()), err_vs_mujoco=float(e_mj.max()), tol=float(tol), worst=[int(i), int(j)], lower_triangle_agrees=bool(lower_ok),
             mjw=float(got[w][i, j]), mujoco=float(mjq[i, j]), fd=float(fdq[i, j]), qpos=dw.qpos.tolist(), qvel=dw.qvel.tolist(), ctrl=dw.ctrl.tolist(), act=dw.act.tolist())
      )  # fmt: skip
  return out


def oracle(res, nmodels):
  rng = np.random.default_rng(vlib.seed() + 2704)
  fails = []
  inv_bad = []
  stats = {"models": 0, "states": 0, "skipped_nv0": 0, "csr_invariant_checked": 0, "models_with_muscle": 0, "models_with_clamped_ctrl": 0}
  for k in range(nmodels):
    feat = dict(poly=bool(k % 2), tendon=bool(k % 3 == 0), fluid=bool(k % 4 in (1, 2)), ellipsoid=bool(k % 8 in (2, 5)), forcelimited=bool(k % 5 == 3), muscle=bool(k % 3 == 2),
                disable={6: 64, 13: 32 | 64, 20: 32}.get(k % 21, 0), medium=["both", "density", "viscosity"][(k // 4) % 3],  # DAMPER / SPRING+DAMPER (passive off, a0466b7) / SPRING
                jac=["dense", "sparse"][k % 2], vel=float(10 ** rng.uniform(-0.5, 1.3)))  # fmt: skip
    xml, edits, m, d = build_model(rng, feat)
    if m.nv == 0:
      stats["skipped_nv0"] += 1
      continue
    stats["csr_invariant_checked"] += 1
    if not csr_lower_inv(m):
      inv_bad.append({"xml": xml, "M_rownnz": m.M_rownnz.tolist(), "M_rowadr": m.M_rowadr.tolist(), "M_colind": m.M_colind.tolist()})
    state1 = None
    if k % 3 == 1:
      state1 = ((rng.normal(0, feat["vel"], m.nv)).astype(np.float32), rng.normal(0, 1, m.nu).astype(np.float32), rng.uniform(0, 1, m.na).astype(np.float32))
    stats["models"] += 1
    stats["models_with_muscle"] += int(np.any(m.actuator_gaintype == 2))
    stats["models_with_clamped_ctrl"] += int(any(m.actuator_ctrllimited[i] and not (m.actuator_ctrlrange[i, 0] <= d.ctrl[i] <= m.actuator_ctrlrange[i, 1]) for i in range(m.nu)))
    for integ in (IMPLICITFAST, IMPLICIT):
      bad = compare_one(m, d, integ, state1)
      res.count(2 if state1 is not None else 1)
      stats["states"] += 2 if state1 is not None else 1
      res.nontrivial(("oracle", k, int(integ), m.nv, m.nu, m.ntendon, feat["fluid"], feat["ellipsoid"], feat["jac"]))
      for b in bad:
        b.update(xml=xml, edits=edits, features={**feat, "nv": m.nv, "nu": m.nu, "ntendon": m.ntendon})
        fails.append(b)
    if k == 0:
      res.sample({"kind": "oracle", "xml": xml[:300], "features": feat, "nv": m.nv})
  res.extra["oracle"] = stats
  res.obligation("CSR-lower invariant (hypothesis of C27_euler_damp_diagonal) holds on every oracle model", not inv_bad, f"{stats['csr_invariant_checked']} models, {len(inv_bad)} violations")
  return fails, inv_bad


def oracle_euler(res, nmodels):
  """forward.euler's implicit-damping matrix: the REAL euler(m, d) runs; smooth.factor_solve_i is wrapped to
  copy the matrix it is about to factorise.  (A - M)/h must be diagonal and equal minus the derivative of
  MuJoCo's float64 joint damper force (finite differences of qfrc_damper; models without tendon / fluid /
  actuator damping so that qfrc_damper is the joint term)."""
  import mujoco
  import warp as wp

  import models
  import mujoco_warp as mjw
  from mujoco_warp._src import forward, smooth

  rng = np.random.default_rng(vlib.seed() + 2705)
  fails = []
  for k in range(nmodels):
    o = models.Opts(nbody=(1, 5), actuators=0, tendons=0, gravity=True, damping=0.7)
    xml, _ = models.random_model(rng, o)
    xml = xml.replace("<option ", f'<option jacobian="{["dense", "sparse"][k % 2]}" ')
    m = mujoco.MjModel.from_xml_string(xml)
    if m.nv == 0:
      continue
    m.opt.timestep = float(rng.choice([0.002, 0.01, 0.02]))
    m.dof_damping[:] = rng.uniform(0, 0.5, m.nv) * (rng.random(m.nv) < 0.8)
    m.dof_dampingpoly[:] = rng.uniform(0, 0.3, (m.nv, 2)) * (rng.random((m.nv, 1)) < 0.7)
    edits = {"timestep": m.opt.timestep, "dof_damping": m.dof_damping.tolist(), "dof_dampingpoly": m.dof_dampingpoly.tolist()}
    d = mujoco.MjData(m)
    models.random_state(rng, m, d, vel_scale=float(10 ** rng.uniform(-0.5, 1)), unnormalized=False)
    if k % 4 == 0:
      d.qvel[rng.integers(0, m.nv)] = 0.0  # |v| kink of the odd polynomial
    mujoco.mj_forward(m, d)
    mm, dd = mjw.put_model(m), mjw.put_data(m, d)
    mjw.forward(mm, dd)
    M = dd.M.numpy().copy()
    cap = {}
    orig = smooth.factor_solve_i

    def cap_i(m_, d_, A, *a, **kw):
      cap["A"] = A.numpy().copy()
      return orig(m_, d_, A, *a, **kw)

    smooth.factor_solve_i = cap_i
    try:
      forward.euler(mm, dd)
    finally:
      smooth.factor_solve_i = orig
    if "A" not in cap:
      raise RuntimeError("forward.euler did not reach smooth.factor_solve_i (eulerdamp path)")
    h = m.opt.timestep
    got = (dense_M(m, cap["A"][0]) - dense_M(m, M[0])) / h
    d2 = copy_state(m, d)
    mujoco.mj_forward(m, d2)
    exp = np.zeros((m.nv, m.nv))
    for i in range(m.nv):
      f = []
      for sgn in (1, -1):
        d2.qvel[:] = d.qvel
        d2.qvel[i] += sgn * 1e-6
        mujoco.mj_fwdVelocity(m, d2)
        f.append(d2.qfrc_damper[i])
      exp[i, i] = -(f[0] - f[1]) / 2e-6
    tol = tolerance(m, exp, float(np.abs(M).max()))
    err = np.abs(got - exp)
    res.count()
    res.nontrivial(("euler", k, m.nv))
    if err.max() > tol:
      i, j = np.unravel_index(np.argmax(err), err.shape)
      fails.append(dict(xml=xml, edits=edits, integrator=EULER, qpos=d.qpos.tolist(), qvel=d.qvel.tolist(), ctrl=[], act=[], worst=[int(i), int(j)], mjw=float(got[i, j]), fd=float(exp[i, j]), tol=float(tol),
                        offdiagonal=bool(i != j)))  # fmt: skip
  return fails


POLY_XML = """<mujoco><option gravity="0 0 -9.81" jacobian="{jac}"/><worldbody>
 <body pos="0 0 1"><joint name="j0" axis="0 1 0"/><geom type="capsule" size=".04" fromto="0 0 0 .3 0 0"/><site name="s0" pos=".1 0 .06"/>
  <body pos=".3 0 0"><joint name="j1" type="slide" axis="1 0 .2"/><joint name="j2" axis="0 0 1"/><geom type="box" size=".06 .03 .02" pos=".1 0 0"/><site name="s1" pos=".12 .03 0"/>
   <body pos=".25 0 0"><joint name="j3" axis="1 0 0"/><geom type="capsule" size=".03" fromto="0 0 0 .2 .05 0"/><site name="s2" pos=".15 0 .05"/></body></body></body>
 <body pos="0 .5 1"><joint name="b" type="ball"/><geom type="box" size=".05 .08 .03" pos=".05 0 .02"/></body>
 </worldbody><tendon>
  <fixed name="t0"><joint joint="j0" coef="1.3"/><joint joint="j2" coef="-0.6"/></fixed>
  <fixed name="t1"><joint joint="j1" coef="0.8"/><joint joint="j3" coef="1.1"/><joint joint="j0" coef="-0.4"/></fixed>
  <spatial name="t2"><site site="s0"/><site site="s1"/><site site="s2"/></spatial>
 </tendon><actuator><general joint="j1" gaintype="affine" gainprm="1 .5 .7" biastype="affine" biasprm=".1 .2 -.4"/><velocity tendon="t0" kv="0.8"/></actuator></mujoco>"""

# (linear, poly0, poly1) presence patterns: purely polynomial dampers (zero linear part) in half of them
POLY_PATTERNS = [(0, 1, 1), (0, 1, 0), (0, 0, 1), (1, 0, 0), (1, 1, 0), (1, 1, 1), (0, 0, 0), (1, 0, 1)]


def mjw_fd_qderiv(m, d, integ, bias):
  """Central finite differences of MJWarp's OWN float32 smooth force qfrc_passive + qfrc_actuator
  (- qfrc_bias): one world per perturbed velocity, a single mjw.forward."""
  import warp as wp

  import mujoco_warp as mjw

  old = m.opt.integrator
  m.opt.integrator = integ
  try:
    mm = mjw.put_model(m)
    dd = mjw.put_data(m, d, nworld=2 * m.nv)
  finally:
    m.opt.integrator = old
  v = dd.qvel.numpy()
  eps = 1e-2 * (1 + np.abs(d.qvel))
  for k in range(m.nv):
    v[2 * k, k] += eps[k]
    v[2 * k + 1, k] -= eps[k]
  wp.copy(dd.qvel, wp.array(v.astype(np.float32), dtype=float))
  step = (dd.qvel.numpy()[0::2] - dd.qvel.numpy()[1::2])[np.arange(m.nv), np.arange(m.nv)].astype(np.float64)
  mjw.forward(mm, dd)
  f = dd.qfrc_passive.numpy().astype(np.float64) + dd.qfrc_actuator.numpy().astype(np.float64)
  if bias:
    f = f - dd.qfrc_bias.numpy().astype(np.float64)
  J = np.zeros((m.nv, m.nv))
  for k in range(m.nv):
    J[:, k] = (f[2 * k] - f[2 * k + 1]) / step[k]
  return J, float(np.abs(f).max())


def oracle_poly(res, nstates):
  """Linear + polynomial damping on joints AND tendons: every (linear, poly0, poly1) presence pattern incl.
  zero linear part, mixed coefficient signs, zero / small / large velocities.  M - h*qDeriv handed to the
  factorisation by the real forward.implicit is compared with MuJoCo's qDeriv, with float64 finite differences
  of MuJoCo's force (compare_one) and with float32 finite differences of MJWarp's own smooth force."""
  import mujoco

  rng = np.random.default_rng(vlib.seed() + 2706)
  fails = []
  stats = {"states": 0, "tendons_zero_linear_nonzero_poly": 0, "dofs_zero_linear_nonzero_poly": 0, "zero_velocity_dofs": 0}
  for k in range(nstates):
    m = mujoco.MjModel.from_xml_string(POLY_XML.format(jac=["dense", "sparse"][k % 2]))
    m.opt.timestep = float(rng.choice([0.002, 0.01]))
    signs = (lambda n: np.ones(n)) if k % 3 else (lambda n: rng.choice([-1.0, 1.0], n))  # mixed signs every 3rd state
    for arr_lin, arr_poly, n, scale in ((m.dof_damping, m.dof_dampingpoly, m.nv, 0.4), (m.tendon_damping, m.tendon_dampingpoly, m.ntendon, 0.8)):
      for i in range(n):
        pat = POLY_PATTERNS[int(rng.integers(len(POLY_PATTERNS)))] if (i + k) % 4 else POLY_PATTERNS[(i + k // 4) % 3]
        c = rng.uniform(0.05, 1.0, 3) * np.array([scale, 0.3, 0.1]) * np.array(pat) * signs(3)
        arr_lin[i], arr_poly[i] = c[0], c[1:]
    stats["tendons_zero_linear_nonzero_poly"] += int(np.sum((m.tendon_damping == 0) & np.any(m.tendon_dampingpoly != 0, axis=1)))
    stats["dofs_zero_linear_nonzero_poly"] += int(np.sum((m.dof_damping == 0) & np.any(m.dof_dampingpoly != 0, axis=1)))
    edits = {"timestep": m.opt.timestep, "dof_damping": m.dof_damping.tolist(), "dof_dampingpoly": m.dof_dampingpoly.tolist(),
             "tendon_damping": m.tendon_damping.tolist(), "tendon_dampingpoly": m.tendon_dampingpoly.tolist()}  # fmt: skip
    d = mujoco.MjData(m)
    d.qpos[:4] = rng.normal(0, 0.5, 4)
    q = rng.normal(0, 1, 4)
    d.qpos[4:8] = q / np.linalg.norm(q)
    vs = [0.3, 3.0, 30.0][k % 3]  # small / moderate / large velocities
    d.qvel[:] = (rng.normal(0, vs, m.nv) * rng.choice([-1.0, 1.0], m.nv)).astype(np.float32)
    if k % 2 == 0:
      z = rng.random(m.nv) < 0.3
      d.qvel[z] = 0.0  # |v| kink of the odd polynomial
      stats["zero_velocity_dofs"] += int(z.sum())
    d.ctrl[:] = rng.normal(0, 1, m.nu).astype(np.float32)
    mujoco.mj_forward(m, d)
    for integ in (IMPLICITFAST, IMPLICIT):
      bad = compare_one(m, d, integ)
      res.count()
      stats["states"] += 1
      res.nontrivial(("poly", k, int(integ)))
      # MJWarp's own force, finite differences (float32: looser tolerance, 5e-3 relative + rounding of the force)
      got, mmax = mjw_qderiv(m, d, integ)
      J, fmax = mjw_fd_qderiv(m, d, integ, integ == IMPLICIT)
      if integ == IMPLICIT:
        mask = dense_D(m, np.ones(m.nD)) != 0
        exp = np.where(mask, J, 0)
      else:
        mask = np.tril(dense_M(m, np.ones(m.nC))) != 0
        exp = np.where(mask, np.tril((J + J.T) / 2), 0)
      tol = 5e-3 * (1 + np.abs(exp).max()) + 8 * 6e-8 * mmax / m.opt.timestep + 50 * 6e-8 * fmax / (1e-2 * (1 + np.abs(d.qvel).min()))
      err = np.abs(got[0] - exp)
      if err.max() > tol and not bad:
        i, j = np.unravel_index(np.argmax(err), err.shape)
        bad = [dict(world=0, integrator=int(integ), err_vs_fd=float(err.max()), err_vs_mujoco=float("nan"), tol=float(tol), worst=[int(i), int(j)], lower_triangle_agrees=False,
                    mjw=float(got[0][i, j]), mujoco=float("nan"), fd=float(exp[i, j]), qpos=d.qpos.tolist(), qvel=d.qvel.tolist(), ctrl=d.ctrl.tolist(), act=d.act.tolist(), oracle="finite differences of the MJWarp force")]  # fmt: skip
      for b in bad:
        b.update(xml=POLY_XML.format(jac=["dense", "sparse"][k % 2]), edits=edits,
                 features={"poly": True, "tendon": True, "fluid": False, "ellipsoid": False, "forcelimited": False, "jac": ["dense", "sparse"][k % 2], "nv": m.nv, "nu": m.nu, "ntendon": m.ntendon, "polydamp": True})  # fmt: skip
        fails.append(b)
  res.extra["oracle_poly"] = stats
  return fails


FLUID_XML = {
  "box": """<mujoco><option gravity="0 0 -9.81" jacobian="{jac}"/><default><geom contype="0" conaffinity="0"/></default><worldbody>
   <body pos="0 0 1"><joint name="j0" axis="0 1 0"/><geom type="box" size=".15 .04 .02" pos=".15 0 0"/>
    <body pos=".3 0 0"><joint name="j1" axis="0 0 1"/><joint name="j2" type="slide" axis="1 .3 0"/><geom type="capsule" size=".03" fromto="0 0 0 .2 .1 0"/></body></body>
   <body pos="0 .6 1"><freejoint/><geom type="box" size=".1 .06 .03"/><body pos=".1 0 0"><joint axis="0 1 0"/><geom type="sphere" size=".04" pos=".05 0 0"/></body></body>
   </worldbody></mujoco>""",
  "ellipsoid": """<mujoco><option gravity="0 0 -9.81" jacobian="{jac}"/><default><geom contype="0" conaffinity="0"/></default><worldbody>
   <body pos="0 0 1"><joint name="j0" axis="0 1 0"/><geom type="ellipsoid" size=".1 .05 .02" pos=".2 0 0" euler="10 20 30" fluidshape="ellipsoid"/>
    <body pos=".4 0 0"><joint name="j1" axis="0 0 1"/><geom type="box" size=".08 .03 .05" pos=".1 .05 0" euler="40 -20 10" fluidshape="ellipsoid"/></body></body>
   <body pos="0 .6 1"><joint type="ball"/><geom type="capsule" size=".03 .1" pos=".05 0 0" fluidshape="ellipsoid"/><body pos=".1 0 0"><joint axis="0 1 0"/><geom type="cylinder" size=".04 .05" pos=".05 0 0" fluidshape="ellipsoid"/></body></body>
   </worldbody></mujoco>""",
}
MEDIA = {"both": (1, 1), "density-only": (1, 0), "viscosity-only": (0, 1), "neither": (0, 0)}


def oracle_fluid(res, nrep):
  """Fluid media: density only, viscosity only, both, neither; with and without wind; inertia-box bodies and
  ellipsoid bodies; dense and sparse; implicitfast and implicit.  Compared with MuJoCo's qDeriv and float64
  finite differences (compare_one).  The implicit + ellipsoid upper-triangle defect is a known finding and is
  classified under its key."""
  import mujoco

  rng = np.random.default_rng(vlib.seed() + 2707)
  fails = []
  stats = {}
  for r in range(nrep):
    for shape, xml0 in FLUID_XML.items():
      for mname, (hd, hv) in MEDIA.items():
        jac = ["dense", "sparse"][(r + hd) % 2]
        xml = xml0.format(jac=jac)
        m = mujoco.MjModel.from_xml_string(xml)
        m.opt.timestep = float(rng.choice([0.002, 0.01]))
        m.opt.density = float(rng.uniform(1, 40)) * hd
        m.opt.viscosity = float(rng.uniform(0.05, 0.5)) * hv
        windy = bool((r + hv) % 2)
        if windy:
          m.opt.wind[:] = rng.normal(0, 1.5, 3)
        edits = {"timestep": m.opt.timestep, "density": m.opt.density, "viscosity": m.opt.viscosity, "wind": m.opt.wind.tolist()}
        d = mujoco.MjData(m)
        d.qpos[:] = rng.normal(0, 0.5, m.nq)
        for j in range(m.njnt):
          if m.jnt_type[j] in (0, 1):
            a = m.jnt_qposadr[j] + (3 if m.jnt_type[j] == 0 else 0)
            q = rng.normal(0, 1, 4)
            d.qpos[a : a + 4] = q / np.linalg.norm(q)
        d.qvel[:] = rng.normal(0, [0.5, 3.0, 10.0][r % 3], m.nv).astype(np.float32)
        mujoco.mj_forward(m, d)
        for integ in (IMPLICITFAST, IMPLICIT):
          bad = compare_one(m, d, integ)
          res.count()
          res.nontrivial(("fluid", shape, mname, windy, jac, int(integ), r))
          stats[f"{shape}:{mname}"] = stats.get(f"{shape}:{mname}", 0) + 1
          for b in bad:
            b.update(xml=xml, edits=edits, features={"fluid": True, "ellipsoid": shape == "ellipsoid", "poly": False, "tendon": False, "forcelimited": False, "jac": jac,
                                                     "nv": m.nv, "nu": 0, "ntendon": 0, "fluidmedia": f"{shape}:{mname}{':wind' if windy else ''}"})  # fmt: skip
            fails.append(b)
  res.extra["oracle_fluid"] = stats
  return fails


def classify(f):
  ft = f["features"]
  if f["integrator"] == IMPLICIT and ft["ellipsoid"] and ft["fluid"] and f["lower_triangle_agrees"]:
    return K_ELLIPS
  tag = "implicit" if f["integrator"] == IMPLICIT else "implicitfast"
  if ft.get("fluidmedia") and not (f["integrator"] == IMPLICIT and ft["ellipsoid"] and f["lower_triangle_agrees"]):
    return f"C27:oracle:{tag}:fluid-derivative:{ft['fluidmedia']}:{ft['jac']}"
  if ft.get("polydamp"):
    i, j = f["worst"]
    return f"C27:oracle:{tag}:polynomial-damping-derivative:{'diagonal' if i == j else 'off-diagonal'}:{ft['jac']}"
  feats = "+".join(k for k in ("fluid", "ellipsoid", "poly", "tendon", "forcelimited", "muscle", "disable") if ft.get(k)) or "plain"
  if ft.get("fluid") and ft.get("medium", "both") != "both":
    feats += f"+{ft['medium']}-only-medium"
  return f"C27:oracle:{tag}:qderiv-mismatch:{feats}:{ft['jac']}"


# directed witnesses of the defects the random oracle deliberately avoids (or hits only sometimes)
DIRECTED = {
  K_CTRL: dict(
    xml='<mujoco><worldbody><body><joint name="j" type="slide"/><geom size=".1"/></body></worldbody><actuator><general joint="j" gaintype="affine" gainprm="1 0 2" ctrllimited="true" ctrlrange="-1 1"/></actuator></mujoco>',
    qvel=[0.3], ctrl=[3.0], act=[], integrator=IMPLICITFAST,
    what="_qderiv_actuator_passive_vel multiplies the affine gain's velocity coefficient by the raw ctrl_in; _actuator_force (and MuJoCo's mjd_actuator_vel) use ctrl clamped to ctrlrange. gain = 1 + 2*velocity, ctrlrange [-1,1], ctrl = 3: d force/d velocity = 2 (MuJoCo, finite differences), MJWarp qDeriv = 6 (Coq witness C27_actuator_vel_deriv_clamped_ctrl_refuted)",
  ),
  K_MUSCLE: dict(
    xml='<mujoco><worldbody><body><joint name="j" type="slide"/><geom size=".1"/></body></worldbody><actuator><muscle joint="j" lengthrange="-1 1"/></actuator></mujoco>',
    qpos=[0.1], qvel=[0.3], ctrl=[0.7], act=[0.6], integrator=IMPLICITFAST,
    what="_qderiv_actuator_passive_vel sets gain = 0 for GainType.MUSCLE: the velocity derivative of the muscle force-velocity curve is dropped, MuJoCo's mjd_actuator_vel includes it (slide joint muscle, act 0.6, velocity 0.3: MuJoCo / finite differences -80.5, MJWarp 0)",
  ),
  K_ACTDAMP: dict(
    xml='<mujoco><worldbody><body><joint name="j" type="slide"/><geom size=".1"/></body></worldbody><actuator><motor joint="j" damping="2"/></actuator></mujoco>',
    qvel=[0.3], ctrl=[0.0], act=[], integrator=IMPLICITFAST,
    what="mjModel.actuator_damping (actuator attribute damping=, MuJoCo 3.13; also set by <dcmotor damping=>) is silently ignored by put_model: neither qfrc_passive nor qDeriv contain the term (-2 here); put_model accepts the model",
  ),
  K_ELLIPS: dict(
    xml='<mujoco><option density="30" viscosity="0.1" gravity="0 0 0"/><worldbody><body><joint name="j0" axis="0 1 0"/><geom type="ellipsoid" size=".1 .05 .02" pos=".2 0 0" euler="10 20 30" fluidshape="ellipsoid"/>'
        '<body pos=".4 0 0"><joint name="j1" axis="0 0 1"/><geom type="ellipsoid" size=".08 .03 .05" pos=".1 .05 0" euler="40 -20 10" fluidshape="ellipsoid"/></body></body></worldbody></mujoco>',
    qpos=[0.3, -0.5], qvel=[3.0, -4.0], ctrl=[], act=[], integrator=IMPLICIT,
    what="integrator=implicit: deriv_smooth_vel computes the ellipsoid fluid derivative J_i^T B J_j only for M's lower triangle (i >= j) and _map_m2d mirrors it into the upper triangle of qLU; B is not symmetric for the full implicit integrator (added mass, Magnus, Kutta terms), so entries (j,i), j<i, are J_i^T B J_j instead of J_j^T B J_i. MuJoCo's qDeriv and finite differences agree with each other and differ from MJWarp in the upper triangle only",
  ),
}


def directed_state(spec):
  import mujoco

  m = mujoco.MjModel.from_xml_string(spec["xml"])
  if "edits" in spec:
    apply_edits(m, spec["edits"])
  d = mujoco.MjData(m)
  if spec.get("qpos"):
    d.qpos[:] = spec["qpos"]
  d.qvel[:] = spec["qvel"]
  if len(spec.get("ctrl", [])):
    d.ctrl[:] = spec["ctrl"]
  if len(spec.get("act", [])):
    d.act[:] = spec["act"]
  mujoco.mj_forward(m, d)
  return m, d


def directed(res):
  out = []
  for key, spec in DIRECTED.items():
    m, d = directed_state(spec)
    try:
      bad = compare_one(m, d, spec["integrator"])
    except NotImplementedError as e:  # put_model refuses the model: nothing is silently wrong any more
      res.extra.setdefault("directed_rejected", {})[key] = str(e)
      bad = []
    res.count()
    res.nontrivial(("directed", key))
    if bad:
      b = bad[0]
      out.append((key, spec["what"] + f" [entry {b['worst']}: MJWarp {b['mjw']:.6g}, MuJoCo {b['mujoco']:.6g}, finite differences {b['fd']:.6g}]",
                  {k: spec[k] for k in ("xml", "qvel", "ctrl", "act", "integrator") if k in spec} | {"qpos": spec.get("qpos", []), "observed": {k: b[k] for k in ("worst", "mjw", "mujoco", "fd", "tol")}}))  # fmt: skip
  return out


def run(res):
  quick = res.tier == "quick"
  res.rule = ("T-validation: random float32 (10% x=0, both parities); hand models vs real kernels: one case per random actuator (all dyn/gain/bias types, DC-motor slots); "
              "kernel validation: traced launches of two fixtures x {euler, implicit, implicitfast}, 2 worlds; oracle: distinct = (model, integrator); tolerance 1e-3*(1+max|qDeriv|) + 8ulp(M)/h")  # fmt: skip
  import time

  tm = res.extra.setdefault("timing_s", {})
  t0 = time.time()

  def lap(name):
    nonlocal t0
    tm[name] = round(time.time() - t0, 1)
    t0 = time.time()

  ok, trs, failing = propkit.prove(res, PROPS, gen_names=GENS, required_funcs=FUNCS)
  lap("prove")
  tr_ok = True
  for g, names in KERNELS.items():
    tr = trs.get(g)
    for k in names:
      have = tr is not None and k in getattr(tr, "kernels", {})
      res.obligation(f"translate-kernel:{g}:{k}", have, "" if have else json.dumps(getattr(tr, "errors", {}))[:400])
      tr_ok = tr_ok and have
  tbad = []
  if trs.get("T_util_misc") is not None:
    tbad = tvalidate(res, trs["T_util_misc"], 30 if quick else 600)
    res.obligation("T-validation: translated _poly_force/_poly_force_deriv/poly_potential agree with compiled Warp", not tbad, f"{len(tbad)} disagreements")
  lap("tvalidate")
  mbad = []
  if ok:
    vb = model_corr_vel(res, 90 if quick else 1600)
    res.obligation("correspondence: qderiv_vel_model vs real _qderiv_actuator_passive_vel", not vb, f"{len(vb)} disagreements; {res.extra.get('model_vel_correspondence', vb[:1])}")
    fb = model_corr_force(res, 60 if quick else 1200)
    res.obligation("correspondence: actuator_force_model vs real _actuator_force", not fb, f"{len(fb)} disagreements; {res.extra.get('model_force_correspondence', fb[:1])}")
    bb = model_corr_fluid(res, 6 if quick else 40)
    res.obligation("correspondence: fluid_force_box_model vs real _fluid_force (inertia-box branch, all media)", not bb, f"{len(bb)} disagreements; {res.extra.get('model_fluid_correspondence', bb[:1])}")
    mbad = vb + fb + bb
  lap("hand-model correspondence")
  kbad = []
  if tr_ok:
    kbad = kvalidate(res, trs, quick)
    res.obligation("kernel validation: translated derivative kernels agree with traced launches of the real kernels", not kbad, f"{len(kbad)} disagreements")
  lap("kernel validation")
  fails, inv_bad = oracle(res, 36 if quick else 400)
  pfails = oracle_poly(res, 12 if quick else 120)
  ffails = oracle_fluid(res, 2 if quick else 12)
  fails = fails + pfails + ffails
  efails = oracle_euler(res, 10 if quick else 100)
  lap("oracle")
  seen = set()
  for key, what, data in directed(res):
    seen.add(key)
    res.violation(key, what, data)
  for f in fails:
    key = classify(f)
    if key in seen:
      continue
    seen.add(key)
    res.violation(key, f"qDeriv disagrees ({'implicit' if f['integrator'] == IMPLICIT else 'implicitfast'}, world {f['world']}, entry {f['worst']}): MJWarp {f['mjw']:.6g}, MuJoCo {f['mujoco']:.6g}, finite differences {f['fd']:.6g}, tol {f['tol']:.2e}", f)
  for f in efails[:1]:
    res.violation(f"C27:oracle:euler:damping-matrix:{'off-diagonal' if f['offdiagonal'] else 'diagonal'}", f"euler() factorises M + h*D with (A-M)/h[{f['worst']}] = {f['mjw']:.6g}, minus the finite-difference damper derivative is {f['fd']:.6g} (tol {f['tol']:.2e})", f)
  for b in inv_bad[:1]:
    res.violation("C27:csr-lower-invariant-broken", "mjModel M layout violates the CSR-lower invariant assumed by _euler_damp_qfrc (last entry of a row is not the diagonal)", b)
  anyfail = bool(fails or inv_bad or efails)
  if (tbad or mbad or kbad) and not anyfail:
    res.violation("C27:translator-or-model-mismatch", "translated Gallina / hand model disagrees with the real kernel (model no longer tied to code)", (tbad + mbad + kbad)[:3], found_input=False)
  if (not ok or not tr_ok) and not anyfail:
    propkit.broken_proof_violation(res, "C27 theorems over the regenerated derivative/damping kernels", failing or "Gen/T_derivative.v")
  res.assumptions += [
    "float32 rounding is not modelled: theorems are over R; oracle tolerance as in `rule`",
    "fluid_force_box_model (inertia-box branch of passive._fluid_force; the translator rejects wp.pow) and qderiv_vel_model / actuator_force_model are hand copies (translator rejects dcmotor_slots' vector element assignment); they are compared with the real kernels on every run",
    "the actuator theorem covers fixed/affine/muscle/user gain and none/affine/muscle/user bias with every non-DC-motor dynamics type; muscle gain only away from the three FV breakpoints; DC-motor branches are only in the correspondence",
    "RNE passes, fluid derivative kernels, tendon damping kernel and the assembly over all dof pairs are covered by the oracle only",
    "implicitfast is compared with the symmetrised derivative without the bias term on M's pattern (the integrator's documented approximation); childless free bodies are compared with finite differences only (MuJoCo 3.13 differs there: C08:implicitfast:childless-free-body-rne-derivative)",
    "derivatives w.r.t. joint/tendon actuator force limits (actuatorfrcrange) are ignored by MuJoCo and MJWarp alike and are not generated",
  ]


def replay(res, path):
  r = json.load(open(path))["replay"]
  if isinstance(r, list) or "xml" not in r:
    print("replay: no concrete input in this file (proof/correspondence breakage); re-run the check")
    return 1
  m, d = directed_state(r)
  bad = compare_one(m, d, r["integrator"])
  np.set_printoptions(precision=6, suppress=True, linewidth=200)
  got, _ = mjw_qderiv(m, d, r["integrator"])
  mjq, fdq, _ = expected(m, d, r["integrator"])
  print("MJWarp (M - out)/h:\n", got[0], "\nMuJoCo qDeriv:\n", mjq, "\nfinite differences:\n", fdq)
  print("disagreement:" if bad else "agreement", bad[0]["worst"] if bad else "")
  return 0
